/-
The single-digit binary loop of bn_smb_jac computes the Jacobi symbol (Mathlib's `jacobiSym`) for every n and every odd d,
and hence the whole function does for every odd positive modulus that fits one digit.
Invariant: jacobiSym n₀ d₀ = sgn t * jacobiSym n d with d odd, where sgn t = (-1)^(bit 1 of t).
-/
import Mathlib.NumberTheory.LegendreSymbol.JacobiSymbol
import Mathlib.Data.Nat.Bitwise
import RelicVerif.Model.NtSmb

namespace Relic.Lemmas.NtSmb
open Relic.Model.NtSmb

/-- (-1)^(bit 1 of t) -/
def sgn (t : ℕ) : ℤ := if t.testBit 1 then -1 else 1

/-- the value of (2/d) for odd d -/
def eps (d : ℕ) : ℤ := if d % 8 = 3 ∨ d % 8 = 5 then -1 else 1

theorem sgn_xor (a b : ℕ) : sgn (a ^^^ b) = sgn a * sgn b := by
  unfold sgn
  rw [Nat.testBit_xor]
  cases a.testBit 1 <;> cases b.testBit 1 <;> simp

theorem testBit_one (x : ℕ) : x.testBit 1 = decide (x / 2 % 2 = 1) := by
  rw [show (1 : ℕ) = 0 + 1 from rfl, Nat.testBit_succ, Nat.testBit_zero]

theorem testBit_two (x : ℕ) : x.testBit 2 = decide (x / 4 % 2 = 1) := by
  rw [show (2 : ℕ) = 0 + 1 + 1 from rfl, Nat.testBit_succ, Nat.testBit_succ, Nat.testBit_zero, Nat.div_div_eq_div_mul]

theorem sgn_and_odd {n d : ℕ} (hn : n % 2 = 1) (hd : d % 2 = 1) :
    sgn (d &&& n) = if n % 4 = 3 ∧ d % 4 = 3 then -1 else 1 := by
  unfold sgn
  rw [Nat.testBit_and, testBit_one, testBit_one]
  have h1 : (n / 2 % 2 = 1) ↔ n % 4 = 3 := by omega
  have h2 : (d / 2 % 2 = 1) ↔ d % 4 = 3 := by omega
  simp only [h1, h2, Bool.and_eq_true, decide_eq_true_eq]
  by_cases a : n % 4 = 3 <;> by_cases b : d % 4 = 3 <;> simp [a, b]

theorem sgn_gray {d : ℕ} (hd : d % 2 = 1) : sgn (d ^^^ (d >>> 1)) = eps d := by
  unfold sgn eps
  rw [Nat.testBit_xor, Nat.testBit_shiftRight, testBit_one, show 1 + 1 = 2 from rfl, testBit_two]
  rcases (by omega : d % 8 = 1 ∨ d % 8 = 3 ∨ d % 8 = 5 ∨ d % 8 = 7) with h | h | h | h
  · have a : d / 2 % 2 = 0 := by omega
    have b : d / 4 % 2 = 0 := by omega
    simp [a, b, h]
  · have a : d / 2 % 2 = 1 := by omega
    have b : d / 4 % 2 = 0 := by omega
    simp [a, b, h]
  · have a : d / 2 % 2 = 0 := by omega
    have b : d / 4 % 2 = 1 := by omega
    simp [a, b, h]
  · have a : d / 2 % 2 = 1 := by omega
    have b : d / 4 % 2 = 1 := by omega
    simp [a, b, h]

theorem eps_sq (d : ℕ) : eps d = 1 ∨ eps d = -1 := by
  unfold eps; split <;> simp

theorem neg_one_pow_if (z : ℕ) : (-1 : ℤ) ^ z = if z % 2 = 1 then -1 else 1 := by
  rcases Nat.even_or_odd z with h | h
  · rw [h.neg_one_pow]; have := Nat.even_iff.mp h; simp [this]
  · rw [h.neg_one_pow]; have := Nat.odd_iff.mp h; simp [this]

theorem sgn_and_shl (x z : ℕ) : sgn (x &&& (z <<< 1)) = if x.testBit 1 then (-1 : ℤ) ^ z else 1 := by
  unfold sgn
  rw [Nat.testBit_and, Nat.testBit_shiftLeft, neg_one_pow_if]
  simp only [ge_iff_le, le_refl, decide_true, Nat.sub_self, Bool.true_and, Nat.testBit_zero]
  cases x.testBit 1 <;> by_cases h : z % 2 = 1 <;> simp [h]

/-- the even step: bit 1 of `(d ^ (d >> 1)) & (z << 1)` is the sign (2/d)^z -/
theorem sgn_gray_shl {d : ℕ} (hd : d % 2 = 1) (z : ℕ) : sgn ((d ^^^ (d >>> 1)) &&& (z <<< 1)) = eps d ^ z := by
  rw [sgn_and_shl]
  have h := sgn_gray hd
  unfold sgn at h
  split
  · next hb => rw [if_pos hb] at h; rw [← h]
  · next hb => rw [if_neg hb] at h; rw [← h, one_pow]

theorem two_pow_tz_dvd (n : ℕ) : 2 ^ tz n ∣ n := by
  induction n using Nat.strong_induction_on with
  | _ n ih =>
    unfold tz
    split
    · simp
    · next h0 =>
      split
      · next he =>
        have := ih (n / 2) (by omega)
        rw [pow_succ]
        obtain ⟨k, hk⟩ := this
        exact ⟨k, by rw [mul_right_comm, ← hk]; omega⟩
      · simp

theorem tz_spec (n : ℕ) : n = 2 ^ tz n * (n >>> tz n) := by
  rw [Nat.shiftRight_eq_div_pow, Nat.mul_div_cancel' (two_pow_tz_dvd n)]

open scoped NumberTheorySymbols

theorem jac_two {d : ℕ} (hd : d % 2 = 1) : J(2 | d) = eps d := by
  have h := jacobiSym.even_odd (a := 2) (b := d) (by norm_num) hd
  rw [show (2 : ℤ) / 2 = 1 by norm_num, jacobiSym.one_left] at h
  unfold eps
  rw [← h]

theorem jac_two_pow_mul {d : ℕ} (hd : d % 2 = 1) (z m : ℕ) : J(((2 ^ z * m : ℕ) : ℤ) | d) = eps d ^ z * J((m : ℤ) | d) := by
  push_cast
  rw [jacobiSym.mul_left, jacobiSym.pow_left, jac_two hd]

/-- J(n | d) = (2/d) · J((n - d)/2 | d) for odd n ≥ d, d odd -/
theorem jac_sub_half {n d : ℕ} (hn : n % 2 = 1) (hd : d % 2 = 1) (hle : d ≤ n) :
    J((n : ℤ) | d) = eps d * J((((n - d) >>> 1 : ℕ) : ℤ) | d) := by
  have h1 : J((n : ℤ) | d) = J(((n - d : ℕ) : ℤ) | d) := by
    apply jacobiSym.mod_left'
    rw [Nat.cast_sub hle]
    simp
  have h2 := jacobiSym.even_odd (a := ((n - d : ℕ) : ℤ)) (b := d) (by omega) hd
  rw [h1, ← h2, Nat.shiftRight_eq_div_pow, pow_one]
  unfold eps
  push_cast
  split <;> simp

theorem finish_eq {d t : ℕ} (hd : d % 2 = 1) : finish d t = sgn t * J((0 : ℤ) | d) := by
  unfold finish
  split
  · next h1 =>
    subst h1
    rw [jacobiSym.one_right, mul_one]
    unfold sgn
    have : t &&& 2 = if t.testBit 1 then 2 else 0 := by
      have := Nat.and_two_pow t 1
      rw [pow_one] at this
      rw [this]
      cases t.testBit 1 <;> simp
    rw [this]
    split <;> simp
  · next h1 =>
    rw [jacobiSym.zero_left (by omega), mul_zero]

/-- The single-digit loop, for every n, every odd d and every starting t. -/
theorem jacSingle_eq (n d t : ℕ) (hd : d % 2 = 1) : jacSingle n d t = sgn t * J((n : ℤ) | d) := by
  induction hm : n + d using Nat.strong_induction_on generalizing n d t with
  | _ m ih =>
    unfold jacSingle
    rw [single]
    split
    · next h0 =>
      subst h0
      simpa using finish_eq (t := t) hd
    · next h0 =>
      split
      · next h1 =>
        split
        · next hlt =>
          -- swap, subtract, halve
          have := ih (((d - n) >>> 1) + n) (by simp only [Nat.shiftRight_eq_div_pow]; omega) ((d - n) >>> 1) n
            ((t ^^^ (d &&& n)) ^^^ (n ^^^ (n >>> 1))) h1 rfl
          unfold jacSingle at this
          rw [this, sgn_xor, sgn_xor, sgn_and_odd h1 hd, sgn_gray h1]
          have hr := jacobiSym.quadratic_reciprocity_if (a := n) (b := d) h1 hd
          have hs := jac_sub_half hd h1 (le_of_lt hlt)
          rw [← hr, hs]
          rcases eps_sq n with e | e <;> rw [e] <;> split <;> ring
        · next hge =>
          have := ih (((n - d) >>> 1) + d) (by simp only [Nat.shiftRight_eq_div_pow]; omega) ((n - d) >>> 1) d
            (t ^^^ (d ^^^ (d >>> 1))) hd rfl
          unfold jacSingle at this
          rw [this, sgn_xor, sgn_gray hd, jac_sub_half h1 hd (by omega)]
          rcases eps_sq d with e | e <;> rw [e] <;> ring
      · next h1 =>
        have hlt := shiftRight_tz_lt h0 (by omega)
        have := ih ((n >>> tz n) + d) (by omega) (n >>> tz n) d
          (t ^^^ ((d ^^^ (d >>> 1)) &&& (tz n <<< 1))) hd rfl
        unfold jacSingle at this
        rw [this, sgn_xor, sgn_gray_shl hd]
        conv_rhs => rw [tz_spec n, jac_two_pow_mul hd]
        rcases eps_sq d with e | e <;> rw [e] <;> rcases Nat.even_or_odd (tz n) with hz | hz <;>
          simp [hz.neg_one_pow] <;> ring

theorem sgn_zero : sgn 0 = 1 := by simp [sgn]

theorem used_one {w x : ℕ} (hw : 0 < w) (hx : x < 2 ^ w) : used w x = 1 := by
  unfold used
  split
  · rfl
  · next h0 =>
    have : Nat.log2 x < w := (Nat.log2_lt h0).mpr hx
    rw [Nat.div_eq_of_lt this]

theorem dig_zero {w x : ℕ} (hx : x < 2 ^ w) : dig w x 0 = x := by
  unfold dig
  simp [Nat.mod_eq_of_lt hx]

/-- bn_smb_jac for an odd positive modulus that fits one digit -/
theorem jac_one_digit (w : ℕ) (a b : ℤ) (hw : 0 < w) (hb : 0 < b) (hodd : b % 2 = 1) (hlt : b < 2 ^ w) :
    jac w a b = some (J(a | b.toNat)) := by
  have hbn : ((b.toNat : ℕ) : ℤ) = b := Int.toNat_of_nonneg hb.le
  have h1 : b.toNat < 2 ^ w := by
    have : ((b.toNat : ℕ) : ℤ) < ((2 ^ w : ℕ) : ℤ) := by rw [hbn]; exact_mod_cast hlt
    exact_mod_cast this
  have hr0 : 0 ≤ a % b := Int.emod_nonneg a hb.ne'
  have hrn : (((a % b).toNat : ℕ) : ℤ) = a % b := Int.toNat_of_nonneg hr0
  have h0 : (a % b).toNat < 2 ^ w := by
    have h : (((a % b).toNat : ℕ) : ℤ) < ((b.toNat : ℕ) : ℤ) := by rw [hrn, hbn]; exact Int.emod_lt_of_pos a hb
    have : (a % b).toNat < b.toNat := by exact_mod_cast h
    omega
  have hbodd : b.toNat % 2 = 1 := by omega
  unfold jac jacT
  simp only []
  rw [show 2 * (bitLen (a % b).toNat + bitLen b.toNat) + 64 = (2 * (bitLen (a % b).toNat + bitLen b.toNat) + 63) + 1 from rfl, outer]
  simp only [used_one hw h0, used_one hw h1, max_self, if_true, Option.map_some, dig_zero h0, dig_zero h1]
  rw [jacSingle_eq _ _ _ hbodd, sgn_zero, one_mul, hrn]
  congr 1
  conv_rhs => rw [jacobiSym.mod_left, hbn]

end Relic.Lemmas.NtSmb
