/-
Number-theoretic glue for property C06: the executable helpers of Spec/Curve.lean (`powMod`, `invEuclid`) compute what
their names say.
-/
import Mathlib.Data.Nat.GCD.Basic
import Mathlib.Data.Int.GCD
import Mathlib.Data.ZMod.Basic
import Mathlib.Tactic.Ring
import Mathlib.Tactic.Linarith
import RelicVerif.Lemmas.Pratt

namespace Relic.Lemmas.NumC06
open Relic.Spec.Curve (powMod invEuclid)

/-- square-and-multiply = exponentiation followed by reduction -/
theorem powMod_eq (a e m : Nat) (hm : 1 < m) : powMod a e m = a ^ e % m :=
  Relic.Model.Pratt.powMod_eq a e m hm

theorem go_stop (f r0 : Nat) (s0 s1 : Int) : invEuclid.go (f + 1) r0 0 s0 s1 = s0 := by
  simp [invEuclid.go]

theorem go_step (f r0 r1 : Nat) (s0 s1 : Int) (h : r1 ≠ 0) :
    invEuclid.go (f + 1) r0 r1 s0 s1 = invEuclid.go f r1 (r0 % r1) s1 (s0 - (r0 / r1 : Nat) * s1) := by
  simp [invEuclid.go, h]

theorem mod_halve (a b : Nat) (hb : 0 < b) (hba : b ≤ a) : 2 * (a % b) < a := by
  have h1 := Nat.div_add_mod a b
  have h2 := Nat.mod_lt a hb
  have h3 : 0 < a / b := Nat.div_pos hba hb
  have h4 : b ≤ b * (a / b) := Nat.le_mul_of_pos_right b h3
  omega

theorem go_inv (m x : Nat) : ∀ (k fuel r0 r1 : Nat) (s0 s1 : Int), r1 < 2 ^ k → 2 * k + 1 ≤ fuel →
    (m : Int) ∣ s0 * x - r0 → (m : Int) ∣ s1 * x - r1 →
    (m : Int) ∣ invEuclid.go fuel r0 r1 s0 s1 * x - (Nat.gcd r0 r1 : Nat) := by
  have step : ∀ (r0 r1 : Nat) (s0 s1 : Int), (m : Int) ∣ s0 * x - r0 → (m : Int) ∣ s1 * x - r1 →
      (m : Int) ∣ (s0 - (r0 / r1 : Nat) * s1) * x - (r0 % r1 : Nat) := by
    intro r0 r1 s0 s1 h0 h1
    have e : ((r0 : Nat) : Int) = r1 * (r0 / r1 : Nat) + (r0 % r1 : Nat) := by
      exact_mod_cast (Nat.div_add_mod r0 r1).symm
    have : (s0 - (r0 / r1 : Nat) * s1) * x - (r0 % r1 : Nat)
        = (s0 * x - r0) - (r0 / r1 : Nat) * (s1 * x - r1) := by
      rw [e]; push_cast; ring
    rw [this]
    exact dvd_sub h0 (Dvd.dvd.mul_left h1 _)
  intro k
  induction k with
  | zero =>
    intro fuel r0 r1 s0 s1 hr hf h0 h1
    obtain ⟨f, rfl⟩ : ∃ f, fuel = f + 1 := ⟨fuel - 1, by omega⟩
    have : r1 = 0 := by simpa using hr
    subst this
    rw [go_stop, Nat.gcd_zero_right]; exact h0
  | succ k ih =>
    intro fuel r0 r1 s0 s1 hr hf h0 h1
    obtain ⟨f, rfl⟩ : ∃ f, fuel = f + 1 + 1 := ⟨fuel - 2, by omega⟩
    by_cases hr1 : r1 = 0
    · subst hr1
      rw [go_stop, Nat.gcd_zero_right]; exact h0
    rw [go_step _ _ _ _ _ hr1]
    have hg1 : Nat.gcd r0 r1 = Nat.gcd r1 (r0 % r1) := by
      rw [Nat.gcd_comm r0 r1, Nat.gcd_rec r1 r0, Nat.gcd_comm]
    rw [hg1]
    have h2 := step r0 r1 s0 s1 h0 h1
    by_cases hr2 : r0 % r1 = 0
    · rw [hr2] at h2 ⊢
      rw [go_stop, Nat.gcd_zero_right]; exact h1
    rw [go_step _ _ _ _ _ hr2]
    have hg2 : Nat.gcd r1 (r0 % r1) = Nat.gcd (r0 % r1) (r1 % (r0 % r1)) := by
      rw [Nat.gcd_comm r1 (r0 % r1), Nat.gcd_rec (r0 % r1) r1, Nat.gcd_comm]
    rw [hg2]
    have h3 := step r1 (r0 % r1) s1 _ h1 h2
    have hlt : r0 % r1 < r1 := Nat.mod_lt _ (Nat.pos_of_ne_zero hr1)
    have hh := mod_halve r1 (r0 % r1) (Nat.pos_of_ne_zero hr2) hlt.le
    refine ih f _ _ _ _ ?_ (by omega) h2 h3
    rw [pow_succ] at hr; omega

/-- the extended-Euclid inverse is an inverse: full statement for every modulus > 1 and every unit -/
theorem invEuclid_mul_mod (m x : Nat) (hm : 1 < m) (hg : Nat.Coprime x m) : invEuclid m x * x % m = 1 := by
  have hlog : m < 2 ^ (Nat.log2 m + 1) := Nat.lt_log2_self
  have hinv := go_inv m x (Nat.log2 m + 1) (2 * Nat.log2 m + 4) (x % m) m 1 0 hlog (by omega)
    (by
      have : (1 : Int) * x - (x % m : Nat) = m * (x / m : Nat) := by
        have := Nat.div_add_mod x m
        push_cast
        have e : (x : Int) = m * (x / m : Nat) + (x % m : Nat) := by exact_mod_cast this.symm
        push_cast at e; linarith
      rw [this]; exact dvd_mul_right _ _)
    (by simp)
  have hgcd : Nat.gcd (x % m) m = 1 := by
    rw [← Nat.gcd_rec, Nat.gcd_comm]; exact hg
  rw [hgcd] at hinv
  unfold invEuclid
  set g := invEuclid.go (2 * Nat.log2 m + 4) (x % m) m 1 0 with hgdef
  have hmpos : (0 : Int) < m := by exact_mod_cast (by omega : 0 < m)
  have hnn : 0 ≤ g % (m : Int) := Int.emod_nonneg _ (by omega)
  have hcast : (((g % (m : Int)).toNat * x % m : Nat) : Int) = 1 := by
    push_cast
    rw [Int.toNat_of_nonneg hnn, Int.mul_emod, Int.emod_emod_of_dvd _ (dvd_refl _), ← Int.mul_emod]
    have h1 : g * x % (m : Int) = 1 % (m : Int) := by
      rw [Int.emod_eq_emod_iff_emod_sub_eq_zero]
      exact Int.emod_eq_zero_of_dvd (by simpa using hinv)
    rw [h1]
    exact Int.emod_eq_of_lt (by omega) (by omega)
  exact_mod_cast hcast

theorem invEuclid_lt (m x : Nat) (hm : 0 < m) : invEuclid m x < m := by
  unfold invEuclid
  have hmpos : (0 : Int) < m := by exact_mod_cast hm
  have h1 := Int.emod_lt_of_pos (invEuclid.go (2 * Nat.log2 m + 4) (x % m) m 1 0) hmpos
  have h2 := Int.emod_nonneg (invEuclid.go (2 * Nat.log2 m + 4) (x % m) m 1 0) (by omega : (m : Int) ≠ 0)
  omega

end Relic.Lemmas.NumC06
