/-
The x-only López-Dahab ladder step of eb_mul_lodah over a field of characteristic two:
 * Mdouble: for P = (x, y) on the curve, x ≠ 0, x(2P) = x² + b/x² = (X⁴ + b Z⁴)/(X² Z²);
 * Madd: x(P1 + P2) + x(P1 - P2) = x1 x2/(x1 + x2)² for any two affine points with x1 ≠ x2, hence with x = x(P2 - P1) the
   projective pair Z = (X1 Z2 + X2 Z1)², X = x·Z + (X1 Z2)(X2 Z1) denotes x(P1 + P2).
(The group-level ladder invariant (R, R + P) is `mulLadder_spec` in Lemmas/MulAlg.lean.)
-/
import RelicVerif.Lemmas.EbFormulas

namespace Relic.Lemmas.EbLadder
open Relic.Lemmas.EbFormulas

set_option linter.unusedSectionVars false

variable {F : Type} [Field F] [CharP F 2] [DecidableEq F]

local macro "char2_norm" : tactic => `(tactic| ((try ring_nf); (try reduce_mod_char!)))
local macro "char2" : tactic => `(tactic| (rw [← sub_eq_zero]; char2_norm))

/-- Mdouble, affine form: the x-coordinate of the double depends on x and b only -/
theorem mdouble_affine (a b x y : F) (hx : x ≠ 0) (h : y ^ 2 + x * y = x ^ 3 + a * x ^ 2 + b) :
    tangX a x y = x ^ 2 + b / x ^ 2 := by
  have hl : tangL x y * x = x ^ 2 + y := by simp only [tangL]; field_simp
  simp only [tangX]
  generalize tangL x y = l at hl ⊢
  have hy : y = l * x + x ^ 2 := by linear_combination (norm := char2_norm) hl
  subst hy
  have hb : b = (l * x + x ^ 2) ^ 2 + x * (l * x + x ^ 2) + x ^ 3 + a * x ^ 2 := by
    linear_combination (norm := char2_norm) h
  subst hb
  field_simp
  char2

/-- Mdouble, projective form used by the code: Z' = X² Z², X' = X⁴ + b Z⁴ -/
theorem mdouble_projective (a b X Z y : F) (hX : X ≠ 0) (hZ : Z ≠ 0)
    (h : y ^ 2 + (X / Z) * y = (X / Z) ^ 3 + a * (X / Z) ^ 2 + b) :
    tangX a (X / Z) y = (X ^ 4 + b * Z ^ 4) / (X ^ 2 * Z ^ 2) := by
  rw [mdouble_affine a b (X / Z) y (div_ne_zero hX hZ) h]
  field_simp

/-- Madd: the sum of the x-coordinates of P1 + P2 and P1 - P2 -/
theorem madd_affine (a x1 y1 x2 y2 : F) (hx : x1 ≠ x2) :
    chordX a x1 y1 x2 y2 + chordX a x1 y1 x2 (x2 + y2) = x1 * x2 / (x1 + x2) ^ 2 := by
  have hs : x1 + x2 ≠ 0 := add_ne_zero2 hx
  simp only [chordX, chordL]
  field_simp
  char2

/-- Madd, projective form used by the code: with x = x(P1 - P2) (= x(P2 - P1)), Z' = (X1 Z2 + X2 Z1)², X' = x·Z' + X1 Z2·X2 Z1 -/
theorem madd_projective (a X1 Z1 y1 X2 Z2 y2 : F) (hZ1 : Z1 ≠ 0) (hZ2 : Z2 ≠ 0) (hx : X1 / Z1 ≠ X2 / Z2) :
    chordX a (X1 / Z1) y1 (X2 / Z2) y2 =
      (chordX a (X1 / Z1) y1 (X2 / Z2) (X2 / Z2 + y2) * (X1 * Z2 + X2 * Z1) ^ 2 + (X1 * Z2) * (X2 * Z1)) / (X1 * Z2 + X2 * Z1) ^ 2 := by
  have h := madd_affine a (X1 / Z1) y1 (X2 / Z2) y2 hx
  have hd : X1 * Z2 + X2 * Z1 ≠ 0 := by
    intro h0
    apply hx
    rw [div_eq_div_iff hZ1 hZ2]
    have : X1 * Z2 = X2 * Z1 := (add_eq_zero_iff2 _ _).mp h0
    exact this
  have hxx : X1 / Z1 * (X2 / Z2) / (X1 / Z1 + X2 / Z2) ^ 2 = (X1 * Z2) * (X2 * Z1) / (X1 * Z2 + X2 * Z1) ^ 2 := by
    field_simp
  rw [hxx] at h
  generalize chordX a (X1 / Z1) y1 (X2 / Z2) y2 = s at h ⊢
  generalize chordX a (X1 / Z1) y1 (X2 / Z2) (X2 / Z2 + y2) = d at h ⊢
  have hs : s = d + (X1 * Z2) * (X2 * Z1) / (X1 * Z2 + X2 * Z1) ^ 2 := by
    linear_combination (norm := char2_norm) h
  rw [hs]
  field_simp

end Relic.Lemmas.EbLadder
