/-
The macro machine of Model/Err.lean (RLC_TRY / RLC_CATCH / RLC_FINALLY / RLC_THROW with the context
fields last, caught, code) refines the structured try/throw/catch/finally semantics, for every program.
-/
import RelicVerif.Model.Err

namespace Relic.Model.Err

/-! ## catch-variable store -/

theorem find_filter_ne (vs : List (Nat × Nat)) (id i : Nat) (h : i ≠ id) :
    (vs.filter (·.1 ≠ id)).find? (·.1 = i) = vs.find? (·.1 = i) := by
  rw [List.find?_filter]
  congr 1
  funext a
  by_cases hi : a.1 = i
  · simp [hi]
    omega
  · simp [hi]

theorem getVar_setVar (vs : List (Nat × Nat)) (id v i : Nat) :
    getVar (setVar vs id v) i = if i = id then v else getVar vs i := by
  unfold getVar setVar
  by_cases h : i = id
  · subst h; simp
  · have h' : ¬ id = i := fun e => h e.symm
    simp only [h, if_false]
    rw [List.find?_cons]
    simp only [h', decide_false]
    rw [find_filter_ne vs id i h]

/-! ## simulation -/

/-- id of the innermost frame -/
def hid (ms : MSt) : Nat :=
  match ms.last with
  | f :: _ => f.id
  | [] => 0

def topChain (b : Bool) : List Frame := if b then [{ id := 0, block := false }] else []

def Pre (d : Nat) (ms : MSt) (ss : SSt) : Prop :=
  ms.trace = ss.trace ∧ ms.code = ss.code ∧
  (d = 0 → ms.last = topChain ss.top) ∧
  (0 < d → ∃ f rest, ms.last = f :: rest ∧ f.block = true ∧ f.id ≤ ms.next)

def Post (d : Nat) (ms : MSt) (ss : SSt) (mr : MOut × MSt) (sr : SOut × SSt) : Prop :=
  mr.2.trace = sr.2.trace ∧ mr.2.code = sr.2.code ∧ ms.next ≤ mr.2.next ∧
  (0 < d → sr.2.top = ss.top) ∧
  match sr.1 with
  | .normal =>
    mr.1 = .normal ∧ (d = 0 → mr.2.last = topChain sr.2.top) ∧ (0 < d → mr.2.last = ms.last) ∧
    ∀ i, i ≤ ms.next → getVar mr.2.vars i = getVar ms.vars i
  | .thrown e =>
    0 < d ∧ mr.1 = .jump (hid ms) ∧
    ∀ i, i ≤ ms.next → getVar mr.2.vars i = if i = hid ms ∧ e ≠ 0 then e else getVar ms.vars i

theorem Pre_of_Post_normal {d ms ss mr sr} (hpre : Pre d ms ss) (hp : Post d ms ss mr sr)
    (hn : sr.1 = .normal) : Pre d mr.2 sr.2 := by
  obtain ⟨h1, h2, h3, h4⟩ := hpre
  obtain ⟨p1, p2, p3, p4, p5⟩ := hp
  rw [hn] at p5
  obtain ⟨q1, q2, q3, q4⟩ := p5
  refine ⟨p1, p2, q2, ?_⟩
  intro hd
  obtain ⟨f, rest, e1, e2, e3⟩ := h4 hd
  exact ⟨f, rest, by rw [q3 hd, e1], e2, by omega⟩

theorem Post_mono {d ms ss ms2 ss2 mr sr} (hn : ms.next ≤ ms2.next) (hl : 0 < d → ms2.last = ms.last)
    (ht : 0 < d → ss2.top = ss.top) (hv : ∀ i, i ≤ ms.next → getVar ms2.vars i = getVar ms.vars i)
    (hp : Post d ms2 ss2 mr sr) : Post d ms ss mr sr := by
  obtain ⟨p1, p2, p3, p4, p5⟩ := hp
  refine ⟨p1, p2, by omega, fun hd => by rw [p4 hd, ht hd], ?_⟩
  cases hs : sr.1 with
  | normal =>
    rw [hs] at p5
    obtain ⟨q1, q2, q3, q4⟩ := p5
    refine ⟨q1, q2, fun hd => by rw [q3 hd, hl hd], ?_⟩
    intro i hi
    rw [q4 i (by omega), hv i hi]
  | thrown e =>
    rw [hs] at p5
    obtain ⟨q1, q2, q3⟩ := p5
    have hh : hid ms2 = hid ms := by unfold hid; rw [hl q1]
    refine ⟨q1, by rw [q2, hh], ?_⟩
    intro i hi
    rw [q3 i (by omega), hv i hi, hh]

theorem Post_refl_normal {d ms ss ms' ss'} (hpre : Pre d ms ss) (ht : ms'.trace = ss'.trace)
    (hc : ms'.code = ss'.code) (hl : ms'.last = ms.last) (hn : ms'.next = ms.next)
    (hv : ms'.vars = ms.vars) (htop : ss'.top = ss.top) :
    Post d ms ss (.normal, ms') (.normal, ss') := by
  obtain ⟨h1, h2, h3, h4⟩ := hpre
  refine ⟨ht, hc, by simp [hn], fun _ => htop, rfl, ?_, fun _ => hl, ?_⟩
  · intro hd; simp only [hl, htop]; exact h3 hd
  · intro i _; simp only [hv]

theorem sim_throw (e d : Nat) (ms : MSt) (ss : SSt) (hpre : Pre d ms ss) :
    Post d ms ss (mThrow ms e) (sEval (.throw e) d ss) := by
  obtain ⟨h1, h2, h3, h4⟩ := hpre
  cases d with
  | zero =>
    have hl := h3 rfl
    simp only [sEval, if_true]
    unfold mThrow
    cases htop : ss.top with
    | false =>
      rw [htop] at hl
      simp only [topChain] at hl
      simp only [hl]
      refine ⟨h1, rfl, Nat.le_refl _, fun hd => absurd hd (by omega), rfl, fun _ => rfl,
        fun hd => absurd hd (by omega), fun i _ => rfl⟩
    | true =>
      rw [htop] at hl
      simp only [topChain, if_true] at hl
      simp only [hl]
      refine ⟨h1, rfl, Nat.le_refl _, fun hd => absurd hd (by omega), rfl, fun _ => ?_,
        fun hd => absurd hd (by omega), fun i _ => rfl⟩
      simp [topChain]
  | succ d =>
    obtain ⟨f, rest, e1, e2, e3⟩ := h4 (by omega)
    have hne : d + 1 ≠ 0 := by omega
    simp only [sEval, hne, if_false]
    unfold mThrow
    simp only [e1, e2, if_true]
    have hh : hid ms = f.id := by unfold hid; rw [e1]
    refine ⟨?_, ?_, ?_, fun _ => rfl, by omega, by rw [hh], ?_⟩
    · split <;> exact h1
    · split <;> rfl
    · split <;> exact Nat.le_refl _
    · intro i hi
      rw [hh]
      by_cases he : e = 0
      · simp [he]
      · simp only [he, ne_eq, not_false_eq_true, if_true, and_true]
        rw [getVar_setVar]

theorem sim_tail (handler fin : Prog) (var : Bool) (id : Nat) (latched : Bool) (d : Nat)
    (ihf : ∀ ms ss, Pre d ms ss → Post d ms ss (mEval true fin ms) (sEval fin d ss))
    (ihh : ∀ ms ss, Pre d ms ss → Post d ms ss (mEval true handler ms) (sEval handler d ss))
    (ms : MSt) (ss : SSt) (hpre : Pre d ms ss) (hid : id ≤ ms.next) (ev : Nat)
    (hv : latched = true → var = true → getVar ms.vars id = ev) :
    Post d ms ss (mTail true (mEval true fin) (mEval true handler) var id latched ms)
      (if latched then
        (match sEval fin d ss with
         | (.normal, s) =>
           sEval handler d (if var then { s with trace := s.trace ++ [.caught ev] } else s)
         | r => r)
       else sEval fin d ss) := by
  have hf := ihf ms ss hpre
  unfold mTail
  generalize hm : mEval true fin ms = mr at hf
  generalize hs : sEval fin d ss = sr at hf
  obtain ⟨mo, ms'⟩ := mr
  obtain ⟨so, ss'⟩ := sr
  cases so with
  | normal =>
    have hpre' := Pre_of_Post_normal hpre hf rfl
    obtain ⟨p1, p2, p3, p4, p5⟩ := hf
    obtain ⟨q1, q2, q3, q4⟩ := p5
    simp only at q1
    subst q1
    simp only [if_true]
    cases latched with
    | false =>
      simp only [Bool.false_eq_true, if_false]
      exact ⟨p1, p2, p3, p4, rfl, q2, q3, q4⟩
    | true =>
      simp only [if_true]
      cases var with
      | false => exact Post_mono (ms2 := ms') (ss2 := ss') p3 q3 p4 q4 (ihh _ _ hpre')
      | true =>
        simp only [if_true]
        refine Post_mono (hp := ihh _ _ ?_) p3 q3 p4 q4
        obtain ⟨r1, r2, r3, r4⟩ := hpre'
        refine ⟨?_, r2, r3, r4⟩
        simp only at r1 q4 ⊢
        rw [r1, q4 id hid, hv rfl rfl]
  | thrown e =>
    have hj := hf.2.2.2.2.2.1
    simp only at hj
    subst hj
    cases latched <;> exact hf

theorem sim (p : Prog) : ∀ d ms ss, Pre d ms ss → Post d ms ss (mEval true p ms) (sEval p d ss) := by
  induction p with
  | skip =>
    intro d ms ss hpre
    exact Post_refl_normal hpre hpre.1 hpre.2.1 rfl rfl rfl rfl
  | act n =>
    intro d ms ss hpre
    simp only [mEval, sEval]
    exact Post_refl_normal hpre (by simp [hpre.1]) hpre.2.1 rfl rfl rfl rfl
  | getcode =>
    intro d ms ss hpre
    simp only [mEval, sEval]
    exact Post_refl_normal hpre (by simp [hpre.1, hpre.2.1]) rfl rfl rfl rfl rfl
  | throw e =>
    intro d ms ss hpre
    simp only [mEval]
    exact sim_throw e d ms ss hpre
  | seq p q ihp ihq =>
    intro d ms ss hpre
    have hp := ihp d ms ss hpre
    simp only [mEval, sEval]
    generalize hm : mEval true p ms = mr at hp
    generalize hs : sEval p d ss = sr at hp
    obtain ⟨mo, ms'⟩ := mr
    obtain ⟨so, ss'⟩ := sr
    cases so with
    | normal =>
      have hpre' := Pre_of_Post_normal hpre hp rfl
      obtain ⟨p1, p2, p3, p4, p5⟩ := hp
      obtain ⟨q1, q2, q3, q4⟩ := p5
      simp only at q1
      subst q1
      simp only
      exact Post_mono p3 q3 p4 q4 (ihq d ms' ss' hpre')
    | thrown e =>
      have hj := hp.2.2.2.2.2.1
      simp only at hj
      subst hj
      exact hp
  | tryc body handler fin var ihb ihh ihf =>
    intro d ms ss hpre
    simp only [mEval, sEval]
    obtain ⟨ms1, hms1⟩ : ∃ ms1 : MSt, ms1 = { ms with
        last := { id := ms.next + 1, block := true } :: ms.last, next := ms.next + 1,
        vars := if var then setVar ms.vars (ms.next + 1) 99 else ms.vars } := ⟨_, rfl⟩
    rw [← hms1]
    have hl1 : ms1.last = { id := ms.next + 1, block := true } :: ms.last := by rw [hms1]
    have hn1 : ms1.next = ms.next + 1 := by rw [hms1]
    have hv1 : ms1.vars = if var then setVar ms.vars (ms.next + 1) 99 else ms.vars := by rw [hms1]
    have ht1 : ms1.trace = ms.trace := by rw [hms1]
    have hc1 : ms1.code = ms.code := by rw [hms1]
    have hh1 : hid ms1 = ms.next + 1 := by unfold hid; rw [hl1]
    have hpre1 : Pre (d + 1) ms1 ss := by
      refine ⟨by rw [ht1]; exact hpre.1, by rw [hc1]; exact hpre.2.1, fun h => absurd h (by omega), ?_⟩
      intro _
      exact ⟨_, _, hl1, rfl, by rw [hn1]; exact Nat.le_refl _⟩
    have hb := ihb (d + 1) ms1 ss hpre1
    generalize hm : mEval true body ms1 = mr at hb ⊢
    generalize hs : sEval body (d + 1) ss = sr at hb ⊢
    obtain ⟨mo, msb⟩ := mr
    obtain ⟨so, ssb⟩ := sr
    obtain ⟨p1, p2, p3, p4, p5⟩ := hb
    simp only at p1 p2 p3 p4 p5
    have p4 := p4 (by omega)
    -- the state in which FINALLY starts
    have hpre2 : ∀ c, Pre d { msb with caught := c, last := ms.last } ssb := by
      intro c
      obtain ⟨h1, h2, h3, h4⟩ := hpre
      refine ⟨p1, p2, ?_, ?_⟩
      · intro hd; rw [p4]; exact h3 hd
      · intro hd
        obtain ⟨f, rest, e1, e2, e3⟩ := h4 hd
        exact ⟨f, rest, e1, e2, by simp only; omega⟩
    cases so with
    | normal =>
      obtain ⟨q1, q2, q3, q4⟩ := p5
      subst q1
      simp only
      have ht := sim_tail handler fin var (ms.next + 1) false d (ihf d) (ihh d) _ ssb (hpre2 false)
        (by simp only; omega) 0 (fun h => absurd h (by simp))
      simp only [Bool.false_eq_true, if_false] at ht
      refine Post_mono (hp := ht) ?_ ?_ (fun _ => p4) ?_
      · simp only; omega
      · intro _; rfl
      intro i hi
      simp only
      rw [q4 i (by omega), hv1]
      split
      · rw [getVar_setVar, if_neg (by omega)]
      · rfl
    | thrown e =>
      obtain ⟨q1, q2, q3⟩ := p5
      subst q2
      rw [hh1]
      simp only [ne_eq, not_true_eq_false, if_false]
      have ht := sim_tail handler fin var (ms.next + 1) true d (ihf d) (ihh d) _ ssb (hpre2 true)
        (by simp only; omega) (if e = 0 then 99 else e) (by
          intro _ hvar
          simp only
          rw [q3 _ (by omega), hh1, hv1, hvar]
          by_cases he : e = 0
          · simp [he, getVar_setVar]
          · simp [he])
      simp only [if_true] at ht
      refine Post_mono (hp := ht) ?_ ?_ (fun _ => p4) ?_
      · simp only; omega
      · intro _; rfl
      intro i hi
      simp only
      rw [q3 i (by omega), hh1, if_neg (by omega), hv1]
      split
      · rw [getVar_setVar, if_neg (by omega)]
      · rfl

/-- with the repaired RLC_ERR_CATCH (flag latched before FINALLY): every program, every nesting shape -/
theorem mRun_eq_sRun (p : Prog) : mRun true p = sRun p := by
  have hpre : Pre 0 {} {} := ⟨rfl, rfl, fun _ => rfl, fun h => absurd h (by omega)⟩
  have h := sim p 0 {} {} hpre
  unfold mRun sRun
  generalize mEval true p {} = mr at h
  generalize sEval p 0 {} = sr at h
  obtain ⟨mo, ms'⟩ := mr
  obtain ⟨so, ss'⟩ := sr
  obtain ⟨p1, p2, p3, p4, p5⟩ := h
  cases so with
  | thrown e => exact absurd p5.1 (by omega)
  | normal =>
    obtain ⟨q1, q2, q3, q4⟩ := p5
    have q2 := q2 rfl
    simp only at p1 p2 q2 ⊢
    rw [p1, p2, q2]
    cases ss'.top <;> rfl

/-! ## the original macro on the fragment without protected blocks inside FINALLY -/

theorem mThrow_caught (s : MSt) (e : Nat) : (mThrow s e).2.caught = s.caught := by
  unfold mThrow
  simp only
  split
  · rfl
  · split
    · split <;> rfl
    · rfl

theorem noTry_caught (l : Bool) (p : Prog) (h : finallyFree.noTry p = true) :
    ∀ s, (mEval l p s).2.caught = s.caught := by
  induction p with
  | skip => intro s; rfl
  | act n => intro s; rfl
  | getcode => intro s; rfl
  | throw e => intro s; simp only [mEval]; exact mThrow_caught s e
  | seq p q ihp ihq =>
    intro s
    simp only [finallyFree.noTry, Bool.and_eq_true] at h
    have hp := ihp h.1 s
    simp only [mEval]
    generalize mEval l p s = mr at hp ⊢
    obtain ⟨mo, s'⟩ := mr
    cases mo with
    | normal => simp only; rw [ihq h.2 s']; exact hp
    | jump t => exact hp
  | tryc b hd f v _ _ _ => simp [finallyFree.noTry] at h

theorem mTail_latch_irrelevant (evalFin evalHandler : MSt → MOut × MSt) (var : Bool) (id : Nat)
    (latched : Bool) (s : MSt) (hc : ∀ s, (evalFin s).2.caught = s.caught) (hs : s.caught = latched) :
    mTail false evalFin evalHandler var id latched s = mTail true evalFin evalHandler var id latched s := by
  unfold mTail
  have h := hc s
  generalize evalFin s = r at h ⊢
  obtain ⟨o, s'⟩ := r
  cases o with
  | jump t => rfl
  | normal =>
    simp only at h ⊢
    rw [h, hs]
    simp

theorem mEval_orig_eq (p : Prog) (h : finallyFree p = true) : ∀ s, mEval false p s = mEval true p s := by
  induction p with
  | skip => intro s; rfl
  | act n => intro s; rfl
  | getcode => intro s; rfl
  | throw e => intro s; rfl
  | seq p q ihp ihq =>
    intro s
    simp only [finallyFree, Bool.and_eq_true] at h
    simp only [mEval]
    rw [ihp h.1 s]
    generalize mEval true p s = mr
    obtain ⟨mo, s'⟩ := mr
    cases mo with
    | normal => exact ihq h.2 s'
    | jump t => rfl
  | tryc b hd f v ihb ihh ihf =>
    intro s
    simp only [finallyFree, Bool.and_eq_true] at h
    obtain ⟨⟨⟨hb, hh⟩, hf⟩, hn⟩ := h
    have e1 : mEval false f = mEval true f := funext (ihf hf)
    have e2 : mEval false hd = mEval true hd := funext (ihh hh)
    simp only [mEval]
    rw [ihb hb, e1, e2]
    generalize mEval true b _ = mr
    obtain ⟨mo, s'⟩ := mr
    cases mo with
    | normal =>
      simp only
      exact mTail_latch_irrelevant _ _ _ _ _ _ (noTry_caught true f hn) rfl
    | jump t =>
      simp only
      split
      · rfl
      · exact mTail_latch_irrelevant _ _ _ _ _ _ (noTry_caught true f hn) rfl

/-- the original macro (flag re-read after FINALLY) is right exactly on the fragment without protected
    blocks inside FINALLY bodies -/
theorem mRun_orig_eq_sRun_of_finallyFree (p : Prog) (h : finallyFree p = true) : mRun false p = sRun p := by
  rw [← mRun_eq_sRun p]
  unfold mRun
  rw [mEval_orig_eq p h]

end Relic.Model.Err
