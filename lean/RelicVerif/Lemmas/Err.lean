/-
The macro machine of Model/Err.lean (RLC_TRY / RLC_CATCH / RLC_FINALLY / RLC_THROW with the context
fields last, caught, code) refines the structured try/throw/catch/finally semantics, for every program.
-/
import RelicVerif.Model.Err

namespace Relic.Model.Err

/-- with the repaired RLC_ERR_CATCH (flag latched before FINALLY): every program, every nesting shape -/
theorem mRun_eq_sRun (p : Prog) : mRun true p = sRun p := by
  sorry

/-- the original macro (flag re-read after FINALLY) is right exactly on the fragment without protected
    blocks inside FINALLY bodies -/
theorem mRun_orig_eq_sRun_of_finallyFree (p : Prog) (h : finallyFree p = true) : mRun false p = sRun p := by
  sorry

end Relic.Model.Err
