/-
bn_is_prime_basic: every prime passes, and a rejection exhibits a proper divisor.  bn_is_prime_solov: every prime passes whatever the
bases are (Euler's criterion), given that the symbol function returns the Jacobi symbol.  bn_is_prime: every prime passes.
-/
import Mathlib.NumberTheory.LegendreSymbol.JacobiSymbol
import RelicVerif.Lemmas.NtSmbPrime
import RelicVerif.Model.NtSmbPrime2

namespace Relic.Lemmas.NtSmbPrime
open Relic.Model.NtSmbPrime

theorem primesAll_ge_two : ∀ p ∈ primesAll, 2 ≤ p := by decide +kernel

theorem primesTab_eq_take : primesTab = primesAll.take 48 := by decide +kernel

theorem basicLoop_prime {n : ℕ} (hp : n.Prime) : ∀ (l : List ℕ), (∀ p ∈ l, 2 ≤ p) → basicLoop n true l = true
  | [], _ => rfl
  | p :: ps, h => by
    unfold basicLoop
    have hp2 : 2 ≤ p := h p (by simp)
    have ih := basicLoop_prime hp ps (fun x hx => h x (by simp [hx]))
    split
    · next hc =>
      exfalso
      obtain ⟨hdiv, hne⟩ := hc
      have hd : p ∣ n := Nat.dvd_of_mod_eq_zero hdiv
      rcases (Nat.dvd_prime hp).mp hd with h1 | h1
      · omega
      · exact hne ⟨rfl, h1.symm⟩
    · exact ih

theorem basic_prime (w n : ℕ) (hp : n.Prime) : basic w (n : ℤ) = true := by
  unfold basic
  have h1 : ((n : ℤ) = 1) = False := by
    simp only [eq_iff_iff, iff_false]; intro h; have : n = 1 := by exact_mod_cast h
    exact hp.one_lt.ne' this
  simp only [h1, if_false, Int.natAbs_natCast, Int.natCast_nonneg, decide_true]
  exact basicLoop_prime hp _ (fun p hp' => primesAll_ge_two p (List.mem_of_mem_take hp'))

theorem basicLoop_false {n : ℕ} : ∀ (l : List ℕ), basicLoop n true l = false → ∃ p ∈ l, n % p = 0 ∧ n ≠ p
  | [], h => by simp [basicLoop] at h
  | p :: ps, h => by
    unfold basicLoop at h
    split at h
    · next hc => exact ⟨p, by simp, hc.1, fun e => hc.2 ⟨rfl, e⟩⟩
    · obtain ⟨q, hq, hq2⟩ := basicLoop_false ps h
      exact ⟨q, by simp [hq], hq2⟩

/-- a rejection by trial division is always right: it exhibits a proper divisor -/
theorem basic_reject (w n : ℕ) (hn : 2 ≤ n) (h : basic w (n : ℤ) = false) : ∃ p, 2 ≤ p ∧ p < n ∧ p ∣ n := by
  unfold basic at h
  have h1 : ((n : ℤ) = 1) = False := by
    simp only [eq_iff_iff, iff_false]; intro h; have : n = 1 := by exact_mod_cast h
    omega
  simp only [h1, if_false, Int.natAbs_natCast, Int.natCast_nonneg, decide_true] at h
  obtain ⟨p, hp, hmod, hne⟩ := basicLoop_false _ h
  have hp2 := primesAll_ge_two p (List.mem_of_mem_take hp)
  have hd : p ∣ n := Nat.dvd_of_mod_eq_zero hmod
  have hle : p ≤ n := Nat.le_of_dvd (by omega) hd
  exact ⟨p, hp2, by omega, hd⟩

theorem isPrime_prime (w n : ℕ) (hp : n.Prime) : isPrime w (n : ℤ) = true := by
  unfold isPrime
  simp [basic_prime w n hp, rabin_prime n hp]

open scoped NumberTheorySymbols

theorem cast_eq_one {n : ℕ} (hn : 2 < n) {y : ℕ} (hy : y < n) (h : (y : ZMod n) = 1) : y = 1 := by
  have : (y : ZMod n) = ((1 : ℕ) : ZMod n) := by simpa using h
  rw [ZMod.natCast_eq_natCast_iff'] at this
  rwa [Nat.mod_eq_of_lt hy, Nat.mod_eq_of_lt (by omega)] at this

/-- one Solovay–Strassen round passes for a prime n > 2 and any base 0 < t < n (Euler's criterion) -/
theorem solovRound_prime {n : ℕ} (hp : n.Prime) (hn : 2 < n) (J : ℤ → ℤ → ℤ) {t : ℕ} (hJ : J t n = J((t : ℤ) | n))
    (ht0 : 0 < t) (htn : t < n) : solovRound J n t = true := by
  haveI : Fact n.Prime := ⟨hp⟩
  have hodd : n % 2 = 1 := by
    rcases hp.eq_two_or_odd with h | h
    · omega
    · exact h
  have hpos : 0 < n := by omega
  have hy : powMod t ((n - 1) >>> 1) n < n := by rw [powMod_eq]; exact Nat.mod_lt _ hpos
  have hexp : (n - 1) >>> 1 = n / 2 := by rw [Nat.shiftRight_eq_div_pow]; omega
  have hc : ((powMod t ((n - 1) >>> 1) n : ℕ) : ZMod n) = ((legendreSym n t : ℤ) : ZMod n) := by
    rw [powMod_eq, ZMod.natCast_mod, hexp, legendreSym.eq_pow]; push_cast; rfl
  have ht : ((t : ℤ) : ZMod n) ≠ 0 := by
    intro h0
    rw [Int.cast_natCast, ZMod.natCast_eq_zero_iff] at h0
    exact absurd (Nat.le_of_dvd ht0 h0) (by omega)
  have hJ' : J t n = legendreSym n t := by rw [hJ, jacobiSym.legendreSym.to_jacobiSym]
  unfold solovRound
  simp only []
  rcases legendreSym.eq_one_or_neg_one n ht with h1 | h1
  · rw [h1] at hc hJ'
    have : powMod t ((n - 1) >>> 1) n = 1 := cast_eq_one hn hy (by simpa using hc)
    rw [this, hJ']
    simp
  · rw [h1] at hc hJ'
    have : powMod t ((n - 1) >>> 1) n = n - 1 := eq_pred_of_cast_neg_one hn hy (by simpa using hc)
    rw [this, hJ']
    simp only [ne_eq, not_true_eq_false, and_false, if_false, decide_eq_true_eq]
    apply Int.emod_eq_emod_iff_emod_sub_eq_zero.mpr
    rw [Nat.cast_sub (by omega)]
    simp

theorem solov_prime {n : ℕ} (hp : n.Prime) (hn : 2 < n) (J : ℤ → ℤ → ℤ) (hJ : ∀ t : ℕ, J t n = J((t : ℤ) | n)) :
    ∀ (l : List ℕ), (∀ t ∈ l, 0 < t ∧ t < n) → solov J n l = true
  | [], _ => rfl
  | t :: ts, h => by
    unfold solov
    rw [solovRound_prime hp hn J (hJ t) (h t (by simp)).1 (h t (by simp)).2]
    simp only [if_true]
    exact solov_prime hp hn J hJ ts (fun x hx => h x (by simp [hx]))

end Relic.Lemmas.NtSmbPrime
