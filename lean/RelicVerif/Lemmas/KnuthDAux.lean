/-
Auxiliary definitions and lemmas for the proof of `divnLow_spec` (Knuth D).
-/
import RelicVerif.Lemmas.BnLowAdd
import RelicVerif.Lemmas.BnLowMul
import RelicVerif.Lemmas.BnLowShift
import Mathlib.Tactic.Ring
import Mathlib.Tactic.Linarith
import Mathlib.Tactic.NormNum

namespace Relic.Model

/-! ### A structured copy of `divnLow` -/

/-- left shift by `norm` bits, appending the carry digit when it is non-zero -/
def shlN (w norm : Nat) (x : List Nat) : List Nat :=
  if (lshbLow w norm x 0).2 ≠ 0 then (lshbLow w norm x 0).1 ++ [(lshbLow w norm x 0).2]
  else (lshbLow w norm x 0).1

/-- `q * b`, appending the carry digit when it is non-zero -/
def mulD (B : Nat) (b : List Nat) (qh : Nat) : List Nat :=
  if (mul1Low B b qh 0).2 ≠ 0 then (mul1Low B b qh 0).1 ++ [(mul1Low B b qh 0).2]
  else (mul1Low B b qh 0).1

def qEst (B bt ai ai1 : Nat) : Nat := if ai = bt then B - 1 else ((ai * B + ai1) / bt) % B

/-- subtract `d * B^k` from `a` (of length `sa`), returning the borrow -/
def winSub (B sa : Nat) (a : List Nat) (k : Nat) (d : List Nat) : List Nat × Nat :=
  if sa > d.length + k then
    (splice (splice a k (subnLow B ((a.drop k).take d.length) d 0).1) (d.length + k)
      (sub1Low B ((splice a k (subnLow B ((a.drop k).take d.length) d 0).1).drop (d.length + k))
        (subnLow B ((a.drop k).take d.length) d 0).2).1,
     (sub1Low B ((splice a k (subnLow B ((a.drop k).take d.length) d 0).1).drop (d.length + k))
        (subnLow B ((a.drop k).take d.length) d 0).2).2)
  else (splice a k (subnLow B ((a.drop k).take d.length) d 0).1,
        (subnLow B ((a.drop k).take d.length) d 0).2)

/-- add `b * B^k` to `a`, dropping the carry -/
def winAdd (B : Nat) (a : List Nat) (k : Nat) (b : List Nat) : List Nat :=
  splice (splice a k (addnLow B ((a.drop k).take b.length) b 0).1) (b.length + k)
    (add1Low B ((splice a k (addnLow B ((a.drop k).take b.length) b 0).1).drop (b.length + k))
      (addnLow B ((a.drop k).take b.length) b 0).2).1

def qHat (B : Nat) (b a : List Nat) (i : Nat) : Nat :=
  qhatLoop B (if b.length - 1 = 0 then 0 else b.getD (b.length - 1 - 1) 0) (b.getD (b.length - 1) 0)
    (if i < 2 then 0 else a.getD (i - 2) 0) (a.getD (i - 1) 0) (a.getD i 0) B
    ((qEst B (b.getD (b.length - 1) 0) (a.getD i 0) (a.getD (i - 1) 0) + 1) % B)

/-- one quotient digit: the new `a` and the digit -/
def stepCore (B sa : Nat) (b : List Nat) (a : List Nat) (i : Nat) : List Nat × Nat :=
  if (winSub B sa a (i - (b.length - 1) - 1) (mulD B b (qHat B b a i))).2 ≠ 0 then
    (winAdd B (winSub B sa a (i - (b.length - 1) - 1) (mulD B b (qHat B b a i))).1
        (i - (b.length - 1) - 1) b,
      (qHat B b a i + B - 1) % B)
  else ((winSub B sa a (i - (b.length - 1) - 1) (mulD B b (qHat B b a i))).1, qHat B b a i)

def stepAQ (B sa : Nat) (b : List Nat) (st : List Nat × List Nat) (i : Nat) : List Nat × List Nat :=
  ((stepCore B sa b st.1 i).1, setAt st.2 (i - (b.length - 1) - 1) (stepCore B sa b st.1 i).2)

def trUpd (B : Nat) (b a : List Nat) (i : Nat) (tr : DivTrace) : DivTrace :=
  { tr with
    qhatFix := tr.qhatFix +
      (if qHat B b a i = qEst B (b.getD (b.length - 1) 0) (a.getD i 0) (a.getD (i - 1) 0) then 0 else 1),
    qmax := tr.qmax + (if a.getD i 0 = b.getD (b.length - 1) 0 then 1 else 0) }

/-- the step function of `divnLow` expressed with the helpers above -/
def divStepS (B sa : Nat) (b : List Nat) (st : List Nat × List Nat × DivTrace) (i : Nat) :
    List Nat × List Nat × DivTrace :=
  if (winSub B sa st.1 (i - (b.length - 1) - 1) (mulD B b (qHat B b st.1 i))).2 ≠ 0 then
    (winAdd B (winSub B sa st.1 (i - (b.length - 1) - 1) (mulD B b (qHat B b st.1 i))).1
        (i - (b.length - 1) - 1) b,
      setAt st.2.1 (i - (b.length - 1) - 1) ((qHat B b st.1 i + B - 1) % B),
      { trUpd B b st.1 i st.2.2 with addback := (trUpd B b st.1 i st.2.2).addback + 1 })
  else ((winSub B sa st.1 (i - (b.length - 1) - 1) (mulD B b (qHat B b st.1 i))).1,
        setAt st.2.1 (i - (b.length - 1) - 1) (qHat B b st.1 i), trUpd B b st.1 i st.2.2)

theorem divStepS_sim (B sa : Nat) (b : List Nat) (st : List Nat × List Nat × DivTrace) (i : Nat) :
    ((divStepS B sa b st i).1, (divStepS B sa b st i).2.1) = stepAQ B sa b (st.1, st.2.1) i := by
  by_cases h : (winSub B sa st.1 (i - (b.length - 1) - 1) (mulD B b (qHat B b st.1 i))).2 ≠ 0
  · simp only [divStepS, stepAQ, stepCore, if_pos h]
  · simp only [divStepS, stepAQ, stepCore, if_neg h]

theorem foldl_divStepS_sim (B sa : Nat) (b : List Nat) (idxs : List Nat) :
    ∀ st : List Nat × List Nat × DivTrace,
      ((idxs.foldl (divStepS B sa b) st).1, (idxs.foldl (divStepS B sa b) st).2.1)
        = idxs.foldl (stepAQ B sa b) (st.1, st.2.1) := by
  induction idxs with
  | nil => intro st; rfl
  | cons i is ih =>
    intro st
    simp only [List.foldl_cons]
    rw [ih, divStepS_sim]

def nbOf (w : Nat) (b0 : List Nat) : Nat := bitsDig (b0.getD (b0.length - 1) 0) % w
def normOf (w : Nat) (b0 : List Nat) : Nat := if nbOf w b0 < w - 1 then (w - 1) - nbOf w b0 else 0
def normAB (w : Nat) (a0 b0 : List Nat) : List Nat × List Nat :=
  if nbOf w b0 < w - 1 then (shlN w (normOf w b0) a0, shlN w (normOf w b0) b0) else (a0, b0)
def idxsOf (sa sb : Nat) : List Nat :=
  (List.range (sa - 1 - (sb - 1))).reverse.map (fun j => j + (sb - 1) + 1)

/-- `divnLow` expressed with the helpers -/
def divnLowS (w : Nat) (a0 b0 : List Nat) : List Nat × List Nat × DivTrace :=
  let a := (normAB w a0 b0).1
  let b := (normAB w a0 b0).2
  let top := divTopLoop (2 ^ w) (List.replicate (a.length - 1 - (b.length - 1)) 0 ++ b) (2 ^ w) a 0
  let q0 := setAt (List.replicate (a0.length - b0.length + 3) 0) (a.length - 1 - (b.length - 1)) top.2
  let fin := (idxsOf a.length b.length).foldl (divStepS (2 ^ w) a.length b) (top.1, q0, { topLoop := top.2 })
  (fin.2.1,
   if normOf w b0 = 0 then fin.1.take b.length else (rshbLow w (normOf w b0) (fin.1.take b.length)).1,
   fin.2.2)

theorem divnLow_eq_S (w : Nat) (a0 b0 : List Nat) : divnLow w a0 b0 = divnLowS w a0 b0 := rfl

end Relic.Model
