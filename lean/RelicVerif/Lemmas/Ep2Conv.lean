/-
Lemmas about the ep2 point-encoding model (Model/Ep2Conv.lean): the sign rule of ep2_upk separates y from −y, the rule ep2_pck used at
the pinned commit does not (machine-checked counterexample; the defect was replayed on the implementation and repaired), a successful
decoding is a point of the curve, encodings have the advertised length.
-/
import RelicVerif.Model.Ep2Conv

namespace Relic.Lemmas.Ep2Conv
open Relic.Model.Ep2Conv Relic.Spec.CurveX

/-- the sign rule of ep2_upk separates a non-zero element from its negative (p odd, coefficients reduced) -/
theorem signUpk_neg (p y0 y1 : Nat) (hodd : p % 2 = 1) (h0 : y0 < p) (h1 : y1 < p) (hne : y0 ≠ 0 ∨ y1 ≠ 0) :
    signUpk p [(p - y0) % p, (p - y1) % p] = 1 - signUpk p [y0, y1] := by
  unfold signUpk
  simp only [List.getD_cons_zero, List.getD_cons_succ]
  by_cases hy1 : y1 = 0
  · subst hy1
    have hy0 : y0 ≠ 0 := by
      rcases hne with h | h
      · exact h
      · exact absurd rfl h
    have e1 : (p - 0) % p = 0 := by simp
    have e0 : (p - y0) % p = p - y0 := Nat.mod_eq_of_lt (by omega)
    rw [e1, e0]
    simp only [if_true]
    by_cases hc : y0 > (p - 1) / 2
    · have : ¬ (p - y0 > (p - 1) / 2) := by omega
      simp [hc, this]
    · have : p - y0 > (p - 1) / 2 := by omega
      simp [hc, this]
  · have e1 : (p - y1) % p = p - y1 := Nat.mod_eq_of_lt (by omega)
    have hne1 : p - y1 ≠ 0 := by omega
    rw [e1]
    simp only [hy1, hne1, if_false]
    by_cases hc : y1 > (p - 1) / 2
    · have : ¬ (p - y1 > (p - 1) / 2) := by omega
      simp [hc, this]
    · have : p - y1 > (p - 1) / 2 := by omega
      simp [hc, this]

/-- consequently two square roots of the same value with the same sign are equal: the compressed encoding determines the point -/
theorem signUpk_separates (p y0 y1 : Nat) (hodd : p % 2 = 1) (h0 : y0 < p) (h1 : y1 < p) (hne : y0 ≠ 0 ∨ y1 ≠ 0) :
    signUpk p [(p - y0) % p, (p - y1) % p] ≠ signUpk p [y0, y1] := by
  rw [signUpk_neg p y0 y1 hodd h0 h1 hne]
  have : signUpk p [y0, y1] ≤ 1 := by
    unfold signUpk; simp only [List.getD_cons_zero, List.getD_cons_succ]; split <;> split <;> omega
  omega

/-- the repaired ep2_pck writes exactly the bit ep2_upk compares with -/
theorem signPck_fallback (p : Nat) (y : List Nat) : signPck true p y = signUpk p y := by simp [signPck]

/-- the rule of the pinned ep2_pck agrees with ep2_upk whenever the second coefficient of y is non-zero -/
theorem signPck_agrees_off_c1_zero (p : Nat) (y0 y1 : Nat) (h : y1 ≠ 0) : signPck false p [y0, y1] = signUpk p [y0, y1] := by
  simp [signPck, signUpk, h]

/-- … and not otherwise: y = 5 and −y = 2 in F_7[u]/(u² + 1) get the same bit (the pinned code compressed P and −P to the same string and
    decompressed it to only one of them); replayed on the implementation with twist points whose y-coordinate lies in Fp -/
theorem signPck_pinned_not_separating :
    signPck false 7 [5, 0] = signPck false 7 [(7 - 5) % 7, (7 - 0) % 7] ∧ signUpk 7 [5, 0] ≠ signPck false 7 [5, 0] := by decide

/-- a successful decoding is a point of the curve -/
theorem readBin_valid (x : Ctx) (bin : Bytes) (P : List Nat × List Nat) (h : readBin x bin = some (some P)) :
    onCurve x.c (some P) = true := by
  unfold readBin at h
  simp only at h
  repeat' split at h
  all_goals first
    | (simp at h; done)
    | (simp only [Option.some.injEq] at h; subst h; assumption)

theorem beBytes_length (n k : Nat) : (beBytes n k).length = k := by simp [beBytes]

/-- encodings have the requested length -/
theorem writeBin_length (x : Ctx) (fb : Bool) (len : Nat) (P : PointX) (pack : Bool) (out : Bytes)
    (h : writeBin x fb len P pack = some out) : out.length = len := by
  unfold writeBin at h
  split at h
  · split at h
    · simp at h
    · simp only [Option.some.injEq] at h; rw [← h]; simp
  · split at h
    · split at h
      · simp at h
      · simp only [Option.some.injEq] at h; rw [← h]; simp [elBytes, beBytes_length]; omega
    · split at h
      · simp at h
      · simp only [Option.some.injEq] at h; rw [← h]; simp [elBytes, beBytes_length]; omega

/-- the error case of ep2_write_bin is exactly "buffer shorter than ep2_size_bin" -/
theorem writeBin_error_iff (x : Ctx) (fb : Bool) (len : Nat) (P : PointX) (pack : Bool) :
    writeBin x fb len P pack = none ↔ len < (match P with | none => 1 | some _ => if pack then 2 * x.nb + 1 else 4 * x.nb + 1) := by
  unfold writeBin
  cases P with
  | none => simp
  | some q =>
    obtain ⟨px, py⟩ := q
    by_cases hp : pack <;> simp [hp] <;> split <;> simp_all

/-! ### decode ∘ encode = id -/

theorem beBytes_succ (n k : Nat) : beBytes n (k + 1) = ((n / 256 ^ k) % 256) :: beBytes n k := by
  simp [beBytes, List.range_succ]

theorem beVal_foldl (l : Bytes) (acc : Nat) :
    l.foldl (fun acc x => acc * 256 + x) acc = acc * 256 ^ l.length + beVal l := by
  induction l generalizing acc with
  | nil => simp [beVal]
  | cons a l ih =>
    simp only [List.foldl_cons, List.length_cons, beVal]
    rw [ih, ih (0 * 256 + a)]
    simp [Nat.pow_succ, Nat.add_mul, Nat.mul_assoc, Nat.mul_comm, Nat.add_assoc]

theorem beVal_cons (a : Nat) (l : Bytes) : beVal (a :: l) = a * 256 ^ l.length + beVal l := by
  simp only [beVal, List.foldl_cons]
  rw [beVal_foldl]
  simp [beVal]

theorem beVal_beBytes_mod (k n : Nat) : beVal (beBytes n k) = n % 256 ^ k := by
  induction k with
  | zero => simp [beBytes, beVal, Nat.mod_one]
  | succ k ih =>
    rw [beBytes_succ, beVal_cons, ih, beBytes_length, Nat.mod_pow_succ]
    rw [Nat.mul_comm, Nat.add_comm]

theorem beVal_beBytes (k n : Nat) (h : n < 256 ^ k) : beVal (beBytes n k) = n := by
  rw [beVal_beBytes_mod, Nat.mod_eq_of_lt h]

/-- fp2_read_bin inverts fp2_write_bin on reduced elements -/
theorem elRead_elBytes (x : Ctx) (c0 c1 : Nat) (h0 : c0 < x.c.d.p) (h1 : c1 < x.c.d.p) (hp : x.c.d.p ≤ 256 ^ x.nb) :
    elRead x (elBytes x [c0, c1]) = some [c0, c1] := by
  unfold elRead elBytes
  simp only [List.getD_cons_zero, List.getD_cons_succ]
  have hl : (beBytes c0 x.nb ++ beBytes c1 x.nb).length = 2 * x.nb := by simp [beBytes_length]; omega
  have ht : (beBytes c0 x.nb ++ beBytes c1 x.nb).take x.nb = beBytes c0 x.nb := by
    rw [List.take_append_of_le_length (by simp [beBytes_length])]
    exact List.take_of_length_le (by simp [beBytes_length])
  have hd : (beBytes c0 x.nb ++ beBytes c1 x.nb).drop x.nb = beBytes c1 x.nb := by
    rw [List.drop_append_of_le_length (by simp [beBytes_length])]
    rw [List.drop_of_length_le (by simp [beBytes_length])]
    simp
  rw [ht, hd, beVal_beBytes _ _ (by omega), beVal_beBytes _ _ (by omega)]
  simp [hl, h0, h1]

/-- decode(encode(P)) = P for the uncompressed format and the exact length, for every point of the curve with reduced coordinates -/
theorem readBin_writeBin_unpacked (x : Ctx) (fb : Bool) (a0 a1 b0 b1 : Nat) (hnb : 0 < x.nb) (hp : x.c.d.p ≤ 256 ^ x.nb)
    (ha0 : a0 < x.c.d.p) (ha1 : a1 < x.c.d.p) (hb0 : b0 < x.c.d.p) (hb1 : b1 < x.c.d.p)
    (hon : onCurve x.c (some ([a0, a1], [b0, b1])) = true) :
    (writeBin x fb (4 * x.nb + 1) (some ([a0, a1], [b0, b1])) false).bind (readBin x) = some (some ([a0, a1], [b0, b1])) := by
  have hX : (elBytes x [a0, a1]).length = 2 * x.nb := by simp [elBytes, beBytes_length]; omega
  have hY : (elBytes x [b0, b1]).length = 2 * x.nb := by simp [elBytes, beBytes_length]; omega
  unfold writeBin
  simp only [Bool.false_eq_true, if_false, Nat.lt_irrefl, Nat.sub_self, List.replicate_zero, List.append_nil, Option.bind_some]
  unfold readBin
  have hlen : ([4] ++ elBytes x [a0, a1] ++ elBytes x [b0, b1]).length = 4 * x.nb + 1 := by simp [hX, hY]; omega
  have h1 : ¬ (4 * x.nb + 1 = 1) := by omega
  have h2 : ¬ (4 * x.nb + 1 = 2 * x.nb + 1) := by omega
  have hshape : [4] ++ elBytes x [a0, a1] ++ elBytes x [b0, b1] = 4 :: (elBytes x [a0, a1] ++ elBytes x [b0, b1]) := by simp
  have hd1 : (([4] ++ elBytes x [a0, a1] ++ elBytes x [b0, b1]).drop 1).take (2 * x.nb) = elBytes x [a0, a1] := by
    rw [hshape, List.drop_succ_cons, List.drop_zero, List.take_append_of_le_length (by omega)]
    exact List.take_of_length_le (by omega)
  have hd2 : ([4] ++ elBytes x [a0, a1] ++ elBytes x [b0, b1]).drop (1 + 2 * x.nb) = elBytes x [b0, b1] := by
    rw [hshape, Nat.add_comm, List.drop_succ_cons, List.drop_append_of_le_length (by omega), List.drop_of_length_le (by omega)]
    simp
  rw [hlen]
  simp only [h1, h2, if_false, if_true]
  rw [hd1, hd2, elRead_elBytes x a0 a1 ha0 ha1 hp, elRead_elBytes x b0 b1 hb0 hb1 hp]
  simp [hon]

end Relic.Lemmas.Ep2Conv
