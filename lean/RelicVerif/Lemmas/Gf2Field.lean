/-
GF(2)[z]/(f) on natural numbers is a commutative ring of characteristic two in which, for the polynomial the running
library reports (the driver evaluates `z^(2^m) = z mod f` on every run), the m-fold Frobenius is the identity. Consequences:
the specification's square root, trace, half-trace and (for irreducible f) inverse satisfy their defining equations;
the table-free fast algorithms (square root by even/odd splitting, trace from selected coefficients) agree with them.
-/
import Mathlib.RingTheory.AdjoinRoot
import Mathlib.FieldTheory.Finite.Basic
import Mathlib.Algebra.CharP.Two
import Mathlib.Tactic.Ring
import Mathlib.Tactic.Linarith
import Mathlib.Tactic.LinearCombination
import RelicVerif.Lemmas.Gf2Poly
import RelicVerif.Model.Fb

namespace Relic.Lemmas.Gf2Field
open Polynomial Relic.Spec.Gf2 Relic.Lemmas.Gf2Poly Relic.Model.Fb

/-- z^(2^m) ≡ z (mod f): checked by the driver on the polynomial of the running library (`checkFParam`) -/
def FrobFix (F : Field) : Prop := F.sqrN F.m 2 = 2

/-! ### the quotient ring and the map into it -/

theorem wf_parts {F : Field} (hF : F.wellFormed = true) :
    bitLen F.f = F.m + 1 ∧ F.f % 2 = 1 ∧ 2 ≤ F.m ∧ F.f ≠ 0 := by
  unfold Field.wellFormed at hF
  simp only [Bool.and_eq_true, beq_iff_eq, decide_eq_true_eq] at hF
  obtain ⟨⟨h1, h2⟩, h3⟩ := hF
  refine ⟨h1, h2, h3, ?_⟩
  intro h; rw [h] at h1; simp [bitLen] at h1

/-- GF(2)[z]/(f) -/
abbrev K (F : Field) := AdjoinRoot (toPoly F.f)

/-- class of the polynomial a natural number denotes -/
noncomputable def ψ (F : Field) (a : Nat) : K F := AdjoinRoot.mk (toPoly F.f) (toPoly a)

theorem two_eq_zero (F : Field) : (2 : K F) = 0 := by
  have h : (2 : (ZMod 2)[X]) = 0 := CharTwo.two_eq_zero
  calc (2 : K F) = AdjoinRoot.mk (toPoly F.f) 2 := (map_ofNat _ 2).symm
    _ = AdjoinRoot.mk (toPoly F.f) 0 := by rw [h]
    _ = 0 := map_zero _

theorem add_self (F : Field) (x : K F) : x + x = 0 := by
  linear_combination x * two_eq_zero F

theorem add_sq2 (F : Field) (x y : K F) : (x + y) ^ 2 = x ^ 2 + y ^ 2 := by
  linear_combination (x * y) * two_eq_zero F

theorem add_pow_two_pow (F : Field) (n : Nat) (x y : K F) : (x + y) ^ (2 ^ n) = x ^ (2 ^ n) + y ^ (2 ^ n) := by
  induction n with
  | zero => simp
  | succ n ih => rw [pow_succ, pow_mul, pow_mul, pow_mul, ih, add_sq2]

theorem ψ_xor (F : Field) (a b : Nat) : ψ F (a ^^^ b) = ψ F a + ψ F b := by
  unfold ψ; rw [toPoly_xor, map_add]

theorem ψ_zero (F : Field) : ψ F 0 = 0 := by
  unfold ψ; rw [toPoly_zero, map_zero]

theorem ψ_one (F : Field) : ψ F 1 = 1 := by
  unfold ψ; rw [toPoly_one, map_one]

theorem ψ_two (F : Field) : ψ F 2 = AdjoinRoot.root (toPoly F.f) := by
  unfold ψ; rw [toPoly_two, AdjoinRoot.mk_X]

theorem mk_modByMonic (F : Field) (_hf : F.f ≠ 0) (p : (ZMod 2)[X]) :
    AdjoinRoot.mk (toPoly F.f) (p %ₘ toPoly F.f) = AdjoinRoot.mk (toPoly F.f) p := by
  rw [AdjoinRoot.mk_eq_mk]
  refine ⟨- (p /ₘ toPoly F.f), ?_⟩
  have := modByMonic_add_div p (toPoly F.f)
  linear_combination this

theorem ψ_pmod (F : Field) (hf : F.f ≠ 0) (a : Nat) : ψ F (pmod a F.f) = ψ F a := by
  unfold ψ; rw [toPoly_pmod _ _ hf, mk_modByMonic F hf]

theorem ψ_mul (F : Field) (hf : F.f ≠ 0) (a b : Nat) : ψ F (F.mul a b) = ψ F a * ψ F b := by
  unfold Field.mul; rw [ψ_pmod F hf]; unfold ψ; rw [toPoly_clmul, map_mul]

theorem ψ_sqr (F : Field) (hf : F.f ≠ 0) (a : Nat) : ψ F (F.sqr a) = ψ F a ^ 2 := by
  unfold Field.sqr; rw [ψ_mul F hf, pow_two]

/-- ψ is injective on reduced elements -/
theorem ψ_inj (F : Field) (hF : F.wellFormed = true) {a b : Nat} (ha : bitLen a ≤ F.m) (hb : bitLen b ≤ F.m)
    (h : ψ F a = ψ F b) : a = b := by
  obtain ⟨h1, _, _, hf⟩ := wf_parts hF
  by_contra hne
  have hx : toPoly (a ^^^ b) ≠ 0 := by
    rw [Ne, toPoly_eq_zero_iff]
    intro h0
    apply hne
    have := congrArg (· ^^^ b) h0
    simpa [Nat.xor_assoc] using this
  have hlt : bitLen (a ^^^ b) < bitLen F.f := by
    rw [h1, Nat.lt_succ_iff, bitLen_le_iff]
    exact Nat.xor_lt_two_pow ((bitLen_le_iff _ _).1 ha) ((bitLen_le_iff _ _).1 hb)
  have := AdjoinRoot.mk_ne_zero_of_degree_lt (monic_toPoly F.f hf) hx (degree_toPoly_lt_of_bitLen_lt hlt)
  apply this
  change ψ F (a ^^^ b) = 0
  rw [ψ_xor, h, add_self]

theorem isElem_pmod (F : Field) (hF : F.wellFormed = true) (a : Nat) : bitLen (pmod a F.f) ≤ F.m := by
  obtain ⟨h1, _, _, hf⟩ := wf_parts hF
  have := bitLen_pmod_lt a F.f hf
  omega

theorem isElem_mul (F : Field) (hF : F.wellFormed = true) (a b : Nat) : bitLen (F.mul a b) ≤ F.m :=
  isElem_pmod F hF _

theorem isElem_sqr (F : Field) (hF : F.wellFormed = true) (a : Nat) : bitLen (F.sqr a) ≤ F.m :=
  isElem_pmod F hF _

theorem isElem_xor (F : Field) {a b : Nat} (ha : bitLen a ≤ F.m) (hb : bitLen b ≤ F.m) : bitLen (a ^^^ b) ≤ F.m := by
  rw [bitLen_le_iff] at *
  exact Nat.xor_lt_two_pow ha hb

theorem isElem_one (F : Field) (hF : F.wellFormed = true) : bitLen 1 ≤ F.m := by
  obtain ⟨_, _, h3, _⟩ := wf_parts hF
  rw [bitLen_le_iff]
  calc 1 < 2 ^ 1 := by norm_num
    _ ≤ 2 ^ F.m := Nat.pow_le_pow_right (by norm_num) (by omega)

theorem pmod_elem (F : Field) (hF : F.wellFormed = true) {a : Nat} (ha : bitLen a ≤ F.m) : pmod a F.f = a := by
  obtain ⟨h1, _, _, hf⟩ := wf_parts hF
  exact pmod_of_bitLen_lt _ _ (by omega)

/-- a reduced element is determined by its class -/
theorem toPoly_of_ψ (F : Field) (hF : F.wellFormed = true) {r : Nat} (hr : bitLen r ≤ F.m) (p : (ZMod 2)[X])
    (h : ψ F r = AdjoinRoot.mk (toPoly F.f) p) : toPoly r = p %ₘ toPoly F.f := by
  obtain ⟨h1, _, _, hf⟩ := wf_parts hF
  have e : toPoly r = toPoly r %ₘ toPoly F.f := by
    rw [← toPoly_pmod _ _ hf, pmod_elem F hF hr]
  rw [e]
  apply modByMonic_eq_of_dvd_sub (monic_toPoly F.f hf)
  rw [← AdjoinRoot.mk_eq_mk]
  exact h

/-! ### powers -/

theorem isElem_pow_go (F : Field) (hF : F.wellFormed = true) : ∀ (fuel base e acc : Nat), bitLen acc ≤ F.m →
    bitLen (Field.pow.go F fuel base e acc) ≤ F.m := by
  intro fuel
  induction fuel with
  | zero => intro base e acc h; simpa [Field.pow.go] using h
  | succ n ih =>
    intro base e acc h
    rw [Field.pow.go]
    split_ifs with h0 h1
    · exact h
    · exact ih _ _ _ (isElem_mul F hF _ _)
    · exact ih _ _ _ h

theorem ψ_pow_go (F : Field) (hf : F.f ≠ 0) : ∀ (fuel base e acc : Nat), bitLen e ≤ fuel →
    ψ F (Field.pow.go F fuel base e acc) = ψ F acc * ψ F base ^ e := by
  intro fuel
  induction fuel with
  | zero =>
    intro base e acc h
    have : e = 0 := by
      rw [bitLen_le_iff] at h; omega
    subst this
    simp [Field.pow.go]
  | succ n ih =>
    intro base e acc h
    rw [Field.pow.go]
    by_cases h0 : e = 0
    · subst h0; simp
    · rw [if_neg h0]
      have hle : bitLen (e / 2) ≤ n := by
        rw [bitLen_le_iff] at h ⊢
        rw [pow_succ] at h; omega
      rw [ih _ _ _ hle, ψ_sqr F hf]
      by_cases h1 : e % 2 = 1
      · rw [if_pos h1, ψ_mul F hf]
        conv_rhs => rw [← Nat.div_add_mod e 2, h1]
        rw [pow_add, pow_mul, pow_one]; ring
      · rw [if_neg h1]
        have h2 : e % 2 = 0 := by omega
        conv_rhs => rw [← Nat.div_add_mod e 2, h2]
        rw [Nat.add_zero, pow_mul]

/-- exponentiation of the specification is exponentiation of polynomials modulo f -/
theorem toPoly_pow (F : Field) (hF : F.wellFormed = true) (a e : Nat) :
    toPoly (F.pow a e) = (toPoly a ^ e) %ₘ toPoly F.f := by
  obtain ⟨h1, _, _, hf⟩ := wf_parts hF
  unfold Field.pow
  apply toPoly_of_ψ F hF (isElem_pow_go F hF _ _ _ _ (isElem_pmod F hF _))
  rw [ψ_pow_go F hf _ _ _ _ le_rfl, ψ_pmod F hf, ψ_pmod F hf, ψ_one, one_mul]
  unfold ψ; rw [map_pow]

theorem ψ_sqrN (F : Field) (hf : F.f ≠ 0) (n a : Nat) : ψ F (F.sqrN n a) = ψ F a ^ (2 ^ n) := by
  induction n generalizing a with
  | zero => simp [Field.sqrN]
  | succ n ih => rw [Field.sqrN, ih, ψ_sqr F hf, ← pow_mul, pow_succ']

theorem isElem_sqrN (F : Field) (hF : F.wellFormed = true) (n : Nat) {a : Nat} (ha : bitLen a ≤ F.m) :
    bitLen (F.sqrN n a) ≤ F.m := by
  induction n generalizing a with
  | zero => simpa [Field.sqrN] using ha
  | succ n ih => rw [Field.sqrN]; exact ih (isElem_sqr F hF a)

theorem isElem_sqrN_pos (F : Field) (hF : F.wellFormed = true) (n a : Nat) (hn : 0 < n) :
    bitLen (F.sqrN n a) ≤ F.m := by
  obtain ⟨k, rfl⟩ : ∃ k, n = k + 1 := ⟨n - 1, by omega⟩
  rw [Field.sqrN]; exact isElem_sqrN F hF k (isElem_sqr F hF a)

theorem toPoly_sqrN (F : Field) (hF : F.wellFormed = true) (n a : Nat) (hn : 0 < n) :
    toPoly (F.sqrN n a) = (toPoly a ^ (2 ^ n)) %ₘ toPoly F.f := by
  obtain ⟨h1, _, _, hf⟩ := wf_parts hF
  apply toPoly_of_ψ F hF (isElem_sqrN_pos F hF n a hn)
  rw [ψ_sqrN F hf]
  unfold ψ; rw [map_pow]

theorem sqr_sqrN (F : Field) (hF : F.wellFormed = true) (n a : Nat) : F.sqr (F.sqrN n a) = F.sqrN n (F.sqr a) := by
  have _ := hF
  induction n generalizing a with
  | zero => simp [Field.sqrN]
  | succ n ih => rw [Field.sqrN, Field.sqrN, ih]

theorem sqr_mul (F : Field) (hF : F.wellFormed = true) (a b : Nat) : F.sqr (F.mul a b) = F.mul (F.sqr a) (F.sqr b) := by
  obtain ⟨h1, _, _, hf⟩ := wf_parts hF
  apply ψ_inj F hF (isElem_sqr F hF _) (isElem_mul F hF _ _)
  rw [ψ_sqr F hf, ψ_mul F hf, ψ_mul F hf, ψ_sqr F hf, ψ_sqr F hf]; ring

/-- if the m-fold Frobenius fixes the class of z, it is the identity of the quotient ring -/
theorem frob_fix_all (F : Field) (hF : F.wellFormed = true) (hz : FrobFix F) (x : K F) : x ^ (2 ^ F.m) = x := by
  obtain ⟨h1, _, _, hf⟩ := wf_parts hF
  have hroot : AdjoinRoot.root (toPoly F.f) ^ (2 ^ F.m) = AdjoinRoot.root (toPoly F.f) := by
    have := congrArg (ψ F) hz
    rwa [ψ_sqrN F hf, ψ_two] at this
  induction x using AdjoinRoot.induction_on with
  | ih p =>
    induction p using Polynomial.induction_on' with
    | add p q hp hq => rw [map_add, add_pow_two_pow, hp, hq]
    | monomial n a =>
      rw [← C_mul_X_pow_eq_monomial, map_mul, map_pow, AdjoinRoot.mk_X, mul_pow, ← pow_mul, mul_comm n,
        pow_mul, hroot, ← map_pow, ← C_pow, ZMod.pow_card_pow]

/-- the m-fold Frobenius fixes every element as soon as it fixes z -/
theorem sqrN_m_eq (F : Field) (hF : F.wellFormed = true) (hz : FrobFix F) (a : Nat) (ha : bitLen a ≤ F.m) :
    F.sqrN F.m a = a := by
  obtain ⟨h1, _, _, hf⟩ := wf_parts hF
  apply ψ_inj F hF (isElem_sqrN F hF _ ha) ha
  rw [ψ_sqrN F hf, frob_fix_all F hF hz]

/-- the specification's square root squares to a … -/
theorem sqr_sqrt (F : Field) (hF : F.wellFormed = true) (hz : FrobFix F) (a : Nat) (ha : bitLen a ≤ F.m) :
    F.sqr (F.sqrt a) = a := by
  obtain ⟨h1, _, h3, hf⟩ := wf_parts hF
  unfold Field.sqrt
  rw [sqr_sqrN F hF, ← Field.sqrN, show (F.m - 1).succ = F.m by omega, sqrN_m_eq F hF hz a ha]

/-- … and is the only element that does (squaring is injective) -/
theorem sqrt_unique (F : Field) (hF : F.wellFormed = true) (hz : FrobFix F) (a r : Nat) (hr : bitLen r ≤ F.m)
    (h : F.sqr r = a) : r = F.sqrt a := by
  obtain ⟨h1, _, h3, hf⟩ := wf_parts hF
  unfold Field.sqrt
  rw [← h, ← Field.sqrN, show (F.m - 1).succ = F.m by omega, sqrN_m_eq F hF hz r hr]

/-! ### trace -/

/-- state of the trace loop after n steps -/
def trSt (F : Field) (a n : Nat) : Nat × Nat :=
  (List.range n).foldl (fun (st : Nat × Nat) _ => (F.sqr st.1, st.2 ^^^ F.sqr st.1)) (a, a)

theorem trSt_succ (F : Field) (a n : Nat) :
    trSt F a (n + 1) = (F.sqr (trSt F a n).1, (trSt F a n).2 ^^^ F.sqr (trSt F a n).1) := by
  unfold trSt; rw [List.range_succ, List.foldl_append]; rfl

theorem trace_eq (F : Field) (a : Nat) : F.trace a = (trSt F (pmod a F.f) (F.m - 1)).2 := rfl

theorem trSt_spec (F : Field) (hF : F.wellFormed = true) (a : Nat) (ha : bitLen a ≤ F.m) (n : Nat) :
    bitLen (trSt F a n).1 ≤ F.m ∧ bitLen (trSt F a n).2 ≤ F.m ∧ ψ F (trSt F a n).1 = ψ F a ^ (2 ^ n) ∧
      ψ F (trSt F a n).2 = ∑ i ∈ Finset.range (n + 1), ψ F a ^ (2 ^ i) := by
  obtain ⟨h1, _, _, hf⟩ := wf_parts hF
  induction n with
  | zero => simp [trSt, ha]
  | succ n ih =>
    obtain ⟨i1, i2, i3, i4⟩ := ih
    rw [trSt_succ]
    refine ⟨isElem_sqr F hF _, isElem_xor F i2 (isElem_sqr F hF _), ?_, ?_⟩
    · simp only []; rw [ψ_sqr F hf, i3, ← pow_mul, pow_succ]
    · simp only []; rw [ψ_xor, ψ_sqr F hf, i3, i4, Finset.sum_range_succ _ (n + 1), ← pow_mul, pow_succ]

theorem isElem_trace (F : Field) (hF : F.wellFormed = true) (a : Nat) : bitLen (F.trace a) ≤ F.m := by
  rw [trace_eq]; exact (trSt_spec F hF _ (isElem_pmod F hF a) _).2.1

theorem ψ_trace (F : Field) (hF : F.wellFormed = true) (a : Nat) :
    ψ F (F.trace a) = ∑ i ∈ Finset.range F.m, ψ F a ^ (2 ^ i) := by
  obtain ⟨h1, _, h3, hf⟩ := wf_parts hF
  rw [trace_eq, (trSt_spec F hF _ (isElem_pmod F hF a) _).2.2.2, ψ_pmod F hf, show F.m - 1 + 1 = F.m by omega]

theorem trace_xor (F : Field) (hF : F.wellFormed = true) (a b : Nat) : F.trace (a ^^^ b) = F.trace a ^^^ F.trace b := by
  apply ψ_inj F hF (isElem_trace F hF _) (isElem_xor F (isElem_trace F hF _) (isElem_trace F hF _))
  rw [ψ_xor, ψ_trace F hF, ψ_trace F hF, ψ_trace F hF, ψ_xor]
  simp only [add_pow_two_pow, Finset.sum_add_distrib]

theorem trace_zero (F : Field) (hF : F.wellFormed = true) : F.trace 0 = 0 := by
  apply ψ_inj F hF (isElem_trace F hF _) (by simp [bitLen])
  rw [ψ_trace F hF, ψ_zero]
  apply Finset.sum_eq_zero
  intro i _
  exact zero_pow (by positivity)

/-- Tr(a²) = Tr(a) -/
theorem trace_sqr (F : Field) (hF : F.wellFormed = true) (hz : FrobFix F) (a : Nat) (ha : bitLen a ≤ F.m) :
    F.trace (F.sqr a) = F.trace a := by
  have _ := ha
  obtain ⟨h1, _, h3, hf⟩ := wf_parts hF
  apply ψ_inj F hF (isElem_trace F hF _) (isElem_trace F hF _)
  rw [ψ_trace F hF, ψ_trace F hF, ψ_sqr F hf]
  have e1 := Finset.sum_range_succ' (fun i => ψ F a ^ (2 ^ i)) F.m
  have e2 := Finset.sum_range_succ (fun i => ψ F a ^ (2 ^ i)) F.m
  rw [frob_fix_all F hF hz] at e2
  simp only [pow_zero, pow_one] at e1
  have e3 : ∑ i ∈ Finset.range F.m, (ψ F a ^ 2) ^ (2 ^ i) = ∑ i ∈ Finset.range F.m, ψ F a ^ (2 ^ (i + 1)) := by
    apply Finset.sum_congr rfl; intro i _; rw [← pow_mul, pow_succ']
  rw [e3]
  exact add_right_cancel (e1.symm.trans e2)

/-! ### half-trace -/

def htSt (F : Field) (a n : Nat) : Nat × Nat :=
  (List.range n).foldl (fun (st : Nat × Nat) _ =>
    let t := F.sqr (F.sqr st.1)
    (t, st.2 ^^^ t)) (a, a)

theorem htSt_succ (F : Field) (a n : Nat) :
    htSt F a (n + 1) = (F.sqr (F.sqr (htSt F a n).1), (htSt F a n).2 ^^^ F.sqr (F.sqr (htSt F a n).1)) := by
  unfold htSt; rw [List.range_succ, List.foldl_append]; rfl

theorem halfTrace_eq (F : Field) (a : Nat) : F.halfTrace a = (htSt F (pmod a F.f) ((F.m - 1) / 2)).2 := rfl

theorem htSt_spec (F : Field) (hF : F.wellFormed = true) (a : Nat) (ha : bitLen a ≤ F.m) (n : Nat) :
    bitLen (htSt F a n).1 ≤ F.m ∧ bitLen (htSt F a n).2 ≤ F.m ∧ ψ F (htSt F a n).1 = ψ F a ^ (2 ^ (2 * n)) ∧
      ψ F (htSt F a n).2 = ∑ i ∈ Finset.range (n + 1), ψ F a ^ (2 ^ (2 * i)) := by
  obtain ⟨h1, _, _, hf⟩ := wf_parts hF
  induction n with
  | zero => simp [htSt, ha]
  | succ n ih =>
    obtain ⟨i1, i2, i3, i4⟩ := ih
    rw [htSt_succ]
    have e : (ψ F a ^ 2 ^ (2 * n)) ^ 2 ^ 2 = ψ F a ^ 2 ^ (2 * (n + 1)) := by
      rw [← pow_mul]; congr 1; ring
    refine ⟨isElem_sqr F hF _, isElem_xor F i2 (isElem_sqr F hF _), ?_, ?_⟩
    · simp only []; rw [ψ_sqr F hf, ψ_sqr F hf, i3, ← pow_mul _ 2 2, ← e]; norm_num
    · simp only []
      rw [ψ_xor, ψ_sqr F hf, ψ_sqr F hf, i3, i4, Finset.sum_range_succ _ (n + 1), ← pow_mul _ 2 2, ← e]; norm_num

theorem isElem_halfTrace (F : Field) (hF : F.wellFormed = true) (a : Nat) : bitLen (F.halfTrace a) ≤ F.m := by
  rw [halfTrace_eq]; exact (htSt_spec F hF _ (isElem_pmod F hF a) _).2.1

theorem ψ_halfTrace (F : Field) (hF : F.wellFormed = true) (a : Nat) :
    ψ F (F.halfTrace a) = ∑ i ∈ Finset.range ((F.m - 1) / 2 + 1), ψ F a ^ (2 ^ (2 * i)) := by
  obtain ⟨h1, _, h3, hf⟩ := wf_parts hF
  rw [halfTrace_eq, (htSt_spec F hF _ (isElem_pmod F hF a) _).2.2.2, ψ_pmod F hf]

theorem halfTrace_xor (F : Field) (hF : F.wellFormed = true) (a b : Nat) :
    F.halfTrace (a ^^^ b) = F.halfTrace a ^^^ F.halfTrace b := by
  apply ψ_inj F hF (isElem_halfTrace F hF _) (isElem_xor F (isElem_halfTrace F hF _) (isElem_halfTrace F hF _))
  rw [ψ_xor, ψ_halfTrace F hF, ψ_halfTrace F hF, ψ_halfTrace F hF, ψ_xor]
  simp only [add_pow_two_pow, Finset.sum_add_distrib]

theorem sum_sq (F : Field) (g : Nat → K F) (n : Nat) :
    (∑ i ∈ Finset.range n, g i) ^ 2 = ∑ i ∈ Finset.range n, g i ^ 2 := by
  induction n with
  | zero => simp
  | succ n ih => rw [Finset.sum_range_succ, Finset.sum_range_succ, add_sq2, ih]

theorem sum_range_double {M : Type*} [AddCommMonoid M] (g : Nat → M) (n : Nat) :
    ∑ j ∈ Finset.range (2 * n), g j = ∑ i ∈ Finset.range n, (g (2 * i) + g (2 * i + 1)) := by
  induction n with
  | zero => simp
  | succ n ih =>
    rw [show 2 * (n + 1) = 2 * n + 1 + 1 by ring, Finset.sum_range_succ, Finset.sum_range_succ, ih,
      Finset.sum_range_succ, add_assoc]

/-- for odd m the half-trace solves c² + c = a + Tr(a): the quadratic c² + c = a has the solution H(a) whenever Tr(a) = 0 -/
theorem halfTrace_spec (F : Field) (hF : F.wellFormed = true) (hz : FrobFix F) (hodd : F.m % 2 = 1) (a : Nat) (ha : bitLen a ≤ F.m) :
    F.sqr (F.halfTrace a) ^^^ F.halfTrace a = a ^^^ F.trace a := by
  obtain ⟨h1, _, h3, hf⟩ := wf_parts hF
  apply ψ_inj F hF (isElem_xor F (isElem_sqr F hF _) (isElem_halfTrace F hF _)) (isElem_xor F ha (isElem_trace F hF _))
  rw [ψ_xor, ψ_xor, ψ_sqr F hf, ψ_halfTrace F hF, ψ_trace F hF, sum_sq]
  have e := sum_range_double (fun j => ψ F a ^ (2 ^ j)) ((F.m - 1) / 2 + 1)
  rw [show 2 * ((F.m - 1) / 2 + 1) = F.m + 1 by omega, Finset.sum_range_succ, frob_fix_all F hF hz,
    Finset.sum_add_distrib] at e
  have e3 : ∑ i ∈ Finset.range ((F.m - 1) / 2 + 1), (ψ F a ^ 2 ^ (2 * i)) ^ 2
      = ∑ i ∈ Finset.range ((F.m - 1) / 2 + 1), ψ F a ^ 2 ^ (2 * i + 1) := by
    apply Finset.sum_congr rfl; intro i _; rw [← pow_mul, pow_succ]
  rw [e3, add_comm (ψ F a), e, add_comm]

/-! ### trace from selected coefficients -/

theorem trcBits_init (a : Nat) (ts : List Nat) (init : Nat) :
    ts.foldl (fun r i => r ^^^ (if a.testBit i then 1 else 0)) init
      = init ^^^ ts.foldl (fun r i => r ^^^ (if a.testBit i then 1 else 0)) 0 := by
  induction ts generalizing init with
  | nil => simp
  | cons t ts ih =>
    simp only [List.foldl_cons]
    rw [ih (init ^^^ _), ih (0 ^^^ _), Nat.zero_xor, Nat.xor_assoc]

theorem trcBits_cons (a t : Nat) (ts : List Nat) :
    trcBits a (t :: ts) = (if a.testBit t then 1 else 0) ^^^ trcBits a ts := by
  unfold trcBits
  simp only [List.foldl_cons]
  rw [trcBits_init, Nat.zero_xor]

theorem trcBits_zero (ts : List Nat) : trcBits 0 ts = 0 := by
  induction ts with
  | nil => rfl
  | cons t ts ih => rw [trcBits_cons, ih]; simp

theorem trcBits_xor (a b : Nat) (ts : List Nat) : trcBits (a ^^^ b) ts = trcBits a ts ^^^ trcBits b ts := by
  induction ts with
  | nil => simp [trcBits]
  | cons t ts ih =>
    rw [trcBits_cons, trcBits_cons, trcBits_cons, ih, Nat.testBit_xor]
    have e1 : ∀ p q : Bool, (if (p ^^ q) = true then 1 else 0 : Nat)
        = (if p = true then 1 else 0) ^^^ (if q = true then 1 else 0) := by decide
    have e2 : ∀ x y A B : Nat, (x ^^^ y) ^^^ (A ^^^ B) = (x ^^^ A) ^^^ (y ^^^ B) := by
      intro x y A B; ac_rfl
    rw [e1, e2]

theorem trcBits_two_pow (k : Nat) (ts : List Nat) (hnd : ts.Nodup) :
    trcBits (2 ^ k) ts = if k ∈ ts then 1 else 0 := by
  induction ts with
  | nil => rfl
  | cons t ts ih =>
    rw [List.nodup_cons] at hnd
    rw [trcBits_cons, ih hnd.2, Nat.testBit_two_pow]
    by_cases hkt : k = t
    · subst hkt; simp [hnd.1]
    · have : ¬ t = k := fun e => hkt e.symm
      simp [hkt]

theorem mod_two_pow_succ_xor (a k : Nat) :
    a % 2 ^ (k + 1) = (a % 2 ^ k) ^^^ (if a.testBit k then 2 ^ k else 0) := by
  apply Nat.eq_of_testBit_eq
  intro i
  rw [Nat.testBit_xor, Nat.testBit_mod_two_pow, Nat.testBit_mod_two_pow]
  by_cases hb : a.testBit k
  · rw [if_pos hb, Nat.testBit_two_pow]
    by_cases hik : i = k
    · subst hik; simp [hb]
    · have h1 : (i < k + 1) ↔ (i < k) := by omega
      have h2 : ¬ k = i := fun e => hik e.symm
      simp [h1, h2]
  · rw [if_neg hb]
    by_cases hik : i = k
    · subst hik; simp [hb]
    · have h1 : (i < k + 1) ↔ (i < k) := by omega
      simp [h1]

/-- fb_trcn_low: the trace is the xor of the coefficients at the positions i with Tr(z^i) = 1 -/
theorem trace_bits (F : Field) (hF : F.wellFormed = true) (ts : List Nat) (hnd : ts.Nodup) (hlt : ∀ i ∈ ts, i < F.m)
    (hts : ∀ i, i < F.m → F.trace (2 ^ i) = if i ∈ ts then 1 else 0) (a : Nat) (ha : a < 2 ^ F.m) :
    F.trace a = trcBits a ts := by
  have _ := hlt
  have key : ∀ k, k ≤ F.m → F.trace (a % 2 ^ k) = trcBits (a % 2 ^ k) ts := by
    intro k
    induction k with
    | zero => intro _; simp [Nat.mod_one, trace_zero F hF, trcBits_zero]
    | succ k ih =>
      intro hk
      rw [mod_two_pow_succ_xor, trace_xor F hF, trcBits_xor, ih (by omega)]
      congr 1
      by_cases hb : a.testBit k
      · rw [if_pos hb, hts k (by omega), trcBits_two_pow k ts hnd]
      · rw [if_neg hb, trace_zero F hF, trcBits_zero]
  have := key F.m le_rfl
  rwa [Nat.mod_eq_of_lt ha] at this

/-! ### square root by even/odd splitting -/

theorem testBit_compress_loop (a off n i : Nat) :
    ((List.range n).foldl (fun c i => if a.testBit (2 * i + off) then c ^^^ (1 <<< i) else c) 0).testBit i
      = (decide (i < n) && a.testBit (2 * i + off)) := by
  induction n with
  | zero => simp
  | succ n ih =>
    rw [List.range_succ, List.foldl_append]
    simp only [List.foldl_cons, List.foldl_nil]
    by_cases hin : i = n
    · subst hin
      by_cases hb : a.testBit (2 * i + off)
      · rw [if_pos hb, Nat.testBit_xor, ih, Nat.one_shiftLeft, Nat.testBit_two_pow]; simp [hb]
      · rw [if_neg hb, ih]; simp [hb]
    · have h1 : (i < n + 1) ↔ (i < n) := by omega
      have h2 : ¬ n = i := fun e => hin e.symm
      by_cases hb : a.testBit (2 * n + off)
      · rw [if_pos hb, Nat.testBit_xor, ih, Nat.one_shiftLeft, Nat.testBit_two_pow]; simp [h1, h2]
      · rw [if_neg hb, ih]; simp [h1]

theorem testBit_compress (a off m i : Nat) :
    (compress a off m).testBit i = (decide (i < (m + 1) / 2) && a.testBit (2 * i + off)) :=
  testBit_compress_loop a off _ i

theorem clmul_two (x : Nat) : clmul 2 x = x <<< 1 := by
  rw [clmul_comm, show (2 : Nat) = 2 ^ 1 by norm_num, clmul_two_pow]

theorem split_recombine (a m : Nat) (ha : a < 2 ^ m) :
    clmul (compress a 0 m) (compress a 0 m) ^^^ clmul 2 (clmul (compress a 1 m) (compress a 1 m)) = a := by
  have hhi : ∀ j, m ≤ j → a.testBit j = false := fun j hj =>
    Nat.testBit_lt_two_pow (lt_of_lt_of_le ha (Nat.pow_le_pow_right (by norm_num) hj))
  apply Nat.eq_of_testBit_eq
  intro j
  rw [Nat.testBit_xor, clmul_two, Nat.testBit_shiftLeft]
  rcases Nat.even_or_odd' j with ⟨i, rfl | rfl⟩
  · rw [clmul_self_testBit_even, testBit_compress]
    have h2 : (decide (2 * i ≥ 1) && (clmul (compress a 1 m) (compress a 1 m)).testBit (2 * i - 1)) = false := by
      by_cases hi : i = 0
      · subst hi; simp
      · rw [show 2 * i - 1 = 2 * (i - 1) + 1 by omega, clmul_self_testBit_odd]; simp
    rw [h2, Bool.xor_false, Nat.add_zero]
    by_cases hlt : i < (m + 1) / 2
    · simp [hlt]
    · have hz := hhi (2 * i) (by omega)
      simp [hz]
  · rw [clmul_self_testBit_odd, Bool.false_xor, show 2 * i + 1 - 1 = 2 * i by omega, clmul_self_testBit_even,
      testBit_compress]
    by_cases hlt : i < (m + 1) / 2
    · simp [hlt]
    · have hz := hhi (2 * i + 1) (by omega)
      simp [hz]

/-- fb_srtn_low: even/odd splitting with any srz such that srz² = z gives a square root -/
theorem srtSplit_spec (F : Field) (hF : F.wellFormed = true) (srz : Nat) (hsrz : F.sqr srz = 2) (a : Nat) (ha : a < 2 ^ F.m) :
    F.sqr (srtSplit F.mul srz F.m a) = a := by
  obtain ⟨h1, _, h3, hf⟩ := wf_parts hF
  unfold srtSplit
  rw [Field.sqr_xor F hf, sqr_mul F hF, hsrz]
  have e : F.mul 2 (F.sqr (compress a 1 F.m)) = pmod (clmul 2 (clmul (compress a 1 F.m) (compress a 1 F.m))) F.f := by
    unfold Field.sqr Field.mul
    rw [pmod_clmul_pmod_right _ _ _ hf]
  rw [e]
  conv_lhs => unfold Field.sqr Field.mul
  rw [← pmod_xor _ _ _ hf, split_recombine a F.m ha]
  exact pmod_elem F hF ((bitLen_le_iff _ _).2 ha)

/-! ### inverses -/

/-- an inverse is unique (commutative ring) -/
theorem inv_unique (F : Field) (hF : F.wellFormed = true) (a c c' : Nat) (hc : bitLen c ≤ F.m) (hc' : bitLen c' ≤ F.m)
    (h : F.mul a c = 1) (h' : F.mul a c' = 1) : c = c' := by
  obtain ⟨h1, _, h3, hf⟩ := wf_parts hF
  calc c = F.mul c 1 := (Field.mul_one F c (by omega)).symm
    _ = F.mul c (F.mul a c') := by rw [h']
    _ = F.mul (F.mul c a) c' := (Field.mul_assoc F hf _ _ _).symm
    _ = F.mul (F.mul a c) c' := by rw [Field.mul_comm F c a]
    _ = F.mul 1 c' := by rw [h]
    _ = F.mul c' 1 := Field.mul_comm F _ _
    _ = c' := Field.mul_one F c' (by omega)

/-- no zero divisors when f is irreducible -/
theorem mul_eq_zero (F : Field) (hF : F.wellFormed = true) (hirr : Irreducible (toPoly F.f)) (a b : Nat)
    (ha : bitLen a ≤ F.m) (hb : bitLen b ≤ F.m) (h : F.mul a b = 0) : a = 0 ∨ b = 0 := by
  obtain ⟨h1, _, h3, hf⟩ := wf_parts hF
  have := Fact.mk hirr
  have h0 : bitLen 0 ≤ F.m := by simp [bitLen]
  have e : ψ F a * ψ F b = 0 := by rw [← ψ_mul F hf, h, ψ_zero]
  rcases _root_.mul_eq_zero.1 e with e | e
  · left; exact ψ_inj F hF ha h0 (by rw [e, ψ_zero])
  · right; exact ψ_inj F hF hb h0 (by rw [e, ψ_zero])

def ifSt (F : Field) (a n : Nat) : Nat × Nat :=
  (List.range n).foldl (fun (st : Nat × Nat) _ => (F.sqr st.1, F.mul st.2 (F.sqr st.1))) (a, pmod 1 F.f)

theorem ifSt_succ (F : Field) (a n : Nat) :
    ifSt F a (n + 1) = (F.sqr (ifSt F a n).1, F.mul (ifSt F a n).2 (F.sqr (ifSt F a n).1)) := by
  unfold ifSt; rw [List.range_succ, List.foldl_append]; rfl

theorem invFermat_eq (F : Field) (a : Nat) : F.invFermat a = (ifSt F (pmod a F.f) (F.m - 1)).2 := rfl

theorem ifSt_spec (F : Field) (hF : F.wellFormed = true) (a : Nat) (n : Nat) :
    ψ F (ifSt F a n).1 = ψ F a ^ (2 ^ n) ∧ ψ F (ifSt F a n).2 = ψ F a ^ (2 ^ (n + 1) - 2) := by
  obtain ⟨h1, _, _, hf⟩ := wf_parts hF
  induction n with
  | zero => simp [ifSt, ψ_pmod F hf, ψ_one]
  | succ n ih =>
    obtain ⟨i3, i4⟩ := ih
    rw [ifSt_succ]
    refine ⟨?_, ?_⟩
    · simp only []; rw [ψ_sqr F hf, i3, ← pow_mul, pow_succ]
    · simp only []
      rw [ψ_mul F hf, ψ_sqr F hf, i3, i4, ← pow_mul, ← pow_add]
      congr 1
      have : 2 ≤ 2 ^ (n + 1) := by
        calc 2 = 2 ^ 1 := by norm_num
          _ ≤ 2 ^ (n + 1) := Nat.pow_le_pow_right (by norm_num) (by omega)
      rw [pow_succ 2 (n + 1), pow_succ 2 n] at *
      omega

/-- Fermat: a·a^(2^m - 2) = 1 for a ≠ 0 when f is irreducible and the Frobenius check holds -/
theorem invFermat_spec (F : Field) (hF : F.wellFormed = true) (hz : FrobFix F) (hirr : Irreducible (toPoly F.f)) (a : Nat)
    (ha : bitLen a ≤ F.m) (ha0 : a ≠ 0) : F.mul a (F.invFermat a) = 1 := by
  obtain ⟨h1, _, h3, hf⟩ := wf_parts hF
  have := Fact.mk hirr
  have h0 : bitLen 0 ≤ F.m := by simp [bitLen]
  have hx : ψ F a ≠ 0 := by
    intro e; exact ha0 (ψ_inj F hF ha h0 (by rw [e, ψ_zero]))
  apply ψ_inj F hF (isElem_mul F hF _ _) (isElem_one F hF)
  rw [ψ_mul F hf, invFermat_eq, (ifSt_spec F hF _ _).2, ψ_pmod F hf, ψ_one, show F.m - 1 + 1 = F.m by omega]
  have h4 : 4 ≤ 2 ^ F.m := by
    calc 4 = 2 ^ 2 := by norm_num
      _ ≤ 2 ^ F.m := Nat.pow_le_pow_right (by norm_num) h3
  apply mul_left_cancel₀ hx
  rw [← pow_succ', ← pow_succ', show 2 ^ F.m - 2 + 1 + 1 = 2 ^ F.m by omega, frob_fix_all F hF hz, mul_one]

/-- the specification's inverse (Euclidean candidate, checked, else the Fermat power) is an inverse -/
theorem inv_spec (F : Field) (hF : F.wellFormed = true) (hz : FrobFix F) (hirr : Irreducible (toPoly F.f)) (a : Nat)
    (ha : bitLen a ≤ F.m) (ha0 : a ≠ 0) : F.mul a (F.inv a) = 1 := by
  unfold Field.inv
  simp only []
  split_ifs with h
  · exact h
  · exact invFermat_spec F hF hz hirr a ha ha0

end Relic.Lemmas.Gf2Field
