/-
RSA and Rabin for property C06: exponent cancellation modulo a product of two distinct primes for EVERY residue (units or
not), correctness of the CRT recombination `bn_mxp_crt` performs (Garner), the private-key operation through the CRT equals
the plain one, the four square roots modulo a Blum integer.
-/
import Mathlib.FieldTheory.Finite.Basic
import Mathlib.Data.ZMod.Basic
import Mathlib.Data.Nat.ChineseRemainder
import Mathlib.Data.Nat.Prime.Basic
import RelicVerif.Lemmas.NumC06
import RelicVerif.Model.Cp

namespace Relic.Lemmas.RsaC06
open Relic.Spec.Curve (powMod)
open Relic.Spec.Cp Relic.Model.Cp

/-- Fermat for every residue: m^k ≡ m (mod p) when (p−1) ∣ k−1 and k > 0 -/
theorem pow_cancel_prime (p k m : Nat) (hp : p.Prime) (hk : (p - 1) ∣ k - 1) (hk0 : 0 < k) :
    m ^ k ≡ m [MOD p] := by
  have : Fact p.Prime := ⟨hp⟩
  rw [← ZMod.natCast_eq_natCast_iff]
  push_cast
  by_cases h0 : (m : ZMod p) = 0
  · rw [h0, zero_pow (by omega)]
  · obtain ⟨t, ht⟩ := hk
    have hk' : k = (p - 1) * t + 1 := by omega
    rw [hk', pow_succ, pow_mul, ZMod.pow_card_sub_one_eq_one h0, one_pow, one_mul]

/-- reduction of the exponent modulo p−1, for every base, as long as the reduced exponent is positive -/
theorem pow_mod_pred (p c d : Nat) (hp : p.Prime) (hd : 0 < d % (p - 1)) :
    c ^ (d % (p - 1)) % p = c ^ d % p := by
  have : Fact p.Prime := ⟨hp⟩
  rw [← ZMod.natCast_eq_natCast_iff']
  push_cast
  by_cases h0 : (c : ZMod p) = 0
  · have hd0 : d ≠ 0 := by
      rintro rfl
      simp at hd
    rw [h0, zero_pow (by omega), zero_pow hd0]
  · conv_rhs => rw [← Nat.div_add_mod d (p - 1)]
    rw [pow_add, pow_mul, ZMod.pow_card_sub_one_eq_one h0, one_pow, one_mul]

theorem lcm_dvd_of_mod (L k : Nat) (hk : k % L = 1 % L) : L ∣ k - 1 :=
  Nat.dvd_of_mod_eq_zero (Nat.sub_mod_eq_zero_of_mod_eq hk)

/-- m^k ≡ m (mod p·q) for every m — also when gcd(m, p·q) ≠ 1 — as soon as k ≡ 1 modulo lcm(p−1, q−1) -/
theorem pow_cancel (p q k m : Nat) (hp : p.Prime) (hq : q.Prime) (hpq : p ≠ q)
    (hk : k % Nat.lcm (p - 1) (q - 1) = 1 % Nat.lcm (p - 1) (q - 1)) (hk0 : 0 < k) :
    m ^ k % (p * q) = m % (p * q) := by
  have hL := lcm_dvd_of_mod _ _ hk
  have h1 : m ^ k ≡ m [MOD p] :=
    pow_cancel_prime p k m hp ((Nat.dvd_lcm_left _ _).trans hL) hk0
  have h2 : m ^ k ≡ m [MOD q] :=
    pow_cancel_prime q k m hq ((Nat.dvd_lcm_right _ _).trans hL) hk0
  exact (Nat.modEq_and_modEq_iff_modEq_mul ((Nat.coprime_primes hp hq).2 hpq)).1 ⟨h1, h2⟩

/-- RSADP ∘ RSAEP = id on every representative < n -/
theorem rsa_roundtrip (p q e d m : Nat) (hp : p.Prime) (hq : q.Prime) (hpq : p ≠ q)
    (hed : (e * d) % Nat.lcm (p - 1) (q - 1) = 1 % Nat.lcm (p - 1) (q - 1)) (hed0 : 0 < e * d) (hm : m < p * q) :
    rsadp (p * q) d (rsaep (p * q) e m) = m := by
  have hn : 1 < p * q := by
    have := hp.one_lt; have := hq.one_lt; nlinarith
  unfold rsadp rsaep
  rw [NumC06.powMod_eq _ _ _ hn, NumC06.powMod_eq _ _ _ hn, ← Nat.pow_mod, ← pow_mul,
    pow_cancel p q (e * d) m hp hq hpq hed hed0, Nat.mod_eq_of_lt hm]

theorem coprime_of_inv (p q qi : Nat) (hqi : qi * q % p = 1) : Nat.Coprime p q := by
  have h1 : Nat.gcd p q ∣ qi * q % p :=
    (Nat.dvd_mod_iff (Nat.gcd_dvd_left p q)).2 (Dvd.dvd.mul_left (Nat.gcd_dvd_right p q) qi)
  rw [hqi] at h1
  exact Nat.dvd_one.1 h1

/-- Garner's recombination: from the residues modulo p and q to the residue modulo p·q -/
theorem garner_eq (p q qi x : Nat) (hp : 1 < p) (hq : 0 < q) (hqi : qi * q % p = 1) :
    garner (x % p) (x % q) p q qi = x % (p * q) := by
  have hcop := coprime_of_inv p q qi hqi
  unfold garner
  set t := x % p with ht
  set u := x % q with hu
  set D := t + (u / p + 1) * p - u with hD
  have hup : u < (u / p + 1) * p := by
    have := Nat.div_add_mod u p
    have := Nat.mod_lt u (by omega : 0 < p)
    rw [Nat.add_mul, Nat.mul_comm (u / p) p]; omega
  have hDu : D + u = t + (u / p + 1) * p := by omega
  show u + D % p * qi % p * q = x % (p * q)
  set h := D % p * qi % p with hh
  have hhp : h < p := Nat.mod_lt _ (by omega)
  have huq : u < q := Nat.mod_lt _ hq
  have hlt : u + h * q < p * q := by
    have : h * q ≤ (p - 1) * q := Nat.mul_le_mul_right q (by omega)
    have : p * q = (p - 1) * q + q := by
      conv_lhs => rw [show p = (p - 1) + 1 by omega]
      rw [Nat.add_mul, Nat.one_mul]
    omega
  have hmq : u + h * q ≡ x [MOD q] := by
    show (u + h * q) % q = x % q
    rw [Nat.add_mul_mod_self_right, hu, Nat.mod_mod]
  have hmp : u + h * q ≡ x [MOD p] := by
    rw [← ZMod.natCast_eq_natCast_iff]
    have e1 : ((qi : ZMod p) * q) = 1 := by
      have : ((qi * q : Nat) : ZMod p) = ((1 : Nat) : ZMod p) := by
        rw [ZMod.natCast_eq_natCast_iff', hqi, Nat.mod_eq_of_lt hp]
      simpa using this
    have e2 : (D : ZMod p) = t - u := by
      have : ((D + u : Nat) : ZMod p) = ((t + (u / p + 1) * p : Nat) : ZMod p) := by rw [hDu]
      push_cast at this
      rw [ZMod.natCast_self, mul_zero, add_zero] at this
      rw [← this]; ring
    have e3 : (t : ZMod p) = x := by rw [ht, ZMod.natCast_mod]
    rw [hh]
    push_cast
    rw [ZMod.natCast_mod, Nat.cast_mul, ZMod.natCast_mod, mul_assoc, e1, mul_one, e2, e3]
    ring
  have := (Nat.modEq_and_modEq_iff_modEq_mul hcop).1 ⟨hmp, hmq⟩
  rw [← this, Nat.mod_eq_of_lt hlt]

/-- `bn_mxp_crt` with the reduced exponents equals the plain exponentiation, for every base (units or not) -/
theorem mxpCrt_eq (p q d qi c : Nat) (hp : p.Prime) (hq : q.Prime) (hpq : p ≠ q) (hqi : qi * q % p = 1)
    (hdp : 0 < d % (p - 1)) (hdq : 0 < d % (q - 1)) :
    mxpCrt c (d % (p - 1)) (d % (q - 1)) p q qi = c ^ d % (p * q) := by
  have _ := hpq
  unfold mxpCrt
  rw [NumC06.powMod_eq _ _ _ hp.one_lt, NumC06.powMod_eq _ _ _ hq.one_lt,
    pow_mod_pred p c d hp hdp, pow_mod_pred q c d hq hdq]
  exact garner_eq p q qi (c ^ d) hp.one_lt hq.pos hqi

theorem red_exp_pos (a e d L : Nat) (ha : 2 < a) (haL : a - 1 ∣ L) (hed : (e * d) % L = 1) :
    0 < d % (a - 1) := by
  have h1 : (e * d) % (a - 1) = 1 := by
    rw [← Nat.mod_mod_of_dvd _ haL, hed, Nat.mod_eq_of_lt (by omega)]
  rcases Nat.eq_zero_or_pos (d % (a - 1)) with h0 | h0
  · have : (a - 1) ∣ e * d := Dvd.dvd.mul_left (Nat.dvd_of_mod_eq_zero h0) e
    rw [Nat.mod_eq_zero_of_dvd this] at h1
    omega
  · exact h0

/-- the private-key operation through the CRT inverts the public one, for every representative < n -/
theorem rsa_crt_roundtrip (p q e d qi m : Nat) (hp : p.Prime) (hq : q.Prime) (hpq : p ≠ q) (hp2 : 2 < p) (hq2 : 2 < q)
    (hed : (e * d) % Nat.lcm (p - 1) (q - 1) = 1) (hqi : qi * q % p = 1) (hm : m < p * q) :
    mxpCrt (rsaep (p * q) e m) (d % (p - 1)) (d % (q - 1)) p q qi = m := by
  have hn : 1 < p * q := by nlinarith
  have hdp := red_exp_pos p e d _ hp2 (Nat.dvd_lcm_left _ _) hed
  have hdq := red_exp_pos q e d _ hq2 (Nat.dvd_lcm_right _ _) hed
  have hL1 : 1 % Nat.lcm (p - 1) (q - 1) = 1 := by
    rcases Nat.lt_trichotomy (Nat.lcm (p - 1) (q - 1)) 1 with h | h | h
    · have : Nat.lcm (p - 1) (q - 1) = 0 := by omega
      rw [this]
    · rw [h, Nat.mod_one] at hed; omega
    · exact Nat.mod_eq_of_lt h
  have hed0 : 0 < e * d := by
    rcases Nat.eq_zero_or_pos (e * d) with h | h
    · rw [h, Nat.zero_mod] at hed; omega
    · exact h
  rw [mxpCrt_eq p q d qi _ hp hq hpq hqi hdp hdq]
  unfold rsaep
  rw [NumC06.powMod_eq _ _ _ hn, ← Nat.pow_mod, ← pow_mul,
    pow_cancel p q (e * d) m hp hq hpq (by rw [hed, hL1]) hed0, Nat.mod_eq_of_lt hm]

/-- for a Blum prime, c^((p+1)/4) is a square root of every quadratic residue c -/
theorem blum_sqrt (p c : Nat) (hp : p.Prime) (h3 : p % 4 = 3) (hc : ∃ x, x ^ 2 % p = c % p) :
    (c ^ ((p + 1) / 4)) ^ 2 % p = c % p := by
  have : Fact p.Prime := ⟨hp⟩
  obtain ⟨x, hx⟩ := hc
  have hx' : ((x : ZMod p)) ^ 2 = c := by
    have := (ZMod.natCast_eq_natCast_iff' (x ^ 2) c p).2 hx
    simpa using this
  rw [← ZMod.natCast_eq_natCast_iff']
  push_cast
  have hj : 2 * ((p + 1) / 4 * 2) = p + 1 := by omega
  rw [← hx', ← pow_mul, ← pow_mul, hj, pow_succ, ZMod.pow_card, sq]

theorem sq_modEq_of_pm (p c r rp : Nat) (hrp : rp ^ 2 % p = c % p)
    (h1 : r % p = rp % p ∨ (r + rp) % p = 0) : r ^ 2 ≡ c [MOD p] := by
  rw [← ZMod.natCast_eq_natCast_iff]
  have hc : ((rp : ZMod p)) ^ 2 = c := by
    have := (ZMod.natCast_eq_natCast_iff' (rp ^ 2) c p).2 hrp
    simpa using this
  push_cast
  rw [← hc]
  rcases h1 with h | h
  · have : (r : ZMod p) = rp := (ZMod.natCast_eq_natCast_iff' r rp p).2 h
    rw [this]
  · have : ((r + rp : Nat) : ZMod p) = 0 := by
      rw [ZMod.natCast_eq_zero_iff]; exact Nat.dvd_of_mod_eq_zero h
    push_cast at this
    have : (r : ZMod p) = -rp := eq_neg_of_add_eq_zero_left this
    rw [this, neg_sq]

/-- every r that is ± the prime-wise roots is a square root of c modulo p·q … -/
theorem rabin_roots_square (p q c r rp rq : Nat) (hp : p.Prime) (hq : q.Prime) (hpq : p ≠ q)
    (hrp : rp ^ 2 % p = c % p) (hrq : rq ^ 2 % q = c % q)
    (h1 : r % p = rp % p ∨ (r + rp) % p = 0) (h2 : r % q = rq % q ∨ (r + rq) % q = 0) :
    r ^ 2 % (p * q) = c % (p * q) :=
  (Nat.modEq_and_modEq_iff_modEq_mul ((Nat.coprime_primes hp hq).2 hpq)).1
    ⟨sq_modEq_of_pm p c r rp hrp h1, sq_modEq_of_pm q c r rq hrq h2⟩

theorem pm_of_sq_modEq (p c m rp : Nat) (hp : p.Prime) (hm : m ^ 2 ≡ c [MOD p]) (hrp : rp ^ 2 % p = c % p) :
    m % p = rp % p ∨ (m + rp) % p = 0 := by
  have : Fact p.Prime := ⟨hp⟩
  have h1 : ((m : ZMod p)) ^ 2 = (rp : ZMod p) ^ 2 := by
    have a := (ZMod.natCast_eq_natCast_iff (m ^ 2) c p).2 hm
    have b := (ZMod.natCast_eq_natCast_iff' (rp ^ 2) c p).2 hrp
    push_cast at a b
    rw [a, b]
  rcases sq_eq_sq_iff_eq_or_eq_neg.1 h1 with h | h
  · left; exact (ZMod.natCast_eq_natCast_iff' m rp p).1 h
  · right
    have : ((m + rp : Nat) : ZMod p) = 0 := by push_cast; rw [h]; ring
    exact Nat.mod_eq_zero_of_dvd ((ZMod.natCast_eq_zero_iff _ _).1 this)

/-- … and the plaintext block is one of them: any m with m² ≡ c is ± the prime-wise roots -/
theorem rabin_plain_is_root (p q c m rp rq : Nat) (hp : p.Prime) (hq : q.Prime)
    (hm : m ^ 2 % (p * q) = c % (p * q)) (hrp : rp ^ 2 % p = c % p) (hrq : rq ^ 2 % q = c % q) :
    (m % p = rp % p ∨ (m + rp) % p = 0) ∧ (m % q = rq % q ∨ (m + rq) % q = 0) := by
  have hm' : m ^ 2 ≡ c [MOD p * q] := hm
  exact ⟨pm_of_sq_modEq p c m rp hp (Nat.ModEq.of_mul_right q hm') hrp,
    pm_of_sq_modEq q c m rq hq (Nat.ModEq.of_mul_left p hm') hrq⟩

end Relic.Lemmas.RsaC06
