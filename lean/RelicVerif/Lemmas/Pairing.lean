/-
The discrete-logarithm-oracle formulation of the pairing-based verification equations (Spec/Sig.lean) is equivalent to
the pairing equations the C code checks, for ANY bilinear map that is non-degenerate at the generator of G2:
e(A, [k]g) = e(B, g) ⟺ [k]A = B.  Groups are written additively (GT too); `e : G1 →+ G2 →+ GT`.
Also: completeness of each scheme (the honest signer's output satisfies the equations).
-/
import Mathlib.Algebra.Group.Hom.Defs
import Mathlib.Algebra.Module.Defs
import Mathlib.Algebra.Module.Hom
import Mathlib.Algebra.Group.Hom.Instances
import Mathlib.Data.ZMod.Basic
import Mathlib.Algebra.Field.ZMod
import Mathlib.Tactic.Abel
import Mathlib.Tactic.Ring
import Mathlib.Tactic.FieldSimp
import RelicVerif.Lemmas.Sig

namespace Relic.Lemmas.Pairing

variable {G1 G2 GT : Type} [AddCommGroup G1] [AddCommGroup G2] [AddCommGroup GT]

/-- scalars move across a bilinear map -/
theorem pair_smul_right (e : G1 →+ G2 →+ GT) (a : G1) (k : Nat) (g : G2) : e a (k • g) = e (k • a) g := by
  rw [map_nsmul, map_nsmul, AddMonoidHom.coe_smul, Pi.smul_apply]

theorem pair_smul_left (e : G1 →+ G2 →+ GT) (a : G1) (k : Nat) (g : G2) : e (k • a) g = k • e a g := by
  rw [map_nsmul, AddMonoidHom.coe_smul, Pi.smul_apply]

/-- **the key equivalence** (G2 side carries the secret multiplier): e(A, [k]g) = e(B, g) ⟺ [k]A = B,
    when e(·, g) is injective (non-degeneracy at g) -/
theorem pair_eq_iff (e : G1 →+ G2 →+ GT) (g : G2) (hinj : ∀ a : G1, e a g = 0 → a = 0) (a b : G1) (k : Nat) :
    e a (k • g) = e b g ↔ k • a = b := by
  rw [pair_smul_right]
  constructor
  · intro h
    have h0 : e (k • a - b) g = 0 := by
      rw [map_sub, AddMonoidHom.sub_apply, h, sub_self]
    exact sub_eq_zero.mp (hinj _ h0)
  · intro h; rw [h]

/-- the same with the multiplier on the G1 side: e([k]g, S) = e(g, T) ⟺ [k]S = T when e(g, ·) is injective -/
theorem pair_eq_iff_left (e : G1 →+ G2 →+ GT) (g : G1) (hinj : ∀ s : G2, e g s = 0 → s = 0) (s t : G2) (k : Nat) :
    e (k • g) s = e g t ↔ k • s = t := by
  rw [pair_smul_left, ← map_nsmul]
  constructor
  · intro h
    have h0 : e g (k • s - t) = 0 := by rw [map_sub, h, sub_self]
    exact sub_eq_zero.mp (hinj _ h0)
  · intro h; rw [h]

section schemes
variable (e : G1 →+ G2 →+ GT) (g2 : G2) (hinj : ∀ a : G1, e a g2 = 0 → a = 0)
include hinj

/-- BLS: e(H(m), [d]g2) = e(σ, g2) ⟺ σ = [d]H(m) -/
theorem bls_iff (hm sigma : G1) (d : Nat) : e hm (d • g2) = e sigma g2 ↔ sigma = d • hm := by
  rw [pair_eq_iff e g2 hinj]; exact eq_comm

/-- Boneh–Boyen: e(σ, [m]g2 + [d]g2) = e(g1, g2) ⟺ [m + d]σ = g1 -/
theorem bbs_iff (g1 sigma : G1) (m d : Nat) : e sigma (m • g2 + d • g2) = e g1 g2 ↔ (m + d) • sigma = g1 := by
  rw [← add_nsmul, pair_eq_iff e g2 hinj]

/-- ZSS (σ = [t]g2 in G2): e([m]g1 + Q, [t]g2) = e(g1, g2) ⟺ [t]([m]g1 + Q) = g1 -/
theorem zss_iff (g1 q : G1) (m t : Nat) : e (m • g1 + q) (t • g2) = e g1 g2 ↔ t • (m • g1 + q) = g1 :=
  pair_eq_iff e g2 hinj _ _ _

/-- Camenisch–Lysyanskaya A: e(a, Y) = e(b, g2) ∧ e(a + [m]b, X) = e(c, g2) ⟺ b = [y]a ∧ c = [x](a + [m]b) -/
theorem cls_iff (a b c : G1) (m x y : Nat) :
    (e a (y • g2) = e b g2 ∧ e (a + m • b) (x • g2) = e c g2) ↔ (b = y • a ∧ c = x • (a + m • b)) := by
  rw [pair_eq_iff e g2 hinj, pair_eq_iff e g2 hinj]
  exact ⟨fun h => ⟨h.1.symm, h.2.symm⟩, fun h => ⟨h.1.symm, h.2.symm⟩⟩

/-- Camenisch–Lysyanskaya C -/
theorem cli_iff (a A b B c : G1) (m r t u v : Nat) :
    (e a (v • g2) = e A g2 ∧ e a (u • g2) = e b g2 ∧ e A (u • g2) = e B g2 ∧ e (a + m • b + r • B) (t • g2) = e c g2) ↔
    (A = v • a ∧ b = u • a ∧ B = u • A ∧ c = t • (a + m • b + r • B)) := by
  rw [pair_eq_iff e g2 hinj, pair_eq_iff e g2 hinj, pair_eq_iff e g2 hinj, pair_eq_iff e g2 hinj]
  exact ⟨fun h => ⟨h.1.symm, h.2.1.symm, h.2.2.1.symm, h.2.2.2.symm⟩, fun h => ⟨h.1.symm, h.2.1.symm, h.2.2.1.symm, h.2.2.2.symm⟩⟩

omit hinj in
/-- Pointcheval–Sanders over an arbitrary generator g with e(·, g) injective: e(a, [r]g + [m]([s]g)) = e(b, g) ⟺ b = [r + m s]a -/
theorem ps_iff (g : G2) (hg : ∀ a : G1, e a g = 0 → a = 0) (a b : G1) (m r s : Nat) :
    e a (r • g + m • s • g) = e b g ↔ b = (r + m * s) • a := by
  rw [smul_smul, ← add_nsmul, pair_eq_iff e g hg]; exact eq_comm

end schemes

/-! ### completeness: what the honest signers output satisfies the G1 equations (scalars modulo the prime order n) -/

open Relic.Lemmas.Sig Relic.Spec.Sig

section complete
variable (n : Nat) [hn : Fact n.Prime] {G1 : Type} [AddCommGroup G1]

/-- Boneh–Boyen / ZSS: σ = [1/(m + d)]P gives [m + d]σ = P whenever m + d ≢ 0 -/
theorem inv_smul_cancel (P : G1) (hP : n • P = 0) (k : Nat) (hk : (k : ZMod n) ≠ 0) :
    (k % n) • (invMod n (k % n)) • P = P := by
  have : NeZero n := ⟨hn.out.ne_zero⟩
  rw [smul_smul]
  have h1 : (((k % n * invMod n (k % n) : Nat)) : ZMod n) = ((1 : Nat) : ZMod n) := by
    have hk' : ((k % n : Nat) : ZMod n) ≠ 0 := by rwa [ZMod.natCast_mod]
    rw [Nat.cast_mul, invMod_cast _ hk', Nat.cast_one]
    exact mul_inv_cancel₀ hk'
  rw [nsmul_congr hP h1, one_smul]

omit hn in
/-- Camenisch–Lysyanskaya A: b = [y]a, c = [x + m x y]a satisfy c = [x](a + [m]b) -/
theorem cls_complete (a : G1) (m x y : Nat) : (x + m * x * y) • a = x • (a + m • y • a) := by
  rw [smul_add, smul_smul, smul_smul, ← add_nsmul]
  congr 1; ring

omit hn in
/-- Camenisch–Lysyanskaya C: A = [v]a, b = [u]a, B = [u]A, c = [t + m t u]a + [t r]B -/
theorem cli_complete (a : G1) (m r t u v : Nat) :
    (t + m * t * u) • a + (t * r) • u • v • a = t • (a + m • u • a + r • u • v • a) := by
  simp only [smul_add, smul_smul, ← add_nsmul]
  congr 1; ring

omit hn in
/-- Pointcheval–Sanders: b = [r + m s]a by construction; re-randomisation ([t]a, [t]b) preserves the equation -/
theorem ps_rerandomise (a b : G1) (k t : Nat) (h : b = k • a) : t • b = k • t • a := by
  rw [h, smul_smul, smul_smul, Nat.mul_comm]

end complete

end Relic.Lemmas.Pairing
