/-
Exponentiation loops of Model/FpAlg.lean (fp_exp_basic, fp_exp_dig, fp_exp_monty, fp_exp_slide) compute a^e mod p
for every exponent: no primality, only a < p.
-/
import Mathlib.Data.Nat.ModEq
import Mathlib.Tactic.Ring
import Mathlib.Tactic.Linarith
import RelicVerif.Model.FpAlg
import RelicVerif.Lemmas.Rec

namespace Relic.Model.FpAlg
open Relic.Model.Rec

theorem shr_step (e i : Nat) : e >>> i = 2 * (e >>> (i + 1)) + (e >>> i) % 2 := by
  rw [Nat.shiftRight_succ]; omega

theorem fsqr_pow (p a k : Nat) : fsqr p (a ^ k % p) = a ^ (2 * k) % p := by
  unfold fsqr
  rw [← Nat.mul_mod, ← Nat.pow_add, two_mul]

theorem fmul_pow (p a k j : Nat) : fmul p (a ^ k % p) (a ^ j % p) = a ^ (k + j) % p := by
  unfold fmul
  rw [← Nat.mul_mod, ← Nat.pow_add]

theorem fmul_pow_a (p a k : Nat) (ha : a < p) : fmul p (a ^ k % p) a = a ^ (k + 1) % p := by
  have := fmul_pow p a k 1
  rwa [pow_one, Nat.mod_eq_of_lt ha] at this

theorem expBasicLoop_inv (p a e : Nat) (ha : a < p) :
    ∀ i r, r = a ^ (e >>> i) % p → expBasicLoop p a e i r = a ^ e % p := by
  intro i
  induction i with
  | zero => intro r hr; simpa [expBasicLoop] using hr
  | succ i ih =>
    intro r hr
    simp only [expBasicLoop]
    apply ih
    subst hr
    have hs := shr_step e i
    rw [fsqr_pow]
    split
    · rename_i hb
      rw [fmul_pow_a _ _ _ ha]
      have : 2 * (e >>> (i + 1)) + 1 = e >>> i := by omega
      rw [this]
    · rename_i hb
      have : 2 * (e >>> (i + 1)) = e >>> i := by omega
      rw [this]

theorem shr_top (e : Nat) (he : 0 < e) : e >>> (bitLen e - 1) = 1 := by
  obtain ⟨h1, h2⟩ := bitLen_spec e he
  have hb := bitLen_pos he
  rw [Nat.shiftRight_eq_div_pow]
  have h3 : 2 ^ bitLen e = 2 ^ (bitLen e - 1) * 2 := by
    rw [← Nat.pow_succ]; congr 1; omega
  have hpos : 0 < 2 ^ (bitLen e - 1) := Nat.two_pow_pos _
  apply Nat.le_antisymm
  · have : e / 2 ^ (bitLen e - 1) < 2 := by
      rw [Nat.div_lt_iff_lt_mul hpos]; omega
    omega
  · exact (Nat.le_div_iff_mul_le hpos).2 (by omega)

/-- fp_exp_basic loop on a positive exponent -/
theorem expBasicAbs_spec (p a e : Nat) (ha : a < p) (he : 0 < e) : expBasicAbs p a e = a ^ e % p := by
  unfold expBasicAbs
  apply expBasicLoop_inv _ _ _ ha
  rw [shr_top e he, pow_one, Nat.mod_eq_of_lt ha]

/-- fp_exp_dig -/
theorem expDig_spec (p a b : Nat) (ha : a < p) : expDig p a b = a ^ b % p := by
  unfold expDig
  split
  · rename_i h; subst h; simp
  · rename_i h; exact expBasicAbs_spec p a b ha (by omega)

theorem ladderLoop_inv (p a e : Nat) :
    ∀ i t, t = (a ^ (e >>> i) % p, a ^ (e >>> i + 1) % p) →
      ladderLoop p e i t = (a ^ e % p, a ^ (e + 1) % p) := by
  intro i
  induction i with
  | zero => intro t ht; simpa [ladderLoop] using ht
  | succ i ih =>
    intro t ht
    simp only [ladderLoop]
    apply ih
    subst ht
    have hs := shr_step e i
    by_cases hb : (e >>> i) % 2 = 1
    · have h1 : e >>> i = 2 * (e >>> (i + 1)) + 1 := by omega
      simp only [ladderStep, swapIf, hb, decide_true, Bool.not_true, Bool.false_eq_true, if_false,
        fmul_pow, fsqr_pow]
      rw [h1]
      refine Prod.ext ?_ ?_ <;> (simp only; congr 2; all_goals omega)
    · have h1 : e >>> i = 2 * (e >>> (i + 1)) := by omega
      simp only [ladderStep, swapIf, hb, decide_false, Bool.not_false, if_true,
        fmul_pow, fsqr_pow]
      rw [h1]
      refine Prod.ext ?_ ?_
      · simp only
      · simp only; congr 2; omega

/-- fp_exp_monty ladder (all bits, conditional swaps) -/
theorem expMontyAbs_spec (p a e : Nat) (ha : a < p) : expMontyAbs p a e = a ^ e % p := by
  unfold expMontyAbs
  rw [ladderLoop_inv p a e (bitLen e) _ ?_]
  rw [Nat.shiftRight_eq_div_pow, Nat.div_eq_of_lt (lt_two_pow_bitLen e)]
  simp [Nat.mod_eq_of_lt ha]

theorem tabFrom_getD (p r : Nat) :
    ∀ n x i, x < p → i < n → (tabFrom p r n x).getD i 0 = x * r ^ i % p := by
  intro n
  induction n with
  | zero => intro x i _ hi; omega
  | succ n ih =>
    intro x i hx hi
    cases i with
    | zero => simp [tabFrom, Nat.mod_eq_of_lt hx]
    | succ i =>
      simp only [tabFrom, List.getD_cons_succ]
      rw [ih (fmul p x r) i (by unfold fmul; exact Nat.mod_lt _ (by omega)) (by omega)]
      unfold fmul
      rw [Nat.mod_mul_mod, pow_succ]
      congr 1; ring

theorem slideTab_getD (p a w i : Nat) (ha : a < p) (hi : i < 2 ^ (w - 1)) :
    (slideTab p a w).getD i 0 = a ^ (2 * i + 1) % p := by
  unfold slideTab
  rw [tabFrom_getD _ _ _ _ _ ha hi]
  unfold fsqr
  have h1 : a * a % p ≡ a * a [MOD p] := Nat.mod_modEq _ _
  have h2 := (h1.pow i).mul_left a
  have h3 : a * (a * a) ^ i = a ^ (2 * i + 1) := by
    rw [← pow_two, ← pow_mul, pow_succ, mul_comm]
  rw [h3] at h2
  exact h2

theorem sqrN_pow (p a : Nat) : ∀ n k, sqrN p n (a ^ k % p) = a ^ (k * 2 ^ n) % p := by
  intro n
  induction n with
  | zero => intro k; simp [sqrN]
  | succ n ih =>
    intro k
    simp only [sqrN]
    rw [fsqr_pow, ih]
    congr 2
    rw [pow_succ]; ring

theorem slide_fold (p a w : Nat) (ha : a < p) (hw : 0 < w) : ∀ (ds : List Int),
    (∀ d ∈ ds, d = 0 ∨ (d % 2 = 1 ∧ 0 < d ∧ d < 2 ^ w)) → ∀ n : Nat,
    ∃ m : Nat, ds.foldl (fun acc d => if d = 0 then 2 * acc else acc * 2 ^ (bitLen d.toNat) + d) (n : Int)
        = (m : Int) ∧
      ds.foldl (fun r d => if d = 0 then fsqr p r
        else fmul p (sqrN p (bitLen d.toNat) r) ((slideTab p a w).getD (d.toNat / 2) 0)) (a ^ n % p)
        = a ^ m % p := by
  intro ds
  induction ds with
  | nil => intro _ n; exact ⟨n, rfl, rfl⟩
  | cons d ds ih =>
    intro hd n
    have hds : ∀ d ∈ ds, d = 0 ∨ (d % 2 = 1 ∧ 0 < d ∧ d < 2 ^ w) :=
      fun x hx => hd x (List.mem_cons_of_mem _ hx)
    simp only [List.foldl_cons]
    rcases hd d (List.mem_cons_self ..) with h0 | ⟨hodd, hpos, hlt⟩
    · subst h0
      simp only [if_true]
      obtain ⟨m, hm1, hm2⟩ := ih hds (2 * n)
      refine ⟨m, ?_, ?_⟩
      · rw [← hm1]; push_cast; rfl
      · rw [← hm2, fsqr_pow]
    · have hne : d ≠ 0 := by omega
      obtain ⟨dn, rfl⟩ := Int.eq_ofNat_of_zero_le (le_of_lt hpos)
      simp only [if_neg hne, Int.toNat_natCast]
      have hodd' : dn % 2 = 1 := by omega
      have hlt' : dn < 2 ^ w := by exact_mod_cast hlt
      have hpw : 2 ^ w = 2 * 2 ^ (w - 1) := by
        rw [← pow_succ']; congr 1; omega
      obtain ⟨m, hm1, hm2⟩ := ih hds (n * 2 ^ bitLen dn + dn)
      refine ⟨m, ?_, ?_⟩
      · rw [← hm1]; push_cast; rfl
      · rw [← hm2, sqrN_pow, slideTab_getD _ _ _ _ ha (by omega), fmul_pow]
        have : 2 * (dn / 2) + 1 = dn := by omega
        rw [this]

/-- fp_exp_slide: the value when bn_rec_slw accepts the exponent, the reported error when it is longer than
    RLC_FP_BITS + 1 bits -/
theorem expSlideAbs_spec (c : Ctx) (a e : Nat) (ha : a < c.p) (hw : 0 < c.width) :
    expSlideAbs c a e = if bitLen e ≤ c.fb + 1 then some (a ^ e % c.p) else none := by
  unfold expSlideAbs
  by_cases h : bitLen e ≤ c.fb + 1
  · rw [if_pos h]
    cases hr : recSlw (c.fb + 1) e c.width with
    | none => simp [recSlw, Nat.not_lt.2 h] at hr
    | some ds =>
      obtain ⟨hv, hd, _, _⟩ := recSlw_spec _ _ _ hw ds hr
      simp only [Option.map_some]
      congr 1
      obtain ⟨m, hm1, hm2⟩ := slide_fold c.p a c.width ha hw ds hd 0
      unfold slideLoop
      have h0 : a ^ 0 % c.p = 1 % c.p := by simp
      rw [← h0, hm2]
      have hme : (m : Int) = (e : Int) := by
        rw [← hm1, ← hv]; rfl
      have : m = e := by exact_mod_cast hme
      rw [this]
  · rw [if_neg h]
    have : c.fb + 1 < bitLen e := by omega
    simp [recSlw, this]

theorem fpExpNat_spec (c : Ctx) (a e : Nat) (ha : a < c.p) (hw : 0 < c.width) (he : bitLen e ≤ c.fb + 1) :
    fpExpNat c a e = some (a ^ e % c.p) := by
  unfold fpExpNat
  split
  · rename_i h; subst h; simp
  · rw [expSlideAbs_spec c a e ha hw, if_pos he]

end Relic.Model.FpAlg
