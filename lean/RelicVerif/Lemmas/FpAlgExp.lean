/-
Exponentiation loops of Model/FpAlg.lean (fp_exp_basic, fp_exp_dig, fp_exp_monty, fp_exp_slide) compute a^e mod p
for every exponent: no primality, only a < p.
-/
import Mathlib.Data.Nat.ModEq
import Mathlib.Tactic.Ring
import Mathlib.Tactic.Linarith
import RelicVerif.Model.FpAlg
import RelicVerif.Lemmas.Rec

namespace Relic.Model.FpAlg
open Relic.Model.Rec

/-- fp_exp_basic loop on a positive exponent -/
theorem expBasicAbs_spec (p a e : Nat) (ha : a < p) (he : 0 < e) : expBasicAbs p a e = a ^ e % p := by
  sorry

/-- fp_exp_dig -/
theorem expDig_spec (p a b : Nat) (ha : a < p) : expDig p a b = a ^ b % p := by
  sorry

/-- fp_exp_monty ladder (all bits, conditional swaps) -/
theorem expMontyAbs_spec (p a e : Nat) (ha : a < p) : expMontyAbs p a e = a ^ e % p := by
  sorry

/-- fp_exp_slide: the value when bn_rec_slw accepts the exponent, the reported error when it is longer than
    RLC_FP_BITS + 1 bits -/
theorem expSlideAbs_spec (c : Ctx) (a e : Nat) (ha : a < c.p) (hw : 0 < c.width) :
    expSlideAbs c a e = if bitLen e ≤ c.fb + 1 then some (a ^ e % c.p) else none := by
  sorry

theorem fpExpNat_spec (c : Ctx) (a e : Nat) (ha : a < c.p) (hw : 0 < c.width) (he : bitLen e ≤ c.fb + 1) :
    fpExpNat c a e = some (a ^ e % c.p) := by
  sorry

end Relic.Model.FpAlg
