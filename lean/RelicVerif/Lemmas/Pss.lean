/-
RSA-PSS (RFC 8017 §8.1, §9.1 with sLen = 0): facts about the definitions of Spec/Sig.lean.

  A  mgf1_length             MGF1 returns exactly the requested number of octets
  B  emsaPssEncode_verify    EMSA-PSS-VERIFY accepts the output of EMSA-PSS-ENCODE
  C  emsaPssVerify_encode    EMSA-PSS-VERIFY (by parsing) accepts only the output of EMSA-PSS-ENCODE
     emsaPssVerify_iff       both directions
  D  os2ip / i2osp           round trips, lengths and bounds
  E  emsaPssEncode_bound     the encoded message is an integer below 2^emBits of (emBits + 7) / 8 octets
  F  rsaPss_sign_verify      a signature made from the signature representative verifies
-/
import Mathlib.Tactic.Ring
import Mathlib.Tactic.Linarith
import Mathlib.Tactic.IntervalCases
import RelicVerif.Spec.Sig
import RelicVerif.Lemmas.Pratt

namespace Relic.Lemmas.Pss
open Relic.Spec.Sig Relic.Spec

/-! ## A. MGF1 -/

theorem length_flatMap_const {α β : Type} (l : List α) (f : α → List β) (c : Nat)
    (hf : ∀ a, (f a).length = c) : (l.flatMap f).length = l.length * c := by
  induction l with
  | nil => simp
  | cons a l ih =>
    rw [List.flatMap_cons, List.length_append, hf, ih, List.length_cons, Nat.succ_mul, Nat.add_comm]

theorem counterKdf_length (H : Mac.Hash) (hout : ∀ b, (H.h b).length = H.outLen) (hpos : 0 < H.outLen)
    (start : Nat) (seed : Mac.Bytes) (len : Nat) : (Mac.counterKdf H start seed len).length = len := by
  unfold Mac.counterKdf
  simp only [List.length_take]
  rw [length_flatMap_const _ _ H.outLen (fun i => hout _), List.length_range]
  apply Nat.min_eq_left
  have h1 := Nat.div_add_mod (len + H.outLen - 1) H.outLen
  have h2 := Nat.mod_lt (len + H.outLen - 1) hpos
  rw [Nat.mul_comm]
  omega

theorem mgf1_length (H : Mac.Hash) (hout : ∀ b, (H.h b).length = H.outLen) (hpos : 0 < H.outLen)
    (seed : Mac.Bytes) (len : Nat) : (Mac.mgf1 H seed len).length = len :=
  counterKdf_length H hout hpos 0 seed len

/-! ## D. OS2IP / I2OSP -/

theorem os2ip_foldl (b : Bytes) (a : Nat) :
    b.foldl (fun a x => a * 256 + x.toNat) a = a * 256 ^ b.length + os2ip b := by
  induction b generalizing a with
  | nil => simp [os2ip]
  | cons x l ih =>
    unfold os2ip
    rw [List.foldl_cons, List.foldl_cons, ih, ih (0 * 256 + x.toNat), List.length_cons]
    ring

theorem os2ip_nil : os2ip [] = 0 := rfl

theorem os2ip_cons (x : UInt8) (l : Bytes) : os2ip (x :: l) = x.toNat * 256 ^ l.length + os2ip l := by
  show List.foldl _ _ _ = _
  rw [List.foldl_cons, os2ip_foldl]
  ring

theorem os2ip_lt (b : Bytes) : os2ip b < 256 ^ b.length := by
  induction b with
  | nil => simp [os2ip]
  | cons x l ih =>
    rw [os2ip_cons, List.length_cons, Nat.pow_succ]
    have hx : x.toNat < 256 := x.toNat_lt
    have : (x.toNat + 1) * 256 ^ l.length ≤ 256 * 256 ^ l.length := Nat.mul_le_mul_right _ (by omega)
    rw [Nat.add_mul] at this
    omega

theorem i2osp_zero (n : Nat) : i2osp n 0 = [] := rfl

theorem i2osp_succ (n k : Nat) : i2osp n (k + 1) = UInt8.ofNat (n / 256 ^ k % 256) :: i2osp n k := by
  unfold i2osp
  rw [List.range_succ, List.reverse_append, List.reverse_singleton, List.singleton_append, List.map_cons]

theorem i2osp_length (n k : Nat) : (i2osp n k).length = k := by
  simp [i2osp]

theorem os2ip_i2osp (n k : Nat) : os2ip (i2osp n k) = n % 256 ^ k := by
  induction k with
  | zero => simp [i2osp_zero, os2ip_nil, Nat.mod_one]
  | succ k ih =>
    rw [i2osp_succ, os2ip_cons, ih, i2osp_length, Nat.mod_pow_succ, UInt8.toNat_ofNat',
      Nat.mod_eq_of_lt (show n / 256 ^ k % 256 < 2 ^ 8 from Nat.lt_of_lt_of_le (Nat.mod_lt _ (by omega)) (by norm_num))]
    ring

theorem os2ip_i2osp_of_lt (n k : Nat) (h : n < 256 ^ k) : os2ip (i2osp n k) = n := by
  rw [os2ip_i2osp, Nat.mod_eq_of_lt h]

/-- I2OSP only looks at the `k` low-order digits -/
theorem i2osp_add_mul (k : Nat) : ∀ a n : Nat, i2osp (a * 256 ^ k + n) k = i2osp n k := by
  induction k with
  | zero => intro a n; rfl
  | succ k ih =>
    intro a n
    have e : a * 256 ^ (k + 1) + n = (a * 256) * 256 ^ k + n := by ring
    rw [i2osp_succ, i2osp_succ, e, ih]
    congr 2
    rw [Nat.add_comm, Nat.add_mul_div_right _ _ (Nat.pow_pos (by omega)), Nat.add_mul_mod_self_right]

theorem i2osp_os2ip (b : Bytes) : i2osp (os2ip b) b.length = b := by
  induction b with
  | nil => rfl
  | cons x l ih =>
    rw [os2ip_cons, List.length_cons, i2osp_succ, i2osp_add_mul, ih]
    congr 1
    rw [Nat.add_comm, Nat.add_mul_div_right _ _ (Nat.pow_pos (by omega)), Nat.div_eq_of_lt (os2ip_lt l), Nat.zero_add,
      Nat.mod_eq_of_lt x.toNat_lt, UInt8.ofNat_toNat]

/-- OS2IP is injective on strings of one length -/
theorem os2ip_inj (a b : Bytes) (hl : a.length = b.length) (h : os2ip a = os2ip b) : a = b := by
  rw [← i2osp_os2ip a, ← i2osp_os2ip b, hl, h]

/-! ## byte and list facts -/

theorem and_xor_distrib_right (a b c : UInt8) : (a ^^^ b) &&& c = (a &&& c) ^^^ (b &&& c) := by
  rw [← UInt8.toBitVec_inj]
  simp only [UInt8.toBitVec_and, UInt8.toBitVec_xor]
  ext i hi
  simp only [BitVec.getElem_and, BitVec.getElem_xor]
  cases a.toBitVec[i] <;> cases b.toBitVec[i] <;> cases c.toBitVec[i] <;> rfl

theorem byte_mask (a k m : UInt8) (h : a &&& m = a) : (((a ^^^ k) &&& m) ^^^ k) &&& m = a := by
  rw [and_xor_distrib_right, UInt8.and_assoc, UInt8.and_self, ← and_xor_distrib_right, UInt8.xor_assoc,
    UInt8.xor_self, UInt8.xor_zero, h]

theorem mask_val (top : Nat) (h : top ≤ 7) : 255 / 2 ^ top = 2 ^ (8 - top) - 1 := by
  interval_cases top <;> rfl

theorem mask_toNat (top : Nat) (h : top ≤ 7) : (UInt8.ofNat (255 / 2 ^ top)).toNat = 2 ^ (8 - top) - 1 := by
  rw [UInt8.toNat_ofNat', mask_val top h]
  apply Nat.mod_eq_of_lt
  have : 2 ^ (8 - top) ≤ 2 ^ 8 := Nat.pow_le_pow_right (by omega) (by omega)
  have : 0 < 2 ^ (8 - top) := Nat.pow_pos (by omega)
  omega

/-- step 6 of the verification holds after the masking of the encoding -/
theorem and_mask_lt (b : UInt8) (top : Nat) (h : top ≤ 7) :
    (b &&& UInt8.ofNat (255 / 2 ^ top)).toNat < 2 ^ (8 - top) := by
  rw [UInt8.toNat_and, mask_toNat top h]
  have h1 : b.toNat &&& (2 ^ (8 - top) - 1) ≤ 2 ^ (8 - top) - 1 := Nat.and_le_right
  have : 0 < 2 ^ (8 - top) := Nat.pow_pos (by omega)
  omega

/-- a byte whose high `top` bits are clear is unchanged by the mask -/
theorem and_mask_of_lt (x : UInt8) (top : Nat) (h : top ≤ 7) (hx : x.toNat < 2 ^ (8 - top)) :
    x &&& UInt8.ofNat (255 / 2 ^ top) = x := by
  rw [← UInt8.toNat_inj, UInt8.toNat_and, mask_toNat top h, Nat.and_two_pow_sub_one_eq_mod, Nat.mod_eq_of_lt hx]

/-- clear the leftmost `top` bits of the first octet (RFC 8017 §9.1.1 step 11, §9.1.2 step 9) -/
def topMask (top : Nat) : Bytes → Bytes
  | [] => []
  | b :: rest => (b &&& UInt8.ofNat (255 / 2 ^ top)) :: rest

theorem topMask_length (top : Nat) (l : Bytes) : (topMask top l).length = l.length := by
  cases l <;> rfl

theorem xorBytes_cancel : ∀ (M K : Bytes), M.length ≤ K.length → Mac.xorBytes (Mac.xorBytes M K) K = M
  | [], _, _ => by simp [Mac.xorBytes]
  | _ :: _, [], h => by simp at h
  | a :: M, k :: K, h => by
    have ih := xorBytes_cancel M K (by simpa using h)
    unfold Mac.xorBytes at ih ⊢
    rw [List.zipWith_cons_cons, List.zipWith_cons_cons, ih, UInt8.xor_assoc, UInt8.xor_self, UInt8.xor_zero]

theorem xorBytes_length (a b : Bytes) : (Mac.xorBytes a b).length = min a.length b.length := by
  simp [Mac.xorBytes]

/-- masking, unmasking and clearing the top bits again is the identity on strings with clear top bits -/
theorem topMask_roundtrip (top : Nat) (M K : Bytes) (hM : topMask top M = M) (hlen : M.length ≤ K.length) :
    topMask top (Mac.xorBytes (topMask top (Mac.xorBytes M K)) K) = M := by
  match M, K, hM, hlen with
  | [], _, _, _ => simp [Mac.xorBytes, topMask]
  | _ :: _, [], _, h => simp at h
  | a :: M, k :: K, hM, h =>
    have ha : a &&& UInt8.ofNat (255 / 2 ^ top) = a := by
      simp only [topMask] at hM
      exact (List.cons.inj hM).1
    have hx := xorBytes_cancel M K (by simpa using h)
    unfold Mac.xorBytes at hx ⊢
    simp only [List.zipWith_cons_cons, topMask]
    rw [hx, byte_mask a k _ ha]

theorem top_le (emBits : Nat) : 8 * ((emBits + 7) / 8) - emBits ≤ 7 := by omega

/-! ## the two algorithms in terms of `topMask` -/

theorem emsaPssEncode_eq (H : Mac.Hash) (mHash : Bytes) (emBits : Nat) :
    emsaPssEncode H mHash emBits =
      if (emBits + 7) / 8 < H.outLen + 2 then none else
      some (topMask (8 * ((emBits + 7) / 8) - emBits)
          (Mac.xorBytes (List.replicate ((emBits + 7) / 8 - H.outLen - 2) (0 : UInt8) ++ [1])
            (Mac.mgf1 H (H.h (List.replicate 8 0 ++ mHash)) ((emBits + 7) / 8 - H.outLen - 1)))
        ++ H.h (List.replicate 8 0 ++ mHash) ++ [0xbc]) := rfl

theorem emsaPssVerify_eq (H : Mac.Hash) (mHash em : Bytes) (emBits : Nat) :
    emsaPssVerify H mHash em emBits =
      if em.length ≠ (emBits + 7) / 8 ∨ (emBits + 7) / 8 < H.outLen + 2 then false else
      if em.getLast? ≠ some 0xbc then false else
      if ((em.take ((emBits + 7) / 8 - H.outLen - 1)).headD 0).toNat / 2 ^ (8 - (8 * ((emBits + 7) / 8) - emBits)) ≠ 0
        then false else
      if topMask (8 * ((emBits + 7) / 8) - emBits)
          (Mac.xorBytes (em.take ((emBits + 7) / 8 - H.outLen - 1))
            (Mac.mgf1 H ((em.drop ((emBits + 7) / 8 - H.outLen - 1)).take H.outLen) ((emBits + 7) / 8 - H.outLen - 1)))
          ≠ List.replicate ((emBits + 7) / 8 - H.outLen - 2) (0 : UInt8) ++ [1] then false else
      H.h (List.replicate 8 0 ++ mHash) == (em.drop ((emBits + 7) / 8 - H.outLen - 1)).take H.outLen := rfl

theorem topMask_head_lt (top : Nat) (h : top ≤ 7) (l : Bytes) : ((topMask top l).headD 0).toNat < 2 ^ (8 - top) := by
  cases l with
  | nil => exact Nat.pow_pos (by omega)
  | cons b rest => exact and_mask_lt b top h

theorem topMask_of_head_lt (top : Nat) (h : top ≤ 7) (l : Bytes) (hl : (l.headD 0).toNat < 2 ^ (8 - top)) :
    topMask top l = l := by
  cases l with
  | nil => rfl
  | cons b rest =>
    simp only [topMask]
    rw [and_mask_of_lt b top h hl]

/-- the data block of the empty salt, `PS ‖ 0x01`, has clear top bits -/
theorem topMask_db (top : Nat) (h : top ≤ 7) (j : Nat) :
    topMask top (List.replicate j (0 : UInt8) ++ [1]) = List.replicate j (0 : UInt8) ++ [1] := by
  apply topMask_of_head_lt top h
  have h1 : 1 < 2 ^ (8 - top) := Nat.one_lt_two_pow (by omega)
  cases j with
  | zero => exact h1
  | succ j =>
    show (0 : UInt8).toNat < _
    exact Nat.pow_pos (by omega)

section
variable (H : Mac.Hash) (hout : ∀ b, (H.h b).length = H.outLen) (hpos : 0 < H.outLen)
include hout hpos

omit hout hpos in
/-- the checks of EMSA-PSS-VERIFY on a parsed encoded message `maskedDB ‖ H ‖ 0xbc` -/
theorem emsaPssVerify_parts (mHash M h : Bytes) (emBits : Nat)
    (hlen : H.outLen + 2 ≤ (emBits + 7) / 8)
    (hM : M.length = (emBits + 7) / 8 - H.outLen - 1) (hh : h.length = H.outLen) :
    emsaPssVerify H mHash (M ++ h ++ [0xbc]) emBits =
      (decide ((M.headD 0).toNat / 2 ^ (8 - (8 * ((emBits + 7) / 8) - emBits)) = 0) &&
       decide (topMask (8 * ((emBits + 7) / 8) - emBits)
          (Mac.xorBytes M (Mac.mgf1 H h ((emBits + 7) / 8 - H.outLen - 1))) =
            List.replicate ((emBits + 7) / 8 - H.outLen - 2) (0 : UInt8) ++ [1]) &&
       (H.h (List.replicate 8 0 ++ mHash) == h)) := by
  have htake : (M ++ h ++ [0xbc]).take ((emBits + 7) / 8 - H.outLen - 1) = M := by
    rw [List.append_assoc]; exact List.take_left' hM
  have hdrop : ((M ++ h ++ [0xbc]).drop ((emBits + 7) / 8 - H.outLen - 1)).take H.outLen = h := by
    rw [List.append_assoc, List.drop_left' hM]; exact List.take_left' hh
  have hl : (M ++ h ++ [0xbc]).length = (emBits + 7) / 8 := by
    simp only [List.length_append, List.length_singleton, hM, hh]; omega
  have hlast : (M ++ h ++ [0xbc]).getLast? = some 0xbc := by simp
  rw [emsaPssVerify_eq, htake, hdrop, hl, hlast, if_neg (by omega), if_neg (by simp)]
  by_cases h1 : (M.headD 0).toNat / 2 ^ (8 - (8 * ((emBits + 7) / 8) - emBits)) = 0
  · by_cases h2 : topMask (8 * ((emBits + 7) / 8) - emBits)
          (Mac.xorBytes M (Mac.mgf1 H h ((emBits + 7) / 8 - H.outLen - 1))) =
            List.replicate ((emBits + 7) / 8 - H.outLen - 2) (0 : UInt8) ++ [1]
    · rw [if_neg (fun h => h h1), if_neg (fun h => h h2), decide_eq_true h1, decide_eq_true h2, Bool.true_and,
        Bool.true_and]
    · rw [if_neg (fun h => h h1), if_pos h2, decide_eq_false h2, Bool.and_false, Bool.false_and]
  · rw [if_pos h1, decide_eq_false h1, Bool.false_and, Bool.false_and]

omit hout hpos in
/-- steps 3–5 of EMSA-PSS-VERIFY: an accepted string parses as `maskedDB ‖ H ‖ 0xbc` -/
theorem emsaPssVerify_parse (mHash em : Bytes) (emBits : Nat) (hv : emsaPssVerify H mHash em emBits = true) :
    ∃ M h, em = M ++ h ++ [0xbc] ∧ M.length = (emBits + 7) / 8 - H.outLen - 1 ∧ h.length = H.outLen ∧
      H.outLen + 2 ≤ (emBits + 7) / 8 := by
  rw [emsaPssVerify_eq] at hv
  by_cases h1 : em.length ≠ (emBits + 7) / 8 ∨ (emBits + 7) / 8 < H.outLen + 2
  · rw [if_pos h1] at hv; exact absurd hv (by simp)
  rw [if_neg h1] at hv
  by_cases h2 : em.getLast? ≠ some 0xbc
  · rw [if_pos h2] at hv; exact absurd hv (by simp)
  have h2' : em.getLast? = some 0xbc := Classical.not_not.1 h2
  obtain ⟨ys, rfl⟩ := List.getLast?_eq_some_iff.1 h2'
  have hl : ys.length + 1 = (emBits + 7) / 8 := by
    have : (ys ++ [0xbc]).length = (emBits + 7) / 8 := by
      by_cases h : (ys ++ [0xbc]).length = (emBits + 7) / 8
      · exact h
      · exact absurd (Or.inl h) h1
    simpa using this
  have hlen : H.outLen + 2 ≤ (emBits + 7) / 8 := by omega
  refine ⟨ys.take ((emBits + 7) / 8 - H.outLen - 1), ys.drop ((emBits + 7) / 8 - H.outLen - 1), ?_, ?_, ?_, hlen⟩
  · rw [List.take_append_drop]
  · rw [List.length_take]; omega
  · rw [List.length_drop]; omega

/-- B. completeness: EMSA-PSS-VERIFY accepts the output of EMSA-PSS-ENCODE -/
theorem emsaPssEncode_verify' (mHash em : Bytes) (emBits : Nat) (he : emsaPssEncode H mHash emBits = some em) :
    emsaPssVerify H mHash em emBits = true := by
  rw [emsaPssEncode_eq] at he
  by_cases hlen : (emBits + 7) / 8 < H.outLen + 2
  · rw [if_pos hlen] at he; exact absurd he (by simp)
  rw [if_neg hlen] at he
  have he' := (Option.some.inj he).symm
  subst he'
  have htop := top_le emBits
  have hK := mgf1_length H hout hpos (H.h (List.replicate 8 0 ++ mHash)) ((emBits + 7) / 8 - H.outLen - 1)
  have hdb : (List.replicate ((emBits + 7) / 8 - H.outLen - 2) (0 : UInt8) ++ [1]).length
      = (emBits + 7) / 8 - H.outLen - 1 := by
    simp only [List.length_append, List.length_replicate, List.length_singleton]; omega
  rw [emsaPssVerify_parts H mHash _ _ emBits (by omega)
    (by rw [topMask_length, xorBytes_length, hK, hdb, Nat.min_self]) (hout _)]
  rw [topMask_roundtrip _ _ _ (topMask_db _ htop _) (by rw [hK, hdb]),
    Nat.div_eq_of_lt (topMask_head_lt _ htop _)]
  simp

/-- C. soundness of the parsing verification: only the output of EMSA-PSS-ENCODE is accepted -/
theorem emsaPssVerify_encode' (mHash em : Bytes) (emBits : Nat) (hv : emsaPssVerify H mHash em emBits = true) :
    emsaPssEncode H mHash emBits = some em := by
  obtain ⟨M, h, rfl, hM, hh, hlen⟩ := emsaPssVerify_parse H mHash em emBits hv
  rw [emsaPssVerify_parts H mHash M h emBits hlen hM hh] at hv
  simp only [Bool.and_eq_true, decide_eq_true_eq, beq_iff_eq] at hv
  obtain ⟨⟨h1, h2⟩, h3⟩ := hv
  have htop := top_le emBits
  have hK := mgf1_length H hout hpos h ((emBits + 7) / 8 - H.outLen - 1)
  rw [emsaPssEncode_eq, if_neg (by omega), h3, ← h2]
  have hM' : topMask (8 * ((emBits + 7) / 8) - emBits) M = M := by
    apply topMask_of_head_lt _ htop
    rcases (Nat.div_eq_zero_iff).1 h1 with h0 | h0
    · exact absurd h0 (Nat.pos_iff_ne_zero.1 (Nat.pow_pos (by omega)))
    · exact h0
  rw [topMask_roundtrip _ _ _ hM' (by rw [hK, hM])]

theorem emsaPssEncode_verify (mHash em : Bytes) (emBits : Nat) (he : emsaPssEncode H mHash emBits = some em)
    (_hb : 0 < emBits) : emsaPssVerify H mHash em emBits = true :=
  emsaPssEncode_verify' H hout hpos mHash em emBits he

theorem emsaPssVerify_encode (mHash em : Bytes) (emBits : Nat) (hv : emsaPssVerify H mHash em emBits = true)
    (_hb : 0 < emBits) : emsaPssEncode H mHash emBits = some em :=
  emsaPssVerify_encode' H hout hpos mHash em emBits hv

/-- verification by parsing (RFC 8017 §9.1.2, sLen = 0) accepts exactly the deterministic encoding -/
theorem emsaPssVerify_iff (mHash em : Bytes) (emBits : Nat) :
    emsaPssVerify H mHash em emBits = true ↔ emsaPssEncode H mHash emBits = some em :=
  ⟨emsaPssVerify_encode' H hout hpos mHash em emBits, emsaPssEncode_verify' H hout hpos mHash em emBits⟩

end

/-! ## E. the encoded message as an integer -/

theorem os2ip_lt_of_head (l : Bytes) (hne : l ≠ []) (t : Nat) (h : (l.headD 0).toNat < 2 ^ t) :
    os2ip l < 2 ^ (t + 8 * (l.length - 1)) := by
  cases l with
  | nil => exact absurd rfl hne
  | cons x r =>
    have hx : x.toNat + 1 ≤ 2 ^ t := h
    have hr := os2ip_lt r
    have e : (256 : Nat) ^ r.length = 2 ^ (8 * r.length) := by
      rw [show (256 : Nat) = 2 ^ 8 by norm_num, ← Nat.pow_mul]
    have h1 : (x.toNat + 1) * 256 ^ r.length ≤ 2 ^ t * 256 ^ r.length := Nat.mul_le_mul_right _ hx
    rw [os2ip_cons, List.length_cons, Nat.add_sub_cancel, Nat.pow_add, ← e]
    rw [Nat.add_mul] at h1
    omega

section
variable (H : Mac.Hash) (hout : ∀ b, (H.h b).length = H.outLen) (hpos : 0 < H.outLen)
include hout hpos

theorem emsaPssEncode_bound' (mHash em : Bytes) (emBits : Nat) (he : emsaPssEncode H mHash emBits = some em) :
    os2ip em < 2 ^ emBits ∧ em.length = (emBits + 7) / 8 := by
  rw [emsaPssEncode_eq] at he
  by_cases hlen : (emBits + 7) / 8 < H.outLen + 2
  · rw [if_pos hlen] at he; exact absurd he (by simp)
  rw [if_neg hlen] at he
  have he' := (Option.some.inj he).symm
  subst he'
  have htop := top_le emBits
  have hK := mgf1_length H hout hpos (H.h (List.replicate 8 0 ++ mHash)) ((emBits + 7) / 8 - H.outLen - 1)
  have hdb : (List.replicate ((emBits + 7) / 8 - H.outLen - 2) (0 : UInt8) ++ [1]).length
      = (emBits + 7) / 8 - H.outLen - 1 := by
    simp only [List.length_append, List.length_replicate, List.length_singleton]; omega
  generalize hX : Mac.xorBytes (List.replicate ((emBits + 7) / 8 - H.outLen - 2) (0 : UInt8) ++ [1])
    (Mac.mgf1 H (H.h (List.replicate 8 0 ++ mHash)) ((emBits + 7) / 8 - H.outLen - 1)) = X
  have hXl : X.length = (emBits + 7) / 8 - H.outLen - 1 := by
    rw [← hX, xorBytes_length, hK, hdb, Nat.min_self]
  have hl : (topMask (8 * ((emBits + 7) / 8) - emBits) X ++ H.h (List.replicate 8 0 ++ mHash) ++ [0xbc]).length
      = (emBits + 7) / 8 := by
    simp only [List.length_append, List.length_singleton, topMask_length, hXl, hout]; omega
  refine ⟨?_, hl⟩
  have hhead : ((topMask (8 * ((emBits + 7) / 8) - emBits) X ++ H.h (List.replicate 8 0 ++ mHash) ++ [0xbc]).headD 0)
      = (topMask (8 * ((emBits + 7) / 8) - emBits) X).headD 0 := by
    cases X with
    | nil => simp at hXl; omega
    | cons x xs => rfl
  have h1 := os2ip_lt_of_head
    (topMask (8 * ((emBits + 7) / 8) - emBits) X ++ H.h (List.replicate 8 0 ++ mHash) ++ [0xbc]) (by simp)
    (8 - (8 * ((emBits + 7) / 8) - emBits)) (by rw [hhead]; exact topMask_head_lt _ htop X)
  rw [hl] at h1
  have e : 8 - (8 * ((emBits + 7) / 8) - emBits) + 8 * ((emBits + 7) / 8 - 1) = emBits := by omega
  rwa [e] at h1

theorem emsaPssEncode_bound (mHash em : Bytes) (emBits : Nat) (he : emsaPssEncode H mHash emBits = some em)
    (_hb : 0 < emBits) : os2ip em < 2 ^ emBits ∧ em.length = (emBits + 7) / 8 :=
  emsaPssEncode_bound' H hout hpos mHash em emBits he

end

/-! ## F. signing then verifying -/

theorem bitLen_bounds (n : Nat) (hn : 2 ≤ bitLen n) : 2 ^ (bitLen n - 1) ≤ n ∧ n < 2 ^ bitLen n := by
  unfold bitLen at hn ⊢
  by_cases h0 : n = 0
  · rw [if_pos h0] at hn; omega
  · rw [if_neg h0, Nat.add_sub_cancel]
    exact ⟨Nat.log2_self_le h0, Nat.lt_log2_self⟩

theorem powMod_lt (a e m : Nat) (hm : 1 < m) : Relic.Spec.Curve.powMod a e m < m := by
  rw [Relic.Model.Pratt.powMod_eq a e m hm]
  exact Nat.mod_lt _ (by omega)

section
variable (H : Mac.Hash) (hout : ∀ b, (H.h b).length = H.outLen) (hpos : 0 < H.outLen)
include hout hpos

/-- RSASSA-PSS: if `d` inverts `e` on the signature representative, the signature `I2OSP(em^d mod n, k)` verifies -/
theorem rsaPss_sign_verify (n e d : Nat) (pre : Bool) (msg : Bytes) (em : Nat) (hn : 2 ≤ bitLen n)
    (hrep : rsaPssSignRep H n pre msg = some em)
    (hrt : Relic.Spec.Curve.powMod (Relic.Spec.Curve.powMod em d n) e n = em % n) :
    rsaPssVerify H ⟨n, e⟩ pre msg (i2osp (Relic.Spec.Curve.powMod em d n) ((bitLen n + 7) / 8)) = true := by
  unfold rsaPssSignRep at hrep
  by_cases hp : (pre = true ∧ msg.length ≠ H.outLen)
  · rw [if_pos hp] at hrep; exact absurd hrep (by simp)
  rw [if_neg hp] at hrep
  obtain ⟨emb, henc, rfl⟩ := Option.map_eq_some_iff.1 hrep
  obtain ⟨hlt, hlen⟩ := emsaPssEncode_bound' H hout hpos _ emb _ henc
  obtain ⟨hlo, hhi⟩ := bitLen_bounds n hn
  have hn1 : 1 < n := by
    have : 2 ^ 1 ≤ 2 ^ (bitLen n - 1) := Nat.pow_le_pow_right (by omega) (by omega)
    omega
  have hs := powMod_lt (os2ip emb) d n hn1
  have hk : n ≤ 256 ^ ((bitLen n + 7) / 8) := by
    rw [show (256 : Nat) = 2 ^ 8 by norm_num, ← Nat.pow_mul]
    have : 2 ^ bitLen n ≤ 2 ^ (8 * ((bitLen n + 7) / 8)) := Nat.pow_le_pow_right (by omega) (by omega)
    omega
  have hvp : rsavp1 ⟨n, e⟩ (i2osp (Relic.Spec.Curve.powMod (os2ip emb) d n) ((bitLen n + 7) / 8))
      = some (os2ip emb) := by
    unfold rsavp1
    simp only []
    rw [if_neg (by rw [i2osp_length]; exact fun h => h rfl), os2ip_i2osp_of_lt _ _ (by omega),
      if_neg (by omega), hrt, Nat.mod_eq_of_lt (by omega)]
  unfold rsaPssVerify
  rw [if_neg hp, hvp]
  simp only []
  rw [if_neg (by rw [← hlen]; exact Nat.not_le.2 (os2ip_lt emb)), ← hlen, i2osp_os2ip]
  exact emsaPssEncode_verify' H hout hpos _ emb _ henc

end

end Relic.Lemmas.Pss
