/-
Model = specification for the OAEP remover of cp_rsa_dec (property C06): the integer-level steps of Model/Cp.lean
`padPkcs2Dec` (pad_pkcs2, case RSA_DEC of src/cp/relic_cp_rsa.c: shifts by whole octets, xor of the mask as integers,
`bn_size_bin` to locate the 01 separator) decide and return exactly what the byte-level EME-OAEP decoder of Spec/Cp.lean
(RFC 8017 §7.1.2 step 3) does, for EVERY encoded message of the modulus length.
-/
import RelicVerif.Lemmas.PadC06
import RelicVerif.Lemmas.PadModelC06
import RelicVerif.Model.Cp

namespace Relic.Lemmas.OaepModelC06
open Relic.Spec.Cp Relic.Model.Cp
open Relic.Spec.Mac (Hash mgf1 xorBytes)
open Relic.Lemmas.PadC06 (os2ip_lt i2osp_os2ip mgf1_length xorBytes_length pow256 byteLen_eq dropWhile_eq_cons_neg)
open Relic.Lemmas.PadModelC06 (os2ip_append_div os2ip_append_mod os2ip_cons_div u8_eq_zero)

/-! ### xor of integers, split at a power of two -/

theorem xor_split (n x y x' y' : Nat) (hy : y < 2 ^ n) (hy' : y' < 2 ^ n) :
    (x * 2 ^ n + y) ^^^ (x' * 2 ^ n + y') = (x ^^^ x') * 2 ^ n + (y ^^^ y') := by
  have hp : 0 < 2 ^ n := Nat.two_pow_pos n
  have d1 : (x * 2 ^ n + y) / 2 ^ n = x := by
    rw [Nat.add_comm, Nat.add_mul_div_right _ _ hp, Nat.div_eq_of_lt hy, Nat.zero_add]
  have d2 : (x' * 2 ^ n + y') / 2 ^ n = x' := by
    rw [Nat.add_comm, Nat.add_mul_div_right _ _ hp, Nat.div_eq_of_lt hy', Nat.zero_add]
  have m1 : (x * 2 ^ n + y) % 2 ^ n = y := by
    rw [Nat.add_comm, Nat.add_mul_mod_self_right, Nat.mod_eq_of_lt hy]
  have m2 : (x' * 2 ^ n + y') % 2 ^ n = y' := by
    rw [Nat.add_comm, Nat.add_mul_mod_self_right, Nat.mod_eq_of_lt hy']
  have := Nat.div_add_mod' ((x * 2 ^ n + y) ^^^ (x' * 2 ^ n + y')) (2 ^ n)
  rw [Nat.xor_div_two_pow, Nat.xor_mod_two_pow, d1, d2, m1, m2] at this
  exact this.symm

/-- OS2IP turns the octet-wise xor of equally long strings into the xor of the integers -/
theorem os2ip_xorBytes (a b : Bytes) (h : a.length = b.length) : os2ip (xorBytes a b) = os2ip a ^^^ os2ip b := by
  induction a generalizing b with
  | nil =>
    cases b with
    | nil => rfl
    | cons y s => simp at h
  | cons x t ih =>
    cases b with
    | nil => simp at h
    | cons y s =>
      have hl : t.length = s.length := by simpa using h
      have hx : xorBytes (x :: t) (y :: s) = (x ^^^ y) :: xorBytes t s := rfl
      have hxl : (xorBytes t s).length = t.length := by rw [xorBytes_length, ← hl, Nat.min_self]
      have h1 := os2ip_lt t
      have h2 := os2ip_lt s
      rw [← hl] at h2
      rw [pow256] at h1 h2
      rw [hx, PadC06.os2ip_cons, PadC06.os2ip_cons x t, PadC06.os2ip_cons y s, hxl, ← hl, ih s hl, UInt8.toNat_xor,
        pow256, xor_split _ _ _ _ _ h1 h2]

/-! ### leading zero octets, the position of the first non-zero octet -/

theorem os2ip_zero_cons (b : Bytes) : os2ip (0 :: b) = os2ip b := by
  have h0 : (0 : UInt8).toNat = 0 := rfl
  rw [PadC06.os2ip_cons, h0, Nat.zero_mul, Nat.zero_add]

theorem os2ip_dropWhile_zero (r : Bytes) : os2ip (r.dropWhile (fun b => decide (b = 0))) = os2ip r := by
  induction r with
  | nil => rfl
  | cons x t ih =>
    by_cases hx : x = 0
    · subst hx
      rw [List.dropWhile_cons_of_pos (by simp), ih, os2ip_zero_cons]
    · rw [List.dropWhile_cons_of_neg (by simpa using hx)]

theorem length_dropWhile_le (r : Bytes) (p : UInt8 → Bool) : (r.dropWhile p).length ≤ r.length := by
  have := congrArg List.length (List.takeWhile_append_dropWhile (p := p) (l := r))
  rw [List.length_append] at this
  omega

/-- a string with a non-zero leading octet is in shortest form: bn_size_bin gives its length -/
theorem os2ip_head_ne (o : UInt8) (msg : Bytes) (ho : o ≠ 0) :
    os2ip (o :: msg) ≠ 0 ∧ byteLen (os2ip (o :: msg)) - 1 = msg.length := by
  have hlt := os2ip_lt (o :: msg)
  rw [List.length_cons] at hlt
  have hpos : 0 < 256 ^ msg.length := Nat.pow_pos (by decide)
  have hge : 256 ^ msg.length ≤ os2ip (o :: msg) := by
    rw [PadC06.os2ip_cons]
    have h1 : 1 ≤ o.toNat := by
      have := mt (u8_eq_zero o).1 ho
      omega
    have := Nat.mul_le_mul_right (256 ^ msg.length) h1
    omega
  refine ⟨by omega, ?_⟩
  rw [byteLen_eq _ _ hge hlt, Nat.add_sub_cancel]

theorem os2ip_cons_mod (o : UInt8) (msg : Bytes) : os2ip (o :: msg) % 256 ^ msg.length = os2ip msg :=
  os2ip_append_mod [o] msg

/-- pad_pkcs2 (RSA_DEC) = EME-OAEP decoding, for every k-octet string, k ≥ 2·hLen + 2: same decision, same message octets -/
theorem padPkcs2Dec_eq (H : Hash) (hout : ∀ b, (H.h b).length = H.outLen) (hpos : 0 < H.outLen) (k : Nat) (em : Bytes)
    (hk : 2 * H.outLen + 2 ≤ k) (hlen : em.length = k) :
    (padPkcs2Dec H (os2ip em) k).map (fun r => i2osp r.1 (k - r.2)) = oaepDecode H k em := by
  cases em with
  | nil =>
    have h0 : ([] : Bytes).length = 0 := rfl
    omega
  | cons y rest =>
    have hrl : rest.length = k - 1 := by simp only [List.length_cons] at hlen; omega
    have hc : ¬ ((y :: rest).length ≠ k ∨ k < 2 * H.outLen + 2) := by rw [hlen]; omega
    have hkk : k - H.outLen - 1 = k - 1 - H.outLen := by omega
    simp only [oaepDecode, if_neg hc]
    unfold padPkcs2Dec
    simp only []
    rw [hkk]
    have hls : (rest.take H.outLen).length = H.outLen := by rw [List.length_take, hrl]; omega
    have hld : (rest.drop H.outLen).length = k - 1 - H.outLen := by rw [List.length_drop, hrl]
    have hrest : rest = rest.take H.outLen ++ rest.drop H.outLen := (List.take_append_drop _ _).symm
    generalize rest.take H.outLen = mS at hls hrest ⊢
    generalize rest.drop H.outLen = mD at hld hrest ⊢
    subst hrest
    -- the leading octet
    have e0 : os2ip (y :: (mS ++ mD)) / 256 ^ (k - 1) = y.toNat := by
      have := os2ip_cons_div y (mS ++ mD)
      rwa [hrl] at this
    rw [e0]
    by_cases hy : y = 0
    · subst hy
      have hz : ¬ ((0 : UInt8).toNat ≠ 0) := fun h => h rfl
      rw [if_neg hz, os2ip_zero_cons]
      -- maskedSeed / maskedDB
      have e1 : os2ip (mS ++ mD) / 256 ^ (k - 1 - H.outLen) = os2ip mS := by
        have := os2ip_append_div mS mD
        rwa [hld] at this
      have e2 : os2ip (mS ++ mD) % 256 ^ (k - 1 - H.outLen) = os2ip mD := by
        have := os2ip_append_mod mS mD
        rwa [hld] at this
      have e3 : i2osp (os2ip mS) H.outLen = mS := by
        have := i2osp_os2ip mS
        rwa [hls] at this
      have e4 : i2osp (os2ip mD) (k - 1 - H.outLen) = mD := by
        have := i2osp_os2ip mD
        rwa [hld] at this
      rw [e1, e2, e3, e4]
      -- the data block
      generalize xorBytes mS (mgf1 H mD H.outLen) = seed
      have hml : mD.length = (mgf1 H seed (k - 1 - H.outLen)).length := by
        rw [hld, mgf1_length H hout hpos]
      rw [← os2ip_xorBytes mD _ hml]
      have hdbl : (xorBytes mD (mgf1 H seed (k - 1 - H.outLen))).length = k - 1 - H.outLen := by
        rw [xorBytes_length, ← hml, Nat.min_self, hld]
      generalize xorBytes mD (mgf1 H seed (k - 1 - H.outLen)) = db at hdbl ⊢
      have htl : (db.take H.outLen).length = H.outLen := by rw [List.length_take, hdbl]; omega
      have hdl : (db.drop H.outLen).length = k - 1 - H.outLen - H.outLen := by rw [List.length_drop, hdbl]
      have e5 : os2ip db / 256 ^ (k - 1 - H.outLen - H.outLen) = os2ip (db.take H.outLen) := by
        have := os2ip_append_div (db.take H.outLen) (db.drop H.outLen)
        rwa [List.take_append_drop, hdl] at this
      have e6 : os2ip db % 256 ^ (k - 1 - H.outLen - H.outLen) = os2ip (db.drop H.outLen) := by
        have := os2ip_append_mod (db.take H.outLen) (db.drop H.outLen)
        rwa [List.take_append_drop, hdl] at this
      have e7 : i2osp (os2ip (db.take H.outLen)) H.outLen = db.take H.outLen := by
        have := i2osp_os2ip (db.take H.outLen)
        rwa [htl] at this
      rw [e5, e6, e7]
      -- the tail 00 … 00 01 M
      have hdw := os2ip_dropWhile_zero (db.drop H.outLen)
      have hdwl := length_dropWhile_le (db.drop H.outLen) (fun b => decide (b = 0))
      rcases hd : (db.drop H.outLen).dropWhile (fun b => decide (b = 0)) with _ | ⟨o, msg⟩
      · rw [hd] at hdw
        have h0 : os2ip (db.drop H.outLen) = 0 := hdw.symm
        rw [h0, if_pos rfl]
        rfl
      · rw [hd] at hdw hdwl
        rw [List.length_cons] at hdwl
        have ho : o ≠ 0 := by simpa using dropWhile_eq_cons_neg _ _ _ _ hd
        obtain ⟨hne, hbl⟩ := os2ip_head_ne o msg ho
        rw [← hdw, if_neg hne, hbl, os2ip_cons_div, os2ip_cons_mod]
        have hsub : k - (k - msg.length) = msg.length := by omega
        show Option.map _ _ = (if o = 1 ∧ (0 : UInt8) = 0 ∧ db.take H.outLen = H.h [] then some msg else none)
        by_cases hcond : o = 1 ∧ db.take H.outLen = H.h []
        · have c1 : db.take H.outLen = H.h [] ∧ o.toNat = 1 := ⟨hcond.2, by rw [hcond.1]; rfl⟩
          have c2 : o = 1 ∧ (0 : UInt8) = 0 ∧ db.take H.outLen = H.h [] := ⟨hcond.1, rfl, hcond.2⟩
          rw [if_pos c1, if_pos c2, Option.map_some]
          simp only [hsub, i2osp_os2ip]
        · have c1 : ¬ (db.take H.outLen = H.h [] ∧ o.toNat = 1) := by
            intro h
            refine hcond ⟨?_, h.1⟩
            rw [← UInt8.toNat_inj, h.2]; rfl
          have c2 : ¬ (o = 1 ∧ (0 : UInt8) = 0 ∧ db.take H.outLen = H.h []) := fun h => hcond ⟨h.1, h.2.2⟩
          rw [if_neg c1, if_neg c2, Option.map_none]
    · have hyn : y.toNat ≠ 0 := mt (u8_eq_zero y).1 hy
      rw [if_pos hyn, Option.map_none]
      split
      · exact (if_neg (fun h => hy h.2.1)).symm
      · rfl

end Relic.Lemmas.OaepModelC06
