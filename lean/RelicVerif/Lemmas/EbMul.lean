/-
The scalar-multiplication loops of Model/EbMul.lean compute the integer (resp. the element of Z[τ]) their digit string
denotes times the base point: right-to-left w-NAF with buckets, the halving loop, the single-table comb, and the Koblitz
(τ-adic) tables and loops in a module over a commutative ring containing τ (the Frobenius acts as x ↦ τ • x).
-/
import Mathlib.Algebra.Group.Basic
import Mathlib.Algebra.Module.Basic
import Mathlib.Algebra.BigOperators.Group.Finset.Basic
import Mathlib.Algebra.BigOperators.Ring.Finset
import Mathlib.Data.List.GetD
import Mathlib.Tactic.Abel
import Mathlib.Tactic.Ring
import Mathlib.Tactic.Linarith
import Mathlib.Tactic.LinearCombination
import Mathlib.Tactic.IntervalCases
import Mathlib.Tactic.Module
import RelicVerif.Model.EbMul
import RelicVerif.Lemmas.MulAlg
import RelicVerif.Lemmas.Tnaf

namespace Relic.Lemmas.EbMul
open Relic.Model Relic.Model.MulAlg Relic.Model.EbMul Relic.Model.Tnaf Relic.Lemmas.Tnaf

variable {G : Type} [AddCommGroup G]

/-! ### buckets of the right-to-left loops (generic: weights in a commutative ring acting on G) -/

section buckets
variable {R : Type} [CommRing R] [Module R G]

/-- weighted sum Σ_j wt(s+j) • bk[j] -/
def wsumR (wt : ℕ → R) : ℕ → List G → G
  | _, [] => 0
  | s, b :: bs => wt s • b + wsumR wt (s + 1) bs

theorem wsumR_set (wt : ℕ → R) : ∀ (bk : List G) (s i : ℕ) (x : G), i < bk.length →
    wsumR wt s (bk.set i x) = wsumR wt s bk + wt (s + i) • (x - bk.getD i 0) := by
  intro bk
  induction bk with
  | nil => intro s i x h; simp at h
  | cons b bs ih =>
    intro s i x h
    cases i with
    | zero => simp only [List.set_cons_zero, wsumR, List.getD_cons_zero, Nat.add_zero, smul_sub]; abel
    | succ i =>
      simp only [List.set_cons_succ, wsumR, List.getD_cons_succ]
      rw [ih (s + 1) i x (by simpa using h), show s + 1 + i = s + (i + 1) by omega]
      abel

theorem wsumR_replicate (wt : ℕ → R) (n s : ℕ) : wsumR wt s (List.replicate n (0 : G)) = 0 := by
  induction n generalizing s with
  | zero => rfl
  | succ n ih => simp [List.replicate_succ, wsumR, ih]

/-- the digit d is admissible for n buckets and stands for dv d -/
def GoodDigit (wt : ℕ → R) (dv : ℤ → R) (n : ℕ) (d : ℤ) : Prop :=
  (d = 0 ∧ dv d = 0) ∨ (0 < d ∧ d.toNat / 2 < n ∧ dv d = wt (d.toNat / 2)) ∨
    (d < 0 ∧ (-d).toNat / 2 < n ∧ dv d = - wt ((-d).toNat / 2))

theorem bucketAdd_length (bk : List G) (d : ℤ) (q : G) : (bucketAdd gops bk d q).length = bk.length := by
  unfold bucketAdd; split_ifs <;> simp

theorem bucketAdd_wsum (wt : ℕ → R) (dv : ℤ → R) (bk : List G) (d : ℤ) (q : G) (h : GoodDigit wt dv bk.length d) :
    wsumR wt 0 (bucketAdd gops bk d q) = wsumR wt 0 bk + dv d • q := by
  unfold bucketAdd
  rcases h with ⟨rfl, h0⟩ | ⟨hpos, hlt, hv⟩ | ⟨hneg, hlt, hv⟩
  · simp [h0]
  · rw [if_pos hpos, wsumR_set wt bk 0 _ _ hlt, hv]; simp
  · rw [if_neg (by omega), if_pos hneg, wsumR_set wt bk 0 _ _ hlt, hv]; simp

/-- value of a digit string in base c with digit values dv -/
def evalW (dv : ℤ → R) (c : R) (ds : List ℤ) : R := ds.foldr (fun d acc => dv d + c * acc) 0

theorem bucketFold (wt : ℕ → R) (dv : ℤ → R) (c : R) (step : G → G) (hstep : ∀ x, step x = c • x) :
    ∀ (ds : List ℤ) (bk : List G) (q : G), (∀ d ∈ ds, GoodDigit wt dv bk.length d) →
      (ds.foldl (fun (st : List G × G) d => (bucketAdd gops st.1 d st.2, step st.2)) (bk, q)).1.length = bk.length ∧
      wsumR wt 0 (ds.foldl (fun (st : List G × G) d => (bucketAdd gops st.1 d st.2, step st.2)) (bk, q)).1
        = wsumR wt 0 bk + evalW dv c ds • q := by
  intro ds
  induction ds with
  | nil => intro bk q _; simp [evalW]
  | cons d t ih =>
    intro bk q h
    simp only [List.foldl_cons]
    have hl := bucketAdd_length bk d q
    obtain ⟨h1, h2⟩ := ih (bucketAdd gops bk d q) (step q)
      (fun x hx => by rw [hl]; exact h x (List.mem_cons_of_mem _ hx))
    refine ⟨by rw [h1, hl], ?_⟩
    rw [h2, bucketAdd_wsum wt dv bk d q (h d List.mem_cons_self), hstep]
    show _ + evalW dv c t • c • q = _ + (dv d + c * evalW dv c t) • q
    rw [add_smul, mul_comm c, mul_smul, add_assoc]

theorem wsumR_eq_range (wt : ℕ → R) : ∀ (bk : List G) (s : ℕ),
    wsumR wt s bk = ((List.range bk.length).map fun (j : ℕ) => wt (s + j) • bk.getD j 0).sum := by
  intro bk
  induction bk with
  | nil => intro s; simp [wsumR]
  | cons b bs ih =>
    intro s
    rw [wsumR, ih, List.length_cons, List.range_succ_eq_map, List.map_cons, List.sum_cons, List.map_map]
    simp only [Nat.add_zero, List.getD_cons_zero]
    congr 2
    apply List.map_congr_left
    intro j _
    simp only [Function.comp, List.getD_cons_succ, Nat.succ_eq_add_one]
    rw [show s + 1 + j = s + (j + 1) by omega]

end buckets

/-! ### the ordinary case: weights 2j+1 over ℤ -/

def wtOdd (j : ℕ) : ℤ := 2 * (j : ℤ) + 1

theorem good_odd (n : ℕ) (d : ℤ) (h : d = 0 ∨ (d % 2 ≠ 0 ∧ d.natAbs < 2 * n)) : GoodDigit wtOdd id n d := by
  rcases h with rfl | ⟨hodd, hb⟩
  · left; simp
  · by_cases hpos : 0 < d
    · right; left
      refine ⟨hpos, by omega, ?_⟩
      show d = 2 * ((d.toNat / 2 : ℕ) : ℤ) + 1
      omega
    · right; right
      refine ⟨by omega, by omega, ?_⟩
      show d = -(2 * (((-d).toNat / 2 : ℕ) : ℤ) + 1)
      omega

theorem evalW_id_two (ds : List ℤ) : evalW id (2 : ℤ) ds = Rec.eval 1 ds := by
  induction ds with
  | nil => rfl
  | cons d t ih => rw [Rec.eval_cons, ← ih]; simp [evalW]

theorem foldl_gops_add (l : List G) (a : G) : l.foldl gops.add a = a + l.sum := by
  induction l generalizing a with
  | nil => simp
  | cons x t ih => rw [List.foldl_cons, ih, gops_add, List.sum_cons, add_assoc]

/-- the suffix sums of combineOdd -/
def sufL (bk : List G) : List G := bk.foldr (fun b (acc : List G) => (gops.add b (acc.headD gops.zero)) :: acc) []

theorem sufL_cons (b : G) (t : List G) : sufL (b :: t) = (b + (sufL t).headD 0) :: sufL t := rfl

theorem sufL_head (bk : List G) : (sufL bk).headD 0 = bk.sum := by
  induction bk with
  | nil => rfl
  | cons b t ih => rw [sufL_cons, List.headD_cons, ih, List.sum_cons]

theorem sufL_sum (bs : List G) (s : ℕ) :
    (2 : ℤ) • (sufL bs).sum + (2 * (s : ℤ) - 1) • bs.sum = wsumR wtOdd s bs := by
  induction bs generalizing s with
  | nil => simp [sufL, wsumR]
  | cons b t ih =>
    rw [sufL_cons, sufL_head, wsumR, ← ih, List.sum_cons, List.sum_cons]
    simp only [wtOdd]
    push_cast
    module

theorem combineOdd_wsum (bk : List G) : combineOdd gops bk = wsumR wtOdd 0 bk := by
  cases bk with
  | nil => rfl
  | cons b t =>
    show gops.add (gops.dbl ((sufL t).foldl gops.add gops.zero)) (b + (sufL t).headD 0) = _
    rw [foldl_gops_add, sufL_head, wsumR, ← sufL_sum, gops_add, gops_dbl, gops_zero]
    simp only [wtOdd]
    push_cast
    module

/-- the summation trick of eb_mul_halve: Σ (2j+1)·t[j] -/
theorem combineOdd_spec (bk : List G) :
    combineOdd gops bk = ((List.range bk.length).map fun (j : Nat) => (2 * (j : ℤ) + 1) • bk.getD j 0).sum := by
  rw [combineOdd_wsum, wsumR_eq_range]
  simp only [wtOdd, Nat.zero_add]

/-- eb_mul_rnaf_imp (width 4): digits zero or odd with |d| < 8 -/
theorem mulRnaf4_spec (p : G) (ds : List Int) (hd : ∀ d ∈ ds, d = 0 ∨ (d % 2 ≠ 0 ∧ d.natAbs < 8)) :
    mulRnaf4 gops p ds = (Rec.eval 1 ds) • p := by
  obtain ⟨hlen, hw⟩ := bucketFold wtOdd id (2 : ℤ) gops.dbl (fun x => gops_dbl x) ds (List.replicate 4 (0 : G)) p
    (fun d h => good_odd _ d (by simpa using hd d h))
  rw [wsumR_replicate, zero_add, evalW_id_two] at hw
  rw [← hw]
  unfold mulRnaf4 buckets
  simp only [gops_zero]
  generalize (ds.foldl (fun (st : List G × G) d => (bucketAdd gops st.1 d st.2, gops.dbl st.2))
    (List.replicate 4 (0 : G), p)).1 = bk at hlen ⊢
  match bk, hlen with
  | [a, b, c, d], _ =>
    simp only [List.getD_cons_zero, List.getD_cons_succ, gops_add, gops_sub, gops_dbl, dblN_spec, wsumR, wtOdd]
    push_cast
    module

/-! #### the halving loop -/

theorem evalW_append {R : Type} [CommRing R] (dv : ℤ → R) (c : R) (a b : List ℤ) :
    evalW dv c (a ++ b) = evalW dv c a + c ^ a.length * evalW dv c b := by
  induction a with
  | nil => simp [evalW]
  | cons x t ih =>
    show dv x + c * evalW dv c (t ++ b) = (dv x + c * evalW dv c t) + c ^ (t.length + 1) * evalW dv c b
    rw [ih]; ring

theorem getD_zero_prop (P : ℤ → Prop) (naf : List ℤ) (h0 : P 0) (h : ∀ d ∈ naf, P d) (i : ℕ) : P (naf.getD i 0) := by
  rw [List.getD_eq_getElem?_getD]
  cases hx : naf[i]? with
  | none => simpa using h0
  | some x => simpa using h x (List.mem_of_getElem? hx)

theorem eval_zeros (s m : ℕ) : Rec.eval s (List.replicate m (0 : ℤ)) = 0 := by
  induction m with
  | zero => rfl
  | succ m ih => rw [List.replicate_succ, Rec.eval_cons, ih]; simp

theorem eval_pad : ∀ (l : ℕ) (naf : List ℤ), naf.length ≤ l + 1 →
    Rec.eval 1 naf = Rec.eval 1 ((List.range l).map fun i => naf.getD i 0) + 2 ^ l * naf.getD l 0 := by
  intro l
  induction l with
  | zero =>
    intro naf h
    match naf, h with
    | [], _ => simp
    | [x], _ => simp
  | succ l ih =>
    intro naf h
    cases naf with
    | nil => simp [eval_zeros]
    | cons x t =>
      rw [List.range_succ_eq_map, List.map_cons, List.map_map, Rec.eval_cons, Rec.eval_cons,
        ih t (by simpa using h)]
      simp only [List.getD_cons_zero, List.getD_cons_succ, Function.comp_def, Nat.succ_eq_add_one]
      ring

theorem two_c_pow (N c : ℤ) (hc : N ∣ 2 * c - 1) (j : ℕ) : N ∣ (2 * c) ^ j - 1 := by
  induction j with
  | zero => simp
  | succ j ih =>
    have : (2 * c) ^ (j + 1) - 1 = (2 * c) ^ j * (2 * c - 1) + ((2 * c) ^ j - 1) := by ring
    rw [this]
    exact dvd_add (dvd_mul_of_dvd_right hc _) ih

theorem rev_mod (N c : ℤ) (hc : N ∣ 2 * c - 1) (A : List ℤ) :
    N ∣ 2 ^ A.length * evalW id c A.reverse - 2 * Rec.eval 1 A := by
  induction A with
  | nil => simp [evalW]
  | cons x t ih =>
    rw [List.reverse_cons, evalW_append, List.length_reverse, List.length_cons, Rec.eval_cons]
    have : 2 ^ (t.length + 1) * (evalW id c t.reverse + c ^ t.length * evalW id c [x]) - 2 * (x + 2 ^ 1 * Rec.eval 1 t)
        = 2 * (2 ^ t.length * evalW id c t.reverse - 2 * Rec.eval 1 t) + 2 * x * ((2 * c) ^ t.length - 1) := by
      simp only [evalW, List.foldr_cons, List.foldr_nil, id]
      rw [mul_pow]; ring
    rw [this]
    exact dvd_add (dvd_mul_of_dvd_right ih _) (dvd_mul_of_dvd_right (two_c_pow N c hc _) _)

theorem mulHalve_correct (p : G) (n : ℕ) (hn : (n : ℤ) • p = 0) (c : ℤ) (hc : (2 * c - 1) % (n : ℤ) = 0)
    (w l : Nat) (hw : 2 ≤ w) (hl : 1 ≤ l) (k : ℤ) (naf : List Int)
    (hd : ∀ d ∈ naf, d = 0 ∨ (d % 2 ≠ 0 ∧ d.natAbs < 2 ^ (w - 1)))
    (hlen : naf.length ≤ l + 1) (htop : naf.getD l 0 = 0 ∨ naf.getD l 0 = 1)
    (hval : (Rec.eval 1 naf - k * 2 ^ (l - 1)) % (n : ℤ) = 0) :
    mulHalve gops (fun x => c • x) w l p naf = k • p := by
  have hc' : (n : ℤ) ∣ 2 * c - 1 := Int.dvd_of_emod_eq_zero hc
  have hval' : (n : ℤ) ∣ Rec.eval 1 naf - k * 2 ^ (l - 1) := Int.dvd_of_emod_eq_zero hval
  have hpw : 2 ^ (w - 1) = 2 * 2 ^ (w - 2) := by
    rw [show w - 1 = (w - 2) + 1 by omega, pow_succ]; ring
  have hnpos : 0 < 2 ^ (w - 2) := by positivity
  set A : List ℤ := (List.range l).map fun i => naf.getD i 0 with hA
  -- the starting buckets
  set bk0 : List G := if naf.getD l 0 = 1 then (List.replicate (2 ^ (w - 2)) (0 : G)).set 0 (gops.dbl p)
    else List.replicate (2 ^ (w - 2)) (0 : G) with hbk0
  have hbk0len : bk0.length = 2 ^ (w - 2) := by
    rw [hbk0]; split_ifs <;> simp
  have hbk0sum : wsumR wtOdd 0 bk0 = (2 * naf.getD l 0) • p := by
    rw [hbk0]
    rcases htop with h | h
    · rw [h, if_neg (by decide), wsumR_replicate]; simp
    · rw [h, if_pos rfl, wsumR_set _ _ _ _ _ (by simp), wsumR_replicate]
      simp [wtOdd]
  -- the loop as a fold over the digits met
  have hfold : (List.range l).reverse.foldl (fun (st : List G × G) i =>
        (bucketAdd gops st.1 (naf.getD i 0) st.2, (fun x => c • x) st.2)) (bk0, p)
      = A.reverse.foldl (fun (st : List G × G) d => (bucketAdd gops st.1 d st.2, (fun x => c • x) st.2)) (bk0, p) := by
    rw [hA, ← List.map_reverse, List.foldl_map]
  obtain ⟨_, hw2⟩ := bucketFold wtOdd id c (fun x => c • x) (fun _ => rfl) A.reverse bk0 p (by
    intro d hdm
    rw [List.mem_reverse, hA, List.mem_map] at hdm
    obtain ⟨i, _, rfl⟩ := hdm
    apply good_odd
    rw [hbk0len, ← hpw]
    exact getD_zero_prop (fun d => d = 0 ∨ (d % 2 ≠ 0 ∧ d.natAbs < 2 ^ (w - 1))) naf (Or.inl rfl) hd i)
  have hres : mulHalve gops (fun x => c • x) w l p naf = (2 * naf.getD l 0 + evalW id c A.reverse) • p := by
    unfold mulHalve
    simp only [gops_zero]
    rw [hfold, combineOdd_wsum, hw2, hbk0sum, ← add_zsmul]
  rw [hres]
  -- arithmetic modulo n
  have hAlen : A.length = l := by simp [hA]
  have h1 := rev_mod (n : ℤ) c hc' A
  rw [hAlen] at h1
  have h2 := eval_pad l naf hlen
  have h3 := two_c_pow (n : ℤ) c hc' l
  obtain ⟨l', rfl⟩ : ∃ l', l = l' + 1 := ⟨l - 1, by omega⟩
  simp only [Nat.add_sub_cancel] at hval'
  generalize evalW id c A.reverse = E at h1 ⊢
  generalize naf.getD (l' + 1) 0 = t at h2 ⊢
  have h4 : (n : ℤ) ∣ 2 ^ (l' + 1) * (2 * t + E - k) := by
    have : 2 ^ (l' + 1) * (2 * t + E - k)
        = (2 ^ (l' + 1) * E - 2 * Rec.eval 1 A) + 2 * (Rec.eval 1 naf - k * 2 ^ l') := by
      rw [h2]; ring
    rw [this]
    exact dvd_add h1 (dvd_mul_of_dvd_right hval' _)
  have h5 : (n : ℤ) ∣ 2 * t + E - k := by
    have : 2 * t + E - k = c ^ (l' + 1) * (2 ^ (l' + 1) * (2 * t + E - k))
        - ((2 * c) ^ (l' + 1) - 1) * (2 * t + E - k) := by
      rw [mul_pow]; ring
    rw [this]
    exact dvd_sub (dvd_mul_of_dvd_right h4 _) (dvd_mul_of_dvd_left h3 _)
  obtain ⟨q, hq⟩ := h5
  have : 2 * t + E = k + q * (n : ℤ) := by linarith
  rw [this, add_zsmul, mul_zsmul, hn, zsmul_zero, add_zero]

/-! #### the comb -/

/-- Σ_{j<d} bit_j(c)·2^(j·l) -/
def combVal (l d c : ℕ) : ℤ := ((List.range d).map fun (j : Nat) => (((c >>> j) % 2 : ℕ) : ℤ) * 2 ^ (j * l)).sum

theorem combVal_succ (l d c : ℕ) :
    combVal l (d + 1) c = combVal l d c + (((c >>> d) % 2 : ℕ) : ℤ) * 2 ^ (d * l) := by
  simp [combVal, List.range_succ]

theorem combVal_congr (l d c c' : ℕ) (h : ∀ j, j < d → (c >>> j) % 2 = (c' >>> j) % 2) :
    combVal l d c = combVal l d c' := by
  unfold combVal
  congr 1
  apply List.map_congr_left
  intro j hj
  rw [h j (List.mem_range.1 hj)]

theorem combVal_zero (l d : ℕ) : combVal l d 0 = 0 := by
  induction d with
  | zero => rfl
  | succ d ih => rw [combVal_succ, ih]; simp

theorem combVal_low (l d c : ℕ) (h : c < 2 ^ d) : combVal l (d + 1) c = combVal l d c := by
  rw [combVal_succ, Nat.shiftRight_eq_div_pow, Nat.div_eq_of_lt h]; simp

theorem combVal_high (l d i : ℕ) (h : i < 2 ^ d) : combVal l (d + 1) (2 ^ d + i) = combVal l d i + 2 ^ (d * l) := by
  rw [combVal_succ]
  congr 1
  · apply combVal_congr
    intro j hj
    rw [Nat.shiftRight_eq_div_pow, Nat.shiftRight_eq_div_pow,
      show 2 ^ d = 2 ^ j * (2 * 2 ^ (d - j - 1)) by
        rw [← pow_succ', ← pow_add]; congr 1; omega,
      Nat.mul_add_div (by positivity), Nat.mul_add_mod]
  · rw [Nat.shiftRight_eq_div_pow]
    have : (2 ^ d + i) / 2 ^ d = 1 := by
      rw [show 2 ^ d + i = 2 ^ d * 1 + i by ring, Nat.mul_add_div (by positivity), Nat.div_eq_of_lt h]
    rw [this]; simp

/-- the comb table: entry c is Σ_j bit_j(c)·2^(j·l)·P -/
theorem tabCombs_spec (p : G) (l d : Nat) :
    (tabCombs gops p l d).length = 2 ^ d ∧
    ∀ c, c < 2 ^ d → (tabCombs gops p l d).getD c 0 =
      (((List.range d).map fun (j : Nat) => (((c >>> j) % 2 : ℕ) : ℤ) * 2 ^ (j * l)).sum) • p := by
  show _ ∧ ∀ c, c < 2 ^ d → (tabCombs gops p l d).getD c 0 = combVal l d c • p
  induction d with
  | zero =>
    refine ⟨rfl, fun c hc => ?_⟩
    have : c = 0 := by omega
    subst this
    simp [tabCombs, combVal]
  | succ d ih =>
    cases d with
    | zero =>
      refine ⟨rfl, fun c hc => ?_⟩
      have : c = 0 ∨ c = 1 := by omega
      rcases this with rfl | rfl <;> simp [tabCombs, combVal]
    | succ d =>
      obtain ⟨hlen, ht⟩ := ih
      have hpos : 0 < 2 ^ (d + 1) := by positivity
      have hbase : dblN gops l ((tabCombs gops p l (d + 1)).getD (2 ^ d) gops.zero)
          = (2 ^ ((d + 1) * l) : ℤ) • p := by
        rw [dblN_spec, gops_zero, ht _ (by rw [pow_succ]; omega),
          show 2 ^ d = 2 ^ d + 0 by rfl, combVal_high l d 0 (by positivity), combVal_zero, zero_add,
          ← mul_zsmul, ← pow_add]
        congr 2; ring
      rw [tabCombs]
      simp only [hbase]
      generalize tabCombs gops p l (d + 1) = t at hlen ht
      refine ⟨?_, fun c hc => ?_⟩
      · simp only [List.length_append, List.length_cons, List.length_map, List.length_tail, hlen]
        rw [pow_succ 2 (d + 1)]; omega
      · by_cases hlow : c < 2 ^ (d + 1)
        · rw [List.getD_append _ _ _ _ (by omega), ht c hlow, combVal_low l (d + 1) c hlow]
        · obtain ⟨i, rfl⟩ : ∃ i, c = 2 ^ (d + 1) + i := ⟨c - 2 ^ (d + 1), by omega⟩
          have hi : i < 2 ^ (d + 1) := by rw [pow_succ 2 (d + 1)] at hc; omega
          rw [List.getD_append_right _ _ _ _ (by omega), hlen, Nat.add_sub_cancel_left,
            combVal_high l (d + 1) i hi, add_zsmul]
          cases i with
          | zero => simp [combVal_zero]
          | succ i =>
            rw [List.getD_cons_succ, List.getD_eq_getElem?_getD, List.getElem?_map, List.getElem?_tail,
              List.getElem?_eq_getElem (by omega)]
            have := ht (i + 1) hi
            rw [List.getD_eq_getElem?_getD, List.getElem?_eq_getElem (by omega)] at this
            simp only [Option.getD_some] at this
            simp [this]

theorem combCol_succ (k l d i : ℕ) :
    combCol k l (d + 1) i = combCol k l d i + ((k >>> (i + d * l)) % 2) * 2 ^ d := by
  simp [combCol, List.range_succ]

theorem combCol_lt (k l d i : ℕ) : combCol k l d i < 2 ^ d := by
  induction d with
  | zero => simp [combCol]
  | succ d ih =>
    rw [combCol_succ, pow_succ]
    rcases Nat.mod_two_eq_zero_or_one (k >>> (i + d * l)) with h | h <;> rw [h] <;> omega

theorem combVal_combCol (k l d i : ℕ) :
    combVal l d (combCol k l d i)
      = ∑ j ∈ Finset.range d, (((k >>> (i + j * l)) % 2 : ℕ) : ℤ) * 2 ^ (j * l) := by
  induction d with
  | zero => simp [combVal, combCol]
  | succ d ih =>
    rw [combCol_succ, Finset.sum_range_succ, ← ih]
    have hlt := combCol_lt k l d i
    rcases Nat.mod_two_eq_zero_or_one (k >>> (i + d * l)) with h | h <;> rw [h]
    · simp [combVal_low l d _ hlt]
    · rw [Nat.one_mul, Nat.add_comm (combCol k l d i), combVal_high l d _ hlt]; simp

theorem loop_eval (p : G) (m : ℕ) : ∀ (f : ℕ → ℤ),
    (List.range m).reverse.foldl (fun r i => (2 : ℤ) • r + f i • p) 0
      = (∑ i ∈ Finset.range m, f i * 2 ^ i) • p := by
  induction m with
  | zero => intro f; simp
  | succ m ih =>
    intro f
    rw [List.range_succ_eq_map, List.reverse_cons, List.foldl_append, ← List.map_reverse, List.foldl_map]
    simp only [List.foldl_cons, List.foldl_nil]
    rw [ih (fun i => f (i + 1)), Finset.sum_range_succ', ← mul_zsmul, ← add_zsmul, Finset.mul_sum]
    congr 1
    simp only [pow_zero, mul_one, add_left_inj]
    apply Finset.sum_congr rfl
    intro i _
    ring

theorem bits_sum (m l : ℕ) : ∑ i ∈ Finset.range l, ((m >>> i) % 2) * 2 ^ i = m % 2 ^ l := by
  induction l with
  | zero => simp [Nat.mod_one]
  | succ l ih => rw [Finset.sum_range_succ, ih, Nat.mod_pow_succ, Nat.shiftRight_eq_div_pow, Nat.mul_comm]

theorem comb_sum (k l d : ℕ) :
    ∑ i ∈ Finset.range l, (∑ j ∈ Finset.range d, (((k >>> (i + j * l)) % 2 : ℕ) : ℤ) * 2 ^ (j * l)) * 2 ^ i
      = ((k % 2 ^ (l * d) : ℕ) : ℤ) := by
  induction d with
  | zero => simp [Nat.mod_one]
  | succ d ih =>
    simp only [Finset.sum_range_succ, add_mul, Finset.sum_add_distrib]
    rw [ih, Nat.mul_succ, pow_add, Nat.mod_mul, ← bits_sum (k / 2 ^ (l * d)) l]
    rw [Nat.cast_add, Nat.cast_mul, Nat.cast_sum, Finset.mul_sum]
    congr 1
    apply Finset.sum_congr rfl
    intro i _
    rw [Nat.add_comm i, Nat.shiftRight_add, Nat.shiftRight_eq_div_pow k, Nat.mul_comm d l]
    push_cast
    ring

/-- eb_mul_fix_combs: k below 2^(l·d) (the comb covers l·d bits) -/
theorem mulCombs_spec (p : G) (k l d : Nat) (hl : 0 < l) (hk : k < 2 ^ (l * d)) :
    mulCombs gops (tabCombs gops p l d) k l d = (k : ℤ) • p := by
  have _ := hl
  obtain ⟨_, htab⟩ := tabCombs_spec p l d
  have hstep : (fun (r : G) (i : ℕ) =>
      let r := gops.dbl r
      let c := combCol k l d i
      if c > 0 then gops.add r ((tabCombs gops p l d).getD c gops.zero) else r)
      = fun r i => (2 : ℤ) • r + (∑ j ∈ Finset.range d, (((k >>> (i + j * l)) % 2 : ℕ) : ℤ) * 2 ^ (j * l)) • p := by
    funext r i
    have h1 := htab _ (combCol_lt k l d i)
    change _ = combVal l d (combCol k l d i) • p at h1
    rw [combVal_combCol] at h1
    simp only [gops_dbl, gops_add, gops_zero, h1]
    split_ifs with hc
    · rfl
    · have hc0 : combCol k l d i = 0 := by omega
      rw [← combVal_combCol, hc0, combVal_zero]; simp
  unfold mulCombs
  rw [hstep, gops_zero, loop_eval, comb_sum, Nat.mod_eq_of_lt hk]

/-! ### Koblitz curves: G is a module over a commutative ring R ∋ τ, τ² = μτ - 2, and the Frobenius map is x ↦ τ • x -/

variable {R : Type} [CommRing R] [Module R G] (τ : R) (u : ℤ)

theorem frb2 (hτ : τ ^ 2 = (u : R) * τ - 2) (x : G) : τ • τ • x = ((u : R) * τ - 2) • x := by
  rw [smul_smul, ← pow_two, hτ]

theorem frb3 (hτ : τ ^ 2 = (u : R) * τ - 2) (x : G) :
    τ • τ • τ • x = (((u : R) ^ 2 - 2) * τ - 2 * (u : R)) • x := by
  rw [smul_smul, smul_smul]
  congr 1
  linear_combination (τ + (u : R)) * hτ

/-- eb_tab (w = 4): t[j] = α_{2j+1}·P -/
theorem tabKbltz4_spec (hτ : τ ^ 2 = (u : R) * τ - 2) (hu : u = 1 ∨ u = -1) (p : G) (j : Nat) (hj : j < 4) :
    (tabKbltz4 gops (fun x => τ • x) u p).getD j 0 = (ev τ (alpha u 4 (2 * (j : ℤ) + 1)) : R) • p := by
  have a0 : ∀ u : ℤ, alpha u 4 (2 * ((0 : ℕ) : ℤ) + 1) = (1, 0) := by intro u; rfl
  have a1 : ∀ u : ℤ, alpha u 4 (2 * ((1 : ℕ) : ℤ) + 1) = (-3, u) := by intro u; rfl
  have a2 : ∀ u : ℤ, alpha u 4 (2 * ((2 : ℕ) : ℤ) + 1) = (-1, u) := by intro u; rfl
  have a3 : ∀ u : ℤ, alpha u 4 (2 * ((3 : ℕ) : ℤ) + 1) = (1, u) := by intro u; rfl
  rcases hu with rfl | rfl <;> interval_cases j <;>
    simp only [a0, a1, a2, a3, tabKbltz4, List.getD_cons_zero, List.getD_cons_succ, gops_sub, gops_add, gops_neg,
      frb2 τ _ hτ, ev] <;> norm_num <;> module

/-- eb_tab (w = 5) -/
theorem tabKbltz5_spec (hτ : τ ^ 2 = (u : R) * τ - 2) (hu : u = 1 ∨ u = -1) (p : G) (j : Nat) (hj : j < 8) :
    (tabKbltz5 gops (fun x => τ • x) u p).getD j 0 = (ev τ (alpha u 5 (2 * (j : ℤ) + 1)) : R) • p := by
  have a0 : ∀ u : ℤ, alpha u 5 (2 * ((0 : ℕ) : ℤ) + 1) = (1, 0) := by intro u; rfl
  have a1 : ∀ u : ℤ, alpha u 5 (2 * ((1 : ℕ) : ℤ) + 1) = (-3, u) := by intro u; rfl
  have a2 : ∀ u : ℤ, alpha u 5 (2 * ((2 : ℕ) : ℤ) + 1) = (-1, u) := by intro u; rfl
  have a3 : ∀ u : ℤ, alpha u 5 (2 * ((3 : ℕ) : ℤ) + 1) = (1, u) := by intro u; rfl
  have a4 : ∀ u : ℤ, alpha u 5 (2 * ((4 : ℕ) : ℤ) + 1) = (-3, 2 * u) := by intro u; rfl
  have a5 : ∀ u : ℤ, alpha u 5 (2 * ((5 : ℕ) : ℤ) + 1) = (-1, 2 * u) := by intro u; rfl
  have a6 : ∀ u : ℤ, alpha u 5 (2 * ((6 : ℕ) : ℤ) + 1) = (1, 2 * u) := by intro u; rfl
  have a7 : ∀ u : ℤ, alpha u 5 (2 * ((7 : ℕ) : ℤ) + 1) = (1, -3 * u) := by intro u; rfl
  rcases hu with rfl | rfl <;> interval_cases j <;>
    simp only [a0, a1, a2, a3, a4, a5, a6, a7, tabKbltz5, List.getD_cons_zero, List.getD_cons_succ, gops_sub,
      gops_add, gops_neg, frb2 τ _ hτ, ev] <;> norm_num <;> module

theorem ev_neg_pair (a b : ℤ) : ev τ (-a, -b) = - ev τ (a, b) := by
  simp only [ev, Int.cast_neg]; ring

theorem ev_zero_pair : ev τ (0, 0) = 0 := by simp [ev]

theorem alpha_at_zero (w : ℕ) : alpha u w 0 = (0, 0) := by simp [alpha]

theorem ev_alpha_neg (w : ℕ) (hw : 3 ≤ w) (d : ℤ) (hd : d < 0) :
    ev τ (alpha u w d) = - ev τ (alpha u w (-d)) := by
  have h1 : d ≠ 0 := by omega
  have h2 : -d ≠ 0 := by omega
  have h3 : w ≠ 2 := by omega
  have h4 : ¬ (-d < 0) := by omega
  simp only [alpha, h1, h2, h3, h4, hd, if_true, if_false, Int.natAbs_neg]
  exact ev_neg_pair τ _ _

/-- one step of the τ-adic loops: add or subtract the table entry of |d| -/
theorem tnafStep (w : Nat) (hw : 3 ≤ w) (p : G) (tab : List G)
    (htab : ∀ j, j < tab.length → tab.getD j 0 = (ev τ (alpha u w (2 * (j : ℤ) + 1)) : R) • p)
    (r : G) (d : ℤ) (hd : d = 0 ∨ (d % 2 ≠ 0 ∧ d.natAbs < 2 * tab.length)) :
    (if d > 0 then gops.add r (tab.getD (d.toNat / 2) 0)
      else if d < 0 then gops.sub r (tab.getD ((-d).toNat / 2) 0) else r) = r + (ev τ (alpha u w d) : R) • p := by
  rcases hd with rfl | ⟨hodd, hb⟩
  · simp [alpha_at_zero, ev_zero_pair]
  · by_cases hpos : d > 0
    · rw [if_pos hpos, gops_add, htab _ (by omega)]
      congr 4; omega
    · have hneg : d < 0 := by omega
      rw [if_neg hpos, if_pos hneg, gops_sub, htab _ (by omega), sub_eq_add_neg, ← neg_smul,
        ev_alpha_neg τ u w hw d hneg]
      congr 5; omega

/-- eb_mul_ltnaf_imp / eb_mul_fix_kbltz: the left-to-right τ-adic loop with a table of α_{2j+1}·P -/
theorem mulTnaf_spec (w : Nat) (hw : 3 ≤ w) (p : G) (tab : List G)
    (htab : ∀ j, j < tab.length → tab.getD j 0 = (ev τ (alpha u w (2 * (j : ℤ) + 1)) : R) • p)
    (ds : List Int) (hd : ∀ d ∈ ds, d = 0 ∨ (d % 2 ≠ 0 ∧ d.natAbs < 2 * tab.length)) :
    mulTnaf gops (fun x => τ • x) tab 0 ds = (evalTau τ u w ds : R) • p := by
  unfold mulTnaf
  induction ds with
  | nil => simp [evalTau]
  | cons d ds ih =>
    rw [List.reverse_cons, List.foldl_append, ih (fun x hx => hd x (List.mem_cons_of_mem _ hx))]
    simp only [List.foldl_cons, List.foldl_nil]
    rw [tnafStep τ u w hw p tab htab _ d (hd d List.mem_cons_self), smul_smul, ← add_smul]
    congr 1
    show _ = ev τ (alpha u w d) + τ * evalTau τ u w ds
    ring

theorem good_tau (w : ℕ) (hw : 3 ≤ w) (n : ℕ) (d : ℤ) (h : d = 0 ∨ (d % 2 ≠ 0 ∧ d.natAbs < 2 * n)) :
    GoodDigit (fun (j : ℕ) => ev τ (alpha u w (2 * (j : ℤ) + 1))) (fun d => ev τ (alpha u w d)) n d := by
  rcases h with rfl | ⟨hodd, hb⟩
  · left; exact ⟨rfl, by simp [alpha_at_zero, ev_zero_pair]⟩
  · by_cases hpos : 0 < d
    · right; left
      refine ⟨hpos, by omega, ?_⟩
      show ev τ (alpha u w d) = ev τ (alpha u w (2 * ((d.toNat / 2 : ℕ) : ℤ) + 1))
      congr 2; omega
    · have hneg : d < 0 := by omega
      right; right
      refine ⟨hneg, by omega, ?_⟩
      show ev τ (alpha u w d) = - ev τ (alpha u w (2 * (((-d).toNat / 2 : ℕ) : ℤ) + 1))
      rw [ev_alpha_neg τ u w hw d hneg]
      congr 3; omega

/-- eb_mul_rtnaf_imp (width 4): right-to-left τ-adic loop -/
theorem mulTnafRtl4_spec (hτ : τ ^ 2 = (u : R) * τ - 2) (hu : u = 1 ∨ u = -1) (p : G) (ds : List Int)
    (hd : ∀ d ∈ ds, d = 0 ∨ (d % 2 ≠ 0 ∧ d.natAbs < 8)) :
    mulTnafRtl4 gops (fun x => τ • x) u p ds = (evalTau τ u 4 ds : R) • p := by
  obtain ⟨hlen, hw⟩ := bucketFold (fun (j : ℕ) => ev τ (alpha u 4 (2 * (j : ℤ) + 1))) (fun d => ev τ (alpha u 4 d)) τ
    (fun x => τ • x) (fun _ => rfl) ds (List.replicate 4 (0 : G)) p
    (fun d h => good_tau τ u 4 (by decide) _ d (by simpa using hd d h))
  rw [wsumR_replicate, zero_add] at hw
  have he : evalW (fun d => ev τ (alpha u 4 d)) τ ds = evalTau τ u 4 ds := rfl
  rw [he] at hw
  rw [← hw]
  unfold mulTnafRtl4 buckets
  simp only [gops_zero]
  generalize (ds.foldl (fun (st : List G × G) d => (bucketAdd gops st.1 d st.2, (fun x => τ • x) st.2))
    (List.replicate 4 (0 : G), p)).1 = bk at hlen ⊢
  have a0 : ∀ u : ℤ, alpha u 4 (2 * ((0 : ℕ) : ℤ) + 1) = (1, 0) := by intro u; rfl
  have a1 : ∀ u : ℤ, alpha u 4 (2 * ((0 + 1 : ℕ) : ℤ) + 1) = (-3, u) := by intro u; rfl
  have a2 : ∀ u : ℤ, alpha u 4 (2 * ((0 + 1 + 1 : ℕ) : ℤ) + 1) = (-1, u) := by intro u; rfl
  have a3 : ∀ u : ℤ, alpha u 4 (2 * ((0 + 1 + 1 + 1 : ℕ) : ℤ) + 1) = (1, u) := by intro u; rfl
  match bk, hlen with
  | [a, b, c, d], _ =>
    simp only [List.getD_cons_zero, List.getD_cons_succ, gops_add, gops_sub, gops_neg, wsumR, a0, a1, a2, a3, ev]
    rw [frb3 τ u hτ, frb2 τ u hτ, frb2 τ u hτ]
    rcases hu with rfl | rfl <;> norm_num <;> module

/-- a digit string that denotes k modulo τ^m - 1 multiplies a point fixed by τ^m (every point of E(GF(2^m))) by k -/
theorem kbltz_mul_correct (m w : Nat) (p : G) (hfix : (τ ^ m - 1 : R) • p = 0) (k : ℕ) (ds : List Int)
    (hk : ∃ ρ : R, (k : R) = evalTau τ u w ds + (τ ^ m - 1) * ρ) :
    (evalTau τ u w ds : R) • p = (k : ℤ) • p := by
  obtain ⟨ρ, hρ⟩ := hk
  rw [natCast_zsmul, ← Nat.cast_smul_eq_nsmul R k p, hρ, add_smul, mul_comm, mul_smul, hfix, smul_zero, add_zero]

end Relic.Lemmas.EbMul
