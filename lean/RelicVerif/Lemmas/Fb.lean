/-
The binary-field algorithms of Model/Fb.lean compute the polynomial arithmetic of Spec/Gf2.lean, for all inputs:
López-Dahab comb = product, Karatsuba = product, table squaring = a·a, digit-wise folding = remainder modulo f,
shift-and-add with interleaved reduction = a·b mod f, the inversion chains = the power a^(2^m - 2) in any commutative monoid.
-/
import Mathlib.Tactic.Ring
import Mathlib.Tactic.Linarith
import Mathlib.Tactic.LinearCombination
import Mathlib.Tactic.IntervalCases
import Mathlib.Algebra.Group.Basic
import Mathlib.Algebra.Group.Defs
import Mathlib.Data.List.GetD
import RelicVerif.Lemmas.Gf2Poly
import RelicVerif.Lemmas.BinFast
import RelicVerif.Model.Fb

namespace Relic.Lemmas.Fb
open Relic.Spec.Gf2 Relic.Model.Fb Relic.Model.BinFast Relic.Lemmas.Gf2Poly Relic.Lemmas.BinFast

/-! ### bit-level helpers -/

/-- a % 2^(s+w) is a % 2^s plus the next w bits -/
theorem mod_two_pow_add (a s w : Nat) :
    a % 2 ^ (s + w) = a % 2 ^ s ^^^ (((a >>> s) % 2 ^ w) <<< s) := by
  apply Nat.eq_of_testBit_eq; intro i
  rw [Nat.testBit_xor, Nat.testBit_mod_two_pow, Nat.testBit_mod_two_pow, Nat.testBit_shiftLeft,
    Nat.testBit_mod_two_pow, Nat.testBit_shiftRight]
  by_cases h : i < s
  · have h1 : i < s + w := by omega
    have h2 : ¬ i ≥ s := by omega
    simp [h, h1, h2]
  · have h3 : s + (i - s) = i := by omega
    have h2 : i ≥ s := by omega
    rw [h3]
    by_cases h1 : i < s + w
    · have : i - s < w := by omega
      simp [h, h1, h2, this]
    · have : ¬ i - s < w := by omega
      simp [h, h1, h2, this]

theorem split_lo_hi (a s : Nat) : a = (a % 2 ^ s) ^^^ ((a >>> s) <<< s) := by
  apply Nat.eq_of_testBit_eq; intro i
  rw [Nat.testBit_xor, Nat.testBit_mod_two_pow, Nat.testBit_shiftLeft, Nat.testBit_shiftRight]
  by_cases h : i < s
  · have h2 : ¬ i ≥ s := by omega
    simp [h, h2]
  · have h3 : s + (i - s) = i := by omega
    have h2 : i ≥ s := by omega
    simp [h, h2, h3]

theorem digits_fold (w a n : Nat) :
    (List.range n).foldl (fun c j => c ^^^ (digitOf w a j <<< (w * j))) 0 = a % 2 ^ (w * n) := by
  induction n with
  | zero => simp [Nat.mod_one]
  | succ n ih =>
    rw [List.range_succ, List.foldl_append]
    simp only [List.foldl_cons, List.foldl_nil]
    rw [ih, Nat.mul_succ, mod_two_pow_add]
    rfl

/-- a is the xor of its digits -/
theorem digits_sum (w n a : Nat) (ha : a < 2 ^ (w * n)) :
    (List.range n).foldl (fun c j => c ^^^ (digitOf w a j <<< (w * j))) 0 = a := by
  rw [digits_fold, Nat.mod_eq_of_lt ha]

theorem clmul_zero_left (b : Nat) : clmul 0 b = 0 := by rw [clmul_comm, clmul_zero]
theorem clmul_one_left (b : Nat) : clmul 1 b = b := by rw [clmul_comm, clmul_one]

/-! ### López-Dahab comb -/

/-- Σ_j φ(digit j of a) · z^(w j) -/
def digitSum (w a : Nat) (φ : Nat → Nat) (n : Nat) : Nat :=
  (List.range n).foldl (fun c j => c ^^^ (φ (digitOf w a j) <<< (w * j))) 0

theorem digitSum_succ (w a : Nat) (φ : Nat → Nat) (n : Nat) :
    digitSum w a φ (n + 1) = digitSum w a φ n ^^^ (φ (digitOf w a n) <<< (w * n)) := by
  unfold digitSum
  rw [List.range_succ, List.foldl_append]; rfl

theorem digitSum_xor (w a : Nat) (φ ψ : Nat → Nat) (n : Nat) :
    digitSum w a φ n ^^^ digitSum w a ψ n = digitSum w a (fun d => φ d ^^^ ψ d) n := by
  induction n with
  | zero => simp [digitSum]
  | succ n ih =>
    rw [digitSum_succ, digitSum_succ, digitSum_succ, ← ih]
    apply toPoly_injective; simp only [toPoly_xor, toPoly_shiftLeft]; ring

theorem digitSum_shiftLeft (w a : Nat) (φ : Nat → Nat) (t n : Nat) :
    digitSum w a φ n <<< t = digitSum w a (fun d => φ d <<< t) n := by
  induction n with
  | zero => simp [digitSum]
  | succ n ih =>
    rw [digitSum_succ, digitSum_succ, ← ih]
    apply toPoly_injective; simp only [toPoly_xor, toPoly_shiftLeft]; ring

theorem digitSum_zero (w a : Nat) (φ : Nat → Nat) (n : Nat) (h : ∀ j, φ (digitOf w a j) = 0) :
    digitSum w a φ n = 0 := by
  induction n with
  | zero => simp [digitSum]
  | succ n ih => rw [digitSum_succ, ih, h]; simp

theorem combRow_eq (w n a b k c : Nat) :
    combRow w n (tab16 b) a k c = c ^^^ clmul (digitSum w a (fun d => (d >>> (4 * k)) % 16) n) b := by
  unfold combRow
  induction n with
  | zero => simp [digitSum, clmul_zero_left]
  | succ n ih =>
    rw [List.range_succ, List.foldl_append]
    simp only [List.foldl_cons, List.foldl_nil]
    rw [ih, digitSum_succ, tab16_getD _ _ (Nat.mod_lt _ (by norm_num)), clmul_xor_left, clmul_shiftLeft_left,
      clmul_comm b, Nat.xor_assoc]

theorem lodah_loop (w n a b : Nat) (hw : w = 4 * (w / 4)) : ∀ i, i + 1 ≤ w / 4 →
    (List.range i).foldl (fun c i => combRow w n (tab16 b) a (w / 4 - 1 - i) c <<< 4) 0
      = clmul (digitSum w a (fun d => (d >>> (4 * (w / 4 - i))) <<< 4) n) b := by
  intro i
  induction i with
  | zero =>
    intro _
    rw [digitSum_zero, clmul_zero_left]; · rfl
    intro j
    have : digitOf w a j < 2 ^ w := Nat.mod_lt _ (Nat.two_pow_pos w)
    rw [Nat.sub_zero, ← hw, Nat.shiftRight_eq_div_pow, Nat.div_eq_of_lt this]; rfl
  | succ i ih =>
    intro hi
    rw [List.range_succ, List.foldl_append]
    simp only [List.foldl_cons, List.foldl_nil]
    rw [ih (by omega), combRow_eq, ← clmul_xor_left, ← clmul_shiftLeft_left, digitSum_xor, digitSum_shiftLeft]
    congr 2
    funext d
    rw [show w / 4 - (i + 1) = w / 4 - 1 - i by omega, show 4 * (w / 4 - i) = 4 * (w / 4 - 1 - i) + 4 by omega,
      Nat.shiftRight_add, Nat.xor_comm]
    congr 1
    exact (split_lo_hi _ 4).symm

/-- fb_muln_low / fb_muld_low: the comb with 4-bit windows is the product, for every a of n digits of w bits (4 ∣ w) and every b -/
theorem mulLodah_eq (w n a b : Nat) (hw : 4 ∣ w) (hw0 : 0 < w) (ha : a < 2 ^ (w * n)) : mulLodah w n a b = clmul a b := by
  have hw4 : w = 4 * (w / 4) := (Nat.mul_div_cancel' hw).symm
  unfold mulLodah
  simp only
  rw [lodah_loop w n a b hw4 (w / 4 - 1) (by omega), combRow_eq, ← clmul_xor_left, digitSum_xor]
  congr 1
  rw [show w / 4 - (w / 4 - 1) = 1 by omega]
  have : (fun d => (d >>> (4 * 1)) <<< 4 ^^^ (d >>> (4 * 0)) % 16) = fun d => d := by
    funext d
    rw [Nat.xor_comm]
    exact (split_lo_hi d 4).symm
  rw [this]
  exact digits_sum w n a ha

/-! ### Karatsuba -/

theorem two_eq_zero_poly : (2 : Polynomial (ZMod 2)) = 0 := CharTwo.two_eq_zero

/-- fb_mul_karat_imp, one level, with any correct half-size product -/
theorem mulKarat_eq (mul : Nat → Nat → Nat) (hmul : ∀ x y, mul x y = clmul x y) (w n a b : Nat) :
    mulKarat mul w n a b = clmul a b := by
  unfold mulKarat
  simp only [hmul]
  rw [show 2 * w * (n / 2) = 2 * (w * (n / 2)) by ring]
  generalize w * (n / 2) = s
  conv_rhs => rw [split_lo_hi a s, split_lo_hi b s]
  generalize a % 2 ^ s = a0
  generalize a >>> s = a1
  generalize b % 2 ^ s = b0
  generalize b >>> s = b1
  apply toPoly_injective
  simp only [toPoly_xor, toPoly_shiftLeft, toPoly_clmul]
  linear_combination (Polynomial.X ^ s * (toPoly a0 * toPoly b0 + toPoly a1 * toPoly b1)) * two_eq_zero_poly

/-! ### squaring by bit spreading -/

/-- the table entry spreads the bits of a nibble -/
theorem spread4_eq (u : Nat) (hu : u < 16) : spread4 u = clmul u u := by
  interval_cases u <;> decide +kernel

theorem mod_nibble (a n : Nat) :
    a % 2 ^ (4 * (n + 1)) = a % 2 ^ (4 * n) ^^^ (((a >>> (4 * n)) % 16) <<< (4 * n)) := by
  rw [Nat.mul_succ, mod_two_pow_add]; rfl

theorem sq_xor (x y : Nat) : clmul (x ^^^ y) (x ^^^ y) = clmul x x ^^^ clmul y y := by
  apply toPoly_injective
  simp only [toPoly_clmul, toPoly_xor]
  exact CharTwo.add_mul_self _ _

theorem sq_shiftLeft (x k : Nat) : clmul (x <<< k) (x <<< k) = clmul x x <<< (2 * k) := by
  apply toPoly_injective
  simp only [toPoly_clmul, toPoly_shiftLeft]; ring

theorem sqrTable_fold (nn a : Nat) : sqrTable nn a = clmul (a % 2 ^ (4 * nn)) (a % 2 ^ (4 * nn)) := by
  unfold sqrTable
  induction nn with
  | zero => simp [Nat.mod_one, clmul_zero]
  | succ n ih =>
    rw [List.range_succ, List.foldl_append]
    simp only [List.foldl_cons, List.foldl_nil]
    rw [ih, mod_nibble, sq_xor, sq_shiftLeft, ← spread4_eq _ (Nat.mod_lt _ (by norm_num)),
      show 8 * n = 2 * (4 * n) by ring]

/-- fb_sqrl_low: squaring by the spreading table, a of nn nibbles -/
theorem sqrTable_eq (nn a : Nat) (ha : a < 2 ^ (4 * nn)) : sqrTable nn a = clmul a a := by
  rw [sqrTable_fold, Nat.mod_eq_of_lt ha]

/-! ### fast reduction -/

/-- the low part Σ_{e ∈ exps} z^e of the modulus -/
def lowPart (exps : List Nat) : Nat := exps.foldl (fun acc e => acc ^^^ (1 <<< e)) 0

theorem lowPart_fold (exps : List Nat) : ∀ init,
    exps.foldl (fun acc e => acc ^^^ (1 <<< e)) init = init ^^^ lowPart exps := by
  unfold lowPart
  induction exps with
  | nil => intro init; simp
  | cons e r ih =>
    intro init
    rw [List.foldl_cons, List.foldl_cons, ih, ih (0 ^^^ 1 <<< e), Nat.zero_xor, Nat.xor_assoc]

theorem lowPart_cons (e : Nat) (r : List Nat) : lowPart (e :: r) = (1 <<< e) ^^^ lowPart r := by
  show (e :: r).foldl _ 0 = _
  rw [List.foldl_cons, lowPart_fold, Nat.zero_xor]

theorem lowPart_lt (m : Nat) (exps : List Nat) (h : ∀ e ∈ exps, e < m) : lowPart exps < 2 ^ m := by
  induction exps with
  | nil => simp [lowPart]
  | cons e r ih =>
    rw [lowPart_cons]
    apply Nat.xor_lt_two_pow
    · rw [Nat.one_shiftLeft]; exact Nat.pow_lt_pow_right (by norm_num) (h e (by simp))
    · exact ih (fun e' he' => h e' (by simp [he']))

theorem foldDigit_eq (exps : List Nat) (d pos : Nat) : ∀ t,
    foldDigit exps d pos t = t ^^^ clmul (d <<< pos) (lowPart exps) := by
  unfold foldDigit
  induction exps with
  | nil => intro t; simp [lowPart, clmul_zero]
  | cons e r ih =>
    intro t
    rw [List.foldl_cons, ih, lowPart_cons, clmul_xor_right, Nat.one_shiftLeft, clmul_two_pow, ← Nat.shiftLeft_add,
      Nat.xor_assoc]

/-- removing d·z^(pos+m) and adding d·z^pos·(Σ z^e) adds the multiple d·z^pos·f -/
theorem foldDigit_modulus (exps : List Nat) (m d pos x : Nat) :
    foldDigit exps d pos (x ^^^ (d <<< (pos + m))) = x ^^^ clmul (d <<< pos) ((1 <<< m) ^^^ lowPart exps) := by
  rw [foldDigit_eq, clmul_xor_right, Nat.one_shiftLeft, clmul_two_pow, ← Nat.shiftLeft_add, Nat.xor_assoc]

theorem foldDigit_lt (exps : List Nat) (d pos N : Nat) (h : ∀ e ∈ exps, d <<< (pos + e) < 2 ^ N) : ∀ t, t < 2 ^ N →
    foldDigit exps d pos t < 2 ^ N := by
  unfold foldDigit
  induction exps with
  | nil => intro t ht; simpa using ht
  | cons e r ih =>
    intro t ht
    rw [List.foldl_cons]
    exact ih (fun e' he' => h e' (by simp [he'])) _ (Nat.xor_lt_two_pow ht (h e (by simp)))

theorem shiftLeft_lt_two_pow {d w k N : Nat} (hd : d < 2 ^ w) (h : w + k ≤ N) : d <<< k < 2 ^ N := by
  rw [Nat.shiftLeft_eq]
  calc d * 2 ^ k < 2 ^ w * 2 ^ k := Nat.mul_lt_mul_of_pos_right hd (Nat.two_pow_pos k)
    _ = 2 ^ (w + k) := by rw [Nat.pow_add]
    _ ≤ 2 ^ N := Nat.pow_le_pow_right (by norm_num) h

theorem digitOf_lt (w a j : Nat) : digitOf w a j < 2 ^ w := Nat.mod_lt _ (Nat.two_pow_pos w)

/-- removing the top digit -/
theorem xor_top_digit (w x i : Nat) (hx : x < 2 ^ (w * i + w)) : x ^^^ (digitOf w x i <<< (w * i)) = x % 2 ^ (w * i) := by
  have h := mod_two_pow_add x (w * i) w
  rw [Nat.mod_eq_of_lt hx] at h
  conv_lhs => lhs; rw [h]
  unfold digitOf
  rw [Nat.xor_assoc, Nat.xor_self, Nat.xor_zero]

theorem rdc_loop (w n m : Nat) (exps : List Nat) (f t : Nat) (hf0 : f ≠ 0)
    (hf : f = (1 <<< m) ^^^ lowPart exps) (he : ∀ e ∈ exps, e + w ≤ m) (ht : t < 2 ^ (w * (2 * n)))
    (q : Nat) (hmw : m < w * (q + 1)) :
    ∀ k, k ≤ 2 * n - (q + 1) →
      (List.range k).foldl (fun t idx =>
        let i := 2 * n - 1 - idx
        let d := digitOf w t i
        foldDigit exps d (w * i - m) (t ^^^ (d <<< (w * i)))) t < 2 ^ (w * (2 * n - k)) ∧
      pmod ((List.range k).foldl (fun t idx =>
        let i := 2 * n - 1 - idx
        let d := digitOf w t i
        foldDigit exps d (w * i - m) (t ^^^ (d <<< (w * i)))) t) f = pmod t f := by
  intro k
  induction k with
  | zero => intro _; exact ⟨by simpa using ht, by simp⟩
  | succ k ih =>
    intro hk
    obtain ⟨h1, h2⟩ := ih (by omega)
    rw [List.range_succ, List.foldl_append]
    simp only [List.foldl_cons, List.foldl_nil]
    generalize (List.range k).foldl _ t = x at h1 h2 ⊢
    -- i = 2n - 1 - k ≥ m / w + 1, so w i > m
    have hi : q + 1 ≤ 2 * n - 1 - k := by omega
    have hwi : m < w * (2 * n - 1 - k) := lt_of_lt_of_le hmw (Nat.mul_le_mul_left w hi)
    have hnk : 2 * n - k = (2 * n - 1 - k) + 1 := by omega
    have hnk' : 2 * n - (k + 1) = 2 * n - 1 - k := by omega
    rw [hnk, Nat.mul_succ] at h1
    rw [hnk']
    generalize 2 * n - 1 - k = i at *
    constructor
    · apply foldDigit_lt
      · intro e hee
        apply shiftLeft_lt_two_pow (digitOf_lt w x i)
        have := he e hee
        omega
      · rw [xor_top_digit w x i h1]
        exact Nat.mod_lt _ (Nat.two_pow_pos _)
    · conv_lhs => rw [show w * i = (w * i - m) + m by omega]
      rw [show w * i - m + m - m = w * i - m by omega, foldDigit_modulus, ← hf, pmod_xor_clmul _ _ _ hf0, h2]

set_option linter.unusedVariables false in
/-- fb_rdcn_low: digit-wise folding modulo f = z^m + Σ_{e ∈ exps} z^e is the remainder, for every double-length input;
    the exponents are small enough that a folded digit lands below the digit it came from (e + w ≤ m) -/
theorem rdcQuick_eq (w n m : Nat) (exps : List Nat) (f t : Nat) (hw : 0 < w) (hn : m < w * n) (hm : w ≤ m)
    (hf : f = exps.foldl (fun acc e => acc ^^^ (1 <<< e)) (1 <<< m)) (hnd : exps.Nodup)
    (he : ∀ e ∈ exps, e + w ≤ m) (ht : t < 2 ^ (2 * w * n)) :
    rdcQuick w n m exps t = pmod t f := by
  rw [lowPart_fold] at hf
  have hlow : lowPart exps < 2 ^ m := lowPart_lt m exps (fun e hee => by have := he e hee; omega)
  have hfm : f.testBit m = true := by
    rw [hf, Nat.testBit_xor, Nat.one_shiftLeft, Nat.testBit_two_pow_self, Nat.testBit_lt_two_pow hlow]; rfl
  have hf0 : f ≠ 0 := by rintro rfl; simp at hfm
  have hbl : m < bitLen f := by
    by_contra hc
    have := (bitLen_le_iff f m).1 (by omega)
    rw [Nat.testBit_lt_two_pow this] at hfm; exact absurd hfm (by simp)
  have hq : m / w < n := (Nat.div_lt_iff_lt_mul hw).2 (by rw [Nat.mul_comm]; exact hn)
  have hmw := Nat.div_add_mod m w
  have hmod := Nat.mod_lt m hw
  unfold rdcQuick
  simp only
  generalize m / w = q at *
  obtain ⟨h1, h2⟩ := rdc_loop w n m exps f t hf0 hf he (by rwa [show w * (2 * n) = 2 * w * n by ring])
    q (by rw [Nat.mul_succ]; omega) (2 * n - (q + 1)) le_rfl
  generalize (List.range (2 * n - (q + 1))).foldl _ t = x at h1 h2 ⊢
  rw [show 2 * n - (2 * n - (q + 1)) = q + 1 by omega, Nat.mul_succ] at h1
  rw [Nat.add_sub_cancel]
  -- the remaining high part is x >>> m
  have hd : digitOf w x q >>> (m % w) = x >>> m := by
    unfold digitOf
    rw [Nat.mod_eq_of_lt, ← Nat.shiftRight_add, hmw]
    rw [Nat.shiftRight_eq_div_pow, Nat.div_lt_iff_lt_mul (Nat.two_pow_pos _), ← Nat.pow_add, Nat.add_comm]
    exact h1
  have hdlt : x >>> m < 2 ^ w := by
    rw [← hd]
    exact lt_of_le_of_lt (by rw [Nat.shiftRight_eq_div_pow]; exact Nat.div_le_self _ _) (digitOf_lt w x q)
  rw [hd]
  have hval : pmod (foldDigit exps (x >>> m) 0 (x ^^^ (x >>> m) <<< m)) f = pmod t f := by
    have := foldDigit_modulus exps m (x >>> m) 0 x
    rw [Nat.zero_add] at this
    rw [this, ← hf, pmod_xor_clmul _ _ _ hf0, h2]
  have hlt : foldDigit exps (x >>> m) 0 (x ^^^ (x >>> m) <<< m) < 2 ^ m := by
    apply foldDigit_lt
    · intro e hee
      apply shiftLeft_lt_two_pow hdlt
      have := he e hee
      omega
    · have h := split_lo_hi x m
      conv_lhs => lhs; rw [h]
      rw [Nat.xor_assoc, Nat.xor_self, Nat.xor_zero]
      exact Nat.mod_lt _ (Nat.two_pow_pos _)
  rw [← hval]
  exact (pmod_of_bitLen_lt _ _ (lt_of_le_of_lt ((bitLen_le_iff _ _).2 hlt) hbl)).symm

/-! ### shift-and-add -/

theorem shiftRight_mod_two (a i : Nat) : (a >>> i) % 2 ^ 1 = if a.testBit i then 1 else 0 := by
  rw [Nat.testBit_eq_decide_div_mod_eq, Nat.shiftRight_eq_div_pow]
  by_cases h : a / 2 ^ i % 2 = 1
  · simp [h]
  · simp [h]; omega

theorem pmod_shiftLeft_one (x f : Nat) (hf : f ≠ 0) : pmod (pmod x f <<< 1) f = pmod (x <<< 1) f := by
  rw [← clmul_two_pow, ← clmul_two_pow, pmod_clmul_pmod_left _ _ _ hf]

theorem mulBasic_loop (f : Nat) (hf : f ≠ 0) (rdc : Nat → Nat) (hrdc : ∀ x, rdc x = pmod x f) (a b : Nat) (hb : pmod b f = b) :
    ∀ k, (List.range k).foldl (fun (st : Nat × Nat) i =>
        let s := rdc (st.1 <<< 1)
        (s, if a.testBit (i + 1) then st.2 ^^^ s else st.2)) (b, if a % 2 = 1 then b else 0)
      = (pmod (b <<< k) f, pmod (clmul (a % 2 ^ (k + 1)) b) f) := by
  intro k
  induction k with
  | zero =>
    simp only [List.range_zero, List.foldl_nil, Nat.shiftLeft_zero, hb, Nat.zero_add, Nat.pow_one]
    congr 1
    by_cases h : a % 2 = 1
    · rw [if_pos h, h, clmul_one_left, hb]
    · have h0 : a % 2 = 0 := by omega
      rw [if_neg h, h0, clmul_zero_left]; simp [pmod, bitLen]
  | succ k ih =>
    rw [List.range_succ, List.foldl_append]
    simp only [List.foldl_cons, List.foldl_nil]
    rw [ih]
    simp only [hrdc]
    rw [pmod_shiftLeft_one _ _ hf, ← Nat.shiftLeft_add]
    congr 1
    rw [mod_two_pow_add a (k + 1) 1, shiftRight_mod_two, clmul_xor_left, pmod_xor _ _ _ hf]
    by_cases h : a.testBit (k + 1)
    · simp only [h, if_true]
      rw [clmul_shiftLeft_left, clmul_one_left]
    · simp only [h]
      simp [clmul_zero_left, pmod, bitLen]

/-- fb_mul_basic with any correct reduction -/
theorem mulBasic_eq (F : Field) (hF : F.wellFormed = true) (rdc : Nat → Nat) (hrdc : ∀ x, rdc x = pmod x F.f)
    (a b : Nat) (ha : a < 2 ^ F.m) (hb : b < 2 ^ F.m) : mulBasic F rdc a b = F.mul a b := by
  unfold Field.wellFormed at hF
  simp only [Bool.and_eq_true, beq_iff_eq, decide_eq_true_eq] at hF
  obtain ⟨⟨h1, _⟩, h3⟩ := hF
  have hf0 : F.f ≠ 0 := by intro h; rw [h] at h1; simp [bitLen] at h1
  have hb' : pmod b F.f = b := pmod_of_bitLen_lt _ _ (by have := (bitLen_le_iff b F.m).2 hb; omega)
  unfold mulBasic
  simp only
  rw [mulBasic_loop F.f hf0 rdc hrdc a b hb' (F.m - 1)]
  simp only
  rw [show F.m - 1 + 1 = F.m by omega, Nat.mod_eq_of_lt ha]
  have := bitLen_pmod_lt (clmul a b) F.f hf0
  rw [if_neg (by omega)]
  rfl

/-! ### table-driven linear maps -/

theorem itrTable_fold (g : Nat → Nat) (hg0 : g 0 = 0) (hg : ∀ x y, g (x ^^^ y) = g x ^^^ g y) (nn a : Nat) :
    itrTable (fun i u => g (u <<< (4 * i))) nn a = g (a % 2 ^ (4 * nn)) := by
  unfold itrTable
  induction nn with
  | zero => simp [Nat.mod_one, hg0]
  | succ n ih =>
    rw [List.range_succ, List.foldl_append]
    simp only [List.foldl_cons, List.foldl_nil]
    rw [ih, mod_nibble, hg]

/-- fb_itrn_low: a table of the images of u·z^(4i) under an additive map g evaluates g (e.g. g = a ↦ a^(2^b) mod f) -/
theorem itrTable_eq (g : Nat → Nat) (hg0 : g 0 = 0) (hg : ∀ x y, g (x ^^^ y) = g x ^^^ g y) (nn a : Nat) (ha : a < 2 ^ (4 * nn)) :
    itrTable (fun i u => g (u <<< (4 * i))) nn a = g a := by
  rw [itrTable_fold g hg0 hg, Nat.mod_eq_of_lt ha]

/-! ### inversion chains in a commutative monoid -/

section chains
variable {M : Type} [CommMonoid M]

def monoidOps : MOps M := ⟨1, (· * ·)⟩

theorem sqrN_pow (n : Nat) (a : M) : MOps.sqrN (monoidOps : MOps M) n a = a ^ (2 ^ n) := by
  induction n generalizing a with
  | zero => simp [MOps.sqrN]
  | succ n ih =>
    show MOps.sqrN monoidOps n (a * a) = _
    rw [ih, ← pow_two, ← pow_mul, pow_succ']

theorem invBasicChain_go (a : M) : ∀ (fuel x eu ev : Nat),
    invBasicChain.go (monoidOps : MOps M) fuel x (a ^ eu) (a ^ ev) = a ^ invBasicExp.go fuel x eu ev := by
  intro fuel
  induction fuel with
  | zero => intro x eu ev; rfl
  | succ fuel ih =>
    intro x eu ev
    unfold invBasicChain.go invBasicExp.go
    by_cases hx : x = 0
    · simp [hx]
    · simp only [hx, if_false]
      have hu : (monoidOps : MOps M).mul (a ^ eu) (MOps.sqrN monoidOps x (a ^ eu)) = a ^ (eu + eu * 2 ^ x) := by
        show a ^ eu * _ = _
        rw [sqrN_pow, ← pow_mul, ← pow_add]
      rw [hu]
      by_cases hp : x % 2 = 0
      · simp only [hp, if_true]; exact ih _ _ _
      · simp only [hp, if_false]
        have h1 : (monoidOps : MOps M).sqr (a ^ (eu + eu * 2 ^ x)) = a ^ (2 * (eu + eu * 2 ^ x)) := by
          show _ * _ = _
          rw [← pow_add, two_mul]
        have h2 : (monoidOps : MOps M).mul (a ^ ev) (a ^ (eu + eu * 2 ^ x)) = a ^ (ev + (eu + eu * 2 ^ x)) := by
          show _ * _ = _
          rw [← pow_add]
        rw [h1, h2]; exact ih _ _ _

/-- fb_inv_basic raises a to the exponent computed by the same loop on integers … -/
theorem invBasicChain_eq (m : Nat) (a : M) : invBasicChain (monoidOps : MOps M) m a = a ^ invBasicExp m := by
  unfold invBasicChain invBasicExp
  have h1 : (monoidOps : MOps M).sqr a = a ^ 2 := by show a * a = _; rw [pow_two]
  have h2 : (monoidOps : MOps M).one = a ^ 0 := by show (1 : M) = _; rw [pow_zero]
  rw [h1, h2]; exact invBasicChain_go a _ _ _ _

/-- … which is 2^m - 2 for the configured degrees (the loop depends on m only) -/
theorem invBasicExp_283 : invBasicExp 283 = 2 ^ 283 - 2 := by
  decide +kernel

theorem invBasicExp_233 : invBasicExp 233 = 2 ^ 233 - 2 := by
  decide +kernel

/-- a chain entry (x << 8) + y creating table index k is usable when x, y < k and, if x = y, x is the last index k - 1 -/
def ChainValid (chain : List Nat) : Prop :=
  ∀ (i : Nat) (hi : i < chain.tail.length),
    chain.tail[i] / 256 < i + 2 ∧ chain.tail[i] % 256 < i + 2 ∧
      (chain.tail[i] / 256 = chain.tail[i] % 256 → chain.tail[i] / 256 = i + 1)

instance (chain : List Nat) : Decidable (ChainValid chain) := by unfold ChainValid; infer_instance

/-- the loop body of `invItohtChain` -/
def itohtStep (o : MOps M) (a : M) (st : List M × List Nat) (ch : Nat) : List M × List Nat :=
  let x := ch / 256
  let y := ch % 256
  let ui := if x = y then 2 * st.2.getLastD 0 else st.2.getD x 0 + st.2.getD y 0
  let ti := o.mul (o.sqrN (st.2.getD y 0) (st.1.getD x a)) (st.1.getD y a)
  (st.1 ++ [ti], st.2 ++ [ui])

omit [CommMonoid M] in
theorem invItohtChain_unfold (o : MOps M) (chain : List Nat) (a : M) :
    invItohtChain o chain a =
      (o.sqr ((chain.tail.foldl (itohtStep o a) ([a, o.mul (o.sqr a) a], [1, 2])).1.getLastD a),
        (chain.tail.foldl (itohtStep o a) ([a, o.mul (o.sqr a) a], [1, 2])).2.getLastD 0) := rfl

/-- table invariant: k entries, entry i is a^(2^(u_i) - 1) -/
def ItohtInv (a : M) (st : List M × List Nat) (k : Nat) : Prop :=
  st.1.length = k ∧ st.2.length = k ∧ ∀ i, i < k → st.1.getD i a = a ^ (2 ^ (st.2.getD i 0) - 1)

theorem getLastD_eq_getD {α : Type} (l : List α) (d : α) : l.getLastD d = l.getD (l.length - 1) d := by
  rw [List.getLastD_eq_getLast?, List.getLast?_eq_getElem?, List.getD_eq_getElem?_getD]

theorem pow_two_sub_one_mul (ux uy : Nat) : (2 ^ ux - 1) * 2 ^ uy + (2 ^ uy - 1) = 2 ^ (ux + uy) - 1 := by
  rw [pow_add]
  obtain ⟨p, hp⟩ := Nat.exists_eq_add_of_le (Nat.one_le_two_pow (n := ux))
  obtain ⟨q, hq⟩ := Nat.exists_eq_add_of_le (Nat.one_le_two_pow (n := uy))
  rw [hp, hq]
  have h1 : 1 + p - 1 = p := by omega
  have h2 : 1 + q - 1 = q := by omega
  have h3 : (1 + p) * (1 + q) - 1 = p * (1 + q) + q := by
    have : (1 + p) * (1 + q) = p * (1 + q) + q + 1 := by ring
    omega
  rw [h1, h2, h3]

theorem itohtStep_inv (a : M) (st : List M × List Nat) (k ch : Nat) (h : ItohtInv a st k) (hk : 0 < k)
    (hx : ch / 256 < k) (hy : ch % 256 < k) (hxy : ch / 256 = ch % 256 → ch / 256 + 1 = k) :
    ItohtInv a (itohtStep (monoidOps : MOps M) a st ch) (k + 1) := by
  obtain ⟨h1, h2, h3⟩ := h
  unfold itohtStep
  refine ⟨by simp [h1], by simp [h2], ?_⟩
  intro i hi
  simp only
  by_cases hik : i < k
  · rw [List.getD_append _ _ _ _ (by omega), List.getD_append _ _ _ _ (by omega)]
    exact h3 i hik
  · have hik' : i = k := by omega
    subst hik'
    rw [List.getD_append_right _ _ _ _ (by omega), List.getD_append_right _ _ _ _ (by omega), h1, h2,
      Nat.sub_self]
    simp only [List.getD_cons_zero]
    have hu : (if ch / 256 = ch % 256 then 2 * st.2.getLastD 0 else st.2.getD (ch / 256) 0 + st.2.getD (ch % 256) 0)
        = st.2.getD (ch / 256) 0 + st.2.getD (ch % 256) 0 := by
      by_cases he : ch / 256 = ch % 256
      · rw [if_pos he, getLastD_eq_getD, h2, ← he]
        have := hxy he
        rw [show i - 1 = ch / 256 by omega]; ring
      · rw [if_neg he]
    rw [hu]
    show MOps.sqrN monoidOps _ _ * _ = _
    rw [sqrN_pow, h3 _ hx, h3 _ hy, ← pow_mul, ← pow_add, pow_two_sub_one_mul]

theorem itohtFold_inv (a : M) : ∀ (l : List Nat) (st : List M × List Nat) (k : Nat), ItohtInv a st k → 0 < k →
    (∀ (i : Nat) (hi : i < l.length), l[i] / 256 < i + k ∧ l[i] % 256 < i + k ∧
      (l[i] / 256 = l[i] % 256 → l[i] / 256 + 1 = i + k)) →
    ItohtInv a (l.foldl (itohtStep (monoidOps : MOps M) a) st) (k + l.length) := by
  intro l
  induction l with
  | nil => intro st k h _ _; simpa using h
  | cons ch rest ih =>
    intro st k h hk hl
    rw [List.foldl_cons, List.length_cons, show k + (rest.length + 1) = (k + 1) + rest.length by omega]
    have h0 := hl 0 (by simp)
    simp only [List.getElem_cons_zero, Nat.zero_add] at h0
    apply ih _ _ (itohtStep_inv a st k ch h hk h0.1 h0.2.1 h0.2.2) (by omega)
    intro i hi
    have := hl (i + 1) (by simp; omega)
    simp only [List.getElem_cons_succ] at this
    rw [show i + (k + 1) = i + 1 + k by omega]
    exact this

/-- fb_inv_itoht: for any valid chain, the result is a^(2·(2^u - 1)) where u is the last chain value the function itself
    computes (the driver checks u = m - 1 for the chain the library reports).
    CORRECTED STATEMENT: the hypothesis `ChainValid chain` was added. Without it the statement is false:
    * an index out of range reads the default a with u = 0: chain = [0, 5·256 + 0] gives u = 0 + 1 = 1 and the value
      (a² · a)² = a^6, not a^(2·(2^1 - 1)) = a^2;
    * an entry with x = y that is not the last index gets u = 2·u_last instead of 2·u_x: chain = [0, 256, 0] gives the
      table a, a^3, a^7 (u = 1, 2, 3), then x = y = 0 gives a^2·a = a^3 with u = 2·3 = 6: result a^6, not a^(2·(2^6 - 1)). -/
theorem invItohtChain_eq (chain : List Nat) (a : M) (hchain : ChainValid chain) :
    (invItohtChain (monoidOps : MOps M) chain a).1 = a ^ (2 * (2 ^ (invItohtChain (monoidOps : MOps M) chain a).2 - 1)) := by
  rw [invItohtChain_unfold]
  have h0 : ItohtInv a (([a, (monoidOps : MOps M).mul ((monoidOps : MOps M).sqr a) a], [1, 2]) : List M × List Nat) 2 := by
    refine ⟨rfl, rfl, ?_⟩
    intro i hi
    interval_cases i
    · simp
    · show a * a * a = _
      simp only [List.getD_cons_succ, List.getD_cons_zero]
      rw [show 2 ^ 2 - 1 = 3 by norm_num, pow_succ, pow_two]
  have h := itohtFold_inv a chain.tail _ 2 h0 (by norm_num) (by
    intro i hi
    obtain ⟨h1, h2, h3⟩ := hchain i hi
    exact ⟨h1, h2, fun he => by have := h3 he; omega⟩)
  obtain ⟨h1, h2, h3⟩ := h
  simp only
  rw [getLastD_eq_getD, getLastD_eq_getD, h1, h2, h3 _ (by omega)]
  show _ * _ = _
  rw [← pow_add, two_mul]

end chains

end Relic.Lemmas.Fb
