/-
Proofs for Model/NtGcd.lean, part 3: bn_gcd_ext_binar (binary extended gcd).  The strip loop and the main loop are total
(the supplied fuel suffices) and keep u = A·x + B·y, v = C·x + D·y; the final cofactor-reduction loop keeps the Bezout value.
-/
import RelicVerif.Lemmas.NtGcdB

namespace Relic.Lemmas.NtGcd
open Relic.Model.NtGcd

theorem hlv_even (x : Int) (h : x % 2 = 0) : 2 * hlv x = x := by
  unfold hlv
  obtain ⟨c, rfl⟩ := Int.dvd_of_emod_eq_zero h
  rw [Int.mul_tdiv_cancel_left _ (by decide : (2 : Int) ≠ 0)]

/-- one cofactor halving keeps the represented value halved (HAC 14.61): needs x, y not both even -/
theorem halveCof_spec (x y A B val : Int) (hxy : ¬(x % 2 = 0 ∧ y % 2 = 0)) (hval : val = A * x + B * y)
    (hev : val % 2 = 0) :
    2 * ((halveCof x y A B).1 * x + (halveCof x y A B).2 * y) = val := by
  unfold halveCof
  split
  · next h =>
    have h1 := hlv_even A h.1
    have h2 := hlv_even B h.2
    simp only []
    rw [hval]; linear_combination x * h1 + y * h2
  · next h =>
    have hp : (A + y) % 2 = 0 ∧ (B - x) % 2 = 0 := by
      have eA : A = 2 * (A / 2) + A % 2 := by omega
      have eB : B = 2 * (B / 2) + B % 2 := by omega
      have ex : x = 2 * (x / 2) + x % 2 := by omega
      have ey : y = 2 * (y / 2) + y % 2 := by omega
      have key : A * x + B * y = (A % 2) * (x % 2) + (B % 2) * (y % 2) +
          2 * (2 * (A / 2) * (x / 2) + (A / 2) * (x % 2) + (A % 2) * (x / 2) +
               2 * (B / 2) * (y / 2) + (B / 2) * (y % 2) + (B % 2) * (y / 2)) := by
        conv_lhs => rw [eA, eB, ex, ey]
        ring
      have hev' : ((A % 2) * (x % 2) + (B % 2) * (y % 2)) % 2 = 0 := by
        rw [hval, key, Int.add_mul_emod_self_left] at hev; exact hev
      rcases Int.emod_two_eq_zero_or_one A with hA | hA <;> rcases Int.emod_two_eq_zero_or_one B with hB | hB <;>
        rcases Int.emod_two_eq_zero_or_one x with hx | hx <;> rcases Int.emod_two_eq_zero_or_one y with hy | hy <;>
        rw [hA, hB, hx, hy] at hev' <;> omega
    have h1 := hlv_even _ hp.1
    have h2 := hlv_even _ hp.2
    simp only []
    rw [hval]; linear_combination x * h1 + y * h2

theorem extBinarStrip_spec (x y : Int) (hxy : ¬(x % 2 = 0 ∧ y % 2 = 0)) (f u : Nat) (A B : Int)
    (hu : u ≠ 0) (hf : u ≤ f) (hinv : (u : Int) = A * x + B * y) :
    ((extBinarStrip x y f u A B).1 : Int) = (extBinarStrip x y f u A B).2.1 * x + (extBinarStrip x y f u A B).2.2 * y ∧
    (extBinarStrip x y f u A B).1 % 2 = 1 ∧ ∃ k, u = (extBinarStrip x y f u A B).1 * 2 ^ k := by
  induction f generalizing u A B with
  | zero => omega
  | succ f ih =>
    unfold extBinarStrip
    split
    · next h =>
      have hev : (u : Int) % 2 = 0 := by omega
      have hh := halveCof_spec x y A B (u : Int) hxy hinv hev
      have hu2 : ((u / 2 : Nat) : Int) = (halveCof x y A B).1 * x + (halveCof x y A B).2 * y := by
        have : (u : Int) = 2 * ((u / 2 : Nat) : Int) := by omega
        omega
      obtain ⟨i1, i2, k, i3⟩ := ih (u / 2) (halveCof x y A B).1 (halveCof x y A B).2 (by omega) (by omega) hu2
      refine ⟨i1, i2, k + 1, ?_⟩
      calc u = 2 * (u / 2) := by omega
        _ = 2 * ((extBinarStrip x y f (u / 2) (halveCof x y A B).1 (halveCof x y A B).2).1 * 2 ^ k) := by rw [← i3]
        _ = _ := by ring
    · next h => exact ⟨hinv, by omega, 0, by simp⟩

theorem extBinarMain_spec (x y : Int) (hxy : ¬(x % 2 = 0 ∧ y % 2 = 0)) (f u v : Nat) (A B C D : Int)
    (hf : 2 * (u + v) + (if v < u then 1 else 0) < f) (huodd : u % 2 = 1) (hv : v ≠ 0)
    (hu : (u : Int) = A * x + B * y) (hvv : (v : Int) = C * x + D * y) :
    ∃ g C' D', extBinarMain x y f u v A B C D = some (g, C', D') ∧ g = Nat.gcd u v ∧ (g : Int) = C' * x + D' * y := by
  induction f generalizing u v A B C D with
  | zero => omega
  | succ f ih =>
    unfold extBinarMain
    by_cases huv : u = v
    · subst huv
      simp only [if_true]
      exact ⟨u, C, D, rfl, by simp, hvv⟩
    · simp only [huv, if_false]
      by_cases hev : v % 2 = 0
      · simp only [hev, if_true]
        have hevI : (v : Int) % 2 = 0 := by omega
        have hh := halveCof_spec x y C D (v : Int) hxy hvv hevI
        have hv2 : ((v / 2 : Nat) : Int) = (halveCof x y C D).1 * x + (halveCof x y C D).2 * y := by
          have : (v : Int) = 2 * ((v / 2 : Nat) : Int) := by omega
          omega
        obtain ⟨g, C', D', h1, h2, h3⟩ := ih u (v / 2) A B (halveCof x y C D).1 (halveCof x y C D).2
          (by split at hf <;> split <;> omega) huodd (by omega) hu hv2
        refine ⟨g, C', D', h1, ?_, h3⟩
        rw [h2, gcd_half_right u (v / 2) huodd]
        congr 1; omega
      · simp only [hev, if_false]
        by_cases hlt : v < u
        · simp only [hlt, if_true]
          obtain ⟨g, C', D', h1, h2, h3⟩ := ih v u C D A B
            (by simp only [hlt, if_true] at hf; split <;> omega) (by omega) (by omega) hvv hu
          exact ⟨g, C', D', h1, by rw [h2, Nat.gcd_comm], h3⟩
        · simp only [hlt, if_false]
          have hle : u ≤ v := by omega
          have hsub : ((v - u : Nat) : Int) = (C - A) * x + (D - B) * y := by
            rw [Nat.cast_sub hle, hu, hvv]; ring
          obtain ⟨g, C', D', h1, h2, h3⟩ := ih u (v - u) A B (C - A) (D - B)
            (by simp only [hlt, if_false] at hf; split <;> omega) huodd (by omega) hu hsub
          exact ⟨g, C', D', h1, by rw [h2, Nat.gcd_sub_self_right hle], h3⟩

/-- the cofactor-reduction loop keeps C·x' + D·y' -/
theorem extBinarFix_spec (x y hA hB : Int) (f : Nat) (C D C' D' : Int)
    (h : extBinarFix x y hA hB f C D = some (C', D')) : C' * x + D' * y = C * x + D * y := by
  induction f generalizing C D with
  | zero => simp [extBinarFix] at h
  | succ f ih =>
    unfold extBinarFix at h
    split at h
    · simp only [] at h
      split at h <;> split at h <;> (rw [ih _ _ h]; ring)
    · simp only [Option.some.injEq, Prod.mk.injEq] at h
      rw [h.1, h.2]

/-- bn_gcd_ext_binar_imp on (a, b): whenever the model returns, c = gcd(a, b) and |a|·d + |b|·e = c -/
theorem gcdExtBinarImp_spec (a b c d e : Int) (h : gcdExtBinarImp a b = some (c, d, e)) :
    c = (Int.gcd a b : Int) ∧ (a.natAbs : Int) * d + (b.natAbs : Int) * e = c := by
  unfold gcdExtBinarImp at h
  by_cases ha : a = 0
  · subst ha
    simp only [if_true, Option.some.injEq, Prod.mk.injEq] at h
    obtain ⟨h1, h2, h3⟩ := h
    subst h1 h2 h3; simp
  · by_cases hb : b = 0
    · subst hb
      simp only [ha, if_false, if_true, Option.some.injEq, Prod.mk.injEq] at h
      obtain ⟨h1, h2, h3⟩ := h
      subst h1 h2 h3; simp
    · simp only [ha, hb, if_false] at h
      obtain ⟨k, c1, c2, c3, c4, c5⟩ := commonTwos_spec (a.natAbs + 1) a.natAbs b.natAbs 0 (by omega) (Nat.lt_succ_self _)
      generalize commonTwos (a.natAbs + 1) a.natAbs b.natAbs 0 = ct at h c1 c2 c3 c4 c5
      obtain ⟨xn, yn, s⟩ := ct
      simp only [] at h c1 c2 c3 c4 c5
      have hyn : yn ≠ 0 := by
        intro h0; rw [h0] at c3; simp at c3; omega
      have hxy : ¬((xn : Int) % 2 = 0 ∧ (yn : Int) % 2 = 0) := by omega
      obtain ⟨s1, s2, k2, s3⟩ := extBinarStrip_spec (xn : Int) (yn : Int) hxy (xn + 1) xn 1 0 c5 (by omega) (by ring)
      generalize extBinarStrip (xn : Int) (yn : Int) (xn + 1) xn 1 0 = st at h s1 s2 s3
      obtain ⟨un, A, B⟩ := st
      simp only [] at h s1 s2 s3
      obtain ⟨g, C, D, m1, m2, m3⟩ := extBinarMain_spec (xn : Int) (yn : Int) hxy (2 * (un + yn) + 2) un yn A B 0 1
        (by split <;> omega) s2 hyn (by rw [s1]) (by ring)
      rw [m1] at h
      simp only [] at h
      have hgg : Nat.gcd un yn = Nat.gcd xn yn := by
        rcases c4 with hx | hy
        · -- xn odd: nothing was stripped
          have : k2 = 0 := by
            rcases Nat.eq_zero_or_pos k2 with h0 | hp
            · exact h0
            · exfalso
              have : 2 ∣ xn := by
                rw [s3]; exact Dvd.dvd.mul_left (dvd_pow_self 2 (by omega)) _
              omega
          rw [this] at s3; simp at s3; rw [s3]
        · conv_rhs => rw [s3]
          exact (Nat.Coprime.gcd_mul_right_cancel _ (Nat.Coprime.pow_left k2 (coprime_two_of_odd yn hy))).symm
      have hg0 : g ≠ 0 := by
        rw [m2]; intro h0; exact hyn (Nat.eq_zero_of_gcd_eq_zero_right h0)
      simp only [hg0, if_false] at h
      cases hfix : extBinarFix ((xn : Int) / (g : Int)) ((yn : Int) / (g : Int)) (hlv ((xn : Int) / (g : Int)))
          (hlv ((yn : Int) / (g : Int))) (C.natAbs + 2) C D with
      | none => rw [hfix] at h; simp at h
      | some r =>
        obtain ⟨C', D'⟩ := r
        rw [hfix] at h
        simp only [Option.some.injEq, Prod.mk.injEq] at h
        obtain ⟨h1, h2, h3⟩ := h
        have hf := extBinarFix_spec _ _ _ _ _ _ _ _ _ hfix
        have hgx : (g : Int) ∣ (xn : Int) := by
          rw [m2, hgg]; exact Int.natCast_dvd_natCast.mpr (Nat.gcd_dvd_left _ _)
        have hgy : (g : Int) ∣ (yn : Int) := by
          rw [m2, hgg]; exact Int.natCast_dvd_natCast.mpr (Nat.gcd_dvd_right _ _)
        have ex := Int.mul_ediv_cancel' hgx
        have ey := Int.mul_ediv_cancel' hgy
        -- C'·x + D'·y = g
        have hbez : C' * (xn : Int) + D' * (yn : Int) = (g : Int) := by
          have e1 : C' * (xn : Int) + D' * (yn : Int) =
              (g : Int) * (C' * ((xn : Int) / (g : Int)) + D' * ((yn : Int) / (g : Int))) := by
            conv_lhs => rw [← ex, ← ey]
            ring
          have e2 : C * (xn : Int) + D * (yn : Int) =
              (g : Int) * (C * ((xn : Int) / (g : Int)) + D * ((yn : Int) / (g : Int))) := by
            conv_lhs => rw [← ex, ← ey]
            ring
          rw [e1, hf, ← e2, m3]
        have hk : s = k := by omega
        subst hk
        have ea : (a.natAbs : Int) = (xn : Int) * 2 ^ s := by rw [c2]; push_cast; ring
        have eb : (b.natAbs : Int) = (yn : Int) * 2 ^ s := by rw [c3]; push_cast; ring
        have ec : c = (g : Int) * 2 ^ s := by rw [← h1, Nat.shiftLeft_eq]; push_cast; ring
        constructor
        · rw [ec, Int.gcd_eq_natAbs_gcd_natAbs, c2, c3, Nat.gcd_mul_right, m2, hgg]; push_cast; ring
        · rw [ea, eb, ec, ← h2, ← h3, ← hbez]; ring

/-- bn_gcd_ext_binar: whenever the model returns (its last loop is bounded by fuel), gcd and Bezout identity hold -/
theorem gcdExtBinar_spec (a b c d e : Int) (h : gcdExtBinar a b = some (c, d, e)) :
    c = (Int.gcd a b : Int) ∧ a * d + b * e = c := by
  unfold gcdExtBinar at h
  cases hi : gcdExtBinarImp a b with
  | none => rw [hi] at h; simp at h
  | some r =>
    obtain ⟨c0, d0, e0⟩ := r
    rw [hi] at h
    simp only [Option.map_some, extSign, Option.some.injEq, Prod.mk.injEq] at h
    obtain ⟨h1, h2, h3⟩ := h
    obtain ⟨g1, g2⟩ := gcdExtBinarImp_spec a b c0 d0 e0 hi
    rw [← h1, ← h2, ← h3, natAbs_cast_mul_sign, natAbs_cast_mul_sign]
    exact ⟨g1, g2⟩

end Relic.Lemmas.NtGcd
