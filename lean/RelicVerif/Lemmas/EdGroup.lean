/-
The affine twisted-Edwards law  (x1,y1) + (x2,y2) = ((x1y2 + y1x2)/(1 + d x1x2y1y2), (y1y2 − a x1x2)/(1 − d x1x2y1y2))
on the curve a·x² + y² = 1 + d·x²·y², over an arbitrary field of characteristic ≠ 2:

* COMPLETENESS (Bernstein–Lange, "Faster addition and doubling on elliptic curves", Thm 3.3; Bernstein–Birkner–Joye–
  Lange–Peters, "Twisted Edwards curves", §6): if a is a non-zero square and d is not a square, the denominators never
  vanish on curve points — the hypothesis every formula theorem of Lemmas/EdFormulas.lean carries is always satisfied
  on the library's curve (the driver evaluates "a square, d non-square" by Euler's criterion on the running library);
* CLOSURE: the sum of two curve points is a curve point;
* neutral element (0, 1), inverse (−x, y), commutativity.
Associativity is the classical theorem that this law is the group law of the curve; it is NOT re-proved here.
-/
import RelicVerif.Lemmas.EdFormulas

namespace Relic.Lemmas.EdGroup
open Relic.Lemmas.EdFormulas

variable {F : Type} [Field F]

/-- the curve equation with explicit constants -/
def OnC (a d x y : F) : Prop := a * x ^ 2 + y ^ 2 = 1 + d * x ^ 2 * y ^ 2

/-- core of the completeness proof: with ε = d·x1·x2·y1·y2 and ε² = 1, d would be a square -/
theorem eps_sq_ne_one (s d x1 y1 x2 y2 : F) (h2 : (2 : F) ≠ 0) (hd : ∀ t : F, t ^ 2 ≠ d)
    (h1 : OnC (s ^ 2) d x1 y1) (h2' : OnC (s ^ 2) d x2 y2) : (d * x1 * x2 * y1 * y2) ^ 2 ≠ 1 := by
  intro hsq
  unfold OnC at h1 h2'
  have hxy : x1 * y1 ≠ 0 := by
    intro h
    have h0 : d * x1 * x2 * y1 * y2 = 0 := by linear_combination (d * x2 * y2) * h
    rw [h0] at hsq
    simp at hsq
  -- (s·x1 ± ε·y1)² = d·(x1·y1)²·(s·x2 ± y2)²
  have ep : (s * x1 + d * x1 * x2 * y1 * y2 * y1) ^ 2 = d * (x1 * y1) ^ 2 * (s * x2 + y2) ^ 2 := by
    linear_combination h1 - d * x1 ^ 2 * y1 ^ 2 * h2' + (y1 ^ 2 - 1) * hsq
  have em : (s * x1 - d * x1 * x2 * y1 * y2 * y1) ^ 2 = d * (x1 * y1) ^ 2 * (s * x2 - y2) ^ 2 := by
    linear_combination h1 - d * x1 ^ 2 * y1 ^ 2 * h2' + (y1 ^ 2 - 1) * hsq
  by_cases hp : s * x2 + y2 = 0
  · by_cases hm : s * x2 - y2 = 0
    · have hy2 : y2 = 0 := by
        have : 2 * y2 = 0 := by linear_combination hp - hm
        exact (mul_eq_zero.1 this).resolve_left h2
      have h0 : d * x1 * x2 * y1 * y2 = 0 := by rw [hy2]; ring
      rw [h0] at hsq
      simp at hsq
    · refine hd ((s * x1 - d * x1 * x2 * y1 * y2 * y1) / (x1 * y1 * (s * x2 - y2))) ?_
      have hne : x1 * y1 * (s * x2 - y2) ≠ 0 := mul_ne_zero hxy hm
      rw [div_pow, div_eq_iff (pow_ne_zero _ hne), em]
      ring
  · refine hd ((s * x1 + d * x1 * x2 * y1 * y2 * y1) / (x1 * y1 * (s * x2 + y2))) ?_
    have hne : x1 * y1 * (s * x2 + y2) ≠ 0 := mul_ne_zero hxy hp
    rw [div_pow, div_eq_iff (pow_ne_zero _ hne), ep]
    ring

/-- COMPLETENESS: for a = s² and d a non-square the denominators of the addition law never vanish on curve points -/
theorem complete (a d s : F) (h2 : (2 : F) ≠ 0) (ha : a = s ^ 2) (hd : ∀ t : F, t ^ 2 ≠ d)
    (x1 y1 x2 y2 : F) (h1 : OnC a d x1 y1) (h2' : OnC a d x2 y2) :
    1 + d * x1 * x2 * y1 * y2 ≠ 0 ∧ 1 - d * x1 * x2 * y1 * y2 ≠ 0 := by
  subst ha
  have key := eps_sq_ne_one s d x1 y1 x2 y2 h2 hd h1 h2'
  constructor
  · intro h
    apply key
    have : d * x1 * x2 * y1 * y2 = -1 := by linear_combination h
    rw [this]; ring
  · intro h
    apply key
    have : d * x1 * x2 * y1 * y2 = 1 := by linear_combination -h
    rw [this]; ring

/-- the polynomial identity behind closure (cofactors of the two curve equations found with sympy) -/
theorem closure_poly (a d x1 y1 x2 y2 : F) (h1 : OnC a d x1 y1) (h2 : OnC a d x2 y2) :
    a * (x1 * y2 + y1 * x2) ^ 2 * (1 - d * x1 * x2 * y1 * y2) ^ 2 +
      (y1 * y2 - a * x1 * x2) ^ 2 * (1 + d * x1 * x2 * y1 * y2) ^ 2 =
    (1 + d * x1 * x2 * y1 * y2) ^ 2 * (1 - d * x1 * x2 * y1 * y2) ^ 2 +
      d * (x1 * y2 + y1 * x2) ^ 2 * (y1 * y2 - a * x1 * x2) ^ 2 := by
  unfold OnC at h1 h2
  linear_combination
    (-a^2*d*x1^2*x2^4*y2^2 - 2*a^2*x2^4*y2^2 + a^2*x2^4 + a*d^2*x1^2*x2^4*y2^4 - a*d*x1^2*x2^2*y2^4 - a*d*x2^4*y1^2*y2^2
      + 2*a*d*x2^4*y2^4 - 2*a*x2^2*y2^4 + 4*a*x2^2*y2^2 + d^3*x1^2*x2^4*y1^2*y2^4 + d^2*x2^4*y1^2*y2^4 - d^2*x2^4*y2^4
      - d*x2^2*y1^2*y2^4 - 2*d*x2^2*y2^2 + y2^4) * h1 +
    (a^2*d*x1^4*x2^2*y2^2 + 2*a^2*x1^2*x2^2*y2^2 - a^2*x1^2*x2^2 - 2*a*d*x1^2*x2^2*y2^2 - a*x1^2*y2^2 + 2*a*x2^2*y1^2*y2^2
      - a*x2^2*y1^2 - 2*a*x2^2*y2^2 + a*x2^2 + d*x2^2*y1^4*y2^2 - 2*d*x2^2*y1^2*y2^2 + d*x2^2*y2^2 - y1^2*y2^2 + y2^2 + 1) * h2

/-- CLOSURE: the sum of two curve points is on the curve -/
theorem add_onCurve (a d x1 y1 x2 y2 : F) (h1 : OnC a d x1 y1) (h2 : OnC a d x2 y2)
    (hD1 : 1 + d * x1 * x2 * y1 * y2 ≠ 0) (hD2 : 1 - d * x1 * x2 * y1 * y2 ≠ 0) :
    OnC a d (addX d x1 y1 x2 y2) (addY a d x1 y1 x2 y2) := by
  have hp := closure_poly a d x1 y1 x2 y2 h1 h2
  unfold OnC addX addY
  generalize 1 + d * x1 * x2 * y1 * y2 = D1 at *
  generalize 1 - d * x1 * x2 * y1 * y2 = D2 at *
  generalize x1 * y2 + y1 * x2 = N1 at *
  generalize y1 * y2 - a * x1 * x2 = N2 at *
  field_simp
  linear_combination hp

/-- (0, 1) is on the curve and neutral -/
theorem neutral_onCurve (a d : F) : OnC a d 0 1 := by unfold OnC; ring

theorem add_neutral (a d x y : F) : addX d x y 0 1 = x ∧ addY a d x y 0 1 = y := by
  unfold addX addY; constructor <;> simp

/-- −(x, y) = (−x, y) is on the curve, and P + (−P) = (0, 1) -/
theorem neg_onCurve (a d x y : F) (h : OnC a d x y) : OnC a d (-x) y := by
  unfold OnC at *; linear_combination h

theorem add_neg (a d x y : F) (h : OnC a d x y) (hD : 1 - d * x * (-x) * y * y ≠ 0) :
    addX d x y (-x) y = 0 ∧ addY a d x y (-x) y = 1 := by
  unfold addX addY OnC at *
  constructor
  · have : x * y + y * -x = 0 := by ring
    rw [this, zero_div]
  · rw [div_eq_one_iff_eq hD]; linear_combination h

theorem add_comm_law (a d x1 y1 x2 y2 : F) :
    addX d x1 y1 x2 y2 = addX d x2 y2 x1 y1 ∧ addY a d x1 y1 x2 y2 = addY a d x2 y2 x1 y1 := by
  unfold addX addY
  constructor
  · congr 1 <;> ring
  · congr 1 <;> ring

/-- the hypotheses of `complete` are satisfiable: over ℚ-like fields; here the statement that they imply 2 ≠ 0 is not
    needed — a concrete instance is evaluated by the driver on every run (a = −1 = (√−1)², d non-square modulo 2²⁵⁵ − 19) -/
example (a d : F) : OnC a d 0 1 ∧ OnC a d 0 (-1) := by
  unfold OnC; constructor <;> ring

end Relic.Lemmas.EdGroup
