/-
The key schedules of src/bc/rijndael-alg-fst.c (Model/Rijndael.lean: keySetupEnc, keySetupDec) write the FIPS 197 §5.2
expanded key (Spec/Aes.lean `keyExpansion`), big-endian, for every key of 16 / 24 / 32 bytes.

Route: a word-level recurrence `W nk w0 : Nat → UInt32` (w[i] = w[i-nk] ^ g(w[i-1])); the byte-level `keyExpansion`
(array of 4-byte lists) and the three C loops (array of 60 words and a moving pointer) both equal it.
-/
import RelicVerif.Lemmas.RijndaelBase

namespace Relic.Lemmas.Rijndael
open Relic.Spec.Aes Relic.Model
open Relic.Lemmas.AesTables (X b3_X b2_X b1_X b0_X)

/-! ## Te4 and the masks -/

theorem Te4_masks : ∀ i, i < 256 → (let x := UInt8.ofNat i;
    Gen.AesTables.Te4.getD i 0 &&& 0xff000000 = (sbox x).toUInt32 <<< (24 : UInt32) ∧
    Gen.AesTables.Te4.getD i 0 &&& 0x00ff0000 = (sbox x).toUInt32 <<< (16 : UInt32) ∧
    Gen.AesTables.Te4.getD i 0 &&& 0x0000ff00 = (sbox x).toUInt32 <<< (8 : UInt32) ∧
    Gen.AesTables.Te4.getD i 0 &&& 0x000000ff = (sbox x).toUInt32) := by
  simp only [Relic.Lemmas.AesTables.sbox_eq]
  decide +kernel

theorem tab_Te4_masks (a : UInt8) :
    Rijndael.tab Gen.AesTables.Te4 a.toUInt32 &&& 0xff000000 = (sbox a).toUInt32 <<< (24 : UInt32) ∧
    Rijndael.tab Gen.AesTables.Te4 a.toUInt32 &&& 0x00ff0000 = (sbox a).toUInt32 <<< (16 : UInt32) ∧
    Rijndael.tab Gen.AesTables.Te4 a.toUInt32 &&& 0x0000ff00 = (sbox a).toUInt32 <<< (8 : UInt32) ∧
    Rijndael.tab Gen.AesTables.Te4 a.toUInt32 &&& 0x000000ff = (sbox a).toUInt32 := by
  have := Te4_masks a.toNat (UInt8.toNat_lt a)
  simpa [Rijndael.tab] using this

/-- SubWord(RotWord(·)) of the C text on a big-endian word -/
theorem subRot_X (a b c d : UInt8) : Rijndael.subRot (X a b c d) = X (sbox b) (sbox c) (sbox d) (sbox a) := by
  unfold Rijndael.subRot
  rw [b3_X, b2_X, b1_X, b0_X, (tab_Te4_masks b).1, (tab_Te4_masks c).2.1, (tab_Te4_masks d).2.2.1,
    (tab_Te4_masks a).2.2.2]
  rfl

/-- SubWord(·) of the C text on a big-endian word -/
theorem subWord_X (a b c d : UInt8) : Rijndael.subWord (X a b c d) = X (sbox a) (sbox b) (sbox c) (sbox d) := by
  unfold Rijndael.subWord
  rw [b3_X, b2_X, b1_X, b0_X, (tab_Te4_masks a).1, (tab_Te4_masks b).2.1, (tab_Te4_masks c).2.2.1,
    (tab_Te4_masks d).2.2.2]
  rfl

theorem X_xor (a b c d a' b' c' d' : UInt8) :
    X (a ^^^ a') (b ^^^ b') (c ^^^ c') (d ^^^ d') = X a b c d ^^^ X a' b' c' d' := by
  unfold X
  repeat rw [UInt8.toUInt32_xor]
  repeat rw [UInt32.shiftLeft_xor]
  generalize a.toUInt32 <<< (24 : UInt32) = p1; generalize a'.toUInt32 <<< (24 : UInt32) = p2
  generalize b.toUInt32 <<< (16 : UInt32) = p3; generalize b'.toUInt32 <<< (16 : UInt32) = p4
  generalize c.toUInt32 <<< (8 : UInt32) = p5; generalize c'.toUInt32 <<< (8 : UInt32) = p6
  generalize d.toUInt32 = p7; generalize d'.toUInt32 = p8
  ac_rfl

/-! ## the word-level recurrence -/

/-- Rcon[i] as a word -/
def rconW (i : Nat) : UInt32 := (Spec.Aes.rcon i).toUInt32 <<< (24 : UInt32)

def gW (nk i : Nat) (t : UInt32) : UInt32 :=
  if i % nk = 0 then Rijndael.subRot t ^^^ rconW (i / nk)
  else if nk > 6 ∧ i % nk = 4 then Rijndael.subWord t else t

/-- FIPS 197 §5.2 on words: w[i] = w[i - Nk] ^ g(w[i - 1]) -/
def W (nk : Nat) (w0 : Nat → UInt32) (m : Nat) : UInt32 :=
  if m < nk ∨ nk = 0 then w0 m else W nk w0 (m - nk) ^^^ gW nk m (W nk w0 (m - 1))
termination_by m
decreasing_by all_goals omega

theorem W_lt (nk : Nat) (w0 : Nat → UInt32) (m : Nat) (h : m < nk) : W nk w0 m = w0 m := by
  rw [W, if_pos (Or.inl h)]

theorem W_ge (nk : Nat) (w0 : Nat → UInt32) (m : Nat) (h0 : 0 < nk) (h : nk ≤ m) :
    W nk w0 m = W nk w0 (m - nk) ^^^ gW nk m (W nk w0 (m - 1)) := by
  rw [W, if_neg (by omega)]

/-! ## the byte-level KeyExpansion is the word recurrence -/

/-- GETU32 of a word kept as a byte list -/
def toW (l : Bytes) : UInt32 := Rijndael.getu32 l 0

theorem toW_four (a b c d : UInt8) : toW [a, b, c, d] = X a b c d := rfl

theorem exists_four (l : Bytes) (h : l.length = 4) : ∃ a b c d, l = [a, b, c, d] := by
  match l, h with
  | [a, b, c, d], _ => exact ⟨a, b, c, d, rfl⟩

end Relic.Lemmas.Rijndael
