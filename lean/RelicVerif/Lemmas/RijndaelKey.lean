/-
The key schedules of src/bc/rijndael-alg-fst.c (Model/Rijndael.lean: keySetupEnc, keySetupDec) write the FIPS 197 §5.2
expanded key (Spec/Aes.lean `keyExpansion`), big-endian, for every key of 16 / 24 / 32 bytes.

Route: a word-level recurrence `W nk w0 : Nat → UInt32` (w[i] = w[i-nk] ^ g(w[i-1])); the byte-level `keyExpansion`
(array of 4-byte lists) and the three C loops (array of 60 words and a moving pointer) both equal it (`keySetupEnc_ok`).
The decryption schedule (`keySetupDec_ok`): `swapLoop` mirrors the rows, `invMixLoop` applies InvMixColumns (through
Td0..Td3 of Te4) to rows 1 .. Nr - 1: the round keys of the equivalent inverse cipher (FIPS 197 §5.3.5), reversed.
-/
import RelicVerif.Lemmas.RijndaelBase

namespace Relic.Lemmas.Rijndael.Key
open Relic.Spec.Aes Relic.Model
open Relic.Lemmas.AesTables (X b3_X b2_X b1_X b0_X)

/-! ## Te4 and the masks -/

theorem Te4_masks : ∀ i, i < 256 → (let x := UInt8.ofNat i;
    Gen.AesTables.Te4.getD i 0 &&& 0xff000000 = (sbox x).toUInt32 <<< (24 : UInt32) ∧
    Gen.AesTables.Te4.getD i 0 &&& 0x00ff0000 = (sbox x).toUInt32 <<< (16 : UInt32) ∧
    Gen.AesTables.Te4.getD i 0 &&& 0x0000ff00 = (sbox x).toUInt32 <<< (8 : UInt32) ∧
    Gen.AesTables.Te4.getD i 0 &&& 0x000000ff = (sbox x).toUInt32) := by
  simp only [Relic.Lemmas.AesTables.sbox_eq]
  decide +kernel

theorem tab_Te4_masks (a : UInt8) :
    Rijndael.tab Gen.AesTables.Te4 a.toUInt32 &&& 0xff000000 = (sbox a).toUInt32 <<< (24 : UInt32) ∧
    Rijndael.tab Gen.AesTables.Te4 a.toUInt32 &&& 0x00ff0000 = (sbox a).toUInt32 <<< (16 : UInt32) ∧
    Rijndael.tab Gen.AesTables.Te4 a.toUInt32 &&& 0x0000ff00 = (sbox a).toUInt32 <<< (8 : UInt32) ∧
    Rijndael.tab Gen.AesTables.Te4 a.toUInt32 &&& 0x000000ff = (sbox a).toUInt32 := by
  have := Te4_masks a.toNat (UInt8.toNat_lt a)
  simpa [Rijndael.tab] using this

/-- SubWord(RotWord(·)) of the C text on a big-endian word -/
theorem subRot_X (a b c d : UInt8) : Rijndael.subRot (X a b c d) = X (sbox b) (sbox c) (sbox d) (sbox a) := by
  unfold Rijndael.subRot
  rw [b3_X, b2_X, b1_X, b0_X, (tab_Te4_masks b).1, (tab_Te4_masks c).2.1, (tab_Te4_masks d).2.2.1,
    (tab_Te4_masks a).2.2.2]
  rfl

/-- SubWord(·) of the C text on a big-endian word -/
theorem subWord_X (a b c d : UInt8) : Rijndael.subWord (X a b c d) = X (sbox a) (sbox b) (sbox c) (sbox d) := by
  unfold Rijndael.subWord
  rw [b3_X, b2_X, b1_X, b0_X, (tab_Te4_masks a).1, (tab_Te4_masks b).2.1, (tab_Te4_masks c).2.2.1,
    (tab_Te4_masks d).2.2.2]
  rfl

theorem X_xor (a b c d a' b' c' d' : UInt8) :
    X (a ^^^ a') (b ^^^ b') (c ^^^ c') (d ^^^ d') = X a b c d ^^^ X a' b' c' d' := by
  unfold X
  repeat rw [UInt8.toUInt32_xor]
  repeat rw [UInt32.shiftLeft_xor]
  generalize a.toUInt32 <<< (24 : UInt32) = p1; generalize a'.toUInt32 <<< (24 : UInt32) = p2
  generalize b.toUInt32 <<< (16 : UInt32) = p3; generalize b'.toUInt32 <<< (16 : UInt32) = p4
  generalize c.toUInt32 <<< (8 : UInt32) = p5; generalize c'.toUInt32 <<< (8 : UInt32) = p6
  generalize d.toUInt32 = p7; generalize d'.toUInt32 = p8
  ac_rfl

/-! ## the word-level recurrence -/

/-- Rcon[i] as a word -/
def rconW (i : Nat) : UInt32 := (Spec.Aes.rcon i).toUInt32 <<< (24 : UInt32)

def gW (nk i : Nat) (t : UInt32) : UInt32 :=
  if i % nk = 0 then Rijndael.subRot t ^^^ rconW (i / nk)
  else if nk > 6 ∧ i % nk = 4 then Rijndael.subWord t else t

/-- FIPS 197 §5.2 on words: w[i] = w[i - Nk] ^ g(w[i - 1]) -/
def W (nk : Nat) (w0 : Nat → UInt32) (m : Nat) : UInt32 :=
  if m < nk ∨ nk = 0 then w0 m else W nk w0 (m - nk) ^^^ gW nk m (W nk w0 (m - 1))
termination_by m
decreasing_by all_goals omega

theorem W_lt (nk : Nat) (w0 : Nat → UInt32) (m : Nat) (h : m < nk) : W nk w0 m = w0 m := by
  rw [W, if_pos (Or.inl h)]

theorem W_ge (nk : Nat) (w0 : Nat → UInt32) (m : Nat) (h0 : 0 < nk) (h : nk ≤ m) :
    W nk w0 m = W nk w0 (m - nk) ^^^ gW nk m (W nk w0 (m - 1)) := by
  rw [W, if_neg (by omega)]

/-! ## the byte-level KeyExpansion is the word recurrence -/

/-- GETU32 of a word kept as a byte list -/
def toW (l : Bytes) : UInt32 := Rijndael.getu32 l 0

theorem toW_four (a b c d : UInt8) : toW [a, b, c, d] = X a b c d := rfl

theorem exists_four (l : Bytes) (h : l.length = 4) : ∃ a b c d, l = [a, b, c, d] := by
  match l, h with
  | [a, b, c, d], _ => exact ⟨a, b, c, d, rfl⟩

theorem rconW_X (n : Nat) : rconW n = X (Spec.Aes.rcon n) 0 0 0 := by
  unfold rconW X
  simp

/-- the `temp` of one step of `keyExpansion` -/
def tempF (nk i : Nat) (temp : Bytes) : Bytes :=
  if i % nk = 0 then
    List.zipWith (· ^^^ ·) ((temp.drop 1 ++ temp.take 1).map sbox) [Spec.Aes.rcon (i / nk), 0, 0, 0]
  else if nk > 6 ∧ i % nk = 4 then temp.map sbox
  else temp

theorem step_word (nk i : Nat) (u t : Bytes) (hu : u.length = 4) (ht : t.length = 4) :
    (List.zipWith (· ^^^ ·) u (tempF nk i t)).length = 4 ∧
    toW (List.zipWith (· ^^^ ·) u (tempF nk i t)) = toW u ^^^ gW nk i (toW t) := by
  obtain ⟨a, b, c, d, rfl⟩ := exists_four u hu
  obtain ⟨p, q, r, s, rfl⟩ := exists_four t ht
  unfold tempF gW
  split
  · refine ⟨rfl, ?_⟩
    have e : List.zipWith (· ^^^ ·) [a, b, c, d] (List.zipWith (· ^^^ ·)
        ((List.drop 1 [p, q, r, s] ++ List.take 1 [p, q, r, s]).map sbox) [Spec.Aes.rcon (i / nk), 0, 0, 0]) =
        [a ^^^ (sbox q ^^^ Spec.Aes.rcon (i / nk)), b ^^^ (sbox r ^^^ 0), c ^^^ (sbox s ^^^ 0), d ^^^ (sbox p ^^^ 0)] := rfl
    rw [e, toW_four, toW_four, toW_four, subRot_X, rconW_X, X_xor, X_xor]
  · split
    · refine ⟨rfl, ?_⟩
      have e : List.zipWith (· ^^^ ·) [a, b, c, d] ([p, q, r, s].map sbox) =
          [a ^^^ sbox p, b ^^^ sbox q, c ^^^ sbox r, d ^^^ sbox s] := rfl
      rw [e, toW_four, toW_four, toW_four, subWord_X, X_xor]
    · refine ⟨rfl, ?_⟩
      have e : List.zipWith (· ^^^ ·) [a, b, c, d] [p, q, r, s] = [a ^^^ p, b ^^^ q, c ^^^ r, d ^^^ s] := rfl
      rw [e, toW_four, toW_four, toW_four, X_xor]

theorem getD_push {α : Type} (w : Array α) (x d : α) (m : Nat) :
    (w.push x).getD m d = if m = w.size then x else w.getD m d := by
  simp only [Array.getD_eq_getD_getElem?, Array.getElem?_push]
  split <;> simp

/-- the word array of `keyExpansion` -/
def kWords (key : Bytes) : Array Bytes :=
  let nk := key.length / 4
  (List.range (4 * (nk + 6 + 1) - nk)).foldl (fun (w : Array Bytes) j =>
    w.push (List.zipWith (· ^^^ ·) (w.getD (j + nk - nk) []) (tempF nk (j + nk) (w.getD (j + nk - 1) []))))
    ((Array.range nk).map fun i => (key.drop (4 * i)).take 4)

theorem keyExpansion_eq (key : Bytes) :
    keyExpansion key = (List.range (key.length / 4 + 6 + 1)).map fun r =>
      (List.range 4).flatMap fun c => (kWords key).getD (4 * r + c) [] := rfl

/-- the key as words -/
def keyW (key : Bytes) (i : Nat) : UInt32 := Rijndael.getu32 key (4 * i)

theorem kWords_spec (key : Bytes) (h4 : 4 ≤ key.length) :
    (kWords key).size = 4 * (key.length / 4 + 6 + 1) ∧
    ∀ m, m < (kWords key).size → ((kWords key).getD m []).length = 4 ∧
      toW ((kWords key).getD m []) = W (key.length / 4) (keyW key) m := by
  have hnk : 1 ≤ key.length / 4 := by omega
  unfold kWords
  simp only []
  generalize hw : List.foldl _ _ _ = w
  have hinv : w.size = key.length / 4 + (4 * (key.length / 4 + 6 + 1) - key.length / 4) ∧
      ∀ m, m < w.size → (w.getD m []).length = 4 ∧ toW (w.getD m []) = W (key.length / 4) (keyW key) m := by
    rw [← hw]
    apply Relic.Lemmas.Aes.foldl_range_inv (fun j (w : Array Bytes) => w.size = key.length / 4 + j ∧
      ∀ m, m < w.size → (w.getD m []).length = 4 ∧ toW (w.getD m []) = W (key.length / 4) (keyW key) m)
    · refine ⟨by simp, ?_⟩
      intro m hm
      simp only [Array.size_map, Array.size_range] at hm
      rw [W_lt _ _ _ hm]
      have h3 : 4 * m + 3 < key.length := by omega
      simp [hm, toW, keyW, Rijndael.getu32, List.getD_eq_getElem?_getD, List.getElem?_drop]
      omega
    · intro j w ⟨hsz, hall⟩
      have e1 : j + key.length / 4 - key.length / 4 = j := by omega
      rw [e1]
      obtain ⟨ht, ht'⟩ := hall (j + key.length / 4 - 1) (by omega)
      obtain ⟨hu, hu'⟩ := hall j (by omega)
      have hstep := step_word (key.length / 4) (j + key.length / 4) _ _ hu ht
      rw [ht', hu'] at hstep
      have hW := W_ge (key.length / 4) (keyW key) (j + key.length / 4) (by omega) (by omega)
      rw [e1] at hW
      refine ⟨by simp [hsz]; omega, ?_⟩
      intro m hm
      simp only [Array.size_push] at hm
      rw [getD_push]
      split
      · rename_i hmeq
        have hm' : m = j + key.length / 4 := by omega
        rw [hm']
        exact ⟨hstep.1, hstep.2.trans hW.symm⟩
      · exact hall m (by omega)
  refine ⟨by rw [hinv.1]; omega, hinv.2⟩

theorem keyExpansion_W (key : Bytes) (h4 : 4 ≤ key.length) :
    (keyExpansion key).length = key.length / 4 + 6 + 1 ∧
    ∀ r, r < key.length / 4 + 6 + 1 → ∀ c, c < 4 →
      Rijndael.getu32 ((keyExpansion key).getD r []) (4 * c) = W (key.length / 4) (keyW key) (4 * r + c) := by
  obtain ⟨hsz, hall⟩ := kWords_spec key h4
  rw [keyExpansion_eq]
  refine ⟨by simp, ?_⟩
  intro r hr c hc
  simp only [List.getD_eq_getElem?_getD, List.getElem?_map, List.getElem?_range hr, Option.map_some,
    Option.getD_some, Relic.Lemmas.Aes.range4, List.flatMap_cons, List.flatMap_nil, List.append_nil]
  obtain ⟨l0, e0⟩ := hall (4 * r + 0) (by omega)
  obtain ⟨l1, e1⟩ := hall (4 * r + 1) (by omega)
  obtain ⟨l2, e2⟩ := hall (4 * r + 2) (by omega)
  obtain ⟨l3, e3⟩ := hall (4 * r + 3) (by omega)
  obtain ⟨a0, b0, c0, d0, f0⟩ := exists_four _ l0
  obtain ⟨a1, b1, c1, d1, f1⟩ := exists_four _ l1
  obtain ⟨a2, b2, c2, d2, f2⟩ := exists_four _ l2
  obtain ⟨a3, b3, c3, d3, f3⟩ := exists_four _ l3
  rw [f0] at e0; rw [f1] at e1; rw [f2] at e2; rw [f3] at e3
  rw [f0, f1, f2, f3]
  have hc' : c = 0 ∨ c = 1 ∨ c = 2 ∨ c = 3 := by omega
  rcases hc' with rfl | rfl | rfl | rfl
  · exact e0
  · exact e1
  · exact e2
  · exact e3

/-! ## the C loops -/

/-- the first n words of the array are the first n values of V; the array has the 60 words of the C caller -/
def Agree (rk : Array UInt32) (n : Nat) (V : Nat → UInt32) : Prop :=
  rk.size = 60 ∧ ∀ m, m < n → rk.getD m 0 = V m

theorem getD_setIfInBounds (rk : Array UInt32) (p m : Nat) (v : UInt32) (hp : p < rk.size) :
    (rk.setIfInBounds p v).getD m 0 = if m = p then v else rk.getD m 0 := by
  simp only [Array.getD_eq_getD_getElem?, Array.getElem?_setIfInBounds]
  by_cases h : p = m
  · subst h; simp [hp]
  · have h' : ¬ m = p := fun e => h e.symm
    simp [h, h']

theorem Agree.wr {rk : Array UInt32} {n : Nat} {V : Nat → UInt32} (h : Agree rk n V) (off k : Nat) (v : UInt32)
    (rk' : Array UInt32) (hrk : rk' = Rijndael.wr rk off k v) (hk : off + k = n) (hn : n < 60) (hv : v = V n) :
    Agree rk' (n + 1) V := by
  subst hrk
  unfold Rijndael.wr
  refine ⟨by simp [h.1], ?_⟩
  intro m hm
  rw [getD_setIfInBounds _ _ _ _ (by rw [h.1]; omega), hk]
  split
  · rename_i e; rw [e, hv]
  · exact h.2 m (by omega)

theorem Agree.rd {rk : Array UInt32} {n : Nat} {V : Nat → UInt32} (h : Agree rk n V) (off k : Nat)
    (hlt : off + k < n) : Rijndael.rd rk off k = V (off + k) := h.2 _ hlt

theorem Agree.cast {rk : Array UInt32} {n n' : Nat} {V : Nat → UInt32} (h : Agree rk n V) (e : n = n') :
    Agree rk n' V := e ▸ h

theorem rcon_eq (i : Nat) (hi : i < 10) : Gen.AesTables.rcon.getD i 0 = rconW (i + 1) :=
  Relic.Lemmas.AesTables.rcon_spec i hi

theorem W_rot (nk : Nat) (w0 : Nat → UInt32) (m p q r : Nat) (hp : p + nk = m) (hq : q + 1 = m) (hr : r * nk = m)
    (hnk : 0 < nk) :
    W nk w0 m = W nk w0 p ^^^ (Rijndael.subRot (W nk w0 q) ^^^ rconW r) := by
  have hge : nk ≤ m := by omega
  have hmod : m % nk = 0 := by rw [← hr]; exact Nat.mul_mod_left r nk
  have hdiv : m / nk = r := by rw [← hr]; exact Nat.mul_div_cancel r hnk
  have e1 : m - nk = p := by omega
  have e2 : m - 1 = q := by omega
  rw [W_ge nk w0 m hnk hge, gW, if_pos hmod, hdiv, e1, e2]

theorem W_plain (nk : Nat) (w0 : Nat → UInt32) (m p q : Nat) (hp : p + nk = m) (hq : q + 1 = m)
    (hnk : 0 < nk) (hmod : m % nk ≠ 0) (h4 : ¬ (nk > 6 ∧ m % nk = 4)) :
    W nk w0 m = W nk w0 p ^^^ W nk w0 q := by
  have e1 : m - nk = p := by omega
  have e2 : m - 1 = q := by omega
  rw [W_ge nk w0 m hnk (by omega), gW, if_neg hmod, if_neg h4, e1, e2]

theorem W_sub (nk : Nat) (w0 : Nat → UInt32) (m p q : Nat) (hp : p + nk = m) (hq : q + 1 = m)
    (hnk : 6 < nk) (hmod : m % nk = 4) :
    W nk w0 m = W nk w0 p ^^^ Rijndael.subWord (W nk w0 q) := by
  have e1 : m - nk = p := by omega
  have e2 : m - 1 = q := by omega
  rw [W_ge nk w0 m (by omega) (by omega), gW, if_neg (by omega), if_pos ⟨hnk, hmod⟩, e1, e2]

theorem Agree.mono {rk : Array UInt32} {n n' : Nat} {V : Nat → UInt32} (h : Agree rk n V) (e : n' ≤ n) :
    Agree rk n' V := ⟨h.1, fun m hm => h.2 m (by omega)⟩

theorem loop128_step (fuel : Nat) (rk : Array UInt32) (off i : Nat) (rk1 rk2 rk3 rk4 : Array UInt32)
    (h1 : rk1 = Rijndael.wr rk off 4 (Rijndael.rd rk off 0 ^^^ Rijndael.subRot (Rijndael.rd rk off 3) ^^^ Gen.AesTables.rcon.getD i 0))
    (h2 : rk2 = Rijndael.wr rk1 off 5 (Rijndael.rd rk1 off 1 ^^^ Rijndael.rd rk1 off 4))
    (h3 : rk3 = Rijndael.wr rk2 off 6 (Rijndael.rd rk2 off 2 ^^^ Rijndael.rd rk2 off 5))
    (h4 : rk4 = Rijndael.wr rk3 off 7 (Rijndael.rd rk3 off 3 ^^^ Rijndael.rd rk3 off 6))
    :
    Rijndael.loop128 (fuel + 1) rk off i =
      if (i + 1 == 10) = true then rk4 else Rijndael.loop128 fuel rk4 (off + 4) (i + 1) := by
  subst h1 h2 h3 h4
  rfl

theorem loop128_ok (w0 : Nat → UInt32) : ∀ fuel rk i, i + fuel = 10 → Agree rk (4 + 4 * i) (W 4 w0) →
    Agree (Rijndael.loop128 fuel rk (4 * i) i) 44 (W 4 w0) := by
  intro fuel
  induction fuel with
  | zero =>
    intro rk i hi h
    have : i = 10 := by omega
    subst this
    exact h.mono (by omega)
  | succ fuel ih =>
    intro rk i hi h
    obtain ⟨rk1, h1⟩ : ∃ x, x = Rijndael.wr rk (4 * i) 4 (Rijndael.rd rk (4 * i) 0 ^^^ Rijndael.subRot (Rijndael.rd rk (4 * i) 3) ^^^ Gen.AesTables.rcon.getD i 0) := ⟨_, rfl⟩
    obtain ⟨rk2, h2⟩ : ∃ x, x = Rijndael.wr rk1 (4 * i) 5 (Rijndael.rd rk1 (4 * i) 1 ^^^ Rijndael.rd rk1 (4 * i) 4) := ⟨_, rfl⟩
    obtain ⟨rk3, h3⟩ : ∃ x, x = Rijndael.wr rk2 (4 * i) 6 (Rijndael.rd rk2 (4 * i) 2 ^^^ Rijndael.rd rk2 (4 * i) 5) := ⟨_, rfl⟩
    obtain ⟨rk4, h4⟩ : ∃ x, x = Rijndael.wr rk3 (4 * i) 7 (Rijndael.rd rk3 (4 * i) 3 ^^^ Rijndael.rd rk3 (4 * i) 6) := ⟨_, rfl⟩
    rw [loop128_step fuel rk (4 * i) i rk1 rk2 rk3 rk4 h1 h2 h3 h4]
    have a1 : Agree rk1 (4 + 4 * i + 1) (W 4 w0) := by
      refine h.wr _ _ _ _ h1 (by omega) (by omega) ?_
      rw [h.rd _ _ (by omega), h.rd _ _ (by omega), rcon_eq i (by omega), UInt32.xor_assoc]
      exact (W_rot 4 w0 _ _ _ _ (by omega) (by omega) (by omega) (by omega)).symm
    have a2 : Agree rk2 (4 + 4 * i + 1 + 1) (W 4 w0) := by
      refine a1.wr _ _ _ _ h2 (by omega) (by omega) ?_
      rw [a1.rd _ _ (by omega), a1.rd _ _ (by omega)]
      exact (W_plain 4 w0 _ _ _ (by omega) (by omega) (by omega) (by omega) (by omega)).symm
    have a3 : Agree rk3 (4 + 4 * i + 1 + 1 + 1) (W 4 w0) := by
      refine a2.wr _ _ _ _ h3 (by omega) (by omega) ?_
      rw [a2.rd _ _ (by omega), a2.rd _ _ (by omega)]
      exact (W_plain 4 w0 _ _ _ (by omega) (by omega) (by omega) (by omega) (by omega)).symm
    have a4 : Agree rk4 (4 + 4 * i + 1 + 1 + 1 + 1) (W 4 w0) := by
      refine a3.wr _ _ _ _ h4 (by omega) (by omega) ?_
      rw [a3.rd _ _ (by omega), a3.rd _ _ (by omega)]
      exact (W_plain 4 w0 _ _ _ (by omega) (by omega) (by omega) (by omega) (by omega)).symm
    by_cases hlast : i + 1 = 10
    · rw [if_pos (by simp; omega)]
      exact a4.mono (by omega)
    · rw [if_neg (by simp; omega)]
      have e : 4 * i + 4 = 4 * (i + 1) := by omega
      rw [e]
      exact ih rk4 (i + 1) (by omega) (a4.cast (by omega))

theorem loop192_step (fuel : Nat) (rk : Array UInt32) (off i : Nat) (rk1 rk2 rk3 rk4 rk5 rk6 : Array UInt32)
    (h1 : rk1 = Rijndael.wr rk off 6 (Rijndael.rd rk off 0 ^^^ Rijndael.subRot (Rijndael.rd rk off 5) ^^^ Gen.AesTables.rcon.getD i 0))
    (h2 : rk2 = Rijndael.wr rk1 off 7 (Rijndael.rd rk1 off 1 ^^^ Rijndael.rd rk1 off 6))
    (h3 : rk3 = Rijndael.wr rk2 off 8 (Rijndael.rd rk2 off 2 ^^^ Rijndael.rd rk2 off 7))
    (h4 : rk4 = Rijndael.wr rk3 off 9 (Rijndael.rd rk3 off 3 ^^^ Rijndael.rd rk3 off 8))
    (h5 : rk5 = Rijndael.wr rk4 off 10 (Rijndael.rd rk4 off 4 ^^^ Rijndael.rd rk4 off 9))
    (h6 : rk6 = Rijndael.wr rk5 off 11 (Rijndael.rd rk5 off 5 ^^^ Rijndael.rd rk5 off 10))
    :
    Rijndael.loop192 (fuel + 1) rk off i =
      if (i + 1 == 8) = true then rk4 else Rijndael.loop192 fuel rk6 (off + 6) (i + 1) := by
  subst h1 h2 h3 h4 h5 h6
  rfl

theorem loop192_ok (w0 : Nat → UInt32) : ∀ fuel rk i, i + fuel = 8 → Agree rk (6 + 6 * i) (W 6 w0) →
    Agree (Rijndael.loop192 fuel rk (6 * i) i) 52 (W 6 w0) := by
  intro fuel
  induction fuel with
  | zero =>
    intro rk i hi h
    have : i = 8 := by omega
    subst this
    exact h.mono (by omega)
  | succ fuel ih =>
    intro rk i hi h
    obtain ⟨rk1, h1⟩ : ∃ x, x = Rijndael.wr rk (6 * i) 6 (Rijndael.rd rk (6 * i) 0 ^^^ Rijndael.subRot (Rijndael.rd rk (6 * i) 5) ^^^ Gen.AesTables.rcon.getD i 0) := ⟨_, rfl⟩
    obtain ⟨rk2, h2⟩ : ∃ x, x = Rijndael.wr rk1 (6 * i) 7 (Rijndael.rd rk1 (6 * i) 1 ^^^ Rijndael.rd rk1 (6 * i) 6) := ⟨_, rfl⟩
    obtain ⟨rk3, h3⟩ : ∃ x, x = Rijndael.wr rk2 (6 * i) 8 (Rijndael.rd rk2 (6 * i) 2 ^^^ Rijndael.rd rk2 (6 * i) 7) := ⟨_, rfl⟩
    obtain ⟨rk4, h4⟩ : ∃ x, x = Rijndael.wr rk3 (6 * i) 9 (Rijndael.rd rk3 (6 * i) 3 ^^^ Rijndael.rd rk3 (6 * i) 8) := ⟨_, rfl⟩
    obtain ⟨rk5, h5⟩ : ∃ x, x = Rijndael.wr rk4 (6 * i) 10 (Rijndael.rd rk4 (6 * i) 4 ^^^ Rijndael.rd rk4 (6 * i) 9) := ⟨_, rfl⟩
    obtain ⟨rk6, h6⟩ : ∃ x, x = Rijndael.wr rk5 (6 * i) 11 (Rijndael.rd rk5 (6 * i) 5 ^^^ Rijndael.rd rk5 (6 * i) 10) := ⟨_, rfl⟩
    rw [loop192_step fuel rk (6 * i) i rk1 rk2 rk3 rk4 rk5 rk6 h1 h2 h3 h4 h5 h6]
    have a1 : Agree rk1 (6 + 6 * i + 1) (W 6 w0) := by
      refine h.wr _ _ _ _ h1 (by omega) (by omega) ?_
      rw [h.rd _ _ (by omega), h.rd _ _ (by omega), rcon_eq i (by omega), UInt32.xor_assoc]
      exact (W_rot 6 w0 _ _ _ _ (by omega) (by omega) (by omega) (by omega)).symm
    have a2 : Agree rk2 (6 + 6 * i + 1 + 1) (W 6 w0) := by
      refine a1.wr _ _ _ _ h2 (by omega) (by omega) ?_
      rw [a1.rd _ _ (by omega), a1.rd _ _ (by omega)]
      exact (W_plain 6 w0 _ _ _ (by omega) (by omega) (by omega) (by omega) (by omega)).symm
    have a3 : Agree rk3 (6 + 6 * i + 1 + 1 + 1) (W 6 w0) := by
      refine a2.wr _ _ _ _ h3 (by omega) (by omega) ?_
      rw [a2.rd _ _ (by omega), a2.rd _ _ (by omega)]
      exact (W_plain 6 w0 _ _ _ (by omega) (by omega) (by omega) (by omega) (by omega)).symm
    have a4 : Agree rk4 (6 + 6 * i + 1 + 1 + 1 + 1) (W 6 w0) := by
      refine a3.wr _ _ _ _ h4 (by omega) (by omega) ?_
      rw [a3.rd _ _ (by omega), a3.rd _ _ (by omega)]
      exact (W_plain 6 w0 _ _ _ (by omega) (by omega) (by omega) (by omega) (by omega)).symm
    by_cases hlast : i + 1 = 8
    · rw [if_pos (by simp; omega)]
      exact a4.mono (by omega)
    · rw [if_neg (by simp; omega)]
      have a5 : Agree rk5 (6 + 6 * i + 1 + 1 + 1 + 1 + 1) (W 6 w0) := by
        refine a4.wr _ _ _ _ h5 (by omega) (by omega) ?_
        rw [a4.rd _ _ (by omega), a4.rd _ _ (by omega)]
        exact (W_plain 6 w0 _ _ _ (by omega) (by omega) (by omega) (by omega) (by omega)).symm
      have a6 : Agree rk6 (6 + 6 * i + 1 + 1 + 1 + 1 + 1 + 1) (W 6 w0) := by
        refine a5.wr _ _ _ _ h6 (by omega) (by omega) ?_
        rw [a5.rd _ _ (by omega), a5.rd _ _ (by omega)]
        exact (W_plain 6 w0 _ _ _ (by omega) (by omega) (by omega) (by omega) (by omega)).symm
      have e : 6 * i + 6 = 6 * (i + 1) := by omega
      rw [e]
      exact ih rk6 (i + 1) (by omega) (a6.cast (by omega))

theorem loop256_step (fuel : Nat) (rk : Array UInt32) (off i : Nat) (rk1 rk2 rk3 rk4 rk5 rk6 rk7 rk8 : Array UInt32)
    (h1 : rk1 = Rijndael.wr rk off 8 (Rijndael.rd rk off 0 ^^^ Rijndael.subRot (Rijndael.rd rk off 7) ^^^ Gen.AesTables.rcon.getD i 0))
    (h2 : rk2 = Rijndael.wr rk1 off 9 (Rijndael.rd rk1 off 1 ^^^ Rijndael.rd rk1 off 8))
    (h3 : rk3 = Rijndael.wr rk2 off 10 (Rijndael.rd rk2 off 2 ^^^ Rijndael.rd rk2 off 9))
    (h4 : rk4 = Rijndael.wr rk3 off 11 (Rijndael.rd rk3 off 3 ^^^ Rijndael.rd rk3 off 10))
    (h5 : rk5 = Rijndael.wr rk4 off 12 (Rijndael.rd rk4 off 4 ^^^ Rijndael.subWord (Rijndael.rd rk4 off 11)))
    (h6 : rk6 = Rijndael.wr rk5 off 13 (Rijndael.rd rk5 off 5 ^^^ Rijndael.rd rk5 off 12))
    (h7 : rk7 = Rijndael.wr rk6 off 14 (Rijndael.rd rk6 off 6 ^^^ Rijndael.rd rk6 off 13))
    (h8 : rk8 = Rijndael.wr rk7 off 15 (Rijndael.rd rk7 off 7 ^^^ Rijndael.rd rk7 off 14))
    :
    Rijndael.loop256 (fuel + 1) rk off i =
      if (i + 1 == 7) = true then rk4 else Rijndael.loop256 fuel rk8 (off + 8) (i + 1) := by
  subst h8 h7 h6 h5 h4 h3 h2 h1
  rfl

theorem loop256_ok (w0 : Nat → UInt32) : ∀ fuel rk i, i + fuel = 7 → Agree rk (8 + 8 * i) (W 8 w0) →
    Agree (Rijndael.loop256 fuel rk (8 * i) i) 60 (W 8 w0) := by
  intro fuel
  induction fuel with
  | zero =>
    intro rk i hi h
    have : i = 7 := by omega
    subst this
    exact h.mono (by omega)
  | succ fuel ih =>
    intro rk i hi h
    obtain ⟨rk1, h1⟩ : ∃ x, x = Rijndael.wr rk (8 * i) 8 (Rijndael.rd rk (8 * i) 0 ^^^ Rijndael.subRot (Rijndael.rd rk (8 * i) 7) ^^^ Gen.AesTables.rcon.getD i 0) := ⟨_, rfl⟩
    obtain ⟨rk2, h2⟩ : ∃ x, x = Rijndael.wr rk1 (8 * i) 9 (Rijndael.rd rk1 (8 * i) 1 ^^^ Rijndael.rd rk1 (8 * i) 8) := ⟨_, rfl⟩
    obtain ⟨rk3, h3⟩ : ∃ x, x = Rijndael.wr rk2 (8 * i) 10 (Rijndael.rd rk2 (8 * i) 2 ^^^ Rijndael.rd rk2 (8 * i) 9) := ⟨_, rfl⟩
    obtain ⟨rk4, h4⟩ : ∃ x, x = Rijndael.wr rk3 (8 * i) 11 (Rijndael.rd rk3 (8 * i) 3 ^^^ Rijndael.rd rk3 (8 * i) 10) := ⟨_, rfl⟩
    obtain ⟨rk5, h5⟩ : ∃ x, x = Rijndael.wr rk4 (8 * i) 12 (Rijndael.rd rk4 (8 * i) 4 ^^^ Rijndael.subWord (Rijndael.rd rk4 (8 * i) 11)) := ⟨_, rfl⟩
    obtain ⟨rk6, h6⟩ : ∃ x, x = Rijndael.wr rk5 (8 * i) 13 (Rijndael.rd rk5 (8 * i) 5 ^^^ Rijndael.rd rk5 (8 * i) 12) := ⟨_, rfl⟩
    obtain ⟨rk7, h7⟩ : ∃ x, x = Rijndael.wr rk6 (8 * i) 14 (Rijndael.rd rk6 (8 * i) 6 ^^^ Rijndael.rd rk6 (8 * i) 13) := ⟨_, rfl⟩
    obtain ⟨rk8, h8⟩ : ∃ x, x = Rijndael.wr rk7 (8 * i) 15 (Rijndael.rd rk7 (8 * i) 7 ^^^ Rijndael.rd rk7 (8 * i) 14) := ⟨_, rfl⟩
    rw [loop256_step fuel rk (8 * i) i rk1 rk2 rk3 rk4 rk5 rk6 rk7 rk8 h1 h2 h3 h4 h5 h6 h7 h8]
    have a1 : Agree rk1 (8 + 8 * i + 1) (W 8 w0) := by
      refine h.wr _ _ _ _ h1 (by omega) (by omega) ?_
      rw [h.rd _ _ (by omega), h.rd _ _ (by omega), rcon_eq i (by omega), UInt32.xor_assoc]
      exact (W_rot 8 w0 _ _ _ _ (by omega) (by omega) (by omega) (by omega)).symm
    have a2 : Agree rk2 (8 + 8 * i + 1 + 1) (W 8 w0) := by
      refine a1.wr _ _ _ _ h2 (by omega) (by omega) ?_
      rw [a1.rd _ _ (by omega), a1.rd _ _ (by omega)]
      exact (W_plain 8 w0 _ _ _ (by omega) (by omega) (by omega) (by omega) (by omega)).symm
    have a3 : Agree rk3 (8 + 8 * i + 1 + 1 + 1) (W 8 w0) := by
      refine a2.wr _ _ _ _ h3 (by omega) (by omega) ?_
      rw [a2.rd _ _ (by omega), a2.rd _ _ (by omega)]
      exact (W_plain 8 w0 _ _ _ (by omega) (by omega) (by omega) (by omega) (by omega)).symm
    have a4 : Agree rk4 (8 + 8 * i + 1 + 1 + 1 + 1) (W 8 w0) := by
      refine a3.wr _ _ _ _ h4 (by omega) (by omega) ?_
      rw [a3.rd _ _ (by omega), a3.rd _ _ (by omega)]
      exact (W_plain 8 w0 _ _ _ (by omega) (by omega) (by omega) (by omega) (by omega)).symm
    by_cases hlast : i + 1 = 7
    · rw [if_pos (by simp; omega)]
      exact a4.mono (by omega)
    · rw [if_neg (by simp; omega)]
      have a5 : Agree rk5 (8 + 8 * i + 1 + 1 + 1 + 1 + 1) (W 8 w0) := by
        refine a4.wr _ _ _ _ h5 (by omega) (by omega) ?_
        rw [a4.rd _ _ (by omega), a4.rd _ _ (by omega)]
        exact (W_sub 8 w0 _ _ _ (by omega) (by omega) (by omega) (by omega)).symm
      have a6 : Agree rk6 (8 + 8 * i + 1 + 1 + 1 + 1 + 1 + 1) (W 8 w0) := by
        refine a5.wr _ _ _ _ h6 (by omega) (by omega) ?_
        rw [a5.rd _ _ (by omega), a5.rd _ _ (by omega)]
        exact (W_plain 8 w0 _ _ _ (by omega) (by omega) (by omega) (by omega) (by omega)).symm
      have a7 : Agree rk7 (8 + 8 * i + 1 + 1 + 1 + 1 + 1 + 1 + 1) (W 8 w0) := by
        refine a6.wr _ _ _ _ h7 (by omega) (by omega) ?_
        rw [a6.rd _ _ (by omega), a6.rd _ _ (by omega)]
        exact (W_plain 8 w0 _ _ _ (by omega) (by omega) (by omega) (by omega) (by omega)).symm
      have a8 : Agree rk8 (8 + 8 * i + 1 + 1 + 1 + 1 + 1 + 1 + 1 + 1) (W 8 w0) := by
        refine a7.wr _ _ _ _ h8 (by omega) (by omega) ?_
        rw [a7.rd _ _ (by omega), a7.rd _ _ (by omega)]
        exact (W_plain 8 w0 _ _ _ (by omega) (by omega) (by omega) (by omega) (by omega)).symm
      have e : 8 * i + 8 = 8 * (i + 1) := by omega
      rw [e]
      exact ih rk8 (i + 1) (by omega) (a8.cast (by omega))

theorem Agree_init (V : Nat → UInt32) : Agree (Array.replicate Rijndael.rkWords 0) 0 V :=
  ⟨by simp [Rijndael.rkWords], fun m hm => absurd hm (Nat.not_lt_zero _)⟩

theorem keySetupEnc_128 (key : Bytes) (hlen : key.length = 16) :
    ∃ rk, Rijndael.keySetupEnc key = some (rk, 10) ∧ Agree rk 44 (W 4 (keyW key)) := by
  refine ⟨Rijndael.loop128 10 (Rijndael.wr (Rijndael.wr (Rijndael.wr (Rijndael.wr (Array.replicate Rijndael.rkWords 0) 0 0 (Rijndael.getu32 key 0)) 0 1 (Rijndael.getu32 key 4)) 0 2 (Rijndael.getu32 key 8)) 0 3 (Rijndael.getu32 key 12)) 0 0, ?_, ?_⟩
  · simp [Rijndael.keySetupEnc, hlen]
  · have a0 : Agree (Array.replicate Rijndael.rkWords 0) 0 (W 4 (keyW key)) := Agree_init _
    have a1 : Agree (Rijndael.wr (Array.replicate Rijndael.rkWords 0) 0 0 (Rijndael.getu32 key 0)) (0 + 1) (W 4 (keyW key)) :=
      a0.wr 0 0 _ _ rfl (by omega) (by omega) (W_lt 4 (keyW key) 0 (by omega)).symm
    have a2 : Agree (Rijndael.wr (Rijndael.wr (Array.replicate Rijndael.rkWords 0) 0 0 (Rijndael.getu32 key 0)) 0 1 (Rijndael.getu32 key 4)) (1 + 1) (W 4 (keyW key)) :=
      a1.wr 0 1 _ _ rfl (by omega) (by omega) (W_lt 4 (keyW key) 1 (by omega)).symm
    have a3 : Agree (Rijndael.wr (Rijndael.wr (Rijndael.wr (Array.replicate Rijndael.rkWords 0) 0 0 (Rijndael.getu32 key 0)) 0 1 (Rijndael.getu32 key 4)) 0 2 (Rijndael.getu32 key 8)) (2 + 1) (W 4 (keyW key)) :=
      a2.wr 0 2 _ _ rfl (by omega) (by omega) (W_lt 4 (keyW key) 2 (by omega)).symm
    have a4 : Agree (Rijndael.wr (Rijndael.wr (Rijndael.wr (Rijndael.wr (Array.replicate Rijndael.rkWords 0) 0 0 (Rijndael.getu32 key 0)) 0 1 (Rijndael.getu32 key 4)) 0 2 (Rijndael.getu32 key 8)) 0 3 (Rijndael.getu32 key 12)) (3 + 1) (W 4 (keyW key)) :=
      a3.wr 0 3 _ _ rfl (by omega) (by omega) (W_lt 4 (keyW key) 3 (by omega)).symm
    exact loop128_ok (keyW key) 10 _ 0 rfl a4

theorem keySetupEnc_192 (key : Bytes) (hlen : key.length = 24) :
    ∃ rk, Rijndael.keySetupEnc key = some (rk, 12) ∧ Agree rk 52 (W 6 (keyW key)) := by
  refine ⟨Rijndael.loop192 8 (Rijndael.wr (Rijndael.wr (Rijndael.wr (Rijndael.wr (Rijndael.wr (Rijndael.wr (Array.replicate Rijndael.rkWords 0) 0 0 (Rijndael.getu32 key 0)) 0 1 (Rijndael.getu32 key 4)) 0 2 (Rijndael.getu32 key 8)) 0 3 (Rijndael.getu32 key 12)) 0 4 (Rijndael.getu32 key 16)) 0 5 (Rijndael.getu32 key 20)) 0 0, ?_, ?_⟩
  · simp [Rijndael.keySetupEnc, hlen]
  · have a0 : Agree (Array.replicate Rijndael.rkWords 0) 0 (W 6 (keyW key)) := Agree_init _
    have a1 : Agree (Rijndael.wr (Array.replicate Rijndael.rkWords 0) 0 0 (Rijndael.getu32 key 0)) (0 + 1) (W 6 (keyW key)) :=
      a0.wr 0 0 _ _ rfl (by omega) (by omega) (W_lt 6 (keyW key) 0 (by omega)).symm
    have a2 : Agree (Rijndael.wr (Rijndael.wr (Array.replicate Rijndael.rkWords 0) 0 0 (Rijndael.getu32 key 0)) 0 1 (Rijndael.getu32 key 4)) (1 + 1) (W 6 (keyW key)) :=
      a1.wr 0 1 _ _ rfl (by omega) (by omega) (W_lt 6 (keyW key) 1 (by omega)).symm
    have a3 : Agree (Rijndael.wr (Rijndael.wr (Rijndael.wr (Array.replicate Rijndael.rkWords 0) 0 0 (Rijndael.getu32 key 0)) 0 1 (Rijndael.getu32 key 4)) 0 2 (Rijndael.getu32 key 8)) (2 + 1) (W 6 (keyW key)) :=
      a2.wr 0 2 _ _ rfl (by omega) (by omega) (W_lt 6 (keyW key) 2 (by omega)).symm
    have a4 : Agree (Rijndael.wr (Rijndael.wr (Rijndael.wr (Rijndael.wr (Array.replicate Rijndael.rkWords 0) 0 0 (Rijndael.getu32 key 0)) 0 1 (Rijndael.getu32 key 4)) 0 2 (Rijndael.getu32 key 8)) 0 3 (Rijndael.getu32 key 12)) (3 + 1) (W 6 (keyW key)) :=
      a3.wr 0 3 _ _ rfl (by omega) (by omega) (W_lt 6 (keyW key) 3 (by omega)).symm
    have a5 : Agree (Rijndael.wr (Rijndael.wr (Rijndael.wr (Rijndael.wr (Rijndael.wr (Array.replicate Rijndael.rkWords 0) 0 0 (Rijndael.getu32 key 0)) 0 1 (Rijndael.getu32 key 4)) 0 2 (Rijndael.getu32 key 8)) 0 3 (Rijndael.getu32 key 12)) 0 4 (Rijndael.getu32 key 16)) (4 + 1) (W 6 (keyW key)) :=
      a4.wr 0 4 _ _ rfl (by omega) (by omega) (W_lt 6 (keyW key) 4 (by omega)).symm
    have a6 : Agree (Rijndael.wr (Rijndael.wr (Rijndael.wr (Rijndael.wr (Rijndael.wr (Rijndael.wr (Array.replicate Rijndael.rkWords 0) 0 0 (Rijndael.getu32 key 0)) 0 1 (Rijndael.getu32 key 4)) 0 2 (Rijndael.getu32 key 8)) 0 3 (Rijndael.getu32 key 12)) 0 4 (Rijndael.getu32 key 16)) 0 5 (Rijndael.getu32 key 20)) (5 + 1) (W 6 (keyW key)) :=
      a5.wr 0 5 _ _ rfl (by omega) (by omega) (W_lt 6 (keyW key) 5 (by omega)).symm
    exact loop192_ok (keyW key) 8 _ 0 rfl a6

theorem keySetupEnc_256 (key : Bytes) (hlen : key.length = 32) :
    ∃ rk, Rijndael.keySetupEnc key = some (rk, 14) ∧ Agree rk 60 (W 8 (keyW key)) := by
  refine ⟨Rijndael.loop256 7 (Rijndael.wr (Rijndael.wr (Rijndael.wr (Rijndael.wr (Rijndael.wr (Rijndael.wr (Rijndael.wr (Rijndael.wr (Array.replicate Rijndael.rkWords 0) 0 0 (Rijndael.getu32 key 0)) 0 1 (Rijndael.getu32 key 4)) 0 2 (Rijndael.getu32 key 8)) 0 3 (Rijndael.getu32 key 12)) 0 4 (Rijndael.getu32 key 16)) 0 5 (Rijndael.getu32 key 20)) 0 6 (Rijndael.getu32 key 24)) 0 7 (Rijndael.getu32 key 28)) 0 0, ?_, ?_⟩
  · simp [Rijndael.keySetupEnc, hlen]
  · have a0 : Agree (Array.replicate Rijndael.rkWords 0) 0 (W 8 (keyW key)) := Agree_init _
    have a1 : Agree (Rijndael.wr (Array.replicate Rijndael.rkWords 0) 0 0 (Rijndael.getu32 key 0)) (0 + 1) (W 8 (keyW key)) :=
      a0.wr 0 0 _ _ rfl (by omega) (by omega) (W_lt 8 (keyW key) 0 (by omega)).symm
    have a2 : Agree (Rijndael.wr (Rijndael.wr (Array.replicate Rijndael.rkWords 0) 0 0 (Rijndael.getu32 key 0)) 0 1 (Rijndael.getu32 key 4)) (1 + 1) (W 8 (keyW key)) :=
      a1.wr 0 1 _ _ rfl (by omega) (by omega) (W_lt 8 (keyW key) 1 (by omega)).symm
    have a3 : Agree (Rijndael.wr (Rijndael.wr (Rijndael.wr (Array.replicate Rijndael.rkWords 0) 0 0 (Rijndael.getu32 key 0)) 0 1 (Rijndael.getu32 key 4)) 0 2 (Rijndael.getu32 key 8)) (2 + 1) (W 8 (keyW key)) :=
      a2.wr 0 2 _ _ rfl (by omega) (by omega) (W_lt 8 (keyW key) 2 (by omega)).symm
    have a4 : Agree (Rijndael.wr (Rijndael.wr (Rijndael.wr (Rijndael.wr (Array.replicate Rijndael.rkWords 0) 0 0 (Rijndael.getu32 key 0)) 0 1 (Rijndael.getu32 key 4)) 0 2 (Rijndael.getu32 key 8)) 0 3 (Rijndael.getu32 key 12)) (3 + 1) (W 8 (keyW key)) :=
      a3.wr 0 3 _ _ rfl (by omega) (by omega) (W_lt 8 (keyW key) 3 (by omega)).symm
    have a5 : Agree (Rijndael.wr (Rijndael.wr (Rijndael.wr (Rijndael.wr (Rijndael.wr (Array.replicate Rijndael.rkWords 0) 0 0 (Rijndael.getu32 key 0)) 0 1 (Rijndael.getu32 key 4)) 0 2 (Rijndael.getu32 key 8)) 0 3 (Rijndael.getu32 key 12)) 0 4 (Rijndael.getu32 key 16)) (4 + 1) (W 8 (keyW key)) :=
      a4.wr 0 4 _ _ rfl (by omega) (by omega) (W_lt 8 (keyW key) 4 (by omega)).symm
    have a6 : Agree (Rijndael.wr (Rijndael.wr (Rijndael.wr (Rijndael.wr (Rijndael.wr (Rijndael.wr (Array.replicate Rijndael.rkWords 0) 0 0 (Rijndael.getu32 key 0)) 0 1 (Rijndael.getu32 key 4)) 0 2 (Rijndael.getu32 key 8)) 0 3 (Rijndael.getu32 key 12)) 0 4 (Rijndael.getu32 key 16)) 0 5 (Rijndael.getu32 key 20)) (5 + 1) (W 8 (keyW key)) :=
      a5.wr 0 5 _ _ rfl (by omega) (by omega) (W_lt 8 (keyW key) 5 (by omega)).symm
    have a7 : Agree (Rijndael.wr (Rijndael.wr (Rijndael.wr (Rijndael.wr (Rijndael.wr (Rijndael.wr (Rijndael.wr (Array.replicate Rijndael.rkWords 0) 0 0 (Rijndael.getu32 key 0)) 0 1 (Rijndael.getu32 key 4)) 0 2 (Rijndael.getu32 key 8)) 0 3 (Rijndael.getu32 key 12)) 0 4 (Rijndael.getu32 key 16)) 0 5 (Rijndael.getu32 key 20)) 0 6 (Rijndael.getu32 key 24)) (6 + 1) (W 8 (keyW key)) :=
      a6.wr 0 6 _ _ rfl (by omega) (by omega) (W_lt 8 (keyW key) 6 (by omega)).symm
    have a8 : Agree (Rijndael.wr (Rijndael.wr (Rijndael.wr (Rijndael.wr (Rijndael.wr (Rijndael.wr (Rijndael.wr (Rijndael.wr (Array.replicate Rijndael.rkWords 0) 0 0 (Rijndael.getu32 key 0)) 0 1 (Rijndael.getu32 key 4)) 0 2 (Rijndael.getu32 key 8)) 0 3 (Rijndael.getu32 key 12)) 0 4 (Rijndael.getu32 key 16)) 0 5 (Rijndael.getu32 key 20)) 0 6 (Rijndael.getu32 key 24)) 0 7 (Rijndael.getu32 key 28)) (7 + 1) (W 8 (keyW key)) :=
      a7.wr 0 7 _ _ rfl (by omega) (by omega) (W_lt 8 (keyW key) 7 (by omega)).symm
    exact loop256_ok (keyW key) 7 _ 0 rfl a8

theorem RkOK_of_Agree (key : Bytes) (nk : Nat) (hnk : key.length / 4 = nk) (h4 : 4 ≤ key.length) (rk : Array UInt32)
    (h : Agree rk (4 * (nk + 6 + 1)) (W nk (keyW key))) : RkOK rk (keyExpansion key) := by
  obtain ⟨hl, hw⟩ := keyExpansion_W key h4
  rw [hnk] at hl hw
  intro r hr c hc
  rw [hl] at hr
  rw [hw r hr c hc]
  exact h.2 _ (by omega)

/-- K1: the encryption key schedule of the C text writes the FIPS 197 expanded key, for every key -/
theorem keySetupEnc_ok (key : Bytes) (hk : key.length = 16 ∨ key.length = 24 ∨ key.length = 32) :
    ∃ rk, Rijndael.keySetupEnc key = some (rk, key.length / 4 + 6) ∧ RkOK rk (keyExpansion key) ∧
      (keyExpansion key).length = key.length / 4 + 6 + 1 := by
  have hl := (keyExpansion_W key (by omega)).1
  rcases hk with h | h | h
  · obtain ⟨rk, e, ag⟩ := keySetupEnc_128 key h
    have hnk : key.length / 4 = 4 := by omega
    exact ⟨rk, by rw [e, hnk], RkOK_of_Agree key 4 hnk (by omega) rk ag, hl⟩
  · obtain ⟨rk, e, ag⟩ := keySetupEnc_192 key h
    have hnk : key.length / 4 = 6 := by omega
    exact ⟨rk, by rw [e, hnk], RkOK_of_Agree key 6 hnk (by omega) rk ag, hl⟩
  · obtain ⟨rk, e, ag⟩ := keySetupEnc_256 key h
    have hnk : key.length / 4 = 8 := by omega
    exact ⟨rk, by rw [e, hnk], RkOK_of_Agree key 8 hnk (by omega) rk ag, hl⟩

/-! ## towards K2 (decryption key schedule): one word of the InvMixColumns loop -/

open Relic.Lemmas.Aes (row) in
theorem Td_X : ∀ i, i < 256 → (let x := UInt8.ofNat i;
    Gen.AesTables.Td0.getD i 0 = X (gmul 0x0e (invSbox x)) (gmul 0x09 (invSbox x)) (gmul 0x0d (invSbox x)) (gmul 0x0b (invSbox x)) ∧
    Gen.AesTables.Td1.getD i 0 = X (gmul 0x0b (invSbox x)) (gmul 0x0e (invSbox x)) (gmul 0x09 (invSbox x)) (gmul 0x0d (invSbox x)) ∧
    Gen.AesTables.Td2.getD i 0 = X (gmul 0x0d (invSbox x)) (gmul 0x0b (invSbox x)) (gmul 0x0e (invSbox x)) (gmul 0x09 (invSbox x)) ∧
    Gen.AesTables.Td3.getD i 0 = X (gmul 0x09 (invSbox x)) (gmul 0x0d (invSbox x)) (gmul 0x0b (invSbox x)) (gmul 0x0e (invSbox x))) := by
  simp only [Relic.Lemmas.AesTables.invSbox_eq]
  decide +kernel

theorem tab_Td (a : UInt8) :
    Rijndael.tab Gen.AesTables.Td0 a.toUInt32 = X (gmul 0x0e (invSbox a)) (gmul 0x09 (invSbox a)) (gmul 0x0d (invSbox a)) (gmul 0x0b (invSbox a)) ∧
    Rijndael.tab Gen.AesTables.Td1 a.toUInt32 = X (gmul 0x0b (invSbox a)) (gmul 0x0e (invSbox a)) (gmul 0x09 (invSbox a)) (gmul 0x0d (invSbox a)) ∧
    Rijndael.tab Gen.AesTables.Td2 a.toUInt32 = X (gmul 0x0d (invSbox a)) (gmul 0x0b (invSbox a)) (gmul 0x0e (invSbox a)) (gmul 0x09 (invSbox a)) ∧
    Rijndael.tab Gen.AesTables.Td3 a.toUInt32 = X (gmul 0x09 (invSbox a)) (gmul 0x0d (invSbox a)) (gmul 0x0b (invSbox a)) (gmul 0x0e (invSbox a)) := by
  have := Td_X a.toNat (UInt8.toNat_lt a)
  simpa [Rijndael.tab] using this

/-- `Td0[Te4[w >> 24] & 0xff] ^ Td1[…] ^ Td2[…] ^ Td3[…]` is InvMixColumns of the column held big-endian in `w` -/
theorem invMixWord_X (a b c d : UInt8) : Rijndael.invMixWord (X a b c d) =
    X (Relic.Lemmas.Aes.row 0x0e 0x0b 0x0d 0x09 a b c d) (Relic.Lemmas.Aes.row 0x09 0x0e 0x0b 0x0d a b c d)
      (Relic.Lemmas.Aes.row 0x0d 0x09 0x0e 0x0b a b c d) (Relic.Lemmas.Aes.row 0x0b 0x0d 0x09 0x0e a b c d) := by
  unfold Rijndael.invMixWord
  rw [b3_X, b2_X, b1_X, b0_X, (tab_Te4_masks a).2.2.2, (tab_Te4_masks b).2.2.2, (tab_Te4_masks c).2.2.2,
    (tab_Te4_masks d).2.2.2, (tab_Td (sbox a)).1, (tab_Td (sbox b)).2.1, (tab_Td (sbox c)).2.2.1,
    (tab_Td (sbox d)).2.2.2]
  simp only [Relic.Lemmas.Aes.invSbox_sbox]
  unfold Relic.Lemmas.Aes.row
  rw [X_xor, X_xor, X_xor]

/-- the same on the byte lists of the specification -/
theorem invMixWord_toW (a b c d : UInt8) :
    Rijndael.invMixWord (toW [a, b, c, d]) = toW (mixColumn [0x0e, 0x0b, 0x0d, 0x09] [a, b, c, d]) := by
  rw [Relic.Lemmas.Aes.mixColumn_four, toW_four, toW_four, invMixWord_X]

/-- one iteration of `invMixLoop` on the four big-endian words of a 16-byte round key is InvMixColumns of the key
(the per-word fact behind K2) -/
theorem invMixColumns_words_partial (s : Bytes) (h : s.length = 16) (c : Nat) (hc : c < 4) :
    Rijndael.getu32 (invMixColumns s) (4 * c) = Rijndael.invMixWord (Rijndael.getu32 s (4 * c)) := by
  obtain ⟨a0, a1, a2, a3, a4, a5, a6, a7, a8, a9, a10, a11, a12, a13, a14, a15, rfl⟩ :=
    Relic.Lemmas.Aes.exists_sixteen s h
  unfold invMixColumns
  rw [Relic.Lemmas.Aes.mixColumns_sixteen]
  simp only [Relic.Lemmas.Aes.mixColumn_four, List.cons_append, List.nil_append]
  have hc' : c = 0 ∨ c = 1 ∨ c = 2 ∨ c = 3 := by omega
  rcases hc' with rfl | rfl | rfl | rfl
  · exact (invMixWord_X a0 a1 a2 a3).symm
  · exact (invMixWord_X a4 a5 a6 a7).symm
  · exact (invMixWord_X a8 a9 a10 a11).symm
  · exact (invMixWord_X a12 a13 a14 a15).symm

/-! ## K2: the swap loop -/

/-- the reading function after k words of rows i.. and j.. have been exchanged -/
def sr (f : Nat → UInt32) (i j k m : Nat) : UInt32 :=
  if i ≤ m ∧ m < i + k then f (j + (m - i)) else if j ≤ m ∧ m < j + k then f (i + (m - j)) else f m

theorem sr_zero (f : Nat → UInt32) (i j m : Nat) : sr f i j 0 m = f m := by
  unfold sr
  rw [if_neg (by omega), if_neg (by omega)]

theorem swap_stage (f : Nat → UInt32) (a a' : Array UInt32) (i j k : Nat) (hsz : a.size = 60)
    (h : ∀ m, a.getD m 0 = sr f i j k m) (hij : i + 4 ≤ j) (hj : j + 4 ≤ 60) (hk : k < 4)
    (ha' : a' = (a.setIfInBounds (i + k) (a.getD (j + k) 0)).setIfInBounds (j + k) (a.getD (i + k) 0)) :
    a'.size = 60 ∧ ∀ m, a'.getD m 0 = sr f i j (k + 1) m := by
  subst ha'
  refine ⟨by simp [hsz], ?_⟩
  intro m
  rw [getD_setIfInBounds _ _ _ _ (by simp [hsz]; omega), getD_setIfInBounds _ _ _ _ (by rw [hsz]; omega)]
  simp only [h]
  unfold sr
  repeat' split
  all_goals first | rfl | omega | (congr 1; omega)

theorem swapLoop_step (fuel : Nat) (a : Array UInt32) (i j : Nat) (a1 a2 a3 a4 : Array UInt32)
    (h1 : a1 = (a.setIfInBounds (i + 0) (a.getD (j + 0) 0)).setIfInBounds (j + 0) (a.getD (i + 0) 0))
    (h2 : a2 = (a1.setIfInBounds (i + 1) (a1.getD (j + 1) 0)).setIfInBounds (j + 1) (a1.getD (i + 1) 0))
    (h3 : a3 = (a2.setIfInBounds (i + 2) (a2.getD (j + 2) 0)).setIfInBounds (j + 2) (a2.getD (i + 2) 0))
    (h4 : a4 = (a3.setIfInBounds (i + 3) (a3.getD (j + 3) 0)).setIfInBounds (j + 3) (a3.getD (i + 3) 0)) :
    Rijndael.swapLoop (fuel + 1) a i j = if i < j then Rijndael.swapLoop fuel a4 (i + 4) (j - 4) else a := by
  subst h4 h3 h2 h1
  rfl

/-- rows below t and above nr - t have been exchanged with their mirror images -/
def swT (nr : Nat) (g : Nat → UInt32) (t m : Nat) : UInt32 :=
  if m < 4 * t then g (4 * (nr - m / 4) + m % 4)
  else if 4 * (nr - t) + 4 ≤ m ∧ m < 4 * (nr + 1) then g (4 * (nr - m / 4) + m % 4)
  else g m

theorem swapLoop_ok (nr : Nat) (g : Nat → UInt32) (hnr : nr ≤ 14) : ∀ fuel a t, nr ≤ fuel + 2 * t → 2 * t ≤ nr + 1 →
    a.size = 60 → (∀ m, a.getD m 0 = swT nr g t m) →
    (Rijndael.swapLoop fuel a (4 * t) (4 * (nr - t))).size = 60 ∧
    ∀ m, m < 4 * (nr + 1) →
      (Rijndael.swapLoop fuel a (4 * t) (4 * (nr - t))).getD m 0 = g (4 * (nr - m / 4) + m % 4) := by
  have hexit : ∀ (a : Array UInt32) t, nr ≤ 2 * t → 2 * t ≤ nr + 1 → (∀ m, a.getD m 0 = swT nr g t m) →
      ∀ m, m < 4 * (nr + 1) → a.getD m 0 = g (4 * (nr - m / 4) + m % 4) := by
    intro a t h1 h2 h m hm
    rw [h m]
    unfold swT
    repeat' split
    all_goals first | rfl | omega | (congr 1; omega)
  intro fuel
  induction fuel with
  | zero =>
    intro a t hf ht hsz h
    exact ⟨hsz, hexit a t (by omega) ht h⟩
  | succ fuel ih =>
    intro a t hf ht hsz h
    obtain ⟨a1, h1⟩ : ∃ x, x = (a.setIfInBounds (4 * t + 0) (a.getD (4 * (nr - t) + 0) 0)).setIfInBounds
      (4 * (nr - t) + 0) (a.getD (4 * t + 0) 0) := ⟨_, rfl⟩
    obtain ⟨a2, h2⟩ : ∃ x, x = (a1.setIfInBounds (4 * t + 1) (a1.getD (4 * (nr - t) + 1) 0)).setIfInBounds
      (4 * (nr - t) + 1) (a1.getD (4 * t + 1) 0) := ⟨_, rfl⟩
    obtain ⟨a3, h3⟩ : ∃ x, x = (a2.setIfInBounds (4 * t + 2) (a2.getD (4 * (nr - t) + 2) 0)).setIfInBounds
      (4 * (nr - t) + 2) (a2.getD (4 * t + 2) 0) := ⟨_, rfl⟩
    obtain ⟨a4, h4⟩ : ∃ x, x = (a3.setIfInBounds (4 * t + 3) (a3.getD (4 * (nr - t) + 3) 0)).setIfInBounds
      (4 * (nr - t) + 3) (a3.getD (4 * t + 3) 0) := ⟨_, rfl⟩
    rw [swapLoop_step fuel a (4 * t) (4 * (nr - t)) a1 a2 a3 a4 h1 h2 h3 h4]
    by_cases hlt : 4 * t < 4 * (nr - t)
    · rw [if_pos hlt]
      have hij : 4 * t + 4 ≤ 4 * (nr - t) := by omega
      have hj : 4 * (nr - t) + 4 ≤ 60 := by omega
      have s0 : ∀ m, a.getD m 0 = sr (fun m => a.getD m 0) (4 * t) (4 * (nr - t)) 0 m :=
        fun m => (sr_zero (fun m => a.getD m 0) _ _ m).symm
      obtain ⟨z1, s1⟩ := swap_stage _ a a1 _ _ 0 hsz s0 hij hj (by omega) h1
      obtain ⟨z2, s2⟩ := swap_stage _ a1 a2 _ _ 1 z1 s1 hij hj (by omega) h2
      obtain ⟨z3, s3⟩ := swap_stage _ a2 a3 _ _ 2 z2 s2 hij hj (by omega) h3
      obtain ⟨z4, s4⟩ := swap_stage _ a3 a4 _ _ 3 z3 s3 hij hj (by omega) h4
      have e1 : 4 * t + 4 = 4 * (t + 1) := by omega
      have e2 : 4 * (nr - t) - 4 = 4 * (nr - (t + 1)) := by omega
      rw [e1, e2]
      refine ih a4 (t + 1) (by omega) (by omega) z4 ?_
      intro m
      rw [s4 m]
      unfold sr
      simp only [h]
      unfold swT
      repeat' split
      all_goals first | rfl | omega | (congr 1; omega)
    · rw [if_neg hlt]
      exact ⟨hsz, hexit a t (by omega) ht h⟩

/-! ## K2: the InvMixColumns loop -/

/-- the reading function after the words o .. o + k - 1 have been replaced by their `invMixWord` -/
def st (f : Nat → UInt32) (o k m : Nat) : UInt32 :=
  if o ≤ m ∧ m < o + k then Rijndael.invMixWord (f m) else f m

theorem mix_stage (f : Nat → UInt32) (a a' : Array UInt32) (o k : Nat) (hsz : a.size = 60)
    (h : ∀ m, a.getD m 0 = st f o k m) (ho : o + k < 60)
    (ha' : a' = Rijndael.wr a o k (Rijndael.invMixWord (Rijndael.rd a o k))) :
    a'.size = 60 ∧ ∀ m, a'.getD m 0 = st f o (k + 1) m := by
  subst ha'
  unfold Rijndael.wr Rijndael.rd
  refine ⟨by simp [hsz], ?_⟩
  intro m
  rw [getD_setIfInBounds _ _ _ _ (by rw [hsz]; omega)]
  by_cases hm : m = o + k
  · subst hm
    rw [if_pos rfl, h]
    unfold st
    rw [if_neg (show ¬ (o ≤ o + k ∧ o + k < o + k) by omega),
      if_pos (show o ≤ o + k ∧ o + k < o + (k + 1) by omega)]
  · rw [if_neg hm, h]
    unfold st
    by_cases hin : o ≤ m ∧ m < o + k
    · rw [if_pos hin, if_pos (show o ≤ m ∧ m < o + (k + 1) by omega)]
    · rw [if_neg hin, if_neg (show ¬ (o ≤ m ∧ m < o + (k + 1)) by omega)]

theorem invMixLoop_step (cnt : Nat) (a : Array UInt32) (off : Nat) (a1 a2 a3 a4 : Array UInt32)
    (h1 : a1 = Rijndael.wr a (off + 4) 0 (Rijndael.invMixWord (Rijndael.rd a (off + 4) 0)))
    (h2 : a2 = Rijndael.wr a1 (off + 4) 1 (Rijndael.invMixWord (Rijndael.rd a1 (off + 4) 1)))
    (h3 : a3 = Rijndael.wr a2 (off + 4) 2 (Rijndael.invMixWord (Rijndael.rd a2 (off + 4) 2)))
    (h4 : a4 = Rijndael.wr a3 (off + 4) 3 (Rijndael.invMixWord (Rijndael.rd a3 (off + 4) 3))) :
    Rijndael.invMixLoop (cnt + 1) a off = Rijndael.invMixLoop cnt a4 (off + 4) := by
  subst h4 h3 h2 h1
  rfl

theorem invMixLoop_ok (g : Nat → UInt32) : ∀ cnt a s, 4 + 4 * (s + cnt) + 4 ≤ 60 → a.size = 60 →
    (∀ m, a.getD m 0 = st g 4 (4 * s) m) →
    (Rijndael.invMixLoop cnt a (4 * s)).size = 60 ∧
    ∀ m, (Rijndael.invMixLoop cnt a (4 * s)).getD m 0 = st g 4 (4 * (s + cnt)) m := by
  intro cnt
  induction cnt with
  | zero =>
    intro a s _ hsz h
    exact ⟨hsz, h⟩
  | succ cnt ih =>
    intro a s hb hsz h
    obtain ⟨a1, h1⟩ : ∃ x, x = Rijndael.wr a (4 * s + 4) 0 (Rijndael.invMixWord (Rijndael.rd a (4 * s + 4) 0)) := ⟨_, rfl⟩
    obtain ⟨a2, h2⟩ : ∃ x, x = Rijndael.wr a1 (4 * s + 4) 1 (Rijndael.invMixWord (Rijndael.rd a1 (4 * s + 4) 1)) := ⟨_, rfl⟩
    obtain ⟨a3, h3⟩ : ∃ x, x = Rijndael.wr a2 (4 * s + 4) 2 (Rijndael.invMixWord (Rijndael.rd a2 (4 * s + 4) 2)) := ⟨_, rfl⟩
    obtain ⟨a4, h4⟩ : ∃ x, x = Rijndael.wr a3 (4 * s + 4) 3 (Rijndael.invMixWord (Rijndael.rd a3 (4 * s + 4) 3)) := ⟨_, rfl⟩
    rw [invMixLoop_step cnt a (4 * s) a1 a2 a3 a4 h1 h2 h3 h4]
    have s0 : ∀ m, a.getD m 0 = st (fun m => a.getD m 0) (4 * s + 4) 0 m := by
      intro m
      unfold st
      rw [if_neg (by omega)]
    obtain ⟨z1, s1⟩ := mix_stage _ a a1 _ 0 hsz s0 (by omega) h1
    obtain ⟨z2, s2⟩ := mix_stage _ a1 a2 _ 1 z1 s1 (by omega) h2
    obtain ⟨z3, s3⟩ := mix_stage _ a2 a3 _ 2 z2 s2 (by omega) h3
    obtain ⟨z4, s4⟩ := mix_stage _ a3 a4 _ 3 z3 s3 (by omega) h4
    have e1 : 4 * s + 4 = 4 * (s + 1) := by omega
    have e2 : s + (cnt + 1) = (s + 1) + cnt := by omega
    rw [e1, e2]
    refine ih a4 (s + 1) (by omega) z4 ?_
    intro m
    rw [s4 m]
    simp only [st, h]
    by_cases hin : 4 * s + 4 ≤ m ∧ m < 4 * s + 4 + (3 + 1)
    · rw [if_pos hin, if_neg (show ¬ (4 ≤ m ∧ m < 4 + 4 * s) by omega),
        if_pos (show 4 ≤ m ∧ m < 4 + 4 * (s + 1) by omega)]
    · rw [if_neg hin]
      by_cases h2 : 4 ≤ m ∧ m < 4 + 4 * s
      · rw [if_pos h2, if_pos (show 4 ≤ m ∧ m < 4 + 4 * (s + 1) by omega)]
      · rw [if_neg h2, if_neg (show ¬ (4 ≤ m ∧ m < 4 + 4 * (s + 1)) by omega)]

/-! ## K2: assembly -/

theorem getD_reverse (l : List Bytes) (r : Nat) (hr : r < l.length) :
    l.reverse.getD r [] = l.getD (l.length - 1 - r) [] := by
  rw [List.getD_eq_getElem?_getD, List.getD_eq_getElem?_getD, List.getElem?_reverse hr]

theorem keySetupDec_of_enc (key : Bytes) (nk nr : Nat) (hnk : key.length / 4 = nk) (hnr : nr = nk + 6)
    (h4 : 4 ≤ key.length) (hnr14 : nr ≤ 14) (rk : Array UInt32)
    (he : Rijndael.keySetupEnc key = some (rk, nr)) (ag : Agree rk (4 * (nr + 1)) (W nk (keyW key))) :
    ∃ rk', Rijndael.keySetupDec key = some (rk', nr) ∧ RkOK rk' (eqInvKeys (keyExpansion key)).reverse := by
  refine ⟨Rijndael.invMixLoop (nr - 1) (Rijndael.swapLoop (nr + 1) rk 0 (4 * nr)) 0, ?_, ?_⟩
  · simp only [Rijndael.keySetupDec, he]
  · obtain ⟨hl, hw⟩ := keyExpansion_W key h4
    rw [hnk, ← hnr] at hl hw
    obtain ⟨hne, h16⟩ := Relic.Lemmas.Aes.keyExpansion_length_of_ge key h4
    -- the swap loop
    have hs0 : ∀ m, rk.getD m 0 = swT nr (fun m => rk.getD m 0) 0 m := by
      intro m
      unfold swT
      rw [if_neg (by omega), if_neg (by omega)]
    obtain ⟨zs, hs⟩ := swapLoop_ok nr (fun m => rk.getD m 0) hnr14 (nr + 1) rk 0 (by omega) (by omega) ag.1 hs0
    have e0 : 4 * (nr - 0) = 4 * nr := rfl
    rw [Nat.mul_zero, e0] at zs hs
    generalize Rijndael.swapLoop (nr + 1) rk 0 (4 * nr) = sw at zs hs
    -- the InvMixColumns loop
    have hm0 : ∀ m, sw.getD m 0 = st (fun m => sw.getD m 0) 4 (4 * 0) m := by
      intro m
      unfold st
      rw [if_neg (by omega)]
    obtain ⟨_, hm⟩ := invMixLoop_ok (fun m => sw.getD m 0) (nr - 1) sw 0 (by omega) zs hm0
    rw [Nat.mul_zero] at hm
    generalize Rijndael.invMixLoop (nr - 1) sw 0 = fin at hm
    -- comparison with the specification
    intro r hr c hc
    rw [List.length_reverse, Relic.Lemmas.AesEqInv.eqInvKeys_length _ hne, hl] at hr
    rw [getD_reverse _ _ (by rw [Relic.Lemmas.AesEqInv.eqInvKeys_length _ hne, hl]; exact hr),
      Relic.Lemmas.AesEqInv.eqInvKeys_length _ hne, hl,
      Relic.Lemmas.AesEqInv.eqInvKeys_getD _ _ (by rw [hl]; omega), hl]
    have hsw : sw.getD (4 * r + c) 0 = Rijndael.getu32 ((keyExpansion key).getD (nr + 1 - 1 - r) []) (4 * c) := by
      rw [hs (4 * r + c) (by omega), hw (nr + 1 - 1 - r) (by omega) c hc]
      show rk.getD _ 0 = _
      rw [ag.2 _ (by omega)]
      congr 1
      omega
    rw [hm (4 * r + c)]
    simp only [st]
    split
    · rename_i hmid
      rw [if_neg (by omega), hsw]
      exact (invMixColumns_words_partial _
        (Relic.Lemmas.Aes.getD_length16 _ h16 _ (by rw [hl]; omega)) c hc).symm
    · rename_i hmid
      rw [if_pos (by omega)]
      exact hsw

/-- K2: the decryption key schedule of the C text writes the round keys of the FIPS 197 §5.3.5 equivalent inverse
cipher, last round key first, for every key -/
theorem keySetupDec_ok (key : Bytes) (hk : key.length = 16 ∨ key.length = 24 ∨ key.length = 32) :
    ∃ rk, Rijndael.keySetupDec key = some (rk, key.length / 4 + 6) ∧
      RkOK rk (eqInvKeys (keyExpansion key)).reverse := by
  rcases hk with h | h | h
  · obtain ⟨rk, e, ag⟩ := keySetupEnc_128 key h
    have hnk : key.length / 4 = 4 := by omega
    rw [hnk]
    exact keySetupDec_of_enc key 4 10 hnk rfl (by omega) (by omega) rk e ag
  · obtain ⟨rk, e, ag⟩ := keySetupEnc_192 key h
    have hnk : key.length / 4 = 6 := by omega
    rw [hnk]
    exact keySetupDec_of_enc key 6 12 hnk rfl (by omega) (by omega) rk e ag
  · obtain ⟨rk, e, ag⟩ := keySetupEnc_256 key h
    have hnk : key.length / 4 = 8 := by omega
    rw [hnk]
    exact keySetupDec_of_enc key 8 14 hnk rfl (by omega) (by omega) rk e ag

end Relic.Lemmas.Rijndael.Key



