/-
The many-point routines of Model/EpMul.lean (ep_mul_sim_lot plain / endomorphism with interleaved binary NAFs, the bucket form
above ten points, ep_mul_sim_dig) compute Σ kᵢ•Pᵢ, and the GLV loops (ep_mul_glv_imp, ep_mul_sim_endom) compute
k0•P + k1•ψ(P) (resp. the four-term sum) for an additive endomorphism ψ.
-/
import Mathlib.Algebra.Group.Basic
import Mathlib.Algebra.Module.Basic
import Mathlib.Algebra.BigOperators.Group.Finset.Basic
import Mathlib.Algebra.BigOperators.Ring.Finset
import Mathlib.Algebra.BigOperators.Group.List.Basic
import Mathlib.Data.List.GetD
import Mathlib.Tactic.Abel
import Mathlib.Tactic.Ring
import Mathlib.Tactic.Linarith
import Mathlib.Tactic.LinearCombination
import Mathlib.Tactic.Module
import RelicVerif.Model.EpMul
import RelicVerif.Lemmas.EbMul

namespace Relic.Lemmas.EpSim
open Relic.Model Relic.Model.MulAlg Relic.Model.EbMul Relic.Model.EpMul Relic.Lemmas.EbMul

variable {G : Type} [AddCommGroup G]

/-- sign of a sub-scalar as an integer factor -/
def sg (neg : Bool) : ℤ := if neg then -1 else 1

/-! ### generic lemmas -/

theorem horner (m : ℕ) : ∀ (F : ℕ → G) (r0 : G),
    (List.range m).reverse.foldl (fun r i => (2 : ℤ) • r + F i) r0
      = (2 ^ m : ℤ) • r0 + ∑ i ∈ Finset.range m, (2 ^ i : ℤ) • F i := by
  induction m with
  | zero => intro F r0; simp
  | succ m ih =>
    intro F r0
    rw [List.range_succ, List.reverse_append, List.reverse_singleton, List.singleton_append, List.foldl_cons, ih,
      Finset.sum_range_succ]
    simp only [smul_add, smul_smul, pow_succ]
    abel

theorem eval_eq_sum : ∀ (l : ℕ) (ds : List ℤ), ds.length ≤ l →
    Rec.eval 1 ds = ∑ i ∈ Finset.range l, 2 ^ i * ds.getD i 0 := by
  intro l
  induction l with
  | zero =>
    intro ds h
    have : ds = [] := List.length_eq_zero_iff.1 (by omega)
    subst this; simp
  | succ l ih =>
    intro ds h
    cases ds with
    | nil => simp
    | cons d t =>
      rw [Rec.eval_cons, Finset.sum_range_succ', ih t (by simpa using h), Finset.mul_sum]
      simp only [List.getD_cons_succ, List.getD_cons_zero, pow_zero, one_mul, pow_one]
      rw [add_comm]; congr 1
      apply Finset.sum_congr rfl; intro i _; ring

theorem fsum_smul (f : ℕ → ℤ) (x : G) (l : ℕ) :
    (∑ i ∈ Finset.range l, f i) • x = ∑ i ∈ Finset.range l, f i • x := by
  induction l with
  | zero => simp
  | succ l ih => rw [Finset.sum_range_succ, Finset.sum_range_succ, add_smul, ih]

theorem sum_exchange {α : Type} (pt : α → G) (dg : α → ℕ → ℤ) (l : ℕ) (L : List α) :
    ∑ i ∈ Finset.range l, (2 ^ i : ℤ) • (L.map fun a => dg a i • pt a).sum
      = (L.map fun a => (∑ i ∈ Finset.range l, 2 ^ i * dg a i) • pt a).sum := by
  induction L with
  | nil => simp
  | cons a t ih =>
    simp only [List.map_cons, List.sum_cons, smul_add, Finset.sum_add_distrib, ih, fsum_smul, mul_smul]

/-- a left-to-right loop whose step is `2r + Σ_a (digit of a at i) • (point of a)` -/
theorem lot_master {α : Type} (L : List α) (pt : α → G) (dg : α → ℕ → ℤ) (l : ℕ) (step : ℕ → G → G)
    (hstep : ∀ i r, step i r = (2 : ℤ) • r + (L.map fun a => dg a i • pt a).sum) :
    (List.range l).reverse.foldl (fun r i => step i r) 0
      = (L.map fun a => (∑ i ∈ Finset.range l, 2 ^ i * dg a i) • pt a).sum := by
  simp only [hstep]
  rw [horner l (fun i => (L.map fun a => dg a i • pt a).sum) 0, smul_zero, zero_add, sum_exchange]

theorem signStep (r t : G) (u : ℤ) :
    (if u > 0 then gops.add r t else if u < 0 then gops.sub r t else r) = r + u.sign • t := by
  rcases lt_trichotomy u 0 with h | h | h
  · rw [if_neg (by omega), if_pos h, Int.sign_eq_neg_one_of_neg h]; simp [sub_eq_add_neg]
  · subst h; simp
  · rw [if_pos h, Int.sign_eq_one_of_pos h]; simp

theorem signFold (i : ℕ) : ∀ (L : List (G × List ℤ)) (r : G),
    L.foldl (fun r (pn : G × List Int) =>
      let d := pn.2.getD i 0
      if d > 0 then gops.add r pn.1 else if d < 0 then gops.sub r pn.1 else r) r
    = r + (L.map fun pn => (pn.2.getD i 0).sign • pn.1).sum := by
  intro L
  induction L with
  | nil => intro r; simp
  | cons a t ih =>
    intro r
    rw [List.foldl_cons, ih, List.map_cons, List.sum_cons, ← add_assoc]
    congr 1
    exact signStep r a.1 _

theorem getD_map_sign (ds : List ℤ) (i : ℕ) : (ds.map Int.sign).getD i 0 = (ds.getD i 0).sign := by
  have : (ds.map Int.sign).getD i (Int.sign 0) = Int.sign (ds.getD i 0) := List.getD_map ..
  simpa using this

/-- ep_mul_sim_lot_plain / the n ≤ 10 branch of ep_mul_sim_lot_endom: every digit string at most l long -/
theorem simLotNaf_spec (ps : List G) (nafs : List (List Int)) (l : Nat) (hl : ∀ nf ∈ nafs, nf.length ≤ l) :
    simLotNaf gops ps nafs l = ((ps.zip nafs).map fun pn => (Rec.eval 1 (pn.2.map Int.sign)) • pn.1).sum := by
  unfold simLotNaf
  have := lot_master (ps.zip nafs) (fun pn => pn.1) (fun pn i => (pn.2.getD i 0).sign) l
    (fun i r => (ps.zip nafs).foldl (fun r (pn : G × List Int) =>
      let d := pn.2.getD i 0
      if d > 0 then gops.add r pn.1 else if d < 0 then gops.sub r pn.1 else r) (gops.dbl r))
    (fun i r => by rw [signFold, gops_dbl])
  rw [gops_zero, this]
  apply congrArg; apply List.map_congr_left
  intro pn hpn
  obtain ⟨a, b⟩ := pn
  rw [eval_eq_sum l _ (by simpa using hl _ (List.of_mem_zip hpn).2)]
  simp only [getD_map_sign]

theorem combineHigh_fst (bs : List G) : (combineHigh gops bs).1 = bs.sum := by
  induction bs with
  | nil => rfl
  | cons b t ih => simp only [combineHigh, gops_add, ih, List.sum_cons]; abel

theorem combineHigh_snd (bs : List G) (s : ℕ) :
    (2 : ℤ) • (combineHigh gops bs).2 + (2 * (s : ℤ) - 1) • bs.sum = wsumR wtOdd s bs := by
  induction bs generalizing s with
  | nil => simp [combineHigh, wsumR]
  | cons b t ih =>
    rw [wsumR, ← ih]
    simp only [combineHigh, gops_add, combineHigh_fst, List.sum_cons, wtOdd]
    push_cast
    module

/-- the bucket-row summation: Σ (2j+1)·B[j] -/
theorem combineRow_spec (bk : List G) : combineRow gops bk = wsumR wtOdd 0 bk := by
  cases bk with
  | nil => rfl
  | cons b t =>
    rw [wsumR, ← combineHigh_snd]
    simp only [combineRow, gops_add, gops_dbl, combineHigh_fst, wtOdd]
    push_cast
    module

theorem rowsFold (i : ℕ) : ∀ (L : List (G × (List ℤ × List ℤ))) (b1 b2 : List G),
    (∀ pn ∈ L, GoodDigit wtOdd id b1.length (pn.2.1.getD i 0) ∧ GoodDigit wtOdd id b2.length (pn.2.2.getD i 0)) →
    wsumR wtOdd 0 (L.foldl (fun (b : List G × List G) (pn : G × (List Int × List Int)) =>
      (bucketAdd gops b.1 (pn.2.1.getD i 0) pn.1, bucketAdd gops b.2 (pn.2.2.getD i 0) pn.1)) (b1, b2)).1
      = wsumR wtOdd 0 b1 + (L.map fun pn => pn.2.1.getD i 0 • pn.1).sum ∧
    wsumR wtOdd 0 (L.foldl (fun (b : List G × List G) (pn : G × (List Int × List Int)) =>
      (bucketAdd gops b.1 (pn.2.1.getD i 0) pn.1, bucketAdd gops b.2 (pn.2.2.getD i 0) pn.1)) (b1, b2)).2
      = wsumR wtOdd 0 b2 + (L.map fun pn => pn.2.2.getD i 0 • pn.1).sum := by
  intro L
  induction L with
  | nil => intro b1 b2 _; simp
  | cons a t ih =>
    intro b1 b2 h
    rw [List.foldl_cons]
    obtain ⟨h1, h2⟩ := ih (bucketAdd gops b1 (a.2.1.getD i 0) a.1) (bucketAdd gops b2 (a.2.2.getD i 0) a.1)
      (fun pn hpn => by rw [bucketAdd_length, bucketAdd_length]; exact h pn (List.mem_cons_of_mem _ hpn))
    obtain ⟨g1, g2⟩ := h a List.mem_cons_self
    rw [h1, h2, bucketAdd_wsum wtOdd id b1 _ _ g1, bucketAdd_wsum wtOdd id b2 _ _ g2]
    simp only [List.map_cons, List.sum_cons, id, add_assoc, and_self]

/-- ep_mul_sim_lot_endom, n > 10: digits zero or odd with |d| < 2c, every digit string at most l long -/
theorem simLotBucket_spec (ψ : G →+ G) (ps : List G) (nafs : List (List Int × List Int)) (c l : Nat)
    (hd : ∀ nf ∈ nafs, (∀ d ∈ nf.1, d = 0 ∨ (d % 2 ≠ 0 ∧ d.natAbs < 2 * c)) ∧ (∀ d ∈ nf.2, d = 0 ∨ (d % 2 ≠ 0 ∧ d.natAbs < 2 * c)))
    (hl : ∀ nf ∈ nafs, nf.1.length ≤ l ∧ nf.2.length ≤ l) :
    simLotBucket gops ψ ps nafs c l
      = ((ps.zip nafs).map fun pn => Rec.eval 1 pn.2.1 • pn.1 + Rec.eval 1 pn.2.2 • ψ pn.1).sum := by
  unfold simLotBucket
  generalize hZ : ps.zip nafs = Z
  have hmem : ∀ pn ∈ Z, pn.2 ∈ nafs := by
    intro pn hpn
    obtain ⟨a, b⟩ := pn
    rw [← hZ] at hpn
    exact (List.of_mem_zip hpn).2
  have hgood : ∀ i, ∀ pn ∈ Z, GoodDigit wtOdd id c (pn.2.1.getD i 0) ∧ GoodDigit wtOdd id c (pn.2.2.getD i 0) := by
    intro i pn hpn
    have hb := hmem pn hpn
    exact ⟨good_odd c _ (getD_zero_prop _ _ (Or.inl rfl) (hd _ hb).1 i),
      good_odd c _ (getD_zero_prop _ _ (Or.inl rfl) (hd _ hb).2 i)⟩
  have key := lot_master (Z.map (fun pn => (pn.1, pn.2.1)) ++ Z.map (fun pn => (ψ pn.1, pn.2.2)))
    Prod.fst (fun a i => a.2.getD i 0) l
    (fun i s =>
      let rows := Z.foldl (fun (b : List G × List G) (pn : G × (List Int × List Int)) =>
        (bucketAdd gops b.1 (pn.2.1.getD i 0) pn.1, bucketAdd gops b.2 (pn.2.2.getD i 0) pn.1))
        (List.replicate c gops.zero, List.replicate c gops.zero)
      let t := gops.add (ψ gops.zero) (combineRow gops rows.2)
      let t := gops.add (ψ t) (combineRow gops rows.1)
      gops.add (gops.dbl s) t)
    (fun i s => by
      obtain ⟨h1, h2⟩ := rowsFold i Z (List.replicate c (0 : G)) (List.replicate c (0 : G)) (by simpa using hgood i)
      simp only [gops_zero, gops_add, gops_dbl, combineRow_spec, h1, h2, wsumR_replicate, zero_add, map_zero,
        map_list_sum, List.map_map, List.map_append, List.sum_append, Function.comp_def, map_zsmul]
      abel)
  refine key.trans ?_
  rw [List.map_append, List.sum_append, List.map_map, List.map_map, List.sum_map_add]
  congr 1
  · apply congrArg; apply List.map_congr_left
    intro pn hpn
    simp only [Function.comp]
    rw [eval_eq_sum l _ (hl _ (hmem pn hpn)).1]
  · apply congrArg; apply List.map_congr_left
    intro pn hpn
    simp only [Function.comp]
    rw [eval_eq_sum l _ (hl _ (hmem pn hpn)).2]

theorem bitFold (i : ℕ) : ∀ (L : List (G × ℕ)) (r : G),
    L.foldl (fun r (pk : G × Nat) => if (pk.2 >>> i) % 2 = 1 then gops.add r pk.1 else r) r
    = r + (L.map fun pk => (((pk.2 >>> i) % 2 : ℕ) : ℤ) • pk.1).sum := by
  intro L
  induction L with
  | nil => intro r; simp
  | cons a t ih =>
    intro r
    rw [List.foldl_cons, ih, List.map_cons, List.sum_cons, ← add_assoc]
    congr 1
    rcases Nat.mod_two_eq_zero_or_one (a.2 >>> i) with h | h
    · simp [h]
    · simp [h]

theorem bits_sum (k : ℕ) : ∀ mx : ℕ,
    ∑ i ∈ Finset.range mx, (2 : ℤ) ^ i * (((k >>> i) % 2 : ℕ) : ℤ) = ((k % 2 ^ mx : ℕ) : ℤ) := by
  intro mx
  induction mx with
  | zero => simp [Nat.mod_one]
  | succ m ih =>
    rw [Finset.sum_range_succ, ih, Nat.mod_pow_succ, Nat.shiftRight_eq_div_pow]
    push_cast; ring

/-- ep_mul_sim_dig: scalars below 2^mx -/
theorem simDig_spec (ps : List G) (ks : List Nat) (mx : Nat) (hk : ∀ k ∈ ks, k < 2 ^ mx) :
    simDig gops ps ks mx = ((ps.zip ks).map fun pk => ((pk.2 : ℕ) : ℤ) • pk.1).sum := by
  unfold simDig
  have key := lot_master (ps.zip ks) Prod.fst (fun pk i => (((pk.2 >>> i) % 2 : ℕ) : ℤ)) mx
    (fun i r => (ps.zip ks).foldl (fun r (pk : G × Nat) => if (pk.2 >>> i) % 2 = 1 then gops.add r pk.1 else r) (gops.dbl r))
    (fun i r => by rw [bitFold, gops_dbl])
  refine key.trans ?_
  apply congrArg; apply List.map_congr_left
  intro pk hpk
  obtain ⟨a, b⟩ := pk
  rw [bits_sum, Nat.mod_eq_of_lt (hk b (List.of_mem_zip hpk).2)]

theorem stepTab_spec (f : G → G) (hf : ∀ (n : ℤ) x, f (n • x) = n • f x) (q : G) (tab : List G)
    (htab : ∀ i, i < tab.length → tab.getD i 0 = (2 * (i : ℤ) + 1) • q) (r : G) (d : ℤ)
    (hd : d = 0 ∨ (d % 2 ≠ 0 ∧ d.natAbs < 2 * tab.length)) :
    stepTab gops f tab r d = r + d • f q := by
  unfold stepTab
  rcases hd with rfl | ⟨hodd, hb⟩
  · simp
  · by_cases hpos : d > 0
    · rw [if_pos hpos, gops_add, gops_zero, htab _ (by omega), hf]
      congr 2; omega
    · have hneg : d < 0 := by omega
      rw [if_neg hpos, if_pos hneg, gops_sub, gops_zero, htab _ (by omega), hf, sub_eq_add_neg, ← neg_zsmul]
      congr 2; omega

/-- ep_mul_glv_imp: width-w NAF digits (zero or odd, |d| < 2·tabLen) -/
theorem mulGlv_spec (ψ : G →+ G) (p : G) (tabLen : Nat) (neg0 neg1 : Bool) (naf0 naf1 : List Int)
    (hd0 : ∀ d ∈ naf0, d = 0 ∨ (d % 2 ≠ 0 ∧ d.natAbs < 2 * tabLen))
    (hd1 : ∀ d ∈ naf1, d = 0 ∨ (d % 2 ≠ 0 ∧ d.natAbs < 2 * tabLen)) :
    mulGlv gops ψ p tabLen neg0 neg1 naf0 naf1
      = (sg neg0 * Rec.eval 1 naf0) • p + (sg neg1 * Rec.eval 1 naf1) • ψ p := by
  unfold mulGlv
  generalize hq : (if neg0 then gops.neg p else p) = q
  obtain ⟨hlen, htab⟩ := tabOdd_spec q tabLen
  have hf2 : ∀ (n : ℤ) (x : G), (fun x => if (neg0 != neg1) then gops.neg (ψ x) else ψ x) (n • x)
      = n • (fun x => if (neg0 != neg1) then gops.neg (ψ x) else ψ x) x := by
    intro n x
    simp only
    split <;> simp [map_zsmul]
  have key := lot_master [(q, naf0), ((fun x => if (neg0 != neg1) then gops.neg (ψ x) else ψ x) q, naf1)]
    Prod.fst (fun a i => a.2.getD i 0) (max naf0.length naf1.length)
    (fun i r => stepTab gops (fun x => if (neg0 != neg1) then gops.neg (ψ x) else ψ x) (tabOdd gops q tabLen)
      (stepTab gops id (tabOdd gops q tabLen) (gops.dbl r) (naf0.getD i 0)) (naf1.getD i 0))
    (fun i r => by
      rw [stepTab_spec _ hf2 q _ (by rw [hlen]; exact htab) _ _
          (by rw [hlen]; exact getD_zero_prop _ _ (Or.inl rfl) hd1 i),
        stepTab_spec id (fun _ _ => rfl) q _ (by rw [hlen]; exact htab) _ _
          (by rw [hlen]; exact getD_zero_prop _ _ (Or.inl rfl) hd0 i), gops_dbl]
      simp [add_assoc])
  refine key.trans ?_
  simp only [List.map_cons, List.map_nil, List.sum_cons, List.sum_nil, add_zero]
  rw [← eval_eq_sum _ naf0 (le_max_left _ _), ← eval_eq_sum _ naf1 (le_max_right _ _), ← hq]
  cases neg0 <;> cases neg1 <;> simp [sg]

/-- ep_mul_sim_endom (ep_mul_sim_inter / ep_mul_sim_gen on endomorphism curves) with the tables of odd multiples of P and Q -/
theorem simEndom_spec (ψ : G →+ G) (p q : G) (tabLen : Nat) (sk0 sk1 sl0 sl1 : Bool) (n0 n1 n2 n3 : List Int)
    (hd : ∀ nf ∈ [n0, n1, n2, n3], ∀ d ∈ nf, d = 0 ∨ (d % 2 ≠ 0 ∧ d.natAbs < 2 * tabLen)) :
    simEndom gops ψ (tabOdd gops p tabLen) (tabOdd gops q tabLen) sk0 sk1 sl0 sl1 n0 n1 n2 n3
      = (sg sk0 * Rec.eval 1 n0) • p + (sg sk1 * Rec.eval 1 n1) • ψ p
        + (sg sl0 * Rec.eval 1 n2) • q + (sg sl1 * Rec.eval 1 n3) • ψ q := by
  unfold simEndom
  obtain ⟨hlenP, htabP⟩ := tabOdd_spec p tabLen
  obtain ⟨hlenQ, htabQ⟩ := tabOdd_spec q tabLen
  have hf : ∀ (s : Bool) (f : G → G), (∀ (n : ℤ) x, f (n • x) = n • f x) →
      ∀ (n : ℤ) (x : G), (fun x => if s then gops.neg (f x) else f x) (n • x)
        = n • (fun x => if s then gops.neg (f x) else f x) x := by
    intro s f h n x
    simp only
    split <;> simp [h]
  have hid : ∀ (n : ℤ) (x : G), id (n • x) = n • id x := fun _ _ => rfl
  have hpsi : ∀ (n : ℤ) (x : G), ψ (n • x) = n • ψ x := fun n x => map_zsmul ψ n x
  have h0 := hd n0 (by simp)
  have h1 := hd n1 (by simp)
  have h2 := hd n2 (by simp)
  have h3 := hd n3 (by simp)
  have key := lot_master
    [((fun x => if sk0 then gops.neg (id x) else id x) p, n0), ((fun x => if sk1 then gops.neg (ψ x) else ψ x) p, n1),
     ((fun x => if sl0 then gops.neg (id x) else id x) q, n2), ((fun x => if sl1 then gops.neg (ψ x) else ψ x) q, n3)]
    Prod.fst (fun a i => a.2.getD i 0) (max (max n0.length n1.length) (max n2.length n3.length))
    (fun i r =>
      stepTab gops (fun x => if sl1 then gops.neg (ψ x) else ψ x) (tabOdd gops q tabLen)
        (stepTab gops (fun x => if sl0 then gops.neg (id x) else id x) (tabOdd gops q tabLen)
          (stepTab gops (fun x => if sk1 then gops.neg (ψ x) else ψ x) (tabOdd gops p tabLen)
            (stepTab gops (fun x => if sk0 then gops.neg (id x) else id x) (tabOdd gops p tabLen) (gops.dbl r) (n0.getD i 0))
            (n1.getD i 0)) (n2.getD i 0)) (n3.getD i 0))
    (fun i r => by
      rw [stepTab_spec _ (hf sl1 ψ hpsi) q _ (by rw [hlenQ]; exact htabQ) _ _
          (by rw [hlenQ]; exact getD_zero_prop _ _ (Or.inl rfl) h3 i),
        stepTab_spec _ (hf sl0 id hid) q _ (by rw [hlenQ]; exact htabQ) _ _
          (by rw [hlenQ]; exact getD_zero_prop _ _ (Or.inl rfl) h2 i),
        stepTab_spec _ (hf sk1 ψ hpsi) p _ (by rw [hlenP]; exact htabP) _ _
          (by rw [hlenP]; exact getD_zero_prop _ _ (Or.inl rfl) h1 i),
        stepTab_spec _ (hf sk0 id hid) p _ (by rw [hlenP]; exact htabP) _ _
          (by rw [hlenP]; exact getD_zero_prop _ _ (Or.inl rfl) h0 i), gops_dbl]
      simp only [List.map_cons, List.map_nil, List.sum_cons, List.sum_nil, add_zero, add_assoc])
  refine key.trans ?_
  simp only [List.map_cons, List.map_nil, List.sum_cons, List.sum_nil, add_zero]
  rw [← eval_eq_sum _ n0 (le_trans (le_max_left _ _) (le_max_left _ _)),
    ← eval_eq_sum _ n1 (le_trans (le_max_right _ _) (le_max_left _ _)),
    ← eval_eq_sum _ n2 (le_trans (le_max_left _ _) (le_max_right _ _)),
    ← eval_eq_sum _ n3 (le_trans (le_max_right _ _) (le_max_right _ _))]
  cases sk0 <;> cases sk1 <;> cases sl0 <;> cases sl1 <;> simp [sg, add_assoc]

end Relic.Lemmas.EpSim
