/-
Prime-field digit level (Model/Fp.lean): modular add/sub/neg/dbl/hlv return the canonical residue, and
product-scanning Montgomery reduction computes T·R⁻¹ mod p in canonical form. No primality needed here:
p is any odd modulus with n digits and u·p ≡ -1 (mod B).
-/
import RelicVerif.Model.Fp
import RelicVerif.Lemmas.BnLowMul
import RelicVerif.Lemmas.BnLowShift

namespace Relic.Model
open LowMul

/-- a well-formed field context: n digits, digits < B, modulus odd and > 1, n < B (column sums fit) -/
structure FpCtx.WF (c : FpCtx) : Prop where
  hw : 0 < c.w
  hn : 0 < c.n
  hlen : c.p.length = c.n
  hdig : ∀ d ∈ c.p, d < c.B
  hodd : c.pv % 2 = 1
  hgt : 1 < c.pv
  hnB : c.n < c.B

/-- an element in canonical form: n digits < B with value < p -/
def FpCtx.El (c : FpCtx) (a : List Nat) : Prop := a.length = c.n ∧ (∀ d ∈ a, d < c.B) ∧ val c.B a < c.pv

namespace FpAux

theorem mod_sub_once (x p : Nat) (h1 : p ≤ x) (h2 : x < 2 * p) : x % p = x - p := by
  rw [Nat.mod_eq_sub_mod h1, Nat.mod_eq_of_lt (by omega)]

theorem val_inj (B : Nat) (hB : 0 < B) : ∀ (a b : List Nat), a.length = b.length →
    (∀ d ∈ a, d < B) → (∀ d ∈ b, d < B) → val B a = val B b → a = b
  | [], [], _, _, _, _ => rfl
  | [], _ :: _, h, _, _, _ => by simp at h
  | _ :: _, [], h, _, _, _ => by simp at h
  | x :: xs, y :: ys, hl, ha, hb, hv => by
    have hx : x < B := ha x (by simp)
    have hy : y < B := hb y (by simp)
    simp only [val] at hv
    have e1 : x = y := by
      have := congrArg (· % B) hv
      simp only [Nat.add_mul_mod_self_left, Nat.mod_eq_of_lt hx, Nat.mod_eq_of_lt hy] at this
      exact this
    subst e1
    have e2 : val B xs = val B ys := by
      have : B * val B xs = B * val B ys := by omega
      exact Nat.eq_of_mul_eq_mul_left hB this
    rw [val_inj B hB xs ys (by simpa using hl) (fun d hd => ha d (by simp [hd]))
      (fun d hd => hb d (by simp [hd])) e2]

theorem one_lt_B (c : FpCtx) (hc : c.WF) : 1 < c.B := by
  unfold FpCtx.B
  exact Nat.one_lt_two_pow (by have := hc.hw; omega)

theorem pv_lt_R (c : FpCtx) (hc : c.WF) : c.pv < c.R := by
  have := val_lt c.B c.p hc.hdig
  rwa [hc.hlen] at this

/-- the conditional final subtraction shared by addm, dblm and rdcn -/
theorem condSub_spec (c : FpCtx) (hc : c.WF) (s : List Nat) (carry : Nat) (hl : s.length = c.n)
    (hd : ∀ d ∈ s, d < c.B) (hcarry : carry ≤ 1) (hX : val c.B s + carry * c.R < 2 * c.pv) :
    c.El (if carry ≠ 0 ∨ dvCmp s c.p ≠ -1 then (subnLow c.B s c.p 0).1 else s)
    ∧ val c.B (if carry ≠ 0 ∨ dvCmp s c.p ≠ -1 then (subnLow c.B s c.p 0).1 else s)
        = (val c.B s + carry * c.R) % c.pv := by
  have hB := one_lt_B c hc
  have hpR := pv_lt_R c hc
  obtain ⟨s1, s2, s3, s4⟩ := subnLow_spec c.B hB s c.p 0 (by rw [hl, hc.hlen]) (by omega) hd hc.hdig
  have hout := val_lt c.B _ s3
  have hs := val_lt c.B s hd
  rw [s4] at hout
  rw [hl] at s1 hout hs
  obtain ⟨_, hcmp, _⟩ := dvCmp_spec c.B hB s c.p (by rw [hl, hc.hlen]) hd hc.hdig
  have hR : c.R = c.B ^ c.n := rfl
  have hpv : c.pv = val c.B c.p := rfl
  rw [← hpv] at s1 hcmp
  rw [← hR] at s1 hout hs
  generalize (subnLow c.B s c.p 0).2 = bo at s1 s2
  by_cases hcond : carry ≠ 0 ∨ dvCmp s c.p ≠ -1
  · rw [if_pos hcond]
    have hge : c.pv ≤ val c.B s + carry * c.R := by
      rcases hcond with h | h
      · have : carry = 1 := by omega
        subst this; omega
      · have : ¬ val c.B s < c.pv := fun h' => h (hcmp.2 h')
        omega
    rw [mod_sub_once _ _ hge hX]
    have hbo : bo = carry := by
      have : bo = 0 ∨ bo = 1 := by omega
      have : carry = 0 ∨ carry = 1 := by omega
      rcases ‹bo = 0 ∨ bo = 1› with rfl | rfl <;> rcases ‹carry = 0 ∨ carry = 1› with rfl | rfl <;> omega
    subst hbo
    refine ⟨⟨by rw [s4, hl], s3, by omega⟩, by omega⟩
  · rw [if_neg hcond]
    have h0 : carry = 0 := by
      apply Classical.byContradiction; intro h; exact hcond (Or.inl h)
    have hlt : val c.B s < c.pv := by
      apply hcmp.1
      apply Classical.byContradiction; intro h; exact hcond (Or.inr h)
    subst h0
    simp only [Nat.zero_mul, Nat.add_zero]
    rw [Nat.mod_eq_of_lt hlt]
    exact ⟨⟨hl, hd, hlt⟩, rfl⟩

end FpAux
open FpAux

theorem fpAddm_spec (c : FpCtx) (hc : c.WF) (a b : List Nat) (ha : c.El a) (hb : c.El b) :
    c.El (fpAddm c a b) ∧ val c.B (fpAddm c a b) = (val c.B a + val c.B b) % c.pv := by
  have hB := one_lt_B c hc
  obtain ⟨al, ad, av⟩ := ha
  obtain ⟨bl, bd, bv⟩ := hb
  obtain ⟨h1, h2, h3, h4⟩ := addnLow_spec c.B hB a b 0 (by rw [al, bl]) (by omega) ad bd
  rw [al] at h1 h4
  have := condSub_spec c hc (addnLow c.B a b 0).1 (addnLow c.B a b 0).2 h4 h3 h2
    (by rw [show c.R = c.B ^ c.n from rfl, h1]; omega)
  rw [show c.R = c.B ^ c.n from rfl, h1, Nat.add_zero] at this
  exact this

theorem fpDblm_spec (c : FpCtx) (hc : c.WF) (a : List Nat) (ha : c.El a) :
    c.El (fpDblm c a) ∧ val c.B (fpDblm c a) = (2 * val c.B a) % c.pv := by
  have := fpAddm_spec c hc a a ha ha
  rw [← Nat.two_mul] at this
  exact this

/-- class-B characterisations: a canonical inverse / square root is unique (up to sign) -/
theorem inv_unique (p a x y : Nat) (hx : x < p) (hy : y < p) (h1 : a * x % p = 1) (h2 : a * y % p = 1) : x = y := by
  have e1 : (x * (a * y)) % p = x := by
    rw [Nat.mul_mod, h2, Nat.mul_one, Nat.mod_mod, Nat.mod_eq_of_lt hx]
  have e2 : ((a * x) * y) % p = y := by
    rw [Nat.mul_mod, h1, Nat.one_mul, Nat.mod_mod, Nat.mod_eq_of_lt hy]
  have e3 : x * (a * y) = (a * x) * y := by
    rw [Nat.mul_left_comm, Nat.mul_assoc]
  rw [← e1, e3, e2]

/-- equality of canonical elements coincides with equality of residues (raw digit comparison is sound) -/
theorem El_eq_iff (c : FpCtx) (hc : c.WF) (a b : List Nat) (ha : c.El a) (hb : c.El b) :
    a = b ↔ val c.B a % c.pv = val c.B b % c.pv := by
  constructor
  · intro h; rw [h]
  · intro h
    rw [Nat.mod_eq_of_lt ha.2.2, Nat.mod_eq_of_lt hb.2.2] at h
    exact val_inj c.B (by have := one_lt_B c hc; omega) a b (by rw [ha.1, hb.1]) ha.2.1 hb.2.1 h

theorem fpSubm_spec (c : FpCtx) (hc : c.WF) (a b : List Nat) (ha : c.El a) (hb : c.El b) :
    c.El (fpSubm c a b) ∧ val c.B (fpSubm c a b) = (val c.B a + c.pv - val c.B b) % c.pv := by
  have hB := one_lt_B c hc
  have hpR := pv_lt_R c hc
  obtain ⟨al, ad, av⟩ := ha
  obtain ⟨bl, bd, bv⟩ := hb
  obtain ⟨h1, h2, h3, h4⟩ := subnLow_spec c.B hB a b 0 (by rw [al, bl]) (by omega) ad bd
  have hd := val_lt c.B _ h3
  rw [h4] at hd
  rw [al] at h1 h4 hd
  obtain ⟨g1, g2, g3, g4⟩ := addnLow_spec c.B hB (subnLow c.B a b 0).1 c.p 0 (by rw [h4, hc.hlen])
    (by omega) h3 hc.hdig
  have ho := val_lt c.B _ g3
  rw [g4] at ho
  rw [h4] at g1 g4 ho
  have hR : c.R = c.B ^ c.n := rfl
  have hpv : c.pv = val c.B c.p := rfl
  rw [← hpv] at g1
  rw [← hR] at h1 g1 hd ho
  have e : fpSubm c a b = if (subnLow c.B a b 0).2 ≠ 0
      then (addnLow c.B (subnLow c.B a b 0).1 c.p 0).1 else (subnLow c.B a b 0).1 := rfl
  rw [e]
  generalize (addnLow c.B (subnLow c.B a b 0).1 c.p 0).2 = co at g1 g2
  generalize (addnLow c.B (subnLow c.B a b 0).1 c.p 0).1 = out at g1 g3 g4 ho
  generalize (subnLow c.B a b 0).2 = bo at h1 h2 g1
  generalize (subnLow c.B a b 0).1 = d at h1 h3 h4 g1 hd
  by_cases hbo : bo ≠ 0
  · rw [if_pos hbo]
    have : bo = 1 := by omega
    subst this
    have : co = 1 := by
      have : co = 0 ∨ co = 1 := by omega
      rcases this with rfl | rfl
      · omega
      · rfl
    subst this
    rw [Nat.mod_eq_of_lt (by omega)]
    exact ⟨⟨g4, g3, by omega⟩, by omega⟩
  · rw [if_neg hbo]
    have : bo = 0 := by omega
    subst this
    rw [mod_sub_once _ _ (by omega) (by omega)]
    exact ⟨⟨h4, h3, by omega⟩, by omega⟩

namespace FpAux

theorem all_zero_iff (B : Nat) (hB : 0 < B) : ∀ (a : List Nat), a.all (· == 0) = true ↔ val B a = 0
  | [] => by simp [val]
  | x :: xs => by
    have ih := all_zero_iff B hB xs
    simp only [List.all_cons, Bool.and_eq_true, beq_iff_eq, val, ih]
    constructor
    · rintro ⟨rfl, h⟩; rw [h]; simp
    · intro h
      have h1 : x = 0 := by omega
      have h2 : B * val B xs = 0 := by omega
      exact ⟨h1, (Nat.mul_eq_zero.1 h2).resolve_left (by omega)⟩

theorem val_replicate_zero (B n : Nat) : val B (List.replicate n 0) = 0 := by
  induction n with
  | zero => rfl
  | succ n ih => simp [List.replicate_succ, val, ih]

end FpAux

theorem fpNegm_spec (c : FpCtx) (hc : c.WF) (a : List Nat) (ha : c.El a) :
    c.El (fpNegm c a) ∧ val c.B (fpNegm c a) = (c.pv - val c.B a) % c.pv := by
  have hB := one_lt_B c hc
  have hpR := pv_lt_R c hc
  have hgt := hc.hgt
  obtain ⟨al, ad, av⟩ := ha
  unfold fpNegm
  by_cases hz : a.all (· == 0) = true
  · rw [if_pos hz]
    have h0 := (all_zero_iff c.B (by omega) a).1 hz
    rw [h0, Nat.sub_zero, Nat.mod_self, val_replicate_zero]
    refine ⟨⟨by simp, ?_, by rw [val_replicate_zero]; omega⟩, rfl⟩
    intro d hd
    rw [List.mem_replicate] at hd
    omega
  · rw [if_neg hz]
    have h0 : val c.B a ≠ 0 := fun h => hz ((all_zero_iff c.B (by omega) a).2 h)
    obtain ⟨h1, h2, h3, h4⟩ := subnLow_spec c.B hB c.p a 0 (by rw [al, hc.hlen]) (by omega) hc.hdig ad
    have hd := val_lt c.B _ h3
    rw [h4] at hd
    rw [hc.hlen] at h1 h4 hd
    have hR : c.R = c.B ^ c.n := rfl
    have hpv : c.pv = val c.B c.p := rfl
    rw [← hpv] at h1
    rw [← hR] at h1 hd
    generalize (subnLow c.B c.p a 0).2 = bo at h1 h2
    have : bo = 0 := by
      have : bo = 0 ∨ bo = 1 := by omega
      rcases this with rfl | rfl
      · rfl
      · omega
    subst this
    rw [Nat.mod_eq_of_lt (by omega)]
    exact ⟨⟨h4, h3, by omega⟩, by omega⟩

theorem combaAdd_spec (B : Nat) (hB : 1 < B) (r : Nat × Nat × Nat) (a : Nat)
    (hr2 : r.1 < B) (hr1 : r.2.1 < B) (hr0 : r.2.2 < B) (ha : a < B)
    (hfit : regVal B r + a < B * B * B) :
    regVal B (combaAdd B r a) = regVal B r + a
    ∧ (combaAdd B r a).1 < B ∧ (combaAdd B r a).2.1 < B ∧ (combaAdd B r a).2.2 < B := by
  obtain ⟨r2, r1, r0⟩ := r
  simp only [regVal] at *
  obtain ⟨s0, k0, es0, ek0, hs0, hk0, hsum0⟩ := add_carry_r B r0 a hr0 ha
  obtain ⟨s1, k1, es1, ek1, hs1, hk1, hsum1⟩ := add_carry_l B r1 k0 hr1 (by omega)
  have htot : s0 + B * s1 + B * B * (r2 + k1) = r0 + B * r1 + B * B * r2 + a := by grind
  have hT : r2 + k1 < B := by
    have : B * B * (r2 + k1) < B * B * B := by omega
    exact Nat.lt_of_mul_lt_mul_left this
  simp only [combaAdd, es0, ek0, es1, ek1]
  rw [Nat.mod_eq_of_lt hT]
  exact ⟨htot, hT, hs1, hs0⟩

namespace FpAux

theorem xor_two_pow (x k : Nat) (hx : x < 2 ^ k) : x ^^^ 2 ^ k = x + 2 ^ k := by
  have h1 : (x ^^^ 2 ^ k) % 2 ^ k = x := by
    rw [Nat.xor_mod_two_pow, Nat.mod_self, Nat.xor_zero, Nat.mod_eq_of_lt hx]
  have h2 : (x ^^^ 2 ^ k) / 2 ^ k = 1 := by
    rw [Nat.xor_div_two_pow, Nat.div_eq_of_lt hx, Nat.div_self (Nat.two_pow_pos k), Nat.zero_xor]
  have := Nat.div_add_mod (x ^^^ 2 ^ k) (2 ^ k)
  rw [h1, h2] at this
  omega

theorem val_mod_two (w : Nat) (hw : 0 < w) (a : List Nat) : val (2 ^ w) a % 2 = a.getD 0 0 % 2 := by
  cases a with
  | nil => simp [val]
  | cons x xs =>
    obtain ⟨k, rfl⟩ : ∃ k, w = k + 1 := ⟨w - 1, by omega⟩
    simp only [val, List.getD_cons_zero, Nat.pow_succ]
    rw [Nat.mul_comm (2 ^ k) 2, Nat.mul_assoc, Nat.add_mul_mod_self_left]

theorem val_set (B : Nat) : ∀ (l : List Nat) (i v : Nat), i < l.length →
    val B (l.set i v) + B ^ i * l.getD i 0 = val B l + B ^ i * v
  | [], _, _, h => by simp at h
  | x :: xs, 0, v, _ => by simp [val]; omega
  | x :: xs, i + 1, v, h => by
    have ih := val_set B xs i v (by simpa using h)
    simp only [List.set_cons_succ, val, List.getD_cons_succ, Nat.pow_succ]
    have e1 : B ^ i * B * xs.getD i 0 = B * (B ^ i * xs.getD i 0) := by grind
    have e2 : B ^ i * B * v = B * (B ^ i * v) := by grind
    rw [e1, e2]
    have : B * (val B (xs.set i v) + B ^ i * xs.getD i 0) = B * (val B xs + B ^ i * v) := by rw [ih]
    rw [Nat.mul_add, Nat.mul_add] at this
    omega

theorem getD_mul_le (B : Nat) : ∀ (l : List Nat) (i : Nat), B ^ i * l.getD i 0 ≤ val B l
  | [], i => by simp
  | x :: xs, 0 => by simp [val]
  | x :: xs, i + 1 => by
    have ih := getD_mul_le B xs i
    simp only [List.getD_cons_succ, val, Nat.pow_succ]
    have e1 : B ^ i * B * xs.getD i 0 = B * (B ^ i * xs.getD i 0) := by grind
    rw [e1]
    have := Nat.mul_le_mul_left B ih
    omega

end FpAux

/-- halving: the canonical x with 2x ≡ a (mod p) -/
theorem fpHlvm_spec (c : FpCtx) (hc : c.WF) (a : List Nat) (ha : c.El a) :
    c.El (fpHlvm c a) ∧ (2 * val c.B (fpHlvm c a)) % c.pv = val c.B a := by
  have hB := one_lt_B c hc
  have hpR := pv_lt_R c hc
  have hw := hc.hw
  have hn := hc.hn
  have hodd := hc.hodd
  obtain ⟨al, ad, av⟩ := ha
  have hBw : c.B = 2 ^ c.w := rfl
  have hpar : val c.B a % 2 = a.getD 0 0 % 2 := by rw [hBw]; exact val_mod_two c.w hw a
  have e : fpHlvm c a =
      if (if a.getD 0 0 % 2 = 1 then addnLow c.B a c.p 0 else (a, 0)).2 ≠ 0 then
        (rsh1Low c.w (if a.getD 0 0 % 2 = 1 then addnLow c.B a c.p 0 else (a, 0)).1).1.set (c.n - 1)
          ((rsh1Low c.w (if a.getD 0 0 % 2 = 1 then addnLow c.B a c.p 0 else (a, 0)).1).1.getD
            (c.n - 1) 0 ^^^ 2 ^ (c.w - 1))
      else (rsh1Low c.w (if a.getD 0 0 % 2 = 1 then addnLow c.B a c.p 0 else (a, 0)).1).1 := rfl
  rw [e]
  by_cases hp : a.getD 0 0 % 2 = 1
  · simp only [if_pos hp]
    obtain ⟨h1, h2, h3, h4⟩ := addnLow_spec c.B hB a c.p 0 (by rw [al, hc.hlen]) (by omega) ad hc.hdig
    rw [al] at h1 h4
    have ht := val_lt c.B _ h3
    rw [h4] at ht
    rw [hBw] at h3
    obtain ⟨g1, _, g3, g4⟩ := rsh1Low_spec c.w hw (addnLow c.B a c.p 0).1 h3
    rw [← hBw] at g1 g3 h3
    rw [h4] at g4
    rw [show val c.B c.p = c.pv from rfl, Nat.add_zero] at h1
    generalize (addnLow c.B a c.p 0).2 = carry at h1 h2
    generalize (addnLow c.B a c.p 0).1 = t at h1 h3 h4 ht g1 g3 g4 ⊢
    generalize (rsh1Low c.w t).1 = r at g1 g3 g4 ⊢
    -- B^n = 2 * (B^(n-1) * 2^(w-1))
    obtain ⟨k, hk⟩ : ∃ k, c.n = k + 1 := ⟨c.n - 1, by omega⟩
    obtain ⟨v, hv⟩ : ∃ v, c.w = v + 1 := ⟨c.w - 1, by omega⟩
    have hBn : c.B ^ c.n = 2 * (c.B ^ k * 2 ^ v) := by
      have hB2 : c.B = 2 * 2 ^ v := by rw [hBw, hv, Nat.pow_succ]; omega
      rw [hk, Nat.pow_succ]
      generalize c.B ^ k = X
      rw [hB2, Nat.mul_left_comm]
    have hk' : c.n - 1 = k := by omega
    have hv' : c.w - 1 = v := by omega
    rw [hk', hv']
    by_cases hcar : carry ≠ 0
    · rw [if_pos hcar]
      have : carry = 1 := by omega
      subst this
      have hx : r.getD k 0 < 2 ^ v := by
        have h5 := getD_mul_le c.B r k
        have : c.B ^ k * r.getD k 0 < c.B ^ k * 2 ^ v := by omega
        exact Nat.lt_of_mul_lt_mul_left this
      rw [xor_two_pow _ _ hx]
      have hs := val_set c.B r k (r.getD k 0 + 2 ^ v) (by omega)
      rw [Nat.mul_add] at hs
      have hval : 2 * val c.B (r.set k (r.getD k 0 + 2 ^ v)) = val c.B a + c.pv := by omega
      rw [hval, Nat.add_mod_right, Nat.mod_eq_of_lt av]
      refine ⟨⟨by rw [List.length_set, g4], ?_, by omega⟩, rfl⟩
      intro d hd
      rcases List.mem_or_eq_of_mem_set hd with hd | rfl
      · exact g3 d hd
      · rw [hBw, hv, Nat.pow_succ]; omega
    · rw [if_neg hcar]
      have : carry = 0 := by omega
      subst this
      have hval : 2 * val c.B r = val c.B a + c.pv := by omega
      rw [hval, Nat.add_mod_right, Nat.mod_eq_of_lt av]
      exact ⟨⟨g4, g3, by omega⟩, rfl⟩
  · simp only [if_neg hp, ne_eq, not_true_eq_false, if_false]
    rw [hBw] at ad
    obtain ⟨g1, _, g3, g4⟩ := rsh1Low_spec c.w hw a ad
    rw [← hBw] at g1 g3
    have hval : 2 * val c.B (rsh1Low c.w a).1 = val c.B a := by omega
    rw [hval, Nat.mod_eq_of_lt av]
    exact ⟨⟨by rw [g4, al], g3, by omega⟩, rfl⟩

namespace FpAux

/-- body of the first loop of fp_rdcn_low (columns 0..n-1, quotient digits) -/
def rdcStep1 (B u : Nat) (a m : List Nat) (st : List Nat × (Nat × Nat × Nat)) (i : Nat) :
    List Nat × (Nat × Nat × Nat) :=
  let r0 := (List.range i).foldl
    (fun r j => combaStepMul B r (st.1.getD j 0) (m.getD (i - j) 0)) st.2
  let r1 := combaAdd B r0 (a.getD i 0)
  let qi := (r1.2.2 * u) % B
  let r2 := combaStepMul B r1 qi (m.getD 0 0)
  (st.1 ++ [qi], (0, r2.1, r2.2.1))

/-- body of the second loop of fp_rdcn_low (columns n..2n-2, result digits) -/
def rdcStep2 (B n : Nat) (a m q : List Nat) (st : List Nat × (Nat × Nat × Nat)) (k : Nat) :
    List Nat × (Nat × Nat × Nat) :=
  let r0 := (List.range (n - (k + n - n + 1))).foldl
    (fun r jj => combaStepMul B r (q.getD (jj + (k + n - n + 1)) 0)
      (m.getD (k + n - (jj + (k + n - n + 1))) 0)) st.2
  let r1 := combaAdd B r0 (a.getD (k + n) 0)
  (st.1 ++ [r1.2.2], (0, r1.1, r1.2.1))

def rdcLoop1 (B u : Nat) (a m : List Nat) (cnt : Nat) : List Nat × (Nat × Nat × Nat) :=
  (List.range cnt).foldl (rdcStep1 B u a m) ([], (0, 0, 0))

def rdcLoop2 (B n : Nat) (a m q : List Nat) (r : Nat × Nat × Nat) (cnt : Nat) :
    List Nat × (Nat × Nat × Nat) :=
  (List.range cnt).foldl (rdcStep2 B n a m q) ([], r)

theorem fpRdcn_eq (c : FpCtx) (a : List Nat) : fpRdcn c a =
    if (combaAdd c.B (rdcLoop2 c.B c.n a c.p (rdcLoop1 c.B c.u a c.p c.n).1
          (rdcLoop1 c.B c.u a c.p c.n).2 (c.n - 1)).2 (a.getD (2 * c.n - 1) 0)).2.1 ≠ 0
      ∨ dvCmp ((rdcLoop2 c.B c.n a c.p (rdcLoop1 c.B c.u a c.p c.n).1
          (rdcLoop1 c.B c.u a c.p c.n).2 (c.n - 1)).1 ++
          [(combaAdd c.B (rdcLoop2 c.B c.n a c.p (rdcLoop1 c.B c.u a c.p c.n).1
          (rdcLoop1 c.B c.u a c.p c.n).2 (c.n - 1)).2 (a.getD (2 * c.n - 1) 0)).2.2]) c.p ≠ -1
    then (subnLow c.B ((rdcLoop2 c.B c.n a c.p (rdcLoop1 c.B c.u a c.p c.n).1
          (rdcLoop1 c.B c.u a c.p c.n).2 (c.n - 1)).1 ++
          [(combaAdd c.B (rdcLoop2 c.B c.n a c.p (rdcLoop1 c.B c.u a c.p c.n).1
          (rdcLoop1 c.B c.u a c.p c.n).2 (c.n - 1)).2 (a.getD (2 * c.n - 1) 0)).2.2]) c.p 0).1
    else (rdcLoop2 c.B c.n a c.p (rdcLoop1 c.B c.u a c.p c.n).1
          (rdcLoop1 c.B c.u a c.p c.n).2 (c.n - 1)).1 ++
          [(combaAdd c.B (rdcLoop2 c.B c.n a c.p (rdcLoop1 c.B c.u a c.p c.n).1
          (rdcLoop1 c.B c.u a c.p c.n).2 (c.n - 1)).2 (a.getD (2 * c.n - 1) 0)).2.2] := rfl


theorem getD_append_lt (l l' : List Nat) (i : Nat) (h : i < l.length) :
    (l ++ l').getD i 0 = l.getD i 0 := by
  simp [List.getD_eq_getElem?_getD, List.getElem?_append_left h]

theorem getD_append_len (l : List Nat) (x : Nat) : (l ++ [x]).getD l.length 0 = x := by
  simp [List.getD_eq_getElem?_getD]

theorem colSum_append_lt (q m : List Nat) (x k : Nat) (hk : k < q.length) :
    colSum (q ++ [x]) m k = colSum q m k := by
  unfold colSum
  apply sumTo_congr
  intro i hi
  show (q ++ [x]).getD i 0 * _ = q.getD i 0 * _
  rw [getD_append_lt q [x] i (by omega)]

theorem colSum_append_eq (q m : List Nat) (x : Nat) :
    colSum (q ++ [x]) m q.length
      = sumTo (fun j => q.getD j 0 * m.getD (q.length - j) 0) q.length + x * m.getD 0 0 := by
  unfold colSum
  show sumTo _ q.length + (q ++ [x]).getD q.length 0 * m.getD (q.length - q.length) 0 = _
  rw [getD_append_len, Nat.sub_self]
  congr 1
  apply sumTo_congr
  intro i hi
  show (q ++ [x]).getD i 0 * _ = q.getD i 0 * _
  rw [getD_append_lt q [x] i hi]

/-- tight accumulator bound: every product of two digits is at most (B-1)² = B² + 1 - 2B -/
theorem mulProc_fold' (B : Nat) (hB : 1 < B) (a b : List Nat)
    (hda : ∀ d ∈ a, d < B) (hdb : ∀ d ∈ b, d < B) :
    ∀ (pairs : List (Nat × Nat)) (acc : Nat × Nat × Nat),
      acc.1 < B → acc.2.1 < B → acc.2.2 < B →
      regVal B acc + pairs.length * (B * B + 1 - 2 * B) < B * B * B →
      regVal B (mulProc B a b pairs acc) = regVal B acc + colVal a b pairs
      ∧ colVal a b pairs ≤ pairs.length * (B * B + 1 - 2 * B)
      ∧ (mulProc B a b pairs acc).1 < B ∧ (mulProc B a b pairs acc).2.1 < B
      ∧ (mulProc B a b pairs acc).2.2 < B := by
  intro pairs
  induction pairs with
  | nil => intro acc h1 h2 h3 _; exact ⟨rfl, Nat.zero_le _, h1, h2, h3⟩
  | cons ij ps ih =>
    intro acc h1 h2 h3 hfit
    have hx := getD_lt B (by omega) a hda ij.1
    have hy := getD_lt B (by omega) b hdb ij.2
    have hxy : a.getD ij.1 0 * b.getD ij.2 0 ≤ B * B + 1 - 2 * B := by
      have := mul_le_sq B _ _ hx hy
      omega
    generalize B * B + 1 - 2 * B = K at *
    simp only [List.length_cons, Nat.succ_mul] at hfit ⊢
    obtain ⟨e, g1, g2, g3⟩ := combaStepMul_spec B hB acc _ _ h1 h2 h3 hx hy (by omega)
    obtain ⟨e', f', g1', g2', g3'⟩ :=
      ih (combaStepMul B acc (a.getD ij.1 0) (b.getD ij.2 0)) g1 g2 g3 (by omega)
    refine ⟨?_, ?_, g1', g2', g3'⟩
    · show regVal B (mulProc B a b ps _) = _
      rw [e', e, colVal]; omega
    · rw [colVal]; omega

theorem fit_bound (B n : Nat) (hB : 1 < B) (hn : n < B) :
    B * B + B + n * (B * B + 1 - 2 * B) ≤ B * B * B + 1 := by
  obtain ⟨b, rfl⟩ : ∃ b, B = b + 1 := ⟨B - 1, by omega⟩
  have hK : (b + 1) * (b + 1) + 1 - 2 * (b + 1) = b * b := by
    have : (b + 1) * (b + 1) = b * b + 2 * b + 1 := by grind
    omega
  rw [hK]
  have h1 : n * (b * b) ≤ b * (b * b) := Nat.mul_le_mul_right _ (by omega)
  have h2 : (b + 1) * (b + 1) + (b + 1) + b * (b * b) ≤ (b + 1) * (b + 1) * (b + 1) + 1 := by grind
  omega

theorem reg_le (B : Nat) (r : Nat × Nat × Nat) (h0 : r.1 = 0) (h1 : r.2.1 < B) (h2 : r.2.2 < B) :
    regVal B r + 1 ≤ B * B := by
  have e1 : B * r.2.1 + B ≤ B * B := by
    have := Nat.mul_le_mul_left B (show r.2.1 + 1 ≤ B from h1)
    rwa [Nat.mul_succ] at this
  simp only [regVal, h0, Nat.mul_zero, Nat.add_zero]
  omega

/-- one Montgomery column: the products of the column, then the digit of T -/
theorem rdc_col (B : Nat) (hB : 1 < B) (q m : List Nat) (hq : ∀ d ∈ q, d < B) (hm : ∀ d ∈ m, d < B)
    (pairs : List (Nat × Nat)) (hlen : pairs.length + 1 < B) (d : Nat) (hd : d < B)
    (r : Nat × Nat × Nat) (h0 : r.1 = 0) (h1 : r.2.1 < B) (h2 : r.2.2 < B) :
    regVal B (combaAdd B (mulProc B q m pairs r) d) = regVal B r + colVal q m pairs + d
    ∧ (combaAdd B (mulProc B q m pairs r) d).1 < B
    ∧ (combaAdd B (mulProc B q m pairs r) d).2.1 < B
    ∧ (combaAdd B (mulProc B q m pairs r) d).2.2 < B
    ∧ regVal B (combaAdd B (mulProc B q m pairs r) d) + (B * B + 1 - 2 * B) < B * B * B := by
  have hr := reg_le B r h0 h1 h2
  have hf := fit_bound B (pairs.length + 1) hB hlen
  rw [Nat.succ_mul] at hf
  obtain ⟨e, f, g1, g2, g3⟩ := mulProc_fold' B hB q m hq hm pairs r (by omega) h1 h2 (by omega)
  obtain ⟨e', k1, k2, k3⟩ := combaAdd_spec B hB _ d g1 g2 g3 hd (by omega)
  refine ⟨by rw [e', e], k1, k2, k3, by omega⟩

theorem mont_zero (B u m0 r0 : Nat) (hu : (u * m0 + 1) % B = 0) :
    (r0 + (r0 * u % B) * m0) % B = 0 := by
  obtain ⟨t, ht⟩ := Nat.dvd_of_mod_eq_zero hu
  have hdm := Nat.div_add_mod (r0 * u) B
  have key : r0 + (r0 * u % B) * m0 + B * ((r0 * u / B) * m0) = B * (r0 * t) := by
    generalize r0 * u / B = s at *
    generalize r0 * u % B = qi at *
    grind
  rw [← Nat.add_mul_mod_self_left _ B ((r0 * u / B) * m0), key, Nat.mul_mod_right]

theorem regVal_low (B : Nat) (r : Nat × Nat × Nat) (h : r.2.2 < B) : regVal B r % B = r.2.2 := by
  have : regVal B r = r.2.2 + B * (r.2.1 + B * r.1) := by simp only [regVal]; grind
  rw [this, Nat.add_mul_mod_self_left, Nat.mod_eq_of_lt h]

/-- first-loop invariant: all emitted low digits vanished, the register holds the exact quotient
    (Σ_{k<i} column_k · B^k) / B^i -/
def Inv1 (B : Nat) (a m : List Nat) (i : Nat) (st : List Nat × (Nat × Nat × Nat)) : Prop :=
  st.1.length = i ∧ (∀ d ∈ st.1, d < B) ∧ st.2.1 = 0 ∧ st.2.2.1 < B ∧ st.2.2.2 < B
  ∧ B ^ i * regVal B st.2 = val B ((List.range i).map fun k => a.getD k 0 + colSum st.1 m k)

theorem rdcStep1_inv (B u : Nat) (hB : 1 < B) (a m : List Nat) (hda : ∀ d ∈ a, d < B)
    (hdm : ∀ d ∈ m, d < B) (hu : (u * m.getD 0 0 + 1) % B = 0) (i : Nat) (hi : i + 1 < B)
    (st : List Nat × (Nat × Nat × Nat)) (h : Inv1 B a m i st) :
    Inv1 B a m (i + 1) (rdcStep1 B u a m st i) := by
  obtain ⟨hl, hq, h0, h1, h2, hv⟩ := h
  have e0 : (List.range i).foldl
      (fun r j => combaStepMul B r (st.1.getD j 0) (m.getD (i - j) 0)) st.2
      = mulProc B st.1 m ((List.range i).map fun j => (j, i - j)) st.2 := by
    unfold mulProc; rw [List.foldl_map]
  have hai := getD_lt B (by omega) a hda i
  have hm0 := getD_lt B (by omega) m hdm 0
  obtain ⟨c1, c2, c3, c4, c5⟩ := rdc_col B hB st.1 m hq hdm ((List.range i).map fun j => (j, i - j))
    (by simpa using hi) (a.getD i 0) hai st.2 h0 h1 h2
  rw [colVal_map_range] at c1
  simp only [rdcStep1, e0]
  generalize combaAdd B (mulProc B st.1 m ((List.range i).map fun j => (j, i - j)) st.2)
    (a.getD i 0) = r1 at c1 c2 c3 c4 c5 ⊢
  have hqi : r1.2.2 * u % B < B := Nat.mod_lt _ (by omega)
  have hxy := mul_le_sq B _ _ hqi hm0
  obtain ⟨s1, s2, s3, s4⟩ := combaStepMul_spec B hB r1 _ _ c2 c3 c4 hqi hm0 (by omega)
  have hz : (combaStepMul B r1 (r1.2.2 * u % B) (m.getD 0 0)).2.2 = 0 := by
    rw [← regVal_low B _ s4, s1]
    have : regVal B r1 = r1.2.2 + B * (r1.2.1 + B * r1.1) := by simp only [regVal]; grind
    rw [this, Nat.add_right_comm, Nat.add_mul_mod_self_left]
    exact mont_zero B u _ _ hu
  generalize combaStepMul B r1 (r1.2.2 * u % B) (m.getD 0 0) = r2 at s1 s2 s3 s4 hz
  generalize r1.2.2 * u % B = qi at *
  refine ⟨by simp [hl], ?_, rfl, s2, s3, ?_⟩
  · intro d hd
    rcases List.mem_append.1 hd with hd | hd
    · exact hq d hd
    · simp at hd; omega
  · have hcong : (List.range i).map (fun k => a.getD k 0 + colSum (st.1 ++ [qi]) m k)
        = (List.range i).map (fun k => a.getD k 0 + colSum st.1 m k) := by
      apply List.map_congr_left
      intro k hk
      rw [colSum_append_lt _ _ _ _ (by rw [hl]; exact List.mem_range.1 hk)]
    have hlast : colSum (st.1 ++ [qi]) m i
        = sumTo (fun j => st.1.getD j 0 * m.getD (i - j) 0) i + qi * m.getD 0 0 := by
      have := colSum_append_eq st.1 m qi
      rwa [hl] at this
    rw [List.range_succ, List.map_append, val_append, hcong, ← hv, List.length_map,
      List.length_range, List.map_cons, List.map_nil, hlast]
    simp only [val, regVal, Nat.pow_succ] at *
    rw [hz] at s1
    grind

theorem rdcLoop1_succ (B u : Nat) (a m : List Nat) (i : Nat) :
    rdcLoop1 B u a m (i + 1) = rdcStep1 B u a m (rdcLoop1 B u a m i) i := by
  simp only [rdcLoop1, List.range_succ, List.foldl_append, List.foldl_cons, List.foldl_nil]

theorem rdcLoop1_inv (B u : Nat) (hB : 1 < B) (a m : List Nat) (hda : ∀ d ∈ a, d < B)
    (hdm : ∀ d ∈ m, d < B) (hu : (u * m.getD 0 0 + 1) % B = 0) :
    ∀ i, i < B → Inv1 B a m i (rdcLoop1 B u a m i)
  | 0, _ => by
    refine ⟨rfl, by simp [rdcLoop1], rfl, by simp [rdcLoop1]; omega, by simp [rdcLoop1]; omega, ?_⟩
    simp [rdcLoop1, regVal, val]
  | i + 1, h => by
    rw [rdcLoop1_succ]
    exact rdcStep1_inv B u hB a m hda hdm hu i h _ (rdcLoop1_inv B u hB a m hda hdm hu i (by omega))

/-- second-loop invariant: emitted digits + register · B^k = carry-in + Σ_{j<k} column_{n+j} · B^j -/
def Inv2 (B n : Nat) (a m q : List Nat) (r0 : Nat × Nat × Nat) (k : Nat)
    (st : List Nat × (Nat × Nat × Nat)) : Prop :=
  st.1.length = k ∧ (∀ d ∈ st.1, d < B) ∧ st.2.1 = 0 ∧ st.2.2.1 < B ∧ st.2.2.2 < B
  ∧ val B st.1 + B ^ k * regVal B st.2
      = regVal B r0 + val B ((List.range k).map fun j => a.getD (j + n) 0 + colSum q m (j + n))

theorem rdcStep2_inv (B n : Nat) (hB : 1 < B) (hnB : n < B) (a m q : List Nat)
    (hda : ∀ d ∈ a, d < B) (hdm : ∀ d ∈ m, d < B) (hdq : ∀ d ∈ q, d < B)
    (hlm : m.length = n) (hlq : q.length = n) (r0 : Nat × Nat × Nat) (k : Nat) (hk : k + 1 ≤ n)
    (st : List Nat × (Nat × Nat × Nat)) (h : Inv2 B n a m q r0 k st) :
    Inv2 B n a m q r0 (k + 1) (rdcStep2 B n a m q st k) := by
  obtain ⟨hl, hq, h0, h1, h2, hv⟩ := h
  have ek : k + n - n + 1 = k + 1 := by omega
  have e0 : (List.range (n - (k + n - n + 1))).foldl
      (fun r jj => combaStepMul B r (q.getD (jj + (k + n - n + 1)) 0)
        (m.getD (k + n - (jj + (k + n - n + 1))) 0)) st.2
      = mulProc B q m ((List.range (n - (k + 1))).map fun j => (k + 1 + j, n - 1 - j)) st.2 := by
    have hmap : (List.range (n - (k + 1))).map (fun j => (k + 1 + j, n - 1 - j))
        = (List.range (n - (k + 1))).map (fun jj => (jj + (k + 1), k + n - (jj + (k + 1)))) := by
      apply List.map_congr_left
      intro jj hjj
      have := List.mem_range.1 hjj
      simp only [Prod.mk.injEq]
      omega
    unfold mulProc
    rw [hmap, List.foldl_map, ek]
  have hak := getD_lt B (by omega) a hda (k + n)
  obtain ⟨c1, c2, c3, c4, _⟩ := rdc_col B hB q m hdq hdm
    ((List.range (n - (k + 1))).map fun j => (k + 1 + j, n - 1 - j))
    (by simp; omega) (a.getD (k + n) 0) hak st.2 h0 h1 h2
  rw [cols_seg q m (k + 1) (n - 1) (n - (k + 1)) (k + n) (by omega) (Or.inr (by omega))
    (Or.inl (by omega)) (by omega)] at c1
  simp only [rdcStep2, e0]
  generalize combaAdd B (mulProc B q m ((List.range (n - (k + 1))).map
    fun j => (k + 1 + j, n - 1 - j)) st.2) (a.getD (k + n) 0) = r1 at c1 c2 c3 c4 ⊢
  refine ⟨by simp [hl], ?_, rfl, c2, c3, ?_⟩
  · intro d hd
    rcases List.mem_append.1 hd with hd | hd
    · exact hq d hd
    · simp at hd; omega
  · rw [List.range_succ, List.map_append, val_append, val_append, List.length_map,
      List.length_range, List.map_cons, List.map_nil, hl]
    simp only [val, regVal, Nat.pow_succ] at *
    grind

theorem rdcLoop2_succ (B n : Nat) (a m q : List Nat) (r : Nat × Nat × Nat) (k : Nat) :
    rdcLoop2 B n a m q r (k + 1) = rdcStep2 B n a m q (rdcLoop2 B n a m q r k) k := by
  simp only [rdcLoop2, List.range_succ, List.foldl_append, List.foldl_cons, List.foldl_nil]

theorem rdcLoop2_inv (B n : Nat) (hB : 1 < B) (hnB : n < B) (a m q : List Nat)
    (hda : ∀ d ∈ a, d < B) (hdm : ∀ d ∈ m, d < B) (hdq : ∀ d ∈ q, d < B)
    (hlm : m.length = n) (hlq : q.length = n) (r0 : Nat × Nat × Nat)
    (h0 : r0.1 = 0) (h1 : r0.2.1 < B) (h2 : r0.2.2 < B) :
    ∀ k, k + 1 ≤ n → Inv2 B n a m q r0 k (rdcLoop2 B n a m q r0 k)
  | 0, _ => by
    refine ⟨rfl, by simp [rdcLoop2], h0, h1, h2, ?_⟩
    simp [rdcLoop2, val]
  | k + 1, h => by
    rw [rdcLoop2_succ]
    exact rdcStep2_inv B n hB hnB a m q hda hdm hdq hlm hlq r0 k (by omega) _
      (rdcLoop2_inv B n hB hnB a m q hda hdm hdq hlm hlq r0 h0 h1 h2 k (by omega))

theorem colSum_high (q m : List Nat) (k : Nat) (h : q.length + m.length ≤ k + 1) :
    colSum q m k = 0 := by
  unfold colSum
  apply sumTo_zero
  intro i hi
  show q.getD i 0 * m.getD (k - i) 0 = 0
  by_cases h1 : q.length ≤ i
  · rw [getD_ge q i h1, Nat.zero_mul]
  · rw [getD_ge m (k - i) (by omega), Nat.mul_zero]

theorem cube_bound (B : Nat) (hB : 1 < B) : B * B + B ≤ B * B * B := by
  have h1 : 2 * (B * B) ≤ B * (B * B) := Nat.mul_le_mul_right _ hB
  have h2 : B * 1 ≤ B * B := Nat.mul_le_mul_left _ (by omega)
  have h3 : B * (B * B) = B * B * B := by grind
  omega

theorem core_arith (P B VO R0 R1 G aL x0 x1 x2 T : Nat)
    (hv2 : VO + P * R1 = R0 + G)
    (e : x0 + B * x1 + B * B * x2 = R1 + aL)
    (htot : P * B * R0 + P * B * (G + P * (aL + 0 + B * 0)) = T) :
    P * B * (VO + P * (x0 + B * 0) + P * B * (x1 + B * x2)) = T := by
  subst htot
  have : P * B * (VO + P * (x0 + B * 0) + P * B * (x1 + B * x2))
      = P * B * (VO + P * (x0 + B * x1 + B * B * x2)) := by grind
  rw [this, e]
  have : P * B * (VO + P * (R1 + aL)) = P * B * ((VO + P * R1) + P * aL) := by grind
  rw [this, hv2]
  grind

/-- the exact quotient computed by the two loops and the last column -/
theorem rdc_core (B u n : Nat) (hB : 1 < B) (hn : 0 < n) (hnB : n < B) (a m : List Nat)
    (hla : a.length = 2 * n) (hlm : m.length = n) (hda : ∀ d ∈ a, d < B) (hdm : ∀ d ∈ m, d < B)
    (hu : (u * m.getD 0 0 + 1) % B = 0) (res : List Nat) (r : Nat × Nat × Nat)
    (hr : r = combaAdd B (rdcLoop2 B n a m (rdcLoop1 B u a m n).1 (rdcLoop1 B u a m n).2 (n - 1)).2
      (a.getD (2 * n - 1) 0))
    (hres : res = (rdcLoop2 B n a m (rdcLoop1 B u a m n).1 (rdcLoop1 B u a m n).2 (n - 1)).1
      ++ [r.2.2]) :
    ∃ Q, Q < B ^ n ∧ B ^ n * (val B res + B ^ n * (r.2.1 + B * r.1)) = val B a + Q * val B m
      ∧ res.length = n ∧ (∀ d ∈ res, d < B) ∧ r.1 < B ∧ r.2.1 < B := by
  obtain ⟨hl1, hq1, z1, b1, b2, hv1⟩ := rdcLoop1_inv B u hB a m hda hdm hu n hnB
  generalize rdcLoop1 B u a m n = st1 at *
  obtain ⟨q, r0⟩ := st1
  simp only at hl1 hq1 z1 b1 b2 hv1 hr hres
  obtain ⟨hl2, hq2, z2, d1, d2, hv2⟩ :=
    rdcLoop2_inv B n hB hnB a m q hda hdm hq1 hlm hl1 r0 z1 b1 b2 (n - 1) (by omega)
  generalize rdcLoop2 B n a m q r0 (n - 1) = st2 at *
  obtain ⟨out, r1⟩ := st2
  simp only at hl2 hq2 z2 d1 d2 hv2 hr hres
  have hal := getD_lt B (by omega) a hda (2 * n - 1)
  have hrl := reg_le B r1 z2 d1 d2
  have hcb := cube_bound B hB
  obtain ⟨e, k1, k2, k3⟩ := combaAdd_spec B hB r1 _ (by omega) d1 d2 hal (by omega)
  rw [← hr] at e k1 k2 k3
  obtain ⟨k, rfl⟩ : ∃ k, n = k + 1 := ⟨n - 1, by omega⟩
  have ek : k + 1 - 1 = k := by omega
  have e2k : 2 * (k + 1) - 1 = k + (k + 1) := by omega
  rw [ek] at hv2 hl2
  rw [e2k] at e
  refine ⟨val B q, ?_, ?_, ?_, ?_, k1, k2⟩
  · have := val_lt B q hq1; rwa [hl1] at this
  · -- all 2n columns
    have htot : val B ((List.range (k + 1 + (k + 1))).map
        fun j => a.getD j 0 + colSum q m j) = val B a + val B q * val B m := by
      rw [val_map_add, val_getD_range B a _ (by omega), val_colSum B m q _ (by omega)]
    rw [List.range_add, List.map_append, val_append, List.length_map, List.length_range,
      List.map_map, ← hv1] at htot
    have hG : (List.range (k + 1)).map ((fun j => a.getD j 0 + colSum q m j) ∘ fun x => k + 1 + x)
        = (List.range (k + 1)).map fun j => a.getD (j + (k + 1)) 0 + colSum q m (j + (k + 1)) := by
      apply List.map_congr_left
      intro j _
      show a.getD (k + 1 + j) 0 + colSum q m (k + 1 + j) = _
      rw [Nat.add_comm (k + 1) j]
    rw [hG, List.range_succ, List.map_append, val_append, List.length_map, List.length_range,
      List.map_cons, List.map_nil] at htot
    have hz : colSum q m (k + (k + 1)) = 0 := colSum_high q m _ (by omega)
    rw [hz] at htot
    rw [hres, val_append, hl2]
    simp only [val, regVal, Nat.pow_succ] at hv2 e htot ⊢
    exact core_arith _ _ _ _ _ _ _ _ _ _ _ hv2 e htot
  · rw [hres]; simp [hl2]
  · intro d hd
    rw [hres] at hd
    rcases List.mem_append.1 hd with hd | hd
    · exact hq2 d hd
    · simp at hd; omega

theorem rdc_final (R p T Q V h : Nat) (hp : p < R) (hT : T < p * R) (hQ : Q < R)
    (e : R * (V + R * h) = T + Q * p) :
    h ≤ 1 ∧ V + h * R < 2 * p ∧ ((V + h * R) % p * R) % p = T % p := by
  have hp0 : 0 < p := by
    apply Nat.pos_of_ne_zero; intro h0; subst h0; simp at hT
  have h1 : Q * p < R * p := Nat.mul_lt_mul_of_pos_right hQ hp0
  have h2 : R * (V + R * h) < R * (2 * p) := by
    have : R * (2 * p) = p * R + R * p := by grind
    omega
  have h3 : V + R * h < 2 * p := Nat.lt_of_mul_lt_mul_left h2
  have h4 : h ≤ 1 := by
    apply Classical.byContradiction
    intro hh
    have : R * 2 ≤ R * h := Nat.mul_le_mul_left R (by omega)
    omega
  rw [Nat.mul_comm h R]
  refine ⟨h4, h3, ?_⟩
  rw [Nat.mod_mul_mod, Nat.mul_comm, e, Nat.add_mul_mod_self_right]

end FpAux

-- `hub` (u < B) is not needed by the proof: q_i is reduced mod B whatever u is; kept for the C precondition
set_option linter.unusedVariables false in
/-- Montgomery reduction (fp_rdcn_low): for T < p·R given as 2n digits, the result is canonical and
    result · R ≡ T (mod p), including the final-subtraction and carry-out (r1 ≠ 0) branches -/
theorem fpRdcn_spec (c : FpCtx) (hc : c.WF) (hu : (c.u * c.pv + 1) % c.B = 0) (hub : c.u < c.B)
    (t : List Nat) (hlen : t.length = 2 * c.n) (hdig : ∀ d ∈ t, d < c.B) (hT : val c.B t < c.pv * c.R) :
    c.El (fpRdcn c t) ∧ (val c.B (fpRdcn c t) * c.R) % c.pv = val c.B t % c.pv := by
  have hB := one_lt_B c hc
  have hpR := pv_lt_R c hc
  have hu' : (c.u * c.p.getD 0 0 + 1) % c.B = 0 := by
    have hpl := hc.hlen
    have hn := hc.hn
    have hpv : c.pv = val c.B c.p := rfl
    rw [hpv] at hu
    generalize c.p = m at *
    cases m with
    | nil => simp at hpl; omega
    | cons m0 ms =>
      simp only [val, List.getD_cons_zero] at hu ⊢
      have : c.u * (m0 + c.B * val c.B ms) + 1 = c.u * m0 + 1 + c.B * (c.u * val c.B ms) := by grind
      rwa [this, Nat.add_mul_mod_self_left] at hu
  rw [fpRdcn_eq]
  obtain ⟨Q, hQ, e, rl, rd, _, _⟩ := rdc_core c.B c.u c.n hB hc.hn hc.hnB t c.p hlen hc.hlen hdig
    hc.hdig hu' _ _ rfl rfl
  generalize combaAdd c.B (rdcLoop2 c.B c.n t c.p (rdcLoop1 c.B c.u t c.p c.n).1
    (rdcLoop1 c.B c.u t c.p c.n).2 (c.n - 1)).2 (t.getD (2 * c.n - 1) 0) = r at *
  generalize (rdcLoop2 c.B c.n t c.p (rdcLoop1 c.B c.u t c.p c.n).1
    (rdcLoop1 c.B c.u t c.p c.n).2 (c.n - 1)).1 ++ [r.2.2] = res at *
  rw [show c.B ^ c.n = c.R from rfl] at e hQ
  rw [show val c.B c.p = c.pv from rfl] at e
  obtain ⟨f1, f2, f3⟩ := rdc_final c.R c.pv _ Q _ _ hpR hT hQ e
  have hr2 : r.1 = 0 := by
    apply Classical.byContradiction
    intro h
    have : c.B * 1 ≤ c.B * r.1 := Nat.mul_le_mul_left _ (by omega)
    omega
  rw [hr2, Nat.mul_zero, Nat.add_zero] at f1 f2 f3
  obtain ⟨g1, g2⟩ := condSub_spec c hc res r.2.1 rl rd f1 f2
  refine ⟨g1, ?_⟩
  rw [g2, f3]

/-- Montgomery multiplication: ⟦mulm a b⟧·R ≡ ⟦a⟧·⟦b⟧ -/
theorem fpMulm_spec (c : FpCtx) (hc : c.WF) (hu : (c.u * c.pv + 1) % c.B = 0) (hub : c.u < c.B)
    (a b : List Nat) (ha : c.El a) (hb : c.El b) :
    c.El (fpMulm c a b) ∧ (val c.B (fpMulm c a b) * c.R) % c.pv = (val c.B a * val c.B b) % c.pv := by
  have hB := one_lt_B c hc
  have hpR := pv_lt_R c hc
  obtain ⟨al, ad, av⟩ := ha
  obtain ⟨bl, bd, bv⟩ := hb
  obtain ⟨m1, m2, m3⟩ := mulnLow_spec c.B hB a b c.n al bl hc.hnB ad bd
  have hlt : val c.B a * val c.B b < c.pv * c.R :=
    Nat.mul_lt_mul'' av (Nat.lt_trans bv hpR)
  have := fpRdcn_spec c hc hu hub (mulnLow c.B a b c.n) m2 m3 (by rw [m1]; exact hlt)
  rw [m1] at this
  exact this

theorem fpSqrm_spec (c : FpCtx) (hc : c.WF) (hu : (c.u * c.pv + 1) % c.B = 0) (hub : c.u < c.B)
    (a : List Nat) (ha : c.El a) :
    c.El (fpSqrm c a) ∧ (val c.B (fpSqrm c a) * c.R) % c.pv = (val c.B a * val c.B a) % c.pv := by
  have hB := one_lt_B c hc
  have hpR := pv_lt_R c hc
  obtain ⟨al, ad, av⟩ := ha
  obtain ⟨m1, m2, m3⟩ := sqrnLow_spec c.B hB a c.n al hc.hnB ad
  have hlt : val c.B a * val c.B a < c.pv * c.R :=
    Nat.mul_lt_mul'' av (Nat.lt_trans av hpR)
  have := fpRdcn_spec c hc hu hub (sqrnLow c.B a c.n) m2 m3 (by rw [m1]; exact hlt)
  rw [m1] at this
  exact this

end Relic.Model
