/-
Prime-field digit level (Model/Fp.lean): modular add/sub/neg/dbl/hlv return the canonical residue, and
product-scanning Montgomery reduction computes T·R⁻¹ mod p in canonical form. No primality needed here:
p is any odd modulus with n digits and u·p ≡ -1 (mod B).
-/
import RelicVerif.Model.Fp
import RelicVerif.Lemmas.BnLowMul
import RelicVerif.Lemmas.BnLowShift

namespace Relic.Model

/-- a well-formed field context: n digits, digits < B, modulus odd and > 1, n < B (column sums fit) -/
structure FpCtx.WF (c : FpCtx) : Prop where
  hw : 0 < c.w
  hn : 0 < c.n
  hlen : c.p.length = c.n
  hdig : ∀ d ∈ c.p, d < c.B
  hodd : c.pv % 2 = 1
  hgt : 1 < c.pv
  hnB : c.n < c.B

/-- an element in canonical form: n digits < B with value < p -/
def FpCtx.El (c : FpCtx) (a : List Nat) : Prop := a.length = c.n ∧ (∀ d ∈ a, d < c.B) ∧ val c.B a < c.pv

theorem fpAddm_spec (c : FpCtx) (hc : c.WF) (a b : List Nat) (ha : c.El a) (hb : c.El b) :
    c.El (fpAddm c a b) ∧ val c.B (fpAddm c a b) = (val c.B a + val c.B b) % c.pv := by
  sorry

theorem fpSubm_spec (c : FpCtx) (hc : c.WF) (a b : List Nat) (ha : c.El a) (hb : c.El b) :
    c.El (fpSubm c a b) ∧ val c.B (fpSubm c a b) = (val c.B a + c.pv - val c.B b) % c.pv := by
  sorry

theorem fpNegm_spec (c : FpCtx) (hc : c.WF) (a : List Nat) (ha : c.El a) :
    c.El (fpNegm c a) ∧ val c.B (fpNegm c a) = (c.pv - val c.B a) % c.pv := by
  sorry

theorem fpDblm_spec (c : FpCtx) (hc : c.WF) (a : List Nat) (ha : c.El a) :
    c.El (fpDblm c a) ∧ val c.B (fpDblm c a) = (2 * val c.B a) % c.pv := by
  sorry

/-- halving: the canonical x with 2x ≡ a (mod p) -/
theorem fpHlvm_spec (c : FpCtx) (hc : c.WF) (a : List Nat) (ha : c.El a) :
    c.El (fpHlvm c a) ∧ (2 * val c.B (fpHlvm c a)) % c.pv = val c.B a := by
  sorry

theorem combaAdd_spec (B : Nat) (hB : 1 < B) (r : Nat × Nat × Nat) (a : Nat)
    (hr2 : r.1 < B) (hr1 : r.2.1 < B) (hr0 : r.2.2 < B) (ha : a < B)
    (hfit : regVal B r + a < B * B * B) :
    regVal B (combaAdd B r a) = regVal B r + a
    ∧ (combaAdd B r a).1 < B ∧ (combaAdd B r a).2.1 < B ∧ (combaAdd B r a).2.2 < B := by
  sorry

/-- Montgomery reduction (fp_rdcn_low): for T < p·R given as 2n digits, the result is canonical and
    result · R ≡ T (mod p), including the final-subtraction and carry-out (r1 ≠ 0) branches -/
theorem fpRdcn_spec (c : FpCtx) (hc : c.WF) (hu : (c.u * c.pv + 1) % c.B = 0) (hub : c.u < c.B)
    (t : List Nat) (hlen : t.length = 2 * c.n) (hdig : ∀ d ∈ t, d < c.B) (hT : val c.B t < c.pv * c.R) :
    c.El (fpRdcn c t) ∧ (val c.B (fpRdcn c t) * c.R) % c.pv = val c.B t % c.pv := by
  sorry

/-- Montgomery multiplication: ⟦mulm a b⟧·R ≡ ⟦a⟧·⟦b⟧ -/
theorem fpMulm_spec (c : FpCtx) (hc : c.WF) (hu : (c.u * c.pv + 1) % c.B = 0) (hub : c.u < c.B)
    (a b : List Nat) (ha : c.El a) (hb : c.El b) :
    c.El (fpMulm c a b) ∧ (val c.B (fpMulm c a b) * c.R) % c.pv = (val c.B a * val c.B b) % c.pv := by
  sorry

theorem fpSqrm_spec (c : FpCtx) (hc : c.WF) (hu : (c.u * c.pv + 1) % c.B = 0) (hub : c.u < c.B)
    (a : List Nat) (ha : c.El a) :
    c.El (fpSqrm c a) ∧ (val c.B (fpSqrm c a) * c.R) % c.pv = (val c.B a * val c.B a) % c.pv := by
  sorry

/-- equality of canonical elements coincides with equality of residues (raw digit comparison is sound) -/
theorem El_eq_iff (c : FpCtx) (hc : c.WF) (a b : List Nat) (ha : c.El a) (hb : c.El b) :
    a = b ↔ val c.B a % c.pv = val c.B b % c.pv := by
  sorry

/-- class-B characterisations: a canonical inverse / square root is unique (up to sign) -/
theorem inv_unique (p a x y : Nat) (hx : x < p) (hy : y < p) (h1 : a * x % p = 1) (h2 : a * y % p = 1) : x = y := by
  sorry

end Relic.Model
