/-
C14 (extension): the model of src/md/blake2s-ref.c (Model/Blake2s.lean: init / init_key / update with
the buffer-fill logic / counter with carry / final) equals the RFC 7693 function of Spec/Blake2s.lean for
every chunking, keyed and unkeyed.
-/
import RelicVerif.Model.Blake2s

namespace Relic.Lemmas.Blake2s
open Relic.Spec.Blake2s (F loop IV outBytes initH blake2sK)
open Relic.Model.Blake2s (State incrementCounter compress updLoop update initParam init initKey finalState final run)

/-- the byte counter t[0] + 2^32·t[1] of a state -/
def tOf (S : State) : Nat := S.t0.toNat + 2 ^ 32 * S.t1.toNat

/-- k full, non-last blocks of the RFC loop -/
def foldC (h : Array UInt32) (t : Nat) : Nat → List UInt8 → Array UInt32
  | 0, _ => h
  | k + 1, l => foldC (F h (l.take 64) (t + 64) false) (t + 64) k (l.drop 64)

theorem foldC_append (k : Nat) (h : Array UInt32) (t : Nat) (pre blk : List UInt8) (hp : pre.length = 64 * k)
    (hb : blk.length = 64) :
    foldC h t (k + 1) (pre ++ blk) = F (foldC h t k pre) blk (t + 64 * k + 64) false := by
  induction k generalizing h t pre with
  | zero =>
    have : pre = [] := List.eq_nil_of_length_eq_zero (by omega)
    subst this
    simp [foldC, ← hb]
  | succ k ih =>
    have h1 : (pre ++ blk).take 64 = pre.take 64 := by
      rw [List.take_append_of_le_length (by omega)]
    have h2 : (pre ++ blk).drop 64 = pre.drop 64 ++ blk := by
      rw [List.drop_append_of_le_length (by omega)]
    rw [foldC, h1, h2, ih _ _ _ (by simp; omega)]
    have e : t + 64 + 64 * k + 64 = t + 64 * (k + 1) + 64 := by omega
    rw [e]
    rfl

theorem loop_prefix (k : Nat) (h : Array UInt32) (t fuel : Nat) (pre rest : List UInt8)
    (hp : pre.length = 64 * k) (hr : 0 < rest.length) :
    loop h t (fuel + k) (pre ++ rest) = loop (foldC h t k pre) (t + 64 * k) fuel rest := by
  induction k generalizing h t pre with
  | zero =>
    have : pre = [] := List.eq_nil_of_length_eq_zero (by omega)
    subst this
    simp [foldC]
  | succ k ih =>
    have h1 : (pre ++ rest).take 64 = pre.take 64 := by
      rw [List.take_append_of_le_length (by omega)]
    have h2 : (pre ++ rest).drop 64 = pre.drop 64 ++ rest := by
      rw [List.drop_append_of_le_length (by omega)]
    have hl : (pre ++ rest).length > 64 := by simp; omega
    have e : fuel + (k + 1) = (fuel + k) + 1 := by omega
    rw [e, loop, if_pos hl, h1, h2, ih _ _ _ (by simp; omega)]
    have e2 : t + 64 + 64 * k = t + 64 * (k + 1) := by omega
    rw [e2]
    rfl

theorem loop_last (h : Array UInt32) (t fuel : Nat) (rest : List UInt8) (hr : rest.length ≤ 64) :
    loop h t (fuel + 1) rest = F h (rest ++ List.replicate (64 - rest.length) 0) (t + rest.length) true := by
  rw [loop, if_neg (by omega)]

/-! ## the counter -/

theorem tOf_increment (S : State) (inc : UInt32) (h : tOf S + inc.toNat < 2 ^ 64) :
    tOf (incrementCounter S inc) = tOf S + inc.toNat := by
  unfold tOf at *
  unfold incrementCounter
  simp only
  have h0 := S.t0.toNat_lt
  have h1 := S.t1.toNat_lt
  have hi := inc.toNat_lt
  by_cases hc : S.t0 + inc < inc
  · rw [if_pos hc]
    rw [UInt32.lt_iff_toNat_lt, UInt32.toNat_add] at hc
    rw [UInt32.toNat_add, UInt32.toNat_add]
    have : (1 : UInt32).toNat = 1 := rfl
    rw [this]
    omega
  · rw [if_neg hc]
    rw [UInt32.lt_iff_toNat_lt, UInt32.toNat_add] at hc
    rw [UInt32.toNat_add, UInt32.toNat_add]
    have : (0 : UInt32).toNat = 0 := rfl
    rw [this]
    omega

/-- the state has consumed exactly the whole blocks `pre` -/
structure Mid (h0 : Array UInt32) (S : State) (pre : List UInt8) : Prop where
  f0 : S.f0 = 0
  split : ∃ k, pre.length = 64 * k ∧ S.h = foldC h0 0 k pre ∧ tOf S = 64 * k

theorem mid_step (h0 : Array UInt32) (S : State) (pre blk : List UInt8) (hm : Mid h0 S pre)
    (hb : blk.length = 64) (hlen : pre.length + 64 < 2 ^ 64) :
    Mid h0 (compress (incrementCounter S 64) blk) (pre ++ blk) := by
  obtain ⟨hf, k, hp, hh, ht⟩ := hm
  have h64 : (64 : UInt32).toNat = 64 := rfl
  have hinc := tOf_increment S 64 (by rw [h64, ht]; omega)
  rw [h64] at hinc
  refine ⟨by simpa [compress, incrementCounter] using hf, k + 1, by simp [hp, hb]; omega, ?_, ?_⟩
  · have hfl : ((incrementCounter S 64).f0 != 0) = false := by
      have : (incrementCounter S 64).f0 = 0 := by simpa [incrementCounter] using hf
      rw [this]; rfl
    have e : (compress (incrementCounter S 64) blk).h
        = F S.h blk (tOf (incrementCounter S 64)) ((incrementCounter S 64).f0 != 0) := rfl
    rw [e, hinc, hfl, ht, foldC_append k h0 0 pre blk hp hb, hh]
    simp
  · have e : tOf (compress (incrementCounter S 64) blk) = tOf (incrementCounter S 64) := rfl
    rw [e, hinc, ht]; omega

theorem updLoop_spec (h0 : Array UInt32) (fuel : Nat) (S : State) (pre rest : List UInt8) (hm : Mid h0 S pre)
    (hr : 0 < rest.length) (hf : rest.length ≤ fuel) (hlen : pre.length + rest.length < 2 ^ 64) :
    ∃ pre2, Mid h0 (updLoop fuel S rest).1 pre2 ∧ pre ++ rest = pre2 ++ (updLoop fuel S rest).2 ∧
      0 < (updLoop fuel S rest).2.length ∧ (updLoop fuel S rest).2.length ≤ 64 ∧
      (updLoop fuel S rest).1.buf = S.buf ∧ (updLoop fuel S rest).1.outlen = S.outlen := by
  induction fuel generalizing S pre rest with
  | zero => omega
  | succ fuel ih =>
    rw [updLoop]
    split
    · rename_i hgt
      have hstep := mid_step h0 S pre (rest.take 64) hm (by simp; omega) (by omega)
      obtain ⟨pre2, h1, h2, h3, h4, h5, h6⟩ := ih (compress (incrementCounter S 64) (rest.take 64))
        (pre ++ rest.take 64) (rest.drop 64) hstep (by simp; omega) (by simp; omega)
        (by simp; omega)
      refine ⟨pre2, h1, ?_, h3, h4, h5, h6⟩
      rw [← h2, List.append_assoc, List.take_append_drop]
    · rename_i hle
      exact ⟨pre, hm, rfl, hr, by simpa using hle, rfl, rfl⟩

/-- invariant of the streaming state after the data `m` has been fed -/
structure Inv (h0 : Array UInt32) (nn : Nat) (S : State) (m : List UInt8) : Prop where
  outlen : S.outlen = nn
  buf : S.buf.length ≤ 64
  nonempty : S.buf = [] → m = []
  split : ∃ pre, Mid h0 S pre ∧ m = pre ++ S.buf

theorem inv_update (h0 : Array UInt32) (nn : Nat) (S : State) (m inp : List UInt8) (hi : Inv h0 nn S m)
    (hlen : m.length + inp.length < 2 ^ 64) : Inv h0 nn (update S inp) (m ++ inp) := by
  obtain ⟨ho, hb, hne, pre, hm, hsplit⟩ := hi
  unfold update
  split
  · rename_i hpos
    simp only
    split
    · rename_i hgt
      -- the buffer is completed and compressed, then whole blocks directly from the input
      have hblk : (S.buf ++ inp.take (64 - S.buf.length)).length = 64 := by simp; omega
      have hplen : pre.length + S.buf.length = m.length := by rw [hsplit]; simp
      have hstep := mid_step h0 { S with buf := [] } pre _ ⟨hm.f0, hm.split⟩ hblk (by omega)
      obtain ⟨pre2, h1, h2, h3, h4, h5, h6⟩ := updLoop_spec h0 inp.length _ _ (inp.drop (64 - S.buf.length)) hstep
        (by simp; omega) (by simp) (by simp; omega)
      generalize hres : updLoop inp.length (compress (incrementCounter { S with buf := [] } 64)
        (S.buf ++ inp.take (64 - S.buf.length))) (inp.drop (64 - S.buf.length)) = res at *
      obtain ⟨S2, rest2⟩ := res
      simp only at h1 h2 h3 h4 h5 h6 ⊢
      refine ⟨by rw [h6]; exact ho, h4, ?_, pre2, ⟨h1.f0, h1.split⟩, ?_⟩
      · intro he; simp only at he; rw [he] at h3; simp at h3
      · simp only
        rw [← h2, hsplit]
        simp only [List.append_assoc, List.take_append_drop]
    · rename_i hle
      refine ⟨ho, by simp; omega, ?_, pre, ⟨hm.f0, hm.split⟩, by simp [hsplit]⟩
      intro he
      simp only [List.append_eq_nil_iff] at he
      rw [he.2] at hpos; simp at hpos
  · rename_i hz
    have : inp = [] := List.eq_nil_of_length_eq_zero (by omega)
    subst this
    simpa using (⟨ho, hb, hne, pre, hm, hsplit⟩ : Inv h0 nn S m)

theorem inv_chunks (h0 : Array UInt32) (nn : Nat) (cs : List (List UInt8)) (S : State) (m : List UInt8)
    (hi : Inv h0 nn S m) (hlen : m.length + cs.flatten.length < 2 ^ 64) :
    Inv h0 nn (cs.foldl update S) (m ++ cs.flatten) := by
  induction cs generalizing S m with
  | nil => simpa using hi
  | cons c t ih =>
    simp only [List.foldl_cons, List.flatten_cons]
    simp only [List.flatten_cons, List.length_append] at hlen
    have := ih _ _ (inv_update h0 nn S m c hi (by omega)) (by rw [List.length_append]; omega)
    simpa using this

theorem final_eq (h0 : Array UInt32) (nn : Nat) (S : State) (m : List UInt8) (hi : Inv h0 nn S m)
    (hlen : m.length < 2 ^ 64) :
    final S nn = some (outBytes (loop h0 0 (m.length / 64 + 2) m) nn) := by
  obtain ⟨ho, hb, hne, pre, ⟨hf, k, hp, hh, ht⟩, hsplit⟩ := hi
  have hmlen : m.length = 64 * k + S.buf.length := by rw [hsplit]; simp [hp]
  unfold final
  rw [if_neg (by omega)]
  have hf' : (S.f0 != 0) = false := by rw [hf]; rfl
  rw [hf']
  simp only [Bool.false_eq_true, if_false]
  congr 2
  -- the state change of final
  have hbl : (UInt32.ofNat S.buf.length).toNat = S.buf.length := by
    rw [UInt32.toNat_ofNat']; omega
  have hinc := tOf_increment S (UInt32.ofNat S.buf.length) (by rw [hbl, ht]; omega)
  rw [hbl] at hinc
  have e : (finalState S).h = F S.h (S.buf ++ List.replicate (64 - S.buf.length) 0)
      (tOf (incrementCounter S (UInt32.ofNat S.buf.length))) true := rfl
  rw [e, hinc, ht, hh]
  by_cases hempty : S.buf = []
  · have hm := hne hempty
    have hpre : pre = [] := by
      rw [hm, hempty] at hsplit
      simpa using hsplit.symm
    have hk : k = 0 := by rw [hpre] at hp; simp at hp; omega
    subst hk
    rw [hm, hempty, hpre]
    simp [loop, foldC]
  · have hpos : 0 < S.buf.length := List.length_pos_iff.mpr hempty
    have hfuel : m.length / 64 + 2 = (m.length / 64 + 1 - k + 1) + k := by omega
    rw [hfuel]
    conv => rhs; rw [hsplit]
    rw [loop_prefix k h0 0 _ pre S.buf hp hpos, loop_last _ _ _ _ hb]
    simp

/-! ## initial states -/

theorem inv_init (nn kk : Nat) : Inv (initParam nn kk).h nn (initParam nn kk) [] :=
  ⟨rfl, by simp [initParam], fun _ => rfl, [], ⟨rfl, 0, rfl, rfl, rfl⟩, rfl⟩

/-- the first word of the parameter block as the library builds it (digest_length | key_length << 8 |
    fanout << 16 | depth << 24) is the RFC's 0x0101kknn -/
theorem param_word : ∀ nn, nn < 33 → ∀ kk, kk < 33 →
    (IV.getD 0 0 ^^^ (UInt32.ofNat nn ||| (UInt32.ofNat kk <<< 8) ||| 0x00010000 ||| 0x01000000))
      = (IV.getD 0 0 ^^^ (0x01010000 : UInt32) ^^^ (UInt32.ofNat kk <<< (8 : UInt32)) ^^^ UInt32.ofNat nn) := by
  decide +kernel

theorem initParam_h (nn kk : Nat) (hn : nn ≤ 32) (hk : kk ≤ 32) : (initParam nn kk).h = initH kk nn := by
  unfold initParam initH
  simp only
  rw [param_word nn (by omega) kk (by omega)]

/-- init[_key]; update*; final = RFC 7693 (keyed when the key is non-empty), for every chunking -/
theorem run_eq (nn : Nat) (key : List UInt8) (chunks : List (List UInt8)) (hn1 : 1 ≤ nn) (hn : nn ≤ 32)
    (hk : key.length ≤ 32) (hlen : 64 + chunks.flatten.length < 2 ^ 64) :
    run nn key chunks = some (blake2sK nn key chunks.flatten) := by
  unfold run blake2sK
  by_cases hkey : key.length > 0
  · simp only [hkey, if_true]
    have hi : initKey nn key = some (update (initParam nn key.length) (key ++ List.replicate (64 - key.length) 0)) := by
      unfold initKey
      rw [if_neg (by omega), if_neg (by omega)]
    rw [hi]
    simp only [Option.bind_eq_bind, Option.bind_some]
    have h1 := inv_update _ nn _ [] (key ++ List.replicate (64 - key.length) 0) (inv_init nn key.length)
      (by simp; omega)
    have h2 := inv_chunks _ nn chunks _ _ h1
      (by simp only [List.nil_append, List.length_append, List.length_replicate]; omega)
    rw [final_eq _ nn _ _ h2 (by simp only [List.nil_append, List.length_append, List.length_replicate]; omega),
      initParam_h nn key.length hn hk]
    simp
  · have hk0 : key.length = 0 := by omega
    simp only [hkey, if_false]
    have hi : init nn = some (initParam nn 0) := by
      unfold init
      rw [if_neg (by omega)]
    rw [hi]
    simp only [Option.bind_eq_bind, Option.bind_some]
    have h2 := inv_chunks _ nn chunks _ _ (inv_init nn 0) (by simp only [List.length_nil]; omega)
    rw [final_eq _ nn _ _ h2 (by simp only [List.nil_append]; omega), initParam_h nn 0 hn (by omega), hk0]
    simp

/-- the one-shot blake2s() -/
theorem oneshot_eq (nn : Nat) (key msg : List UInt8) (hn1 : 1 ≤ nn) (hn : nn ≤ 32) (hk : key.length ≤ 32)
    (hlen : 64 + msg.length < 2 ^ 64) :
    Relic.Model.Blake2s.blake2s nn msg key = some (blake2sK nn key msg) := by
  have := run_eq nn key [msg] hn1 hn hk (by simpa using hlen)
  unfold Relic.Model.Blake2s.blake2s
  rw [if_neg (by omega), if_neg (by omega)]
  simpa [run] using this

/-- invalid parameters are rejected -/
theorem oneshot_rejects (nn : Nat) (key msg : List UInt8) (h : nn = 0 ∨ nn > 32 ∨ key.length > 32) :
    Relic.Model.Blake2s.blake2s nn msg key = none := by
  unfold Relic.Model.Blake2s.blake2s
  by_cases h1 : nn = 0 ∨ nn > 32
  · rw [if_pos h1]
  · rw [if_neg h1, if_pos (by omega)]

/-- the unkeyed RFC function of round 1 is the kk = 0 instance -/
theorem unkeyed_eq (nn : Nat) (msg : List UInt8) : Relic.Spec.Blake2s.blake2s nn msg = blake2sK nn [] msg := by
  unfold Relic.Spec.Blake2s.blake2s blake2sK outBytes initH
  simp

end Relic.Lemmas.Blake2s
