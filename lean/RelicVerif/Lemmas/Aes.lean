/-
AES (Spec/Aes.lean, FIPS 197): InvCipher inverts Cipher for every key of 16 / 24 / 32 bytes.

* the S-box tables are *computed* in the spec (`ginv` by search); they are identified with the literal
  tables through the field structure (`gmul a ·` is additive, an additive map is determined by its
  values on the 8 basis bytes), not by brute-force evaluation of the search
* InvMixColumns ∘ MixColumns = id by additivity of `gmul c ·` and 8 basis values per matrix entry
* the round structure is handled for an arbitrary list of 16-byte round keys
* KeyExpansion yields Nr + 1 round keys of 16 bytes (for every key of at least 4 bytes)
No Mathlib.
-/
import RelicVerif.Spec.Aes
namespace Relic.Lemmas.Aes
open Relic.Spec.Aes
set_option maxRecDepth 100000

/-! ## AddRoundKey -/

theorem addRoundKey_cancel (s k : Bytes) (h : s.length ≤ k.length) :
    addRoundKey (addRoundKey s k) k = s := by
  unfold addRoundKey
  induction s generalizing k with
  | nil => simp
  | cons x t ih =>
    cases k with
    | nil => simp at h
    | cons y r =>
      simp only [List.zipWith_cons_cons, List.cons.injEq]
      refine ⟨?_, ih r (by simpa using h)⟩
      rw [UInt8.xor_assoc, UInt8.xor_self, UInt8.xor_zero]

theorem addRoundKey_length (a b : Bytes) : (addRoundKey a b).length = min a.length b.length := by
  simp [addRoundKey]

theorem addRoundKey_length16 (s k : Bytes) (hs : s.length = 16) (hk : k.length = 16) :
    (addRoundKey s k).length = 16 := by
  rw [addRoundKey_length]; omega

/-! ## length lemmas -/

theorem subBytes_length (s : Bytes) : (subBytes s).length = s.length := by simp [subBytes]
theorem invSubBytes_length (s : Bytes) : (invSubBytes s).length = s.length := by simp [invSubBytes]
theorem shiftRows_length (s : Bytes) : (shiftRows s).length = 16 := by simp [shiftRows]
theorem invShiftRows_length (s : Bytes) : (invShiftRows s).length = 16 := by simp [invShiftRows]
theorem mixColumn_length (m : List UInt8) (c : Bytes) : (mixColumn m c).length = 4 := by simp [mixColumn]
theorem mixColumns_length (s : Bytes) : (mixColumns s).length = 16 := by
  simp [mixColumns, mixColumn_length, List.range_succ]
theorem invMixColumns_length (s : Bytes) : (invMixColumns s).length = 16 := by
  simp [invMixColumns, mixColumn_length, List.range_succ]

/-! ## explicit 16-element states -/

theorem exists_sixteen (s : Bytes) (h : s.length = 16) :
    ∃ a0 a1 a2 a3 a4 a5 a6 a7 a8 a9 a10 a11 a12 a13 a14 a15,
      s = [a0, a1, a2, a3, a4, a5, a6, a7, a8, a9, a10, a11, a12, a13, a14, a15] := by
  match s, h with
  | [a0, a1, a2, a3, a4, a5, a6, a7, a8, a9, a10, a11, a12, a13, a14, a15], _ =>
    exact ⟨a0, a1, a2, a3, a4, a5, a6, a7, a8, a9, a10, a11, a12, a13, a14, a15, rfl⟩

theorem range16 : List.range 16 = [0,1,2,3,4,5,6,7,8,9,10,11,12,13,14,15] := by decide
theorem range4 : List.range 4 = [0,1,2,3] := by decide
theorem range8 : List.range 8 = [0,1,2,3,4,5,6,7] := by decide

theorem shiftRows_sixteen (a0 a1 a2 a3 a4 a5 a6 a7 a8 a9 a10 a11 a12 a13 a14 a15 : UInt8) :
    shiftRows [a0, a1, a2, a3, a4, a5, a6, a7, a8, a9, a10, a11, a12, a13, a14, a15]
      = [a0, a5, a10, a15, a4, a9, a14, a3, a8, a13, a2, a7, a12, a1, a6, a11] := by
  simp [shiftRows, range16]

theorem invShiftRows_sixteen (a0 a1 a2 a3 a4 a5 a6 a7 a8 a9 a10 a11 a12 a13 a14 a15 : UInt8) :
    invShiftRows [a0, a1, a2, a3, a4, a5, a6, a7, a8, a9, a10, a11, a12, a13, a14, a15]
      = [a0, a13, a10, a7, a4, a1, a14, a11, a8, a5, a2, a15, a12, a9, a6, a3] := by
  simp [invShiftRows, range16]

theorem invShiftRows_shiftRows (s : Bytes) (h : s.length = 16) : invShiftRows (shiftRows s) = s := by
  obtain ⟨a0, a1, a2, a3, a4, a5, a6, a7, a8, a9, a10, a11, a12, a13, a14, a15, rfl⟩ := exists_sixteen s h
  rw [shiftRows_sixteen, invShiftRows_sixteen]

theorem shiftRows_invShiftRows (s : Bytes) (h : s.length = 16) : shiftRows (invShiftRows s) = s := by
  obtain ⟨a0, a1, a2, a3, a4, a5, a6, a7, a8, a9, a10, a11, a12, a13, a14, a15, rfl⟩ := exists_sixteen s h
  rw [invShiftRows_sixteen, shiftRows_sixteen]

/-- ShiftRows is a permutation of positions, so it commutes with any bytewise map -/
theorem shiftRows_map (f : UInt8 → UInt8) (s : Bytes) (h : s.length = 16) :
    shiftRows (s.map f) = (shiftRows s).map f := by
  obtain ⟨a0, a1, a2, a3, a4, a5, a6, a7, a8, a9, a10, a11, a12, a13, a14, a15, rfl⟩ := exists_sixteen s h
  simp only [List.map_cons, List.map_nil, shiftRows_sixteen]

theorem invShiftRows_map (f : UInt8 → UInt8) (s : Bytes) (h : s.length = 16) :
    invShiftRows (s.map f) = (invShiftRows s).map f := by
  obtain ⟨a0, a1, a2, a3, a4, a5, a6, a7, a8, a9, a10, a11, a12, a13, a14, a15, rfl⟩ := exists_sixteen s h
  simp only [List.map_cons, List.map_nil, invShiftRows_sixteen]

/-! ## GF(2^8): `gmul a ·` is additive -/

/-- the fold of `gmul` as a structural recursion -/
def gfold (b : UInt8) : List Nat → UInt8 → UInt8 → UInt8
  | [], acc, _ => acc
  | i :: l, acc, aa =>
    gfold b l (if (b >>> (UInt8.ofNat i)) &&& 1 ≠ 0 then acc ^^^ aa else acc) (xtime aa)

theorem gmul_fold (b : UInt8) (l : List Nat) (acc aa : UInt8) :
    (l.foldl (fun (st : UInt8 × UInt8) i =>
      let (acc, aa) := st
      (if (b >>> (UInt8.ofNat i)) &&& 1 ≠ 0 then acc ^^^ aa else acc, xtime aa)) (acc, aa)).1
      = gfold b l acc aa := by
  induction l generalizing acc aa with
  | nil => rfl
  | cons i l ih => simp only [List.foldl_cons, gfold]; exact ih _ _

theorem gmul_eq_gfold (a b : UInt8) : gmul a b = gfold b (List.range 8) 0 a := gmul_fold b _ 0 a

theorem and_one_cases (u : UInt8) : u &&& 1 = 0 ∨ u &&& 1 = 1 := by
  have h : ∀ i, i < 256 → (UInt8.ofNat i &&& 1 = 0 ∨ UInt8.ofNat i &&& 1 = 1) := by decide +kernel
  simpa using h u.toNat u.toNat_lt

theorem xor_and_one (u v : UInt8) : (u ^^^ v) &&& 1 = (u &&& 1) ^^^ (v &&& 1) := by
  rw [← UInt8.toBitVec_inj]
  simp only [UInt8.toBitVec_and, UInt8.toBitVec_xor]
  ext i hi
  simp only [BitVec.getElem_and, BitVec.getElem_xor]
  cases u.toBitVec[i] <;> cases v.toBitVec[i] <;> cases (UInt8.toBitVec 1)[i] <;> rfl

theorem gfold_xor (x y : UInt8) (l : List Nat) (p q aa : UInt8) :
    gfold (x ^^^ y) l (p ^^^ q) aa = gfold x l p aa ^^^ gfold y l q aa := by
  induction l generalizing p q aa with
  | nil => rfl
  | cons i l ih =>
    simp only [gfold]
    rw [← ih]
    congr 1
    rw [UInt8.shiftRight_xor, xor_and_one]
    have hc : p ^^^ aa ^^^ (q ^^^ aa) = p ^^^ q := by
      have : p ^^^ aa ^^^ (q ^^^ aa) = p ^^^ q ^^^ (aa ^^^ aa) := by ac_rfl
      rw [this, UInt8.xor_self, UInt8.xor_zero]
    rcases and_one_cases (x >>> UInt8.ofNat i) with hx | hx <;>
      rcases and_one_cases (y >>> UInt8.ofNat i) with hy | hy <;>
      simp only [hx, hy] <;> simp [hc] <;> ac_rfl

theorem gmul_xor (a x y : UInt8) : gmul a (x ^^^ y) = gmul a x ^^^ gmul a y := by
  simp only [gmul_eq_gfold]
  rw [← gfold_xor, UInt8.xor_zero]

theorem gmul_zero (a : UInt8) : gmul a 0 = 0 := by
  have := gmul_xor a 0 0
  simpa using this


/-- an additive map on bytes is determined by its values on the eight basis bytes -/
theorem additive_ext (f g : UInt8 → UInt8)
    (hf : ∀ x y, f (x ^^^ y) = f x ^^^ f y) (hg : ∀ x y, g (x ^^^ y) = g x ^^^ g y)
    (h0 : f 1 = g 1) (h1 : f 2 = g 2) (h2 : f 4 = g 4) (h3 : f 8 = g 8)
    (h4 : f 16 = g 16) (h5 : f 32 = g 32) (h6 : f 64 = g 64) (h7 : f 128 = g 128) (z : UInt8) :
    f z = g z := by
  have hf0 : f 0 = 0 := by simpa using hf 0 0
  have hg0 : g 0 = 0 := by simpa using hg 0 0
  have dec : ∀ i, i < 256 → UInt8.ofNat i =
      (UInt8.ofNat i &&& 1) ^^^ (UInt8.ofNat i &&& 2) ^^^ (UInt8.ofNat i &&& 4) ^^^ (UInt8.ofNat i &&& 8) ^^^
      (UInt8.ofNat i &&& 16) ^^^ (UInt8.ofNat i &&& 32) ^^^ (UInt8.ofNat i &&& 64) ^^^ (UInt8.ofNat i &&& 128) := by
    decide +kernel
  have cases : ∀ i, i < 256 → ∀ k ∈ [(1 : UInt8), 2, 4, 8, 16, 32, 64, 128],
      (UInt8.ofNat i &&& k = 0 ∨ UInt8.ofNat i &&& k = k) := by decide +kernel
  have hz := dec z.toNat z.toNat_lt
  have hc := cases z.toNat z.toNat_lt
  rw [UInt8.ofNat_toNat] at hz hc
  have hk : ∀ k ∈ [(1 : UInt8), 2, 4, 8, 16, 32, 64, 128], f k = g k → f (z &&& k) = g (z &&& k) := by
    intro k hk hfg
    rcases hc k hk with h | h <;> rw [h]
    · rw [hf0, hg0]
    · exact hfg
  rw [hz]
  simp only [hf, hg]
  rw [hk 1 (by simp) h0, hk 2 (by simp) h1, hk 4 (by simp) h2, hk 8 (by simp) h3,
    hk 16 (by simp) h4, hk 32 (by simp) h5, hk 64 (by simp) h6, hk 128 (by simp) h7]

/-! ## the S-box -/

def ginvL : Array UInt8 := #[0, 1, 141, 246, 203, 82, 123, 209, 232, 79, 41, 192, 176, 225, 229, 199, 116, 180, 170, 75, 153, 43, 96, 95, 88, 63,
 253, 204, 255, 64, 238, 178, 58, 110, 90, 241, 85, 77, 168, 201, 193, 10, 152, 21, 48, 68, 162, 194, 44, 69, 146, 108,
 243, 57, 102, 66, 242, 53, 32, 111, 119, 187, 89, 25, 29, 254, 55, 103, 45, 49, 245, 105, 167, 100, 171, 19, 84, 37,
 233, 9, 237, 92, 5, 202, 76, 36, 135, 191, 24, 62, 34, 240, 81, 236, 97, 23, 22, 94, 175, 211, 73, 166, 54, 67, 244,
 71, 145, 223, 51, 147, 33, 59, 121, 183, 151, 133, 16, 181, 186, 60, 182, 112, 208, 6, 161, 250, 129, 130, 131, 126,
 127, 128, 150, 115, 190, 86, 155, 158, 149, 217, 247, 2, 185, 164, 222, 106, 50, 109, 216, 138, 132, 114, 42, 20, 159,
 136, 249, 220, 137, 154, 251, 124, 46, 195, 143, 184, 101, 72, 38, 200, 18, 74, 206, 231, 210, 98, 12, 224, 31, 239,
 17, 117, 120, 113, 165, 142, 118, 61, 189, 188, 134, 87, 11, 40, 47, 163, 218, 212, 228, 15, 169, 39, 83, 4, 27, 252,
 172, 230, 122, 7, 174, 99, 197, 219, 226, 234, 148, 139, 196, 213, 157, 248, 144, 107, 177, 13, 214, 235, 198, 14, 207,
 173, 8, 78, 215, 227, 93, 80, 30, 179, 91, 35, 56, 52, 104, 70, 3, 140, 221, 156, 125, 160, 205, 26, 65, 28]
def sboxL : Array UInt8 := #[99, 124, 119, 123, 242, 107, 111, 197, 48, 1, 103, 43, 254, 215, 171, 118, 202, 130, 201, 125, 250, 89, 71, 240, 173,
  212, 162, 175, 156, 164, 114, 192, 183, 253, 147, 38, 54, 63, 247, 204, 52, 165, 229, 241, 113, 216, 49, 21, 4, 199,
  35, 195, 24, 150, 5, 154, 7, 18, 128, 226, 235, 39, 178, 117, 9, 131, 44, 26, 27, 110, 90, 160, 82, 59, 214, 179, 41,
  227, 47, 132, 83, 209, 0, 237, 32, 252, 177, 91, 106, 203, 190, 57, 74, 76, 88, 207, 208, 239, 170, 251, 67, 77, 51,
  133, 69, 249, 2, 127, 80, 60, 159, 168, 81, 163, 64, 143, 146, 157, 56, 245, 188, 182, 218, 33, 16, 255, 243, 210,
  205, 12, 19, 236, 95, 151, 68, 23, 196, 167, 126, 61, 100, 93, 25, 115, 96, 129, 79, 220, 34, 42, 144, 136, 70, 238,
  184, 20, 222, 94, 11, 219, 224, 50, 58, 10, 73, 6, 36, 92, 194, 211, 172, 98, 145, 149, 228, 121, 231, 200, 55, 109,
  141, 213, 78, 169, 108, 86, 244, 234, 101, 122, 174, 8, 186, 120, 37, 46, 28, 166, 180, 198, 232, 221, 116, 31, 75,
  189, 139, 138, 112, 62, 181, 102, 72, 3, 246, 14, 97, 53, 87, 185, 134, 193, 29, 158, 225, 248, 152, 17, 105, 217,
  142, 148, 155, 30, 135, 233, 206, 85, 40, 223, 140, 161, 137, 13, 191, 230, 66, 104, 65, 153, 45, 15, 176, 84, 187,
  22]
def invSboxL : Array UInt8 := #[82, 9, 106, 213, 48, 54, 165, 56, 191, 64, 163, 158, 129, 243, 215, 251, 124, 227, 57, 130, 155, 47, 255, 135, 52,
  142, 67, 68, 196, 222, 233, 203, 84, 123, 148, 50, 166, 194, 35, 61, 238, 76, 149, 11, 66, 250, 195, 78, 8, 46, 161,
  102, 40, 217, 36, 178, 118, 91, 162, 73, 109, 139, 209, 37, 114, 248, 246, 100, 134, 104, 152, 22, 212, 164, 92, 204,
  93, 101, 182, 146, 108, 112, 72, 80, 253, 237, 185, 218, 94, 21, 70, 87, 167, 141, 157, 132, 144, 216, 171, 0, 140,
  188, 211, 10, 247, 228, 88, 5, 184, 179, 69, 6, 208, 44, 30, 143, 202, 63, 15, 2, 193, 175, 189, 3, 1, 19, 138, 107,
  58, 145, 17, 65, 79, 103, 220, 234, 151, 242, 207, 206, 240, 180, 230, 115, 150, 172, 116, 34, 231, 173, 53, 133, 226,
  249, 55, 232, 28, 117, 223, 110, 71, 241, 26, 113, 29, 41, 197, 137, 111, 183, 98, 14, 170, 24, 190, 27, 252, 86, 62,
  75, 198, 210, 121, 32, 154, 219, 192, 254, 120, 205, 90, 244, 31, 221, 168, 51, 136, 7, 199, 49, 177, 18, 16, 89, 39,
  128, 236, 95, 96, 81, 127, 169, 25, 181, 74, 13, 45, 229, 122, 159, 147, 201, 156, 239, 160, 224, 59, 77, 174, 42,
  245, 176, 200, 235, 187, 60, 131, 83, 153, 97, 23, 43, 4, 126, 186, 119, 214, 38, 225, 105, 20, 99, 85, 33, 12, 125]

def aff (b : UInt8) : UInt8 := b ^^^ rotl8 b 1 ^^^ rotl8 b 2 ^^^ rotl8 b 3 ^^^ rotl8 b 4 ^^^ 0x63

set_option maxHeartbeats 4000000 in
theorem ginvL_facts : ∀ i, i < 256 → i ≠ 0 →
    gmul (UInt8.ofNat i) (ginvL.getD i 0) = 1 ∧
    ∀ k ∈ [(1 : UInt8), 2, 4, 8, 16, 32, 64, 128],
      gmul (ginvL.getD i 0) (gmul (UInt8.ofNat i) k) = k := by decide +kernel

theorem aff_ginvL : ∀ i, i < 256 → aff (ginvL.getD i 0) = sboxL.getD i 0 := by decide +kernel

theorem invSboxL_sboxL : ∀ i, i < 256 → invSboxL.getD (sboxL.getD i 0).toNat 0 = UInt8.ofNat i := by
  decide +kernel

theorem sboxL_invSboxL : ∀ i, i < 256 → sboxL.getD (invSboxL.getD i 0).toNat 0 = UInt8.ofNat i := by
  decide +kernel

theorem ofNat_eq_imp (j : Nat) (b : UInt8) (h : UInt8.ofNat j = b) : j % 256 = b.toNat := by
  have := congrArg UInt8.toNat h
  simpa using this

theorem ginv_eq (a : UInt8) : ginv a = ginvL.getD a.toNat 0 := by
  by_cases h : a = 0
  · subst h; decide
  · have hn : a.toNat ≠ 0 := by
      intro h0; apply h; rw [← UInt8.toNat_inj]; simpa using h0
    obtain ⟨h1, h8⟩ := ginvL_facts a.toNat a.toNat_lt hn
    rw [UInt8.ofNat_toNat] at h1 h8
    generalize ginvL.getD a.toNat 0 = b at h1 h8 ⊢
    have hinv : ∀ z, gmul b (gmul a z) = z :=
      additive_ext (fun z => gmul b (gmul a z)) (fun z => z)
        (by intro x y; simp only [gmul_xor]) (by intro x y; rfl)
        (h8 1 (by simp)) (h8 2 (by simp)) (h8 4 (by simp)) (h8 8 (by simp))
        (h8 16 (by simp)) (h8 32 (by simp)) (h8 64 (by simp)) (h8 128 (by simp))
    have hb1 : gmul b 1 = b := by have := hinv b; rwa [h1] at this
    have hfind : (List.range 256).find? (fun y => gmul a (UInt8.ofNat y) = 1) = some b.toNat := by
      rw [List.find?_range_eq_some]
      refine ⟨by simp [h1], by simp [b.toNat_lt], ?_⟩
      intro j hj
      simp only [Bool.not_eq_eq_eq_not, Bool.not_true, decide_eq_false_iff_not]
      intro hj1
      have hjb : UInt8.ofNat j = b := by
        have := hinv (UInt8.ofNat j)
        rw [hj1, hb1] at this; exact this.symm
      have := ofNat_eq_imp j b hjb
      have := b.toNat_lt
      omega
    unfold ginv
    rw [if_neg h, hfind]
    simp

theorem getD_map_range (f : Nat → UInt8) (n i : Nat) (h : i < n) :
    ((Array.range n).map f).getD i 0 = f i := by
  simp [h]

theorem sbox_eq (a : UInt8) : sbox a = sboxL.getD a.toNat 0 := by
  unfold sbox sboxTable
  rw [getD_map_range _ _ _ a.toNat_lt, UInt8.ofNat_toNat]
  show aff (ginv a) = _
  rw [ginv_eq]
  exact aff_ginvL a.toNat a.toNat_lt

theorem invSboxL_sbox (x : UInt8) : invSboxL.getD (sbox x).toNat 0 = x := by
  rw [sbox_eq]; simpa using invSboxL_sboxL x.toNat x.toNat_lt

theorem sbox_invSboxL (y : UInt8) : sbox (invSboxL.getD y.toNat 0) = y := by
  rw [sbox_eq]; simpa using sboxL_invSboxL y.toNat y.toNat_lt

theorem sbox_injective (x y : UInt8) (h : sbox x = sbox y) : x = y := by
  rw [← invSboxL_sbox x, ← invSboxL_sbox y, h]

theorem invSbox_def (y : UInt8) : invSbox y =
    UInt8.ofNat (((List.range 256).find? fun x => sbox (UInt8.ofNat x) = y).getD 0) := by
  unfold invSbox invSboxTable
  rw [getD_map_range _ _ _ y.toNat_lt, UInt8.ofNat_toNat]

theorem invSbox_sbox (x : UInt8) : invSbox (sbox x) = x := by
  rw [invSbox_def]
  have hfind : (List.range 256).find? (fun x' => sbox (UInt8.ofNat x') = sbox x) = some x.toNat := by
    rw [List.find?_range_eq_some]
    refine ⟨by simp, by simp [x.toNat_lt], ?_⟩
    intro j hj
    simp only [Bool.not_eq_eq_eq_not, Bool.not_true, decide_eq_false_iff_not]
    intro hj1
    have := ofNat_eq_imp j x (sbox_injective _ _ hj1)
    have := x.toNat_lt
    omega
  rw [hfind]; simp

theorem sbox_invSbox (y : UInt8) : sbox (invSbox y) = y := by
  rw [invSbox_def]
  cases hfind : (List.range 256).find? (fun x => sbox (UInt8.ofNat x) = y) with
  | none =>
    exfalso
    rw [List.find?_range_eq_none] at hfind
    have h1 := hfind (invSboxL.getD y.toNat 0).toNat (UInt8.toNat_lt _)
    rw [UInt8.ofNat_toNat, sbox_invSboxL] at h1
    simp at h1
  | some j =>
    have := List.find?_some hfind
    simpa using this

/-- the computed tables are the literal FIPS 197 tables (Figure 7 / Figure 14) -/
theorem invSbox_eq (y : UInt8) : invSbox y = invSboxL.getD y.toNat 0 :=
  sbox_injective _ _ (by rw [sbox_invSbox, sbox_invSboxL])

theorem invSubBytes_subBytes (s : Bytes) : invSubBytes (subBytes s) = s := by
  unfold invSubBytes subBytes
  induction s with
  | nil => rfl
  | cons x t ih => simp only [List.map_cons, invSbox_sbox, ih]

theorem subBytes_invSubBytes (s : Bytes) : subBytes (invSubBytes s) = s := by
  unfold invSubBytes subBytes
  induction s with
  | nil => rfl
  | cons x t ih => simp only [List.map_cons, sbox_invSbox, ih]


/-! ## MixColumns -/

/-- one row of the circulant matrix product -/
def row (m0 m1 m2 m3 a b c d : UInt8) : UInt8 :=
  gmul m0 a ^^^ gmul m1 b ^^^ gmul m2 c ^^^ gmul m3 d

theorem mixColumn_four (m0 m1 m2 m3 a b c d : UInt8) :
    mixColumn [m0, m1, m2, m3] [a, b, c, d] =
      [row m0 m1 m2 m3 a b c d, row m3 m0 m1 m2 a b c d,
       row m2 m3 m0 m1 a b c d, row m1 m2 m3 m0 a b c d] := by
  simp [mixColumn, range4, row]

/-- row `e` of InvMixColumns applied to the MixColumns image of the column `(a, b, c, d)` -/
def mixF (e0 e1 e2 e3 a b c d : UInt8) : UInt8 :=
  row e0 e1 e2 e3 (row 2 3 1 1 a b c d) (row 1 2 3 1 a b c d) (row 1 1 2 3 a b c d) (row 3 1 1 2 a b c d)

theorem mixF_add (e0 e1 e2 e3 a b c d a' b' c' d' : UInt8) :
    mixF e0 e1 e2 e3 (a ^^^ a') (b ^^^ b') (c ^^^ c') (d ^^^ d') =
      mixF e0 e1 e2 e3 a b c d ^^^ mixF e0 e1 e2 e3 a' b' c' d' := by
  simp only [mixF, row, gmul_xor]
  ac_rfl

theorem mixF_split (e0 e1 e2 e3 a b c d : UInt8) :
    mixF e0 e1 e2 e3 a b c d =
      mixF e0 e1 e2 e3 a 0 0 0 ^^^ mixF e0 e1 e2 e3 0 b 0 0 ^^^
      mixF e0 e1 e2 e3 0 0 c 0 ^^^ mixF e0 e1 e2 e3 0 0 0 d := by
  have h1 := mixF_add e0 e1 e2 e3 a 0 0 0 0 b 0 0
  have h2 := mixF_add e0 e1 e2 e3 a b 0 0 0 0 c 0
  have h3 := mixF_add e0 e1 e2 e3 a b c 0 0 0 0 d
  simp only [UInt8.xor_zero, UInt8.zero_xor] at h1 h2 h3
  rw [h3, h2, h1]

theorem mixF_basis : ∀ k ∈ [(1 : UInt8), 2, 4, 8, 16, 32, 64, 128],
    (mixF 0x0e 0x0b 0x0d 0x09 k 0 0 0 = k ∧ mixF 0x0e 0x0b 0x0d 0x09 0 k 0 0 = 0 ∧
     mixF 0x0e 0x0b 0x0d 0x09 0 0 k 0 = 0 ∧ mixF 0x0e 0x0b 0x0d 0x09 0 0 0 k = 0) ∧
    (mixF 0x09 0x0e 0x0b 0x0d k 0 0 0 = 0 ∧ mixF 0x09 0x0e 0x0b 0x0d 0 k 0 0 = k ∧
     mixF 0x09 0x0e 0x0b 0x0d 0 0 k 0 = 0 ∧ mixF 0x09 0x0e 0x0b 0x0d 0 0 0 k = 0) ∧
    (mixF 0x0d 0x09 0x0e 0x0b k 0 0 0 = 0 ∧ mixF 0x0d 0x09 0x0e 0x0b 0 k 0 0 = 0 ∧
     mixF 0x0d 0x09 0x0e 0x0b 0 0 k 0 = k ∧ mixF 0x0d 0x09 0x0e 0x0b 0 0 0 k = 0) ∧
    (mixF 0x0b 0x0d 0x09 0x0e k 0 0 0 = 0 ∧ mixF 0x0b 0x0d 0x09 0x0e 0 k 0 0 = 0 ∧
     mixF 0x0b 0x0d 0x09 0x0e 0 0 k 0 = 0 ∧ mixF 0x0b 0x0d 0x09 0x0e 0 0 0 k = k) := by
  decide +kernel

/-- an additive map that vanishes / is the identity on the basis bytes -/
theorem additive_zero (f : UInt8 → UInt8) (hf : ∀ x y, f (x ^^^ y) = f x ^^^ f y)
    (h : ∀ k ∈ [(1 : UInt8), 2, 4, 8, 16, 32, 64, 128], f k = 0) (z : UInt8) : f z = 0 :=
  additive_ext f (fun _ => 0) hf (by intro _ _; simp)
    (h 1 (by simp)) (h 2 (by simp)) (h 4 (by simp)) (h 8 (by simp))
    (h 16 (by simp)) (h 32 (by simp)) (h 64 (by simp)) (h 128 (by simp)) z

theorem additive_id (f : UInt8 → UInt8) (hf : ∀ x y, f (x ^^^ y) = f x ^^^ f y)
    (h : ∀ k ∈ [(1 : UInt8), 2, 4, 8, 16, 32, 64, 128], f k = k) (z : UInt8) : f z = z :=
  additive_ext f (fun x => x) hf (by intro _ _; rfl)
    (h 1 (by simp)) (h 2 (by simp)) (h 4 (by simp)) (h 8 (by simp))
    (h 16 (by simp)) (h 32 (by simp)) (h 64 (by simp)) (h 128 (by simp)) z

theorem mixF_add1 (e0 e1 e2 e3 x y : UInt8) :
    mixF e0 e1 e2 e3 (x ^^^ y) 0 0 0 = mixF e0 e1 e2 e3 x 0 0 0 ^^^ mixF e0 e1 e2 e3 y 0 0 0 := by
  simpa using mixF_add e0 e1 e2 e3 x 0 0 0 y 0 0 0
theorem mixF_add2 (e0 e1 e2 e3 x y : UInt8) :
    mixF e0 e1 e2 e3 0 (x ^^^ y) 0 0 = mixF e0 e1 e2 e3 0 x 0 0 ^^^ mixF e0 e1 e2 e3 0 y 0 0 := by
  simpa using mixF_add e0 e1 e2 e3 0 x 0 0 0 y 0 0
theorem mixF_add3 (e0 e1 e2 e3 x y : UInt8) :
    mixF e0 e1 e2 e3 0 0 (x ^^^ y) 0 = mixF e0 e1 e2 e3 0 0 x 0 ^^^ mixF e0 e1 e2 e3 0 0 y 0 := by
  simpa using mixF_add e0 e1 e2 e3 0 0 x 0 0 0 y 0
theorem mixF_add4 (e0 e1 e2 e3 x y : UInt8) :
    mixF e0 e1 e2 e3 0 0 0 (x ^^^ y) = mixF e0 e1 e2 e3 0 0 0 x ^^^ mixF e0 e1 e2 e3 0 0 0 y := by
  simpa using mixF_add e0 e1 e2 e3 0 0 0 x 0 0 0 y

theorem mixF_row0 (a b c d : UInt8) : mixF 0x0e 0x0b 0x0d 0x09 a b c d = a := by
  rw [mixF_split,
    additive_id (fun x => mixF 0x0e 0x0b 0x0d 0x09 x 0 0 0) (mixF_add1 _ _ _ _) (fun k hk => (mixF_basis k hk).1.1),
    additive_zero (fun x => mixF 0x0e 0x0b 0x0d 0x09 0 x 0 0) (mixF_add2 _ _ _ _) (fun k hk => (mixF_basis k hk).1.2.1),
    additive_zero (fun x => mixF 0x0e 0x0b 0x0d 0x09 0 0 x 0) (mixF_add3 _ _ _ _) (fun k hk => (mixF_basis k hk).1.2.2.1),
    additive_zero (fun x => mixF 0x0e 0x0b 0x0d 0x09 0 0 0 x) (mixF_add4 _ _ _ _) (fun k hk => (mixF_basis k hk).1.2.2.2)]
  simp

theorem mixF_row1 (a b c d : UInt8) : mixF 0x09 0x0e 0x0b 0x0d a b c d = b := by
  rw [mixF_split,
    additive_zero (fun x => mixF 0x09 0x0e 0x0b 0x0d x 0 0 0) (mixF_add1 _ _ _ _) (fun k hk => (mixF_basis k hk).2.1.1),
    additive_id (fun x => mixF 0x09 0x0e 0x0b 0x0d 0 x 0 0) (mixF_add2 _ _ _ _) (fun k hk => (mixF_basis k hk).2.1.2.1),
    additive_zero (fun x => mixF 0x09 0x0e 0x0b 0x0d 0 0 x 0) (mixF_add3 _ _ _ _) (fun k hk => (mixF_basis k hk).2.1.2.2.1),
    additive_zero (fun x => mixF 0x09 0x0e 0x0b 0x0d 0 0 0 x) (mixF_add4 _ _ _ _) (fun k hk => (mixF_basis k hk).2.1.2.2.2)]
  simp

theorem mixF_row2 (a b c d : UInt8) : mixF 0x0d 0x09 0x0e 0x0b a b c d = c := by
  rw [mixF_split,
    additive_zero (fun x => mixF 0x0d 0x09 0x0e 0x0b x 0 0 0) (mixF_add1 _ _ _ _) (fun k hk => (mixF_basis k hk).2.2.1.1),
    additive_zero (fun x => mixF 0x0d 0x09 0x0e 0x0b 0 x 0 0) (mixF_add2 _ _ _ _) (fun k hk => (mixF_basis k hk).2.2.1.2.1),
    additive_id (fun x => mixF 0x0d 0x09 0x0e 0x0b 0 0 x 0) (mixF_add3 _ _ _ _) (fun k hk => (mixF_basis k hk).2.2.1.2.2.1),
    additive_zero (fun x => mixF 0x0d 0x09 0x0e 0x0b 0 0 0 x) (mixF_add4 _ _ _ _) (fun k hk => (mixF_basis k hk).2.2.1.2.2.2)]
  simp

theorem mixF_row3 (a b c d : UInt8) : mixF 0x0b 0x0d 0x09 0x0e a b c d = d := by
  rw [mixF_split,
    additive_zero (fun x => mixF 0x0b 0x0d 0x09 0x0e x 0 0 0) (mixF_add1 _ _ _ _) (fun k hk => (mixF_basis k hk).2.2.2.1),
    additive_zero (fun x => mixF 0x0b 0x0d 0x09 0x0e 0 x 0 0) (mixF_add2 _ _ _ _) (fun k hk => (mixF_basis k hk).2.2.2.2.1),
    additive_zero (fun x => mixF 0x0b 0x0d 0x09 0x0e 0 0 x 0) (mixF_add3 _ _ _ _) (fun k hk => (mixF_basis k hk).2.2.2.2.2.1),
    additive_id (fun x => mixF 0x0b 0x0d 0x09 0x0e 0 0 0 x) (mixF_add4 _ _ _ _) (fun k hk => (mixF_basis k hk).2.2.2.2.2.2)]
  simp

theorem invMixColumn_mixColumn (a b c d : UInt8) :
    mixColumn [0x0e, 0x0b, 0x0d, 0x09] (mixColumn [2, 3, 1, 1] [a, b, c, d]) = [a, b, c, d] := by
  rw [mixColumn_four, mixColumn_four]
  have h0 := mixF_row0 a b c d
  have h1 := mixF_row1 a b c d
  have h2 := mixF_row2 a b c d
  have h3 := mixF_row3 a b c d
  unfold mixF at h0 h1 h2 h3
  rw [h0, h1, h2, h3]

theorem mixColumns_sixteen (m0 m1 m2 m3 a0 a1 a2 a3 a4 a5 a6 a7 a8 a9 a10 a11 a12 a13 a14 a15 : UInt8) :
    (List.range 4).flatMap (fun c => mixColumn [m0, m1, m2, m3]
      (([a0, a1, a2, a3, a4, a5, a6, a7, a8, a9, a10, a11, a12, a13, a14, a15].drop (4 * c)).take 4)) =
    mixColumn [m0, m1, m2, m3] [a0, a1, a2, a3] ++ mixColumn [m0, m1, m2, m3] [a4, a5, a6, a7] ++
    mixColumn [m0, m1, m2, m3] [a8, a9, a10, a11] ++ mixColumn [m0, m1, m2, m3] [a12, a13, a14, a15] := by
  simp [range4]

theorem invMixColumns_mixColumns (s : Bytes) (h : s.length = 16) : invMixColumns (mixColumns s) = s := by
  obtain ⟨a0, a1, a2, a3, a4, a5, a6, a7, a8, a9, a10, a11, a12, a13, a14, a15, rfl⟩ := exists_sixteen s h
  unfold mixColumns
  rw [mixColumns_sixteen]
  simp only [mixColumn_four, List.cons_append, List.nil_append]
  unfold invMixColumns
  rw [mixColumns_sixteen]
  simp only [← mixColumn_four, invMixColumn_mixColumn, List.cons_append, List.nil_append]


/-! ## Cipher / InvCipher for an arbitrary list of 16-byte round keys -/

theorem getD_length16 (rk : List Bytes) (hk : ∀ k ∈ rk, k.length = 16) (i : Nat) (hi : i < rk.length) :
    (rk.getD i []).length = 16 := by
  apply hk
  rw [List.getD_eq_getElem?_getD, List.getElem?_eq_getElem hi, Option.getD_some]
  exact List.getElem_mem hi

/-- the state after `i` full encryption rounds -/
def encS (rk : List Bytes) (s0 : Bytes) (i : Nat) : Bytes :=
  (List.range i).foldl (fun s r =>
    addRoundKey (mixColumns (shiftRows (subBytes s))) (rk.getD (r + 1) [])) s0

theorem encS_zero (rk : List Bytes) (s0 : Bytes) : encS rk s0 0 = s0 := rfl

theorem encS_succ (rk : List Bytes) (s0 : Bytes) (i : Nat) :
    encS rk s0 (i + 1) =
      addRoundKey (mixColumns (shiftRows (subBytes (encS rk s0 i)))) (rk.getD (i + 1) []) := by
  simp [encS, List.range_succ, List.foldl_append]

theorem encS_length (rk : List Bytes) (hk : ∀ k ∈ rk, k.length = 16) (s0 : Bytes)
    (hs0 : s0.length = 16) (i : Nat) (hi : i < rk.length) : (encS rk s0 i).length = 16 := by
  induction i with
  | zero => exact hs0
  | succ i _ =>
    rw [encS_succ]
    exact addRoundKey_length16 _ _ (mixColumns_length _) (getD_length16 rk hk _ hi)

theorem invSub_invShift_shift_sub (s : Bytes) (h : s.length = 16) :
    invSubBytes (invShiftRows (shiftRows (subBytes s))) = s := by
  rw [invShiftRows_shiftRows _ (by rw [subBytes_length]; exact h), invSubBytes_subBytes]

/-- one decryption round undoes one encryption round (in the InvCipher grouping) -/
theorem round_inv (y k : Bytes) (hk : k.length = 16) :
    invMixColumns (addRoundKey (invSubBytes (invShiftRows (shiftRows (subBytes
      (addRoundKey (mixColumns (shiftRows (subBytes y))) k))))) k) = shiftRows (subBytes y) := by
  rw [invSub_invShift_shift_sub _ (addRoundKey_length16 _ _ (mixColumns_length _) hk),
    addRoundKey_cancel _ _ (by rw [mixColumns_length, hk]; exact Nat.le_refl _),
    invMixColumns_mixColumns _ (shiftRows_length _)]

theorem dec_fold (rk : List Bytes) (hk : ∀ k ∈ rk, k.length = 16) (nr : Nat) (hnr : nr < rk.length)
    (s0 : Bytes) (j : Nat) (hj : j ≤ nr - 1) :
    (List.range j).foldl (fun s r =>
      invMixColumns (addRoundKey (invSubBytes (invShiftRows s)) (rk.getD (nr - 1 - r) [])))
      (shiftRows (subBytes (encS rk s0 (nr - 1)))) = shiftRows (subBytes (encS rk s0 (nr - 1 - j))) := by
  induction j with
  | zero => rfl
  | succ j ih =>
    rw [List.range_succ, List.foldl_append, ih (by omega)]
    simp only [List.foldl_cons, List.foldl_nil]
    have e : nr - 1 - j = (nr - 1 - (j + 1)) + 1 := by omega
    rw [e, encS_succ]
    exact round_inv _ _ (getD_length16 rk hk _ (by omega))

theorem invCipher_cipher_rk (rk : List Bytes) (hne : rk ≠ []) (hk : ∀ k ∈ rk, k.length = 16)
    (b : Bytes) (hb : b.length = 16) : invCipher rk (cipher rk b) = b := by
  have hpos : 0 < rk.length := List.length_pos_iff.mpr hne
  have hnr : rk.length - 1 < rk.length := by omega
  have h0 : (rk.getD 0 []).length = 16 := getD_length16 rk hk 0 hpos
  have hs0 : (addRoundKey b (rk.getD 0 [])).length = 16 := addRoundKey_length16 _ _ hb h0
  have hfold := dec_fold rk hk (rk.length - 1) hnr (addRoundKey b (rk.getD 0 [])) (rk.length - 1 - 1)
    (Nat.le_refl _)
  rw [Nat.sub_self, encS_zero] at hfold
  unfold encS at hfold
  simp only [cipher, invCipher]
  rw [addRoundKey_cancel _ _ (by rw [shiftRows_length, getD_length16 rk hk _ hnr]; exact Nat.le_refl _),
    hfold, invSub_invShift_shift_sub _ hs0, addRoundKey_cancel _ _ (by rw [hb, h0]; exact Nat.le_refl _)]

theorem cipher_length_rk (rk : List Bytes) (hne : rk ≠ []) (hk : ∀ k ∈ rk, k.length = 16)
    (b : Bytes) : (cipher rk b).length = 16 := by
  have hpos : 0 < rk.length := List.length_pos_iff.mpr hne
  simp only [cipher]
  exact addRoundKey_length16 _ _ (shiftRows_length _) (getD_length16 rk hk _ (by omega))

theorem invCipher_length_rk (rk : List Bytes) (hne : rk ≠ []) (hk : ∀ k ∈ rk, k.length = 16)
    (b : Bytes) : (invCipher rk b).length = 16 := by
  have hpos : 0 < rk.length := List.length_pos_iff.mpr hne
  simp only [invCipher]
  exact addRoundKey_length16 _ _ (by rw [invSubBytes_length, invShiftRows_length])
    (getD_length16 rk hk _ hpos)

/-! ## KeyExpansion produces Nr + 1 round keys of 16 bytes -/

theorem foldl_range_inv {α : Type} (P : Nat → α → Prop) (f : α → Nat → α) (a0 : α) (h0 : P 0 a0)
    (hs : ∀ j a, P j a → P (j + 1) (f a j)) (n : Nat) : P n ((List.range n).foldl f a0) := by
  induction n with
  | zero => exact h0
  | succ n ih =>
    rw [List.range_succ, List.foldl_append]
    exact hs n _ ih

theorem keyExpansion_length_of_ge (key : Bytes) (h4 : 4 ≤ key.length) :
    keyExpansion key ≠ [] ∧ ∀ k ∈ keyExpansion key, k.length = 16 := by
  have hnk : 1 ≤ key.length / 4 := by omega
  unfold keyExpansion
  simp only []
  generalize hw : List.foldl _ _ _ = w
  have hinv : w.size = key.length / 4 + (4 * (key.length / 4 + 6 + 1) - key.length / 4) ∧
      ∀ i, i < w.size → (w.getD i []).length = 4 := by
    rw [← hw]
    apply foldl_range_inv (fun j (w : Array Bytes) => w.size = key.length / 4 + j ∧
      ∀ i, i < w.size → (w.getD i []).length = 4)
    · refine ⟨by simp, ?_⟩
      intro i hi
      simp only [Array.size_map, Array.size_range] at hi
      simp [hi]
      omega
    · intro j w ⟨hsz, hlen⟩
      have ht : (w.getD (j + key.length / 4 - 1) []).length = 4 := hlen _ (by omega)
      have hu : (w.getD (j + key.length / 4 - key.length / 4) []).length = 4 := hlen _ (by omega)
      generalize w.getD (j + key.length / 4 - 1) [] = t at ht
      generalize w.getD (j + key.length / 4 - key.length / 4) [] = u at hu
      refine ⟨by simp [hsz]; omega, ?_⟩
      intro i hi
      simp only [Array.size_push] at hi
      simp only [Array.getD_eq_getD_getElem?, Array.getElem?_push]
      split
      · simp only [Option.getD_some, List.length_zipWith, hu]
        split
        · simp [ht]
        · split
          · simp [ht]
          · simp [ht]
      · have := hlen i (by omega)
        simpa using this
  obtain ⟨hsz, hlen⟩ := hinv
  constructor
  · intro h
    have := congrArg List.length h
    simp at this
  · intro k hk
    simp only [List.mem_map, List.mem_range] at hk
    obtain ⟨r, hr, rfl⟩ := hk
    simp only [range4, List.flatMap_cons, List.flatMap_nil, List.length_append, List.length_nil]
    rw [hlen _ (by omega), hlen _ (by omega), hlen _ (by omega), hlen _ (by omega)]

theorem keyExpansion_length (key : Bytes) (h : key.length = 16 ∨ key.length = 24 ∨ key.length = 32) :
    keyExpansion key ≠ [] ∧ ∀ k ∈ keyExpansion key, k.length = 16 :=
  keyExpansion_length_of_ge key (by omega)

/-! ## main theorems -/

theorem invCipher_cipher (key b : Bytes) (hk : key.length = 16 ∨ key.length = 24 ∨ key.length = 32)
    (hb : b.length = 16) : invCipher (keyExpansion key) (cipher (keyExpansion key) b) = b :=
  invCipher_cipher_rk _ (keyExpansion_length key hk).1 (keyExpansion_length key hk).2 b hb

theorem cipher_length (key b : Bytes) (hk : key.length = 16 ∨ key.length = 24 ∨ key.length = 32)
    (_hb : b.length = 16) : (cipher (keyExpansion key) b).length = 16 :=
  cipher_length_rk _ (keyExpansion_length key hk).1 (keyExpansion_length key hk).2 b

theorem invCipher_length (key b : Bytes) (hk : key.length = 16 ∨ key.length = 24 ∨ key.length = 32)
    (_hb : b.length = 16) : (invCipher (keyExpansion key) b).length = 16 :=
  invCipher_length_rk _ (keyExpansion_length key hk).1 (keyExpansion_length key hk).2 b

end Relic.Lemmas.Aes

