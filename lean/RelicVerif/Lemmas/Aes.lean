import RelicVerif.Spec.Aes
namespace Relic.Lemmas.Aes
open Relic.Spec.Aes
set_option maxRecDepth 100000

/-! ## AddRoundKey -/

theorem addRoundKey_cancel (s k : Bytes) (h : s.length ≤ k.length) :
    addRoundKey (addRoundKey s k) k = s := by
  unfold addRoundKey
  induction s generalizing k with
  | nil => simp
  | cons x t ih =>
    cases k with
    | nil => simp at h
    | cons y r =>
      simp only [List.zipWith_cons_cons, List.cons.injEq]
      refine ⟨?_, ih r (by simpa using h)⟩
      rw [UInt8.xor_assoc, UInt8.xor_self, UInt8.xor_zero]

theorem addRoundKey_length (a b : Bytes) : (addRoundKey a b).length = min a.length b.length := by
  simp [addRoundKey]

theorem addRoundKey_length16 (s k : Bytes) (hs : s.length = 16) (hk : k.length = 16) :
    (addRoundKey s k).length = 16 := by
  rw [addRoundKey_length]; omega

/-! ## length lemmas -/

theorem subBytes_length (s : Bytes) : (subBytes s).length = s.length := by simp [subBytes]
theorem invSubBytes_length (s : Bytes) : (invSubBytes s).length = s.length := by simp [invSubBytes]
theorem shiftRows_length (s : Bytes) : (shiftRows s).length = 16 := by simp [shiftRows]
theorem invShiftRows_length (s : Bytes) : (invShiftRows s).length = 16 := by simp [invShiftRows]
theorem mixColumn_length (m : List UInt8) (c : Bytes) : (mixColumn m c).length = 4 := by simp [mixColumn]
theorem mixColumns_length (s : Bytes) : (mixColumns s).length = 16 := by
  simp [mixColumns, mixColumn_length, List.range_succ]
theorem invMixColumns_length (s : Bytes) : (invMixColumns s).length = 16 := by
  simp [invMixColumns, mixColumn_length, List.range_succ]

/-! ## explicit 16-element states -/

theorem exists_sixteen (s : Bytes) (h : s.length = 16) :
    ∃ a0 a1 a2 a3 a4 a5 a6 a7 a8 a9 a10 a11 a12 a13 a14 a15,
      s = [a0, a1, a2, a3, a4, a5, a6, a7, a8, a9, a10, a11, a12, a13, a14, a15] := by
  match s, h with
  | [a0, a1, a2, a3, a4, a5, a6, a7, a8, a9, a10, a11, a12, a13, a14, a15], _ =>
    exact ⟨a0, a1, a2, a3, a4, a5, a6, a7, a8, a9, a10, a11, a12, a13, a14, a15, rfl⟩

theorem range16 : List.range 16 = [0,1,2,3,4,5,6,7,8,9,10,11,12,13,14,15] := by decide
theorem range4 : List.range 4 = [0,1,2,3] := by decide
theorem range8 : List.range 8 = [0,1,2,3,4,5,6,7] := by decide

theorem shiftRows_sixteen (a0 a1 a2 a3 a4 a5 a6 a7 a8 a9 a10 a11 a12 a13 a14 a15 : UInt8) :
    shiftRows [a0, a1, a2, a3, a4, a5, a6, a7, a8, a9, a10, a11, a12, a13, a14, a15]
      = [a0, a5, a10, a15, a4, a9, a14, a3, a8, a13, a2, a7, a12, a1, a6, a11] := by
  simp [shiftRows, range16]

theorem invShiftRows_sixteen (a0 a1 a2 a3 a4 a5 a6 a7 a8 a9 a10 a11 a12 a13 a14 a15 : UInt8) :
    invShiftRows [a0, a1, a2, a3, a4, a5, a6, a7, a8, a9, a10, a11, a12, a13, a14, a15]
      = [a0, a13, a10, a7, a4, a1, a14, a11, a8, a5, a2, a15, a12, a9, a6, a3] := by
  simp [invShiftRows, range16]

theorem invShiftRows_shiftRows (s : Bytes) (h : s.length = 16) : invShiftRows (shiftRows s) = s := by
  obtain ⟨a0, a1, a2, a3, a4, a5, a6, a7, a8, a9, a10, a11, a12, a13, a14, a15, rfl⟩ := exists_sixteen s h
  rw [shiftRows_sixteen, invShiftRows_sixteen]

theorem shiftRows_invShiftRows (s : Bytes) (h : s.length = 16) : shiftRows (invShiftRows s) = s := by
  obtain ⟨a0, a1, a2, a3, a4, a5, a6, a7, a8, a9, a10, a11, a12, a13, a14, a15, rfl⟩ := exists_sixteen s h
  rw [invShiftRows_sixteen, shiftRows_sixteen]

/-- ShiftRows is a permutation of positions, so it commutes with any bytewise map -/
theorem shiftRows_map (f : UInt8 → UInt8) (s : Bytes) (h : s.length = 16) :
    shiftRows (s.map f) = (shiftRows s).map f := by
  obtain ⟨a0, a1, a2, a3, a4, a5, a6, a7, a8, a9, a10, a11, a12, a13, a14, a15, rfl⟩ := exists_sixteen s h
  simp only [List.map_cons, List.map_nil, shiftRows_sixteen]

theorem invShiftRows_map (f : UInt8 → UInt8) (s : Bytes) (h : s.length = 16) :
    invShiftRows (s.map f) = (invShiftRows s).map f := by
  obtain ⟨a0, a1, a2, a3, a4, a5, a6, a7, a8, a9, a10, a11, a12, a13, a14, a15, rfl⟩ := exists_sixteen s h
  simp only [List.map_cons, List.map_nil, invShiftRows_sixteen]

/-! ## GF(2^8): `gmul a ·` is additive -/

/-- the fold of `gmul` as a structural recursion -/
def gfold (b : UInt8) : List Nat → UInt8 → UInt8 → UInt8
  | [], acc, _ => acc
  | i :: l, acc, aa =>
    gfold b l (if (b >>> (UInt8.ofNat i)) &&& 1 ≠ 0 then acc ^^^ aa else acc) (xtime aa)

theorem gmul_fold (b : UInt8) (l : List Nat) (acc aa : UInt8) :
    (l.foldl (fun (st : UInt8 × UInt8) i =>
      let (acc, aa) := st
      (if (b >>> (UInt8.ofNat i)) &&& 1 ≠ 0 then acc ^^^ aa else acc, xtime aa)) (acc, aa)).1
      = gfold b l acc aa := by
  induction l generalizing acc aa with
  | nil => rfl
  | cons i l ih => simp only [List.foldl_cons, gfold]; exact ih _ _

theorem gmul_eq_gfold (a b : UInt8) : gmul a b = gfold b (List.range 8) 0 a := gmul_fold b _ 0 a

theorem and_one_cases (u : UInt8) : u &&& 1 = 0 ∨ u &&& 1 = 1 := by
  have h : ∀ i, i < 256 → (UInt8.ofNat i &&& 1 = 0 ∨ UInt8.ofNat i &&& 1 = 1) := by decide +kernel
  simpa using h u.toNat u.toNat_lt

theorem xor_and_one (u v : UInt8) : (u ^^^ v) &&& 1 = (u &&& 1) ^^^ (v &&& 1) := by
  rw [← UInt8.toBitVec_inj]
  simp only [UInt8.toBitVec_and, UInt8.toBitVec_xor]
  ext i hi
  simp only [BitVec.getElem_and, BitVec.getElem_xor]
  cases u.toBitVec[i] <;> cases v.toBitVec[i] <;> cases (UInt8.toBitVec 1)[i] <;> rfl

theorem gfold_xor (x y : UInt8) (l : List Nat) (p q aa : UInt8) :
    gfold (x ^^^ y) l (p ^^^ q) aa = gfold x l p aa ^^^ gfold y l q aa := by
  induction l generalizing p q aa with
  | nil => rfl
  | cons i l ih =>
    simp only [gfold]
    rw [← ih]
    congr 1
    rw [UInt8.shiftRight_xor, xor_and_one]
    have hc : p ^^^ aa ^^^ (q ^^^ aa) = p ^^^ q := by
      have : p ^^^ aa ^^^ (q ^^^ aa) = p ^^^ q ^^^ (aa ^^^ aa) := by ac_rfl
      rw [this, UInt8.xor_self, UInt8.xor_zero]
    rcases and_one_cases (x >>> UInt8.ofNat i) with hx | hx <;>
      rcases and_one_cases (y >>> UInt8.ofNat i) with hy | hy <;>
      simp only [hx, hy] <;> simp [hc] <;> ac_rfl

theorem gmul_xor (a x y : UInt8) : gmul a (x ^^^ y) = gmul a x ^^^ gmul a y := by
  simp only [gmul_eq_gfold]
  rw [← gfold_xor, UInt8.xor_zero]

theorem gmul_zero (a : UInt8) : gmul a 0 = 0 := by
  have := gmul_xor a 0 0
  simpa using this


/-- an additive map on bytes is determined by its values on the eight basis bytes -/
theorem additive_ext (f g : UInt8 → UInt8)
    (hf : ∀ x y, f (x ^^^ y) = f x ^^^ f y) (hg : ∀ x y, g (x ^^^ y) = g x ^^^ g y)
    (h0 : f 1 = g 1) (h1 : f 2 = g 2) (h2 : f 4 = g 4) (h3 : f 8 = g 8)
    (h4 : f 16 = g 16) (h5 : f 32 = g 32) (h6 : f 64 = g 64) (h7 : f 128 = g 128) (z : UInt8) :
    f z = g z := by
  have hf0 : f 0 = 0 := by simpa using hf 0 0
  have hg0 : g 0 = 0 := by simpa using hg 0 0
  have dec : ∀ i, i < 256 → UInt8.ofNat i =
      (UInt8.ofNat i &&& 1) ^^^ (UInt8.ofNat i &&& 2) ^^^ (UInt8.ofNat i &&& 4) ^^^ (UInt8.ofNat i &&& 8) ^^^
      (UInt8.ofNat i &&& 16) ^^^ (UInt8.ofNat i &&& 32) ^^^ (UInt8.ofNat i &&& 64) ^^^ (UInt8.ofNat i &&& 128) := by
    decide +kernel
  have cases : ∀ i, i < 256 → ∀ k ∈ [(1 : UInt8), 2, 4, 8, 16, 32, 64, 128],
      (UInt8.ofNat i &&& k = 0 ∨ UInt8.ofNat i &&& k = k) := by decide +kernel
  have hz := dec z.toNat z.toNat_lt
  have hc := cases z.toNat z.toNat_lt
  rw [UInt8.ofNat_toNat] at hz hc
  have e : ∀ k, f k = g k → f (z &&& k) = g (z &&& k) → True := fun _ _ _ => trivial
  have hk : ∀ k ∈ [(1 : UInt8), 2, 4, 8, 16, 32, 64, 128], f k = g k → f (z &&& k) = g (z &&& k) := by
    intro k hk hfg
    rcases hc k hk with h | h <;> rw [h]
    · rw [hf0, hg0]
    · exact hfg
  rw [hz]
  simp only [hf, hg]
  rw [hk 1 (by simp) h0, hk 2 (by simp) h1, hk 4 (by simp) h2, hk 8 (by simp) h3,
    hk 16 (by simp) h4, hk 32 (by simp) h5, hk 64 (by simp) h6, hk 128 (by simp) h7]

/-! ## the S-box -/

def ginvL : Array UInt8 := #[0, 1, 141, 246, 203, 82, 123, 209, 232, 79, 41, 192, 176, 225, 229, 199, 116, 180, 170, 75, 153, 43, 96, 95, 88, 63,
 253, 204, 255, 64, 238, 178, 58, 110, 90, 241, 85, 77, 168, 201, 193, 10, 152, 21, 48, 68, 162, 194, 44, 69, 146, 108,
 243, 57, 102, 66, 242, 53, 32, 111, 119, 187, 89, 25, 29, 254, 55, 103, 45, 49, 245, 105, 167, 100, 171, 19, 84, 37,
 233, 9, 237, 92, 5, 202, 76, 36, 135, 191, 24, 62, 34, 240, 81, 236, 97, 23, 22, 94, 175, 211, 73, 166, 54, 67, 244,
 71, 145, 223, 51, 147, 33, 59, 121, 183, 151, 133, 16, 181, 186, 60, 182, 112, 208, 6, 161, 250, 129, 130, 131, 126,
 127, 128, 150, 115, 190, 86, 155, 158, 149, 217, 247, 2, 185, 164, 222, 106, 50, 109, 216, 138, 132, 114, 42, 20, 159,
 136, 249, 220, 137, 154, 251, 124, 46, 195, 143, 184, 101, 72, 38, 200, 18, 74, 206, 231, 210, 98, 12, 224, 31, 239,
 17, 117, 120, 113, 165, 142, 118, 61, 189, 188, 134, 87, 11, 40, 47, 163, 218, 212, 228, 15, 169, 39, 83, 4, 27, 252,
 172, 230, 122, 7, 174, 99, 197, 219, 226, 234, 148, 139, 196, 213, 157, 248, 144, 107, 177, 13, 214, 235, 198, 14, 207,
 173, 8, 78, 215, 227, 93, 80, 30, 179, 91, 35, 56, 52, 104, 70, 3, 140, 221, 156, 125, 160, 205, 26, 65, 28]
def sboxL : Array UInt8 := #[99, 124, 119, 123, 242, 107, 111, 197, 48, 1, 103, 43, 254, 215, 171, 118, 202, 130, 201, 125, 250, 89, 71, 240, 173,
  212, 162, 175, 156, 164, 114, 192, 183, 253, 147, 38, 54, 63, 247, 204, 52, 165, 229, 241, 113, 216, 49, 21, 4, 199,
  35, 195, 24, 150, 5, 154, 7, 18, 128, 226, 235, 39, 178, 117, 9, 131, 44, 26, 27, 110, 90, 160, 82, 59, 214, 179, 41,
  227, 47, 132, 83, 209, 0, 237, 32, 252, 177, 91, 106, 203, 190, 57, 74, 76, 88, 207, 208, 239, 170, 251, 67, 77, 51,
  133, 69, 249, 2, 127, 80, 60, 159, 168, 81, 163, 64, 143, 146, 157, 56, 245, 188, 182, 218, 33, 16, 255, 243, 210,
  205, 12, 19, 236, 95, 151, 68, 23, 196, 167, 126, 61, 100, 93, 25, 115, 96, 129, 79, 220, 34, 42, 144, 136, 70, 238,
  184, 20, 222, 94, 11, 219, 224, 50, 58, 10, 73, 6, 36, 92, 194, 211, 172, 98, 145, 149, 228, 121, 231, 200, 55, 109,
  141, 213, 78, 169, 108, 86, 244, 234, 101, 122, 174, 8, 186, 120, 37, 46, 28, 166, 180, 198, 232, 221, 116, 31, 75,
  189, 139, 138, 112, 62, 181, 102, 72, 3, 246, 14, 97, 53, 87, 185, 134, 193, 29, 158, 225, 248, 152, 17, 105, 217,
  142, 148, 155, 30, 135, 233, 206, 85, 40, 223, 140, 161, 137, 13, 191, 230, 66, 104, 65, 153, 45, 15, 176, 84, 187,
  22]
def invSboxL : Array UInt8 := #[82, 9, 106, 213, 48, 54, 165, 56, 191, 64, 163, 158, 129, 243, 215, 251, 124, 227, 57, 130, 155, 47, 255, 135, 52,
  142, 67, 68, 196, 222, 233, 203, 84, 123, 148, 50, 166, 194, 35, 61, 238, 76, 149, 11, 66, 250, 195, 78, 8, 46, 161,
  102, 40, 217, 36, 178, 118, 91, 162, 73, 109, 139, 209, 37, 114, 248, 246, 100, 134, 104, 152, 22, 212, 164, 92, 204,
  93, 101, 182, 146, 108, 112, 72, 80, 253, 237, 185, 218, 94, 21, 70, 87, 167, 141, 157, 132, 144, 216, 171, 0, 140,
  188, 211, 10, 247, 228, 88, 5, 184, 179, 69, 6, 208, 44, 30, 143, 202, 63, 15, 2, 193, 175, 189, 3, 1, 19, 138, 107,
  58, 145, 17, 65, 79, 103, 220, 234, 151, 242, 207, 206, 240, 180, 230, 115, 150, 172, 116, 34, 231, 173, 53, 133, 226,
  249, 55, 232, 28, 117, 223, 110, 71, 241, 26, 113, 29, 41, 197, 137, 111, 183, 98, 14, 170, 24, 190, 27, 252, 86, 62,
  75, 198, 210, 121, 32, 154, 219, 192, 254, 120, 205, 90, 244, 31, 221, 168, 51, 136, 7, 199, 49, 177, 18, 16, 89, 39,
  128, 236, 95, 96, 81, 127, 169, 25, 181, 74, 13, 45, 229, 122, 159, 147, 201, 156, 239, 160, 224, 59, 77, 174, 42,
  245, 176, 200, 235, 187, 60, 131, 83, 153, 97, 23, 43, 4, 126, 186, 119, 214, 38, 225, 105, 20, 99, 85, 33, 12, 125]

def aff (b : UInt8) : UInt8 := b ^^^ rotl8 b 1 ^^^ rotl8 b 2 ^^^ rotl8 b 3 ^^^ rotl8 b 4 ^^^ 0x63

set_option maxHeartbeats 4000000 in
theorem ginvL_facts : ∀ i, i < 256 → i ≠ 0 →
    gmul (UInt8.ofNat i) (ginvL.getD i 0) = 1 ∧
    ∀ k ∈ [(1 : UInt8), 2, 4, 8, 16, 32, 64, 128],
      gmul (ginvL.getD i 0) (gmul (UInt8.ofNat i) k) = k := by decide +kernel

theorem aff_ginvL : ∀ i, i < 256 → aff (ginvL.getD i 0) = sboxL.getD i 0 := by decide +kernel

theorem invSboxL_sboxL : ∀ i, i < 256 → invSboxL.getD (sboxL.getD i 0).toNat 0 = UInt8.ofNat i := by
  decide +kernel

theorem sboxL_invSboxL : ∀ i, i < 256 → sboxL.getD (invSboxL.getD i 0).toNat 0 = UInt8.ofNat i := by
  decide +kernel

theorem ofNat_eq_imp (j : Nat) (b : UInt8) (h : UInt8.ofNat j = b) : j % 256 = b.toNat := by
  have := congrArg UInt8.toNat h
  simpa using this

theorem ginv_eq (a : UInt8) : ginv a = ginvL.getD a.toNat 0 := by
  by_cases h : a = 0
  · subst h; decide
  · have hn : a.toNat ≠ 0 := by
      intro h0; apply h; rw [← UInt8.toNat_inj]; simpa using h0
    obtain ⟨h1, h8⟩ := ginvL_facts a.toNat a.toNat_lt hn
    rw [UInt8.ofNat_toNat] at h1 h8
    generalize ginvL.getD a.toNat 0 = b at h1 h8 ⊢
    have hinv : ∀ z, gmul b (gmul a z) = z :=
      additive_ext (fun z => gmul b (gmul a z)) (fun z => z)
        (by intro x y; simp only [gmul_xor]) (by intro x y; rfl)
        (h8 1 (by simp)) (h8 2 (by simp)) (h8 4 (by simp)) (h8 8 (by simp))
        (h8 16 (by simp)) (h8 32 (by simp)) (h8 64 (by simp)) (h8 128 (by simp))
    have hb1 : gmul b 1 = b := by have := hinv b; rwa [h1] at this
    have hfind : (List.range 256).find? (fun y => gmul a (UInt8.ofNat y) = 1) = some b.toNat := by
      rw [List.find?_range_eq_some]
      refine ⟨by simp [h1], by simp [b.toNat_lt], ?_⟩
      intro j hj
      simp only [Bool.not_eq_eq_eq_not, Bool.not_true, decide_eq_false_iff_not]
      intro hj1
      have hjb : UInt8.ofNat j = b := by
        have := hinv (UInt8.ofNat j)
        rw [hj1, hb1] at this; exact this.symm
      have := ofNat_eq_imp j b hjb
      have := b.toNat_lt
      omega
    unfold ginv
    rw [if_neg h, hfind]
    simp

theorem getD_map_range (f : Nat → UInt8) (n i : Nat) (h : i < n) :
    ((Array.range n).map f).getD i 0 = f i := by
  simp [Array.getElem?_range, h]

theorem sbox_eq (a : UInt8) : sbox a = sboxL.getD a.toNat 0 := by
  unfold sbox sboxTable
  rw [getD_map_range _ _ _ a.toNat_lt, UInt8.ofNat_toNat]
  show aff (ginv a) = _
  rw [ginv_eq]
  exact aff_ginvL a.toNat a.toNat_lt

theorem invSboxL_sbox (x : UInt8) : invSboxL.getD (sbox x).toNat 0 = x := by
  rw [sbox_eq]; simpa using invSboxL_sboxL x.toNat x.toNat_lt

theorem sbox_invSboxL (y : UInt8) : sbox (invSboxL.getD y.toNat 0) = y := by
  rw [sbox_eq]; simpa using sboxL_invSboxL y.toNat y.toNat_lt

theorem sbox_injective (x y : UInt8) (h : sbox x = sbox y) : x = y := by
  rw [← invSboxL_sbox x, ← invSboxL_sbox y, h]

theorem invSbox_def (y : UInt8) : invSbox y =
    UInt8.ofNat (((List.range 256).find? fun x => sbox (UInt8.ofNat x) = y).getD 0) := by
  unfold invSbox invSboxTable
  rw [getD_map_range _ _ _ y.toNat_lt, UInt8.ofNat_toNat]

theorem invSbox_sbox (x : UInt8) : invSbox (sbox x) = x := by
  rw [invSbox_def]
  have hfind : (List.range 256).find? (fun x' => sbox (UInt8.ofNat x') = sbox x) = some x.toNat := by
    rw [List.find?_range_eq_some]
    refine ⟨by simp, by simp [x.toNat_lt], ?_⟩
    intro j hj
    simp only [Bool.not_eq_eq_eq_not, Bool.not_true, decide_eq_false_iff_not]
    intro hj1
    have := ofNat_eq_imp j x (sbox_injective _ _ hj1)
    have := x.toNat_lt
    omega
  rw [hfind]; simp

theorem sbox_invSbox (y : UInt8) : sbox (invSbox y) = y := by
  rw [invSbox_def]
  cases hfind : (List.range 256).find? (fun x => sbox (UInt8.ofNat x) = y) with
  | none =>
    exfalso
    rw [List.find?_range_eq_none] at hfind
    have := hfind (invSboxL.getD y.toNat 0).toNat (UInt8.toNat_lt _)
    simp [sbox_invSboxL] at this
  | some j =>
    have := List.find?_some hfind
    simpa using this

theorem invSubBytes_subBytes (s : Bytes) : invSubBytes (subBytes s) = s := by
  unfold invSubBytes subBytes
  induction s with
  | nil => rfl
  | cons x t ih => simp only [List.map_cons, invSbox_sbox, ih]

theorem subBytes_invSubBytes (s : Bytes) : subBytes (invSubBytes s) = s := by
  unfold invSubBytes subBytes
  induction s with
  | nil => rfl
  | cons x t ih => simp only [List.map_cons, sbox_invSbox, ih]

end Relic.Lemmas.Aes
