/-
Every scalar-multiplication loop of Model/MulAlg.lean computes the integer its recoding denotes times the
base point, in an arbitrary additive commutative group.
-/
import Mathlib.Algebra.Group.Basic
import Mathlib.Tactic.Abel
import Mathlib.Tactic.Ring
import Mathlib.Tactic.Linarith
import RelicVerif.Model.MulAlg
import RelicVerif.Lemmas.Rec

namespace Relic.Model.MulAlg
open Relic.Model

variable {G : Type} [AddCommGroup G]

/-- the operations of the group -/
def gops : Ops G := ⟨0, (· + ·), Neg.neg⟩

@[simp] theorem gops_zero : (gops : Ops G).zero = 0 := rfl
@[simp] theorem gops_add (a b : G) : (gops : Ops G).add a b = a + b := rfl
@[simp] theorem gops_neg (a : G) : (gops : Ops G).neg a = -a := rfl
@[simp] theorem gops_sub (a b : G) : (gops : Ops G).sub a b = a - b := by
  simp [Ops.sub, sub_eq_add_neg]
@[simp] theorem gops_dbl (a : G) : (gops : Ops G).dbl a = (2 : ℤ) • a := by
  simp [Ops.dbl, two_zsmul]

theorem dblN_spec (n : Nat) (x : G) : dblN gops n x = (2 ^ n : ℤ) • x := by
  induction n generalizing x with
  | zero => simp [dblN]
  | succ n ih => rw [dblN, ih, gops_dbl, ← mul_zsmul, pow_succ]

theorem mulSmall_succ (p : G) (i : Nat) : mulSmall gops p (i + 1) = ((i : ℤ) + 1) • p := by
  induction i with
  | zero => simp [mulSmall]
  | succ n ih =>
    rw [mulSmall, ih, gops_add]
    conv_lhs => rw [← one_zsmul p, ← mul_zsmul, ← add_zsmul]
    congr 1; push_cast; ring

/-- Shamir's trick -/
theorem mulSmall_spec (p : G) (i : Nat) : mulSmall gops p i = (i : ℤ) • p := by
  cases i with
  | zero => simp [mulSmall]
  | succ n => rw [mulSmall_succ]; congr 1

/-- fixed-base binary method -/
theorem tabPow2_spec (p : G) (n : Nat) :
    (tabPow2 gops p n).length = n ∧ ∀ i, i < n → (tabPow2 gops p n).getD i 0 = (2 ^ i : ℤ) • p := by
  induction n generalizing p with
  | zero => simp [tabPow2]
  | succ n ih =>
    obtain ⟨h1, h2⟩ := ih ((2 : ℤ) • p)
    refine ⟨by simp [tabPow2, h1], ?_⟩
    intro i hi
    cases i with
    | zero => simp [tabPow2]
    | succ i =>
      simp only [tabPow2, List.getD_cons_succ, gops_dbl]
      rw [h2 i (by omega), ← mul_zsmul, pow_succ]

theorem tabOdd_length (p : G) (n : Nat) : (tabOdd gops p n).length = n := by
  induction n with
  | zero => simp [tabOdd]
  | succ n ih => simp [tabOdd, ih]

theorem tabOdd_getElem? (p : G) (n : Nat) :
    ∀ i, i < n → (tabOdd gops p n)[i]? = some ((2 * (i : ℤ) + 1) • p) := by
  induction n with
  | zero => intro i hi; omega
  | succ n ih =>
    intro i hi
    have hlen := tabOdd_length p n
    rw [tabOdd]
    by_cases h : i < n
    · rw [List.getElem?_append_left (by omega)]; exact ih i h
    · have hin : i = n := by omega
      subst hin
      rw [List.getElem?_append_right (by omega)]
      simp only [hlen, Nat.sub_self, List.getElem?_cons_zero, Option.some.injEq]
      cases i with
      | zero => simp [tabOdd]
      | succ m =>
        rw [List.getLast?_eq_getElem?, hlen, Nat.add_sub_cancel, ih m (by omega)]
        simp only [gops_add, gops_dbl]
        rw [← add_zsmul, show (2 * (m : ℤ) + 1 + 2) = 2 * ((m + 1 : ℕ) : ℤ) + 1 by push_cast; ring]

/-- ep_tab: odd multiples -/
theorem tabOdd_spec (p : G) (n : Nat) :
    (tabOdd gops p n).length = n ∧ ∀ i, i < n → (tabOdd gops p n).getD i 0 = (2 * (i : ℤ) + 1) • p := by
  refine ⟨tabOdd_length p n, fun i hi => ?_⟩
  rw [List.getD_eq_getElem?_getD, tabOdd_getElem? p n i hi]; rfl


/-- one signed-digit step: add or subtract the table entry of |d| -/
theorem signedStep (p : G) (tab : List G) (htab : ∀ i, i < tab.length → tab.getD i 0 = (2 * (i : ℤ) + 1) • p)
    (r : G) (d : ℤ) (hd : d = 0 ∨ (d % 2 ≠ 0 ∧ d.natAbs < 2 * tab.length)) :
    (if d > 0 then gops.add r (tab.getD (d.toNat / 2) 0)
      else if d < 0 then gops.sub r (tab.getD ((-d).toNat / 2) 0) else r) = r + d • p := by
  rcases hd with rfl | ⟨hodd, hb⟩
  · simp
  · by_cases hpos : d > 0
    · rw [if_pos hpos, gops_add, htab _ (by omega)]
      congr 2; omega
    · have hneg : d < 0 := by omega
      rw [if_neg hpos, if_pos hneg, gops_sub, htab _ (by omega), sub_eq_add_neg, ← neg_zsmul]
      congr 2; omega

/-- signed-digit left-to-right loop (w-NAF with table, binary NAF with table [P]) -/
theorem mulSigned_spec (p : G) (tab : List G) (htab : ∀ i, i < tab.length → tab.getD i 0 = (2 * (i : ℤ) + 1) • p)
    (ds : List Int) (hd : ∀ d ∈ ds, d = 0 ∨ (d % 2 ≠ 0 ∧ d.natAbs < 2 * tab.length)) :
    mulSigned gops tab 0 ds = (Rec.eval 1 ds) • p := by
  unfold mulSigned
  induction ds with
  | nil => simp [Rec.eval]
  | cons d ds ih =>
    rw [List.reverse_cons, List.foldl_append, ih (fun x hx => hd x (List.mem_cons_of_mem _ hx))]
    simp only [List.foldl_cons, List.foldl_nil]
    rw [signedStep p tab htab _ d (hd d List.mem_cons_self), gops_dbl, ← mul_zsmul, ← add_zsmul,
      Rec.eval_cons]
    congr 1; ring

/-- regular recoding loop with the parity correction -/
theorem mulReg_spec (p : G) (tab : List G) (htab : ∀ i, i < tab.length → tab.getD i 0 = (2 * (i : ℤ) + 1) • p)
    (w : Nat) (reg : List Int) (hd : ∀ d ∈ reg, d % 2 ≠ 0 ∧ d.natAbs < 2 * tab.length) (even : Bool) :
    mulReg gops tab 0 w reg even p = (Rec.eval (w - 1) reg - (if even then 1 else 0)) • p := by
  have key : reg.reverse.foldl (fun r d =>
      let r := dblN gops (w - 1) r
      let u := tab.getD (d.natAbs / 2) 0
      gops.add r (if d < 0 then gops.neg u else u)) gops.zero = (Rec.eval (w - 1) reg) • p := by
    induction reg with
    | nil => simp [Rec.eval]
    | cons d ds ih =>
      rw [List.reverse_cons, List.foldl_append, ih (fun x hx => hd x (List.mem_cons_of_mem _ hx))]
      obtain ⟨hodd, hb⟩ := hd d List.mem_cons_self
      simp only [List.foldl_cons, List.foldl_nil, dblN_spec, gops_add, gops_neg]
      rw [htab _ (by omega), Rec.eval_cons, ← mul_zsmul]
      by_cases hneg : d < 0
      · rw [if_pos hneg, ← neg_zsmul, ← add_zsmul]; congr 1
        have : (2 * ((d.natAbs / 2 : ℕ) : ℤ) + 1) = -d := by omega
        rw [this]; ring
      · rw [if_neg hneg, ← add_zsmul]; congr 1
        have : (2 * ((d.natAbs / 2 : ℕ) : ℤ) + 1) = d := by omega
        rw [this]; ring
  unfold mulReg
  simp only [key]
  cases even
  · simp
  · simp [sub_eq_add_neg, add_zsmul]

/-- sliding windows -/
theorem mulSlide_spec (p : G) (tab : List G) (htab : ∀ i, i < tab.length → tab.getD i 0 = (2 * (i : ℤ) + 1) • p)
    (win : List Int) (hd : ∀ d ∈ win, d = 0 ∨ (d % 2 = 1 ∧ 0 < d ∧ d.toNat < 2 * tab.length)) :
    mulSlide gops tab 0 win = (Rec.evalSlw win) • p := by
  unfold mulSlide Rec.evalSlw
  suffices h : ∀ (r : G) (acc : ℤ), r = acc • p →
      win.foldl (fun r d => if d = 0 then gops.dbl r
        else gops.add (dblN gops (bitLenNat d.toNat) r) (tab.getD (d.toNat / 2) 0)) r
      = (win.foldl (fun acc d => if d = 0 then 2 * acc else acc * 2 ^ (Rec.bitLen d.toNat) + d) acc) • p by
    exact h _ 0 (by simp)
  induction win with
  | nil => intro r acc h; simpa using h
  | cons d ds ih =>
    intro r acc h
    simp only [List.foldl_cons]
    apply ih (fun x hx => hd x (List.mem_cons_of_mem _ hx))
    rcases hd d List.mem_cons_self with rfl | ⟨hodd, hpos, hb⟩
    · simp [h, mul_zsmul]
    · have hne : d ≠ 0 := by omega
      rw [if_neg hne, if_neg hne, gops_add, dblN_spec, htab _ (by omega), h, ← mul_zsmul, ← add_zsmul]
      have : (2 * ((d.toNat / 2 : ℕ) : ℤ) + 1) = d := by omega
      rw [this]
      have : bitLenNat d.toNat = Rec.bitLen d.toNat := rfl
      rw [this]; congr 1; ring

/-- value of a bit string, most significant first -/
def bitsVal (bs : List Bool) : ℤ := bs.foldl (fun acc b => 2 * acc + (if b then 1 else 0)) 0

theorem bitsVal_foldl (bs : List Bool) (a : ℤ) :
    bs.foldl (fun acc b => 2 * acc + (if b then 1 else 0)) a = 2 ^ bs.length * a + bitsVal bs := by
  unfold bitsVal
  induction bs generalizing a with
  | nil => simp
  | cons b bs ih =>
    simp only [List.foldl_cons, List.length_cons]
    rw [ih, ih (2 * 0 + _)]
    ring

/-- Montgomery ladder: with the implicit leading one, [1 b_{m-1} … b_0]·P -/
theorem mulLadder_spec (p : G) (bits : List Bool) :
    mulLadder gops p bits = (2 ^ bits.length + bitsVal bits : ℤ) • p := by
  unfold mulLadder
  suffices h : ∀ (v : ℤ) (t : G × G), t = (v • p, (v + 1) • p) →
      (bits.foldl (fun (t : G × G) b =>
        if b then (gops.add t.1 t.2, gops.dbl t.2) else (gops.dbl t.1, gops.add t.1 t.2)) t).1
      = (2 ^ bits.length * v + bitsVal bits) • p by
    have := h 1 (p, gops.dbl p) (by simp [two_zsmul])
    simpa using this
  induction bits with
  | nil => intro v t h; simp [h, bitsVal]
  | cons b bs ih =>
    intro v t h
    simp only [List.foldl_cons, List.length_cons]
    rw [ih (2 * v + (if b then 1 else 0))]
    · congr 1
      rw [show bitsVal (b :: bs) = bs.foldl (fun acc b => 2 * acc + (if b then 1 else 0)) (2 * 0 + (if b then 1 else 0)) from rfl,
        bitsVal_foldl]
      ring
    · subst h
      cases b
      · simp only [gops_add, gops_dbl, Bool.false_eq_true, if_false, ← mul_zsmul, ← add_zsmul]
        congr 2 <;> ring
      · simp only [gops_add, gops_dbl, if_true, ← mul_zsmul, ← add_zsmul]
        congr 2 <;> ring

theorem mulFixBasic_aux (p : G) (tab : List G) (htab : ∀ i, i < tab.length → tab.getD i 0 = (2 ^ i : ℤ) • p)
    (k m : Nat) (hm : m ≤ tab.length) :
    (List.range m).foldl (fun r i => if (k >>> i) % 2 = 1 then gops.add r (tab.getD i 0) else r) gops.zero
      = ((k % 2 ^ m : ℕ) : ℤ) • p := by
  induction m with
  | zero => simp [Nat.mod_one]
  | succ m ih =>
    rw [List.range_succ, List.foldl_append, ih (by omega)]
    simp only [List.foldl_cons, List.foldl_nil]
    rw [Nat.mod_pow_succ, Nat.shiftRight_eq_div_pow, htab m (by omega)]
    rcases Nat.mod_two_eq_zero_or_one (k / 2 ^ m) with h | h
    · simp [h]
    · simp only [h, if_true, gops_add, ← add_zsmul]; congr 1; push_cast; ring

theorem mulFixBasic_spec (p : G) (n k : Nat) (hk : k < 2 ^ n) :
    mulFixBasic gops (tabPow2 gops p n) 0 k = (k : ℤ) • p := by
  obtain ⟨hlen, htab⟩ := tabPow2_spec p n
  unfold mulFixBasic
  rw [mulFixBasic_aux p _ (by rw [hlen]; exact htab) k _ (le_refl _), hlen, Nat.mod_eq_of_lt hk]


/-! ### loops over two digit strings indexed from the top -/

theorem getD_succ_tail (a : List ℤ) (i : Nat) : a.getD (i + 1) 0 = a.tail.getD i 0 := by
  cases a <;> simp

theorem eval_map_head_tail (s : Nat) (va : ℤ → ℤ) (hva : va 0 = 0) (a : List ℤ) :
    Rec.eval s (a.map va) = va (a.getD 0 0) + 2 ^ s * Rec.eval s (a.tail.map va) := by
  cases a <;> simp [Rec.eval, hva]

theorem pairLoop_spec (p q : G) (s : Nat) (F : G → ℤ → ℤ → G) (va vb : ℤ → ℤ) (Pa Pb : ℤ → Prop)
    (ha0 : Pa 0) (hb0 : Pb 0) (hva : va 0 = 0) (hvb : vb 0 = 0)
    (hF : ∀ x y u v, Pa u → Pb v →
      F (x • p + y • q) u v = (va u + 2 ^ s * x) • p + (vb v + 2 ^ s * y) • q) :
    ∀ (n : Nat) (a b : List ℤ), a.length ≤ n → b.length ≤ n → (∀ d ∈ a, Pa d) → (∀ d ∈ b, Pb d) →
      (List.range n).reverse.foldl (fun r i => F r (a.getD i 0) (b.getD i 0)) 0
        = Rec.eval s (a.map va) • p + Rec.eval s (b.map vb) • q := by
  intro n
  induction n with
  | zero =>
    intro a b ha hb _ _
    have ha' : a = [] := List.length_eq_zero_iff.1 (by omega)
    have hb' : b = [] := List.length_eq_zero_iff.1 (by omega)
    subst ha' hb'
    simp [Rec.eval]
  | succ n ih =>
    intro a b ha hb hPa hPb
    rw [List.range_succ_eq_map, List.reverse_cons, List.foldl_append, ← List.map_reverse, List.foldl_map]
    simp only [Nat.succ_eq_add_one, getD_succ_tail, List.foldl_cons, List.foldl_nil]
    rw [ih a.tail b.tail (by rw [List.length_tail]; omega) (by rw [List.length_tail]; omega)
      (fun d hd => hPa d (List.mem_of_mem_tail hd)) (fun d hd => hPb d (List.mem_of_mem_tail hd))]
    have h1 : Pa (a.getD 0 0) := by
      cases a with
      | nil => simpa using ha0
      | cons x t => simpa using hPa x List.mem_cons_self
    have h2 : Pb (b.getD 0 0) := by
      cases b with
      | nil => simpa using hb0
      | cons x t => simpa using hPb x List.mem_cons_self
    rw [hF _ _ _ _ h1 h2, eval_map_head_tail s va hva a, eval_map_head_tail s vb hvb b]

/-- interleaving -/
theorem simInter_spec (p q : G) (tab0 tab1 : List G)
    (ht0 : ∀ i, i < tab0.length → tab0.getD i 0 = (2 * (i : ℤ) + 1) • p)
    (ht1 : ∀ i, i < tab1.length → tab1.getD i 0 = (2 * (i : ℤ) + 1) • q)
    (n0 n1 : List Int) (h0 : ∀ d ∈ n0, d = 0 ∨ (d % 2 ≠ 0 ∧ d.natAbs < 2 * tab0.length))
    (h1 : ∀ d ∈ n1, d = 0 ∨ (d % 2 ≠ 0 ∧ d.natAbs < 2 * tab1.length)) :
    simInter gops tab0 tab1 0 n0 n1 = (Rec.eval 1 n0) • p + (Rec.eval 1 n1) • q := by
  have := pairLoop_spec p q 1
    (fun r u v =>
      let r := gops.dbl r
      let step := fun (r : G) (tab : List G) (d : Int) =>
        if d > 0 then gops.add r (tab.getD (d.toNat / 2) 0)
        else if d < 0 then gops.sub r (tab.getD ((-d).toNat / 2) 0) else r
      step (step r tab0 u) tab1 v) id id
    (fun d => d = 0 ∨ (d % 2 ≠ 0 ∧ d.natAbs < 2 * tab0.length))
    (fun d => d = 0 ∨ (d % 2 ≠ 0 ∧ d.natAbs < 2 * tab1.length))
    (Or.inl rfl) (Or.inl rfl) rfl rfl
    (by
      intro x y u v hu hv
      simp only [id]
      rw [signedStep p tab0 ht0 _ u hu, signedStep q tab1 ht1 _ v hv, gops_dbl]
      simp only [zsmul_add, add_zsmul, mul_zsmul, pow_one]
      abel)
    (max n0.length n1.length) n0 n1 (le_max_left _ _) (le_max_right _ _) h0 h1
  simpa [simInter] using this

/-- joint sparse form -/
theorem simJoint_spec (p q : G) (j0 j1 : List Int) :
    simJoint gops p q j0 j1 = (Rec.eval 1 (j0.map Int.sign)) • p + (Rec.eval 1 (j1.map Int.sign)) • q := by
  have hs : ∀ (r t : G) (u : ℤ), (if u > 0 then gops.add r t else if u < 0 then gops.sub r t else r)
      = r + u.sign • t := by
    intro r t u
    rcases lt_trichotomy u 0 with h | h | h
    · rw [if_neg (by omega), if_pos h, Int.sign_eq_neg_one_of_neg h]; simp [sub_eq_add_neg]
    · subst h; simp
    · rw [if_pos h, Int.sign_eq_one_of_pos h]; simp
  have := pairLoop_spec p q 1
    (fun r u0 u1 =>
      let r := gops.dbl r
      let r := if u0 > 0 then gops.add r p else if u0 < 0 then gops.sub r p else r
      if u1 > 0 then gops.add r q else if u1 < 0 then gops.sub r q else r) Int.sign Int.sign
    (fun _ => True) (fun _ => True) trivial trivial rfl rfl
    (by
      intro x y u v _ _
      simp only [hs, gops_dbl]
      simp only [zsmul_add, add_zsmul, mul_zsmul, pow_one]
      abel)
    (max j0.length j1.length) j0 j1 (le_max_left _ _) (le_max_right _ _) (fun _ _ => trivial) (fun _ _ => trivial)
  simpa [simJoint] using this

theorem flatMap_range_length {α : Type} (b : Nat) (f : Nat → Nat → α) (a : Nat) :
    ((List.range a).flatMap fun i => (List.range b).map (f i)).length = a * b := by
  induction a with
  | zero => simp
  | succ a ih => rw [List.range_succ, List.flatMap_append, List.length_append, ih]; simp [Nat.succ_mul]

theorem flatMap_range_getElem? {α : Type} (b : Nat) (f : Nat → Nat → α) (a : Nat) :
    ∀ i j, i < a → j < b →
      ((List.range a).flatMap fun i => (List.range b).map (f i))[i * b + j]? = some (f i j) := by
  induction a with
  | zero => intro i j hi; omega
  | succ a ih =>
    intro i j hi hj
    have hlen := flatMap_range_length b f a
    rw [List.range_succ, List.flatMap_append]
    by_cases h : i < a
    · have : i * b + j < a * b := by
        have : (i + 1) * b ≤ a * b := Nat.mul_le_mul_right b h
        rw [Nat.succ_mul] at this; omega
      rw [List.getElem?_append_left (by omega)]
      exact ih i j h hj
    · have hia : i = a := by omega
      subst hia
      rw [List.getElem?_append_right (by omega), hlen]
      simp [hj]

theorem tabTrick_getD (p q : G) (w : Nat) (i j : Nat) (hi : i < 2 ^ w) (hj : j < 2 ^ w) :
    (tabTrick gops p q w).getD ((i <<< w) + j) 0 = (i : ℤ) • p + (j : ℤ) • q := by
  unfold tabTrick
  rw [List.getD_eq_getElem?_getD, Nat.shiftLeft_eq,
    flatMap_range_getElem? (2 ^ w) (fun i j => gops.add (mulSmall gops p i) (mulSmall gops q j)) (2 ^ w) i j hi hj]
  simp [mulSmall_spec]

theorem simTrick_spec (p q : G) (w : Nat) (w0 w1 : List Int)
    (h0 : ∀ d ∈ w0, 0 ≤ d ∧ d < 2 ^ w) (h1 : ∀ d ∈ w1, 0 ≤ d ∧ d < 2 ^ w) :
    simTrick gops (tabTrick gops p q w) 0 w w0 w1 = (Rec.eval w w0) • p + (Rec.eval w w1) • q := by
  have hpw : (0 : ℤ) < 2 ^ w := by positivity
  have := pairLoop_spec p q w
    (fun r u v =>
      let r := dblN gops w r
      gops.add r ((tabTrick gops p q w).getD ((u.toNat <<< w) + v.toNat) 0)) id id
    (fun d => 0 ≤ d ∧ d < 2 ^ w) (fun d => 0 ≤ d ∧ d < 2 ^ w)
    ⟨le_refl _, hpw⟩ ⟨le_refl _, hpw⟩ rfl rfl
    (by
      intro x y u v hu hv
      have hu' : u.toNat < 2 ^ w := by
        have := hu.2; zify; rw [Int.toNat_of_nonneg hu.1]; exact_mod_cast this
      have hv' : v.toNat < 2 ^ w := by
        have := hv.2; zify; rw [Int.toNat_of_nonneg hv.1]; exact_mod_cast this
      simp only [id, dblN_spec, gops_add]
      rw [tabTrick_getD p q w _ _ hu' hv', Int.toNat_of_nonneg hu.1, Int.toNat_of_nonneg hv.1]
      simp only [zsmul_add, add_zsmul, mul_zsmul]
      abel)
    (max w0.length w1.length) w0 w1 (le_max_left _ _) (le_max_right _ _) h0 h1
  simpa [simTrick] using this


/-! ### the regular recoding ends with the digit 1 -/

theorem recRegLoop_carry_odd (w : Nat) (hw : 2 ≤ w) : ∀ (l t : Nat) (acc : List Int),
    t % 2 = 1 → (Rec.recRegLoop w l t acc).2 % 2 = 1 := by
  intro l
  induction l with
  | zero => intro t acc ht; simpa [Rec.recRegLoop] using ht
  | succ l ih =>
    intro t acc ht
    have hu : (if w = 2 then ((t % 4 : Nat) : Int) - 2 else ((t % 2 ^ w : Nat) : Int) - 2 ^ (w - 1))
        = ((t % 2 ^ w : Nat) : Int) - 2 ^ (w - 1) := by
      split
      · subst w; rfl
      · rfl
    obtain ⟨_, _, h3, _⟩ := Rec.reg_step w t hw ht
    simp only [Rec.recRegLoop, hu]
    rw [h3]
    exact ih _ _ (by omega)

/-- all digits of the regular recoding of an odd k < 2^n are odd and small: the final carry is 1 -/
theorem recReg_digits (cap k n w : Nat) (hw : 2 ≤ w) (hodd : k % 2 = 1) (hk : k < 2 ^ n) (ds : List Int)
    (h : Rec.recReg cap k n w = some ds) :
    Rec.eval (w - 1) ds = k ∧ ∀ d ∈ ds, d % 2 ≠ 0 ∧ d.natAbs < 2 ^ (w - 1) := by
  obtain ⟨hv, hlen, hd, hlast, _⟩ := Rec.recReg_spec cap k n w hw hodd hk ds h
  refine ⟨hv, ?_⟩
  have hc := recRegLoop_carry_odd w hw ((n + (w - 1) - 1) / (w - 1)) k [] hodd
  have hl := Rec.recRegLoop_length w ((n + (w - 1) - 1) / (w - 1)) k []
  unfold Rec.recReg at h
  simp only at h
  split at h
  · exact absurd h (by simp)
  simp only [Option.some.injEq] at h
  generalize Rec.recRegLoop w ((n + (w - 1) - 1) / (w - 1)) k [] = res at h hc hl
  obtain ⟨ds', t'⟩ := res
  simp only at h hc hl
  subst h
  rw [List.getLast?_concat] at hlast
  have ht' : (t' : ℤ) = 1 := by
    rcases hlast with h0 | h1
    · simp only [Option.some.injEq] at h0; omega
    · simpa using h1
  rw [← show ds'.length = (n + (w - 1) - 1) / (w - 1) by simpa using hl, List.take_left] at hd
  intro d hdm
  rcases List.mem_append.1 hdm with hdm | hdm
  · exact hd d hdm
  · simp only [List.mem_singleton] at hdm
    rw [hdm, ht']
    refine ⟨by decide, ?_⟩
    have : 2 ^ 1 ≤ 2 ^ (w - 1) := Nat.pow_le_pow_right (by decide) (by omega)
    rw [Int.natAbs_one]; omega

theorem zsmul_emod (p : G) (n : ℤ) (hn : n • p = 0) (k : ℤ) : (k % n) • p = k • p := by
  conv_rhs => rw [← Int.emod_add_mul_ediv k n, add_zsmul, mul_comm, mul_zsmul, hn, zsmul_zero, add_zero]

end Relic.Model.MulAlg
