/-
Every scalar-multiplication loop of Model/MulAlg.lean computes the integer its recoding denotes times the
base point, in an arbitrary additive commutative group.
-/
import Mathlib.Algebra.Group.Basic
import Mathlib.Tactic.Abel
import Mathlib.Tactic.Ring
import Mathlib.Tactic.Linarith
import RelicVerif.Model.MulAlg
import RelicVerif.Lemmas.Rec

namespace Relic.Model.MulAlg
open Relic.Model

variable {G : Type} [AddCommGroup G]

/-- the operations of the group -/
def gops : Ops G := ⟨0, (· + ·), Neg.neg⟩

theorem dblN_spec (n : Nat) (x : G) : dblN gops n x = (2 ^ n : ℤ) • x := by
  sorry

/-- ep_tab: odd multiples -/
theorem tabOdd_spec (p : G) (n : Nat) :
    (tabOdd gops p n).length = n ∧ ∀ i, i < n → (tabOdd gops p n).getD i 0 = (2 * (i : ℤ) + 1) • p := by
  sorry

/-- signed-digit left-to-right loop (w-NAF with table, binary NAF with table [P]) -/
theorem mulSigned_spec (p : G) (tab : List G) (htab : ∀ i, i < tab.length → tab.getD i 0 = (2 * (i : ℤ) + 1) • p)
    (ds : List Int) (hd : ∀ d ∈ ds, d = 0 ∨ (d % 2 ≠ 0 ∧ d.natAbs < 2 * tab.length)) :
    mulSigned gops tab 0 ds = (Rec.eval 1 ds) • p := by
  sorry

/-- sliding windows -/
theorem mulSlide_spec (p : G) (tab : List G) (htab : ∀ i, i < tab.length → tab.getD i 0 = (2 * (i : ℤ) + 1) • p)
    (win : List Int) (hd : ∀ d ∈ win, d = 0 ∨ (d % 2 = 1 ∧ 0 < d ∧ d.toNat < 2 * tab.length)) :
    mulSlide gops tab 0 win = (Rec.evalSlw win) • p := by
  sorry

/-- value of a bit string, most significant first -/
def bitsVal (bs : List Bool) : ℤ := bs.foldl (fun acc b => 2 * acc + (if b then 1 else 0)) 0

/-- Montgomery ladder: with the implicit leading one, [1 b_{m-1} … b_0]·P -/
theorem mulLadder_spec (p : G) (bits : List Bool) :
    mulLadder gops p bits = (2 ^ bits.length + bitsVal bits : ℤ) • p := by
  sorry

/-- regular recoding loop with the parity correction -/
theorem mulReg_spec (p : G) (tab : List G) (htab : ∀ i, i < tab.length → tab.getD i 0 = (2 * (i : ℤ) + 1) • p)
    (w : Nat) (reg : List Int) (hd : ∀ d ∈ reg, d % 2 ≠ 0 ∧ d.natAbs < 2 * tab.length) (even : Bool) :
    mulReg gops tab 0 w reg even p = (Rec.eval (w - 1) reg - (if even then 1 else 0)) • p := by
  sorry

/-- fixed-base binary method -/
theorem tabPow2_spec (p : G) (n : Nat) :
    (tabPow2 gops p n).length = n ∧ ∀ i, i < n → (tabPow2 gops p n).getD i 0 = (2 ^ i : ℤ) • p := by
  sorry

theorem mulFixBasic_spec (p : G) (n k : Nat) (hk : k < 2 ^ n) :
    mulFixBasic gops (tabPow2 gops p n) 0 k = (k : ℤ) • p := by
  sorry

/-- Shamir's trick -/
theorem mulSmall_spec (p : G) (i : Nat) : mulSmall gops p i = (i : ℤ) • p := by
  sorry

theorem simTrick_spec (p q : G) (w : Nat) (w0 w1 : List Int)
    (h0 : ∀ d ∈ w0, 0 ≤ d ∧ d < 2 ^ w) (h1 : ∀ d ∈ w1, 0 ≤ d ∧ d < 2 ^ w) :
    simTrick gops (tabTrick gops p q w) 0 w w0 w1 = (Rec.eval w w0) • p + (Rec.eval w w1) • q := by
  sorry

/-- interleaving -/
theorem simInter_spec (p q : G) (tab0 tab1 : List G)
    (ht0 : ∀ i, i < tab0.length → tab0.getD i 0 = (2 * (i : ℤ) + 1) • p)
    (ht1 : ∀ i, i < tab1.length → tab1.getD i 0 = (2 * (i : ℤ) + 1) • q)
    (n0 n1 : List Int) (h0 : ∀ d ∈ n0, d = 0 ∨ (d % 2 ≠ 0 ∧ d.natAbs < 2 * tab0.length))
    (h1 : ∀ d ∈ n1, d = 0 ∨ (d % 2 ≠ 0 ∧ d.natAbs < 2 * tab1.length)) :
    simInter gops tab0 tab1 0 n0 n1 = (Rec.eval 1 n0) • p + (Rec.eval 1 n1) • q := by
  sorry

/-- joint sparse form -/
theorem simJoint_spec (p q : G) (j0 j1 : List Int) :
    simJoint gops p q j0 j1 = (Rec.eval 1 (j0.map Int.sign)) • p + (Rec.eval 1 (j1.map Int.sign)) • q := by
  sorry

end Relic.Model.MulAlg
