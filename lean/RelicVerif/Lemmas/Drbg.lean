/-
Refinement of the byte-level DRBG model (Model/Drbg.lean, mirrors relic_rand_hashd.c) to the
SP 800-90A Hash_DRBG specification (Spec/HashDrbg.lean), generic in the hash function.
-/
import RelicVerif.Model.Drbg

namespace Relic.Model.Drbg
open Relic.Spec.HashDrbg (Bytes i2os os2i Op Out)
open Relic.Spec

/-- abstraction: V and C are the big-endian integers stored after the prefix byte -/
def Abs (x : Ctx) (s : HashDrbg.State) : Prop :=
  x.seeded = true ∧ x.rand.length = 111 ∧
  os2i ((x.rand.drop 1).take 55) = s.v ∧ os2i ((x.rand.drop 56).take 55) = s.c ∧ x.counter = s.ctr

def mcfg (hash : Bytes → Bytes) : Cfg := { hash := hash }
def sparams (hash : Bytes → Bytes) : HashDrbg.Params := { hash := hash }

/-- big-endian byte addition: rand_add -/
theorem randAdd_spec (a b : Bytes) (h : a.length = b.length) :
    os2i (randAdd a b).1 + (randAdd a b).2 * 256 ^ a.length = os2i a + os2i b
    ∧ (randAdd a b).1.length = a.length ∧ (randAdd a b).2 ≤ 1 := by
  sorry

/-- big-endian addition of a (possibly multi-byte) integer "digit": rand_inc -/
theorem randInc_spec (a : Bytes) (d : Nat) (hd : d + 255 < 2 ^ 32) :
    os2i (randInc a d).1 + (randInc a d).2 * 256 ^ a.length = os2i a + d
    ∧ (randInc a d).1.length = a.length := by
  sorry

/-- rand_hash is Hash_df -/
theorem randHash_eq_hashDf (hash : Bytes → Bytes) (hlen : ∀ b, (hash b).length = 32) (inp : Bytes) (n : Nat)
    (hn : 8 * n < 2 ^ 32) (hcnt : (n + 31) / 32 ≤ 255) :
    randHash (mcfg hash) n inp = HashDrbg.hashDf (sparams hash) inp n := by
  sorry

/-- rand_gen is Hashgen -/
theorem randGen_eq_hashgen (hash : Bytes → Bytes) (hlen : ∀ b, (hash b).length = 32) (v : Bytes)
    (hv : v.length = 55) (n : Nat) :
    randGen (mcfg hash) v n = HashDrbg.hashgen (sparams hash) (os2i v) n := by
  sorry

/-- one step of the model refines one step of the specification -/
theorem step_refines (hash : Bytes → Bytes) (hlen : ∀ b, (hash b).length = 32) (x : Ctx) (s : HashDrbg.State)
    (habs : Abs x s) (hctr : s.ctr + 256 < 2 ^ 31) (op : Op) :
    (step (mcfg hash) x op).2 = (HashDrbg.step (sparams hash) (some s) op).2
    ∧ ∃ s', (HashDrbg.step (sparams hash) (some s) op).1 = some s' ∧ Abs (step (mcfg hash) x op).1 s'
        ∧ s'.ctr ≤ s.ctr + 1 := by
  sorry

/-- first seeding -/
theorem seed_refines (hash : Bytes → Bytes) (hlen : ∀ b, (hash b).length = 32) (d : Bytes) (hd : d ≠ []) :
    (step (mcfg hash) init (.seed d)).2 = (HashDrbg.step (sparams hash) none (.seed d)).2
    ∧ ∃ s', (HashDrbg.step (sparams hash) none (.seed d)).1 = some s' ∧ Abs (step (mcfg hash) init (.seed d)).1 s'
        ∧ s'.ctr = 1 := by
  sorry

/-- every history from related states yields the same outputs -/
theorem run_refines (hash : Bytes → Bytes) (hlen : ∀ b, (hash b).length = 32) :
    ∀ (ops : List Op) (x : Ctx) (s : HashDrbg.State), Abs x s → s.ctr + ops.length + 256 < 2 ^ 31 →
      run (mcfg hash) x ops = HashDrbg.run (sparams hash) (some s) ops := by
  sorry

end Relic.Model.Drbg
