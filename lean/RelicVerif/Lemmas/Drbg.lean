/-
Refinement of the byte-level DRBG model (Model/Drbg.lean, mirrors relic_rand_hashd.c) to the
SP 800-90A Hash_DRBG specification (Spec/HashDrbg.lean), generic in the hash function.
-/
import RelicVerif.Model.Drbg

namespace Relic.Model.Drbg
open Relic.Spec.HashDrbg (Bytes i2os os2i Op Out)
open Relic.Spec

/-- abstraction: V and C are the big-endian integers stored after the prefix byte -/
def Abs (x : Ctx) (s : HashDrbg.State) : Prop :=
  x.seeded = true ∧ x.rand.length = 111 ∧
  os2i ((x.rand.drop 1).take 55) = s.v ∧ os2i ((x.rand.drop 56).take 55) = s.c ∧ x.counter = s.ctr

def mcfg (hash : Bytes → Bytes) : Cfg := { hash := hash }
def sparams (hash : Bytes → Bytes) : HashDrbg.Params := { hash := hash }

/-! ### big-endian octet strings -/

theorem foldl_os2i (b : Bytes) (acc : Nat) :
    b.foldl (fun acc x => acc * 256 + x.toNat) acc = acc * 256 ^ b.length + os2i b := by
  induction b generalizing acc with
  | nil => simp [os2i]
  | cons x xs ih =>
    simp only [List.foldl_cons, os2i, List.length_cons]
    rw [ih, ih (0 * 256 + x.toNat)]
    simp [Nat.pow_succ, Nat.add_mul, Nat.mul_assoc, Nat.add_assoc, Nat.mul_comm 256]

theorem os2i_nil : os2i [] = 0 := rfl

theorem os2i_append (a b : Bytes) : os2i (a ++ b) = os2i a * 256 ^ b.length + os2i b := by
  simp only [os2i, List.foldl_append]
  rw [foldl_os2i]; rfl

theorem os2i_cons (x : UInt8) (xs : Bytes) : os2i (x :: xs) = x.toNat * 256 ^ xs.length + os2i xs := by
  have := os2i_append [x] xs
  simpa [os2i] using this

theorem os2i_snoc (xs : Bytes) (x : UInt8) : os2i (xs ++ [x]) = os2i xs * 256 + x.toNat := by
  simp [os2i]

theorem os2i_lt (b : Bytes) : os2i b < 256 ^ b.length := by
  induction b with
  | nil => simp [os2i]
  | cons x xs ih =>
    rw [os2i_cons, List.length_cons, Nat.pow_succ]
    have hx : x.toNat < 256 := x.toNat_lt
    have : x.toNat * 256 ^ xs.length ≤ 255 * 256 ^ xs.length := Nat.mul_le_mul_right _ (by omega)
    omega

theorem i2os_length (n k : Nat) : (i2os n k).length = k := by simp [i2os]

theorem i2os_succ (n k : Nat) :
    i2os n (k + 1) = UInt8.ofNat ((n / 256 ^ k) % 256) :: i2os n k := by
  simp [i2os, List.range_succ]

theorem os2i_i2os (n k : Nat) : os2i (i2os n k) = n % 256 ^ k := by
  induction k with
  | zero => simp [i2os, os2i, Nat.mod_one]
  | succ k ih =>
    rw [i2os_succ, os2i_cons, ih, i2os_length, Nat.mod_pow_succ]
    simp [Nat.mul_comm, Nat.add_comm]

theorem os2i_inj : ∀ (a b : Bytes), a.length = b.length → os2i a = os2i b → a = b := by
  intro a
  induction a with
  | nil => intro b h _; cases b <;> simp_all
  | cons x xs ih =>
    intro b h he
    cases b with
    | nil => simp at h
    | cons y ys =>
      simp only [List.length_cons, Nat.add_right_cancel_iff] at h
      rw [os2i_cons, os2i_cons, h] at he
      have h1 := os2i_lt xs
      have h2 := os2i_lt ys
      rw [h] at h1
      have hp : 0 < 256 ^ ys.length := Nat.pow_pos (by omega)
      have e1 : (x.toNat * 256 ^ ys.length + os2i xs) / 256 ^ ys.length = x.toNat := by
        rw [Nat.mul_comm, Nat.mul_add_div hp, Nat.div_eq_of_lt h1]; rfl
      have e2 : (y.toNat * 256 ^ ys.length + os2i ys) / 256 ^ ys.length = y.toNat := by
        rw [Nat.mul_comm, Nat.mul_add_div hp, Nat.div_eq_of_lt h2]; rfl
      have hxy : x.toNat = y.toNat := by rw [← e1, ← e2, he]
      have hxy' : x = y := UInt8.toNat_inj.mp hxy
      subst hxy'
      have : os2i xs = os2i ys := by omega
      rw [ih ys h this]

theorem i2os_os2i (b : Bytes) : i2os (os2i b) b.length = b := by
  apply os2i_inj
  · rw [i2os_length]
  · rw [os2i_i2os, Nat.mod_eq_of_lt (os2i_lt b)]

theorem i2os_os2i' (b : Bytes) (k : Nat) (h : b.length = k) : i2os (os2i b) k = b := by
  subst h; exact i2os_os2i b


/-! ### rand_add / rand_inc: byte adders, specified least-significant byte first and transferred by `reverse` -/

/-- little-endian value -/
def le2i : List UInt8 → Nat
  | [] => 0
  | x :: xs => x.toNat + 256 * le2i xs

theorem os2i_reverse (l : Bytes) : os2i l.reverse = le2i l := by
  induction l with
  | nil => rfl
  | cons x xs ih => rw [List.reverse_cons, os2i_snoc, ih, le2i]; omega

theorem os2i_eq_le2i (l : Bytes) : os2i l = le2i l.reverse := by
  rw [← os2i_reverse, List.reverse_reverse]

theorem toNat_ofNat_mod (n : Nat) : (UInt8.ofNat (n % 256)).toNat = n % 256 := by
  rw [UInt8.toNat_ofNat']; omega

theorem randAddRev_spec : ∀ (a b : List UInt8) (c : Nat), a.length = b.length → c ≤ 1 →
    le2i (randAddRev a b c).1 + (randAddRev a b c).2 * 256 ^ a.length = le2i a + le2i b + c
    ∧ (randAddRev a b c).1.length = a.length ∧ (randAddRev a b c).2 ≤ 1 := by
  intro a
  induction a with
  | nil => intro b c h hc; cases b <;> simp_all [randAddRev, le2i]
  | cons x xs ih =>
    intro b c h hc
    cases b with
    | nil => simp at h
    | cons y ys =>
      simp only [List.length_cons, Nat.add_right_cancel_iff] at h
      have hx : x.toNat < 256 := x.toNat_lt
      have hy : y.toNat < 256 := y.toNat_lt
      obtain ⟨h1, h2, h3⟩ := ih ys ((x.toNat + y.toNat + c) / 256) h (by omega)
      simp only [randAddRev, le2i, List.length_cons, toNat_ofNat_mod]
      refine ⟨?_, by omega, h3⟩
      rw [Nat.pow_succ, ← Nat.mul_assoc]
      generalize (randAddRev xs ys ((x.toNat + y.toNat + c) / 256)).2 * 256 ^ xs.length = T at *
      omega

theorem randIncRev_spec : ∀ (a : List UInt8) (d : Nat), d + 255 < 2 ^ 32 →
    le2i (randIncRev a d).1 + (randIncRev a d).2 * 256 ^ a.length = le2i a + d
    ∧ (randIncRev a d).1.length = a.length := by
  intro a
  induction a with
  | nil => intro d _; simp [randIncRev, le2i]
  | cons x xs ih =>
    intro d hd
    have hx : x.toNat < 256 := x.toNat_lt
    have hs : (x.toNat + d) % 2 ^ 32 = x.toNat + d := Nat.mod_eq_of_lt (by omega)
    obtain ⟨h1, h2⟩ := ih ((x.toNat + d) / 256) (by omega)
    simp only [randIncRev, le2i, List.length_cons, toNat_ofNat_mod, hs]
    refine ⟨?_, by omega⟩
    rw [Nat.pow_succ, ← Nat.mul_assoc]
    generalize (randIncRev xs ((x.toNat + d) / 256)).2 * 256 ^ xs.length = T at *
    omega

/-- big-endian byte addition: rand_add -/
theorem randAdd_spec (a b : Bytes) (h : a.length = b.length) :
    os2i (randAdd a b).1 + (randAdd a b).2 * 256 ^ a.length = os2i a + os2i b
    ∧ (randAdd a b).1.length = a.length ∧ (randAdd a b).2 ≤ 1 := by
  have := randAddRev_spec a.reverse b.reverse 0 (by simpa using h) (by omega)
  simpa [randAdd, os2i_reverse, os2i_eq_le2i a, os2i_eq_le2i b] using this

/-- big-endian addition of a (possibly multi-byte) integer "digit": rand_inc -/
theorem randInc_spec (a : Bytes) (d : Nat) (hd : d + 255 < 2 ^ 32) :
    os2i (randInc a d).1 + (randInc a d).2 * 256 ^ a.length = os2i a + d
    ∧ (randInc a d).1.length = a.length := by
  have := randIncRev_spec a.reverse d hd
  simpa [randInc, os2i_reverse, os2i_eq_le2i a] using this

theorem randAdd_mod (a b : Bytes) (h : a.length = b.length) :
    os2i (randAdd a b).1 = (os2i a + os2i b) % 256 ^ a.length := by
  obtain ⟨h1, h2, _⟩ := randAdd_spec a b h
  rw [← h1, Nat.add_mul_mod_self_right, Nat.mod_eq_of_lt]
  rw [← h2]; exact os2i_lt _

theorem randInc_mod (a : Bytes) (d : Nat) (hd : d + 255 < 2 ^ 32) :
    os2i (randInc a d).1 = (os2i a + d) % 256 ^ a.length := by
  obtain ⟨h1, h2⟩ := randInc_spec a d hd
  rw [← h1, Nat.add_mul_mod_self_right, Nat.mod_eq_of_lt]
  rw [← h2]; exact os2i_lt _


/-! ### rand_hash = Hash_df, rand_gen = Hashgen -/

theorem take_flatMap_succ (f : Nat → Bytes) (hf : ∀ i, (f i).length = 32) (n rem : Nat) :
    ((List.range (n + 1)).flatMap f).take rem
      = (f 0).take (min 32 rem) ++ ((List.range n).flatMap (fun k => f (k + 1))).take (rem - 32) := by
  rw [List.range_succ_eq_map, List.flatMap_cons, List.flatMap_map, List.take_append, hf 0]
  congr 1
  by_cases h : rem ≤ 32
  · rw [Nat.min_eq_right h]
  · rw [Nat.min_eq_left (by omega), List.take_of_length_le (by rw [hf]; omega),
      List.take_of_length_le (by rw [hf]; omega)]

theorem randHash_go (hash : Bytes → Bytes) (hlen : ∀ b, (hash b).length = 32) (inp j : Bytes) :
    ∀ (n i rem : Nat) (acc : Bytes),
      randHash.go (mcfg hash) inp j i n rem acc
        = acc ++ ((List.range n).flatMap fun k =>
            hash ([UInt8.ofNat ((1 + (i + k)) % 256)] ++ j ++ inp)).take rem := by
  intro n
  induction n with
  | zero => intro i rem acc; simp [randHash.go]
  | succ n ih =>
    intro i rem acc
    rw [randHash.go, ih, take_flatMap_succ _ (fun _ => hlen _)]
    have e : ∀ k, 1 + (i + 1 + k) = 1 + (i + (k + 1)) := by intro k; omega
    simp only [mcfg, List.append_assoc, Nat.add_zero, e]

theorem i2os_mod (n k : Nat) : i2os (n % 256 ^ k) k = i2os n k := by
  apply os2i_inj
  · rw [i2os_length, i2os_length]
  · rw [os2i_i2os, os2i_i2os, Nat.mod_mod]

/-- rand_hash is Hash_df, for every output length (the counter byte and the 32-bit length field wrap
    identically on both sides, so no bound on `n` is needed) -/
theorem randHash_eq_hashDf_all (hash : Bytes → Bytes) (hlen : ∀ b, (hash b).length = 32) (inp : Bytes) (n : Nat) :
    randHash (mcfg hash) n inp = HashDrbg.hashDf (sparams hash) inp n := by
  have hj : i2os (8 * n % 2 ^ 32) 4 = i2os (8 * n) 4 := i2os_mod (8 * n) 4
  have e : ∀ k, 1 + (0 + k) = k + 1 := by intro k; omega
  simp only [randHash, HashDrbg.hashDf, hj]
  rw [randHash_go hash hlen]
  simp only [mcfg, sparams, List.nil_append, e]


/-- rand_hash is Hash_df (original statement; the two bounds are not needed, see `randHash_eq_hashDf_all`) -/
theorem randHash_eq_hashDf (hash : Bytes → Bytes) (hlen : ∀ b, (hash b).length = 32) (inp : Bytes) (n : Nat)
    (_hn : 8 * n < 2 ^ 32) (_hcnt : (n + 31) / 32 ≤ 255) :
    randHash (mcfg hash) n inp = HashDrbg.hashDf (sparams hash) inp n :=
  randHash_eq_hashDf_all hash hlen inp n

theorem randGen_go (hash : Bytes → Bytes) (hlen : ∀ b, (hash b).length = 32) :
    ∀ (n : Nat) (data : Bytes) (rem : Nat) (acc : Bytes), data.length = 55 →
      randGen.go (mcfg hash) n data rem acc
        = acc ++ ((List.range n).flatMap fun k =>
            hash (i2os ((os2i data + k) % 256 ^ 55) 55)).take rem := by
  intro n
  induction n with
  | zero => intro data rem acc _; simp [randGen.go]
  | succ n ih =>
    intro data rem acc hd
    have hl : (randInc data 1).1.length = 55 := by rw [(randInc_spec data 1 (by omega)).2, hd]
    have hv : os2i (randInc data 1).1 = (os2i data + 1) % 256 ^ 55 := by
      rw [randInc_mod data 1 (by omega), hd]
    have h0 : i2os ((os2i data + 0) % 256 ^ 55) 55 = data := by
      have := os2i_lt data
      rw [hd] at this
      rw [Nat.add_zero, Nat.mod_eq_of_lt this]
      exact i2os_os2i' data 55 hd
    have e : ∀ k, ((os2i data + 1) % 256 ^ 55 + k) % 256 ^ 55 = (os2i data + (k + 1)) % 256 ^ 55 := by
      intro k; omega
    rw [randGen.go, ih _ _ _ hl, take_flatMap_succ _ (fun _ => hlen _), hv, h0]
    simp only [mcfg, List.append_assoc, e]

/-- rand_gen is Hashgen -/
theorem randGen_eq_hashgen (hash : Bytes → Bytes) (hlen : ∀ b, (hash b).length = 32) (v : Bytes)
    (hv : v.length = 55) (n : Nat) :
    randGen (mcfg hash) v n = HashDrbg.hashgen (sparams hash) (os2i v) n := by
  simp only [randGen, HashDrbg.hashgen]
  rw [randGen_go hash hlen _ _ _ _ hv]
  simp only [mcfg, sparams, List.nil_append, HashDrbg.modulus]


/-! ### rand_bytes: the state update V := (V + H + C + ctr) mod 256^55 -/

theorem os2i_take_drop (l : Bytes) (k : Nat) :
    os2i l = os2i (l.take k) * 256 ^ (l.length - k) + os2i (l.drop k) := by
  conv => lhs; rw [← List.take_append_drop k l]
  rw [os2i_append, List.length_drop]

/-- the 56 bytes (prefix byte, V) written by rand_bytes -/
def nextV (v cc h : Bytes) (ctr : Nat) : Bytes :=
  let v1 := (randAdd v cc).1
  let r := randAdd (v1.drop 23) h
  let hi := (randInc ([0x03] ++ v1.take 23) r.2).1
  (randInc (hi ++ r.1) ctr).1

theorem randBytes_eq (hash : Bytes → Bytes) (x : Ctx) (n : Nat) :
    randBytes (mcfg hash) x n =
      if n > 65536 then none
      else some (randGen (mcfg hash) ((x.rand.drop 1).take 55) n,
        { rand := nextV ((x.rand.drop 1).take 55) ((x.rand.drop 56).take 55)
                    (hash ([0x03] ++ (x.rand.drop 1).take 55)) x.counter ++ (x.rand.drop 56).take 55,
          counter := x.counter + 1, seeded := x.seeded }) := by
  simp only [randBytes, mcfg, nextV]

/-- the carries absorbed by the prefix byte do not matter: bytes 1..55 hold (V + H + C + ctr) mod 256^55 -/
theorem update_spec (v cc h : Bytes) (ctr : Nat) (hv : v.length = 55) (hc : cc.length = 55)
    (hh : h.length = 32) (hctr : ctr + 255 < 2 ^ 32) :
    (nextV v cc h ctr).length = 56
    ∧ os2i ((nextV v cc h ctr).drop 1) = (os2i v + os2i h + os2i cc + ctr) % 256 ^ 55 := by
  show
    let v1 := (randAdd v cc).1
    let r := randAdd (v1.drop 23) h
    let hi := (randInc ([0x03] ++ v1.take 23) r.2).1
    let all := (randInc (hi ++ r.1) ctr).1
    all.length = 56 ∧ os2i (all.drop 1) = (os2i v + os2i h + os2i cc + ctr) % 256 ^ 55
  intro v1 r hi all
  have ev1 : (randAdd v cc).1 = v1 := rfl
  have er : randAdd (v1.drop 23) h = r := rfl
  have ehi : (randInc ([0x03] ++ v1.take 23) r.2).1 = hi := rfl
  have eall : (randInc (hi ++ r.1) ctr).1 = all := rfl
  clear_value all hi r v1
  obtain ⟨a1, a2, _⟩ := randAdd_spec v cc (by omega)
  rw [ev1] at a1 a2
  have hv1 : v1.length = 55 := by omega
  have hd : (v1.drop 23).length = 32 := by rw [List.length_drop]; omega
  have ht : (v1.take 23).length = 23 := by rw [List.length_take]; omega
  obtain ⟨b1, b2, b3⟩ := randAdd_spec (v1.drop 23) h (by omega)
  rw [er] at b1 b2 b3
  obtain ⟨c1, c2⟩ := randInc_spec ([0x03] ++ v1.take 23) r.2 (by omega)
  rw [ehi] at c1 c2
  have hhi : hi.length = 24 := by rw [c2]; simp; omega
  have hlo : r.1.length = 32 := by omega
  obtain ⟨d1, d2⟩ := randInc_spec (hi ++ r.1) ctr hctr
  rw [eall] at d1 d2
  have hall : all.length = 56 := by rw [d2]; simp; omega
  refine ⟨hall, ?_⟩
  have e1 := os2i_take_drop v1 23
  have e2 := os2i_take_drop all 1
  have l1 := os2i_lt (v1.take 23)
  have l2 := os2i_lt (v1.drop 23)
  have l3 := os2i_lt r.1
  have l4 := os2i_lt hi
  have l5 := os2i_lt (all.drop 1)
  have l6 := os2i_lt (all.take 1)
  have l7 := os2i_lt v1
  have l8 := os2i_lt v
  have l9 := os2i_lt cc
  have l10 := os2i_lt h
  have la : (all.drop 1).length = 55 := by rw [List.length_drop]; omega
  have lb : (all.take 1).length = 1 := by rw [List.length_take]; omega
  have c3 : os2i ([0x03] ++ v1.take 23) = 3 * 256 ^ 23 + os2i (v1.take 23) := by
    rw [List.singleton_append, os2i_cons, ht]; rfl
  have c4 : ([0x03] ++ v1.take 23).length = 24 := by simp; omega
  have d3 : (hi ++ r.1).length = 56 := by simp; omega
  rw [c3, c4] at c1
  rw [os2i_append, d3, hlo] at d1
  rw [hd] at b1 l2
  rw [hv] at a1 l8
  rw [hv1] at e1 l7
  rw [hall] at e2
  rw [la] at l5
  rw [lb] at l6
  rw [hlo] at l3
  rw [hhi] at l4
  rw [hc] at l9
  rw [hh] at l10
  rw [ht] at l1
  omega


/-! ### rand_seed and the step / history refinement -/

theorem hashDf_length (hash : Bytes → Bytes) (hlen : ∀ b, (hash b).length = 32) (inp : Bytes) :
    (HashDrbg.hashDf (sparams hash) inp 55).length = 55 := by
  have : (55 + 32 - 1) / 32 = 2 := by decide
  simp only [HashDrbg.hashDf, sparams, this]
  simp [List.range_succ, hlen]

/-- the context written by rand_seed represents the state computed by instantiate / reseed -/
theorem seed_abs (hash : Bytes → Bytes) (hlen : ∀ b, (hash b).length = 32) (inp : Bytes) :
    let v := HashDrbg.hashDf (sparams hash) inp 55
    let cc := HashDrbg.hashDf (sparams hash) ([0x00] ++ v) 55
    Abs { rand := [0x00] ++ v ++ cc, counter := 1, seeded := true }
      { v := os2i v,
        c := os2i (HashDrbg.hashDf (sparams hash) ([0x00] ++ i2os (os2i v) 55) 55), ctr := 1 } := by
  intro v cc
  have hv : v.length = 55 := hashDf_length hash hlen inp
  have hc : cc.length = 55 := hashDf_length hash hlen _
  have e1 : (([0x00] ++ v ++ cc).drop 1).take 55 = v := by
    simp [hv]
  have e2 : (([0x00] ++ v ++ cc).drop 56).take 55 = cc := by
    rw [List.drop_append, List.drop_of_length_le (by simp; omega)]
    simp [hv, ← hc]
  refine ⟨rfl, by simp; omega, ?_, ?_, rfl⟩
  · simp only [e1]
  · simp only [e2, i2os_os2i' v 55 hv]; rfl


/-- first seeding -/
theorem seed_refines (hash : Bytes → Bytes) (hlen : ∀ b, (hash b).length = 32) (d : Bytes) (hd : d ≠ []) :
    (step (mcfg hash) init (.seed d)).2 = (HashDrbg.step (sparams hash) none (.seed d)).2
    ∧ ∃ s', (HashDrbg.step (sparams hash) none (.seed d)).1 = some s' ∧ Abs (step (mcfg hash) init (.seed d)).1 s'
        ∧ s'.ctr = 1 := by
  have hne : d.isEmpty = false := by cases d <;> simp_all
  have hstep : step (mcfg hash) init (.seed d) =
      ({ rand := [0x00] ++ HashDrbg.hashDf (sparams hash) d 55
          ++ HashDrbg.hashDf (sparams hash) ([0x00] ++ HashDrbg.hashDf (sparams hash) d 55) 55,
         counter := 1, seeded := true }, .ok []) := by
    simp only [step, randSeed, hne, init]
    simp only [mcfg, Bool.not_false, if_true, Bool.false_eq_true, if_false]
    rw [← mcfg, randHash_eq_hashDf_all hash hlen, randHash_eq_hashDf_all hash hlen]
  have hspec : HashDrbg.step (sparams hash) none (.seed d) =
      (some (HashDrbg.instantiate (sparams hash) d), .ok []) := by
    simp only [HashDrbg.step, hne, Bool.false_eq_true, if_false]
  rw [hstep, hspec]
  refine ⟨rfl, _, rfl, ?_, rfl⟩
  exact seed_abs hash hlen d


/-- one step of the model refines one step of the specification -/
theorem step_refines (hash : Bytes → Bytes) (hlen : ∀ b, (hash b).length = 32) (x : Ctx) (s : HashDrbg.State)
    (habs : Abs x s) (hctr : s.ctr + 256 < 2 ^ 31) (op : Op) :
    (step (mcfg hash) x op).2 = (HashDrbg.step (sparams hash) (some s) op).2
    ∧ ∃ s', (HashDrbg.step (sparams hash) (some s) op).1 = some s' ∧ Abs (step (mcfg hash) x op).1 s'
        ∧ s'.ctr ≤ s.ctr + 1 := by
  obtain ⟨hseeded, hrl, hV, hC, hK⟩ := habs
  have hvl : ((x.rand.drop 1).take 55).length = 55 := by simp; omega
  have hcl : ((x.rand.drop 56).take 55).length = 55 := by simp; omega
  cases op with
  | seed d =>
    by_cases hne : d.isEmpty = true
    · have h1 : step (mcfg hash) x (.seed d) = (x, .err) := by simp [step, randSeed, hne]
      have h2 : HashDrbg.step (sparams hash) (some s) (.seed d) = (some s, .err) := by
        simp [HashDrbg.step, hne]
      rw [h1, h2]
      exact ⟨rfl, s, rfl, ⟨hseeded, hrl, hV, hC, hK⟩, by omega⟩
    · have hne : d.isEmpty = false := by simpa using hne
      have hstep : step (mcfg hash) x (.seed d) =
          ({ rand := [0x00] ++ HashDrbg.hashDf (sparams hash) ([0x01] ++ (x.rand.drop 1).take 55 ++ d) 55
              ++ HashDrbg.hashDf (sparams hash)
                  ([0x00] ++ HashDrbg.hashDf (sparams hash) ([0x01] ++ (x.rand.drop 1).take 55 ++ d) 55) 55,
             counter := 1, seeded := true }, .ok []) := by
        simp only [step, randSeed, hne, hseeded]
        simp only [mcfg, Bool.not_true, Bool.false_eq_true, if_false]
        rw [← mcfg, randHash_eq_hashDf_all hash hlen, randHash_eq_hashDf_all hash hlen]
      have hspec : HashDrbg.step (sparams hash) (some s) (.seed d) =
          (some (HashDrbg.reseed (sparams hash) s d), .ok []) := by
        simp only [HashDrbg.step, hne, Bool.false_eq_true, if_false]
      have hi : i2os s.v 55 = (x.rand.drop 1).take 55 := by
        rw [← hV]; exact i2os_os2i' _ 55 hvl
      rw [hstep, hspec]
      refine ⟨rfl, _, rfl, ?_, by simp [HashDrbg.reseed]⟩
      have := seed_abs hash hlen ([0x01] ++ (x.rand.drop 1).take 55 ++ d)
      simpa only [HashDrbg.reseed, sparams, hi] using this
  | gen n =>
    by_cases hn : n > 65536
    · have h1 : step (mcfg hash) x (.gen n) = (x, .err) := by simp [step, randBytes, hn]
      have h2 : HashDrbg.step (sparams hash) (some s) (.gen n) = (some s, .err) := by
        simp [HashDrbg.step, HashDrbg.generate, sparams, hn]
      rw [h1, h2]
      exact ⟨rfl, s, rfl, ⟨hseeded, hrl, hV, hC, hK⟩, by omega⟩
    · obtain ⟨hall, hval⟩ := update_spec ((x.rand.drop 1).take 55) ((x.rand.drop 56).take 55)
        (hash ([0x03] ++ (x.rand.drop 1).take 55)) x.counter hvl hcl (hlen _) (by omega)
      generalize hA : nextV ((x.rand.drop 1).take 55) ((x.rand.drop 56).take 55)
        (hash ([0x03] ++ (x.rand.drop 1).take 55)) x.counter = all at hall hval
      have h1 : step (mcfg hash) x (.gen n) =
          ({ rand := all ++ (x.rand.drop 56).take 55, counter := x.counter + 1, seeded := x.seeded },
            .ok (randGen (mcfg hash) ((x.rand.drop 1).take 55) n)) := by
        simp only [step, randBytes_eq, if_neg hn, hA]
      have hi : i2os s.v 55 = (x.rand.drop 1).take 55 := by
        rw [← hV]; exact i2os_os2i' _ 55 hvl
      have h2 : HashDrbg.step (sparams hash) (some s) (.gen n) =
          (some { v := (s.v + os2i (hash ([0x03] ++ (x.rand.drop 1).take 55)) + s.c + s.ctr) % 256 ^ 55,
                  c := s.c, ctr := s.ctr + 1 },
            .ok (HashDrbg.hashgen (sparams hash) s.v n)) := by
        have : ¬ n > (sparams hash).maxReq := hn
        simp only [HashDrbg.step, HashDrbg.generate, if_neg this]
        simp only [sparams, HashDrbg.modulus, hi]
      rw [h1, h2, randGen_eq_hashgen hash hlen _ hvl, hV]
      refine ⟨rfl, _, rfl, ⟨hseeded, by simp; omega, ?_, ?_, by simp [hK]⟩, by simp⟩
      · have e : ((all ++ (x.rand.drop 56).take 55).drop 1).take 55 = all.drop 1 := by
          rw [List.drop_append, List.take_append, List.take_of_length_le (by simp; omega)]
          simp [hall]
        simp only [e, hval, hV, hC, hK]
      · have e : ((all ++ (x.rand.drop 56).take 55).drop 56).take 55 = (x.rand.drop 56).take 55 := by
          rw [List.drop_append, List.drop_of_length_le (by omega)]
          simp [hall, List.take_take]
        simp only [e, hC]


/-- every history from related states yields the same outputs -/
theorem run_refines (hash : Bytes → Bytes) (hlen : ∀ b, (hash b).length = 32) :
    ∀ (ops : List Op) (x : Ctx) (s : HashDrbg.State), Abs x s → s.ctr + ops.length + 256 < 2 ^ 31 →
      run (mcfg hash) x ops = HashDrbg.run (sparams hash) (some s) ops := by
  intro ops
  induction ops with
  | nil => intro x s _ _; rfl
  | cons op ops ih =>
    intro x s habs hlen'
    simp only [List.length_cons] at hlen'
    obtain ⟨h1, s', hs', habs', hc⟩ := step_refines hash hlen x s habs (by omega) op
    simp only [run, HashDrbg.run]
    rw [h1, hs', ih _ s' habs' (by omega)]

end Relic.Model.Drbg
