/- Proofs about Model/NtMod.lean: bn_srt returns ⌊√a⌋ and terminates within the supplied fuel. -/
import RelicVerif.Model.NtMod
import Mathlib.Data.Nat.Sqrt
import Mathlib.Tactic.Linarith
import Mathlib.Tactic.Ring

namespace Relic.Lemmas.NtMod
open Relic.Model.NtMod

/-! ## bn_srt -/

theorem lt_of_sq_bounds {a h l : Nat} (hl : l * l ≤ a) (hh : a < h * h) : l < h := by
  by_contra hc
  have h1 : h ≤ l := Nat.le_of_not_lt hc
  have := Nat.mul_le_mul h1 h1
  omega

/-- last round: the bracket has width one, the midpoint is the lower end -/
theorem srtLoop_last (a fuel h l : Nat) (hl : l * l ≤ a) (hh : a < h * h) (hd : h - l ≤ 1) :
    srtLoop a (fuel + 1) h l = some l ∧ a < (l + 1) * (l + 1) := by
  have hlh := lt_of_sq_bounds hl hh
  have hm : (h + l) / 2 = l := by omega
  have hh1 : h = l + 1 := by omega
  have hd' : ¬ (h - l > 1) := by omega
  subst hh1
  refine ⟨?_, hh⟩
  simp only [srtLoop, hm]
  have h1 : ¬ (l * l > a) := by omega
  simp only [h1, if_false, hd']
  split <;> rfl

/-- the loop invariant l² ≤ a < h², with h - l ≤ 2^fuel, gives the floor square root within fuel + 1 rounds -/
theorem srtLoop_spec (a : Nat) : ∀ (fuel h l : Nat), l * l ≤ a → a < h * h → h - l ≤ 2 ^ fuel →
    ∃ r, srtLoop a (fuel + 1) h l = some r ∧ r * r ≤ a ∧ a < (r + 1) * (r + 1) := by
  intro fuel
  induction fuel with
  | zero =>
    intro h l hl hh hd
    have := srtLoop_last a 0 h l hl hh (by simpa using hd)
    exact ⟨l, this.1, hl, this.2⟩
  | succ n ih =>
    intro h l hl hh hd
    by_cases hd1 : h - l > 1
    · have hlh := lt_of_sq_bounds hl hh
      have hp : 2 ^ (n + 1) = 2 * 2 ^ n := by rw [Nat.pow_succ]; omega
      have hml : l ≤ (h + l) / 2 := by omega
      have hmh : (h + l) / 2 < h := by omega
      rw [srtLoop]
      simp only [hd1, if_true]
      by_cases h1 : (h + l) / 2 * ((h + l) / 2) > a
      · simp only [h1, if_true]
        exact ih ((h + l) / 2) l hl h1 (by omega)
      · simp only [h1, if_false]
        by_cases h2 : (h + l) / 2 * ((h + l) / 2) < a
        · simp only [h2, if_true]
          exact ih h ((h + l) / 2) (by omega) hh (by omega)
        · simp only [h2, if_false]
          refine ⟨(h + l) / 2, rfl, by omega, ?_⟩
          have : (h + l) / 2 * ((h + l) / 2) = a := by omega
          nlinarith
    · have := srtLoop_last a (n + 1) h l hl hh (by omega)
      exact ⟨l, this.1, hl, this.2⟩

theorem bitLen_lt (a : Nat) : a < 2 ^ bitLen a := by
  unfold bitLen
  split
  · subst_vars; simp
  · exact Nat.lt_log2_self

theorem bitLen_le (a : Nat) (h : a ≠ 0) : 2 ^ (bitLen a - 1) ≤ a := by
  unfold bitLen
  simp only [h, if_false, Nat.add_sub_cancel]
  exact Nat.log2_self_le h

theorem pow_half_sq (b : Nat) (hb : b % 2 = 0) : 2 ^ (b / 2) * 2 ^ (b / 2) = 2 ^ b := by
  rw [← Nat.pow_add]; congr 1; omega

/-- the initial bracket of bn_srt satisfies the invariant -/
theorem srtInit_spec (a : Nat) :
    (srtInit a).2.2 * (srtInit a).2.2 ≤ a ∧ a < (srtInit a).2.1 * (srtInit a).2.1 ∧
    (srtInit a).2.1 - (srtInit a).2.2 ≤ 2 ^ ((srtInit a).1 / 2) := by
  simp only [srtInit]
  have heven : (bitLen a + bitLen a % 2) % 2 = 0 := by omega
  refine ⟨?_, ?_, Nat.sub_le _ _⟩
  · split
    · rename_i hb
      have ha : a ≠ 0 := by
        intro h0; subst h0; simp [bitLen] at hb
      have h1 : bitLen a ≥ 1 := by
        unfold bitLen; simp [ha]
      rw [← Nat.pow_add]
      calc 2 ^ ((bitLen a + bitLen a % 2) / 2 - 1 + ((bitLen a + bitLen a % 2) / 2 - 1))
          ≤ 2 ^ (bitLen a - 1) := Nat.pow_le_pow_right (by omega) (by omega)
        _ ≤ a := bitLen_le a ha
    · omega
  · rw [pow_half_sq _ heven]
    calc a < 2 ^ bitLen a := bitLen_lt a
      _ ≤ 2 ^ (bitLen a + bitLen a % 2) := Nat.pow_le_pow_right (by omega) (by omega)

/-- bn_srt on a non-negative argument: terminates within the supplied fuel and returns the floor square root -/
theorem bnSrt_spec (a : Nat) : ∃ r, bnSrt (a : Int) = some r ∧ r * r ≤ a ∧ a < (r + 1) * (r + 1) := by
  have hi := srtInit_spec a
  have := srtLoop_spec a ((srtInit a).1 / 2) (srtInit a).2.1 (srtInit a).2.2 hi.1 hi.2.1 hi.2.2
  simpa [bnSrt, srtFuel] using this

theorem bnSrt_eq_sqrt (a : Nat) : bnSrt (a : Int) = some (Nat.sqrt a) := by
  obtain ⟨r, hr, h1, h2⟩ := bnSrt_spec a
  rw [hr, Nat.eq_sqrt.2 ⟨h1, h2⟩]

theorem bnSrt_neg (a : Int) (h : a < 0) : bnSrt a = none := by
  simp [bnSrt, h]

end Relic.Lemmas.NtMod
