/-
The approximation loop of bn_smb_jac (`inner`): the cofactor matrix never wraps and is 2^s-unimodular.
After consuming i steps from a state whose entries are bounded by 2^k (k + i + 2 ≤ w): entries bounded by 2^(k+i) (so the
two's-complement reinterpretations `wrapS` are the identity all along) and det' = ± 2^i · det.
-/
import Mathlib.Tactic.Ring
import Mathlib.Tactic.Linarith
import RelicVerif.Model.NtSmb

namespace Relic.Lemmas.NtSmb
open Relic.Model.NtSmb

def Bd (B : ℤ) (st : Inner) : Prop :=
  -B ≤ st.ai ∧ st.ai ≤ B ∧ -B ≤ st.bi ∧ st.bi ≤ B ∧ -B ≤ st.ci ∧ st.ci ≤ B ∧ -B ≤ st.di ∧ st.di ≤ B

def det (st : Inner) : ℤ := st.ai * st.di - st.bi * st.ci

theorem wrapS_id {w : ℕ} (hw : 0 < w) {x : ℤ} (h1 : -(2 : ℤ) ^ (w - 1) ≤ x) (h2 : x < (2 : ℤ) ^ (w - 1)) : wrapS w x = x := by
  have hM : (2 : ℤ) ^ w = 2 * 2 ^ (w - 1) := by
    conv_lhs => rw [show w = (w - 1) + 1 by omega]
    rw [pow_succ]; ring
  have hpos : (0 : ℤ) < 2 ^ (w - 1) := by positivity
  unfold wrapS
  simp only []
  by_cases hx : 0 ≤ x
  · rw [Int.emod_eq_of_lt hx (by rw [hM]; linarith)]
    rw [if_neg (by linarith)]
  · have : x % (2 : ℤ) ^ w = x + 2 ^ w := by
      rw [← Int.add_emod_right, Int.emod_eq_of_lt (by rw [hM]; linarith) (by linarith)]
    rw [this, if_pos (by rw [hM]; linarith)]
    ring

theorem tzcnt_pos {w n : ℕ} (hw : 0 < w) (he : n % 2 = 0) : 1 ≤ tzcnt w n := by
  unfold tzcnt
  split
  · exact hw
  · next h => exact tz_pos h he

theorem two_pow_le_half {w j : ℕ} (h : j + 2 ≤ w) : (2 : ℤ) ^ j < 2 ^ (w - 1) := by
  apply pow_lt_pow_right₀ (by norm_num) (by omega)

theorem inner_matrix (w : ℕ) : ∀ (fuel i k : ℕ) (st : Inner), i ≤ fuel → k + i + 2 ≤ w → Bd (2 ^ k) st →
    Bd (2 ^ (k + i)) (inner w fuel i st) ∧
      (det (inner w fuel i st) = 2 ^ i * det st ∨ det (inner w fuel i st) = -(2 ^ i * det st)) := by
  intro fuel
  induction fuel with
  | zero =>
    intro i k st hi _ hb
    have : i = 0 := by omega
    subst this
    simp [inner, hb]
  | succ f ih =>
    intro i k st hi hw hb
    rw [inner]
    by_cases h0 : i = 0
    · subst h0; simp [hb]
    · rw [if_neg h0]
      have hw0 : 0 < w := by omega
      have hk1 : (2 : ℤ) ^ (k + 1) = 2 * 2 ^ k := by rw [pow_succ]; ring
      have hkpos : (0 : ℤ) < 2 ^ k := by positivity
      have hlt : (2 : ℤ) ^ (k + 1) < 2 ^ (w - 1) := two_pow_le_half (by omega)
      by_cases hodd : st.n % 2 = 1
      · rw [if_pos hodd]
        -- the state after the optional swap: same bounds, det negated or kept
        have key : ∀ st1 : Inner, Bd (2 ^ k) st1 → (det st1 = det st ∨ det st1 = -det st) →
            Bd (2 ^ (k + i)) (inner w f (i - 1) { st1 with
              n := (st1.n - st1.d) >>> 1, ai := wrapS w (st1.ai - st1.ci), bi := wrapS w (st1.bi - st1.di),
              ci := wrapS w (st1.ci + st1.ci), di := wrapS w (st1.di + st1.di), t := st1.t ^^^ (st1.d ^^^ (st1.d >>> 1)) }) ∧
            (det (inner w f (i - 1) { st1 with
              n := (st1.n - st1.d) >>> 1, ai := wrapS w (st1.ai - st1.ci), bi := wrapS w (st1.bi - st1.di),
              ci := wrapS w (st1.ci + st1.ci), di := wrapS w (st1.di + st1.di), t := st1.t ^^^ (st1.d ^^^ (st1.d >>> 1)) }) = 2 ^ i * det st ∨
             det (inner w f (i - 1) { st1 with
              n := (st1.n - st1.d) >>> 1, ai := wrapS w (st1.ai - st1.ci), bi := wrapS w (st1.bi - st1.di),
              ci := wrapS w (st1.ci + st1.ci), di := wrapS w (st1.di + st1.di), t := st1.t ^^^ (st1.d ^^^ (st1.d >>> 1)) }) = -(2 ^ i * det st)) := by
          intro st1 hb1 hd1
          obtain ⟨a1, a2, b1, b2, c1, c2, d1, d2⟩ := hb1
          rw [wrapS_id hw0 (x := st1.ai - st1.ci) (by linarith) (by linarith),
              wrapS_id hw0 (x := st1.bi - st1.di) (by linarith) (by linarith),
              wrapS_id hw0 (x := st1.ci + st1.ci) (by linarith) (by linarith),
              wrapS_id hw0 (x := st1.di + st1.di) (by linarith) (by linarith)]
          have := ih (i - 1) (k + 1) { st1 with
              n := (st1.n - st1.d) >>> 1, ai := st1.ai - st1.ci, bi := st1.bi - st1.di,
              ci := st1.ci + st1.ci, di := st1.di + st1.di, t := st1.t ^^^ (st1.d ^^^ (st1.d >>> 1)) } (by omega) (by omega)
            (by unfold Bd; dsimp only; rw [hk1]; refine ⟨?_, ?_, ?_, ?_, ?_, ?_, ?_, ?_⟩ <;> linarith)
          rw [show k + 1 + (i - 1) = k + i by omega] at this
          refine ⟨this.1, ?_⟩
          have hpow : (2 : ℤ) ^ i = 2 ^ (i - 1) * 2 := by
            conv_lhs => rw [show i = (i - 1) + 1 by omega]
            rw [pow_succ]
          have hdet2 : det { st1 with
              n := (st1.n - st1.d) >>> 1, ai := st1.ai - st1.ci, bi := st1.bi - st1.di,
              ci := st1.ci + st1.ci, di := st1.di + st1.di, t := st1.t ^^^ (st1.d ^^^ (st1.d >>> 1)) } = 2 * det st1 := by
            unfold det; dsimp only; ring
          rw [hdet2] at this
          rcases this.2 with e | e <;> rcases hd1 with e1 | e1 <;> rw [e, e1, hpow]
          · left; ring
          · right; ring
          · right; ring
          · left; ring
        split
        · next hsw =>
          exact key { st with ai := st.ci, ci := st.ai, bi := st.di, di := st.bi, n := st.d, d := st.n, t := st.t ^^^ (st.d &&& st.n), swapped := true }
            (by obtain ⟨a1, a2, b1, b2, c1, c2, d1, d2⟩ := hb; exact ⟨c1, c2, d1, d2, a1, a2, b1, b2⟩)
            (by right; unfold det; dsimp only; ring)
        · exact key st hb (Or.inl rfl)
      · rw [if_neg hodd]
        simp only []
        have hz1 : 1 ≤ min i (tzcnt w st.n) := by
          have := tzcnt_pos (w := w) (n := st.n) hw0 (by omega)
          omega
        have hzi : min i (tzcnt w st.n) ≤ i := Nat.min_le_left _ _
        generalize min i (tzcnt w st.n) = z at hz1 hzi
        obtain ⟨a1, a2, b1, b2, c1, c2, d1, d2⟩ := hb
        have hkz : (2 : ℤ) ^ (k + z) = 2 ^ k * 2 ^ z := pow_add _ _ _
        have hzpos : (1 : ℤ) ≤ 2 ^ z := one_le_pow₀ (by norm_num)
        have hltz : (2 : ℤ) ^ (k + z) < 2 ^ (w - 1) := two_pow_le_half (by omega)
        have hc : -(2 : ℤ) ^ (k + z) ≤ st.ci * 2 ^ z ∧ st.ci * 2 ^ z ≤ 2 ^ (k + z) := by
          rw [hkz]; constructor <;> nlinarith
        have hd : -(2 : ℤ) ^ (k + z) ≤ st.di * 2 ^ z ∧ st.di * 2 ^ z ≤ 2 ^ (k + z) := by
          rw [hkz]; constructor <;> nlinarith
        have hmono : (2 : ℤ) ^ k ≤ 2 ^ (k + z) := by rw [hkz]; nlinarith
        rw [wrapS_id hw0 (x := st.ci * 2 ^ z) (by linarith [hc.1]) (by linarith [hc.2]),
            wrapS_id hw0 (x := st.di * 2 ^ z) (by linarith [hd.1]) (by linarith [hd.2])]
        have := ih (i - z) (k + z) { st with
            t := st.t ^^^ ((st.d ^^^ (st.d >>> 1)) &&& (z <<< 1)), ci := st.ci * 2 ^ z, di := st.di * 2 ^ z, n := st.n >>> z }
          (by omega) (by omega)
          (by unfold Bd; dsimp only; exact ⟨by linarith, by linarith, by linarith, by linarith, hc.1, hc.2, hd.1, hd.2⟩)
        rw [show k + z + (i - z) = k + i by omega] at this
        refine ⟨this.1, ?_⟩
        have hpow : (2 : ℤ) ^ i = 2 ^ (i - z) * 2 ^ z := by
          rw [← pow_add]; congr 1; omega
        have hdet2 : det { st with
            t := st.t ^^^ ((st.d ^^^ (st.d >>> 1)) &&& (z <<< 1)), ci := st.ci * 2 ^ z, di := st.di * 2 ^ z, n := st.n >>> z } = 2 ^ z * det st := by
          unfold det; dsimp only; ring
        rw [hdet2] at this
        rcases this.2 with e | e <;> rw [e, hpow]
        · left; ring
        · right; ring

/-- from the identity matrix, s = w/2 - 2 steps: entries bounded by 2^s (no wrap-around ever) and |det| = 2^s -/
theorem inner_from_identity (w n d t : ℕ) (hw : 4 ≤ w) :
    let st := inner w (w / 2 - 2) (w / 2 - 2) { n := n, d := d, t := t, ai := 1, bi := 0, ci := 0, di := 1, swapped := false }
    Bd (2 ^ (w / 2 - 2)) st ∧ (det st = 2 ^ (w / 2 - 2) ∨ det st = -2 ^ (w / 2 - 2)) := by
  have := inner_matrix w (w / 2 - 2) (w / 2 - 2) 0 { n := n, d := d, t := t, ai := 1, bi := 0, ci := 0, di := 1, swapped := false }
    (le_refl _) (by omega) (by unfold Bd; simp)
  simp only [Nat.zero_add] at this
  refine ⟨this.1, ?_⟩
  have hd : det { n := n, d := d, t := t, ai := 1, bi := 0, ci := 0, di := 1, swapped := false } = 1 := by
    unfold det; simp
  rw [hd, mul_one] at this
  exact this.2

end Relic.Lemmas.NtSmb
