/-
Carry/borrow chains: bn_addn_low, bn_add1_low, bn_subn_low, bn_sub1_low compute ℕ addition and
subtraction on digit vectors, for every base B > 1 and every length.
-/
import RelicVerif.Model.BnLow

namespace Relic.Model

theorem val_append (B : Nat) (a b : List Nat) : val B (a ++ b) = val B a + B ^ a.length * val B b := by
  induction a with
  | nil => simp [val]
  | cons x xs ih =>
    simp only [List.cons_append, val, ih, List.length_cons, Nat.pow_succ]
    rw [Nat.mul_add, Nat.mul_comm (B ^ xs.length) B, Nat.mul_assoc]
    omega

theorem val_lt (B : Nat) (a : List Nat) (h : ∀ d ∈ a, d < B) : val B a < B ^ a.length := by
  induction a with
  | nil => simp [val]
  | cons x xs ih =>
    have hx : x < B := h x (by simp)
    have := ih (fun d hd => h d (by simp [hd]))
    simp only [val, List.length_cons, Nat.pow_succ]
    calc x + B * val B xs < B + B * val B xs := by omega
      _ = B * (val B xs + 1) := by rw [Nat.mul_add]; omega
      _ ≤ B * B ^ xs.length := Nat.mul_le_mul_left _ this
      _ = B ^ xs.length * B := Nat.mul_comm _ _

theorem addnLow_spec (B : Nat) (hB : 1 < B) :
    ∀ (a b : List Nat) (carry : Nat), a.length = b.length → carry ≤ 1 →
      (∀ d ∈ a, d < B) → (∀ d ∈ b, d < B) →
      val B (addnLow B a b carry).1 + (addnLow B a b carry).2 * B ^ a.length
        = val B a + val B b + carry ∧ (addnLow B a b carry).2 ≤ 1
      ∧ (∀ d ∈ (addnLow B a b carry).1, d < B) ∧ (addnLow B a b carry).1.length = a.length := by
  intro a
  induction a with
  | nil =>
    intro b carry hl hc _ _
    cases b with
    | nil => simp [addnLow, val, hc]
    | cons _ _ => simp at hl
  | cons x xs ih =>
    intro b carry hl hc ha hb
    cases b with
    | nil => simp at hl
    | cons y ys =>
      simp only [List.length_cons, Nat.add_right_cancel_iff] at hl
      have hx : x < B := ha x (by simp)
      have hy : y < B := hb y (by simp)
      have ha' : ∀ d ∈ xs, d < B := fun d hd => ha d (by simp [hd])
      have hb' : ∀ d ∈ ys, d < B := fun d hd => hb d (by simp [hd])
      have key : ∃ r1 c', r1 < B ∧ c' ≤ 1 ∧ r1 + c' * B = x + y + carry ∧
          addnLow B (x :: xs) (y :: ys) carry =
            (r1 :: (addnLow B xs ys c').1, (addnLow B xs ys c').2) := by
        by_cases h1 : x + y < B
        · have e1 : (x + y) % B = x + y := Nat.mod_eq_of_lt h1
          have i1 : ¬ (x + y < x) := by omega
          by_cases h2 : x + y + carry < B
          · refine ⟨x + y + carry, 0, h2, by omega, by omega, ?_⟩
            have e2 : (x + y + carry) % B = x + y + carry := Nat.mod_eq_of_lt h2
            have i2 : ¬ (x + y + carry < x + y) := by omega
            simp only [addnLow, e1, e2, if_neg i1, if_neg i2]
            rfl
          · refine ⟨x + y + carry - B, 1, by omega, by omega, by omega, ?_⟩
            have e2 : (x + y + carry) % B = x + y + carry - B := by
              rw [Nat.mod_eq_sub_mod (by omega)]; exact Nat.mod_eq_of_lt (by omega)
            have i2 : x + y + carry - B < x + y := by omega
            simp only [addnLow, e1, e2, if_neg i1, if_pos i2]
            rfl
        · have e1 : (x + y) % B = x + y - B := by
            rw [Nat.mod_eq_sub_mod (by omega)]; exact Nat.mod_eq_of_lt (by omega)
          have h3 : x + y - B + carry < B := by omega
          refine ⟨x + y - B + carry, 1, h3, by omega, by omega, ?_⟩
          have e2 : (x + y - B + carry) % B = x + y - B + carry := Nat.mod_eq_of_lt h3
          have i1 : x + y - B < x := by omega
          have i2 : ¬ (x + y - B + carry < x + y - B) := by omega
          simp only [addnLow, e1, e2, if_pos i1, if_neg i2]
          rfl
      obtain ⟨r1, c', hr1, hc', hsum, heq⟩ := key
      obtain ⟨ih1, ih2, ih3, ih4⟩ := ih ys c' hl hc' ha' hb'
      rw [heq]
      refine ⟨?_, ih2, ?_, by simp [ih4]⟩
      · simp only [val, List.length_cons, Nat.pow_succ]
        have : val B (addnLow B xs ys c').1 + (addnLow B xs ys c').2 * B ^ xs.length
            = val B xs + val B ys + c' := ih1
        calc r1 + B * val B (addnLow B xs ys c').1 + (addnLow B xs ys c').2 * (B ^ xs.length * B)
            = r1 + B * (val B (addnLow B xs ys c').1 + (addnLow B xs ys c').2 * B ^ xs.length) := by
              rw [Nat.mul_add]; rw [Nat.mul_comm (B ^ xs.length) B, ← Nat.mul_assoc, Nat.mul_comm _ B, Nat.mul_assoc, Nat.add_assoc]
          _ = r1 + B * (val B xs + val B ys + c') := by rw [this]
          _ = x + B * val B xs + (y + B * val B ys) + carry := by
              rw [Nat.mul_add, Nat.mul_add, Nat.mul_comm B c']; omega
      · intro d hd
        simp at hd
        rcases hd with rfl | hd
        · exact hr1
        · exact ih3 d hd

theorem step_add (B r V co P X c' x c : Nat) (h1 : V + co * P = X + c')
    (h2 : r + c' * B = x + c) : r + B * V + co * (P * B) = x + B * X + c := by
  grind

theorem step_sub (B r V co P X Y c' x y c : Nat) (h1 : V + Y + c' = X + co * P)
    (h2 : r + y + c = x + c' * B) :
    r + B * V + (y + B * Y) + c = x + B * X + co * (P * B) := by
  grind

theorem forall_mem_cons_of {B x : Nat} {xs : List Nat} (hx : x < B) (h : ∀ d ∈ xs, d < B) :
    ∀ d ∈ x :: xs, d < B := by
  intro d hd
  simp at hd
  rcases hd with rfl | hd
  · exact hx
  · exact h d hd

theorem add1Low_aux (B : Nat) (hB : 1 < B) :
    ∀ (a : List Nat) (c : Nat), c < B → (∀ d ∈ a, d < B) →
      val B (add1Low B a c).1 + (add1Low B a c).2 * B ^ a.length = val B a + c
      ∧ (c ≤ 1 → (add1Low B a c).2 ≤ 1) ∧ (a ≠ [] → (add1Low B a c).2 ≤ 1)
      ∧ (∀ d ∈ (add1Low B a c).1, d < B) ∧ (add1Low B a c).1.length = a.length := by
  intro a
  induction a with
  | nil => intro c _ _; simp [add1Low, val]
  | cons x xs ih =>
    intro c hc ha
    have hx : x < B := ha x (by simp)
    have ha' : ∀ d ∈ xs, d < B := fun d hd => ha d (by simp [hd])
    by_cases h0 : c = 0
    · subst h0
      have e : add1Low B (x :: xs) 0 = (x :: xs, 0) := by simp [add1Low]
      rw [e]
      exact ⟨by simp, by simp, by simp, ha, rfl⟩
    · have key : ∃ r0 c', r0 < B ∧ c' ≤ 1 ∧ r0 + c' * B = x + c ∧
          add1Low B (x :: xs) c = (r0 :: (add1Low B xs c').1, (add1Low B xs c').2) := by
        by_cases h1 : x + c < B
        · have e1 : (x + c) % B = x + c := Nat.mod_eq_of_lt h1
          have i1 : ¬ (x + c < c) := by omega
          refine ⟨x + c, 0, h1, by omega, by omega, ?_⟩
          simp only [add1Low, if_neg h0, e1, if_neg i1]
        · have e1 : (x + c) % B = x + c - B := by
            rw [Nat.mod_eq_sub_mod (by omega)]; exact Nat.mod_eq_of_lt (by omega)
          have i1 : x + c - B < c := by omega
          refine ⟨x + c - B, 1, by omega, by omega, by omega, ?_⟩
          simp only [add1Low, if_neg h0, e1, if_pos i1]
      obtain ⟨r0, c', hr0, hc', hsum, heq⟩ := key
      obtain ⟨ih1, ih2, _, ih3, ih4⟩ := ih c' (by omega) ha'
      rw [heq]
      refine ⟨?_, fun _ => ih2 hc', fun _ => ih2 hc', forall_mem_cons_of hr0 ih3, by simp [ih4]⟩
      simp only [val, List.length_cons, Nat.pow_succ]
      exact step_add _ _ _ _ _ _ _ _ _ ih1 hsum

/-- bn_add1_low adds a single digit (any value < B) with carry propagation -/
theorem add1Low_spec (B : Nat) (hB : 1 < B) :
    ∀ (a : List Nat) (c : Nat), c < B → (∀ d ∈ a, d < B) →
      val B (add1Low B a c).1 + (add1Low B a c).2 * B ^ a.length = val B a + c
      ∧ (a ≠ [] → (add1Low B a c).2 ≤ 1)
      ∧ (∀ d ∈ (add1Low B a c).1, d < B) ∧ (add1Low B a c).1.length = a.length := by
  intro a c hc ha
  obtain ⟨h1, _, h2, h3, h4⟩ := add1Low_aux B hB a c hc ha
  exact ⟨h1, h2, h3, h4⟩

/-- bn_subn_low: a - b - borrow_in, with borrow out -/
theorem subnLow_spec (B : Nat) (hB : 1 < B) :
    ∀ (a b : List Nat) (bin : Nat), a.length = b.length → bin ≤ 1 →
      (∀ d ∈ a, d < B) → (∀ d ∈ b, d < B) →
      val B (subnLow B a b bin).1 + val B b + bin = val B a + (subnLow B a b bin).2 * B ^ a.length
      ∧ (subnLow B a b bin).2 ≤ 1
      ∧ (∀ d ∈ (subnLow B a b bin).1, d < B) ∧ (subnLow B a b bin).1.length = a.length := by
  intro a
  induction a with
  | nil =>
    intro b carry hl hc _ _
    cases b with
    | nil => simp [subnLow, val, hc]
    | cons _ _ => simp at hl
  | cons x xs ih =>
    intro b carry hl hc ha hb
    cases b with
    | nil => simp at hl
    | cons y ys =>
      simp only [List.length_cons, Nat.add_right_cancel_iff] at hl
      have hx : x < B := ha x (by simp)
      have hy : y < B := hb y (by simp)
      have ha' : ∀ d ∈ xs, d < B := fun d hd => ha d (by simp [hd])
      have hb' : ∀ d ∈ ys, d < B := fun d hd => hb d (by simp [hd])
      have key : ∃ r0 c', r0 < B ∧ c' ≤ 1 ∧ r0 + y + carry = x + c' * B ∧
          subnLow B (x :: xs) (y :: ys) carry =
            (r0 :: (subnLow B xs ys c').1, (subnLow B xs ys c').2) := by
        by_cases h1 : x < y
        · -- diff = x + B - y, in (0, B)
          have e1 : (x + B - y) % B = x + B - y := Nat.mod_eq_of_lt (by omega)
          have e2 : (x + B - y + B - carry) % B = x + B - y - carry := by
            rw [Nat.mod_eq_sub_mod (by omega)]
            rw [Nat.mod_eq_of_lt (by omega)]; omega
          have i1 : x < y ∨ (carry ≠ 0 ∧ x + B - y = 0) := Or.inl h1
          refine ⟨x + B - y - carry, 1, by omega, by omega, by omega, ?_⟩
          simp only [subnLow, e1, e2, if_pos i1]
        · have e1 : (x + B - y) % B = x - y := by
            rw [Nat.mod_eq_sub_mod (by omega)]
            rw [Nat.mod_eq_of_lt (by omega)]; omega
          by_cases h2 : carry ≠ 0 ∧ x - y = 0
          · have e2 : (x - y + B - carry) % B = B - 1 := by
              rw [Nat.mod_eq_of_lt (by omega)]; omega
            have i1 : x < y ∨ (carry ≠ 0 ∧ x - y = 0) := Or.inr h2
            refine ⟨B - 1, 1, by omega, by omega, by omega, ?_⟩
            simp only [subnLow, e1, e2, if_pos i1]
          · have e2 : (x - y + B - carry) % B = x - y - carry := by
              rw [Nat.mod_eq_sub_mod (by omega)]
              rw [Nat.mod_eq_of_lt (by omega)]; omega
            have i1 : ¬ (x < y ∨ (carry ≠ 0 ∧ x - y = 0)) := by
              intro h; rcases h with h | h
              · exact h1 h
              · exact h2 h
            refine ⟨x - y - carry, 0, by omega, by omega, by omega, ?_⟩
            simp only [subnLow, e1, e2, if_neg i1]
      obtain ⟨r0, c', hr0, hc', hsum, heq⟩ := key
      obtain ⟨ih1, ih2, ih3, ih4⟩ := ih ys c' hl hc' ha' hb'
      rw [heq]
      refine ⟨?_, ih2, forall_mem_cons_of hr0 ih3, by simp [ih4]⟩
      simp only [val, List.length_cons, Nat.pow_succ]
      exact step_sub _ _ _ _ _ _ _ _ _ _ _ ih1 hsum

theorem sub1Low_aux (B : Nat) (hB : 1 < B) :
    ∀ (a : List Nat) (c : Nat), c < B → (∀ d ∈ a, d < B) →
      val B (sub1Low B a c).1 + c = val B a + (sub1Low B a c).2 * B ^ a.length
      ∧ (c ≤ 1 → (sub1Low B a c).2 ≤ 1) ∧ (a ≠ [] → (sub1Low B a c).2 ≤ 1)
      ∧ (∀ d ∈ (sub1Low B a c).1, d < B) ∧ (sub1Low B a c).1.length = a.length := by
  intro a
  induction a with
  | nil => intro c _ _; simp [sub1Low, val]
  | cons x xs ih =>
    intro c hc ha
    have hx : x < B := ha x (by simp)
    have ha' : ∀ d ∈ xs, d < B := fun d hd => ha d (by simp [hd])
    by_cases h0 : c = 0
    · subst h0
      have e : sub1Low B (x :: xs) 0 = (x :: xs, 0) := by simp [sub1Low]
      rw [e]
      exact ⟨by simp, by simp, by simp, ha, rfl⟩
    · have ec : c % B = c := Nat.mod_eq_of_lt hc
      have key : ∃ r0 c', r0 < B ∧ c' ≤ 1 ∧ r0 + c = x + c' * B ∧
          sub1Low B (x :: xs) c = (r0 :: (sub1Low B xs c').1, (sub1Low B xs c').2) := by
        by_cases h1 : x < c
        · have e1 : (x + B - c) % B = x + B - c := Nat.mod_eq_of_lt (by omega)
          have i1 : x + B - c > x := by omega
          refine ⟨x + B - c, 1, by omega, by omega, by omega, ?_⟩
          simp only [sub1Low, if_neg h0, ec, e1, if_pos i1]
        · have e1 : (x + B - c) % B = x - c := by
            rw [Nat.mod_eq_sub_mod (by omega)]
            rw [Nat.mod_eq_of_lt (by omega)]; omega
          have i1 : ¬ (x - c > x) := by omega
          refine ⟨x - c, 0, by omega, by omega, by omega, ?_⟩
          simp only [sub1Low, if_neg h0, ec, e1, if_neg i1]
      obtain ⟨r0, c', hr0, hc', hsum, heq⟩ := key
      obtain ⟨ih1, ih2, _, ih3, ih4⟩ := ih c' (by omega) ha'
      rw [heq]
      refine ⟨?_, fun _ => ih2 hc', fun _ => ih2 hc', forall_mem_cons_of hr0 ih3, by simp [ih4]⟩
      simp only [val, List.length_cons, Nat.pow_succ]
      have := step_sub B r0 (val B (sub1Low B xs c').1) (sub1Low B xs c').2 (B ^ xs.length)
        (val B xs) 0 c' x c 0 (by omega) (by omega)
      omega

/-- bn_sub1_low subtracts a single digit (any value < B) with borrow propagation -/
theorem sub1Low_spec (B : Nat) (hB : 1 < B) :
    ∀ (a : List Nat) (c : Nat), c < B → (∀ d ∈ a, d < B) →
      val B (sub1Low B a c).1 + c = val B a + (sub1Low B a c).2 * B ^ a.length
      ∧ (a ≠ [] → (sub1Low B a c).2 ≤ 1)
      ∧ (∀ d ∈ (sub1Low B a c).1, d < B) ∧ (sub1Low B a c).1.length = a.length := by
  intro a c hc ha
  obtain ⟨h1, _, h2, h3, h4⟩ := sub1Low_aux B hB a c hc ha
  exact ⟨h1, h2, h3, h4⟩

end Relic.Model
