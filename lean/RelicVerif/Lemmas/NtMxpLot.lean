/- bn_mxp_sim_lot (Model/NtMxp.lean: mxpSimLot) = Π a_i^b_i mod m for an odd modulus > 1 and exponents ≥ 0. -/
import RelicVerif.Lemmas.NtMxpFew
import RelicVerif.Lemmas.NtMxpLeg

namespace Relic.Model.NtMxp
open Relic.Model

theorem prodPow_append : ∀ (xs ys : List (Int × Int)), prodPow (xs ++ ys) = prodPow xs * prodPow ys
  | [], ys => by simp [prodPow]
  | x :: xs, ys => by simp [prodPow, prodPow_append xs ys, mul_assoc]

theorem modB_pos (x m : Int) (hm : 0 < m) : modB x m = some (x % m) := by
  unfold modB
  rw [if_neg (by omega), Int.fmod_eq_emod_of_nonneg _ (by omega)]

theorem few_val (w : Nat) (ps : List (Int × Int)) (m : Int) (hm : 1 < m) (hodd : m % 2 = 1) (h0 : ps.length ≠ 0) (h8 : ps.length ≤ 8) :
    mxpSimFew w 0 ps m = some (prodPow ps % m) := by
  have h := mxpSimFew_spec w 0 ps m
  unfold FewSpec at h
  rwa [if_neg (by omega), if_neg h0, if_neg (by omega), if_neg (by omega)] at h

theorem lotBlocks_spec (w : Nat) (m : Int) (hm : 1 < m) (hodd : m % 2 = 1) :
    ∀ (f : Nat) (ps : List (Int × Int)) (c : Int), ps.length < 8 * (f + 1) →
      ∃ c' rest, lotBlocks w m f ps c = some (c', rest) ∧ rest.length < 8 ∧ c' * prodPow rest ≡ c * prodPow ps [ZMOD m] ∧
        (0 ≤ c ∧ c < m → 0 ≤ c' ∧ c' < m) := by
  intro f
  induction f with
  | zero => intro ps c h; exact ⟨c, ps, rfl, by omega, Int.ModEq.refl _, id⟩
  | succ f ih =>
    intro ps c h
    simp only [lotBlocks]
    by_cases h8 : 8 ≤ ps.length
    · have hl : (ps.take 8).length = 8 := by simp; omega
      rw [if_pos h8, few_val w (ps.take 8) m hm hodd (by omega) (by omega), Option.bind_some, modB_pos _ _ (by omega), Option.bind_some]
      obtain ⟨c', rest, e, hr, hc, hrange⟩ := ih (ps.drop 8) (c * (prodPow (ps.take 8) % m) % m) (by simp; omega)
      refine ⟨c', rest, e, hr, hc.trans ?_, fun _ => hrange ⟨Int.emod_nonneg _ (by omega), Int.emod_lt_of_pos _ (by omega)⟩⟩
      have hsplit : prodPow ps = prodPow (ps.take 8) * prodPow (ps.drop 8) := by
        rw [← prodPow_append, List.take_append_drop]
      rw [hsplit]
      have h1 : c * (prodPow (ps.take 8) % m) % m ≡ c * prodPow (ps.take 8) [ZMOD m] :=
        (Int.mod_modEq _ _).trans ((Int.mod_modEq _ _).mul_left c)
      have := h1.mul_right (prodPow (ps.drop 8))
      rwa [mul_assoc] at this
    · rw [if_neg h8]
      exact ⟨c, ps, rfl, by omega, Int.ModEq.refl _, id⟩

theorem mxpSimLot_spec (w : Nat) (ps : List (Int × Int)) (m : Int) (hm : 1 < m) (hodd : m % 2 = 1) (hnn : ∀ p ∈ ps, 0 ≤ p.2) :
    mxpSimLot w ps m = some (prodPow ps % m) := by
  unfold mxpSimLot
  rw [if_neg (by omega)]
  obtain ⟨c', rest, e, hr, hc, hrange⟩ := lotBlocks_spec w m hm hodd ps.length ps 1 (by omega)
  obtain ⟨hc0, hc1⟩ := hrange ⟨by omega, hm⟩
  rw [e, Option.bind_some]
  rw [one_mul] at hc
  -- the remaining pairs are a suffix of ps: their exponents are ≥ 0 — only needed for a single leftover; obtain it from the congruence-free fact below
  have hsuf : ∀ p ∈ rest, 0 ≤ p.2 := by
    -- rest is obtained by dropping blocks
    have : ∀ (f : Nat) (qs : List (Int × Int)) (c c2 : Int) (r : List (Int × Int)),
        lotBlocks w m f qs c = some (c2, r) → ∀ p ∈ r, p ∈ qs := by
      intro f
      induction f with
      | zero => intro qs c c2 r h p hp; simp only [lotBlocks, Option.some.injEq, Prod.mk.injEq] at h; rw [← h.2] at hp; exact hp
      | succ f ih =>
        intro qs c c2 r h p hp
        simp only [lotBlocks] at h
        split at h
        · cases h1 : mxpSimFew w 0 (qs.take 8) m with
          | none => rw [h1] at h; simp at h
          | some t =>
            rw [h1, Option.bind_some] at h
            cases h2 : modB (c * t) m with
            | none => rw [h2] at h; simp at h
            | some cc =>
              rw [h2, Option.bind_some] at h
              exact List.mem_of_mem_drop (ih _ _ _ _ h p hp)
        · simp only [Option.some.injEq, Prod.mk.injEq] at h; rw [← h.2] at hp; exact hp
    intro p hp
    exact hnn p (this _ _ _ _ _ e p hp)
  have fin : ∀ t : Int, t ≡ prodPow rest [ZMOD m] → modB (c' * t) m = some (prodPow ps % m) := by
    intro t ht
    rw [modB_pos _ _ (by omega)]
    congr 1
    exact (ht.mul_left c').trans hc
  match rest, hr, hc, hsuf, fin with
  | [], _, hc, _, _ =>
    simp only [prodPow, mul_one] at hc
    simp only []
    congr 1
    exact canon_unique m c' _ hc0 hc1 (Int.emod_nonneg _ (by omega)) (Int.emod_lt_of_pos _ (by omega)) (hc.trans (Int.mod_modEq _ _).symm)
  | [p], _, _, hs, fin =>
    have hp : 0 ≤ p.2 := hs p (by simp)
    simp only []
    rw [mxpSlide_nonneg w p.1 p.2 m hm hodd hp, Option.bind_some]
    apply fin
    have : p.2.toNat = p.2.natAbs := by omega
    simp only [prodPow, mul_one, this]
    exact Int.mod_modEq _ _
  | p :: q :: r, hr, _, _, fin =>
    simp only []
    rw [few_val w (p :: q :: r) m hm hodd (by simp) (by omega), Option.bind_some]
    exact fin _ (Int.mod_modEq _ _)

end Relic.Model.NtMxp
