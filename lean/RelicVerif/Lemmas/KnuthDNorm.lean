/-
Normalisation step of `divnLow`: both operands are scaled by the same power of two and the divisor
ends up with `B^len ≤ 4 * val` (top digit at least `B/4`).
-/
import RelicVerif.Lemmas.KnuthDFold
namespace Relic.Model

theorem shlN_len_of_lt (w bits : Nat) (x : List Nat)
    (h : val (2 ^ w) (shlN w bits x) < (2 ^ w) ^ (lshbLow w bits x 0).1.length) :
    (shlN w bits x).length = (lshbLow w bits x 0).1.length := by
  unfold shlN at h ⊢
  by_cases hc : (lshbLow w bits x 0).2 = 0
  · rw [if_neg (by simpa using hc)]
  · rw [if_pos hc] at h
    rw [val_append] at h
    simp only [val, Nat.mul_zero, Nat.add_zero] at h
    have : 1 ≤ (lshbLow w bits x 0).2 := by omega
    have := Nat.mul_le_mul_left ((2 ^ w) ^ (lshbLow w bits x 0).1.length) this
    omega

theorem bitsDig_bounds (d : Nat) (hd : 0 < d) :
    2 ^ (bitsDig d - 1) ≤ d ∧ d < 2 ^ bitsDig d ∧ 0 < bitsDig d := by
  unfold bitsDig
  rw [if_neg (by omega)]
  exact ⟨by simpa using Nat.log2_self_le (by omega), Nat.lt_log2_self, by omega⟩

theorem val_lt_top (B : Nat) (hB : 0 < B) (b : List Nat) (hb : ∀ d ∈ b, d < B) (hbne : 0 < b.length) :
    val B b < B ^ (b.length - 1) * (b.getD (b.length - 1) 0 + 1) := by
  have h1 := val_take_drop B (b.length - 1) b
  have h2 := val_drop_succ B (b.length - 1) b
  have : b.drop (b.length - 1 + 1) = [] := by simp; omega
  rw [this] at h2
  simp only [val, Nat.mul_zero, Nat.add_zero] at h2
  rw [h2] at h1
  have h3 := val_take_lt B hB b hb (b.length - 1)
  rw [Nat.mul_add, Nat.mul_one]
  omega

theorem top_pos (b0 : List Nat) (hb0 : b0 ≠ []) (hbt : b0.getLast? ≠ some 0) :
    0 < b0.getD (b0.length - 1) 0 := by
  have hl : 0 < b0.length := List.length_pos_iff.mpr hb0
  rw [List.getLast?_eq_getElem?, List.getElem?_eq_getElem (by omega)] at hbt
  rw [List.getD_eq_getElem?_getD, List.getElem?_eq_getElem (by omega)]
  simp only [Option.getD_some]
  rcases Nat.eq_zero_or_pos (b0[b0.length - 1]'(by omega)) with h | h
  · rw [h] at hbt; exact absurd rfl hbt
  · exact h

theorem pow2_split4 (a b w : Nat) (h : w = 2 + (a + b)) : 2 ^ w = 4 * (2 ^ a * 2 ^ b) := by
  subst h; rw [Nat.pow_add, Nat.pow_add]

theorem pow2_split2 (a b w : Nat) (h : w = 1 + (a + b)) : 2 ^ w = 2 * (2 ^ a * 2 ^ b) := by
  subst h; rw [Nat.pow_add, Nat.pow_add]

theorem normAB_spec (w : Nat) (hw : 2 ≤ w) (a0 b0 : List Nat) (hb0 : b0 ≠ [])
    (hbt : b0.getLast? ≠ some 0) (hda : ∀ d ∈ a0, d < 2 ^ w) (hdb : ∀ d ∈ b0, d < 2 ^ w) :
    normOf w b0 < w
    ∧ val (2 ^ w) (normAB w a0 b0).1 = 2 ^ normOf w b0 * val (2 ^ w) a0
    ∧ val (2 ^ w) (normAB w a0 b0).2 = 2 ^ normOf w b0 * val (2 ^ w) b0
    ∧ (∀ d ∈ (normAB w a0 b0).1, d < 2 ^ w) ∧ (∀ d ∈ (normAB w a0 b0).2, d < 2 ^ w)
    ∧ a0.length ≤ (normAB w a0 b0).1.length ∧ (normAB w a0 b0).1.length ≤ a0.length + 1
    ∧ b0.length ≤ (normAB w a0 b0).2.length ∧ (normAB w a0 b0).2.length ≤ b0.length + 1
    ∧ (2 ^ w) ^ (normAB w a0 b0).2.length ≤ 4 * val (2 ^ w) (normAB w a0 b0).2 := by
  have hl : 0 < b0.length := List.length_pos_iff.mpr hb0
  have hB0 : 0 < 2 ^ w := Nat.pow_pos (by omega)
  have hT0 := top_pos b0 hb0 hbt
  have hTB : b0.getD (b0.length - 1) 0 < 2 ^ w := getD_lt hdb hB0 _
  obtain ⟨hb1, hb2, hb3⟩ := bitsDig_bounds _ hT0
  have hV1 := val_ge_top (2 ^ w) b0 hl
  have hV2 := val_lt_top (2 ^ w) hB0 b0 hdb hl
  have hnw : bitsDig (b0.getD (b0.length - 1) 0) ≤ w := by
    by_contra hcon
    have : 2 ^ w ≤ 2 ^ (bitsDig (b0.getD (b0.length - 1) 0) - 1) :=
      Nat.pow_le_pow_right (by omega) (by omega)
    omega
  -- bounds on val b0 in terms of the bit length of the top digit
  have hlo : (2 ^ w) ^ (b0.length - 1) * 2 ^ (bitsDig (b0.getD (b0.length - 1) 0) - 1)
      ≤ val (2 ^ w) b0 := Nat.le_trans (Nat.mul_le_mul_left _ hb1) hV1
  have hhi : val (2 ^ w) b0
      < (2 ^ w) ^ (b0.length - 1) * 2 ^ bitsDig (b0.getD (b0.length - 1) 0) :=
    Nat.lt_of_lt_of_le hV2 (Nat.mul_le_mul_left _ (by omega))
  have hBsucc : (2 ^ w) ^ b0.length = (2 ^ w) ^ (b0.length - 1) * 2 ^ w := by
    rw [← Nat.pow_succ]; congr 1; omega
  generalize hn : bitsDig (b0.getD (b0.length - 1) 0) = n at hb1 hb2 hb3 hnw hlo hhi
  generalize hP : (2 ^ w) ^ (b0.length - 1) = P at hlo hhi hBsucc hV1 hV2
  have hnb : nbOf w b0 = n % w := by unfold nbOf; rw [hn]
  by_cases h3 : n = w - 1
  · -- no shift
    have hnb' : nbOf w b0 = w - 1 := by rw [hnb, h3]; exact Nat.mod_eq_of_lt (by omega)
    have hnorm : normOf w b0 = 0 := by unfold normOf; rw [hnb', if_neg (by omega)]
    have hab : normAB w a0 b0 = (a0, b0) := by unfold normAB; rw [hnb', if_neg (by omega)]
    rw [hnorm, hab]
    simp only [Nat.pow_zero, Nat.one_mul]
    refine ⟨by omega, trivial, trivial, hda, hdb, by omega, by omega, by omega, by omega, ?_⟩
    rw [hBsucc]
    have e : 2 ^ w = 4 * (2 ^ 0 * 2 ^ (n - 1)) := pow2_split4 0 (n - 1) w (by omega)
    generalize val (2 ^ w) b0 = V0 at *
    rw [e]
    have := Nat.mul_le_mul_left 4 hlo
    simp only [Nat.pow_zero, Nat.one_mul]
    linarith
  · by_cases h1 : n = w
    · -- top digit has all w bits: shift by w - 1, the divisor grows by a digit
      have hnb' : nbOf w b0 = 0 := by rw [hnb, h1]; exact Nat.mod_self w
      have hnorm : normOf w b0 = w - 1 := by unfold normOf; rw [hnb', if_pos (by omega)]; omega
      have hab : normAB w a0 b0 = (shlN w (w - 1) a0, shlN w (w - 1) b0) := by
        unfold normAB; rw [hnb', if_pos (by omega), hnorm]
      obtain ⟨sa1, sa2, sa3, sa4⟩ := shlN_spec w (w - 1) (by omega) (by omega) a0 hda
      obtain ⟨sb1, sb2, sb3, sb4⟩ := shlN_spec w (w - 1) (by omega) (by omega) b0 hdb
      rw [hnorm, hab]
      refine ⟨by omega, sa1, sb1, sa2, sb2, sa3, sa4, sb3, sb4, ?_⟩
      simp only
      have hle : (2 ^ w) ^ (shlN w (w - 1) b0).length ≤ (2 ^ w) ^ (b0.length + 1) :=
        Nat.pow_le_pow_right hB0 sb4
      rw [Nat.pow_succ, hBsucc] at hle
      rw [sb1]
      have e : 2 ^ w = 2 * (2 ^ 0 * 2 ^ (w - 1)) := pow2_split2 0 (w - 1) w (by omega)
      simp only [Nat.pow_zero, Nat.one_mul] at e
      rw [h1] at hlo
      have h5 := Nat.mul_le_mul_left (4 * 2 ^ (w - 1)) hlo
      generalize val (2 ^ w) b0 = V0 at *
      have e2 : P * 2 ^ w * 2 ^ w = 4 * 2 ^ (w - 1) * (P * 2 ^ (w - 1)) := by
        rw [e]; ring
      rw [e2] at hle
      linarith
    · -- generic case: shift so that the top digit has w - 1 bits
      have hnlt : n < w - 1 := by omega
      have hnb' : nbOf w b0 = n := by rw [hnb]; exact Nat.mod_eq_of_lt (by omega)
      have hnorm : normOf w b0 = w - 1 - n := by unfold normOf; rw [hnb', if_pos hnlt]
      have hab : normAB w a0 b0 = (shlN w (w - 1 - n) a0, shlN w (w - 1 - n) b0) := by
        unfold normAB; rw [hnb', if_pos hnlt, hnorm]
      obtain ⟨sa1, sa2, sa3, sa4⟩ := shlN_spec w (w - 1 - n) (by omega) (by omega) a0 hda
      obtain ⟨sb1, sb2, sb3, sb4⟩ := shlN_spec w (w - 1 - n) (by omega) (by omega) b0 hdb
      obtain ⟨_, _, _, ll⟩ := lshbLow_spec w (w - 1 - n) (by omega) (by omega) b0 0
        (Nat.pow_pos (by omega)) hdb
      have e1 : 2 ^ w = 2 * (2 ^ (w - 1 - n) * 2 ^ n) := pow2_split2 _ _ w (by omega)
      have e2 : 2 ^ w = 4 * (2 ^ (w - 1 - n) * 2 ^ (n - 1)) := pow2_split4 _ _ w (by omega)
      have hlt : val (2 ^ w) (shlN w (w - 1 - n) b0) < (2 ^ w) ^ b0.length := by
        rw [sb1, hBsucc]
        have := Nat.mul_lt_mul_of_pos_left hhi (Nat.pow_pos (n := w - 1 - n) (show 0 < 2 by omega))
        have hPpos : 0 < P := by rw [← hP]; exact Nat.pow_pos hB0
        have hpp : 0 < 2 ^ (w - 1 - n) * 2 ^ n := Nat.mul_pos (Nat.pow_pos (by omega)) (Nat.pow_pos (by omega))
        generalize val (2 ^ w) b0 = V0 at *
        rw [e1]
        nlinarith
      have hlenb : (shlN w (w - 1 - n) b0).length = b0.length := by
        have := shlN_len_of_lt w (w - 1 - n) b0 (by rw [ll]; exact hlt)
        rw [this, ll]
      rw [hnorm, hab]
      refine ⟨by omega, sa1, sb1, sa2, sb2, sa3, sa4, sb3, sb4, ?_⟩
      simp only
      rw [hlenb, sb1, hBsucc]
      have h5 := Nat.mul_le_mul_left (4 * 2 ^ (w - 1 - n)) hlo
      generalize val (2 ^ w) b0 = V0 at *
      have e3 : P * 2 ^ w = 4 * 2 ^ (w - 1 - n) * (P * 2 ^ (n - 1)) := by
        rw [e2]; ring
      rw [e3]
      linarith

end Relic.Model
