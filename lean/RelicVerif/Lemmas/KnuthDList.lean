/-
List / `val` lemmas used in the proof of `divnLow_spec`.
-/
import RelicVerif.Lemmas.KnuthDAux

namespace Relic.Model

theorem val_nil (B : Nat) : val B [] = 0 := rfl
theorem val_cons (B d : Nat) (ds : List Nat) : val B (d :: ds) = d + B * val B ds := rfl

theorem val_take_drop (B : Nat) (m : Nat) (a : List Nat) :
    val B a = val B (a.take m) + B ^ m * val B (a.drop m) := by
  induction m generalizing a with
  | zero => simp [val]
  | succ m ih =>
    cases a with
    | nil => simp [val]
    | cons x xs =>
      simp only [List.take_succ_cons, List.drop_succ_cons, val]
      rw [ih xs, Nat.pow_succ]
      ring

theorem val_drop_succ (B : Nat) (m : Nat) (a : List Nat) :
    val B (a.drop m) = a.getD m 0 + B * val B (a.drop (m + 1)) := by
  induction m generalizing a with
  | zero => cases a <;> simp [val]
  | succ m ih =>
    cases a with
    | nil => simp [val]
    | cons x xs =>
      simp only [List.drop_succ_cons]
      rw [ih xs]
      simp

theorem val_replicate_zero (B n : Nat) : val B (List.replicate n 0) = 0 := by
  induction n with
  | zero => rfl
  | succ n ih => simp [List.replicate_succ, val, ih]

theorem val_set (B : Nat) (q : List Nat) (k v : Nat) (hk : k < q.length) :
    val B (q.set k v) + q.getD k 0 * B ^ k = val B q + v * B ^ k := by
  induction q generalizing k with
  | nil => simp at hk
  | cons x xs ih =>
    cases k with
    | zero => simp [val]; omega
    | succ k =>
      simp only [List.length_cons, Nat.add_lt_add_iff_right] at hk
      have := ih k hk
      simp only [List.set_cons_succ, val, Nat.pow_succ]
      have e : (x :: xs).getD (k + 1) 0 = xs.getD k 0 := by simp
      rw [e]
      have h2 : B * (val B (xs.set k v) + xs.getD k 0 * B ^ k) = B * (val B xs + v * B ^ k) := by rw [this]
      nlinarith [h2]

theorem val_drop_eq_zero (B : Nat) (a : List Nat) (m : Nat) (h : val B a < B ^ m) :
    val B (a.drop m) = 0 := by
  have h1 := val_take_drop B m a
  by_contra hne
  have : 1 ≤ val B (a.drop m) := Nat.one_le_iff_ne_zero.mpr hne
  have : B ^ m * 1 ≤ B ^ m * val B (a.drop m) := Nat.mul_le_mul_left _ this
  omega

theorem val_take_of_lt (B : Nat) (a : List Nat) (m : Nat) (h : val B a < B ^ m) :
    val B (a.take m) = val B a := by
  have h1 := val_take_drop B m a
  rw [val_drop_eq_zero B a m h] at h1
  omega

theorem digs_take {B : Nat} {a : List Nat} (h : ∀ d ∈ a, d < B) (m : Nat) : ∀ d ∈ a.take m, d < B :=
  fun d hd => h d (List.mem_of_mem_take hd)

theorem digs_drop {B : Nat} {a : List Nat} (h : ∀ d ∈ a, d < B) (m : Nat) : ∀ d ∈ a.drop m, d < B :=
  fun d hd => h d (List.mem_of_mem_drop hd)

theorem digs_append {B : Nat} {a b : List Nat} (ha : ∀ d ∈ a, d < B) (hb : ∀ d ∈ b, d < B) :
    ∀ d ∈ a ++ b, d < B := by
  intro d hd
  rcases List.mem_append.mp hd with h | h
  · exact ha d h
  · exact hb d h

theorem digs_set {B : Nat} {a : List Nat} (h : ∀ d ∈ a, d < B) (k v : Nat) (hv : v < B) :
    ∀ d ∈ a.set k v, d < B := by
  intro d hd
  rcases List.mem_or_eq_of_mem_set hd with h1 | h1
  · exact h d h1
  · exact h1 ▸ hv

theorem digs_replicate_zero {B : Nat} (hB : 0 < B) (n : Nat) : ∀ d ∈ List.replicate n 0, d < B := by
  intro d hd
  rw [List.mem_replicate] at hd
  omega

theorem getD_lt {B : Nat} {a : List Nat} (h : ∀ d ∈ a, d < B) (hB : 0 < B) (i : Nat) : a.getD i 0 < B := by
  rw [List.getD_eq_getElem?_getD]
  by_cases hi : i < a.length
  · rw [List.getElem?_eq_getElem hi]
    exact h _ (List.getElem_mem hi)
  · rw [List.getElem?_eq_none (by omega)]
    exact hB

/-- decomposition of a list into a window and its surroundings -/
theorem window_decomp (a : List Nat) (k n : Nat) (h : k + n ≤ a.length) :
    ∃ lo mid hi, a = lo ++ mid ++ hi ∧ lo.length = k ∧ mid.length = n := by
  refine ⟨a.take k, (a.drop k).take n, (a.drop k).drop n, ?_, ?_, ?_⟩
  · rw [List.append_assoc, List.take_append_drop, List.take_append_drop]
  · simp; omega
  · simp; omega

theorem splice_window (lo mid hi seg : List Nat) (k : Nat) (hlo : lo.length = k)
    (hseg : seg.length = mid.length) : splice (lo ++ mid ++ hi) k seg = lo ++ seg ++ hi := by
  subst hlo
  unfold splice
  simp [hseg]

theorem window_take (lo mid hi : List Nat) (k n : Nat) (hlo : lo.length = k) (hmid : mid.length = n) :
    ((lo ++ mid ++ hi).drop k).take n = mid := by
  subst hlo hmid
  simp

theorem window_drop (lo mid hi : List Nat) (m : Nat) (h : lo.length + mid.length = m) :
    (lo ++ mid ++ hi).drop m = hi := by
  subst h
  rw [← List.length_append]
  simp

theorem splice_tail (lo hi seg : List Nat) (m : Nat) (hlo : lo.length = m)
    (hseg : seg.length = hi.length) : splice (lo ++ hi) m seg = lo ++ seg := by
  subst hlo
  unfold splice
  simp [hseg]

theorem drop_tail (lo hi : List Nat) (m : Nat) (hlo : lo.length = m) : (lo ++ hi).drop m = hi := by
  subst hlo; simp

theorem winSub_spec (B : Nat) (hB : 1 < B) (a : List Nat) (k : Nat) (d : List Nat)
    (hlen : k + d.length ≤ a.length) (ha : ∀ x ∈ a, x < B) (hd : ∀ x ∈ d, x < B) :
    val B (winSub B a.length a k d).1 + B ^ k * val B d
        = val B a + (winSub B a.length a k d).2 * B ^ a.length
    ∧ (winSub B a.length a k d).2 ≤ 1
    ∧ (∀ x ∈ (winSub B a.length a k d).1, x < B) ∧ (winSub B a.length a k d).1.length = a.length := by
  obtain ⟨lo, mid, hi, rfl, hlo, hmid⟩ := window_decomp a k d.length hlen
  have hdlo : ∀ x ∈ lo, x < B := fun x hx => ha x (by simp [hx])
  have hdmid : ∀ x ∈ mid, x < B := fun x hx => ha x (by simp [hx])
  have hdhi : ∀ x ∈ hi, x < B := fun x hx => ha x (by simp [hx])
  obtain ⟨s1, s2, s3, s4⟩ := subnLow_spec B hB mid d 0 hmid (by omega) hdmid hd
  unfold winSub
  rw [window_take lo mid hi k d.length hlo hmid]
  rw [splice_window lo mid hi _ k hlo s4]
  generalize subnLow B mid d 0 = s at s1 s2 s3 s4 ⊢
  obtain ⟨seg, c1⟩ := s
  simp only at s1 s2 s3 s4 ⊢
  have hlen2 : (lo ++ seg).length = d.length + k := by simp [hlo, s4, hmid]; omega
  rw [drop_tail (lo ++ seg) hi (d.length + k) hlen2]
  by_cases hh : hi = []
  · subst hh
    have : ¬ ((lo ++ mid ++ []).length > d.length + k) := by simp [hlo, hmid]; omega
    rw [if_neg this]
    simp only [List.append_nil]
    refine ⟨?_, s2, digs_append hdlo s3, by simp [s4]⟩
    simp only [val_append, List.length_append, hlo, hmid]
    rw [Nat.pow_add]
    rw [hmid] at s1
    have h1 := congrArg (fun x => B ^ k * x) s1
    beta_reduce at h1
    linarith [h1]
  · have hpos : 0 < hi.length := List.length_pos_iff.mpr hh
    have : (lo ++ mid ++ hi).length > d.length + k := by simp [hlo, hmid]; omega
    rw [if_pos this]
    obtain ⟨u1, u2, u3, u4⟩ := sub1Low_spec B hB hi c1 (by omega) hdhi
    rw [splice_tail (lo ++ seg) hi _ (d.length + k) hlen2 u4]
    generalize sub1Low B hi c1 = s at u1 u2 u3 u4 ⊢
    obtain ⟨seg2, c2⟩ := s
    simp only at u1 u2 u3 u4 ⊢
    refine ⟨?_, u2 hh, digs_append (digs_append hdlo s3) u3, by simp [s4, u4]⟩
    simp only [val_append, List.length_append, hlo, hmid, s4]
    simp only [Nat.pow_add]
    rw [hmid] at s1
    have h1 := congrArg (fun x => B ^ k * x) s1
    have h2 := congrArg (fun x => B ^ k * B ^ d.length * x) u1
    beta_reduce at h1 h2
    linarith [h1, h2]

theorem winAdd_spec (B : Nat) (hB : 1 < B) (a : List Nat) (k : Nat) (b : List Nat)
    (hlen : k + b.length ≤ a.length) (ha : ∀ x ∈ a, x < B) (hb : ∀ x ∈ b, x < B) :
    (∃ c, val B (winAdd B a k b) + c * B ^ a.length = val B a + B ^ k * val B b)
    ∧ (∀ x ∈ winAdd B a k b, x < B) ∧ (winAdd B a k b).length = a.length := by
  obtain ⟨lo, mid, hi, rfl, hlo, hmid⟩ := window_decomp a k b.length hlen
  have hdlo : ∀ x ∈ lo, x < B := fun x hx => ha x (by simp [hx])
  have hdmid : ∀ x ∈ mid, x < B := fun x hx => ha x (by simp [hx])
  have hdhi : ∀ x ∈ hi, x < B := fun x hx => ha x (by simp [hx])
  obtain ⟨s1, s2, s3, s4⟩ := addnLow_spec B hB mid b 0 hmid (by omega) hdmid hb
  unfold winAdd
  rw [window_take lo mid hi k b.length hlo hmid]
  rw [splice_window lo mid hi _ k hlo s4]
  generalize addnLow B mid b 0 = s at s1 s2 s3 s4 ⊢
  obtain ⟨seg, c1⟩ := s
  simp only at s1 s2 s3 s4 ⊢
  have hlen2 : (lo ++ seg).length = b.length + k := by simp [hlo, s4, hmid]; omega
  rw [drop_tail (lo ++ seg) hi (b.length + k) hlen2]
  obtain ⟨u1, u2, u3, u4⟩ := add1Low_spec B hB hi c1 (by omega) hdhi
  rw [splice_tail (lo ++ seg) hi _ (b.length + k) hlen2 u4]
  generalize add1Low B hi c1 = s at u1 u2 u3 u4 ⊢
  obtain ⟨seg2, c2⟩ := s
  simp only at u1 u2 u3 u4 ⊢
  refine ⟨⟨c2, ?_⟩, digs_append (digs_append hdlo s3) u3, by simp [s4, u4]⟩
  simp only [val_append, List.length_append, hlo, hmid, s4]
  simp only [Nat.pow_add]
  rw [hmid] at s1
  have h1 := congrArg (fun x => B ^ k * x) s1
  have h2 := congrArg (fun x => B ^ k * B ^ b.length * x) u1
  beta_reduce at h1 h2
  linarith [h1, h2]

theorem mulD_spec (B : Nat) (hB : 1 < B) (b : List Nat) (q : Nat) (hq : q < B) (hb : ∀ x ∈ b, x < B) :
    val B (mulD B b q) = val B b * q ∧ (∀ x ∈ mulD B b q, x < B)
    ∧ b.length ≤ (mulD B b q).length ∧ (mulD B b q).length ≤ b.length + 1 := by
  obtain ⟨s1, s2, s3, s4⟩ := mul1Low_spec B hB b q 0 hq (by omega) hb
  unfold mulD
  generalize mul1Low B b q 0 = s at s1 s2 s3 s4 ⊢
  obtain ⟨d, c⟩ := s
  simp only at s1 s2 s3 s4 ⊢
  by_cases hc : c = 0
  · subst hc
    simp only [ne_eq, not_true_eq_false, if_false]
    exact ⟨by omega, s3, by omega, by omega⟩
  · rw [if_pos hc]
    refine ⟨?_, digs_append s3 (by simpa using s2), by simp [s4], by simp [s4]⟩
    rw [val_append, s4]
    simp only [val]
    linarith [s1]

theorem shlN_spec (w bits : Nat) (hb0 : 0 < bits) (hbw : bits < w) (x : List Nat)
    (hx : ∀ d ∈ x, d < 2 ^ w) :
    val (2 ^ w) (shlN w bits x) = 2 ^ bits * val (2 ^ w) x ∧ (∀ d ∈ shlN w bits x, d < 2 ^ w)
    ∧ x.length ≤ (shlN w bits x).length ∧ (shlN w bits x).length ≤ x.length + 1 := by
  obtain ⟨s1, s2, s3, s4⟩ := lshbLow_spec w bits hb0 hbw x 0 (Nat.pow_pos (by omega)) hx
  unfold shlN
  generalize lshbLow w bits x 0 = s at s1 s2 s3 s4 ⊢
  obtain ⟨d, c⟩ := s
  simp only at s1 s2 s3 s4 ⊢
  have hc2 : c < 2 ^ w := Nat.lt_trans s2 (Nat.pow_lt_pow_right (by omega) hbw)
  by_cases hc : c = 0
  · subst hc
    simp only [ne_eq, not_true_eq_false, if_false]
    exact ⟨by omega, s3, by omega, by omega⟩
  · rw [if_pos hc]
    refine ⟨?_, digs_append s3 (by simpa using hc2), by simp [s4], by simp [s4]⟩
    rw [val_append, s4]
    simp only [val]
    linarith [s1]

end Relic.Model
