/-
fp_smb_basic = Legendre symbol; fp_srt (p ≡ 3 mod 4 branch and the constant-time Tonelli–Shanks branch) returns a root
exactly when one exists, and the returned value squares to the operand.
-/
import Mathlib.Data.ZMod.Basic
import Mathlib.FieldTheory.Finite.Basic
import Mathlib.Algebra.Field.ZMod
import Mathlib.NumberTheory.LegendreSymbol.Basic
import Mathlib.Tactic.Ring
import Mathlib.Tactic.Linarith
import RelicVerif.Model.FpAlg
import RelicVerif.Lemmas.FpAlgExp
import RelicVerif.Lemmas.FpAlgInv
import RelicVerif.Lemmas.FpAlgInv2

namespace Relic.Model.FpAlg
open Relic.Model.Rec

/-- the precomputed data of the square-root routine: p − 1 = 2^f·q with q odd, z a primitive 2^f-th root of unity -/
structure Ctx.WFsrt (c : Ctx) : Prop extends c.WF where
  fpos : 0 < c.f
  fq : ∃ q, q % 2 = 1 ∧ c.p - 1 = 2 ^ c.f * q
  zlt : c.z < c.p
  zord : c.p % 4 = 1 → c.z ^ (2 ^ (c.f - 1)) % c.p = c.p - 1

/-! ### helpers -/

-- `bitLen_le_of_lt` (n < 2^k → bitLen n ≤ k) is in Lemmas/FpAlgInv2.lean

theorem exp_ok (c : Ctx) (h : c.WF) (a e : Nat) (ha : a < c.p) (he : e ≤ c.p) :
    fpExpNat c a e = some (a ^ e % c.p) :=
  fpExpNat_spec c a e ha h.width (by
    have : bitLen e ≤ c.fb := bitLen_le_of_lt (lt_of_le_of_lt he h.fbits)
    omega)

theorem cast_inj_of_lt {p x y : Nat} (hx : x < p) (hy : y < p) (h : (x : ZMod p) = y) : x = y := by
  have h' := congrArg ZMod.val h
  rwa [ZMod.val_natCast, ZMod.val_natCast, Nat.mod_eq_of_lt hx, Nat.mod_eq_of_lt hy] at h'

theorem cast_eq_zero_iff_of_lt {p a : Nat} (ha : a < p) : (a : ZMod p) = 0 ↔ a = 0 := by
  rw [ZMod.natCast_eq_zero_iff]
  constructor
  · intro hd; exact Nat.eq_zero_of_dvd_of_lt hd ha
  · rintro rfl; exact dvd_zero _

theorem cast_pred (p : Nat) (hp : 0 < p) : ((p - 1 : Nat) : ZMod p) = -1 := by
  rw [Nat.cast_sub hp, ZMod.natCast_self]; simp

theorem cast_fneg (p r : Nat) (hr : r ≤ p) : ((fneg p r : Nat) : ZMod p) = -(r : ZMod p) := by
  unfold fneg
  rw [ZMod.natCast_mod, Nat.cast_sub hr, ZMod.natCast_self, zero_sub]

theorem cast_fmul (p x y : Nat) : ((fmul p x y : Nat) : ZMod p) = (x : ZMod p) * y := by
  unfold fmul
  rw [ZMod.natCast_mod, Nat.cast_mul]

theorem cast_fsqr (p x : Nat) : ((fsqr p x : Nat) : ZMod p) = (x : ZMod p) ^ 2 := by
  unfold fsqr
  rw [ZMod.natCast_mod, Nat.cast_mul, sq]

theorem cast_powmod (p a e : Nat) : ((a ^ e % p : Nat) : ZMod p) = (a : ZMod p) ^ e := by
  rw [ZMod.natCast_mod, Nat.cast_pow]

theorem sq_of_cast {p x a : Nat} (ha : a < p) (h : (x : ZMod p) ^ 2 = a) : x * x % p = a := by
  have hp : 0 < p := by omega
  apply cast_inj_of_lt (p := p) (Nat.mod_lt _ hp) ha
  rw [ZMod.natCast_mod, Nat.cast_mul, ← sq, h]

theorem isSquare_iff (p : Nat) [NeZero p] (a : Nat) (ha : a < p) :
    IsSquare (a : ZMod p) ↔ ∃ y : Nat, y * y % p = a := by
  constructor
  · rintro ⟨r, hr⟩
    refine ⟨r.val, ?_⟩
    apply sq_of_cast ha
    rw [ZMod.natCast_zmod_val, hr, sq]
  · rintro ⟨y, hy⟩
    refine ⟨(y : ZMod p), ?_⟩
    rw [← hy, ZMod.natCast_mod, Nat.cast_mul]

theorem euler_val (p : Nat) [Fact p.Prime] (hp : p % 2 = 1) (a : Nat) (ha : a < p) :
    (a = 0 ∧ a ^ (p / 2) % p = 0 ∧ legendreSym p a = 0) ∨
    (a ≠ 0 ∧ a ^ (p / 2) % p = 1 ∧ legendreSym p a = 1) ∨
    (a ≠ 0 ∧ a ^ (p / 2) % p = p - 1 ∧ legendreSym p a = -1) := by
  have hp2 := (Fact.out : p.Prime).two_le
  have hp3 : 3 ≤ p := by omega
  by_cases h0 : a = 0
  · left
    subst h0
    refine ⟨rfl, ?_, ?_⟩
    · rw [Nat.zero_pow (by omega)]; simp
    · simp
  · right
    have hx : ((a : ℤ) : ZMod p) ≠ 0 := by
      rw [Int.cast_natCast, Ne, cast_eq_zero_iff_of_lt ha]; exact h0
    have hpow := legendreSym.eq_pow p (a : ℤ)
    have hcast : ((a ^ (p / 2) % p : Nat) : ZMod p) = (legendreSym p a : ZMod p) := by
      rw [hpow, cast_powmod, Int.cast_natCast]
    rcases legendreSym.eq_one_or_neg_one p hx with h1 | h1
    · left
      refine ⟨h0, ?_, h1⟩
      rw [h1] at hcast
      apply cast_inj_of_lt (p := p) (Nat.mod_lt _ (by omega)) (by omega)
      simpa using hcast
    · right
      refine ⟨h0, ?_, h1⟩
      rw [h1] at hcast
      apply cast_inj_of_lt (p := p) (Nat.mod_lt _ (by omega)) (by omega)
      rw [hcast, cast_pred p (by omega)]; simp

/-- fp_smb_basic (and fp_smbm_low): the Legendre symbol -/
theorem smbBasic_spec (c : Ctx) (h : c.WF) (a : Nat) (ha : a < c.p) :
    haveI := Fact.mk h.prime
    smbBasic c a = some (legendreSym c.p a) := by
  have := Fact.mk h.prime
  have hp2 := h.prime.two_le
  have hodd := h.odd
  have hp3 : 3 ≤ c.p := by omega
  have he : (c.p - 1) / 2 = c.p / 2 := by omega
  have hexp := exp_ok c h a ((c.p - 1) / 2) ha (by omega)
  unfold smbBasic
  rw [hexp, he]
  rcases euler_val c.p hodd a ha with ⟨_, ht, hl⟩ | ⟨_, ht, hl⟩ | ⟨_, ht, hl⟩
  · simp only [ht, hl, fneg]
    simp [Nat.mod_self]
  · simp only [ht, hl]
    simp
  · have h1 : c.p - 1 ≠ 1 := by omega
    have h2 : fneg c.p (c.p - 1) = 1 := by
      unfold fneg
      have : c.p - (c.p - 1) = 1 := by omega
      rw [this, Nat.mod_eq_of_lt (by omega)]
    simp only [ht, hl, h2, if_neg h1]
    simp

/-- elementary form: 0 for zero, 1 for non-zero squares, −1 otherwise -/
theorem smbBasic_elem (c : Ctx) (h : c.WF) (a : Nat) (ha : a < c.p) :
    ∃ s, smbBasic c a = some s ∧ (s = 0 ↔ a = 0) ∧ (s = 1 ↔ a ≠ 0 ∧ ∃ y, y * y % c.p = a) ∧ (s = 0 ∨ s = 1 ∨ s = -1) := by
  have := Fact.mk h.prime
  refine ⟨legendreSym c.p a, smbBasic_spec c h a ha, ?_, ?_, ?_⟩
  · rw [legendreSym.eq_zero_iff, Int.cast_natCast, cast_eq_zero_iff_of_lt ha]
  · by_cases h0 : a = 0
    · subst h0; simp
    · have hx : ((a : ℤ) : ZMod c.p) ≠ 0 := by
        rw [Int.cast_natCast, Ne, cast_eq_zero_iff_of_lt ha]; exact h0
      rw [legendreSym.eq_one_iff c.p hx, Int.cast_natCast, isSquare_iff c.p a ha]
      simp [h0]
  · rcases euler_val c.p h.odd a ha with ⟨_, _, hl⟩ | ⟨_, _, hl⟩ | ⟨_, _, hl⟩
    · exact Or.inl hl
    · exact Or.inr (Or.inl hl)
    · exact Or.inr (Or.inr hl)

/-- fp_is_sqr (with the symbol computed by Euler's criterion) -/
theorem isSqr_spec (c : Ctx) (h : c.WF) (a : Nat) (ha : a < c.p) :
    ∃ b, isSqr c a = some b ∧ (b = true ↔ ∃ y, y * y % c.p = a) := by
  obtain ⟨s, hs, _, h1, _⟩ := smbBasic_elem c h a ha
  unfold isSqr
  by_cases h0 : a = 0
  · subst h0
    refine ⟨true, by simp, ?_⟩
    simp only [true_iff]
    exact ⟨0, by simp⟩
  · rw [if_neg h0, hs]
    refine ⟨s == 1, rfl, ?_⟩
    rw [beq_iff_eq, h1]
    simp [h0]

theorem fmul_lt (p x y : Nat) (hp : 0 < p) : fmul p x y < p := Nat.mod_lt _ hp

theorem sqrN_lt (p : Nat) : ∀ n r, r < p → sqrN p n r < p
  | 0, _, h => h
  | n + 1, r, h => sqrN_lt p n (fsqr p r) (Nat.mod_lt _ (by omega))

theorem cast_sqrN (p : Nat) : ∀ n r, ((sqrN p n r : Nat) : ZMod p) = (r : ZMod p) ^ (2 ^ n)
  | 0, r => by simp [sqrN]
  | n + 1, r => by
    show ((sqrN p n (fsqr p r) : Nat) : ZMod p) = _
    rw [cast_sqrN p n, cast_fsqr, ← pow_mul, ← pow_succ']

/-- the loop invariant of the constant-time Tonelli–Shanks loop: c² = a·t1, t1^(2^k) = 1, t3^(2^k) = −1 -/
theorem tsLoop_spec (p : Nat) [Fact p.Prime] (hp : 2 < p) (A : ZMod p) :
    ∀ (k c t1 t3 : Nat), c < p → t1 < p → (c : ZMod p) ^ 2 = A * t1 → (t1 : ZMod p) ^ (2 ^ k) = 1 →
      (t3 : ZMod p) ^ (2 ^ k) = -1 →
      tsLoop p k c t1 t3 < p ∧ ((tsLoop p k c t1 t3 : Nat) : ZMod p) ^ 2 = A := by
  intro k
  induction k with
  | zero =>
    intro c t1 t3 hc ht1 h1 h2 h3
    simp only [pow_zero, pow_one] at h2
    refine ⟨hc, ?_⟩
    show (c : ZMod p) ^ 2 = A
    rw [h1, h2, mul_one]
  | succ k ih =>
    intro c t1 t3 hc ht1 h1 h2 h3
    have hp0 : 0 < p := by omega
    have h1p : 1 % p = 1 := Nat.mod_eq_of_lt (by omega)
    have hunf : tsLoop p (k + 1) c t1 t3 =
        tsLoop p k (if sqrN p k t1 ≠ 1 % p then fmul p c t3 else c)
          (if sqrN p k t1 ≠ 1 % p then fmul p t1 (fsqr p t3) else t1) (fsqr p t3) := rfl
    rw [hunf, h1p]
    have hT2 := cast_sqrN p k t1
    have h3' : ((fsqr p t3 : Nat) : ZMod p) ^ (2 ^ k) = -1 := by
      rw [cast_fsqr, ← pow_mul, ← pow_succ']; exact h3
    by_cases ht2 : sqrN p k t1 = 1
    · rw [if_neg (not_not.2 ht2), if_neg (not_not.2 ht2)]
      apply ih c t1 _ hc ht1 h1 _ h3'
      rw [← hT2, ht2, Nat.cast_one]
    · rw [if_pos ht2, if_pos ht2]
      have hsq : ((sqrN p k t1 : Nat) : ZMod p) * (sqrN p k t1 : Nat) = 1 := by
        rw [hT2, ← pow_two, ← pow_mul, ← pow_succ]; exact h2
      have hneg : (t1 : ZMod p) ^ (2 ^ k) = -1 := by
        rcases mul_self_eq_one_iff.1 hsq with h | h
        · exfalso; apply ht2
          apply cast_inj_of_lt (p := p) (sqrN_lt p k t1 ht1) (by omega)
          rw [h, Nat.cast_one]
        · rw [← hT2, h]
      apply ih _ _ _ (fmul_lt _ _ _ hp0) (fmul_lt _ _ _ hp0) _ _ h3'
      · rw [cast_fmul, cast_fmul, cast_fsqr, mul_pow, h1]; ring
      · rw [cast_fmul, mul_pow, hneg, h3']; ring

/-- fp_srt: the flag is 1 exactly when the operand is a square, and then the value left in c is a canonical root -/
theorem srt_spec (c : Ctx) (h : c.WFsrt) (a : Nat) (ha : a < c.p) :
    ∃ r x, srt c a = some (r, x) ∧ (r = true ↔ ∃ y, y * y % c.p = a) ∧ (r = true → x < c.p ∧ x * x % c.p = a) := by
  have hW := h.toWF
  have := Fact.mk hW.prime
  have hp2 := hW.prime.two_le
  have hodd := hW.odd
  have hp3 : 3 ≤ c.p := by omega
  by_cases h0 : a = 0
  · subst h0
    refine ⟨true, 0, by simp [srt], ?_, ?_⟩
    · simp only [true_iff]; exact ⟨0, by simp⟩
    · intro _; exact ⟨by omega, by simp⟩
  have hx : (a : ZMod c.p) ≠ 0 := by rw [Ne, cast_eq_zero_iff_of_lt ha]; exact h0
  by_cases h3 : c.p % 4 = 3
  · have he : (c.p + 1) >>> 2 = c.p / 4 + 1 := by rw [Nat.shiftRight_eq_div_pow]; omega
    have hexp := exp_ok c hW a ((c.p + 1) >>> 2) ha (by rw [he]; omega)
    have hsrt : srt c a = some (fsqr c.p (a ^ ((c.p + 1) >>> 2) % c.p) == a,
        a ^ ((c.p + 1) >>> 2) % c.p) := by
      unfold srt
      simp only [if_neg h0, if_pos h3, hexp]
    rw [hsrt, he]
    have hT0 : ((a ^ (c.p / 4 + 1) % c.p : Nat) : ZMod c.p) = (a : ZMod c.p) ^ (c.p / 4 + 1) :=
      cast_powmod _ _ _
    refine ⟨_, _, rfl, ?_, ?_⟩
    · rw [beq_iff_eq]
      constructor
      · intro hh; exact ⟨_, hh⟩
      · intro hy
        have hsq := (isSquare_iff c.p a ha).2 hy
        have he1 := (ZMod.euler_criterion c.p hx).1 hsq
        unfold fsqr
        apply sq_of_cast ha
        rw [hT0, ← pow_mul]
        have : (c.p / 4 + 1) * 2 = c.p / 2 + 1 := by omega
        rw [this, pow_succ, he1, one_mul]
    · intro hh
      rw [beq_iff_eq] at hh
      exact ⟨Nat.mod_lt _ (by omega), hh⟩
  · obtain ⟨q, hqodd, hq⟩ := h.fq
    have hfpos := h.fpos
    have hf : c.f = (c.f - 1) + 1 := by omega
    have h2f : 2 ^ c.f = 2 * 2 ^ (c.f - 1) := by
      conv_lhs => rw [hf, pow_succ']
    have hmpos : 0 < 2 ^ (c.f - 1) := Nat.two_pow_pos _
    have hpq : c.p = 2 ^ c.f * q + 1 := by omega
    have hshift : c.p >>> c.f = q := by
      rw [Nat.shiftRight_eq_div_pow]
      conv_lhs => rw [hpq]
      have h1lt : 1 < 2 ^ c.f := by omega
      rw [Nat.mul_add_div (by omega), Nat.div_eq_of_lt h1lt, Nat.add_zero]
    have hshift2 : (c.p >>> c.f) >>> 1 = q / 2 := by
      rw [hshift, Nat.shiftRight_eq_div_pow, pow_one]
    have hq2 : q = 2 * (q / 2) + 1 := by omega
    have hqle : q ≤ c.p := by
      have : q ≤ 2 ^ c.f * q := Nat.le_mul_of_pos_left _ (by omega)
      omega
    have hexp := exp_ok c hW a (q / 2) ha (by omega)
    obtain ⟨b, hb, hbiff⟩ := isSqr_spec c hW a ha
    have hsrt : srt c a = some (b,
        if tsLoop c.p (c.f - 1) (fmul c.p (a ^ (q / 2) % c.p) a)
            (fmul c.p (fsqr c.p (a ^ (q / 2) % c.p)) a) c.z % 2 = 1
        then fneg c.p (tsLoop c.p (c.f - 1) (fmul c.p (a ^ (q / 2) % c.p) a)
            (fmul c.p (fsqr c.p (a ^ (q / 2) % c.p)) a) c.z)
        else tsLoop c.p (c.f - 1) (fmul c.p (a ^ (q / 2) % c.p) a)
            (fmul c.p (fsqr c.p (a ^ (q / 2) % c.p)) a) c.z) := by
      unfold srt
      simp only [if_neg h0, if_neg h3, hb, hshift2, hexp]
    refine ⟨b, _, hsrt, hbiff, ?_⟩
    intro hbt
    have hy := hbiff.1 hbt
    have hsq := (isSquare_iff c.p a ha).2 hy
    have he1 := (ZMod.euler_criterion c.p hx).1 hsq
    have hhalf : c.p / 2 = 2 ^ (c.f - 1) * q := by
      have h4 : c.p = 2 * (2 ^ (c.f - 1) * q) + 1 := by rw [hpq, h2f, Nat.mul_assoc]
      omega
    have hT0 : ((a ^ (q / 2) % c.p : Nat) : ZMod c.p) = (a : ZMod c.p) ^ (q / 2) := cast_powmod _ _ _
    have hT1 : ((fmul c.p (fsqr c.p (a ^ (q / 2) % c.p)) a : Nat) : ZMod c.p) = (a : ZMod c.p) ^ q := by
      rw [cast_fmul, cast_fsqr, hT0]
      conv_rhs => rw [hq2]
      ring
    have hC0 : ((fmul c.p (a ^ (q / 2) % c.p) a : Nat) : ZMod c.p) ^ 2 =
        (a : ZMod c.p) * (fmul c.p (fsqr c.p (a ^ (q / 2) % c.p)) a : Nat) := by
      rw [cast_fmul, cast_fmul, cast_fsqr]; ring
    have hord1 : ((fmul c.p (fsqr c.p (a ^ (q / 2) % c.p)) a : Nat) : ZMod c.p) ^ (2 ^ (c.f - 1)) = 1 := by
      rw [hT1, ← pow_mul, mul_comm, ← hhalf, he1]
    have hz : (c.z : ZMod c.p) ^ (2 ^ (c.f - 1)) = -1 := by
      rw [← cast_powmod, h.zord (by omega), cast_pred _ (by omega)]
    obtain ⟨hr0lt, hr0sq⟩ := tsLoop_spec c.p (by omega) (a : ZMod c.p) (c.f - 1) _ _ c.z
      (fmul_lt _ _ _ (by omega)) (fmul_lt _ _ _ (by omega)) hC0 hord1 hz
    split_ifs
    · exact ⟨Nat.mod_lt _ (by omega), sq_of_cast ha (by rw [cast_fneg _ _ hr0lt.le, neg_sq, hr0sq])⟩
    · exact ⟨hr0lt, sq_of_cast ha hr0sq⟩

end Relic.Model.FpAlg
