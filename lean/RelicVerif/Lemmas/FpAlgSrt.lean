/-
fp_smb_basic = Legendre symbol; fp_srt (p ≡ 3 mod 4 branch and the constant-time Tonelli–Shanks branch) returns a root
exactly when one exists, and the returned value squares to the operand.
-/
import Mathlib.Data.ZMod.Basic
import Mathlib.FieldTheory.Finite.Basic
import Mathlib.Algebra.Field.ZMod
import Mathlib.NumberTheory.LegendreSymbol.Basic
import Mathlib.Tactic.Ring
import Mathlib.Tactic.Linarith
import RelicVerif.Model.FpAlg
import RelicVerif.Lemmas.FpAlgExp
import RelicVerif.Lemmas.FpAlgInv
import RelicVerif.Lemmas.FpAlgInv2

namespace Relic.Model.FpAlg
open Relic.Model.Rec

/-- the precomputed data of the square-root routine: p − 1 = 2^f·q with q odd, z a primitive 2^f-th root of unity -/
structure Ctx.WFsrt (c : Ctx) : Prop extends c.WF where
  fpos : 0 < c.f
  fq : ∃ q, q % 2 = 1 ∧ c.p - 1 = 2 ^ c.f * q
  zlt : c.z < c.p
  zord : c.z ^ (2 ^ (c.f - 1)) % c.p = c.p - 1

/-- fp_smb_basic (and fp_smbm_low): the Legendre symbol -/
theorem smbBasic_spec (c : Ctx) (h : c.WF) (a : Nat) (ha : a < c.p) :
    haveI := Fact.mk h.prime
    smbBasic c a = some (legendreSym c.p a) := by
  sorry

/-- elementary form: 0 for zero, 1 for non-zero squares, −1 otherwise -/
theorem smbBasic_elem (c : Ctx) (h : c.WF) (a : Nat) (ha : a < c.p) :
    ∃ s, smbBasic c a = some s ∧ (s = 0 ↔ a = 0) ∧ (s = 1 ↔ a ≠ 0 ∧ ∃ y, y * y % c.p = a) ∧ (s = 0 ∨ s = 1 ∨ s = -1) := by
  sorry

/-- fp_is_sqr (with the symbol computed by Euler's criterion) -/
theorem isSqr_spec (c : Ctx) (h : c.WF) (a : Nat) (ha : a < c.p) :
    ∃ b, isSqr c a = some b ∧ (b = true ↔ ∃ y, y * y % c.p = a) := by
  sorry

/-- fp_srt: the flag is 1 exactly when the operand is a square, and then the value left in c is a canonical root -/
theorem srt_spec (c : Ctx) (h : c.WFsrt) (a : Nat) (ha : a < c.p) :
    ∃ r x, srt c a = some (r, x) ∧ (r = true ↔ ∃ y, y * y % c.p = a) ∧ (r = true → x < c.p ∧ x * x % c.p = a) := by
  sorry

end Relic.Model.FpAlg
