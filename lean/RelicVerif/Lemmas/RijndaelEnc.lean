/-
The table-driven encryption of src/bc/rijndael-alg-fst.c (Model/Rijndael.lean `encrypt`: GETU32 ^ rk, the loop
`r = Nr >> 1; for (;;) { s→t; rk += 8; if (--r == 0) break; t→s; }`, the last round through Te4 and the masks, PUTU32)
computes the FIPS-197 Cipher of Spec/Aes.lean for every expanded key held big-endian in `rk` (RkOK), every 16-byte
block and Nr = 10, 12, 14 (`encrypt_eq`; `encrypt_eq_even` for every even Nr ≥ 2).
-/
import RelicVerif.Lemmas.RijndaelBase

namespace Relic.Lemmas.Rijndael
open Relic.Spec.Aes Relic.Gen.AesTables Relic.Lemmas.Aes
open Relic.Lemmas.AesTables (X specRound encHalf_spec b3_X b2_X b1_X b0_X xor_transpose)
open Relic.Model.Rijndael (getu32 putu32 tab b0 b1 b2 b3 rd W4 encHalf encLoop encrypt)

/-- the four big-endian words of a 16-byte state -/
def wordsOf (s : Bytes) : W4 := (getu32 s 0, getu32 s 4, getu32 s 8, getu32 s 12)

/-- `s_c = GETU32(pt + 4c) ^ rk[c]` -/
def initW (rk : Array UInt32) (pt : Bytes) : W4 :=
  (getu32 pt 0 ^^^ rk.getD 0 0, getu32 pt 4 ^^^ rk.getD 1 0, getu32 pt 8 ^^^ rk.getD 2 0, getu32 pt 12 ^^^ rk.getD 3 0)

/-- the last round of rijndaelEncrypt and the four PUTU32 -/
def lastRound4 (rk : Array UInt32) (off : Nat) (t0 t1 t2 t3 : UInt32) : List UInt8 :=
  putu32 ((tab Te4 (b3 t0) &&& 0xff000000) ^^^ (tab Te4 (b2 t1) &&& 0x00ff0000) ^^^
      (tab Te4 (b1 t2) &&& 0x0000ff00) ^^^ (tab Te4 (b0 t3) &&& 0x000000ff) ^^^ rd rk off 0)
  ++ putu32 ((tab Te4 (b3 t1) &&& 0xff000000) ^^^ (tab Te4 (b2 t2) &&& 0x00ff0000) ^^^
      (tab Te4 (b1 t3) &&& 0x0000ff00) ^^^ (tab Te4 (b0 t0) &&& 0x000000ff) ^^^ rd rk off 1)
  ++ putu32 ((tab Te4 (b3 t2) &&& 0xff000000) ^^^ (tab Te4 (b2 t3) &&& 0x00ff0000) ^^^
      (tab Te4 (b1 t0) &&& 0x0000ff00) ^^^ (tab Te4 (b0 t1) &&& 0x000000ff) ^^^ rd rk off 2)
  ++ putu32 ((tab Te4 (b3 t3) &&& 0xff000000) ^^^ (tab Te4 (b2 t0) &&& 0x00ff0000) ^^^
      (tab Te4 (b1 t1) &&& 0x0000ff00) ^^^ (tab Te4 (b0 t2) &&& 0x000000ff) ^^^ rd rk off 3)

def lastRound (rk : Array UInt32) (off : Nat) (t : W4) : List UInt8 := lastRound4 rk off t.1 t.2.1 t.2.2.1 t.2.2.2

theorem encrypt_def (rk : Array UInt32) (nr : Nat) (pt : Bytes) :
    encrypt rk nr pt = lastRound rk (encLoop rk (nr >>> 1) 0 (initW rk pt)).1 (encLoop rk (nr >>> 1) 0 (initW rk pt)).2 := rfl

theorem encLoop_one (rk : Array UInt32) (off : Nat) (s : W4) :
    encLoop rk 1 off s = (off + 8, encHalf rk (off + 4) s) := rfl

theorem encLoop_succ (rk : Array UInt32) (r off : Nat) (s : W4) :
    encLoop rk (r + 2) off s = encLoop rk (r + 1) (off + 8) (encHalf rk (off + 8) (encHalf rk (off + 4) s)) := rfl

/-! ### bytes and words -/

theorem xor4 (a b c d a' b' c' d' : UInt32) :
    (a ^^^ b ^^^ c ^^^ d) ^^^ (a' ^^^ b' ^^^ c' ^^^ d') = (a ^^^ a') ^^^ (b ^^^ b') ^^^ (c ^^^ c') ^^^ (d ^^^ d') := by
  ac_rfl

theorem X_xor (a b c d a' b' c' d' : UInt8) :
    X a b c d ^^^ X a' b' c' d' = X (a ^^^ a') (b ^^^ b') (c ^^^ c') (d ^^^ d') := by
  unfold X
  rw [UInt8.toUInt32_xor, UInt8.toUInt32_xor, UInt8.toUInt32_xor, UInt8.toUInt32_xor,
    UInt32.shiftLeft_xor, UInt32.shiftLeft_xor, UInt32.shiftLeft_xor]
  exact xor4 _ _ _ _ _ _ _ _

theorem byte_facts : ∀ i, i < 256 → ((UInt8.ofNat i).toUInt32.toUInt8 = UInt8.ofNat i ∧ UInt8.ofNat i &&& 255 = UInt8.ofNat i) := by
  decide +kernel

theorem toUInt32_toUInt8 (a : UInt8) : a.toUInt32.toUInt8 = a := by
  have := (byte_facts a.toNat (UInt8.toNat_lt a)).1
  rwa [UInt8.ofNat_toNat] at this

theorem and_255 (a : UInt8) : a &&& 255 = a := by
  have := (byte_facts a.toNat (UInt8.toNat_lt a)).2
  rwa [UInt8.ofNat_toNat] at this

theorem low8 (v : UInt32) : (v &&& 0xff).toUInt8 = v.toUInt8 := by
  rw [UInt32.toUInt8_and]
  have : (0xff : UInt32).toUInt8 = 255 := by decide
  rw [this, and_255]

/-- PUTU32 of the word of four bytes stores the four bytes -/
theorem putu32_X (a b c d : UInt8) : putu32 (X a b c d) = [a, b, c, d] := by
  have e3 : (X a b c d >>> (24 : UInt32)).toUInt8 = a := by
    have := congrArg UInt32.toUInt8 (b3_X a b c d); rw [toUInt32_toUInt8] at this; exact this
  have e2 : (X a b c d >>> (16 : UInt32)).toUInt8 = b := by
    have := congrArg UInt32.toUInt8 (b2_X a b c d); rw [toUInt32_toUInt8] at this; rw [← low8]; exact this
  have e1 : (X a b c d >>> (8 : UInt32)).toUInt8 = c := by
    have := congrArg UInt32.toUInt8 (b1_X a b c d); rw [toUInt32_toUInt8] at this; rw [← low8]; exact this
  have e0 : (X a b c d).toUInt8 = d := by
    have := congrArg UInt32.toUInt8 (b0_X a b c d); rw [toUInt32_toUInt8] at this; rw [← low8]; exact this
  unfold putu32
  rw [e3, e2, e1, e0]

/-! ### Te4 under the four masks -/

theorem Te4_masks : ∀ i, i < 256 →
    (Te4.getD i 0 &&& 0xff000000 = (sbox (UInt8.ofNat i)).toUInt32 <<< (24 : UInt32) ∧
     Te4.getD i 0 &&& 0x00ff0000 = (sbox (UInt8.ofNat i)).toUInt32 <<< (16 : UInt32) ∧
     Te4.getD i 0 &&& 0x0000ff00 = (sbox (UInt8.ofNat i)).toUInt32 <<< (8 : UInt32) ∧
     Te4.getD i 0 &&& 0x000000ff = (sbox (UInt8.ofNat i)).toUInt32) := by
  simp only [Relic.Lemmas.AesTables.sbox_eq]
  decide +kernel

theorem tab_Te4 (a : UInt8) : tab Te4 a.toUInt32 = Te4.getD a.toNat 0 := by
  simp [Relic.Model.Rijndael.tab]

theorem te4_word (a b c d : UInt8) :
    (tab Te4 a.toUInt32 &&& 0xff000000) ^^^ (tab Te4 b.toUInt32 &&& 0x00ff0000) ^^^
      (tab Te4 c.toUInt32 &&& 0x0000ff00) ^^^ (tab Te4 d.toUInt32 &&& 0x000000ff) =
    X (sbox a) (sbox b) (sbox c) (sbox d) := by
  have ha := (Te4_masks a.toNat (UInt8.toNat_lt a)).1
  have hb := (Te4_masks b.toNat (UInt8.toNat_lt b)).2.1
  have hc := (Te4_masks c.toNat (UInt8.toNat_lt c)).2.2.1
  have hd := (Te4_masks d.toNat (UInt8.toNat_lt d)).2.2.2
  rw [UInt8.ofNat_toNat] at ha hb hc hd
  unfold X
  rw [tab_Te4 a, tab_Te4 b, tab_Te4 c, tab_Te4 d, ha, hb, hc, hd]

/-! ### the three parts on explicit states -/

theorem wordsOf_sixteen (a0 a1 a2 a3 a4 a5 a6 a7 a8 a9 a10 a11 a12 a13 a14 a15 : UInt8) :
    wordsOf [a0, a1, a2, a3, a4, a5, a6, a7, a8, a9, a10, a11, a12, a13, a14, a15] = (X a0 a1 a2 a3, X a4 a5 a6 a7, X a8 a9 a10 a11, X a12 a13 a14 a15) := rfl

/-- one table round = one FIPS-197 round, on lists -/
theorem encHalf_round (rk : Array UInt32) (o : Nat) (s k : Bytes) (hs : s.length = 16) (hk : k.length = 16)
    (h : ∀ c, c < 4 → rk.getD (o + c) 0 = getu32 k (4 * c)) :
    encHalf rk o (wordsOf s) = wordsOf (specRound s k) := by
  obtain ⟨x0, x1, x2, x3, x4, x5, x6, x7, x8, x9, x10, x11, x12, x13, x14, x15, rfl⟩ := exists_sixteen s hs
  obtain ⟨k0, k1, k2, k3, k4, k5, k6, k7, k8, k9, k10, k11, k12, k13, k14, k15, rfl⟩ := exists_sixteen k hk
  exact encHalf_spec x0 x1 x2 x3 x4 x5 x6 x7 x8 x9 x10 x11 x12 x13 x14 x15 k0 k1 k2 k3 k4 k5 k6 k7 k8 k9 k10 k11 k12 k13 k14 k15 rk o
    (h 0 (by decide)) (h 1 (by decide)) (h 2 (by decide)) (h 3 (by decide))

/-- the initial AddRoundKey on words -/
theorem initW_eq (rk : Array UInt32) (pt k : Bytes) (hpt : pt.length = 16) (hk : k.length = 16)
    (h : ∀ c, c < 4 → rk.getD c 0 = getu32 k (4 * c)) :
    initW rk pt = wordsOf (addRoundKey pt k) := by
  obtain ⟨p0, p1, p2, p3, p4, p5, p6, p7, p8, p9, p10, p11, p12, p13, p14, p15, rfl⟩ := exists_sixteen pt hpt
  obtain ⟨k0, k1, k2, k3, k4, k5, k6, k7, k8, k9, k10, k11, k12, k13, k14, k15, rfl⟩ := exists_sixteen k hk
  have h0 : rk.getD 0 0 = X k0 k1 k2 k3 := h 0 (by decide)
  have h1 : rk.getD 1 0 = X k4 k5 k6 k7 := h 1 (by decide)
  have h2 : rk.getD 2 0 = X k8 k9 k10 k11 := h 2 (by decide)
  have h3 : rk.getD 3 0 = X k12 k13 k14 k15 := h 3 (by decide)
  have e : initW rk [p0, p1, p2, p3, p4, p5, p6, p7, p8, p9, p10, p11, p12, p13, p14, p15] =
      (X p0 p1 p2 p3 ^^^ rk.getD 0 0, X p4 p5 p6 p7 ^^^ rk.getD 1 0, X p8 p9 p10 p11 ^^^ rk.getD 2 0,
       X p12 p13 p14 p15 ^^^ rk.getD 3 0) := rfl
  rw [e, h0, h1, h2, h3, X_xor, X_xor, X_xor, X_xor]
  rfl

/-- the last round (Te4 under the masks, no MixColumns) and the stores -/
theorem lastRound_eq (rk : Array UInt32) (o : Nat) (t k : Bytes) (ht : t.length = 16) (hk : k.length = 16)
    (h : ∀ c, c < 4 → rk.getD (o + c) 0 = getu32 k (4 * c)) :
    lastRound rk o (wordsOf t) = addRoundKey (shiftRows (subBytes t)) k := by
  obtain ⟨t0, t1, t2, t3, t4, t5, t6, t7, t8, t9, t10, t11, t12, t13, t14, t15, rfl⟩ := exists_sixteen t ht
  obtain ⟨k0, k1, k2, k3, k4, k5, k6, k7, k8, k9, k10, k11, k12, k13, k14, k15, rfl⟩ := exists_sixteen k hk
  have h0 : rk.getD (o + 0) 0 = X k0 k1 k2 k3 := h 0 (by decide)
  have h1 : rk.getD (o + 1) 0 = X k4 k5 k6 k7 := h 1 (by decide)
  have h2 : rk.getD (o + 2) 0 = X k8 k9 k10 k11 := h 2 (by decide)
  have h3 : rk.getD (o + 3) 0 = X k12 k13 k14 k15 := h 3 (by decide)
  have e : lastRound rk o (wordsOf [t0, t1, t2, t3, t4, t5, t6, t7, t8, t9, t10, t11, t12, t13, t14, t15]) =
      lastRound4 rk o (X t0 t1 t2 t3) (X t4 t5 t6 t7) (X t8 t9 t10 t11) (X t12 t13 t14 t15) := rfl
  have r : addRoundKey (shiftRows (subBytes [t0, t1, t2, t3, t4, t5, t6, t7, t8, t9, t10, t11, t12, t13, t14, t15])) [k0, k1, k2, k3, k4, k5, k6, k7, k8, k9, k10, k11, k12, k13, k14, k15] =
      [sbox t0 ^^^ k0, sbox t5 ^^^ k1, sbox t10 ^^^ k2, sbox t15 ^^^ k3, sbox t4 ^^^ k4, sbox t9 ^^^ k5, sbox t14 ^^^ k6, sbox t3 ^^^ k7, sbox t8 ^^^ k8, sbox t13 ^^^ k9, sbox t2 ^^^ k10, sbox t7 ^^^ k11, sbox t12 ^^^ k12, sbox t1 ^^^ k13, sbox t6 ^^^ k14, sbox t11 ^^^ k15] := rfl
  rw [e, r]
  unfold lastRound4 rd
  rw [b3_X, b3_X, b3_X, b3_X, b2_X, b2_X, b2_X, b2_X, b1_X, b1_X, b1_X, b1_X, b0_X, b0_X, b0_X, b0_X,
    te4_word, te4_word, te4_word, te4_word, h0, h1, h2, h3, X_xor, X_xor, X_xor, X_xor,
    putu32_X, putu32_X, putu32_X, putu32_X]
  rfl

/-! ### the loop -/

theorem rk_at {rk : Array UInt32} {ks : List Bytes} (hok : RkOK rk ks) (r : Nat) (hr : r < ks.length) (o : Nat)
    (ho : o = 4 * r) : ∀ c, c < 4 → rk.getD (o + c) 0 = getu32 (ks.getD r []) (4 * c) := by
  subst ho; exact hok r hr

theorem specRound_encS (ks : List Bytes) (s0 : Bytes) (i : Nat) :
    specRound (encS ks s0 i) (ks.getD (i + 1) []) = encS ks s0 (i + 1) := (encS_succ ks s0 i).symm

/-- `r + 1` iterations of the loop starting at round 2j: 2r + 1 rounds; the pointer has moved by 8(r + 1) words -/
theorem encLoop_spec (rk : Array UInt32) (ks : List Bytes) (hok : RkOK rk ks) (hk : ∀ k ∈ ks, k.length = 16)
    (s0 : Bytes) (hs0 : s0.length = 16) :
    ∀ r j n, n = j + r → 2 * n + 1 < ks.length →
      encLoop rk (r + 1) (8 * j) (wordsOf (encS ks s0 (2 * j))) = (8 * (n + 1), wordsOf (encS ks s0 (2 * n + 1))) := by
  intro r
  induction r with
  | zero =>
    intro j n hn hlt
    have : n = j := by omega
    subst this
    rw [encLoop_one, encHalf_round rk (8 * n + 4) _ (ks.getD (2 * n + 1) []) (encS_length ks hk s0 hs0 _ (by omega))
      (getD_length16 ks hk _ (by omega)) (rk_at hok (2 * n + 1) (by omega) _ (by omega)), specRound_encS]
    have : 8 * n + 8 = 8 * (n + 1) := by omega
    rw [this]
  | succ r ih =>
    intro j n hn hlt
    rw [encLoop_succ,
      encHalf_round rk (8 * j + 4) _ (ks.getD (2 * j + 1) []) (encS_length ks hk s0 hs0 _ (by omega))
        (getD_length16 ks hk _ (by omega)) (rk_at hok (2 * j + 1) (by omega) _ (by omega)), specRound_encS,
      encHalf_round rk (8 * j + 8) _ (ks.getD (2 * j + 1 + 1) []) (encS_length ks hk s0 hs0 _ (by omega))
        (getD_length16 ks hk _ (by omega)) (rk_at hok (2 * j + 1 + 1) (by omega) _ (by omega)), specRound_encS]
    have e1 : 8 * j + 8 = 8 * (j + 1) := by omega
    have e2 : 2 * j + 1 + 1 = 2 * (j + 1) := by omega
    rw [e1, e2]
    exact ih (j + 1) n (by omega) hlt

/-! ### rijndaelEncrypt = Cipher -/

theorem cipher_def (ks : List Bytes) (pt : Bytes) :
    cipher ks pt = addRoundKey (shiftRows (subBytes (encS ks (addRoundKey pt (ks.getD 0 [])) (ks.length - 1 - 1))))
      (ks.getD (ks.length - 1) []) := rfl

/-- every even number of rounds Nr = 2(m + 1) -/
theorem encrypt_eq_even (rk : Array UInt32) (ks : List Bytes) (m : Nat) (hok : RkOK rk ks)
    (hlen : ks.length = 2 * (m + 1) + 1) (hk : ∀ k ∈ ks, k.length = 16) (pt : Bytes) (hpt : pt.length = 16) :
    encrypt rk (2 * (m + 1)) pt = cipher ks pt := by
  have hsh : (2 * (m + 1)) >>> 1 = m + 1 := by
    have : (2 * (m + 1)) >>> 1 = 2 * (m + 1) / 2 := Nat.shiftRight_eq_div_pow _ 1
    omega
  have h0len : (ks.getD 0 []).length = 16 := getD_length16 ks hk 0 (by omega)
  have hs0 : (addRoundKey pt (ks.getD 0 [])).length = 16 := addRoundKey_length16 _ _ hpt h0len
  have hinit : initW rk pt = wordsOf (addRoundKey pt (ks.getD 0 [])) :=
    initW_eq rk pt _ hpt h0len (fun c hc => by
      have := hok 0 (by omega) c hc
      rwa [Nat.mul_zero, Nat.zero_add] at this)
  have hloop : encLoop rk (m + 1) 0 (wordsOf (addRoundKey pt (ks.getD 0 []))) =
      (8 * (m + 1), wordsOf (encS ks (addRoundKey pt (ks.getD 0 [])) (2 * m + 1))) :=
    encLoop_spec rk ks hok hk _ hs0 m 0 m (by omega) (by omega)
  have hT : (encS ks (addRoundKey pt (ks.getD 0 [])) (2 * m + 1)).length = 16 :=
    encS_length ks hk _ hs0 _ (by omega)
  have e1 : ks.length - 1 - 1 = 2 * m + 1 := by omega
  have e2 : ks.length - 1 = 2 * (m + 1) := by omega
  rw [encrypt_def, hsh, hinit, hloop, cipher_def, e1, e2]
  exact lastRound_eq rk (8 * (m + 1)) _ (ks.getD (2 * (m + 1)) []) hT (getD_length16 ks hk _ (by omega))
    (rk_at hok (2 * (m + 1)) (by omega) _ (by omega))

/-- rijndaelEncrypt(rk, Nr, pt) is the FIPS-197 Cipher with the round keys held in rk, for AES-128 / 192 / 256 -/
theorem encrypt_eq (rk : Array UInt32) (ks : List Bytes) (nr : Nat) (hok : RkOK rk ks) (hlen : ks.length = nr + 1)
    (hnr : nr = 10 ∨ nr = 12 ∨ nr = 14) (hk : ∀ k ∈ ks, k.length = 16) (pt : Bytes) (hpt : pt.length = 16) :
    encrypt rk nr pt = cipher ks pt := by
  rcases hnr with rfl | rfl | rfl
  · exact encrypt_eq_even rk ks 4 hok hlen hk pt hpt
  · exact encrypt_eq_even rk ks 5 hok hlen hk pt hpt
  · exact encrypt_eq_even rk ks 6 hok hlen hk pt hpt

end Relic.Lemmas.Rijndael
