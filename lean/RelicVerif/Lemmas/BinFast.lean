/-
The fast evaluators of Model/BinFast.lean (window product, folding reduction, shared doubling chains) are equal to the
plain definitions of Spec/Gf2.lean and Spec/BinCurve.lean: the specification column of the driver is the specification's value.
-/
import Mathlib.Tactic.Ring
import Mathlib.Tactic.Linarith
import Mathlib.Tactic.IntervalCases
import RelicVerif.Lemmas.Gf2Poly
import RelicVerif.Model.BinFast

namespace Relic.Lemmas.BinFast
open Relic.Spec.Gf2 Relic.Spec.BinCurve Relic.Model.BinFast Relic.Lemmas.Gf2Poly

theorem tab16_getD (a u : Nat) (hu : u < 16) : (tab16 a).getD u 0 = clmul a u := by
  have h2 : clmul a 2 = a <<< 1 := clmul_two_pow a 1
  have h4 : clmul a 4 = a <<< 2 := clmul_two_pow a 2
  have h8 : clmul a 8 = a <<< 3 := clmul_two_pow a 3
  have h1 : clmul a 1 = a := clmul_one a
  interval_cases u
  · simp [tab16, clmul_zero]
  · simp [tab16, clmul_one]
  · simp [tab16, h2]
  · rw [show (3 : ℕ) = 2 ^^^ 1 from by decide, clmul_xor_right, h2, h1]; simp [tab16]
  · simp [tab16, h4]
  · rw [show (5 : ℕ) = 4 ^^^ 1 from by decide, clmul_xor_right, h4, h1]; simp [tab16]
  · rw [show (6 : ℕ) = 4 ^^^ 2 from by decide, clmul_xor_right, h4, h2]; simp [tab16]
  · rw [show (7 : ℕ) = 4 ^^^ 2 ^^^ 1 from by decide, clmul_xor_right, clmul_xor_right, h4, h2, h1]; simp [tab16]
  · simp [tab16, h8]
  · rw [show (9 : ℕ) = 8 ^^^ 1 from by decide, clmul_xor_right, h8, h1]; simp [tab16]
  · rw [show (10 : ℕ) = 8 ^^^ 2 from by decide, clmul_xor_right, h8, h2]; simp [tab16]
  · rw [show (11 : ℕ) = 8 ^^^ 2 ^^^ 1 from by decide, clmul_xor_right, clmul_xor_right, h8, h2, h1]; simp [tab16]
  · rw [show (12 : ℕ) = 8 ^^^ 4 from by decide, clmul_xor_right, h8, h4]; simp [tab16]
  · rw [show (13 : ℕ) = 8 ^^^ 4 ^^^ 1 from by decide, clmul_xor_right, clmul_xor_right, h8, h4, h1]; simp [tab16]
  · rw [show (14 : ℕ) = 8 ^^^ 4 ^^^ 2 from by decide, clmul_xor_right, clmul_xor_right, h8, h4, h2]; simp [tab16]
  · rw [show (15 : ℕ) = 8 ^^^ 4 ^^^ 2 ^^^ 1 from by decide, clmul_xor_right, clmul_xor_right, clmul_xor_right, h8, h4, h2, h1]; simp [tab16]

/-- reassembling a number from a window and the part below it -/
theorem window_xor (x s w : Nat) : ((x >>> s) % 2 ^ w) <<< s ^^^ x % 2 ^ s = x % 2 ^ (s + w) := by
  apply Nat.eq_of_testBit_eq
  intro i
  simp only [Nat.testBit_xor, Nat.testBit_shiftLeft, Nat.testBit_mod_two_pow, Nat.testBit_shiftRight]
  by_cases h1 : i < s
  · have h2 : ¬ s ≤ i := by omega
    have h3 : i < s + w := by omega
    simp [h1, h2, h3]
  · have h2 : s ≤ i := by omega
    have h4 : s + (i - s) = i := by omega
    by_cases h3 : i < s + w
    · have h5 : i - s < w := by omega
      simp [h1, h2, h3, h4, h5]
    · have h5 : ¬ i - s < w := by omega
      simp [h1, h2, h3, h5]

/-- Horner evaluation over windows of width w, from the top window down -/
theorem window_fold (a w : Nat) (g : Nat → Nat → Nat)
    (hg : ∀ hi d, d < 2 ^ w → g d (clmul a hi) = clmul a (hi <<< w ^^^ d)) (x : Nat) :
    ∀ n hi, (List.range n).foldr (fun k acc => g ((x >>> (w * k)) % 2 ^ w) acc) (clmul a hi)
      = clmul a (hi <<< (w * n) ^^^ x % 2 ^ (w * n)) := by
  intro n
  induction n with
  | zero => intro hi; simp [Nat.mod_one]
  | succ n ih =>
    intro hi
    rw [List.range_succ, List.foldr_append]
    simp only [List.foldr_cons, List.foldr_nil]
    rw [hg hi _ (Nat.mod_lt _ (by positivity)), ih]
    congr 1
    rw [Nat.shiftLeft_xor_distrib, Nat.xor_assoc, window_xor, ← Nat.shiftLeft_add, Nat.mul_succ,
      Nat.add_comm w]

theorem clmulW_eq (a b : Nat) : clmulW a b = clmul a b := by
  have inner : ∀ hi d, d < 2 ^ 32 →
      (List.range 8).foldr (fun k acc => (acc <<< 4) ^^^ (tab16 a).getD ((d >>> (4 * k)) % 16) 0) (clmul a hi)
        = clmul a (hi <<< 32 ^^^ d) := by
    intro hi d hd
    have := window_fold a 4 (fun nib acc => (acc <<< 4) ^^^ (tab16 a).getD nib 0) (by
      intro hi d hd
      rw [tab16_getD a d hd, clmul_xor_right, clmul_shiftLeft_right]) d 8 hi
    simp only [show (2:ℕ) ^ 4 = 16 from rfl, show 4 * 8 = 32 from rfl] at this
    rw [this, Nat.mod_eq_of_lt hd]
  unfold clmulW limbs32
  simp only []
  rw [List.foldr_map]
  have := window_fold a 32 (fun limb acc =>
      (List.range 8).foldr (fun k acc => (acc <<< 4) ^^^ (tab16 a).getD ((limb >>> (4 * k)) % 16) 0) acc)
      inner b ((bitLen b + 31) / 32) 0
  rw [clmul_zero] at this
  rw [this]
  congr 1
  have hb : b < 2 ^ (32 * ((bitLen b + 31) / 32)) := by
    rw [← bitLen_le_iff]; omega
  rw [Nat.mod_eq_of_lt hb]; simp

/-- n mod 2^(b+1) from n mod 2^b -/
theorem mod_two_pow_succ_xor (n b : Nat) : n % 2 ^ (b + 1) = n % 2 ^ b ^^^ (if n.testBit b then 2 ^ b else 0) := by
  apply Nat.eq_of_testBit_eq
  intro i
  by_cases hb : n.testBit b
  · simp only [hb, if_true, Nat.testBit_xor, Nat.testBit_mod_two_pow, Nat.testBit_two_pow]
    by_cases h1 : i < b
    · have : i < b + 1 := by omega
      have h3 : ¬ b = i := by omega
      simp [h1, this, h3]
    · by_cases h2 : i = b
      · subst h2; simp [hb]
      · have : ¬ i < b + 1 := by omega
        have h3 : ¬ b = i := by omega
        simp [h1, this, h3]
  · simp only [hb, Nat.testBit_mod_two_pow]
    by_cases h1 : i < b
    · have : i < b + 1 := by omega
      simp [h1, this]
    · by_cases h2 : i = b
      · subst h2; simp [hb]
      · have : ¬ i < b + 1 := by omega
        simp [h1, this]

theorem setBits_fold (n h : Nat) : ∀ bound init,
    (setBits n bound).foldl (fun acc e => acc ^^^ (h <<< e)) init = init ^^^ clmul h (n % 2 ^ bound) := by
  intro bound
  induction bound with
  | zero => intro init; simp [setBits, Nat.mod_one, clmul_zero]
  | succ b ih =>
    intro init
    have ih' := ih init
    unfold setBits at ih' ⊢
    rw [List.range_succ, List.filter_append, List.foldl_append, ih', mod_two_pow_succ_xor]
    by_cases hb : n.testBit b
    · simp [hb, clmul_xor_right, clmul_two_pow, Nat.xor_assoc]
    · simp [hb]

theorem split_top (f m : Nat) (h : bitLen f = m + 1) : 2 ^ m ^^^ f % 2 ^ m = f := by
  have hf0 : f ≠ 0 := by rintro rfl; simp [bitLen] at h
  have hlt : f < 2 ^ (m + 1) := (bitLen_le_iff f (m + 1)).1 (by omega)
  have hb : f.testBit m = true := by
    have := testBit_bitLen_sub_one hf0
    rwa [h, Nat.add_sub_cancel] at this
  have := mod_two_pow_succ_xor f m
  rw [Nat.mod_eq_of_lt hlt, hb, if_pos rfl] at this
  rw [Nat.xor_comm]; exact this.symm

/-- f = z^m + Σ_{e ∈ setBits f m} z^e for a polynomial of degree m -/
theorem setBits_sum (f m : Nat) (h : bitLen f = m + 1) :
    (setBits f m).foldl (fun acc e => acc ^^^ (1 <<< e)) (1 <<< m) = f := by
  rw [setBits_fold, clmul_comm, clmul_one, Nat.one_shiftLeft, split_top f m h]

/-- one folding step changes a by a multiple of f -/
theorem foldStep_spec (f m a : Nat) (h : bitLen f = m + 1) :
    foldStep m (setBits f m) a = a ^^^ clmul (a >>> m) f := by
  unfold foldStep
  simp only []
  rw [setBits_fold, Nat.xor_assoc, ← clmul_two_pow, ← clmul_xor_right, split_top f m h]

theorem bitLen_zero : bitLen 0 = 0 := by simp [bitLen]

theorem bitLen_shiftRight (a m : Nat) (h : m < bitLen a) : bitLen (a >>> m) + m = bitLen a := by
  have key : ∀ k, bitLen (a >>> m) ≤ k ↔ bitLen a ≤ m + k := by
    intro k
    rw [bitLen_le_iff, bitLen_le_iff, Nat.shiftRight_eq_div_pow, Nat.div_lt_iff_lt_mul (by positivity),
      Nat.pow_add, Nat.mul_comm]
  have h1 := (key (bitLen a - m)).2 (by omega)
  have h2 := (key (bitLen (a >>> m))).1 le_rfl
  omega

theorem foldStep_bitLen_lt (f m a : Nat) (h : bitLen f = m + 1) (ha : m < bitLen a) :
    bitLen (a ^^^ clmul (a >>> m) f) < bitLen a := by
  have hf0 : f ≠ 0 := by rintro rfl; simp [bitLen] at h
  have hs := bitLen_shiftRight a m ha
  have hhi : a >>> m ≠ 0 := by
    intro h0; rw [h0, bitLen_zero] at hs; omega
  have ha0 : a ≠ 0 := by rintro rfl; simp [bitLen] at ha
  have hc := bitLen_clmul (a >>> m) f hhi hf0
  have hcn : bitLen (clmul (a >>> m) f) = bitLen a := by omega
  have hc0 : clmul (a >>> m) f ≠ 0 := by
    intro h0; rw [h0, bitLen_zero] at hcn; omega
  have t1 := testBit_bitLen_sub_one ha0
  have t2 := testBit_bitLen_sub_one hc0
  rw [hcn] at t2
  have l1 := lt_two_pow_bitLen a
  have l2 := lt_two_pow_bitLen (clmul (a >>> m) f)
  rw [hcn] at l2
  have hx : a ^^^ clmul (a >>> m) f < 2 ^ (bitLen a - 1 + 1) := by
    rw [Nat.sub_add_cancel (by omega)]; exact Nat.xor_lt_two_pow l1 l2
  have := lt_two_pow_of_testBit_false hx (by rw [Nat.testBit_xor, t1, t2]; rfl)
  have := (bitLen_le_iff _ _).2 this
  omega

theorem wellFormed_bitLen (F : Field) (hF : F.wellFormed = true) : bitLen F.f = F.m + 1 := by
  unfold Field.wellFormed at hF
  simp only [Bool.and_eq_true, beq_iff_eq, decide_eq_true_eq] at hF
  exact hF.1.1

theorem wellFormed_ne_zero (F : Field) (hF : F.wellFormed = true) : F.f ≠ 0 := by
  have h1 := wellFormed_bitLen F hF
  intro h; rw [h] at h1; simp [bitLen] at h1

theorem pmodS_go_eq (f m : Nat) (h : bitLen f = m + 1) : ∀ fuel a, bitLen a ≤ m + fuel →
    pmodS.go m (setBits f m) fuel a = pmod a f := by
  have hf0 : f ≠ 0 := by rintro rfl; simp [bitLen] at h
  intro fuel
  induction fuel with
  | zero =>
    intro a ha
    unfold pmodS.go
    exact (pmod_of_bitLen_lt a f (by omega)).symm
  | succ fuel ih =>
    intro a ha
    unfold pmodS.go
    by_cases hle : bitLen a ≤ m
    · rw [if_pos hle]; exact (pmod_of_bitLen_lt a f (by omega)).symm
    · rw [if_neg hle, foldStep_spec f m a h, ih, pmod_xor_clmul _ _ _ hf0]
      have := foldStep_bitLen_lt f m a h (by omega)
      omega

/-- reduction by folding is the long-division remainder -/
theorem pmodS_eq (F : Field) (hF : F.wellFormed = true) (a : Nat) : pmodS F.m (setBits F.f F.m) a = pmod a F.f := by
  unfold pmodS
  exact pmodS_go_eq F.f F.m (wellFormed_bitLen F hF) _ _ (by omega)

theorem FF.mul_eq (F : Field) (hF : F.wellFormed = true) (a b : Nat) : (FF.ofField F).mul a b = F.mul a b := by
  unfold FF.mul Field.mul FF.ofField
  simp only []
  rw [pmodS_eq F hF, clmulW_eq]

theorem FF.mul_fun (F : Field) (hF : F.wellFormed = true) : (FF.ofField F).mul = F.mul := by
  funext a b; exact FF.mul_eq F hF a b

theorem FF.sqr_eq (F : Field) (hF : F.wellFormed = true) (a : Nat) : (FF.ofField F).sqr a = F.sqr a := by
  unfold FF.sqr Field.sqr
  exact FF.mul_eq F hF a a

theorem FF.sqr_fun (F : Field) (hF : F.wellFormed = true) : (FF.ofField F).sqr = F.sqr := by
  funext a; exact FF.sqr_eq F hF a

theorem FF.pmodS_ofField (F : Field) (hF : F.wellFormed = true) (a : Nat) :
    pmodS (FF.ofField F).F.m (FF.ofField F).exps a = pmod a F.f := pmodS_eq F hF a

theorem FF.sqrN_eq (F : Field) (hF : F.wellFormed = true) (n a : Nat) : (FF.ofField F).sqrN n a = F.sqrN n a := by
  induction n generalizing a with
  | zero => rfl
  | succ n ih =>
    unfold FF.sqrN Field.sqrN
    rw [FF.sqr_eq F hF, ih]

theorem FF.invFermat_eq (F : Field) (hF : F.wellFormed = true) (a : Nat) : (FF.ofField F).invFermat a = F.invFermat a := by
  unfold FF.invFermat Field.invFermat
  rw [FF.pmodS_ofField F hF, FF.pmodS_ofField F hF, FF.mul_fun F hF, FF.sqr_fun F hF]
  rfl

theorem FF.inv_eq (F : Field) (hF : F.wellFormed = true) (a : Nat) : (FF.ofField F).inv a = F.inv a := by
  unfold FF.inv Field.inv
  simp only []
  rw [FF.mul_eq F hF, FF.invFermat_eq F hF]
  rfl

theorem FF.pow_go_eq (F : Field) (hF : F.wellFormed = true) : ∀ fuel base e acc,
    FF.pow.go (FF.ofField F) fuel base e acc = Field.pow.go F fuel base e acc := by
  intro fuel
  induction fuel with
  | zero => intro base e acc; rfl
  | succ fuel ih =>
    intro base e acc
    unfold FF.pow.go Field.pow.go
    rw [ih, FF.sqr_eq F hF, FF.mul_eq F hF]

theorem FF.pow_eq (F : Field) (hF : F.wellFormed = true) (a e : Nat) : (FF.ofField F).pow a e = F.pow a e := by
  unfold FF.pow Field.pow
  rw [FF.pow_go_eq F hF, FF.pmodS_ofField F hF, FF.pmodS_ofField F hF]

theorem FF.sqrt_eq (F : Field) (hF : F.wellFormed = true) (a : Nat) : (FF.ofField F).sqrt a = F.sqrt a := by
  unfold FF.sqrt Field.sqrt
  rw [FF.sqrN_eq F hF]; rfl

theorem FF.trace_eq (F : Field) (hF : F.wellFormed = true) (a : Nat) : (FF.ofField F).trace a = F.trace a := by
  unfold FF.trace Field.trace
  rw [FF.pmodS_ofField F hF, FF.sqr_fun F hF]
  rfl

theorem FF.halfTrace_eq (F : Field) (hF : F.wellFormed = true) (a : Nat) : (FF.ofField F).halfTrace a = F.halfTrace a := by
  unfold FF.halfTrace Field.halfTrace
  rw [FF.pmodS_ofField F hF, FF.sqr_fun F hF]
  rfl

theorem FF.itr_eq (F : Field) (hF : F.wellFormed = true) (a : Nat) (b : Int) : (FF.ofField F).itr a b = F.itr a b := by
  unfold FF.itr Field.itr
  rw [FF.sqrN_eq F hF, FF.sqrN_eq F hF]; rfl

theorem FF.exp_eq (F : Field) (hF : F.wellFormed = true) (a : Nat) (k : Int) : (FF.ofField F).exp a k = F.exp a k := by
  unfold FF.exp Field.exp
  rw [FF.pow_eq F hF, FF.pow_eq F hF, FF.inv_eq F hF]

theorem FF.mul2_eq (F : Field) (hF : F.wellFormed = true) (a b : Ext.El) : (FF.ofField F).mul2 a b = Ext.mul F a b := by
  unfold FF.mul2 Ext.mul
  rw [FF.mul_fun F hF]

theorem FF.mul2_fun (F : Field) (hF : F.wellFormed = true) : (FF.ofField F).mul2 = Ext.mul F := by
  funext a b; exact FF.mul2_eq F hF a b

theorem FF.sqr2_eq (F : Field) (hF : F.wellFormed = true) (a : Ext.El) : (FF.ofField F).sqr2 a = Ext.sqr F a := by
  unfold FF.sqr2 Ext.sqr
  rw [FF.mul2_fun F hF]

theorem FF.sqr2_fun (F : Field) (hF : F.wellFormed = true) : (FF.ofField F).sqr2 = Ext.sqr F := by
  funext a; exact FF.sqr2_eq F hF a

theorem FF.trace2_eq (F : Field) (hF : F.wellFormed = true) (a : Ext.El) : (FF.ofField F).trace2 a = Ext.trace F a := by
  unfold FF.trace2 Ext.trace
  rw [FF.sqr2_fun F hF]
  rfl

/-! ### the curve -/

theorem add_eq (c : Curve) (hF : c.F.wellFormed = true) (p q : Point) :
    Relic.Model.BinFast.add (FC.ofCurve c) p q = Relic.Spec.BinCurve.add c p q := by
  rcases p with _ | ⟨x1, y1⟩ <;> rcases q with _ | ⟨x2, y2⟩ <;>
    simp only [Relic.Model.BinFast.add, Relic.Spec.BinCurve.add, FC.ofCurve,
      FF.mul_fun c.F hF, FF.sqr_fun c.F hF, FF.inv_eq c.F hF]

theorem dbl_eq (c : Curve) (hF : c.F.wellFormed = true) (p : Point) :
    Relic.Model.BinFast.dbl (FC.ofCurve c) p = Relic.Spec.BinCurve.dbl c p := by
  unfold Relic.Model.BinFast.dbl Relic.Spec.BinCurve.dbl
  exact add_eq c hF p p

theorem neg_eq (c : Curve) (p : Point) : Relic.Model.BinFast.neg p = Relic.Spec.BinCurve.neg c p := by
  unfold Relic.Model.BinFast.neg Relic.Spec.BinCurve.neg
  rfl

theorem onCurve_eq (c : Curve) (hF : c.F.wellFormed = true) (p : Point) :
    Relic.Model.BinFast.onCurve (FC.ofCurve c) p = Relic.Spec.BinCurve.onCurve c p := by
  unfold Relic.Model.BinFast.onCurve Relic.Spec.BinCurve.onCurve FC.ofCurve
  simp only [FF.mul_fun c.F hF, FF.sqr_fun c.F hF]
  rfl

theorem frb_eq (c : Curve) (hF : c.F.wellFormed = true) (p : Point) :
    Relic.Model.BinFast.frb (FC.ofCurve c) p = Relic.Spec.BinCurve.frb c p := by
  rcases p with _ | ⟨x, y⟩ <;>
    simp only [Relic.Model.BinFast.frb, Relic.Spec.BinCurve.frb, FC.ofCurve, FF.sqr_fun c.F hF]

theorem bitLen_half_le (k n : Nat) (h : bitLen k ≤ n + 1) : bitLen (k / 2) ≤ n := by
  rw [bitLen_le_iff] at h ⊢
  rw [Nat.pow_succ] at h
  omega

theorem mulNatChain_go_eq (c : Curve) (hF : c.F.wellFormed = true) : ∀ n fuel k base acc,
    bitLen k ≤ n → bitLen k ≤ fuel →
    mulNatChain.go (FC.ofCurve c) (dblChain (FC.ofCurve c) n base) k acc
      = Relic.Spec.BinCurve.mulNat.go c fuel k base acc := by
  intro n
  induction n with
  | zero =>
    intro fuel k base acc hn hf
    have hk : k = 0 := by
      have := (bitLen_le_iff k 0).1 hn
      omega
    subst hk
    unfold dblChain mulNatChain.go
    cases fuel with
    | zero => rfl
    | succ f => unfold Relic.Spec.BinCurve.mulNat.go; simp
  | succ n ih =>
    intro fuel k base acc hn hf
    unfold dblChain mulNatChain.go
    by_cases hk : k = 0
    · subst hk
      cases fuel with
      | zero => simp [Relic.Spec.BinCurve.mulNat.go]
      | succ f => unfold Relic.Spec.BinCurve.mulNat.go; simp
    · cases fuel with
      | zero =>
        have := bitLen_pos hk
        omega
      | succ f =>
        unfold Relic.Spec.BinCurve.mulNat.go
        rw [if_neg hk, if_neg hk, dbl_eq c hF, add_eq c hF]
        exact ih f (k / 2) _ _ (bitLen_half_le k n hn) (bitLen_half_le k f hf)

/-- double-and-add over a precomputed doubling chain of any sufficient length is the specification's double-and-add -/
theorem mulNatChain_eq (c : Curve) (hF : c.F.wellFormed = true) (p : Point) (k n : Nat) (hn : bitLen k ≤ n) :
    mulNatChain (FC.ofCurve c) (dblChain (FC.ofCurve c) n p) k = Relic.Spec.BinCurve.mulNat c p k := by
  unfold mulNatChain Relic.Spec.BinCurve.mulNat
  apply mulNatChain_go_eq c hF n _ k p none hn
  unfold bitLen; split <;> omega

theorem mulNat_eq (c : Curve) (hF : c.F.wellFormed = true) (p : Point) (k : Nat) :
    Relic.Model.BinFast.mulNat (FC.ofCurve c) p k = Relic.Spec.BinCurve.mulNat c p k := by
  unfold Relic.Model.BinFast.mulNat
  exact mulNatChain_eq c hF p k _ le_rfl

theorem mul_eq (c : Curve) (hF : c.F.wellFormed = true) (p : Point) (k : Int) :
    Relic.Model.BinFast.mul (FC.ofCurve c) p k = Relic.Spec.BinCurve.mul c p k := by
  unfold Relic.Model.BinFast.mul Relic.Spec.BinCurve.mul
  rw [mulNat_eq c hF, mulNat_eq c hF, neg_eq c]

theorem dblChain_length (fc : FC) : ∀ n p, (dblChain fc n p).length = n := by
  intro n
  induction n with
  | zero => intro p; rfl
  | succ n ih => intro p; unfold dblChain; simp [ih]

/-- what the driver evaluates: with the memoised chain of p (any length) or without -/
theorem mulWith_eq (c : Curve) (hF : c.F.wellFormed = true) (p : Point) (k : Int) (n : Nat) :
    mulWith (FC.ofCurve c) (some (dblChain (FC.ofCurve c) n p)) p k = Relic.Spec.BinCurve.mul c p k ∧
    mulWith (FC.ofCurve c) none p k = Relic.Spec.BinCurve.mul c p k := by
  refine ⟨?_, ?_⟩
  · unfold mulWith
    simp only [dblChain_length]
    by_cases hle : bitLen k.natAbs ≤ n
    · rw [if_pos hle]
      unfold Relic.Spec.BinCurve.mul
      by_cases hk : k < 0
      · rw [if_pos hk, if_pos hk, mulNatChain_eq c hF p _ n hle, neg_eq c]
      · rw [if_neg hk, if_neg hk]
        have : k.toNat = k.natAbs := by omega
        rw [mulNatChain_eq c hF p _ n (by rw [this]; exact hle)]
    · rw [if_neg hle]; exact mul_eq c hF p k
  · unfold mulWith
    exact mul_eq c hF p k

end Relic.Lemmas.BinFast
