/-
bn_mxp_sim_few for general n (Model/NtMxp.lean: mxpSimFew): the 2^n table (entries whose index selects only bases with a non-zero
exponent are the products of the selected bases; the others are never read) and the simultaneous square-and-multiply loop.
-/
import RelicVerif.Lemmas.NtMxp
import Mathlib.Data.List.GetD

namespace Relic.Model.NtMxp
open Relic.Model

/-- product of the bases selected by the bits of j (bit 0 = first base) -/
def prodSel : List Int → Nat → Int
  | [], _ => 1
  | a :: as, j => (if j % 2 = 1 then a else 1) * prodSel as (j / 2)

/-- the bits of j select only bases with a non-zero exponent -/
def Sub : List Nat → Nat → Prop
  | [], _ => True
  | b :: bs, j => (j % 2 = 1 → b ≠ 0) ∧ Sub bs (j / 2)

theorem prodSel_zero : ∀ (as : List Int), prodSel as 0 = 1
  | [] => rfl
  | a :: as => by simp [prodSel, prodSel_zero as]

theorem sub_zero : ∀ (bs : List Nat), Sub bs 0
  | [] => trivial
  | b :: bs => by simp [Sub, sub_zero bs]

theorem prodSel_append_lo (a : Int) : ∀ (as : List Int) (j : Nat), j < 2 ^ as.length → prodSel (as ++ [a]) j = prodSel as j
  | [], j, h => by
    have : j = 0 := by simpa using h
    subst this; simp [prodSel]
  | x :: xs, j, h => by
    have h' : j / 2 < 2 ^ xs.length := by
      rw [List.length_cons, pow_succ] at h; omega
    simp only [List.cons_append, prodSel]
    rw [prodSel_append_lo a xs (j / 2) h']

theorem prodSel_append_hi (a : Int) : ∀ (as : List Int) (j : Nat), j < 2 ^ as.length →
    prodSel (as ++ [a]) (2 ^ as.length + j) = prodSel as j * a
  | [], j, h => by
    have : j = 0 := by simpa using h
    subst this; simp [prodSel]
  | x :: xs, j, h => by
    have h' : j / 2 < 2 ^ xs.length := by
      rw [List.length_cons, pow_succ] at h; omega
    have e1 : (2 ^ (xs.length + 1) + j) / 2 = 2 ^ xs.length + j / 2 := by rw [pow_succ]; omega
    have e2 : (2 ^ (xs.length + 1) + j) % 2 = j % 2 := by rw [pow_succ]; omega
    simp only [List.cons_append, prodSel, List.length_cons]
    rw [e1, e2, prodSel_append_hi a xs (j / 2) h']; ring

theorem sub_append_lo (b : Nat) : ∀ (bs : List Nat) (j : Nat), j < 2 ^ bs.length → (Sub (bs ++ [b]) j ↔ Sub bs j)
  | [], j, h => by
    have : j = 0 := by simpa using h
    subst this; simp [Sub]
  | x :: xs, j, h => by
    have h' : j / 2 < 2 ^ xs.length := by
      rw [List.length_cons, pow_succ] at h; omega
    simp only [List.cons_append, Sub]
    rw [sub_append_lo b xs (j / 2) h']

theorem sub_append_hi (b : Nat) : ∀ (bs : List Nat) (j : Nat), j < 2 ^ bs.length →
    (Sub (bs ++ [b]) (2 ^ bs.length + j) ↔ (Sub bs j ∧ b ≠ 0))
  | [], j, h => by
    have : j = 0 := by simpa using h
    subst this; simp [Sub]
  | x :: xs, j, h => by
    have h' : j / 2 < 2 ^ xs.length := by
      rw [List.length_cons, pow_succ] at h; omega
    have e1 : (2 ^ (xs.length + 1) + j) / 2 = 2 ^ xs.length + j / 2 := by rw [pow_succ]; omega
    have e2 : (2 ^ (xs.length + 1) + j) % 2 = j % 2 := by rw [pow_succ]; omega
    simp only [List.cons_append, Sub, List.length_cons]
    rw [e1, e2, sub_append_hi b xs (j / 2) h']
    tauto

/-- the table is right on every index that can be read -/
def TabOK (M : Mont) (as : List Int) (bs : List Nat) (tab : List Int) : Prop :=
  tab.length = 2 ^ as.length ∧ as.length = bs.length ∧
    ∀ j, j < 2 ^ as.length → Sub bs j → Rep M (tab.getD j 0) (prodSel as j)

theorem fewBlock_length (M : Mont) (tab : List Int) (a : Int) (b : Nat) (h : 0 < tab.length) :
    (fewBlock M tab a b).length = tab.length := by
  unfold fewBlock; split
  · simp; omega
  · simp

theorem block_ok {M : Mont} (g : Good M) (as : List Int) (bs : List Nat) (tab : List Int) (a : Int) (b : Nat)
    (h : TabOK M as bs tab) : TabOK M (as ++ [a]) (bs ++ [b]) (tab ++ fewBlock M tab a b) := by
  obtain ⟨hl, hab, hent⟩ := h
  have hpos : 0 < tab.length := by rw [hl]; positivity
  refine ⟨?_, by simp [hab], ?_⟩
  · rw [List.length_append, fewBlock_length M tab a b hpos, hl, List.length_append, List.length_singleton, pow_succ]; omega
  · intro j hj hs
    rw [List.length_append, List.length_singleton, pow_succ] at hj
    by_cases hlo : j < 2 ^ as.length
    · rw [List.getD_append _ _ _ _ (by omega), prodSel_append_lo a as j hlo]
      exact hent j hlo ((sub_append_lo b bs j (by rw [← hab]; exact hlo)).1 hs)
    · obtain ⟨j', rfl⟩ : ∃ j', j = 2 ^ as.length + j' := ⟨j - 2 ^ as.length, by omega⟩
      have hj' : j' < 2 ^ as.length := by omega
      have hs' := hs
      rw [hab] at hs'
      obtain ⟨hsub, hb⟩ := (sub_append_hi b bs j' (by rw [← hab]; exact hj')).1 hs'
      rw [List.getD_append_right _ _ _ _ (by omega), prodSel_append_hi a as j' hj', hl, Nat.add_sub_cancel_left]
      unfold fewBlock
      rw [if_pos hb]
      cases j' with
      | zero =>
        simp only [List.getD_cons_zero, prodSel_zero, one_mul]
        exact rep_conv M a
      | succ s =>
        have hin : s + 1 < tab.length := by omega
        have hget : ((List.drop 1 tab).map fun x => M.mul (M.conv a) x).getD s 0 = M.mul (M.conv a) (tab.getD (s + 1) 0) := by
          rw [List.getD_eq_getElem?_getD, List.getD_eq_getElem?_getD, List.getElem?_map, List.getElem?_drop, Nat.add_comm 1 s,
            List.getElem?_eq_getElem hin]
          rfl
        simp only [List.getD_cons_succ, hget]
        have := rep_mul g (rep_conv M a) (hent (s + 1) hj' hsub)
        rwa [mul_comm] at this

theorem fewTab_ok {M : Mont} (g : Good M) : ∀ (ps : List (Int × Nat)) (as : List Int) (bs : List Nat) (tab : List Int),
    TabOK M as bs tab → TabOK M (as ++ ps.map (·.1)) (bs ++ ps.map (·.2)) (fewTab M tab ps)
  | [], as, bs, tab, h => by simpa [fewTab] using h
  | p :: ps, as, bs, tab, h => by
    have := fewTab_ok g ps _ _ _ (block_ok g as bs tab p.1 p.2 h)
    simpa [fewTab, List.append_assoc] using this

/-! ### the loop -/

def PP : List (Int × Nat) → Nat → Int
  | [], _ => 1
  | p :: ps, i => p.1 ^ (p.2 >>> i) * PP ps i

theorem parity_lt : ∀ (bs : List Nat) (i : Nat), parity bs i < 2 ^ bs.length
  | [], i => by simp [parity]
  | b :: bs, i => by
    have := parity_lt bs i
    simp only [parity, List.length_cons, pow_succ]
    split <;> omega

theorem parity_sub : ∀ (bs : List Nat) (i : Nat), Sub bs (parity bs i)
  | [], i => trivial
  | b :: bs, i => by
    have ih := parity_sub bs i
    simp only [parity, Sub]
    by_cases hb : bit b i = true
    · rw [if_pos hb]
      have e : (1 + 2 * parity bs i) / 2 = parity bs i := by omega
      rw [e]; exact ⟨fun _ => bit_ne_zero hb, ih⟩
    · rw [if_neg hb]
      have e : (0 + 2 * parity bs i) / 2 = parity bs i := by omega
      rw [e]; exact ⟨fun h => by omega, ih⟩

theorem pp_step : ∀ (qs : List (Int × Nat)) (i : Nat),
    PP qs i = PP qs (i + 1) * PP qs (i + 1) * prodSel (qs.map (·.1)) (parity (qs.map (·.2)) i)
  | [], i => by simp [PP, prodSel]
  | q :: qs, i => by
    have ih := pp_step qs i
    simp only [PP, List.map_cons, parity, prodSel]
    by_cases hb : bit q.2 i = true
    · have e1 : (1 + 2 * parity (qs.map (·.2)) i) / 2 = parity (qs.map (·.2)) i := by omega
      have e2 : (1 + 2 * parity (qs.map (·.2)) i) % 2 = 1 := by omega
      rw [if_pos hb, e1, e2, if_pos rfl, bit_true hb, ih]; ring
    · have e1 : (0 + 2 * parity (qs.map (·.2)) i) / 2 = parity (qs.map (·.2)) i := by omega
      have e2 : ¬ ((0 + 2 * parity (qs.map (·.2)) i) % 2 = 1) := by omega
      rw [if_neg hb, e1, if_neg e2, bit_false hb, ih]; ring

theorem pp_top : ∀ (qs : List (Int × Nat)) (i : Nat), maxBits (qs.map (·.2)) ≤ i → PP qs i = 1
  | [], i, _ => rfl
  | q :: qs, i, h => by
    simp only [List.map_cons, maxBits] at h
    have h1 : Rec.bitLen q.2 ≤ i := le_trans (le_max_left _ _) h
    have h2 : maxBits (qs.map (·.2)) ≤ i := le_trans (le_max_right _ _) h
    simp [PP, shr_ge _ _ h1, pp_top qs i h2]

theorem fewLoop_spec {M : Mont} (g : Good M) (qs : List (Int × Nat)) (tab : List Int)
    (ht : TabOK M (qs.map (·.1)) (qs.map (·.2)) tab) :
    ∀ (i : Nat) (c : Int), Rep M c (PP qs i) → Rep M (fewLoop M tab (qs.map (·.2)) i c) (PP qs 0) := by
  intro i
  induction i with
  | zero => intro c hc; simpa [fewLoop] using hc
  | succ i ih =>
    intro c hc
    simp only [fewLoop]
    apply ih
    have hs := rep_sqr g hc
    rw [pp_step qs i]
    by_cases hp : parity (qs.map (·.2)) i = 0
    · rw [hp, prodSel_zero, mul_one]; simpa using hs
    · rw [if_pos hp]
      have hlt := parity_lt (qs.map (·.2)) i
      rw [← ht.2.1] at hlt
      exact rep_mul g hs (ht.2.2 _ hlt (parity_sub _ i))

/-- Π a_i^|b_i| -/
def prodPow : List (Int × Int) → Int
  | [] => 1
  | p :: ps => p.1 ^ p.2.natAbs * prodPow ps

theorem pp_zero : ∀ (ps : List (Int × Int)), PP (ps.map fun p => (p.1, p.2.natAbs)) 0 = prodPow ps
  | [] => rfl
  | p :: ps => by simp [PP, prodPow, pp_zero ps]

/-- the full behaviour of bn_mxp_sim_few on all integers (c0 = the value c holds before the call) -/
def FewSpec (c0 : Int) (ps : List (Int × Int)) (m : Int) (r : Option Int) : Prop :=
  if m = 1 then r = some 0
  else if ps.length = 0 then r = some c0
  else if ps.length > 8 then r = none
  else if m % 2 = 0 ∨ m ≤ 0 then r = none
  else r = some (prodPow ps % m)

theorem mxpSimFew_spec (w : Nat) (c0 : Int) (ps : List (Int × Int)) (m : Int) : FewSpec c0 ps m (mxpSimFew w c0 ps m) := by
  unfold FewSpec mxpSimFew
  by_cases h1 : m = 1
  · simp [h1]
  by_cases h2 : ps.length = 0
  · simp [h1, h2]
  by_cases h3 : ps.length > 8
  · simp [h1, h2, h3]
  by_cases h4 : m % 2 = 0 ∨ m ≤ 0
  · simp [h1, h2, h3, h4]
  simp only [if_neg h1, if_neg h2, if_neg h3, if_neg h4, Option.some.injEq]
  obtain ⟨g, hmm⟩ := ofMod_good w m (by omega) (by omega)
  set M := Mont.ofMod w m with hM
  set qs := ps.map fun p => (p.1, p.2.natAbs) with hqs
  have h0 : TabOK M [] [] [M.conv 1] := by
    refine ⟨rfl, rfl, ?_⟩
    intro j hj _
    have : j = 0 := by simpa using hj
    subst this
    simpa [prodSel] using rep_conv M 1
  have ht := fewTab_ok g qs [] [] _ h0
  simp only [List.nil_append] at ht
  have hc : Rep M ((fewTab M [M.conv 1] qs).getD 0 0) (PP qs (maxBits (qs.map (·.2)))) := by
    rw [pp_top qs _ (le_refl _)]
    have := ht.2.2 0 (by positivity) (sub_zero _)
    rwa [prodSel_zero] at this
  have hl := fewLoop_spec g qs _ ht _ _ hc
  have := back_eq g hl
  rw [this, hM, hmm, hqs, pp_zero]

end Relic.Model.NtMxp
