/-
bn_mxp_crt (sqr = 0) with RSA-type exponents: for distinct odd primes p, q and dp ≡ d (mod p−1), dq ≡ d (mod q−1), all exponents ≥ 1,
the CRT result is a^d mod pq for EVERY integer a (Fermat in the form that needs no coprimality).
-/
import RelicVerif.Lemmas.NtMxp
import RelicVerif.Lemmas.NtMxpLeg
import Mathlib.FieldTheory.Finite.Basic
import Mathlib.Data.Nat.ModEq

namespace Relic.Model.NtMxp

theorem zmod_pow_congr (p : Nat) [Fact p.Prime] (x : ZMod p) (n1 n2 : Nat) (h1 : 1 ≤ n1) (h : n1 ≤ n2)
    (hmod : n1 ≡ n2 [MOD p - 1]) : x ^ n1 = x ^ n2 := by
  by_cases h0 : x = 0
  · rw [h0, zero_pow (by omega), zero_pow (by omega)]
  · obtain ⟨k, hk⟩ := (Nat.modEq_iff_dvd' h).1 hmod
    have : n2 = n1 + (p - 1) * k := by omega
    rw [this, pow_add, pow_mul, ZMod.pow_card_sub_one_eq_one h0, one_pow, mul_one]

theorem int_pow_congr (p : Nat) [Fact p.Prime] (a : Int) (n1 n2 : Nat) (h1 : 1 ≤ n1) (h2 : 1 ≤ n2)
    (hmod : n1 ≡ n2 [MOD p - 1]) : a ^ n1 ≡ a ^ n2 [ZMOD p] := by
  rw [← ZMod.intCast_eq_intCast_iff]
  push_cast
  rcases le_total n1 n2 with h | h
  · exact zmod_pow_congr p _ n1 n2 h1 h hmod
  · exact (zmod_pow_congr p _ n2 n1 h2 h hmod.symm).symm

theorem mxpCrt_rsa (w : Nat) (p q : Nat) [hp : Fact p.Prime] [hq : Fact q.Prime] (hp2 : p ≠ 2) (hq2 : q ≠ 2) (hpq : p ≠ q)
    (a : Int) (d dp dq : Nat) (hd : 1 ≤ d) (hdp : 1 ≤ dp) (hdq : 1 ≤ dq)
    (h1 : dp ≡ d [MOD p - 1]) (h2 : dq ≡ d [MOD q - 1]) :
    mxpCrtOp w a dp dq p q false = some (a ^ d % ((p : Int) * q)) := by
  have hpo : p % 2 = 1 := (hp.out.eq_two_or_odd).resolve_left hp2
  have hqo : q % 2 = 1 := (hq.out.eq_two_or_odd).resolve_left hq2
  have hp1 := hp.out.one_lt
  have hq1 := hq.out.one_lt
  have hcop : Nat.Coprime q p := (Nat.coprime_primes hq.out hp.out).2 (Ne.symm hpq)
  have hg : Int.gcd (q : Int) (p : Int) = 1 := by simpa [Int.gcd] using hcop
  obtain ⟨r, hr, r0, r1, r2, r3⟩ := mxpCrtOp_spec w a dp dq p q (by omega) (by omega) (by omega) (by omega)
    (by omega) (by omega) hg
  rw [hr]; congr 1
  simp only [Int.toNat_natCast] at r2 r3
  have c1 : r ≡ a ^ d [ZMOD p] := r2.trans (int_pow_congr p a dp d hdp hd h1)
  have c2 : r ≡ a ^ d [ZMOD q] := r3.trans (int_pow_congr q a dq d hdq hd h2)
  have c3 : r ≡ a ^ d [ZMOD (p : Int) * q] :=
    (Int.modEq_and_modEq_iff_modEq_mul (by simpa using hcop.symm)).1 ⟨c1, c2⟩
  have hpos : (0 : Int) < (p : Int) * q := by positivity
  exact canon_unique _ r _ r0 r1 (Int.emod_nonneg _ (by omega)) (Int.emod_lt_of_pos _ hpos) (c3.trans (Int.mod_modEq _ _).symm)

end Relic.Model.NtMxp
