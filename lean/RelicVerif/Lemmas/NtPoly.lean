/-
Proofs for Model/NtPoly.lean: bn_evl is Horner's rule modulo b; bn_lag returns the reduced coefficients of Π (X − a_i) modulo b.
-/
import Mathlib.Data.Int.ModEq
import Mathlib.Tactic.Ring
import Mathlib.Algebra.BigOperators.Group.List.Basic
import RelicVerif.Model.NtPoly

namespace Relic.Lemmas.NtPoly
open Relic.Model.NtPoly

theorem modEq_of_eq {b x y : Int} (h : x = y) : x ≡ y [ZMOD b] := h ▸ Int.ModEq.refl _

theorem fmod_modEq (a b : Int) (hb : 0 < b) : Int.fmod a b ≡ a [ZMOD b] := by
  rw [Int.fmod_eq_emod_of_nonneg _ (le_of_lt hb)]; exact Int.mod_modEq a b

theorem fmod_range (a b : Int) (hb : 0 < b) : 0 ≤ Int.fmod a b ∧ Int.fmod a b < b := by
  rw [Int.fmod_eq_emod_of_nonneg _ (le_of_lt hb)]
  exact ⟨Int.emod_nonneg _ (by omega), Int.emod_lt_of_pos _ hb⟩

/-! ### bn_evl -/

theorem evl_cons (a : Int) (as : List Int) (x b : Int) :
    evl (a :: as) x b = Int.fmod (Int.fmod (evl as x b * x) b + a) b := rfl

theorem evalP_cons (c : Int) (cs : List Int) (X : Int) : evalP (c :: cs) X = c + X * evalP cs X := rfl

theorem evl_modEq (as : List Int) (x b : Int) (hb : 0 < b) : evl as x b ≡ evalP as x [ZMOD b] := by
  induction as with
  | nil => exact Int.ModEq.refl _
  | cons a as ih =>
    rw [evl_cons, evalP_cons]
    refine (fmod_modEq _ b hb).trans ?_
    have h1 := ((fmod_modEq (evl as x b * x) b hb).trans (ih.mul_right x)).add_right a
    exact h1.trans (modEq_of_eq (by ring))

theorem evl_range (as : List Int) (x b : Int) (hb : 0 < b) : 0 ≤ evl as x b ∧ evl as x b < b := by
  cases as with
  | nil => exact ⟨le_refl _, hb⟩
  | cons a as => rw [evl_cons]; exact fmod_range _ b hb

theorem evl_eq (as : List Int) (x b : Int) (hb : 0 < b) : evl as x b = evalP as x % b := by
  have h := evl_modEq as x b hb
  have r := evl_range as x b hb
  unfold Int.ModEq at h
  rw [← h, Int.emod_eq_of_lt r.1 r.2]

/-! ### bn_lag -/

theorem lagStepAux_modEq (b a X : Int) (hb : 0 < b) (cs : List Int) (prev : Int) :
    evalP (lagStepAux b a prev cs) X ≡ prev + X * evalP cs X - a * evalP cs X [ZMOD b] := by
  induction cs generalizing prev with
  | nil => exact modEq_of_eq (by simp [lagStepAux, evalP])
  | cons c cs ih =>
    rw [lagStepAux, evalP_cons, evalP_cons]
    have h0 : Int.fmod (prev - Int.fmod (c * a) b) b ≡ prev - c * a [ZMOD b] :=
      (fmod_modEq _ b hb).trans ((Int.ModEq.refl prev).sub (fmod_modEq (c * a) b hb))
    exact (h0.add ((ih c).mul_left X)).trans (modEq_of_eq (by ring))

theorem lagStep_modEq (b a X : Int) (hb : 0 < b) (cs : List Int) :
    evalP (lagStep b a cs) X ≡ (X - a) * evalP cs X [ZMOD b] :=
  (lagStepAux_modEq b a X hb cs 0).trans (modEq_of_eq (by ring))

theorem lagStepAux_length (b a : Int) (cs : List Int) (prev : Int) : (lagStepAux b a prev cs).length = cs.length + 1 := by
  induction cs generalizing prev with
  | nil => rfl
  | cons c cs ih => simp [lagStepAux, ih]

theorem lagStepAux_range (b a : Int) (hb : 0 < b) (cs : List Int) (prev : Int)
    (hp : 0 ≤ prev ∧ prev < b) (hc : ∀ c ∈ cs, 0 ≤ c ∧ c < b) :
    ∀ c ∈ lagStepAux b a prev cs, 0 ≤ c ∧ c < b := by
  induction cs generalizing prev with
  | nil => intro c hc'; simp [lagStepAux] at hc'; rw [hc']; exact hp
  | cons c0 cs ih =>
    intro c hc'
    rw [lagStepAux] at hc'
    rcases List.mem_cons.mp hc' with h | h
    · rw [h]; exact fmod_range _ b hb
    · exact ih c0 (hc c0 (List.mem_cons_self)) (fun c' h' => hc c' (List.mem_cons_of_mem _ h')) c h

theorem foldl_lag_spec (b X : Int) (hb : 0 < b) (rest : List Int) (cs : List Int) (P : Int) (n : Nat)
    (h1 : evalP cs X ≡ P [ZMOD b]) (h2 : cs.length = n) (h3 : ∀ c ∈ cs, 0 ≤ c ∧ c < b) :
    evalP (rest.foldl (fun cs a => lagStep b a cs) cs) X ≡ P * (rest.map (fun a => X - a)).prod [ZMOD b] ∧
    (rest.foldl (fun cs a => lagStep b a cs) cs).length = n + rest.length ∧
    ∀ c ∈ rest.foldl (fun cs a => lagStep b a cs) cs, 0 ≤ c ∧ c < b := by
  induction rest generalizing cs P n with
  | nil => simpa using ⟨h1, h2, h3⟩
  | cons a rest ih =>
    have s1 : evalP (lagStep b a cs) X ≡ P * (X - a) [ZMOD b] :=
      (lagStep_modEq b a X hb cs).trans (((Int.ModEq.refl (X - a)).mul h1).trans (modEq_of_eq (by ring)))
    have s2 : (lagStep b a cs).length = n + 1 := by unfold lagStep; rw [lagStepAux_length, h2]
    have s3 : ∀ c ∈ lagStep b a cs, 0 ≤ c ∧ c < b := lagStepAux_range b a hb cs 0 ⟨le_refl _, hb⟩ h3
    obtain ⟨g1, g2, g3⟩ := ih (lagStep b a cs) (P * (X - a)) (n + 1) s1 s2 s3
    refine ⟨?_, ?_, g3⟩
    · simp only [List.foldl_cons, List.map_cons, List.prod_cons]
      exact g1.trans (modEq_of_eq (by ring))
    · simp only [List.foldl_cons, List.length_cons]; omega

/-- bn_lag for a modulus b > 1: n + 1 reduced coefficients whose polynomial is Π (X − a_i) modulo b at every X -/
theorem lag_spec (as : List Int) (b : Int) (hb : 1 < b) :
    (lag as b).length = as.length + 1 ∧ (∀ c ∈ lag as b, 0 ≤ c ∧ c < b) ∧
    ∀ X, evalP (lag as b) X ≡ (as.map (fun a => X - a)).prod [ZMOD b] := by
  have hb0 : 0 < b := by omega
  cases as with
  | nil =>
    refine ⟨rfl, ?_, fun X => modEq_of_eq (by simp [lag, evalP])⟩
    intro c hc; simp [lag] at hc; omega
  | cons a0 rest =>
    have base : ∀ X, evalP [Int.fmod (b - a0) b, 1] X ≡ 1 * (X - a0) [ZMOD b] := by
      intro X
      have e : evalP [Int.fmod (b - a0) b, 1] X = Int.fmod (b - a0) b + X := by simp [evalP]
      rw [e]
      have h1 : Int.fmod (b - a0) b ≡ -a0 [ZMOD b] := by
        refine (fmod_modEq _ b hb0).trans ?_
        rw [Int.modEq_iff_dvd]
        exact ⟨-1, by ring⟩
      exact (h1.add_right X).trans (modEq_of_eq (by ring))
    have r0 : ∀ c ∈ [Int.fmod (b - a0) b, 1], 0 ≤ c ∧ c < b := by
      intro c hc
      simp only [List.mem_cons, List.mem_nil_iff, or_false] at hc
      rcases hc with h | h
      · rw [h]; exact fmod_range _ b hb0
      · rw [h]; omega
    refine ⟨?_, ?_, ?_⟩
    · have := (foldl_lag_spec b 0 hb0 rest _ _ 2 (base 0) rfl r0).2.1
      simp only [lag, List.length_cons]; omega
    · exact (foldl_lag_spec b 0 hb0 rest _ _ 2 (base 0) rfl r0).2.2
    · intro X
      have := (foldl_lag_spec b X hb0 rest _ _ 2 (base X) rfl r0).1
      simp only [lag, List.map_cons, List.prod_cons]
      exact this.trans (modEq_of_eq (by ring))

end Relic.Lemmas.NtPoly
