/-
Model = specification for the padding removers of cp_rsa_dec (property C06): the integer-level scans of Model/Cp.lean
(`padBasicDec`, `padPkcs1Dec`: shifts by whole octets, `m_len` / `p_len` bookkeeping as in pad_basic / pad_pkcs1 of
src/cp/relic_cp_rsa.c) decide and return exactly what the byte-level decoders of Spec/Cp.lean do, for EVERY encoded message
of the modulus length (pad_pkcs1 additionally refuses the empty message, which the encryption side does not admit).
-/
import RelicVerif.Lemmas.PadC06
import RelicVerif.Model.Cp

namespace Relic.Lemmas.PadModelC06
open Relic.Spec.Cp Relic.Model.Cp Relic.Lemmas.PadC06

/-- EME-PKCS1-v1_5 separation without the length test on PS (what pad_pkcs1 RSA_DEC implements) -/
def pkcs1UnpadLax (em : Bytes) : Option Bytes :=
  match em with
  | y :: t :: rest =>
    if y ≠ 0 ∨ t ≠ 2 then none else
    match rest.dropWhile (· ≠ 0) with
    | [] => none
    | _ :: m => some m
  | _ => none


/-! ### OS2IP on concatenations -/

theorem foldl_acc (b : Bytes) (acc : Nat) :
    b.foldl (fun acc x => acc * 256 + x.toNat) acc = acc * 256 ^ b.length + os2ip b := by
  induction b generalizing acc with
  | nil => simp [os2ip]
  | cons x b ih =>
    rw [os2ip, List.foldl_cons, List.foldl_cons, ih, ih (0 * 256 + x.toNat), List.length_cons, Nat.pow_succ]
    simp only [Nat.zero_mul, Nat.zero_add, Nat.add_mul, Nat.mul_assoc, Nat.add_assoc, Nat.mul_comm 256]

theorem os2ip_append (a b : Bytes) : os2ip (a ++ b) = os2ip a * 256 ^ b.length + os2ip b := by
  rw [os2ip, List.foldl_append, foldl_acc]; rfl

theorem os2ip_single (x : UInt8) : os2ip [x] = x.toNat := by simp [os2ip]

theorem os2ip_cons (x : UInt8) (b : Bytes) : os2ip (x :: b) = x.toNat * 256 ^ b.length + os2ip b := by
  have := os2ip_append [x] b
  rwa [os2ip_single] at this

theorem os2ip_append_mod (a b : Bytes) : os2ip (a ++ b) % 256 ^ b.length = os2ip b := by
  rw [os2ip_append, Nat.mul_add_mod_of_lt (os2ip_lt b)]

theorem os2ip_append_div (a b : Bytes) : os2ip (a ++ b) / 256 ^ b.length = os2ip a := by
  rw [os2ip_append, Nat.add_comm, Nat.add_mul_div_right _ _ (Nat.pow_pos (by decide)),
    Nat.div_eq_of_lt (os2ip_lt b), Nat.zero_add]

theorem i2osp_mod (a b : Bytes) : i2osp (os2ip (a ++ b) % 256 ^ b.length) b.length = b := by
  rw [os2ip_append_mod, i2osp_os2ip]

theorem byteAt_mid (a b : Bytes) (x : UInt8) : byteAt (os2ip (a ++ x :: b)) b.length = x.toNat := by
  have h : a ++ x :: b = (a ++ [x]) ++ b := by simp
  rw [byteAt, h, os2ip_append_div, os2ip_append, os2ip_single, List.length_singleton, Nat.pow_one]
  have := x.toNat_lt
  omega

theorem u8_eq_zero (x : UInt8) : x.toNat = 0 ↔ x = 0 := by
  rw [← UInt8.toNat_inj]; rfl
theorem u8_eq_ff (x : UInt8) : x.toNat = 0xFF ↔ x = 0xFF := by
  rw [← UInt8.toNat_inj]; rfl
theorem u8_eq_two (x : UInt8) : x.toNat = 2 ↔ x = 2 := by
  rw [← UInt8.toNat_inj]; rfl

/-- first octet of a string as the top quotient -/
theorem os2ip_cons_div (y : UInt8) (b : Bytes) : os2ip (y :: b) / 256 ^ b.length = y.toNat := by
  have := os2ip_append_div [y] b
  rwa [os2ip_single] at this

/-! ### the scans, by induction on the octets still to be read -/

/-- what the basic decoder does after the leading 00 -/
def basicTail (rest : Bytes) : Option Bytes :=
  match rest.dropWhile (· = 0) with
  | f :: m => if f = 0xFF then some m else none
  | [] => none

theorem basicUnpad_cons (y : UInt8) (rest : Bytes) :
    basicUnpad (y :: rest) = if y ≠ 0 then none else basicTail rest := rfl

theorem basicTail_cons_zero (rest : Bytes) : basicTail (0 :: rest) = basicTail rest := by
  simp [basicTail]

theorem basicTail_cons_ne (x : UInt8) (rest : Bytes) (h : x ≠ 0) :
    basicTail (x :: rest) = if x = 0xFF then some rest else none := by
  simp [basicTail, h]

/-- what pad_basic returns from the scan result (pl, ml) -/
def basicOut (m : Nat) (r : Nat × Nat) : Option Bytes :=
  if byteAt m r.2 = 0xFF then some (i2osp (m % 256 ^ r.2) r.2) else none

theorem basicScan_succ (m f pl ml : Nat) : basicScan m (f + 1) pl ml =
    if byteAt m (ml - 1) = 0 ∧ ml - 1 > 0 then basicScan m f (pl + 1) (ml - 1) else (pl + 1, ml - 1) := rfl

theorem basic_aux (rest : Bytes) : ∀ (pre : Bytes) (f pl : Nat), rest ≠ [] → rest.length ≤ f →
    (basicScan (os2ip (pre ++ rest)) f pl rest.length).1 + (basicScan (os2ip (pre ++ rest)) f pl rest.length).2
        = pl + rest.length ∧
    basicOut (os2ip (pre ++ rest)) (basicScan (os2ip (pre ++ rest)) f pl rest.length) = basicTail rest := by
  induction rest with
  | nil => intro _ _ _ h; exact absurd rfl h
  | cons x rest ih =>
    intro pre f pl _ hf
    cases f with
    | zero => simp at hf
    | succ f =>
      have hb : byteAt (os2ip (pre ++ x :: rest)) rest.length = x.toNat := byteAt_mid pre rest x
      rw [basicScan_succ, List.length_cons, Nat.add_sub_cancel, hb]
      by_cases hx : x = 0
      · subst hx
        cases rest with
        | nil =>
          have h0 : ¬ ((0 : UInt8).toNat = 0 ∧ ([] : Bytes).length > 0) := by simp
          rw [if_neg h0]
          refine ⟨by simp, ?_⟩
          have hb0 : byteAt (os2ip (pre ++ [0])) 0 = 0 := hb
          simp [basicOut, hb0, basicTail]
        | cons z rest' =>
          have h1 : (0 : UInt8).toNat = 0 ∧ (z :: rest').length > 0 := ⟨rfl, by simp⟩
          rw [if_pos h1]
          have hpre : pre ++ 0 :: z :: rest' = (pre ++ [0]) ++ z :: rest' := by simp
          rw [hpre, basicTail_cons_zero]
          have := ih (pre ++ [0]) f (pl + 1) (by simp) (by simpa using hf)
          refine ⟨by rw [this.1]; simp only [List.length_cons]; omega, this.2⟩
      · have h0 : ¬ (x.toNat = 0 ∧ rest.length > 0) := fun h => hx ((u8_eq_zero x).1 h.1)
        rw [if_neg h0]
        refine ⟨by simp only []; omega, ?_⟩
        rw [basicTail_cons_ne x rest hx]
        have hm : i2osp (os2ip (pre ++ x :: rest) % 256 ^ rest.length) rest.length = rest := by
          have := i2osp_mod (pre ++ [x]) rest
          rwa [List.append_assoc, List.singleton_append] at this
        simp only [basicOut, hb, u8_eq_ff, hm]

/-- what the lax PKCS#1 decoder does after 00 02 -/
def pkcs1Tail (rest : Bytes) : Option Bytes :=
  match rest.dropWhile (· ≠ 0) with
  | [] => none
  | _ :: m => some m

theorem pkcs1UnpadLax_cons (y t : UInt8) (rest : Bytes) :
    pkcs1UnpadLax (y :: t :: rest) = if y ≠ 0 ∨ t ≠ 2 then none else pkcs1Tail rest := rfl

theorem pkcs1Tail_cons_zero (rest : Bytes) : pkcs1Tail (0 :: rest) = some rest := by
  simp [pkcs1Tail]

theorem pkcs1Tail_cons_ne (x : UInt8) (rest : Bytes) (h : x ≠ 0) : pkcs1Tail (x :: rest) = pkcs1Tail rest := by
  simp [pkcs1Tail, h]

/-- what pad_pkcs1 returns from the scan result ml -/
def pkcs1Out (m ml : Nat) : Option Bytes :=
  if ml > 0 then some (i2osp (m % 256 ^ ml) ml) else none

theorem pkcs1Scan_succ (m f ml : Nat) : pkcs1Scan m (f + 1) ml =
    if byteAt m (ml - 1) ≠ 0 ∧ ml - 1 > 0 then pkcs1Scan m f (ml - 1) else ml - 1 := rfl

theorem pkcs1_aux (rest : Bytes) : ∀ (pre : Bytes) (f : Nat), rest ≠ [] → rest.length ≤ f →
    pkcs1Scan (os2ip (pre ++ rest)) f rest.length ≤ rest.length ∧
    pkcs1Out (os2ip (pre ++ rest)) (pkcs1Scan (os2ip (pre ++ rest)) f rest.length)
      = (pkcs1Tail rest).bind fun m => if m.isEmpty then none else some m := by
  induction rest with
  | nil => intro _ _ h; exact absurd rfl h
  | cons x rest ih =>
    intro pre f _ hf
    cases f with
    | zero => simp at hf
    | succ f =>
      have hb : byteAt (os2ip (pre ++ x :: rest)) rest.length = x.toNat := byteAt_mid pre rest x
      rw [pkcs1Scan_succ, List.length_cons, Nat.add_sub_cancel, hb]
      by_cases hx : x = 0
      · subst hx
        have h0 : ¬ ((0 : UInt8).toNat ≠ 0 ∧ rest.length > 0) := fun h => h.1 rfl
        rw [if_neg h0, pkcs1Tail_cons_zero]
        refine ⟨Nat.le_succ _, ?_⟩
        have hm : i2osp (os2ip (pre ++ 0 :: rest) % 256 ^ rest.length) rest.length = rest := by
          have := i2osp_mod (pre ++ [0]) rest
          rwa [List.append_assoc, List.singleton_append] at this
        cases rest with
        | nil => simp [pkcs1Out]
        | cons z rest' =>
          rw [pkcs1Out, if_pos (by simp), hm]
          simp
      · have hxn : x.toNat ≠ 0 := fun h => hx ((u8_eq_zero x).1 h)
        rw [pkcs1Tail_cons_ne x rest hx]
        cases rest with
        | nil =>
          have h0 : ¬ (x.toNat ≠ 0 ∧ ([] : Bytes).length > 0) := by simp
          rw [if_neg h0]
          simp [pkcs1Out, pkcs1Tail]
        | cons z rest' =>
          have h1 : x.toNat ≠ 0 ∧ (z :: rest').length > 0 := ⟨hxn, by simp⟩
          rw [if_pos h1]
          have hpre : pre ++ x :: z :: rest' = (pre ++ [x]) ++ z :: rest' := by simp
          rw [hpre]
          have := ih (pre ++ [x]) f (by simp) (by simpa using hf)
          exact ⟨Nat.le_succ_of_le this.1, this.2⟩

/-- pad_pkcs1 (RSA_DEC) without the final test on the padding length: the scan itself -/
def padPkcs1DecLax (m k : Nat) : Option (Nat × Nat) :=
  if m / 256 ^ (k - 1) ≠ 0 then none else
  if byteAt m (k - 2) ≠ 2 then none else
  let ml := pkcs1Scan m k (k - 2)
  if ml > 0 then some (m % 256 ^ ml, k - ml) else none

/-- the model is the scan followed by the test |PS| = k − 3 − m_len ≥ 8, i.e. p_len ≥ 11 -/
theorem padPkcs1Dec_eq_lax (m k : Nat) :
    padPkcs1Dec m k = (padPkcs1DecLax m k).bind fun r => if 11 ≤ r.2 then some r else none := by
  unfold padPkcs1Dec padPkcs1DecLax
  by_cases h1 : m / 256 ^ (k - 1) ≠ 0
  · simp [h1]
  · by_cases h2 : byteAt m (k - 2) ≠ 2
    · simp [h1, h2]
    · simp only [if_neg h1, if_neg h2]
      generalize pkcs1Scan m k (k - 2) = ml
      by_cases h3 : ml > 0
      · by_cases h4 : k - 3 - ml ≥ 8
        · have h5 : 11 ≤ k - ml := by omega
          simp [h3, h4, h5]
        · have h5 : ¬ 11 ≤ k - ml := by omega
          simp [h3, h4, h5]
      · simp [h3]

theorem padPkcs1DecLax_snd_le (m k : Nat) (r : Nat × Nat) (h : padPkcs1DecLax m k = some r) : r.2 ≤ k := by
  unfold padPkcs1DecLax at h
  split at h
  · simp at h
  · split at h
    · simp at h
    · simp only at h
      split at h
      · have := Option.some.inj h
        rw [← this]
        exact Nat.sub_le _ _
      · simp at h

/-- the strict decoder is the lax one plus the |PS| ≥ 8 test -/
theorem pkcs1Unpad_eq_lax (em : Bytes) :
    pkcs1Unpad em = (pkcs1UnpadLax em).bind fun m => if em.length < m.length + 11 then none else some m := by
  match em with
  | [] => rfl
  | [_] => rfl
  | y :: t :: rest =>
    simp only [pkcs1Unpad, pkcs1UnpadLax]
    by_cases h : y ≠ 0 ∨ t ≠ 2
    · rw [if_pos h, if_pos h]; rfl
    · rw [if_neg h, if_neg h]
      have hlen := congrArg List.length (List.takeWhile_append_dropWhile (p := fun x : UInt8 => decide (x ≠ 0)) (l := rest))
      rw [List.length_append] at hlen
      rcases hd : rest.dropWhile (fun x : UInt8 => decide (x ≠ 0)) with _ | ⟨z, m⟩
      · rfl
      · rw [hd, List.length_cons] at hlen
        simp only [Option.bind_some, List.length_cons]
        by_cases h8 : (rest.takeWhile (fun x : UInt8 => decide (x ≠ 0))).length < 8
        · rw [if_pos h8, if_pos (by omega)]
        · rw [if_neg h8, if_neg (by omega)]

/-- octet i (counted from the least significant end) of OS2IP(em) -/
theorem byteAt_os2ip (em : Bytes) (i : Nat) (hi : i < em.length) :
    byteAt (os2ip em) i = (em.getD (em.length - 1 - i) 0).toNat := by
  have hj : em.length - 1 - i < em.length := by omega
  have hsplit : em = em.take (em.length - 1 - i) ++ em[em.length - 1 - i] :: em.drop (em.length - 1 - i + 1) := by
    rw [← List.drop_eq_getElem_cons hj, List.take_append_drop]
  have hbl : (em.drop (em.length - 1 - i + 1)).length = i := by rw [List.length_drop]; omega
  have hg : em.getD (em.length - 1 - i) 0 = em[em.length - 1 - i] := by
    rw [List.getD_eq_getElem?_getD, List.getElem?_eq_getElem hj, Option.getD_some]
  rw [hg]
  have := byteAt_mid (em.take (em.length - 1 - i)) (em.drop (em.length - 1 - i + 1)) em[em.length - 1 - i]
  rw [← hsplit, hbl] at this
  exact this

/-- pad_basic (RSA_DEC) = the basic decoder, for every k-octet string, k ≥ 2: same decision, same message octets -/
theorem padBasicDec_eq (k : Nat) (em : Bytes) (hk : 2 ≤ k) (hlen : em.length = k) :
    (padBasicDec (os2ip em) k).map (fun r => i2osp r.1 (k - r.2)) = basicUnpad em := by
  subst hlen
  cases em with
  | nil => simp at hk
  | cons y rest =>
    have hne : rest ≠ [] := by intro h; subst h; simp at hk
    have hk1 : (y :: rest).length - 1 = rest.length := by simp
    rw [basicUnpad_cons]
    unfold padBasicDec
    rw [hk1, os2ip_cons_div]
    by_cases hy : y = 0
    · subst hy
      have e1 : ¬ ((0 : UInt8).toNat ≠ 0) := fun h => h rfl
      have e2 : ¬ ((0 : UInt8) ≠ 0) := fun h => h rfl
      rw [if_neg e1, if_neg e2]
      have haux := basic_aux rest [0] (0 :: rest).length 1 hne (by simp)
      rw [List.singleton_append] at haux
      generalize basicScan (os2ip (0 :: rest)) (0 :: rest).length 1 rest.length = r at haux ⊢
      obtain ⟨pl, ml⟩ := r
      obtain ⟨h1, h2⟩ := haux
      simp only at h1 ⊢
      have hl : (0 :: rest).length - pl = ml := by simp only [List.length_cons]; omega
      rw [← h2, basicOut]
      by_cases hb : byteAt (os2ip (0 :: rest)) ml = 0xFF
      · rw [if_pos hb, if_pos hb, Option.map_some, hl]
      · rw [if_neg hb, if_neg hb, Option.map_none]
    · have e1 : y.toNat ≠ 0 := fun h => hy ((u8_eq_zero y).1 h)
      rw [if_pos e1, if_pos hy, Option.map_none]

/-- the scan of pad_pkcs1 = the lax PKCS#1 v1.5 separation restricted to non-empty messages, for every k-octet string, k ≥ 3 -/
theorem padPkcs1DecLax_eq (k : Nat) (em : Bytes) (hk : 3 ≤ k) (hlen : em.length = k) :
    (padPkcs1DecLax (os2ip em) k).map (fun r => i2osp r.1 (k - r.2))
      = (pkcs1UnpadLax em).bind fun m => if m.isEmpty then none else some m := by
  subst hlen
  cases em with
  | nil => simp at hk
  | cons y em1 =>
    cases em1 with
    | nil => simp at hk
    | cons t rest =>
      have hne : rest ≠ [] := by intro h; subst h; simp at hk
      have hk1 : (y :: t :: rest).length - 1 = (t :: rest).length := by simp
      have hk2 : (y :: t :: rest).length - 2 = rest.length := by simp
      have hbt : byteAt (os2ip (y :: t :: rest)) rest.length = t.toNat := byteAt_mid [y] rest t
      rw [pkcs1UnpadLax_cons]
      unfold padPkcs1DecLax
      rw [hk1, hk2, os2ip_cons_div, hbt]
      by_cases hy : y = 0
      · by_cases ht : t = 2
        · subst hy; subst ht
          have e1 : ¬ ((0 : UInt8).toNat ≠ 0) := fun h => h rfl
          have e2 : ¬ ((2 : UInt8).toNat ≠ 2) := fun h => h rfl
          have e3 : ¬ ((0 : UInt8) ≠ 0 ∨ (2 : UInt8) ≠ 2) := fun h => h.elim (fun h => h rfl) (fun h => h rfl)
          rw [if_neg e1, if_neg e2, if_neg e3]
          have haux := pkcs1_aux rest [0, 2] (0 :: 2 :: rest).length hne (by simp only [List.length_cons]; omega)
          have happ : [0, 2] ++ rest = 0 :: 2 :: rest := rfl
          rw [happ] at haux
          generalize pkcs1Scan (os2ip (0 :: 2 :: rest)) (0 :: 2 :: rest).length rest.length = ml at haux ⊢
          obtain ⟨h1, h2⟩ := haux
          rw [← h2, pkcs1Out]
          simp only []
          have hl : (0 :: 2 :: rest).length - ((0 :: 2 :: rest).length - ml) = ml := by
            simp only [List.length_cons]; omega
          by_cases hml : ml > 0
          · rw [if_pos hml, if_pos hml, Option.map_some, hl]
          · rw [if_neg hml, if_neg hml, Option.map_none]
        · have e1 : ¬ (y.toNat ≠ 0) := fun h => h ((u8_eq_zero y).2 hy)
          have e2 : t.toNat ≠ 2 := fun h => ht ((u8_eq_two t).1 h)
          rw [if_neg e1, if_pos e2, if_pos (Or.inr ht)]; rfl
      · have e1 : y.toNat ≠ 0 := fun h => hy ((u8_eq_zero y).1 h)
        rw [if_pos e1, if_pos (Or.inl hy)]; rfl

/-- pad_pkcs1 (RSA_DEC) = EME-PKCS1-v1_5 decoding (RFC 8017 §7.2.2 step 3, incl. |PS| ≥ 8) restricted to non-empty messages,
    for every k-octet string, k ≥ 3: same decision, same message octets -/
theorem padPkcs1Dec_eq (k : Nat) (em : Bytes) (hk : 3 ≤ k) (hlen : em.length = k) :
    (padPkcs1Dec (os2ip em) k).map (fun r => i2osp r.1 (k - r.2))
      = (pkcs1Unpad em).bind fun m => if m.isEmpty then none else some m := by
  have hlaxeq := padPkcs1DecLax_eq k em hk hlen
  rw [padPkcs1Dec_eq_lax, pkcs1Unpad_eq_lax]
  cases hL : padPkcs1DecLax (os2ip em) k with
  | none =>
    rw [hL, Option.map_none] at hlaxeq
    rw [Option.bind_none, Option.map_none]
    cases hlax : pkcs1UnpadLax em with
    | none => rfl
    | some m' =>
      rw [hlax, Option.bind_some] at hlaxeq
      rw [Option.bind_some]
      cases m' with
      | nil =>
        by_cases hc : em.length < ([] : Bytes).length + 11
        · rw [if_pos hc, Option.bind_none]
        · rw [if_neg hc, Option.bind_some]; rfl
      | cons a b => simp at hlaxeq
  | some r =>
    have hle := padPkcs1DecLax_snd_le _ _ r hL
    rw [hL, Option.map_some] at hlaxeq
    rw [Option.bind_some]
    cases hlax : pkcs1UnpadLax em with
    | none => rw [hlax] at hlaxeq; simp at hlaxeq
    | some m' =>
      rw [hlax, Option.bind_some] at hlaxeq
      rw [Option.bind_some]
      cases m' with
      | nil => simp at hlaxeq
      | cons a b =>
        have hm : i2osp r.1 (k - r.2) = a :: b := by simpa using hlaxeq
        have hml : (a :: b).length = k - r.2 := by rw [← hm, PadC06.i2osp_length]
        by_cases h11 : 11 ≤ r.2
        · have hc : ¬ em.length < (a :: b).length + 11 := by rw [hml, hlen]; omega
          rw [if_pos h11, if_neg hc, Option.map_some, Option.bind_some, hm]; rfl
        · have hc : em.length < (a :: b).length + 11 := by rw [hml, hlen]; omega
          rw [if_neg h11, if_pos hc, Option.map_none, Option.bind_none]

/-- consequently: whenever the standard's decoder accepts a non-empty message, pad_pkcs1 returns exactly it, and whatever
    pad_pkcs1 returns the standard's decoder accepts -/
theorem padPkcs1Dec_complete (k : Nat) (em m : Bytes) (hk : 3 ≤ k) (hlen : em.length = k) (hm : m ≠ []) :
    pkcs1Unpad em = some m ↔ (padPkcs1Dec (os2ip em) k).map (fun r => i2osp r.1 (k - r.2)) = some m := by
  rw [padPkcs1Dec_eq k em hk hlen]
  cases hU : pkcs1Unpad em with
  | none => simp
  | some m' =>
    rw [Option.bind_some]
    cases m' with
    | nil =>
      constructor
      · intro h; exact absurd (Option.some.inj h).symm hm
      · intro h; simp at h
    | cons a b => simp

end Relic.Lemmas.PadModelC06
