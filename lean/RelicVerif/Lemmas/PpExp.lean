/-
Final exponentiation of embedding degree 12 (property C04): the GENERATED chains of Gen/PpExp.lean (translated from
src/pp/relic_pp_exp_k12.c on every run) and the hand model of fp12_exp_cyc_sps, instantiated with a commutative group G
in which `frb a i = a^(p^i)`, `invCyc a = a^(p^6)` (conjugation over the subfield of index 2) and a^(p^12) = a.

Everything after fp12_conv_cyc happens inside the powers of m = f^((p^6−1)(p^2+1)), for which conjugation is inversion;
each operation of `CycOps` maps powers of m to powers of m, so a chain evaluates to m^E for an integer polynomial
expression E in x and p, and E = c·(p^4−p^2+1)/r is a polynomial identity (`ring`).
-/
import Mathlib.Algebra.Group.Basic
import Mathlib.Algebra.Order.Ring.Abs
import Mathlib.Algebra.Order.Ring.Int
import Mathlib.Tactic.Ring
import Mathlib.Tactic.LinearCombination
import RelicVerif.Gen.PpExp

namespace Relic.Lemmas.PpExp
open Relic.Model.PpExp Relic.Gen.PpExp

variable {G : Type} [CommGroup G]

/-- the operations of a commutative group with the p-power map as Frobenius -/
def grpOps (G : Type) [CommGroup G] (p : ℕ) : CycOps G where
  one := 1
  mul a b := a * b
  sqrCyc a := a ^ 2
  sqrPck a := a ^ 2
  back a := a
  invCyc a := a ^ (p ^ 6)
  inv a := a⁻¹
  frb a i := a ^ (p ^ i)

section ops
variable (p : ℕ) (m : G)

theorem mul_zpow' (a b : ℤ) : (grpOps G p).mul (m ^ a) (m ^ b) = m ^ (a + b) := (zpow_add m a b).symm

theorem sqrCyc_zpow (a : ℤ) : (grpOps G p).sqrCyc (m ^ a) = m ^ (a * 2) := by
  show (m ^ a) ^ 2 = _
  rw [← zpow_natCast, ← zpow_mul]; rfl

theorem sqrPck_zpow (a : ℤ) : (grpOps G p).sqrPck (m ^ a) = m ^ (a * 2) := sqrCyc_zpow p m a

theorem frb_zpow (a : ℤ) (i : ℕ) : (grpOps G p).frb (m ^ a) i = m ^ (a * (p : ℤ) ^ i) := by
  show (m ^ a) ^ (p ^ i) = _
  rw [← zpow_natCast, ← zpow_mul]; push_cast; rfl

theorem inv_zpow'' (a : ℤ) : (grpOps G p).inv (m ^ a) = m ^ (-a) := (zpow_neg m a).symm

variable {p m}

theorem invCyc_zpow (hm : m ^ (p ^ 6) = m⁻¹) (a : ℤ) : (grpOps G p).invCyc (m ^ a) = m ^ (-a) := by
  show (m ^ a) ^ (p ^ 6) = _
  rw [← zpow_natCast, ← zpow_mul, mul_comm, zpow_mul, zpow_natCast, hm, inv_zpow, zpow_neg]

theorem sqrN_zpow (a : ℤ) (n : ℕ) : sqrN (grpOps G p) (m ^ a) n = m ^ (a * 2 ^ n) := by
  induction n generalizing a with
  | zero => simp [sqrN]
  | succ n ih => rw [sqrN, sqrPck_zpow, ih]; congr 1; ring

theorem spsLoop_foldl (hm : m ^ (p ^ 6) = m⁻¹) (k : ℤ) (bs : List ℤ) (j : ℕ) (c : G) :
    ((spsLoop (grpOps G p) (m ^ (k * 2 ^ j)) j bs).map (grpOps G p).back).foldl (grpOps G p).mul c
      = c * m ^ (k * spsTerms j bs) := by
  induction bs generalizing j c with
  | nil => simp [spsLoop, spsTerms]
  | cons bi bs ih =>
    have hj : (k * 2 ^ j) * 2 ^ (bi.natAbs - j) = k * 2 ^ (if j < bi.natAbs then bi.natAbs else j) := by
      rw [mul_assoc, ← pow_add]
      congr 2
      split <;> omega
    simp only [spsLoop, spsTerms, List.map_cons, List.foldl_cons, sqrN_zpow, hj]
    rw [ih]
    by_cases hb : bi < 0
    · simp only [hb, if_true, invCyc_zpow hm]
      show c * (m ^ _) * _ = _
      rw [mul_assoc, ← zpow_add]; congr 2; ring
    · simp only [hb, if_false]
      show c * (m ^ _) * _ = _
      rw [mul_assoc, ← zpow_add]; congr 2; ring

/-- **fp12_exp_cyc_sps = exponentiation by the denoted integer** (with the sign as coded), on powers of a cyclotomic m -/
theorem expCycSps_zpow (hm : m ^ (p ^ 6) = m⁻¹) (k : ℤ) (b : List ℤ) (neg : Bool) :
    expCycSps (grpOps G p) (m ^ k) b neg = m ^ (k * (if neg then -spsVal b else spsVal b)) := by
  cases b with
  | nil => cases neg <;> simp [expCycSps, spsVal, spsTerms, grpOps]
  | cons b0 bs =>
    have h0 : m ^ k = m ^ (k * 2 ^ 0) := by simp
    have hneg : ∀ c : G, c = m ^ (k * spsVal (b0 :: bs)) →
        (if neg = true then (grpOps G p).invCyc c else c)
          = m ^ (k * (if neg = true then -spsVal (b0 :: bs) else spsVal (b0 :: bs))) := by
      intro c hc; subst hc; cases neg
      · simp
      · simp only [if_true, invCyc_zpow hm]; congr 1; ring
    simp only [expCycSps]
    apply hneg
    by_cases hb : b0 = 0
    · subst hb
      simp only [beq_self_eq_true, if_true]
      conv_lhs => rw [h0]
      rw [spsLoop_foldl hm, ← h0]
      simp only [spsVal, spsTerms, Int.natAbs_zero, lt_self_iff_false, if_false, pow_zero]
      rw [← zpow_add]
      congr 1; ring
    · have hb' : (b0 == 0) = false := by simpa using hb
      simp only [hb', Bool.false_eq_true, if_false]
      have := spsLoop_foldl (p := p) hm k (b0 :: bs) 0 1
      rw [← h0, one_mul] at this
      unfold spsVal
      rw [← this]
      simp only [spsLoop, List.map_cons, List.foldl_cons]
      congr 1
      show _ = 1 * _
      rw [one_mul]

end ops


/-! ### the sparse form with every position lowered by one (the `_b` array of pp_exp_b12) -/

/-- `_b[i] = b[i] - 1` for positive, `b[i] + 1` otherwise -/
def decAbs (bi : ℤ) : ℤ := if bi > 0 then bi - 1 else bi + 1

theorem spsTerms_dec (bs : List ℤ) (j : ℕ) (h : ∀ bi ∈ bs, 1 ≤ bi ∨ bi ≤ -2) :
    2 * spsTerms j (bs.map decAbs) = spsTerms (j + 1) bs := by
  induction bs generalizing j with
  | nil => simp [spsTerms]
  | cons bi bs ih =>
    have hbi := h bi (by simp)
    have ih' := fun j => ih j (fun c hc => h c (by simp [hc]))
    simp only [List.map_cons, spsTerms]
    have hj : (if j + 1 < bi.natAbs then bi.natAbs else j + 1)
        = (if j < (decAbs bi).natAbs then (decAbs bi).natAbs else j) + 1 := by
      unfold decAbs; split <;> split <;> split <;> omega
    have hs : (decAbs bi < 0) ↔ (bi < 0) := by unfold decAbs; split <;> omega
    rw [hj, ← ih', mul_add]
    congr 1
    by_cases hn : bi < 0
    · simp only [hn, hs.mpr hn, if_true]; ring
    · simp only [hn, mt hs.mp hn, if_false]; ring

theorem spsTerms_one (bs : List ℤ) (h : ∀ bi ∈ bs, 1 ≤ bi ∨ bi ≤ -2) : spsTerms 1 bs = spsTerms 0 bs := by
  cases bs with
  | nil => rfl
  | cons bi bs =>
    have hbi := h bi (by simp)
    simp only [spsTerms]
    have : (if 1 < bi.natAbs then bi.natAbs else 1) = (if 0 < bi.natAbs then bi.natAbs else 0) := by
      split <;> split <;> omega
    rw [this]

/-- the lowered form denotes half the value -/
theorem spsVal_dec (b : List ℤ) (h : ∀ bi ∈ b, 1 ≤ bi ∨ bi ≤ -2) : 2 * spsVal (b.map decAbs) = spsVal b := by
  unfold spsVal; rw [spsTerms_dec b 0 h, spsTerms_one b h]

/-! ### the chains -/
section chains
variable {p : ℕ}

theorem invCyc_zpow_gen (m : G) (a : ℤ) : (grpOps G p).invCyc (m ^ a) = m ^ (a * (p : ℤ) ^ 6) := by
  show (m ^ a) ^ (p ^ 6) = _
  rw [← zpow_natCast, ← zpow_mul]; push_cast; rfl

/-- the exponent of the "easy part" -/
def easyExp (p : ℕ) : ℤ := ((p : ℤ) ^ 6 - 1) * ((p : ℤ) ^ 2 + 1)

/-- **fp12_conv_cyc as coded = f^((p^6−1)(p^2+1))** -/
theorem conv_cyc_eq (f : G) : fp12_conv_cyc (grpOps G p) f = f ^ easyExp p := by
  obtain ⟨g, rfl⟩ : ∃ g : G, g ^ (1 : ℤ) = f := ⟨f, zpow_one f⟩
  simp only [fp12_conv_cyc, inv_zpow'', invCyc_zpow_gen, mul_zpow', frb_zpow, easyExp, ← zpow_mul]
  congr 1; ring

/-- in a group where the twelfth power of the Frobenius is the identity, the easy part lands where conjugation inverts -/
theorem easy_cyclotomic (f : G) (hf : f ^ (p ^ 12) = f) : (f ^ easyExp p) ^ (p ^ 6) = (f ^ easyExp p)⁻¹ := by
  have h1 : f ^ ((p : ℤ) ^ 12 - 1) = 1 := by
    rw [zpow_sub, zpow_one]
    have : f ^ ((p : ℤ) ^ 12) = f := by exact_mod_cast hf
    rw [this, mul_inv_cancel]
  rw [eq_inv_iff_mul_eq_one, ← zpow_natCast, ← zpow_mul, ← zpow_add]
  have : easyExp p * ((p ^ 6 : ℕ) : ℤ) + easyExp p = ((p : ℤ) ^ 12 - 1) * ((p : ℤ) ^ 2 + 1) := by
    unfold easyExp; push_cast; ring
  rw [this, zpow_mul, h1, one_zpow]

/-- and is killed by p^4 − p^2 + 1 -/
theorem easy_phi12 (f : G) (hf : f ^ (p ^ 12) = f) : (f ^ easyExp p) ^ ((p : ℤ) ^ 4 - (p : ℤ) ^ 2 + 1) = 1 := by
  have h1 : f ^ ((p : ℤ) ^ 12 - 1) = 1 := by
    rw [zpow_sub, zpow_one]
    have : f ^ ((p : ℤ) ^ 12) = f := by exact_mod_cast hf
    rw [this, mul_inv_cancel]
  rw [← zpow_mul]
  have : easyExp p * ((p : ℤ) ^ 4 - (p : ℤ) ^ 2 + 1) = (p : ℤ) ^ 12 - 1 := by unfold easyExp; ring
  rw [this, h1]

theorem signed_abs (x : ℤ) : (if decide (x < 0) = true then -|x| else |x|) = x := by
  by_cases hx : x < 0
  · simp [hx, abs_of_neg hx]
  · simp [hx, abs_of_nonneg (not_lt.mp hx)]

/-- **pp_exp_bn (generated from the C text) = f^(c·(p^12−1)/r)** with c = 2x(6x²+3x+1), for every integer x of either sign -/
theorem pp_exp_bn_eq (x r h : ℤ) (hp : (p : ℤ) = 36 * x ^ 4 + 36 * x ^ 3 + 24 * x ^ 2 + 6 * x + 1)
    (hr : r = 36 * x ^ 4 + 36 * x ^ 3 + 18 * x ^ 2 + 6 * x + 1) (hh : h * r = (p : ℤ) ^ 4 - (p : ℤ) ^ 2 + 1)
    (b : List ℤ) (hb : spsVal b = |x|) (f : G) (hf : f ^ (p ^ 12) = f) :
    pp_exp_bn (grpOps G p) (decide (x < 0)) b f = f ^ ((2 * x * (6 * x ^ 2 + 3 * x + 1)) * (easyExp p * h)) := by
  have hm0 := easy_cyclotomic f hf
  have hr0 : r ≠ 0 := by
    have : r = 2 * (18 * x ^ 4 + 18 * x ^ 3 + 9 * x ^ 2 + 3 * x) + 1 := by rw [hr]; ring
    omega
  rw [show f ^ ((2 * x * (6 * x ^ 2 + 3 * x + 1)) * (easyExp p * h)) = (f ^ easyExp p) ^ ((2 * x * (6 * x ^ 2 + 3 * x + 1)) * h) by
    rw [← zpow_mul]; congr 1; ring]
  unfold pp_exp_bn
  rw [conv_cyc_eq]
  obtain ⟨m, hm1⟩ : ∃ m : G, m ^ (1 : ℤ) = f ^ easyExp p := ⟨_, zpow_one _⟩
  have hm : m ^ (p ^ 6) = m⁻¹ := by rw [zpow_one] at hm1; rw [hm1]; exact hm0
  rw [← hm1]
  by_cases hx : x < 0
  · simp only [hx, decide_true, if_true, Bool.false_eq_true, if_false, mul_zpow', sqrCyc_zpow, frb_zpow,
      invCyc_zpow hm, expCycSps_zpow hm, hb, abs_of_neg hx, ← zpow_mul]
    congr 1
    apply mul_right_cancel₀ hr0
    rw [show (1 * (2 * x * (6 * x ^ 2 + 3 * x + 1) * h)) * r = (2 * x * (6 * x ^ 2 + 3 * x + 1)) * (h * r) by ring, hh, hr, hp]
    ring
  · simp only [hx, decide_false, if_true, Bool.false_eq_true, if_false, mul_zpow', sqrCyc_zpow, frb_zpow,
      invCyc_zpow hm, expCycSps_zpow hm, hb, abs_of_nonneg (not_lt.mp hx), ← zpow_mul]
    congr 1
    apply mul_right_cancel₀ hr0
    rw [show (1 * (2 * x * (6 * x ^ 2 + 3 * x + 1) * h)) * r = (2 * x * (6 * x ^ 2 + 3 * x + 1)) * (h * r) by ring, hh, hr, hp]
    ring

/-- **pp_exp_sm9 (generated from the C text) = f^((p^12−1)/r)** (c = 1) for a BN parameter x ≥ 0 (the chain applies the
    conjugations without looking at the sign of x: the dispatcher selects it for SM9_P256 only, whose x is positive) -/
theorem pp_exp_sm9_eq (x r h : ℤ) (hx : 0 ≤ x) (hp : (p : ℤ) = 36 * x ^ 4 + 36 * x ^ 3 + 24 * x ^ 2 + 6 * x + 1)
    (hr : r = 36 * x ^ 4 + 36 * x ^ 3 + 18 * x ^ 2 + 6 * x + 1) (hh : h * r = (p : ℤ) ^ 4 - (p : ℤ) ^ 2 + 1)
    (xneg : Bool) (b : List ℤ) (hb : spsVal b = |x|) (f : G) (hf : f ^ (p ^ 12) = f) :
    pp_exp_sm9 (grpOps G p) xneg b f = f ^ (easyExp p * h) := by
  have hm0 := easy_cyclotomic f hf
  have hr0 : r ≠ 0 := by
    have : r = 2 * (18 * x ^ 4 + 18 * x ^ 3 + 9 * x ^ 2 + 3 * x) + 1 := by rw [hr]; ring
    omega
  rw [show f ^ (easyExp p * h) = (f ^ easyExp p) ^ h by rw [← zpow_mul]]
  unfold pp_exp_sm9
  rw [conv_cyc_eq]
  obtain ⟨m, hm1⟩ : ∃ m : G, m ^ (1 : ℤ) = f ^ easyExp p := ⟨_, zpow_one _⟩
  have hm : m ^ (p ^ 6) = m⁻¹ := by rw [zpow_one] at hm1; rw [hm1]; exact hm0
  rw [← hm1]
  simp only [Bool.false_eq_true, if_false, mul_zpow', sqrCyc_zpow, frb_zpow,
    invCyc_zpow hm, expCycSps_zpow hm, hb, abs_of_nonneg hx, ← zpow_mul]
  congr 1
  apply mul_right_cancel₀ hr0
  rw [show (1 * h) * r = h * r by ring, hh, hr, hp]
  ring

/-- **pp_exp_b12 (generated from the C text) = f^(3·(p^12−1)/r)** for every integer x of either sign, both branches
    (odd parameter: b[0] = 0; even parameter: the Ghammam–Fouotsa variant with the halved sparse form `_b`).
    `hbs`: in the even branch the lowered array is read back by fp12_exp_cyc_sps, which cannot tell −0 from +0, so the
    form must not contain the position −1 (nor a 0 after the head).  fp_prime_set_pairf CAN store −1 (6 = 8 − 2 is stored
    as [−1, 3]); no shipped BLS12 parameter is ≡ 6 mod 8 (findings/C04-ext-notes.md, "latent precondition"). -/
theorem pp_exp_b12_eq (x r h : ℤ) (hp : 3 * (p : ℤ) = (x - 1) ^ 2 * (x ^ 4 - x ^ 2 + 1) + 3 * x)
    (hr : r = x ^ 4 - x ^ 2 + 1) (hh : h * r = (p : ℤ) ^ 4 - (p : ℤ) ^ 2 + 1)
    (b : List ℤ) (hb : spsVal b = |x|) (hbs : b.head? ≠ some 0 → ∀ bi ∈ b, 1 ≤ bi ∨ bi ≤ -2)
    (f : G) (hf : f ^ (p ^ 12) = f) :
    pp_exp_b12 (grpOps G p) (decide (x < 0)) b f = f ^ (3 * (easyExp p * h)) := by
  have hm0 := easy_cyclotomic f hf
  have hr0 : r ≠ 0 := by
    -- x^4 − x^2 + 1 = (x^2 − 1)^2 + x^2 > 0
    have h1 : r = (x ^ 2 - 1) ^ 2 + x ^ 2 := by rw [hr]; ring
    have h2 : 0 ≤ (x ^ 2 - 1) ^ 2 := sq_nonneg _
    have h3 : 0 ≤ x ^ 2 := sq_nonneg _
    intro h0
    have h4 : x ^ 2 = 0 := by omega
    have h5 : (x ^ 2 - 1) ^ 2 = 0 := by omega
    rw [h4] at h5; norm_num at h5
  rw [show f ^ (3 * (easyExp p * h)) = (f ^ easyExp p) ^ (3 * h) by rw [← zpow_mul]; congr 1; ring]
  unfold pp_exp_b12
  rw [conv_cyc_eq]
  obtain ⟨m, hm1⟩ : ∃ m : G, m ^ (1 : ℤ) = f ^ easyExp p := ⟨_, zpow_one _⟩
  have hm : m ^ (p ^ 6) = m⁻¹ := by rw [zpow_one] at hm1; rw [hm1]; exact hm0
  rw [← hm1]
  have key : ∀ E : ℤ, E = (x - 1) ^ 2 * (x + (p : ℤ)) * (x ^ 2 + (p : ℤ) ^ 2 - 1) + 3 → m ^ E = m ^ (1 * (3 * h)) := by
    intro E hE
    congr 1
    apply mul_right_cancel₀ hr0
    rw [show (1 * (3 * h)) * r = 3 * (h * r) by ring, hh, hE, hr]
    linear_combination (-(x + (p : ℤ)) * (x ^ 2 + (p : ℤ) ^ 2 - 1)) * hp
  by_cases h0 : b.head? = some 0
  · simp only [h0, beq_self_eq_true, if_true, mul_zpow', sqrCyc_zpow, frb_zpow,
      invCyc_zpow hm, expCycSps_zpow hm, hb, signed_abs, ← zpow_mul]
    apply key; ring
  · have h0' : (b.head? == some (0 : ℤ)) = false := by simpa using h0
    have hdec : spsVal (List.map (fun bi => if bi > 0 then bi - 1 else bi + 1) b) * 2 = |x| := by
      have := spsVal_dec b (hbs h0)
      rw [← hb, ← this]; unfold decAbs; ring
    have hsg : ∀ v : ℤ, v * 2 = |x| → (if decide (x < 0) = true then -v else v) * 2 = x := by
      intro v hv
      have := signed_abs x
      rw [← hv] at this
      by_cases hx : x < 0
      · rw [decide_eq_true hx] at this ⊢
        simp only [if_true] at this ⊢; omega
      · rw [decide_eq_false hx] at this ⊢
        simp only [Bool.false_eq_true, if_false] at this ⊢; omega
    simp only [h0', Bool.false_eq_true, if_false, mul_zpow', sqrCyc_zpow, frb_zpow,
      invCyc_zpow hm, expCycSps_zpow hm, hb, signed_abs, ← zpow_mul]
    have h2 := hsg _ hdec
    apply key
    linear_combination (x * (x + (p : ℤ)) * (x ^ 2 + (p : ℤ) ^ 2 - 1)) * h2

end chains

end Relic.Lemmas.PpExp
