/-
fb_inv_sim (Montgomery's simultaneous inversion) over GF(2^m) = GF(2)[z]/(f): the model `Model.FbInv.invSim` returns all
inverses when no element is zero and the error of fb_inv otherwise, for every list length ≥ 1.
-/
import Mathlib.Data.List.Forall2
import RelicVerif.Lemmas.Gf2Field
import RelicVerif.Model.FbInv

namespace Relic.Lemmas.FbInvSim
open Polynomial Relic.Spec.Gf2 Relic.Lemmas.Gf2Poly Relic.Lemmas.Gf2Field Relic.Model.FbInv

theorem mul_zero (F : Field) (x : Nat) : F.mul x 0 = 0 := by
  simp [Field.mul, clmul, pmod, bitLen]

theorem zero_mul (F : Field) (x : Nat) : F.mul 0 x = 0 := by
  rw [Field.mul_comm, mul_zero]

/-- reversed products against reversed operands: [P_i, …, P_0] and [a_i, …, a_0] with P_0 = a_0, P_j = P_{j−1}·a_j -/
inductive SimRel (F : Field) : List Nat → List Nat → Prop
  | base (a0 : Nat) : SimRel F [a0] [a0]
  | step (Pprev ai : Nat) (rc ra : List Nat) : SimRel F (Pprev :: rc) ra →
      SimRel F (F.mul Pprev ai :: Pprev :: rc) (ai :: ra)

theorem simBack_spec (F : Field) (hF : F.wellFormed = true) {rcs ra : List Nat} (hr : SimRel F rcs ra) :
    ∀ (u : Nat) (acc : List Nat), bitLen u ≤ F.m → F.mul (rcs.headD 0) u = 1 →
    ∃ out, simBack F.mul rcs.tail ra u acc = out.reverse ++ acc ∧
      List.Forall₂ (fun a x => bitLen x ≤ F.m ∧ F.mul a x = 1) ra out := by
  obtain ⟨_, _, _, hf⟩ := wf_parts hF
  induction hr with
  | base a0 =>
    intro u acc hu h1
    refine ⟨[u], by simp [simBack], ?_⟩
    exact List.Forall₂.cons ⟨hu, by simpa using h1⟩ List.Forall₂.nil
  | step Pprev ai rc ra hrel ih =>
    intro u acc hu h1
    have hX : F.mul (F.mul Pprev ai) u = 1 := by simpa using h1
    obtain ⟨out', ho, hfa⟩ := ih (F.mul u ai) (F.mul u Pprev :: acc) (isElem_mul F hF _ _) (by
      simp only [List.headD_cons]
      rw [Field.mul_comm F u ai, ← Field.mul_assoc F hf]; exact hX)
    refine ⟨F.mul u Pprev :: out', ?_, List.Forall₂.cons ⟨isElem_mul F hF _ _, ?_⟩ hfa⟩
    · simp only [List.tail_cons] at ho ⊢
      rw [simBack, ho]; simp
    · rw [Field.mul_comm F u Pprev, ← Field.mul_assoc F hf, Field.mul_comm F ai Pprev]; exact hX

theorem simRel_build (F : Field) : ∀ (rest : List Nat) (P : Nat) (rc ra : List Nat), SimRel F (P :: rc) ra →
    SimRel F ((P :: simProds F.mul P rest).reverse ++ rc) (rest.reverse ++ ra) := by
  intro rest
  induction rest with
  | nil => intro P rc ra h; simpa [simProds] using h
  | cons a rest ih =>
    intro P rc ra h
    have := ih (F.mul P a) (P :: rc) (a :: ra) (SimRel.step P a rc ra h)
    simpa [simProds, List.reverse_cons, List.append_assoc] using this

/-- a zero among the operands (or a zero running product) makes the last product zero -/
theorem simProds_last_zero (F : Field) : ∀ (rest : List Nat) (P : Nat), (P = 0 ∨ 0 ∈ rest) →
    (simProds F.mul P rest).getLastD P = 0 := by
  intro rest
  induction rest with
  | nil => intro P h; rcases h with h | h
           · simpa [simProds] using h
           · simp at h
  | cons a rest ih =>
    intro P h
    simp only [simProds, List.getLastD_cons]
    apply ih
    rcases h with h | h
    · left; rw [h, zero_mul]
    · rcases List.mem_cons.1 h with h | h
      · left; rw [← h, mul_zero]
      · right; exact h

/-- no zero among the operands: the last product is a non-zero field element -/
theorem simProds_last_ne (F : Field) (hF : F.wellFormed = true) (hirr : Irreducible (toPoly F.f)) :
    ∀ (rest : List Nat) (P : Nat), P ≠ 0 → bitLen P ≤ F.m → (∀ a ∈ rest, a ≠ 0 ∧ bitLen a ≤ F.m) →
    (simProds F.mul P rest).getLastD P ≠ 0 ∧ bitLen ((simProds F.mul P rest).getLastD P) ≤ F.m := by
  intro rest
  induction rest with
  | nil => intro P h0 hP _; simpa [simProds] using ⟨h0, hP⟩
  | cons a rest ih =>
    intro P h0 hP hr
    simp only [simProds, List.getLastD_cons]
    have ha := hr a (by simp)
    apply ih _ _ (isElem_mul F hF _ _) (fun x hx => hr x (by simp [hx]))
    intro h
    rcases mul_eq_zero F hF hirr P a hP ha.2 h with h | h
    · exact h0 h
    · exact ha.1 h

/-- the contract of fb_inv as fb_inv_sim uses it: zero is reported, a non-zero element gets its inverse -/
def InvContract (F : Field) (inv : Nat → Option Nat) : Prop :=
  inv 0 = none ∧ ∀ a, bitLen a ≤ F.m → a ≠ 0 → ∃ u, inv a = some u ∧ bitLen u ≤ F.m ∧ F.mul a u = 1

/-- fb_inv_sim for every list length ≥ 1: all inverses when no element is zero, the error of fb_inv otherwise -/
theorem invSim_spec (F : Field) (hF : F.wellFormed = true) (hirr : Irreducible (toPoly F.f))
    (inv : Nat → Option Nat) (hinv : InvContract F inv)
    (as : List Nat) (hne : as ≠ []) (hel : ∀ a ∈ as, bitLen a ≤ F.m) :
    ((∃ a ∈ as, a = 0) → invSim F.mul inv as = none) ∧
    ((∀ a ∈ as, a ≠ 0) → ∃ out, invSim F.mul inv as = some out ∧
      List.Forall₂ (fun a x => bitLen x ≤ F.m ∧ F.mul a x = 1) as out) := by
  cases as with
  | nil => exact absurd rfl hne
  | cons a0 rest =>
    have hlast : (a0 :: simProds F.mul a0 rest).getLastD 0 = (simProds F.mul a0 rest).getLastD a0 := by
      rw [List.getLastD_cons]
    constructor
    · rintro ⟨a, hmem, rfl⟩
      have hz : (simProds F.mul a0 rest).getLastD a0 = 0 := by
        apply simProds_last_zero
        rcases List.mem_cons.1 hmem with h | h
        · left; exact h.symm
        · right; exact h
      simp only [invSim, hlast, hz, hinv.1]
    · intro hnz
      obtain ⟨hne0, hle⟩ := simProds_last_ne F hF hirr rest a0 (hnz a0 (by simp)) (hel a0 (by simp))
        (fun x hx => ⟨hnz x (by simp [hx]), hel x (by simp [hx])⟩)
      obtain ⟨u, hu, hult, hu1⟩ := hinv.2 _ hle hne0
      have hrel := simRel_build F rest a0 [] [a0] (SimRel.base a0)
      have hrel' : SimRel F (a0 :: simProds F.mul a0 rest).reverse (a0 :: rest).reverse := by
        simpa using hrel
      have hhead : (a0 :: simProds F.mul a0 rest).reverse.headD 0 = (simProds F.mul a0 rest).getLastD a0 := by
        rw [← hlast, List.headD_eq_head?_getD, List.head?_reverse, List.getLastD_eq_getLast?]
      obtain ⟨out, ho, hfa⟩ := simBack_spec F hF hrel' u [] hult (by rw [hhead]; exact hu1)
      refine ⟨out.reverse, ?_, ?_⟩
      · simp only [invSim, hlast, hu, ho, List.append_nil]
      · have := List.rel_reverse hfa
        simpa using this

end Relic.Lemmas.FbInvSim
