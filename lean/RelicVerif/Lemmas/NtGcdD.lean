/-
Termination of the last loop of bn_gcd_ext_binar ("Now fix reciprocals"): with C·x + D·y = 1, x, y > 0, every round in which
|C| > ⌊y/2⌋ strictly decreases |C|; a round with |C| ≤ ⌊y/2⌋ but |D| > ⌊x/2⌋ is possible only for y = 2, C = −1, D = ⌊x/2⌋ + 1,
and the round after it leaves the loop.  Hence fuel |C| + 2 suffices and bn_gcd_ext_binar's model is total.
-/
import RelicVerif.Lemmas.NtGcdC
import Mathlib.Tactic.Linarith

namespace Relic.Lemmas.NtGcd
open Relic.Model.NtGcd

theorem hlv_of_nonneg (t : Int) (h : 0 ≤ t) : hlv t = t / 2 := by
  unfold hlv; exact Int.tdiv_eq_ediv_of_nonneg h

theorem hlv_of_neg (t : Int) (h : t < 0) : hlv t = -((-t) / 2) := by
  unfold hlv
  have : t = -(-t) := by ring
  rw [this, Int.neg_tdiv, Int.tdiv_eq_ediv_of_nonneg (by omega)]
  simp

/-- one round of the loop, as a function (the body of extBinarFix when the condition holds) -/
def fixRound (x y hB : Int) (C D : Int) : Int × Int :=
  let t0 := C / hB
  let t := if t0.natAbs ≥ 2 then hlv t0 else t0
  if decide (C < 0) ≠ decide (y * t < 0) then (C + y * t, D - x * t) else (C - y * t, D + x * t)

theorem ite_pair {α β γ : Type} (c : Prop) [Decidable c] (F : α → β → γ) (a a' : α) (b b' : β) :
    (if c then F a b else F a' b') = F (if c then (a, b) else (a', b')).1 (if c then (a, b) else (a', b')).2 := by
  by_cases h : c <;> simp [h]

theorem extBinarFix_succ (x y hA hB : Int) (f : Nat) (C D : Int) :
    extBinarFix x y hA hB (f + 1) C D =
      if hB ≠ 0 ∧ (C.natAbs > hB.natAbs ∨ D.natAbs > hA.natAbs) then
        extBinarFix x y hA hB f (fixRound x y hB C D).1 (fixRound x y hB C D).2
      else some (C, D) := by
  rw [extBinarFix]
  unfold fixRound
  simp only []
  split
  · split <;> exact ite_pair _ (extBinarFix x y hA hB f) _ _ _ _
  · rfl

/-- case |C| > hB: the round strictly decreases |C| and keeps the Bezout value -/
theorem fixRound_decreases (x y hB C D : Int) (hy : 0 < y) (hB1 : 1 ≤ hB) (hyB : 2 * hB ≤ y ∧ y ≤ 2 * hB + 1)
    (hC : C.natAbs > hB.natAbs) :
    (fixRound x y hB C D).1.natAbs < C.natAbs ∧
    (fixRound x y hB C D).1 * x + (fixRound x y hB C D).2 * y = C * x + D * y := by
  have hBne : hB ≠ 0 := by omega
  have hBpos : 0 < hB := by omega
  have d1 : C / hB * hB ≤ C := Int.ediv_mul_le C hBne
  have d2 : C < (C / hB + 1) * hB := Int.lt_ediv_add_one_mul_self C hBpos
  unfold fixRound
  simp only []
  by_cases hpos : 0 < C
  · -- C > hB > 0: t0 ≥ 1, t ≥ 1
    have hCB : hB + 1 ≤ C := by omega
    have ht0 : 1 ≤ C / hB := by
      by_contra hcon
      have : C / hB + 1 ≤ 1 := by omega
      nlinarith
    by_cases h2 : (C / hB).natAbs ≥ 2
    · simp only [h2, if_true]
      rw [hlv_of_nonneg _ (by omega)]
      have hq : 2 ≤ C / hB := by omega
      -- t = t0 / 2
      have e1 : 2 * (C / hB / 2) ≤ C / hB := by omega
      have e2 : 1 ≤ C / hB / 2 := by omega
      have p1 : y * (C / hB / 2) ≤ 2 * (hB * (C / hB / 2)) + C / hB / 2 := by nlinarith
      have p2 : 2 * (hB * (C / hB / 2)) ≤ C / hB * hB := by nlinarith
      have p3 : C / hB ≤ C / hB * hB := by nlinarith
      have p4 : 0 < y * (C / hB / 2) := Int.mul_pos hy (by omega)
      have hsign : decide (C < 0) = decide (y * (C / hB / 2) < 0) := by
        have a1 : ¬ C < 0 := by omega
        have a2 : ¬ y * (C / hB / 2) < 0 := by omega
        rw [decide_eq_false a1, decide_eq_false a2]
      simp only [hsign, ne_eq, not_true_eq_false, if_false]
      constructor
      · omega
      · ring
    · simp only [h2, if_false]
      have hq : C / hB = 1 := by omega
      rw [hq]
      have hsign : decide (C < 0) = decide (y * 1 < 0) := by
        have a1 : ¬ C < 0 := by omega
        have a2 : ¬ y * 1 < 0 := by omega
        rw [decide_eq_false a1, decide_eq_false a2]
      simp only [hsign, ne_eq, not_true_eq_false, if_false]
      constructor
      · omega
      · ring
  · -- C < −hB
    have hCB : C ≤ -hB - 1 := by omega
    have ht0 : C / hB ≤ -2 := by
      by_contra hcon
      have : -1 ≤ C / hB := by omega
      nlinarith
    have h2 : (C / hB).natAbs ≥ 2 := by omega
    simp only [h2, if_true]
    rw [hlv_of_neg _ (by omega)]
    -- n = −t0 ≥ 2, m = n / 2 ≥ 1, t = −m
    have e1 : 2 * (-(C / hB) / 2) ≤ -(C / hB) := by omega
    have e2 : 1 ≤ -(C / hB) / 2 := by omega
    have e3 : -(C / hB) / 2 ≤ -(C / hB) - 1 := by omega
    have p1 : y * (-(C / hB) / 2) ≤ 2 * (hB * (-(C / hB) / 2)) + -(C / hB) / 2 := by nlinarith
    have p2 : 2 * (hB * (-(C / hB) / 2)) ≤ -(C / hB) * hB := by nlinarith
    have p3 : -(C / hB) * hB ≥ 2 * hB + -(C / hB) - 2 := by nlinarith
    have p4 : 0 < y * (-(C / hB) / 2) := Int.mul_pos hy (by omega)
    have d2' : -C ≥ -(C / hB) * hB - hB + 1 := by nlinarith
    have hsign : decide (C < 0) = decide (y * -(-(C / hB) / 2) < 0) := by
      have a1 : C < 0 := by omega
      have a2 : y * -(-(C / hB) / 2) < 0 := by
        have : y * -(-(C / hB) / 2) = -(y * (-(C / hB) / 2)) := by ring
        omega
      rw [decide_eq_true a1, decide_eq_true a2]
    simp only [hsign, ne_eq, not_true_eq_false, if_false]
    constructor
    · have : C - y * -(-(C / hB) / 2) = C + y * (-(C / hB) / 2) := by ring
      rw [this]; omega
    · ring

/-- case |C| ≤ hB but |D| > hA: only y = 2, C = −1, D = hA + 1, x = 2·hA + 1 -/
theorem fix_caseB (x y hA hB C D : Int) (hx : 0 < x) (hy : 0 < y) (hA0 : 0 ≤ hA) (hxA : 2 * hA ≤ x ∧ x ≤ 2 * hA + 1)
    (hB1 : 1 ≤ hB) (hyB : 2 * hB ≤ y ∧ y ≤ 2 * hB + 1) (hbez : C * x + D * y = 1)
    (hC : ¬ C.natAbs > hB.natAbs) (hD : D.natAbs > hA.natAbs) :
    y = 2 ∧ hB = 1 ∧ C = -1 ∧ D = hA + 1 ∧ x = 2 * hA + 1 := by
  have hCle : -hB ≤ C ∧ C ≤ hB := by omega
  have hDge : D ≥ hA + 1 ∨ D ≤ -hA - 1 := by omega
  -- |D|·y ≤ 1 + |C|·x ≤ 1 + hB·x and |D|·y ≥ (hA+1)·2hB ≥ (x+1)·hB  ⇒  hB ≤ 1
  have k1 : hB = 1 := by
    rcases hDge with hd | hd
    · have : D * y ≥ (hA + 1) * (2 * hB) := by nlinarith
      have : C * x ≥ -(hB * x) := by nlinarith
      have : (hA + 1) * (2 * hB) ≥ (x + 1) * hB := by nlinarith
      nlinarith
    · have : D * y ≤ -((hA + 1) * (2 * hB)) := by nlinarith
      have : C * x ≤ hB * x := by nlinarith
      have : (hA + 1) * (2 * hB) ≥ (x + 1) * hB := by nlinarith
      nlinarith
  subst k1
  have hC3 : C = -1 ∨ C = 0 ∨ C = 1 := by omega
  rcases hC3 with rfl | rfl | rfl
  · -- C = −1: D·y = 1 + x
    rcases hDge with hd | hd
    · have h1 : D * y ≥ (hA + 1) * y := by nlinarith
      have h2 : (hA + 1) * y ≥ (hA + 1) * 2 := by nlinarith
      have hy2 : y = 2 := by
        by_contra hne
        have : y = 3 := by omega
        subst this; nlinarith
      subst hy2
      refine ⟨rfl, rfl, rfl, ?_, ?_⟩ <;> omega
    · have : D * y ≤ 0 := by nlinarith
      omega
  · -- C = 0: D·y = 1 → y = 1, impossible (y ≥ 2)
    rcases hDge with hd | hd
    · have : D * y ≥ 1 * 2 := by nlinarith
      omega
    · have : D * y ≤ 0 := by nlinarith
      omega
  · -- C = 1: D·y = 1 − x ≤ 0
    rcases hDge with hd | hd
    · have : D * y ≥ 1 := by nlinarith
      omega
    · have h1 : D * y ≤ (-hA - 1) * y := by nlinarith
      have h2 : (-hA - 1) * y ≤ (-hA - 1) * 2 := by nlinarith
      omega

/-- the loop is total with fuel |C| + 2 -/
theorem extBinarFix_total (x y : Int) (hx : 0 < x) (hy : 0 < y) (f : Nat) (C D : Int)
    (hbez : C * x + D * y = 1) (hf : C.natAbs + 2 ≤ f) :
    ∃ r, extBinarFix x y (hlv x) (hlv y) f C D = some r := by
  have hAe : hlv x = x / 2 := hlv_of_nonneg x (by omega)
  have hBe : hlv y = y / 2 := hlv_of_nonneg y (by omega)
  rw [hAe, hBe]
  induction f generalizing C D with
  | zero => omega
  | succ f ih =>
    rw [extBinarFix_succ]
    split
    · next hcond =>
      obtain ⟨hBne, hor⟩ := hcond
      have hB1 : 1 ≤ y / 2 := by omega
      have hyB : 2 * (y / 2) ≤ y ∧ y ≤ 2 * (y / 2) + 1 := by omega
      by_cases hC : C.natAbs > (y / 2).natAbs
      · obtain ⟨g1, g2⟩ := fixRound_decreases x y (y / 2) C D hy hB1 hyB hC
        exact ih _ _ (by rw [g2]; exact hbez) (by omega)
      · have hD : D.natAbs > (x / 2).natAbs := by
          rcases hor with h | h
          · exact absurd h hC
          · exact h
        obtain ⟨k1, k2, k3, k4, k5⟩ := fix_caseB x y (x / 2) (y / 2) C D hx hy (by omega) (by omega) hB1 hyB hbez hC hD
        -- the round gives (1, −hA); the next test fails
        have hr : fixRound x y (y / 2) C D = (1, -(x / 2)) := by
          rw [k2, k3, k4, k1]
          unfold fixRound
          simp only []
          have : ((-1 : Int) / 1).natAbs ≥ 2 ↔ False := by decide
          simp only [this, if_false]
          norm_num
          omega
        rw [hr]
        simp only []
        cases f with
        | zero => omega
        | succ f =>
          rw [extBinarFix_succ]
          have hno : ¬ (y / 2 ≠ 0 ∧ ((1 : Int).natAbs > (y / 2).natAbs ∨ (-(x / 2)).natAbs > (x / 2).natAbs)) := by
            rw [k2]; simp
          simp only [hno, if_false]
          exact ⟨_, rfl⟩
    · exact ⟨_, rfl⟩

/-- bn_gcd_ext_binar_imp is total: every loop ends within the fuel the model supplies -/
theorem gcdExtBinarImp_total (a b : Int) : ∃ r, gcdExtBinarImp a b = some r := by
  unfold gcdExtBinarImp
  by_cases ha : a = 0
  · simp [ha]
  · by_cases hb : b = 0
    · simp [ha, hb]
    · simp only [ha, hb, if_false]
      obtain ⟨k, c1, c2, c3, c4, c5⟩ := commonTwos_spec (a.natAbs + 1) a.natAbs b.natAbs 0 (by omega) (Nat.lt_succ_self _)
      generalize commonTwos (a.natAbs + 1) a.natAbs b.natAbs 0 = ct at c1 c2 c3 c4 c5 ⊢
      obtain ⟨xn, yn, s⟩ := ct
      simp only [] at c1 c2 c3 c4 c5 ⊢
      have hyn : yn ≠ 0 := by
        intro h0; rw [h0] at c3; simp at c3; omega
      have hxy : ¬((xn : Int) % 2 = 0 ∧ (yn : Int) % 2 = 0) := by omega
      obtain ⟨s1, s2, k2, s3⟩ := extBinarStrip_spec (xn : Int) (yn : Int) hxy (xn + 1) xn 1 0 c5 (by omega) (by ring)
      generalize extBinarStrip (xn : Int) (yn : Int) (xn + 1) xn 1 0 = st at s1 s2 s3 ⊢
      obtain ⟨un, A, B⟩ := st
      simp only [] at s1 s2 s3 ⊢
      obtain ⟨g, C, D, m1, m2, m3⟩ := extBinarMain_spec (xn : Int) (yn : Int) hxy (2 * (un + yn) + 2) un yn A B 0 1
        (by split <;> omega) s2 hyn (by rw [s1]) (by ring)
      rw [m1]
      simp only []
      have hgg : Nat.gcd un yn = Nat.gcd xn yn := by
        rcases c4 with hx | hy
        · have : k2 = 0 := by
            rcases Nat.eq_zero_or_pos k2 with h0 | hp
            · exact h0
            · exfalso
              have : 2 ∣ xn := by
                rw [s3]; exact Dvd.dvd.mul_left (dvd_pow_self 2 (by omega)) _
              omega
          rw [this] at s3; simp at s3; rw [s3]
        · conv_rhs => rw [s3]
          exact (Nat.Coprime.gcd_mul_right_cancel _ (Nat.Coprime.pow_left k2 (coprime_two_of_odd yn hy))).symm
      have hg0 : g ≠ 0 := by
        rw [m2]; intro h0; exact hyn (Nat.eq_zero_of_gcd_eq_zero_right h0)
      simp only [hg0, if_false]
      have hgpos : (0 : Int) < (g : Int) := by
        have := Nat.pos_of_ne_zero hg0; exact_mod_cast this
      have hgx : (g : Int) ∣ (xn : Int) := by
        rw [m2, hgg]; exact Int.natCast_dvd_natCast.mpr (Nat.gcd_dvd_left _ _)
      have hgy : (g : Int) ∣ (yn : Int) := by
        rw [m2, hgg]; exact Int.natCast_dvd_natCast.mpr (Nat.gcd_dvd_right _ _)
      have ex := Int.mul_ediv_cancel' hgx
      have ey := Int.mul_ediv_cancel' hgy
      have hxpos : (0 : Int) < (xn : Int) / (g : Int) :=
        Int.ediv_pos_of_pos_of_dvd (by have := Nat.pos_of_ne_zero c5; exact_mod_cast this) (by omega) hgx
      have hypos : (0 : Int) < (yn : Int) / (g : Int) :=
        Int.ediv_pos_of_pos_of_dvd (by have := Nat.pos_of_ne_zero hyn; exact_mod_cast this) (by omega) hgy
      have hbez : C * ((xn : Int) / (g : Int)) + D * ((yn : Int) / (g : Int)) = 1 := by
        have e2 : (g : Int) * (C * ((xn : Int) / (g : Int)) + D * ((yn : Int) / (g : Int))) = (g : Int) * 1 := by
          have : (g : Int) * (C * ((xn : Int) / (g : Int)) + D * ((yn : Int) / (g : Int))) =
              C * ((g : Int) * ((xn : Int) / (g : Int))) + D * ((g : Int) * ((yn : Int) / (g : Int))) := by ring
          rw [this, ex, ey, ← m3]; ring
        exact Int.eq_of_mul_eq_mul_left (by omega) e2
      obtain ⟨r, hr⟩ := extBinarFix_total _ _ hxpos hypos (C.natAbs + 2) C D hbez (le_refl _)
      rw [hr]
      exact ⟨_, rfl⟩

/-- bn_gcd_ext_binar: total, c = gcd(a, b) ≥ 0 and a·d + b·e = c for all integers -/
theorem gcdExtBinar_full (a b : Int) :
    ∃ c d e, gcdExtBinar a b = some (c, d, e) ∧ c = (Int.gcd a b : Int) ∧ a * d + b * e = c := by
  obtain ⟨r, hr⟩ := gcdExtBinarImp_total a b
  have h : gcdExtBinar a b = some (extSign a b r) := by unfold gcdExtBinar; rw [hr]; rfl
  refine ⟨(extSign a b r).1, (extSign a b r).2.1, (extSign a b r).2.2, h, ?_⟩
  exact gcdExtBinar_spec a b _ _ _ h

end Relic.Lemmas.NtGcd
