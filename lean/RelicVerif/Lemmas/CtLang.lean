/-
Non-interference for the branch-free language of Model/CtLang.lean: a program that passes the syntactic
discipline `ctL` produces a trace (loop counts and array indices, in order) that depends only on the public
variables of the initial state — not on the contents of any array nor on any secret variable.
-/
import RelicVerif.Model.CtLang

namespace Relic.Model.CtLang

/-! ### state lemmas -/

private theorem lookup_filter_ne (l : List (String × Nat)) (x y : String) (h : x ≠ y) :
    (l.filter (·.1 ≠ y)).lookup x = l.lookup x := by
  induction l with
  | nil => rfl
  | cons p l ih =>
    obtain ⟨a, v⟩ := p
    by_cases hay : a = y
    · subst hay
      have hxa : (x == a) = false := by simpa using h
      simpa [List.lookup_cons, hxa] using ih
    · by_cases hxa : x = a
      · subst hxa
        simp [hay]
      · have hxa' : (x == a) = false := by simpa using hxa
        simpa [hay, List.lookup_cons, hxa'] using ih

private theorem get_set_eq (s : St) (x : String) (v : Nat) : (s.set x v).get x = v := by
  simp [St.get, St.set]

private theorem get_set_ne (s : St) (x y : String) (v : Nat) (h : x ≠ y) : (s.set y v).get x = s.get x := by
  have hxy : (x == y) = false := by simpa using h
  simp only [St.get, St.set, List.lookup_cons, hxy]
  rw [lookup_filter_ne _ _ _ h]

private theorem get_of_vars (s s' : St) (h : s'.vars = s.vars) (x : String) : s'.get x = s.get x := by
  simp only [St.get, h]

private theorem pubEq_of_vars (pub : List String) (s t s' t' : St) (hs : s'.vars = s.vars) (ht : t'.vars = t.vars)
    (h : pubEq pub s t) : pubEq pub s' t' := by
  intro x hx
  rw [get_of_vars s s' hs, get_of_vars t t' ht]
  exact h x hx

private theorem pubEq_set_secret (pub : List String) (s t : St) (x : String) (v v' : Nat)
    (hx : pub.contains x = false) (h : pubEq pub s t) : pubEq pub (s.set x v) (t.set x v') := by
  intro y hy
  have hne : y ≠ x := by
    intro e
    subst e
    have : pub.contains y = true := by simpa using hy
    rw [this] at hx
    exact Bool.noConfusion hx
  rw [get_set_ne _ _ _ _ hne, get_set_ne _ _ _ _ hne]
  exact h y hy

private theorem pubEq_set_both (pub : List String) (s t : St) (i : String) (k : Nat) (h : pubEq pub s t) :
    pubEq (i :: pub) (s.set i k) (t.set i k) := by
  intro y hy
  by_cases hyi : y = i
  · subst hyi
    rw [get_set_eq, get_set_eq]
  · rw [get_set_ne _ _ _ _ hyi, get_set_ne _ _ _ _ hyi]
    have : y ∈ pub := by
      cases hy with
      | head => exact absurd rfl hyi
      | tail _ h' => exact h'
    exact h y this

private theorem pubEq_weaken (pub : List String) (i : String) (s t : St) (h : pubEq (i :: pub) s t) :
    pubEq pub s t := fun x hx => h x (List.mem_cons_of_mem _ hx)

@[simp] private theorem set_trace (s : St) (x : String) (v : Nat) : (s.set x v).trace = s.trace := rfl
@[simp] private theorem setArr_trace (s : St) (a : String) (l : List Nat) : (s.setArr a l).trace = s.trace := rfl
@[simp] private theorem setArr_vars (s : St) (a : String) (l : List Nat) : (s.setArr a l).vars = s.vars := rfl

/-! ### expressions -/

private theorem evalE_pub (pub : List String) (s t : St) (hp : pubEq pub s t) (e : E) (h : pubE pub e = true) :
    evalE s e = evalE t e := by
  induction e with
  | num n => rfl
  | var x =>
    have hx : x ∈ pub := by simpa [pubE] using h
    simp only [evalE, hp x hx]
  | idx a i _ => simp [pubE] at h
  | neg w e ih | bnot w e ih | lnot e ih =>
    simp only [pubE] at h
    simp only [evalE, ih h]
  | xor a b iha ihb | and a b iha ihb | or a b iha ihb | add a b iha ihb | sub a b iha ihb
    | eq a b iha ihb | ne a b iha ihb =>
    simp only [pubE, Bool.and_eq_true] at h
    simp only [evalE, iha h.1, ihb h.2]
  | sel c a b ih =>
    simp only [pubE] at h
    simp only [evalE, ih h]

private theorem evalE_idxPub (pub : List String) (s t : St) (hp : pubEq pub s t) (e : E)
    (h : idxPubE pub e = true) : (evalE s e).2 = (evalE t e).2 := by
  induction e with
  | num n => rfl
  | var x => rfl
  | idx a i _ =>
    simp only [idxPubE] at h
    simp only [evalE, evalE_pub pub s t hp i h]
  | neg w e ih | bnot w e ih | lnot e ih =>
    simp only [idxPubE] at h
    simp only [evalE, ih h]
  | xor a b iha ihb | and a b iha ihb | or a b iha ihb | add a b iha ihb | sub a b iha ihb
    | eq a b iha ihb | ne a b iha ihb =>
    simp only [idxPubE, Bool.and_eq_true] at h
    simp only [evalE, iha h.1, ihb h.2]
  | sel c a b ih =>
    simp only [idxPubE] at h
    simp only [evalE, ih h]

/-! ### equation lemmas of the evaluator in projection form -/

private theorem evalS_assign (s : St) (x : String) (w : Nat) (e : E) :
    evalS s (.assign x w e) = ({ s with trace := s.trace ++ (evalE s e).2 }).set x (red w (evalE s e).1) := by
  rw [evalS.eq_1]

private theorem evalS_store (s : St) (a : String) (i : E) (w : Nat) (e : E) :
    evalS s (.store a i w e) =
      (({ s with trace := s.trace ++ (evalE s i).2 ++ (evalE s e).2 ++ [Ev.wr a (evalE s i).1] } : St)).setArr a
        ((({ s with trace := s.trace ++ (evalE s i).2 ++ (evalE s e).2 ++ [Ev.wr a (evalE s i).1] } : St).arr a).set
          (evalE s i).1 (red w (evalE s e).1)) := by
  rw [evalS.eq_2]

private theorem evalS_for (s : St) (i : String) (n : E) (body : List S) :
    evalS s (.for_ i n body) =
      evalFor i body (evalE s n).1 0 { s with trace := s.trace ++ (evalE s n).2 ++ [Ev.loop (evalE s n).1] } := by
  rw [evalS.eq_3]

private theorem evalS_ret (s : St) (e : E) :
    evalS s (.ret e) = { s with trace := s.trace ++ (evalE s e).2, result := some (evalE s e).1 } := by
  rw [evalS.eq_4]

/-! ### the loop -/

/-- what is proved about a statement list (for every public set and every pair of states) -/
private def NI (body : List S) : Prop :=
  ∀ (pub : List String), ctL pub body = true → ∀ (s t : St), pubEq pub s t → s.trace = t.trace →
    (evalL s body).trace = (evalL t body).trace ∧ pubEq pub (evalL s body) (evalL t body)

private def NIS (st : S) : Prop :=
  ∀ (pub : List String), ctS pub st = true → ∀ (s t : St), pubEq pub s t → s.trace = t.trace →
    (evalS s st).trace = (evalS t st).trace ∧ pubEq pub (evalS s st) (evalS t st)

private theorem evalFor_ni (i : String) (body : List S) (hb : NI body) (pub : List String)
    (h : ctL (i :: pub) body = true) (fuel : Nat) :
    ∀ (k : Nat) (s t : St), pubEq pub s t → s.trace = t.trace →
      (evalFor i body fuel k s).trace = (evalFor i body fuel k t).trace ∧
        pubEq pub (evalFor i body fuel k s) (evalFor i body fuel k t) := by
  induction fuel with
  | zero =>
    intro k s t hp htr
    rw [evalFor.eq_1, evalFor.eq_1]
    exact ⟨htr, hp⟩
  | succ fuel ih =>
    intro k s t hp htr
    rw [evalFor.eq_2, evalFor.eq_2]
    have hstep := hb (i :: pub) h (s.set i k) (t.set i k) (pubEq_set_both pub s t i k hp) htr
    exact ih (k + 1) _ _ (pubEq_weaken pub i _ _ hstep.2) hstep.1

/-! ### statements -/

private theorem ni_assign (x : String) (w : Nat) (e : E) : NIS (.assign x w e) := by
  intro pub h s t hp htr
  rw [ctS.eq_1] at h
  simp only [Bool.and_eq_true, Bool.not_eq_true'] at h
  rw [evalS_assign, evalS_assign]
  refine ⟨?_, ?_⟩
  · simp only [set_trace, htr, evalE_idxPub pub s t hp e h.2]
  · exact pubEq_set_secret pub _ _ x _ _ h.1 (pubEq_of_vars pub s t _ _ rfl rfl hp)

private theorem ni_store (a : String) (i : E) (w : Nat) (e : E) : NIS (.store a i w e) := by
  intro pub h s t hp htr
  rw [ctS.eq_2] at h
  simp only [Bool.and_eq_true] at h
  rw [evalS_store, evalS_store]
  refine ⟨?_, ?_⟩
  · simp only [setArr_trace, htr, evalE_pub pub s t hp i h.1, evalE_idxPub pub s t hp e h.2]
  · exact pubEq_of_vars pub s t _ _ rfl rfl hp

private theorem ni_for (i : String) (n : E) (body : List S) (hb : NI body) : NIS (.for_ i n body) := by
  intro pub h s t hp htr
  rw [ctS.eq_3] at h
  simp only [Bool.and_eq_true] at h
  rw [evalS_for, evalS_for, evalE_pub pub s t hp n h.1]
  apply evalFor_ni i body hb pub h.2
  · exact pubEq_of_vars pub s t _ _ rfl rfl hp
  · simp only [htr]

private theorem ni_ret (e : E) : NIS (.ret e) := by
  intro pub h s t hp htr
  rw [ctS.eq_4] at h
  rw [evalS_ret, evalS_ret]
  refine ⟨?_, ?_⟩
  · simp only [htr, evalE_idxPub pub s t hp e h]
  · exact pubEq_of_vars pub s t _ _ rfl rfl hp

private theorem ni_nil : NI [] := by
  intro pub _ s t hp htr
  rw [evalL.eq_1, evalL.eq_1]
  exact ⟨htr, hp⟩

private theorem ni_cons (st : S) (rest : List S) (h1 : NIS st) (h2 : NI rest) : NI (st :: rest) := by
  intro pub h s t hp htr
  rw [ctL.eq_2] at h
  simp only [Bool.and_eq_true] at h
  rw [evalL.eq_2, evalL.eq_2]
  have hs := h1 pub h.1 s t hp htr
  exact h2 pub h.2 _ _ hs.2 hs.1

private theorem ni_all (body : List S) : NI body :=
  S.rec_1 (motive_1 := NIS) (motive_2 := NI) ni_assign ni_store ni_for ni_ret ni_nil ni_cons body

/-- statement list: same public variables, same trace so far ⇒ same trace afterwards, and the public variables
    still agree -/
theorem ctL_noninterference (pub : List String) (body : List S) (h : ctL pub body = true) (s t : St)
    (hp : pubEq pub s t) (htr : s.trace = t.trace) :
    (evalL s body).trace = (evalL t body).trace ∧ pubEq pub (evalL s body) (evalL t body) :=
  ni_all body pub h s t hp htr

/-- whole programs -/
theorem run_trace_independent (p : Prog) (h : isCT p = true) (s t : St) (hp : pubEq p.pub s t)
    (htr : s.trace = t.trace) : (run p s).trace = (run p t).trace :=
  (ctL_noninterference p.pub p.body h s t hp htr).1

end Relic.Model.CtLang
