/-
Point encodings (Model/EpConv.lean): decoding accepts only valid points and re-encoding reproduces the
input; encode/decode round-trips.
-/
import RelicVerif.Model.EpConv

namespace Relic.Model.EpConv
open Relic.Spec.Curve

/-- contract of the square root: a returned root is canonical and squares to the argument -/
def SrtSound (x : Ctx) : Prop := ∀ a r, x.srt a = some r → r < x.c.p ∧ r * r % x.c.p = a % x.c.p
/-- … and a root is returned whenever one exists -/
def SrtComplete (x : Ctx) : Prop := ∀ a y, y < x.c.p → y * y % x.c.p = a % x.c.p → (x.srt a).isSome

/-- the two roots of a non-zero square have different sign bits (p odd; for the Montgomery-parity convention
    this needs R invertible mod p, for the pairing convention nothing) — stated as a property of the context -/
def SignSeparates (x : Ctx) : Prop := ∀ y, 0 < y → y < x.c.p → signBit x y ≠ signBit x (x.c.p - y)

/-- R3: whatever byte string is accepted denotes a point on the curve with canonical coordinates … -/
theorem readBin_valid (x : Ctx) (hp : 1 < x.c.p) (hs : SrtSound x) (bin : Bytes) (P : Point) (h : readBin x bin = some P) :
    onCurve x.c P = true := by
  sorry

/-- … of one of the three advertised lengths with the matching tag -/
theorem readBin_shape (x : Ctx) (bin : Bytes) (P : Point) (h : readBin x bin = some P) :
    (bin = [0] ∧ P = none) ∨
    (bin.length = x.nb + 1 ∧ (bin.head? = some 2 ∨ bin.head? = some 3) ∧ P ≠ none) ∨
    (bin.length = 2 * x.nb + 1 ∧ bin.head? = some 4 ∧ P ≠ none) := by
  sorry

/-- … and re-encoding it in the same format and length reproduces the input bytes (no malleability) -/
theorem writeBin_readBin (x : Ctx) (hp : 1 < x.c.p) (hnb : x.c.p ≤ 256 ^ x.nb) (hs : SrtSound x) (hsep : SignSeparates x)
    (bin : Bytes) (P : Point) (h : readBin x bin = some P) :
    writeBin x bin.length P (bin.length = x.nb + 1) = some bin := by
  sorry

/-- R1: decode (encode P) = P for every point on the curve, compressed and uncompressed, at the advertised size -/
theorem readBin_writeBin (x : Ctx) (hp : 1 < x.c.p) (hnb : x.c.p ≤ 256 ^ x.nb) (hnb0 : 0 < x.nb) (hs : SrtSound x)
    (hc : SrtComplete x) (hsep : SignSeparates x)
    (P : Point) (hP : onCurve x.c P = true) (pack : Bool) (b : Bytes)
    (h : writeBin x (sizeBin x P pack) P pack = some b) :
    readBin x b = some P := by
  sorry

/-- R2: the buffer check: an error exactly when the buffer is shorter than the advertised size -/
theorem writeBin_error_iff (x : Ctx) (len : Nat) (P : Point) (pack : Bool) :
    writeBin x len P pack = none ↔ len < sizeBin x P pack := by
  sorry

end Relic.Model.EpConv
