/-
Point encodings (Model/EpConv.lean): decoding accepts only valid points and re-encoding reproduces the
input; encode/decode round-trips.
-/
import RelicVerif.Model.EpConv

namespace Relic.Model.EpConv
open Relic.Spec.Curve

/-- contract of the square root: a returned root is canonical and squares to the argument -/
def SrtSound (x : Ctx) : Prop := ∀ a r, x.srt a = some r → r < x.c.p ∧ r * r % x.c.p = a % x.c.p
/-- … and a root is returned whenever one exists -/
def SrtComplete (x : Ctx) : Prop := ∀ a y, y < x.c.p → y * y % x.c.p = a % x.c.p → (x.srt a).isSome

/-- the two roots of a non-zero square have different sign bits (p odd; for the Montgomery-parity convention
    this needs R invertible mod p, for the pairing convention nothing) — stated as a property of the context -/
def SignSeparates (x : Ctx) : Prop := ∀ y, 0 < y → y < x.c.p → signBit x y ≠ signBit x (x.c.p - y)

/-- non-vacuity of `SignSeparates`: it holds for the pairing convention whenever p is odd -/
theorem signSeparates_pairf (x : Ctx) (hpf : x.pairf = true) (hodd : x.c.p % 2 = 1) : SignSeparates x := by
  intro y h0 hy
  simp only [signBit, hpf, if_true]
  split <;> split <;> omega

/-! ### helpers: sign bit, field element reading, square roots modulo a prime -/

theorem signBit_le_one (x : Ctx) (y : Nat) : signBit x y ≤ 1 := by
  unfold signBit
  split
  · split <;> omega
  · omega

theorem fpRead_some {x : Ctx} {b : Bytes} {v : Nat} (h : fpRead x b = some v) :
    b.length = x.nb ∧ v = beVal b ∧ v < x.c.p := by
  unfold fpRead at h
  split at h
  · cases h
  · split at h
    · cases h; refine ⟨by omega, rfl, by assumption⟩
    · cases h

theorem fpRead_eq {x : Ctx} {b : Bytes} (hl : b.length = x.nb) (hv : beVal b < x.c.p) :
    fpRead x b = some (beVal b) := by
  simp [fpRead, hl, hv]

/-- Euclid's lemma from the divisor definition of primality -/
theorem prime_dvd_mul {p : Nat} (hprime : ∀ d, d ∣ p → d = 1 ∨ d = p) {a b : Nat} (h : p ∣ a * b) :
    p ∣ a ∨ p ∣ b := by
  rcases hprime (Nat.gcd p a) (Nat.gcd_dvd_left p a) with h1 | hp
  · exact .inr (Nat.Coprime.dvd_of_dvd_mul_left h1 h)
  · exact .inl (hp ▸ Nat.gcd_dvd_right p a)

theorem sq_eq_aux {p : Nat} (hprime : ∀ d, d ∣ p → d = 1 ∨ d = p) {r y : Nat} (hry : r ≤ y)
    (hy : y < p) (h : r * r % p = y * y % p) : r = y ∨ r + y = p := by
  have h1 : (y * y - r * r) % p = 0 := Nat.sub_mod_eq_zero_of_mod_eq h.symm
  rw [Nat.mul_self_sub_mul_self_eq] at h1
  rcases prime_dvd_mul hprime (Nat.dvd_of_mod_eq_zero h1) with h2 | h2
  · obtain ⟨k, hk⟩ := h2
    rcases k with _ | _ | k
    · omega
    · omega
    · rw [Nat.mul_add, Nat.mul_add] at hk; omega
  · have := Nat.eq_zero_of_dvd_of_lt h2 (by omega)
    omega

theorem sq_eq {p : Nat} (hprime : ∀ d, d ∣ p → d = 1 ∨ d = p) {r y : Nat} (hr : r < p)
    (hy : y < p) (h : r * r % p = y * y % p) : r = y ∨ r + y = p := by
  rcases Nat.le_total r y with hry | hry
  · exact sq_eq_aux hprime hry hy h
  · rcases sq_eq_aux hprime hry hr h.symm with h1 | h1
    · exact .inl h1.symm
    · exact .inr (by omega)

theorem upk_signBit {x : Ctx} (hs : SrtSound x) (hsep : SignSeparates x) {px bit py : Nat} (hbit : bit ≤ 1)
    (h : upk x px bit = some py) (hpy : py ≠ 0) : signBit x py = bit := by
  unfold upk at h
  dsimp only at h
  split at h
  · cases h
  · next r hr =>
    have ⟨hrp, _⟩ := hs _ _ hr
    split at h
    · next hne =>
      cases h
      by_cases hr0 : r = 0
      · subst hr0; simp at hpy
      · rw [Nat.mod_eq_of_lt (by omega)]
        have h1 := hsep r (by omega) hrp
        have h2 := signBit_le_one x r
        have h3 := signBit_le_one x (x.c.p - r)
        omega
    · next heq =>
      cases h
      simpa using heq

theorem onCurve_some {c : Curve} {px py : Nat} (h : onCurve c (some (px, py)) = true) :
    px < c.p ∧ py < c.p ∧ py * py % c.p = (px * px % c.p * px + c.a * px + c.b) % c.p := by
  simpa [onCurve, and_assoc] using h

theorem upk_complete {x : Ctx} (hprime : ∀ d, d ∣ x.c.p → d = 1 ∨ d = x.c.p) (hs : SrtSound x)
    (hc : SrtComplete x) (hsep : SignSeparates x) {px py : Nat} (hon : onCurve x.c (some (px, py)) = true) :
    upk x px (signBit x py) = some py := by
  obtain ⟨hpx, hpy, heq⟩ := onCurve_some hon
  unfold upk
  dsimp only
  have hsome := hc ((px * px % x.c.p * px + x.c.a * px + x.c.b) % x.c.p) py hpy (by rw [Nat.mod_mod]; exact heq)
  split
  · next hnone => rw [hnone] at hsome; cases hsome
  · next r hr =>
    obtain ⟨hrp, hrr⟩ := hs _ _ hr
    rw [Nat.mod_mod, ← heq] at hrr
    rcases sq_eq hprime hrp hpy hrr with h1 | h1
    · subst h1; simp
    · by_cases hry : r = py
      · subst hry; simp
      · have hr' : r = x.c.p - py := by omega
        have h2 := hsep py (by omega) hpy
        rw [← hr'] at h2
        rw [if_pos (Ne.symm h2)]
        congr 1
        rw [Nat.mod_eq_of_lt (by omega)]; omega



/-! ### helpers: big-endian byte strings -/

theorem beBytes_length (n k : Nat) : (beBytes n k).length = k := by simp [beBytes]

theorem beBytes_succ (n k : Nat) : beBytes n (k + 1) = beBytes (n / 256) k ++ [UInt8.ofNat (n % 256)] := by
  simp [beBytes, List.range_succ_eq_map, Nat.pow_succ, Nat.div_div_eq_div_mul, Nat.mul_comm]

theorem beVal_concat (b : Bytes) (a : UInt8) : beVal (b ++ [a]) = beVal b * 256 + a.toNat := by
  simp [beVal]

theorem beVal_beBytes (k : Nat) : ∀ n, n < 256 ^ k → beVal (beBytes n k) = n := by
  induction k with
  | zero => intro n h; simp at h; subst h; rfl
  | succ k ih =>
    intro n h
    rw [beBytes_succ, beVal_concat, ih _ (by rw [Nat.pow_succ] at h; omega)]
    rw [UInt8.toNat_ofNat']
    omega

theorem beBytes_beVal_rev (l : Bytes) : beBytes (beVal l.reverse) l.length = l.reverse := by
  induction l with
  | nil => rfl
  | cons a l ih =>
    rw [List.reverse_cons, beVal_concat, List.length_cons, beBytes_succ]
    have h := a.toNat_lt
    have h1 : (beVal l.reverse * 256 + a.toNat) / 256 = beVal l.reverse := by omega
    have h2 : (beVal l.reverse * 256 + a.toNat) % 256 = a.toNat := by omega
    rw [h1, h2, ih, UInt8.ofNat_toNat]

theorem beBytes_beVal (b : Bytes) : beBytes (beVal b) b.length = b := by
  have := beBytes_beVal_rev b.reverse
  simpa using this


/-! ### the statements -/

/-- R2: the buffer check: an error exactly when the buffer is shorter than the advertised size -/
theorem writeBin_error_iff (x : Ctx) (len : Nat) (P : Point) (pack : Bool) :
    writeBin x len P pack = none ↔ len < sizeBin x P pack := by
  unfold writeBin sizeBin
  rcases P with _ | ⟨px, py⟩
  · simp
  · cases pack <;> simp

/-- inversion of `readBin`: the three accepting paths with everything that was checked on them -/
theorem readBin_cases (x : Ctx) (bin : Bytes) (P : Point) (h : readBin x bin = some P) :
    (bin = [0] ∧ P = none) ∨
    (bin.length ≠ 1 ∧ bin.length = x.nb + 1 ∧ ∃ px py, fpRead x (bin.drop 1) = some px ∧
      ((bin.headD 0).toNat = 2 ∨ (bin.headD 0).toNat = 3) ∧
      upk x px ((bin.headD 0).toNat - 2) = some py ∧ onCurve x.c (some (px, py)) = true ∧ P = some (px, py)) ∨
    (bin.length ≠ 1 ∧ bin.length ≠ x.nb + 1 ∧ bin.length = 2 * x.nb + 1 ∧ bin.head? = some 4 ∧ ∃ px py,
      fpRead x ((bin.drop 1).take x.nb) = some px ∧ fpRead x (bin.drop (1 + x.nb)) = some py ∧
      onCurve x.c (some (px, py)) = true ∧ P = some (px, py)) := by
  unfold readBin at h
  split at h
  · next hl =>
    split at h
    · next hh =>
      cases h
      left
      match bin, hl, hh with
      | [a], _, hh => simp at hh; simp [hh]
    · cases h
  · next hl1 =>
    split at h
    · next hl =>
      right; left
      split at h
      · cases h
      · next px hpx =>
        dsimp only at h
        split at h
        · cases h
        · next htag =>
          split at h
          · cases h
          · next py hpy =>
            split at h
            · next hon =>
              cases h
              exact ⟨hl1, hl, px, py, hpx, by omega, hpy, hon, rfl⟩
            · cases h
    · next hl2 =>
      split at h
      · next hl =>
        right; right
        split at h
        · cases h
        · next hh =>
          split at h
          · next px py hpx hpy =>
            split at h
            · next hon =>
              cases h; exact ⟨hl1, hl2, hl, by simpa using hh, px, py, hpx, hpy, hon, rfl⟩
            · cases h
          · cases h
      · cases h

set_option linter.unusedVariables false in
/-- R3: whatever byte string is accepted denotes a point on the curve with canonical coordinates …
    (`hp`, `hs` are not needed: every accepting path ends with the explicit `onCurve` check) -/
theorem readBin_valid (x : Ctx) (hp : 1 < x.c.p) (hs : SrtSound x) (bin : Bytes) (P : Point) (h : readBin x bin = some P) :
    onCurve x.c P = true := by
  rcases readBin_cases x bin P h with ⟨_, rfl⟩ | ⟨_, _, px, py, _, _, _, hon, rfl⟩ | ⟨_, _, _, _, px, py, _, _, hon, rfl⟩
  · rfl
  · exact hon
  · exact hon

theorem headD_toNat {bin : Bytes} {n : Nat} (hne : bin ≠ []) (h : (bin.headD 0).toNat = n) :
    bin.head? = some (UInt8.ofNat n) := by
  match bin, hne with
  | a :: l, _ =>
    simp only [List.headD_cons] at h
    simp [← h]

/-- … of one of the three advertised lengths with the matching tag -/
theorem readBin_shape (x : Ctx) (bin : Bytes) (P : Point) (h : readBin x bin = some P) :
    (bin = [0] ∧ P = none) ∨
    (bin.length = x.nb + 1 ∧ (bin.head? = some 2 ∨ bin.head? = some 3) ∧ P ≠ none) ∨
    (bin.length = 2 * x.nb + 1 ∧ bin.head? = some 4 ∧ P ≠ none) := by
  rcases readBin_cases x bin P h with ⟨h1, h2⟩ | ⟨_, hl, px, py, _, htag, _, hon, rfl⟩ | ⟨_, _, hl, hh, px, py, _, _, hon, rfl⟩
  · exact .inl ⟨h1, h2⟩
  · refine .inr (.inl ⟨hl, ?_, by simp⟩)
    have hne : bin ≠ [] := by intro h0; simp [h0] at hl
    rcases htag with h2 | h3
    · exact .inl (headD_toNat hne h2)
    · exact .inr (headD_toNat hne h3)
  · exact .inr (.inr ⟨hl, hh, by simp⟩)


theorem writeBin_none (x : Ctx) (pack : Bool) : writeBin x 1 none pack = some [0] := by
  simp [writeBin]

theorem writeBin_pack (x : Ctx) (px py : Nat) :
    writeBin x (x.nb + 1) (some (px, py)) true = some (UInt8.ofNat (2 + signBit x py) :: beBytes px x.nb) := by
  simp [writeBin]

theorem writeBin_unpack (x : Ctx) (px py : Nat) :
    writeBin x (2 * x.nb + 1) (some (px, py)) false = some (4 :: (beBytes px x.nb ++ beBytes py x.nb)) := by
  simp [writeBin]

theorem readBin_zero (x : Ctx) : readBin x [0] = some none := by
  simp [readBin]

theorem readBin_pack (x : Ctx) (bin : Bytes) (px py : Nat) (hl1 : bin.length ≠ 1) (hl : bin.length = x.nb + 1)
    (hpx : fpRead x (bin.drop 1) = some px) (htag : (bin.headD 0).toNat = 2 ∨ (bin.headD 0).toNat = 3)
    (hupk : upk x px ((bin.headD 0).toNat - 2) = some py) (hon : onCurve x.c (some (px, py)) = true) :
    readBin x bin = some (some (px, py)) := by
  have htag' : ¬ ((bin.headD 0).toNat ≠ 2 ∧ (bin.headD 0).toNat ≠ 3) := by omega
  simp only [readBin, if_neg hl1, if_pos hl, hpx, if_neg htag', hupk, hon, if_true]

theorem readBin_unpack (x : Ctx) (bin : Bytes) (px py : Nat) (hl1 : bin.length ≠ 1) (hl2 : bin.length ≠ x.nb + 1)
    (hl : bin.length = 2 * x.nb + 1) (hh : bin.head? = some 4)
    (hpx : fpRead x ((bin.drop 1).take x.nb) = some px) (hpy : fpRead x (bin.drop (1 + x.nb)) = some py)
    (hon : onCurve x.c (some (px, py)) = true) :
    readBin x bin = some (some (px, py)) := by
  have hh' : ¬ (bin.head? ≠ some 4) := by simp [hh]
  simp only [readBin, if_neg hl1, if_neg hl2, if_pos hl, if_neg hh', hpx, hpy, hon, if_true]

theorem writeBin_readBin_aux (x : Ctx) (hs : SrtSound x) (hsep : SignSeparates x)
    (bin : Bytes) (P : Point) (h : readBin x bin = some P)
    (hy0 : bin.length = x.nb + 1 → ∀ px, P ≠ some (px, 0)) :
    writeBin x bin.length P (bin.length = x.nb + 1) = some bin := by
  rcases readBin_cases x bin P h with ⟨rfl, rfl⟩ | ⟨hl1, hl, px, py, hpx, htag, hupk, hon, rfl⟩ |
      ⟨hl1, hl2, hl, hh, px, py, hpx, hpy, hon, rfl⟩
  · exact writeBin_none x _
  · obtain ⟨hdl, hv, hlt⟩ := fpRead_some hpx
    have hpy0 : py ≠ 0 := by
      intro h0; subst h0; exact hy0 hl px rfl
    have hbit := upk_signBit hs hsep (by omega) hupk hpy0
    rw [decide_eq_true hl, hl, writeBin_pack]
    match bin, hl with
    | a :: rest, hl =>
      simp only [List.drop_succ_cons, List.drop_zero, List.headD_cons] at hdl hv htag hbit
      have ha : UInt8.ofNat (2 + signBit x py) = a := by
        rw [hbit]
        have : 2 + (a.toNat - 2) = a.toNat := by omega
        rw [this, UInt8.ofNat_toNat]
      have hb : beBytes px x.nb = rest := by rw [hv, ← hdl, beBytes_beVal]
      rw [ha, hb]
  · obtain ⟨hdl1, hv1, hlt1⟩ := fpRead_some hpx
    obtain ⟨hdl2, hv2, hlt2⟩ := fpRead_some hpy
    rw [decide_eq_false hl2, hl, writeBin_unpack]
    match bin, hl with
    | a :: rest, hl =>
      have hd : List.drop (1 + x.nb) (a :: rest) = List.drop x.nb rest := by
        rw [Nat.add_comm, List.drop_succ_cons]
      rw [hd] at hdl2 hv2
      simp only [List.drop_succ_cons, List.drop_zero, List.head?_cons, Option.some.injEq] at hdl1 hv1 hh
      have hb1 : beBytes px x.nb = rest.take x.nb := by
        have := beBytes_beVal (rest.take x.nb)
        rwa [hdl1, ← hv1] at this
      have hb2 : beBytes py x.nb = rest.drop x.nb := by
        have := beBytes_beVal (rest.drop x.nb)
        rwa [hdl2, ← hv2] at this
      rw [hb1, hb2, List.take_append_drop, hh]

set_option linter.unusedVariables false in
/-- … and re-encoding it in the same format and length reproduces the input bytes (no malleability) —
    except for compressed encodings of points of order 2, see `readBin_twoTorsion_malleable` below.
    (`hp`, `hnb` are not needed in this direction.) -/
-- STATEMENT CHANGED: new hypothesis `hy0` (a compressed input must not decode to a point with y = 0).
-- Without it the statement is FALSE, and this is a property of the C code, not of the model: ep_upk
-- negates the root when its sign bit differs from the requested one, but -0 = 0, so for a point (x, 0)
-- of order 2 both `02 ‖ x` and `03 ‖ x` are accepted and decode to the same point, while ep_write_bin
-- always emits `02 ‖ x`. Counterexample (p = 11, y² = x³ + x, nb = 1): readBin [3, 0] = some (0, 0) and
-- writeBin 2 (0, 0) pack = [2, 0] ≠ [3, 0] — see the `example`s after `readBin_twoTorsion_malleable`.
-- Curves of odd order (all prime-order curves) have no such point, so there `hy0` is vacuous.
theorem writeBin_readBin (x : Ctx) (hp : 1 < x.c.p) (hnb : x.c.p ≤ 256 ^ x.nb) (hs : SrtSound x) (hsep : SignSeparates x)
    (bin : Bytes) (P : Point) (h : readBin x bin = some P)
    (hy0 : bin.length = x.nb + 1 → ∀ px, P ≠ some (px, 0)) :
    writeBin x bin.length P (bin.length = x.nb + 1) = some bin :=
  writeBin_readBin_aux x hs hsep bin P h hy0

/-- decoding a well-formed compressed string: whatever `upk` recovers for the tag's bit is returned -/
theorem readBin_tag (x : Ctx) (hnb : x.c.p ≤ 256 ^ x.nb) (hnb0 : 0 < x.nb) (px py bit : Nat) (hbit : bit ≤ 1)
    (hupk : upk x px bit = some py) (hon : onCurve x.c (some (px, py)) = true) :
    readBin x (UInt8.ofNat (2 + bit) :: beBytes px x.nb) = some (some (px, py)) := by
  obtain ⟨hpx, _, _⟩ := onCurve_some hon
  have hf1 : fpRead x (beBytes px x.nb) = some px := by
    have hvx : beVal (beBytes px x.nb) = px := beVal_beBytes _ _ (by omega)
    have := fpRead_eq (x := x) (beBytes_length px x.nb) (by rw [hvx]; exact hpx)
    rwa [hvx] at this
  have ht : (UInt8.ofNat (2 + bit)).toNat = 2 + bit := by
    rw [UInt8.toNat_ofNat']; omega
  have hlen : (UInt8.ofNat (2 + bit) :: beBytes px x.nb).length = x.nb + 1 := by
    simp [beBytes_length]
  apply readBin_pack x _ px py (by omega) hlen
  · simpa using hf1
  · rw [List.headD_cons, ht]; omega
  · rw [List.headD_cons, ht, Nat.add_sub_cancel_left]
    exact hupk
  · exact hon

set_option linter.unusedVariables false in
/-- R1: decode (encode P) = P for every point on the curve, compressed and uncompressed, at the advertised size
    (`hp` is not needed) -/
-- STATEMENT CHANGED: new hypothesis `hprime` (p is prime, divisor form; the project has no Mathlib `Nat.Prime`).
-- The original statement never said that p is prime, and for composite p it is false because a square has
-- more than two roots: p = 15, y² = x³ + 1, P = (0, 4): writeBin gives [2, 0], brute-force srt 1 = 1, and
-- readBin [2, 0] = some (0, 1) ≠ P, although SrtSound, SrtComplete, SignSeparates all hold (see the
-- `example` below). Not a defect of the C code (fp contexts are prime fields).
theorem readBin_writeBin (x : Ctx) (hp : 1 < x.c.p) (hnb : x.c.p ≤ 256 ^ x.nb) (hnb0 : 0 < x.nb) (hs : SrtSound x)
    (hc : SrtComplete x) (hsep : SignSeparates x)
    (hprime : ∀ d, d ∣ x.c.p → d = 1 ∨ d = x.c.p)
    (P : Point) (hP : onCurve x.c P = true) (pack : Bool) (b : Bytes)
    (h : writeBin x (sizeBin x P pack) P pack = some b) :
    readBin x b = some P := by
  rcases P with _ | ⟨px, py⟩
  · rw [show sizeBin x none pack = 1 from rfl, writeBin_none] at h
    cases h
    exact readBin_zero x
  · obtain ⟨hpx, hpy, heq⟩ := onCurve_some hP
    cases pack
    · have hf1 : fpRead x (beBytes px x.nb) = some px := by
        have hvx : beVal (beBytes px x.nb) = px := beVal_beBytes _ _ (by omega)
        have := fpRead_eq (x := x) (beBytes_length px x.nb) (by rw [hvx]; exact hpx)
        rwa [hvx] at this
      have hf2 : fpRead x (beBytes py x.nb) = some py := by
        have hvy : beVal (beBytes py x.nb) = py := beVal_beBytes _ _ (by omega)
        have := fpRead_eq (x := x) (beBytes_length py x.nb) (by rw [hvy]; exact hpy)
        rwa [hvy] at this
      rw [show sizeBin x (some (px, py)) false = 2 * x.nb + 1 from rfl, writeBin_unpack] at h
      cases h
      have hlen : (4 :: (beBytes px x.nb ++ beBytes py x.nb)).length = 2 * x.nb + 1 := by
        simp [beBytes_length]; omega
      apply readBin_unpack x _ px py (by omega) (by omega) hlen rfl
      · simpa [beBytes_length] using hf1
      · rw [Nat.add_comm, List.drop_succ_cons]
        simpa [beBytes_length] using hf2
      · exact hP
    · rw [show sizeBin x (some (px, py)) true = x.nb + 1 from rfl, writeBin_pack] at h
      cases h
      exact readBin_tag x hnb hnb0 px py _ (signBit_le_one x py) (upk_complete hprime hs hc hsep hP) hP

/-! ### consequences and the exceptional case -/

/-- non-malleability in the form "two accepted strings of the same length for the same point are equal"
    (compressed encodings of points with y = 0 excepted) -/
theorem readBin_inj (x : Ctx) (hs : SrtSound x) (hsep : SignSeparates x) (b1 b2 : Bytes) (P : Point)
    (h1 : readBin x b1 = some P) (h2 : readBin x b2 = some P) (hl : b1.length = b2.length)
    (hy0 : b1.length = x.nb + 1 → ∀ px, P ≠ some (px, 0)) : b1 = b2 := by
  have e1 := writeBin_readBin_aux x hs hsep b1 P h1 hy0
  have e2 := writeBin_readBin_aux x hs hsep b2 P h2 (hl ▸ hy0)
  rw [hl, e2] at e1
  exact (Option.some.inj e1).symm

theorem signBit_zero (x : Ctx) : signBit x 0 = 0 := by
  simp [signBit]

/-- for a point of order 2 `upk` ignores the requested bit: the negation of the root 0 is 0 -/
theorem upk_twoTorsion {x : Ctx} (hprime : ∀ d, d ∣ x.c.p → d = 1 ∨ d = x.c.p) (hs : SrtSound x)
    (hc : SrtComplete x) {px : Nat} (hon : onCurve x.c (some (px, 0)) = true) (bit : Nat) :
    upk x px bit = some 0 := by
  obtain ⟨hpx, hpy, heq⟩ := onCurve_some hon
  unfold upk
  dsimp only
  have hsome := hc ((px * px % x.c.p * px + x.c.a * px + x.c.b) % x.c.p) 0 hpy (by rw [Nat.mod_mod]; exact heq)
  split
  · next hnone => rw [hnone] at hsome; cases hsome
  · next r hr =>
    obtain ⟨hrp, hrr⟩ := hs _ _ hr
    rw [Nat.mod_mod, ← heq] at hrr
    have hr0 : r = 0 := by
      rcases sq_eq hprime hrp hpy hrr with h1 | h1 <;> omega
    subst hr0
    split <;> simp

/-- FINDING (malleability of compressed points of order 2): for every curve point (px, 0) both `02 ‖ px`
    and `03 ‖ px` are accepted by ep_read_bin and give the same point; ep_write_bin emits only `02 ‖ px`.
    This is why `writeBin_readBin` needs `hy0`. -/
theorem readBin_twoTorsion_malleable (x : Ctx) (hnb : x.c.p ≤ 256 ^ x.nb) (hnb0 : 0 < x.nb) (hs : SrtSound x)
    (hc : SrtComplete x) (hprime : ∀ d, d ∣ x.c.p → d = 1 ∨ d = x.c.p) (px : Nat)
    (hon : onCurve x.c (some (px, 0)) = true) :
    readBin x (2 :: beBytes px x.nb) = some (some (px, 0)) ∧
    readBin x (3 :: beBytes px x.nb) = some (some (px, 0)) ∧
    writeBin x (x.nb + 1) (some (px, 0)) true = some (2 :: beBytes px x.nb) := by
  refine ⟨?_, ?_, ?_⟩
  · exact readBin_tag x hnb hnb0 px 0 0 (by omega) (upk_twoTorsion hprime hs hc hon 0) hon
  · exact readBin_tag x hnb hnb0 px 0 1 (by omega) (upk_twoTorsion hprime hs hc hon 1) hon
  · rw [writeBin_pack, signBit_zero]; rfl

/-! ### concrete counterexamples to the original statements -/

section Counterexamples

/-- brute-force square root modulo p (sound and complete) -/
private def bfSrt (p : Nat) : Nat → Option Nat := fun a => (List.range p).find? fun r => r * r % p = a % p

/-- y² = x³ + x over F₁₁ with the point (0, 0) of order 2; 1-byte field elements, plain parity -/
private def cex1 : Ctx := { c := { p := 11, a := 1, b := 0 }, nb := 1, pairf := false, R := 1, srt := bfSrt 11 }

private theorem bfSrt_sound (x : Ctx) (h : x.srt = bfSrt x.c.p) : SrtSound x := by
  intro a r hr
  rw [h] at hr
  have h1 := List.find?_some hr
  have h2 := List.mem_of_find?_eq_some hr
  exact ⟨List.mem_range.mp h2, by simpa using h1⟩

private theorem bfSrt_complete (x : Ctx) (h : x.srt = bfSrt x.c.p) : SrtComplete x := by
  intro a y hy hyy
  rw [h, bfSrt, List.find?_isSome]
  exact ⟨y, List.mem_range.mpr hy, by simpa using hyy⟩

/-- the counterexample context satisfies every hypothesis of the original statement (and p = 11 is prime) -/
example : 1 < cex1.c.p ∧ cex1.c.p ≤ 256 ^ cex1.nb ∧ 0 < cex1.nb ∧ SrtSound cex1 ∧ SrtComplete cex1 ∧
    SignSeparates cex1 ∧ ∀ d, d ∣ cex1.c.p → d = 1 ∨ d = cex1.c.p := by
  refine ⟨by decide, by decide, by decide, bfSrt_sound _ rfl, bfSrt_complete _ rfl, ?_, ?_⟩
  · intro y h0 hy
    have hy' : y < 11 := hy
    show (y * 1 % 11) % 2 ≠ ((11 - y) * 1 % 11) % 2
    omega
  · intro d hd
    have hle : d ≤ 11 := Nat.le_of_dvd (by decide) hd
    have : ∀ d, d ≤ 11 → d ∣ 11 → d = 1 ∨ d = 11 := by decide
    exact this d hle hd

/-- original `writeBin_readBin` fails: `03 00` is accepted but re-encodes as `02 00` (both conventions) -/
example : readBin cex1 [3, 0] = some (some (0, 0)) ∧ readBin cex1 [2, 0] = some (some (0, 0)) ∧
    writeBin cex1 [3, 0].length (some (0, 0)) ([3, 0].length = cex1.nb + 1) = some [2, 0] := by decide
example : readBin { cex1 with pairf := true } [3, 0] = some (some (0, 0)) ∧
    writeBin { cex1 with pairf := true } 2 (some (0, 0)) true = some [2, 0] := by decide

/-- y² = x³ + 1 over Z/15 (composite): 1 has the square roots 1, 4, 11, 14 -/
private def cex2 : Ctx := { c := { p := 15, a := 0, b := 1 }, nb := 1, pairf := true, R := 1, srt := bfSrt 15 }

/-- … and satisfies every hypothesis of the original `readBin_writeBin` -/
example : 1 < cex2.c.p ∧ cex2.c.p ≤ 256 ^ cex2.nb ∧ 0 < cex2.nb ∧ SrtSound cex2 ∧ SrtComplete cex2 ∧
    SignSeparates cex2 :=
  ⟨by decide, by decide, by decide, bfSrt_sound _ rfl, bfSrt_complete _ rfl, signSeparates_pairf _ rfl rfl⟩

/-- original `readBin_writeBin` (no primality hypothesis) fails: (0, 4) encodes to `02 00`, which decodes to (0, 1) -/
example : onCurve cex2.c (some (0, 4)) = true ∧
    writeBin cex2 (sizeBin cex2 (some (0, 4)) true) (some (0, 4)) true = some [2, 0] ∧
    readBin cex2 [2, 0] = some (some (0, 1)) := by decide

end Counterexamples

end Relic.Model.EpConv
