/-
The Frobenius (GLS) loop of Model/Ep2Mul.lean computes Σ_j (±|k_j|) • ψ^j(P) for an additive endomorphism ψ, and the integer form
of bn_rec_frb (BN branch) returns sub-scalars with Σ_j k_j λ^j ≡ k (mod n) whenever the four columns of its coefficient rows
annihilate (1, λ, λ², λ³) modulo n — whatever the rounding of the quotients.
-/
import Mathlib.Algebra.Group.Basic
import Mathlib.Algebra.Module.Basic
import Mathlib.Data.List.GetD
import Mathlib.Tactic.Abel
import Mathlib.Tactic.Ring
import Mathlib.Tactic.LinearCombination
import RelicVerif.Model.Ep2Mul
import RelicVerif.Lemmas.EpSim

namespace Relic.Lemmas.Ep2Mul
open Relic.Model Relic.Model.MulAlg Relic.Model.EbMul Relic.Model.EpMul Relic.Model.Ep2Mul Relic.Lemmas.EbMul Relic.Lemmas.EpSim

variable {G : Type} [AddCommGroup G]

/-- ±ψ as a function that commutes with integer multiples -/
def sψ (ψ : G →+ G) (a b : Bool) (x : G) : G := if a != b then gops.neg (ψ x) else ψ x

theorem sψ_zsmul (ψ : G →+ G) (a b : Bool) (n : ℤ) (x : G) : sψ ψ a b (n • x) = n • sψ ψ a b x := by
  unfold sψ; split <;> simp [map_zsmul]

theorem sψ_eq (ψ : G →+ G) (a b : Bool) (x : G) : sψ ψ a b x = (sg a * sg b) • ψ x := by
  unfold sψ; cases a <;> cases b <;> simp [sg]

/-- the ψ-image of a table of odd multiples of q is the table of odd multiples of ±ψ(q) -/
theorem frbTab_spec (ψ : G →+ G) (a b : Bool) (q : G) (t : List G)
    (ht : ∀ i, i < t.length → t.getD i 0 = (2 * (i : ℤ) + 1) • q) :
    (frbTab gops ψ a b t).length = t.length ∧
    ∀ i, i < (frbTab gops ψ a b t).length → (frbTab gops ψ a b t).getD i 0 = (2 * (i : ℤ) + 1) • sψ ψ a b q := by
  have hlen : (frbTab gops ψ a b t).length = t.length := by unfold frbTab; simp
  refine ⟨hlen, fun i hi => ?_⟩
  rw [hlen] at hi
  have h0 : sψ ψ a b 0 = 0 := by unfold sψ; split <;> simp
  have : (t.map (sψ ψ a b)).getD i (sψ ψ a b 0) = sψ ψ a b (t.getD i 0) := List.getD_map ..
  rw [h0] at this
  show (t.map (sψ ψ a b)).getD i 0 = _
  rw [this, ht i hi, sψ_zsmul]

/-- ep2_mul_gls_imp: width-w NAF digits (zero or odd, |d| < 2·tabLen) -/
theorem mulGls_spec (ψ : G →+ G) (p : G) (tabLen : Nat) (s0 s1 s2 s3 : Bool) (n0 n1 n2 n3 : List Int)
    (hd : ∀ nf ∈ [n0, n1, n2, n3], ∀ d ∈ nf, d = 0 ∨ (d % 2 ≠ 0 ∧ d.natAbs < 2 * tabLen)) :
    mulGls gops ψ p tabLen s0 s1 s2 s3 n0 n1 n2 n3
      = (sg s0 * Rec.eval 1 n0) • p + (sg s1 * Rec.eval 1 n1) • ψ p
        + (sg s2 * Rec.eval 1 n2) • ψ (ψ p) + (sg s3 * Rec.eval 1 n3) • ψ (ψ (ψ p)) := by
  unfold mulGls
  generalize hq0 : (if s0 then gops.neg p else p) = q0
  obtain ⟨hl0, ht0⟩ := tabOdd_spec q0 tabLen
  have ht0' : ∀ i, i < (tabOdd gops q0 tabLen).length → (tabOdd gops q0 tabLen).getD i 0 = (2 * (i : ℤ) + 1) • q0 := by
    rw [hl0]; exact ht0
  obtain ⟨hl1, ht1⟩ := frbTab_spec ψ s0 s1 q0 _ ht0'
  obtain ⟨hl2, ht2⟩ := frbTab_spec ψ s1 s2 _ _ ht1
  obtain ⟨hl3, ht3⟩ := frbTab_spec ψ s2 s3 _ _ ht2
  have hd0 := hd n0 (by simp)
  have hd1 := hd n1 (by simp)
  have hd2 := hd n2 (by simp)
  have hd3 := hd n3 (by simp)
  have key := lot_master [(q0, n0), (sψ ψ s0 s1 q0, n1), (sψ ψ s1 s2 (sψ ψ s0 s1 q0), n2),
      (sψ ψ s2 s3 (sψ ψ s1 s2 (sψ ψ s0 s1 q0)), n3)]
    Prod.fst (fun a i => a.2.getD i 0) (max (max n0.length n1.length) (max n2.length n3.length))
    (fun i r => stepTab gops id (frbTab gops ψ s2 s3 (frbTab gops ψ s1 s2 (frbTab gops ψ s0 s1 (tabOdd gops q0 tabLen))))
      (stepTab gops id (frbTab gops ψ s1 s2 (frbTab gops ψ s0 s1 (tabOdd gops q0 tabLen)))
        (stepTab gops id (frbTab gops ψ s0 s1 (tabOdd gops q0 tabLen))
          (stepTab gops id (tabOdd gops q0 tabLen) (gops.dbl r) (n0.getD i 0)) (n1.getD i 0)) (n2.getD i 0)) (n3.getD i 0))
    (fun i r => by
      rw [stepTab_spec id (fun _ _ => rfl) _ _ ht3 _ _
          (by rw [hl3, hl2, hl1, hl0]; exact getD_zero_prop _ _ (Or.inl rfl) hd3 i),
        stepTab_spec id (fun _ _ => rfl) _ _ ht2 _ _
          (by rw [hl2, hl1, hl0]; exact getD_zero_prop _ _ (Or.inl rfl) hd2 i),
        stepTab_spec id (fun _ _ => rfl) _ _ ht1 _ _
          (by rw [hl1, hl0]; exact getD_zero_prop _ _ (Or.inl rfl) hd1 i),
        stepTab_spec id (fun _ _ => rfl) _ _ ht0' _ _
          (by rw [hl0]; exact getD_zero_prop _ _ (Or.inl rfl) hd0 i), gops_dbl]
      simp [add_assoc])
  refine key.trans ?_
  simp only [List.map_cons, List.map_nil, List.sum_cons, List.sum_nil, add_zero]
  rw [← eval_eq_sum _ n0 (le_trans (le_max_left _ _) (le_max_left _ _)),
    ← eval_eq_sum _ n1 (le_trans (le_max_right _ _) (le_max_left _ _)),
    ← eval_eq_sum _ n2 (le_trans (le_max_left _ _) (le_max_right _ _)),
    ← eval_eq_sum _ n3 (le_trans (le_max_right _ _) (le_max_right _ _)), ← hq0]
  simp only [sψ_eq, map_zsmul, smul_smul]
  cases s0 <;> cases s1 <;> cases s2 <;> cases s3 <;> simp [sg, add_assoc]

/-- a four-term GLS sum acts like the scalar: ψ(P) = λ•P, n•P = 0, k0 + k1 λ + k2 λ² + k3 λ³ ≡ k (mod n) -/
theorem gls_sum_zsmul (ψ : G →+ G) (p : G) (n : Nat) (hn : (n : ℤ) • p = 0) (lam : ℤ) (hψ : ψ p = lam • p)
    (k k0 k1 k2 k3 : ℤ) (hk : (n : ℤ) ∣ k0 + k1 * lam + k2 * lam ^ 2 + k3 * lam ^ 3 - k) :
    k0 • p + k1 • ψ p + k2 • ψ (ψ p) + k3 • ψ (ψ (ψ p)) = k • p := by
  obtain ⟨c, hc⟩ := hk
  have e : k0 + k1 * lam + k2 * lam ^ 2 + k3 * lam ^ 3 = k + c * n := by linear_combination hc
  simp only [hψ, map_zsmul, smul_smul, ← add_smul]
  have e2 : k0 + k1 * lam + k2 * (lam * lam) + k3 * (lam * lam * lam) = k + c * n := by rw [← e]; ring
  rw [e2, add_smul, mul_smul, hn, smul_zero, add_zero]

/-! ### bn_rec_frb, BN branch -/

theorem centre_congr (n : Nat) (hn0 : 0 < n) (A : ℤ) : ∃ t : ℤ, centre n (A % (n : ℤ)).toNat = A + n * t := by
  have h1 : (((A % (n : ℤ)).toNat : ℕ) : ℤ) = A % n := Int.toNat_of_nonneg (Int.emod_nonneg _ (by omega))
  unfold centre
  split
  · exact ⟨-(A / n), by rw [h1, Int.emod_def]; ring⟩
  · exact ⟨-(A / n) - 1, by rw [h1, Int.emod_def]; ring⟩

/-- the sub-scalars of bn_rec_frb (BN branch) recombine to k modulo n for ANY quotients b_i, as soon as the four columns of the
    coefficient rows annihilate (1, λ, λ², λ³) modulo n -/
theorem recFrbBN_congr (n : Nat) (hn0 : 0 < n) (x lam : ℤ)
    (h0 : (n : ℤ) ∣ (x + 1) + x * lam + x * lam ^ 2 + (-2 * x) * lam ^ 3)
    (h1 : (n : ℤ) ∣ (2 * x + 1) + (-x) * lam + (-(x + 1)) * lam ^ 2 + (-x) * lam ^ 3)
    (h2 : (n : ℤ) ∣ 2 * x + (2 * x + 1) * lam + (2 * x + 1) * lam ^ 2 + (2 * x + 1) * lam ^ 3)
    (h3 : (n : ℤ) ∣ (x - 1) + (4 * x + 2) * lam + (-(2 * x - 1)) * lam ^ 2 + (x - 1) * lam ^ 3)
    (k : Nat) (k0 k1 k2 k3 : ℤ) (h : recFrbBN k n x = [k0, k1, k2, k3]) :
    (n : ℤ) ∣ k0 + k1 * lam + k2 * lam ^ 2 + k3 * lam ^ 3 - k := by
  unfold recFrbBN at h
  simp only [List.cons.injEq, and_true] at h
  obtain ⟨e0, e1, e2, e3⟩ := h
  generalize frbQuot (2 * x * x + 3 * x + 1) k n = b0 at *
  generalize frbQuot (12 * x * x * x + 8 * x * x + x) k n = b1 at *
  generalize frbQuot (6 * x * x * x + 4 * x * x + x) k n = b2 at *
  generalize frbQuot (-(2 * x * x + x)) k n = b3 at *
  obtain ⟨t0, ht0⟩ := centre_congr n hn0 ((k : ℤ) - ((x + 1) * b0 + (2 * x + 1) * b1 + 2 * x * b2 + (x - 1) * b3))
  obtain ⟨t1, ht1⟩ := centre_congr n hn0 (-(x * b0 + -x * b1 + (2 * x + 1) * b2 + (4 * x + 2) * b3))
  obtain ⟨t2, ht2⟩ := centre_congr n hn0 (-(x * b0 + -(x + 1) * b1 + (2 * x + 1) * b2 + -(2 * x - 1) * b3))
  obtain ⟨t3, ht3⟩ := centre_congr n hn0 (-(-2 * x * b0 + -x * b1 + (2 * x + 1) * b2 + (x - 1) * b3))
  rw [ht0] at e0
  rw [ht1] at e1
  rw [ht2] at e2
  rw [ht3] at e3
  obtain ⟨c0, hc0⟩ := h0
  obtain ⟨c1, hc1⟩ := h1
  obtain ⟨c2, hc2⟩ := h2
  obtain ⟨c3, hc3⟩ := h3
  refine ⟨t0 + t1 * lam + t2 * lam ^ 2 + t3 * lam ^ 3 - (b0 * c0 + b1 * c1 + b2 * c2 + b3 * c3), ?_⟩
  linear_combination (-1 : ℤ) * e0 - lam * e1 - lam ^ 2 * e2 - lam ^ 3 * e3 - b0 * hc0 - b1 * hc1 - b2 * hc2 - b3 * hc3

end Relic.Lemmas.Ep2Mul
