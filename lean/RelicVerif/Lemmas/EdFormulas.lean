/-
The generated Edwards formula code (RelicVerif/Gen/EdFormulas.lean, regenerated from src/ed/relic_ed_add.c,
relic_ed_dbl.c, relic_ed_neg.c, relic_ed_norm.c, relic_ed_util.c on every run) computes the affine twisted-Edwards law,
over an arbitrary field.

Part 1 (any operation record, any carrier): every aliased variant (`_a1` r = p, `_a2` r = q, `_a3` p = q, `_a4` r = p = q)
is *definitionally* the plain function applied to the shared argument — no formula overwrites an operand it still needs.
Part 2 (a field): affine, projective (Bernstein–Birkner–Joye–Lange–Peters 2008) and extended (Hisil–Wong–Carter–Dawson
2008) addition and doubling return a representation of the affine sum, and the extended ones re-establish T·Z = X·Y;
negation, subtraction, normalisation.  The completeness hypotheses (1 ± d·x1·x2·y1·y2 ≠ 0) are explicit; Lemmas/EdGroup.lean
proves that they always hold on curve points when a is a square and d is not.
-/
import Mathlib.Algebra.Field.Defs
import Mathlib.Algebra.Field.Basic
import Mathlib.Tactic.FieldSimp
import Mathlib.Tactic.Ring
import Mathlib.Tactic.LinearCombination
import Mathlib.Tactic.SplitIfs
import RelicVerif.Gen.EdFormulas

namespace Relic.Lemmas.EdFormulas
open Relic.Model.Formula Relic.Gen

set_option linter.unusedSimpArgs false
set_option linter.unusedSectionVars false
set_option linter.unusedVariables false
set_option linter.unnecessarySeqFocus false

/-! ### Part 1: aliasing is harmless (for every carrier and every operation record) -/
section Alias
variable {C : Type} (o : FOps C) (cv : EdC C)

-- the build with extended coordinates
theorem ext_copy_a1 (p : EPt C) : Ed.ed_copy_a1 o cv p = Ed.ed_copy o cv p p := rfl
theorem ext_neg_basic_a1 (p : EPt C) : Ed.ed_neg_basic_a1 o cv p = Ed.ed_neg_basic o cv p p := rfl
theorem ext_neg_projc_a1 (p : EPt C) : Ed.ed_neg_projc_a1 o cv p = Ed.ed_neg_projc o cv p p := rfl
theorem ext_dbl_basic_a1 (p : EPt C) : Ed.ed_dbl_basic_a1 o cv p = Ed.ed_dbl_basic o cv p p := rfl
theorem ext_dbl_projc_a1 (p : EPt C) : Ed.ed_dbl_projc_a1 o cv p = Ed.ed_dbl_projc o cv p p := rfl
theorem ext_dbl_extnd_a1 (p : EPt C) : Ed.ed_dbl_extnd_a1 o cv p = Ed.ed_dbl_extnd o cv p p := rfl
theorem ext_norm_imp_a1 (p : EPt C) : Ed.ed_norm_imp_a1 o cv p = Ed.ed_norm_imp o cv p p := rfl
theorem ext_norm_a1 (p : EPt C) : Ed.ed_norm_a1 o cv p = Ed.ed_norm o cv p p := rfl
theorem ext_add_basic_a1 (p q : EPt C) : Ed.ed_add_basic_a1 o cv p q = Ed.ed_add_basic o cv p p q := rfl
theorem ext_add_basic_a2 (p q : EPt C) : Ed.ed_add_basic_a2 o cv p q = Ed.ed_add_basic o cv q p q := rfl
theorem ext_add_basic_a3 (r p : EPt C) : Ed.ed_add_basic_a3 o cv r p = Ed.ed_add_basic o cv r p p := rfl
theorem ext_add_basic_a4 (p : EPt C) : Ed.ed_add_basic_a4 o cv p = Ed.ed_add_basic o cv p p p := rfl
theorem ext_add_projc_a1 (p q : EPt C) : Ed.ed_add_projc_a1 o cv p q = Ed.ed_add_projc o cv p p q := rfl
theorem ext_add_projc_a2 (p q : EPt C) : Ed.ed_add_projc_a2 o cv p q = Ed.ed_add_projc o cv q p q := rfl
theorem ext_add_projc_a3 (r p : EPt C) : Ed.ed_add_projc_a3 o cv r p = Ed.ed_add_projc o cv r p p := rfl
theorem ext_add_projc_a4 (p : EPt C) : Ed.ed_add_projc_a4 o cv p = Ed.ed_add_projc o cv p p p := rfl
theorem ext_add_extnd_a1 (p q : EPt C) : Ed.ed_add_extnd_a1 o cv p q = Ed.ed_add_extnd o cv p p q := rfl
theorem ext_add_extnd_a2 (p q : EPt C) : Ed.ed_add_extnd_a2 o cv p q = Ed.ed_add_extnd o cv q p q := rfl
theorem ext_add_extnd_a3 (r p : EPt C) : Ed.ed_add_extnd_a3 o cv r p = Ed.ed_add_extnd o cv r p p := rfl
theorem ext_add_extnd_a4 (p : EPt C) : Ed.ed_add_extnd_a4 o cv p = Ed.ed_add_extnd o cv p p p := rfl
-- subtraction with the result over an operand; `p == q` (pointer equality) short-cuts to the neutral element
theorem ext_sub_basic_a1 (p q : EPt C) : Ed.ed_sub_basic_a1 o cv p q = Ed.ed_sub_basic o cv p p q := rfl
theorem ext_sub_basic_a2 (p q : EPt C) : Ed.ed_sub_basic_a2 o cv p q = Ed.ed_sub_basic o cv q p q := rfl
theorem ext_sub_projc_a1 (p q : EPt C) : Ed.ed_sub_projc_a1 o cv p q = Ed.ed_sub_projc o cv p p q := rfl
theorem ext_sub_projc_a2 (p q : EPt C) : Ed.ed_sub_projc_a2 o cv p q = Ed.ed_sub_projc o cv q p q := rfl
theorem ext_sub_extnd_a1 (p q : EPt C) : Ed.ed_sub_extnd_a1 o cv p q = Ed.ed_sub_extnd o cv p p q := rfl
theorem ext_sub_extnd_a2 (p q : EPt C) : Ed.ed_sub_extnd_a2 o cv p q = Ed.ed_sub_extnd o cv q p q := rfl
theorem ext_sub_same (r p : EPt C) :
    Ed.ed_sub_basic_a3 o cv r p = Ed.ed_set_infty o cv r ∧ Ed.ed_sub_projc_a3 o cv r p = Ed.ed_set_infty o cv r ∧
    Ed.ed_sub_extnd_a3 o cv r p = Ed.ed_set_infty o cv r ∧ Ed.ed_sub_basic_a4 o cv p = Ed.ed_set_infty o cv p ∧
    Ed.ed_sub_projc_a4 o cv p = Ed.ed_set_infty o cv p ∧ Ed.ed_sub_extnd_a4 o cv p = Ed.ed_set_infty o cv p :=
  ⟨rfl, rfl, rfl, rfl, rfl, rfl⟩

-- the builds without the fourth coordinate (PROJC, BASIC): same statements
theorem prj_copy_a1 (p : EPt C) : EdP.ed_copy_a1 o cv p = EdP.ed_copy o cv p p := rfl
theorem prj_neg_basic_a1 (p : EPt C) : EdP.ed_neg_basic_a1 o cv p = EdP.ed_neg_basic o cv p p := rfl
theorem prj_neg_projc_a1 (p : EPt C) : EdP.ed_neg_projc_a1 o cv p = EdP.ed_neg_projc o cv p p := rfl
theorem prj_dbl_basic_a1 (p : EPt C) : EdP.ed_dbl_basic_a1 o cv p = EdP.ed_dbl_basic o cv p p := rfl
theorem prj_dbl_projc_a1 (p : EPt C) : EdP.ed_dbl_projc_a1 o cv p = EdP.ed_dbl_projc o cv p p := rfl
theorem prj_dbl_extnd_a1 (p : EPt C) : EdP.ed_dbl_extnd_a1 o cv p = EdP.ed_dbl_extnd o cv p p := rfl
theorem prj_norm_imp_a1 (p : EPt C) : EdP.ed_norm_imp_a1 o cv p = EdP.ed_norm_imp o cv p p := rfl
theorem prj_norm_a1 (p : EPt C) : EdP.ed_norm_a1 o cv p = EdP.ed_norm o cv p p := rfl
theorem prj_add_basic_a1 (p q : EPt C) : EdP.ed_add_basic_a1 o cv p q = EdP.ed_add_basic o cv p p q := rfl
theorem prj_add_basic_a2 (p q : EPt C) : EdP.ed_add_basic_a2 o cv p q = EdP.ed_add_basic o cv q p q := rfl
theorem prj_add_basic_a3 (r p : EPt C) : EdP.ed_add_basic_a3 o cv r p = EdP.ed_add_basic o cv r p p := rfl
theorem prj_add_basic_a4 (p : EPt C) : EdP.ed_add_basic_a4 o cv p = EdP.ed_add_basic o cv p p p := rfl
theorem prj_add_projc_a1 (p q : EPt C) : EdP.ed_add_projc_a1 o cv p q = EdP.ed_add_projc o cv p p q := rfl
theorem prj_add_projc_a2 (p q : EPt C) : EdP.ed_add_projc_a2 o cv p q = EdP.ed_add_projc o cv q p q := rfl
theorem prj_add_projc_a3 (r p : EPt C) : EdP.ed_add_projc_a3 o cv r p = EdP.ed_add_projc o cv r p p := rfl
theorem prj_add_projc_a4 (p : EPt C) : EdP.ed_add_projc_a4 o cv p = EdP.ed_add_projc o cv p p p := rfl
theorem prj_sub_basic_a1 (p q : EPt C) : EdP.ed_sub_basic_a1 o cv p q = EdP.ed_sub_basic o cv p p q := rfl
theorem prj_sub_basic_a2 (p q : EPt C) : EdP.ed_sub_basic_a2 o cv p q = EdP.ed_sub_basic o cv q p q := rfl
theorem prj_sub_projc_a1 (p q : EPt C) : EdP.ed_sub_projc_a1 o cv p q = EdP.ed_sub_projc o cv p p q := rfl
theorem prj_sub_projc_a2 (p q : EPt C) : EdP.ed_sub_projc_a2 o cv p q = EdP.ed_sub_projc o cv q p q := rfl
theorem prj_add_extnd_a1 (p q : EPt C) : EdP.ed_add_extnd_a1 o cv p q = EdP.ed_add_extnd o cv p p q := rfl
theorem prj_add_extnd_a2 (p q : EPt C) : EdP.ed_add_extnd_a2 o cv p q = EdP.ed_add_extnd o cv q p q := rfl
theorem prj_add_extnd_a3 (r p : EPt C) : EdP.ed_add_extnd_a3 o cv r p = EdP.ed_add_extnd o cv r p p := rfl
theorem prj_add_extnd_a4 (p : EPt C) : EdP.ed_add_extnd_a4 o cv p = EdP.ed_add_extnd o cv p p p := rfl
theorem prj_sub_extnd_a1 (p q : EPt C) : EdP.ed_sub_extnd_a1 o cv p q = EdP.ed_sub_extnd o cv p p q := rfl
theorem prj_sub_extnd_a2 (p q : EPt C) : EdP.ed_sub_extnd_a2 o cv p q = EdP.ed_sub_extnd o cv q p q := rfl

/-- the formula code proper does not depend on the build: only ed_neg_projc, ed_set_infty, ed_copy, ed_norm_imp do -/
theorem prj_formulas_eq :
    (@EdP.ed_add_basic C = @Ed.ed_add_basic C) ∧ (@EdP.ed_add_projc C = @Ed.ed_add_projc C) ∧
    (@EdP.ed_add_extnd C = @Ed.ed_add_extnd C) ∧ (@EdP.ed_dbl_basic C = @Ed.ed_dbl_basic C) ∧
    (@EdP.ed_dbl_projc C = @Ed.ed_dbl_projc C) ∧ (@EdP.ed_dbl_extnd C = @Ed.ed_dbl_extnd C) :=
  ⟨rfl, rfl, rfl, rfl, rfl, rfl⟩

end Alias

/-! ### Part 2: over a field, the formulas compute the affine law -/
section Field
variable {F : Type} [Field F] [DecidableEq F]

/-- the operations of the field -/
def fieldOps : FOps F :=
  { zero := 0, one := 1, add := (· + ·), sub := (· - ·), mul := (· * ·), neg := Neg.neg, sqr := fun a => a * a,
    dbl := fun a => a + a, hlv := fun a => a / 2, inv := fun a => a⁻¹, ofNat := fun n => (n : F),
    isZero := fun a => decide (a = 0) }

def addX (d x1 y1 x2 y2 : F) : F := (x1 * y2 + y1 * x2) / (1 + d * x1 * x2 * y1 * y2)
def addY (a d x1 y1 x2 y2 : F) : F := (y1 * y2 - a * x1 * x2) / (1 - d * x1 * x2 * y1 * y2)
def OnCurve (cv : EdC F) (x y : F) : Prop := cv.a * x ^ 2 + y ^ 2 = 1 + cv.d * x ^ 2 * y ^ 2
def Rep (r : EPt F) (x y : F) : Prop := r.z ≠ 0 ∧ r.x = x * r.z ∧ r.y = y * r.z
def RepT (r : EPt F) (x y : F) : Prop := Rep r x y ∧ r.t = x * y * r.z
/-- the library's invariant on points flagged affine -/
def BasicZ1 (r : EPt F) : Prop := r.coord = .basic → r.z = 1

theorem isInfty_iff (p : EPt F) :
    EPt.isInfty fieldOps p = true ↔ p.x = 0 ∧ (if p.coord = .basic then p.y = 1 else p.y = p.z) := by
  simp only [EPt.isInfty, fieldOps, Bool.and_eq_true, decide_eq_true_eq]
  split_ifs <;> simp [sub_eq_zero]

/-- a representation of a point that ed_is_infty accepts denotes the neutral element -/
theorem infty_rep (p : EPt F) (x y : F) (hp : Rep p x y) (hb : BasicZ1 p) (hi : EPt.isInfty fieldOps p = true) :
    x = 0 ∧ y = 1 := by
  obtain ⟨hz, hx, hy⟩ := hp
  obtain ⟨h0, h1⟩ := (isInfty_iff p).1 hi
  refine ⟨?_, ?_⟩
  · rw [hx] at h0
    exact (mul_eq_zero.1 h0).resolve_right hz
  · split_ifs at h1 with hc
    · rw [hb hc, mul_one] at hy
      rw [← hy, h1]
    · rw [hy] at h1
      exact mul_right_cancel₀ hz (by rw [h1, one_mul])

theorem set_infty_repT (cv : EdC F) (r : EPt F) : RepT (Ed.ed_set_infty fieldOps cv r) 0 1 ∧
    (Ed.ed_set_infty fieldOps cv r).coord = .projc := by
  simp [Ed.ed_set_infty, fieldOps, RepT, Rep]

theorem neg_projc_correct (cv : EdC F) (r p : EPt F) (x y : F) (hp : Rep p x y) (hb : BasicZ1 p) :
    let s := Ed.ed_neg_projc fieldOps cv r p
    Rep s (-x) y ∧ BasicZ1 s ∧ (p.t = x * y * p.z → s.t = -x * y * s.z) := by
  rcases p with ⟨X, Y, Z, T, c⟩
  simp only [Ed.ed_neg_projc]
  split_ifs with hi
  · obtain ⟨hx0, hy1⟩ := infty_rep _ x y hp hb hi
    subst hx0 hy1
    simp [Ed.ed_set_infty, fieldOps, Rep, BasicZ1]
  · obtain ⟨hz, hx, hy⟩ := hp
    simp only at hz hx hy
    refine ⟨⟨hz, ?_, hy⟩, hb, ?_⟩
    · simp only [fieldOps, hx]; ring
    · intro ht; simp only [fieldOps, ht]; ring

/-- the build without the fourth coordinate: same, T untouched -/
theorem neg_projc_correct_prj (cv : EdC F) (r p : EPt F) (x y : F) (hp : Rep p x y) (hb : BasicZ1 p) :
    let s := EdP.ed_neg_projc fieldOps cv r p
    Rep s (-x) y ∧ BasicZ1 s ∧ s.t = r.t := by
  rcases p with ⟨X, Y, Z, T, c⟩
  simp only [EdP.ed_neg_projc]
  split_ifs with hi
  · obtain ⟨hx0, hy1⟩ := infty_rep _ x y hp hb hi
    subst hx0 hy1
    simp [EdP.ed_set_infty, fieldOps, Rep, BasicZ1]
  · obtain ⟨hz, hx, hy⟩ := hp
    simp only at hz hx hy
    refine ⟨⟨hz, ?_, hy⟩, hb, rfl⟩
    simp only [fieldOps, hx]; ring

/-- ed_neg_basic: −P, z copied from the operand (T keeps the previous content of the destination: the affine routines do not
    maintain it) -/
theorem neg_basic_correct (cv : EdC F) (r p : EPt F) (hc : p.coord = .basic) :
    let s := Ed.ed_neg_basic fieldOps cv r p
    s.x = -p.x ∧ s.y = p.y ∧ (EPt.isInfty fieldOps p = false → s.z = p.z ∧ s.coord = .basic) := by
  rcases p with ⟨X, Y, Z, T, c⟩
  simp only at hc
  subst hc
  simp only [Ed.ed_neg_basic]
  split_ifs with hi
  · obtain ⟨h0, h1⟩ := (isInfty_iff _).1 hi
    simp only [if_true] at h0 h1
    subst h0 h1
    refine ⟨?_, ?_, fun h => ?_⟩
    · simp [Ed.ed_set_infty, fieldOps]
    · simp [Ed.ed_set_infty, fieldOps]
    · rw [hi] at h; exact absurd h (by simp)
  · refine ⟨rfl, rfl, fun _ => ⟨rfl, rfl⟩⟩

/-- … as a representation: a normalised operand gives a normalised representation of −P -/
theorem neg_basic_rep (cv : EdC F) (r p : EPt F) (x y : F) (hc : p.coord = .basic) (hp : Rep p x y) (hb : BasicZ1 p) :
    let s := Ed.ed_neg_basic fieldOps cv r p
    Rep s (-x) y ∧ BasicZ1 s := by
  rcases p with ⟨X, Y, Z, T, c⟩
  simp only at hc
  subst hc
  simp only [Ed.ed_neg_basic]
  split_ifs with hi
  · obtain ⟨hx0, hy1⟩ := infty_rep _ x y hp hb hi
    subst hx0 hy1
    simp [Ed.ed_set_infty, fieldOps, Rep, BasicZ1]
  · obtain ⟨hz, hx, hy⟩ := hp
    simp only at hz hx hy
    refine ⟨⟨hz, ?_, hy⟩, hb⟩
    simp only [fieldOps, hx]; ring

theorem norm_correct (cv : EdC F) (r p : EPt F) (x y : F) (hp : Rep p x y) (hb : BasicZ1 p) :
    let s := Ed.ed_norm fieldOps cv r p
    s.x = x ∧ s.y = y ∧ s.z = 1 ∧ (p.t = x * y * p.z → s.t = x * y) ∧
    (s.coord = .basic ∨ (s.coord = .projc ∧ x = 0 ∧ y = 1)) := by
  rcases p with ⟨X, Y, Z, T, c⟩
  simp only [Ed.ed_norm]
  split_ifs with hi hc
  · obtain ⟨hx0, hy1⟩ := infty_rep _ x y hp hb hi
    subst hx0 hy1
    simp [Ed.ed_set_infty, fieldOps]
  · obtain ⟨hz, hx, hy⟩ := hp
    simp only at hz hx hy hc
    subst hc
    have hz1 : Z = 1 := hb rfl
    subst hz1 hx hy
    simp [Ed.ed_copy]
  · obtain ⟨hz, hx, hy⟩ := hp
    simp only at hz hx hy hc
    subst hx hy
    simp only [Ed.ed_norm_imp, hc, not_false_eq_true, if_true, fieldOps, Nat.cast_one]
    refine ⟨?_, ?_, trivial, ?_, ?_⟩
    · field_simp
    · field_simp
    · intro ht; rw [ht]; field_simp
    · simp
/-- closing step: the cross-multiplied identities suffice -/
theorem rep_of_cross (s : EPt F) (N D N' D' : F) (hD : D ≠ 0) (hD' : D' ≠ 0) (hz : s.z ≠ 0)
    (hx : s.x * D = N * s.z) (hy : s.y * D' = N' * s.z) : Rep s (N / D) (N' / D') := by
  refine ⟨hz, ?_, ?_⟩
  · field_simp; linear_combination hx
  · field_simp; linear_combination hy

theorem repT_of_cross (s : EPt F) (N D N' D' : F) (hD : D ≠ 0) (hD' : D' ≠ 0) (hz : s.z ≠ 0)
    (hx : s.x * D = N * s.z) (hy : s.y * D' = N' * s.z) (ht : s.t * (D * D') = N * N' * s.z) :
    RepT s (N / D) (N' / D') := by
  refine ⟨rep_of_cross s N D N' D' hD hD' hz hx hy, ?_⟩
  field_simp; linear_combination ht

theorem add_extnd_correct (cv : EdC F) (r p q : EPt F) (x1 y1 x2 y2 : F) (hp : RepT p x1 y1) (hq : RepT q x2 y2)
    (h1 : 1 + cv.d * x1 * x2 * y1 * y2 ≠ 0) (h2 : 1 - cv.d * x1 * x2 * y1 * y2 ≠ 0) :
    let s := Ed.ed_add_extnd fieldOps cv r p q
    RepT s (addX cv.d x1 y1 x2 y2) (addY cv.a cv.d x1 y1 x2 y2) ∧ s.coord = .extnd := by
  rcases p with ⟨X1, Y1, Z1, T1, c1⟩
  rcases q with ⟨X2, Y2, Z2, T2, c2⟩
  obtain ⟨⟨hz1, hx1, hy1⟩, ht1⟩ := hp
  obtain ⟨⟨hz2, hx2, hy2⟩, ht2⟩ := hq
  simp only at hz1 hx1 hy1 hz2 hx2 hy2 ht1 ht2
  subst hx1 hy1 hx2 hy2 ht1 ht2
  have hZ : (Z1 * Z2 - cv.d * (x1 * y1 * Z1) * (x2 * y2 * Z2)) * (Z1 * Z2 + cv.d * (x1 * y1 * Z1) * (x2 * y2 * Z2)) =
      (Z1 * Z2) ^ 2 * ((1 - cv.d * x1 * x2 * y1 * y2) * (1 + cv.d * x1 * x2 * y1 * y2)) := by ring
  refine ⟨repT_of_cross _ _ _ _ _ h1 h2 ?_ ?_ ?_ ?_, rfl⟩
  · simp only [Ed.ed_add_extnd, fieldOps]
    rw [hZ]
    exact mul_ne_zero (pow_ne_zero _ (mul_ne_zero hz1 hz2)) (mul_ne_zero h2 h1)
  · simp only [Ed.ed_add_extnd, fieldOps]; ring
  · simp only [Ed.ed_add_extnd, fieldOps]; ring
  · simp only [Ed.ed_add_extnd, fieldOps]; ring

theorem dbl_basic_correct (cv : EdC F) (r p : EPt F) :
    let s := Ed.ed_dbl_basic fieldOps cv r p
    s.x = addX cv.d p.x p.y p.x p.y ∧ s.y = addY cv.a cv.d p.x p.y p.x p.y ∧ s.z = p.z ∧ s.t = r.t ∧ s.coord = .basic := by
  refine ⟨?_, ?_, rfl, rfl, rfl⟩
  · simp only [Ed.ed_dbl_basic, fieldOps, addX, div_eq_mul_inv, Nat.cast_one]; ring
  · simp only [Ed.ed_dbl_basic, fieldOps, addY, div_eq_mul_inv, Nat.cast_one]; ring

theorem dbl_dens (cv : EdC F) (x y : F) (hc : OnCurve cv x y) :
    1 + cv.d * x * x * y * y = cv.a * x ^ 2 + y ^ 2 ∧ 1 - cv.d * x * x * y * y = 2 - (cv.a * x ^ 2 + y ^ 2) := by
  unfold OnCurve at hc
  constructor
  · linear_combination -hc
  · linear_combination hc

theorem dbl_projc_correct (cv : EdC F) (r p : EPt F) (x y : F) (hp : Rep p x y) (hc : OnCurve cv x y)
    (h1 : 1 + cv.d * x * x * y * y ≠ 0) (h2 : 1 - cv.d * x * x * y * y ≠ 0) :
    let s := Ed.ed_dbl_projc fieldOps cv r p
    Rep s (addX cv.d x y x y) (addY cv.a cv.d x y x y) ∧ s.t = r.t ∧ s.coord = .projc := by
  rcases p with ⟨X1, Y1, Z1, T1, c1⟩
  obtain ⟨hz1, hx1, hy1⟩ := hp
  simp only at hz1 hx1 hy1
  subst hx1 hy1
  obtain ⟨e1, e2⟩ := dbl_dens cv x y hc
  have hZ : (cv.a * (x * Z1 * (x * Z1)) + y * Z1 * (y * Z1)) *
      (cv.a * (x * Z1 * (x * Z1)) + y * Z1 * (y * Z1) - (Z1 * Z1 + Z1 * Z1)) =
      - (Z1 ^ 4 * ((cv.a * x ^ 2 + y ^ 2) * (2 - (cv.a * x ^ 2 + y ^ 2)))) := by ring
  refine ⟨rep_of_cross _ _ _ _ _ h1 h2 ?_ ?_ ?_, rfl, rfl⟩
  · simp only [Ed.ed_dbl_projc, fieldOps]
    rw [hZ]
    exact neg_ne_zero.mpr (mul_ne_zero (pow_ne_zero _ hz1) (mul_ne_zero (e1 ▸ h1) (e2 ▸ h2)))
  · simp only [Ed.ed_dbl_projc, fieldOps]; rw [e1]; ring
  · simp only [Ed.ed_dbl_projc, fieldOps]; rw [e2]; ring

theorem dbl_extnd_correct (cv : EdC F) (r p : EPt F) (x y : F) (hp : Rep p x y) (hc : OnCurve cv x y)
    (h1 : 1 + cv.d * x * x * y * y ≠ 0) (h2 : 1 - cv.d * x * x * y * y ≠ 0) :
    let s := Ed.ed_dbl_extnd fieldOps cv r p
    RepT s (addX cv.d x y x y) (addY cv.a cv.d x y x y) ∧ s.coord = .extnd := by
  rcases p with ⟨X1, Y1, Z1, T1, c1⟩
  obtain ⟨hz1, hx1, hy1⟩ := hp
  simp only at hz1 hx1 hy1
  subst hx1 hy1
  obtain ⟨e1, e2⟩ := dbl_dens cv x y hc
  have hZ : (cv.a * (x * Z1 * (x * Z1)) + y * Z1 * (y * Z1) - (Z1 * Z1 + Z1 * Z1)) *
      (cv.a * (x * Z1 * (x * Z1)) + y * Z1 * (y * Z1)) =
      - (Z1 ^ 4 * ((cv.a * x ^ 2 + y ^ 2) * (2 - (cv.a * x ^ 2 + y ^ 2)))) := by ring
  refine ⟨repT_of_cross _ _ _ _ _ h1 h2 ?_ ?_ ?_ ?_, rfl⟩
  · simp only [Ed.ed_dbl_extnd, fieldOps]
    rw [hZ]
    exact neg_ne_zero.mpr (mul_ne_zero (pow_ne_zero _ hz1) (mul_ne_zero (e1 ▸ h1) (e2 ▸ h2)))
  · simp only [Ed.ed_dbl_extnd, fieldOps]; rw [e1]; ring
  · simp only [Ed.ed_dbl_extnd, fieldOps]; rw [e2]; ring
  · simp only [Ed.ed_dbl_extnd, fieldOps]; rw [e1, e2]; ring
theorem add_basic_correct (cv : EdC F) (r p q : EPt F) :
    let s := Ed.ed_add_basic fieldOps cv r p q
    s.x = addX cv.d p.x p.y q.x q.y ∧ s.y = addY cv.a cv.d p.x p.y q.x q.y ∧ s.z = p.z ∧ s.t = r.t ∧ s.coord = .basic := by
  refine ⟨?_, ?_, rfl, rfl, rfl⟩
  · simp only [Ed.ed_add_basic, fieldOps, addX, div_eq_mul_inv, Nat.cast_one]; ring
  · simp only [Ed.ed_add_basic, fieldOps, addY, div_eq_mul_inv, Nat.cast_one]; ring

theorem add_projc_correct (cv : EdC F) (r p q : EPt F) (x1 y1 x2 y2 : F) (hp : Rep p x1 y1) (hq : Rep q x2 y2)
    (h1 : 1 + cv.d * x1 * x2 * y1 * y2 ≠ 0) (h2 : 1 - cv.d * x1 * x2 * y1 * y2 ≠ 0) :
    let s := Ed.ed_add_projc fieldOps cv r p q
    Rep s (addX cv.d x1 y1 x2 y2) (addY cv.a cv.d x1 y1 x2 y2) ∧ s.t = r.t ∧ s.coord = .projc := by
  rcases p with ⟨X1, Y1, Z1, T1, c1⟩
  rcases q with ⟨X2, Y2, Z2, T2, c2⟩
  obtain ⟨hz1, hx1, hy1⟩ := hp
  obtain ⟨hz2, hx2, hy2⟩ := hq
  simp only at hz1 hx1 hy1 hz2 hx2 hy2
  subst hx1 hy1 hx2 hy2
  have hZ : (Z1 * Z2 * (Z1 * Z2) - cv.d * (x1 * Z1 * (x2 * Z2)) * (y1 * Z1 * (y2 * Z2))) *
      (Z1 * Z2 * (Z1 * Z2) + cv.d * (x1 * Z1 * (x2 * Z2)) * (y1 * Z1 * (y2 * Z2))) =
      (Z1 * Z2) ^ 4 * ((1 - cv.d * x1 * x2 * y1 * y2) * (1 + cv.d * x1 * x2 * y1 * y2)) := by ring
  refine ⟨rep_of_cross _ _ _ _ _ h1 h2 ?_ ?_ ?_, rfl, rfl⟩
  · simp only [Ed.ed_add_projc, fieldOps]
    rw [hZ]
    exact mul_ne_zero (pow_ne_zero _ (mul_ne_zero hz1 hz2)) (mul_ne_zero h2 h1)
  · simp only [Ed.ed_add_projc, fieldOps]; ring
  · simp only [Ed.ed_add_projc, fieldOps]; ring

theorem junk_eq : (EPt.junk fieldOps : EPt F) = ⟨0, 0, 0, 0, .basic⟩ := rfl

theorem sub_projc_correct (cv : EdC F) (r p q : EPt F) (x1 y1 x2 y2 : F) (hp : Rep p x1 y1) (hq : Rep q x2 y2)
    (hb : BasicZ1 q) (h1 : 1 + cv.d * x1 * (-x2) * y1 * y2 ≠ 0) (h2 : 1 - cv.d * x1 * (-x2) * y1 * y2 ≠ 0) :
    let s := Ed.ed_sub_projc fieldOps cv r p q
    Rep s (addX cv.d x1 y1 (-x2) y2) (addY cv.a cv.d x1 y1 (-x2) y2) ∧ s.coord = .projc := by
  obtain ⟨hn, _, _⟩ := neg_projc_correct cv (EPt.junk fieldOps) q x2 y2 hq hb
  obtain ⟨ha, _, hc⟩ := add_projc_correct cv r p _ x1 y1 (-x2) y2 hp hn h1 h2
  exact ⟨ha, hc⟩

/-- the subtrahend ed_sub_extnd builds: ed_neg_projc(t, q) followed by t->t = −q->t (so that the routine does not depend on
    the build's ed_neg_projc maintaining T) -/
theorem neg_with_t (cv : EdC F) (q : EPt F) (x y : F) (hq : RepT q x y) (hb : BasicZ1 q) :
    let n := Ed.ed_neg_projc fieldOps cv (EPt.junk fieldOps) q
    RepT ⟨n.x, n.y, n.z, fieldOps.neg q.t, n.coord⟩ (-x) y := by
  rcases q with ⟨X, Y, Z, T, c⟩
  obtain ⟨hr, ht⟩ := hq
  simp only at ht
  simp only [Ed.ed_neg_projc]
  split_ifs with hi
  · obtain ⟨hx0, hy1⟩ := infty_rep _ x y hr hb hi
    subst hx0 hy1
    simp [Ed.ed_set_infty, fieldOps, RepT, Rep, ht]
  · obtain ⟨hz, hx, hy⟩ := hr
    simp only at hz hx hy
    refine ⟨⟨hz, ?_, hy⟩, ?_⟩
    · simp only [fieldOps, hx]; ring
    · simp only [fieldOps, ht]; ring

theorem neg_with_t_prj (cv : EdC F) (q : EPt F) (x y : F) (hq : RepT q x y) (hb : BasicZ1 q) :
    let n := EdP.ed_neg_projc fieldOps cv (EPt.junk fieldOps) q
    RepT ⟨n.x, n.y, n.z, fieldOps.neg q.t, n.coord⟩ (-x) y := by
  rcases q with ⟨X, Y, Z, T, c⟩
  obtain ⟨hr, ht⟩ := hq
  simp only at ht
  simp only [EdP.ed_neg_projc]
  split_ifs with hi
  · obtain ⟨hx0, hy1⟩ := infty_rep _ x y hr hb hi
    subst hx0 hy1
    simp [EdP.ed_set_infty, fieldOps, RepT, Rep, ht]
  · obtain ⟨hz, hx, hy⟩ := hr
    simp only at hz hx hy
    refine ⟨⟨hz, ?_, hy⟩, ?_⟩
    · simp only [fieldOps, hx]; ring
    · simp only [fieldOps, ht]; ring

theorem sub_extnd_correct (cv : EdC F) (r p q : EPt F) (x1 y1 x2 y2 : F) (hp : RepT p x1 y1) (hq : RepT q x2 y2)
    (hb : BasicZ1 q) (h1 : 1 + cv.d * x1 * (-x2) * y1 * y2 ≠ 0) (h2 : 1 - cv.d * x1 * (-x2) * y1 * y2 ≠ 0) :
    let s := Ed.ed_sub_extnd fieldOps cv r p q
    RepT s (addX cv.d x1 y1 (-x2) y2) (addY cv.a cv.d x1 y1 (-x2) y2) ∧ s.coord = .extnd :=
  add_extnd_correct cv r p _ x1 y1 (-x2) y2 hp (neg_with_t cv q x2 y2 hq hb) h1 h2

/-- the same routine in the builds without the fourth coordinate (PROJC, BASIC): correct there too since the /repo fix of
    finding C17-F6 (the formula code `ed_add_extnd` is build independent) -/
theorem sub_extnd_correct_prj (cv : EdC F) (r p q : EPt F) (x1 y1 x2 y2 : F) (hp : RepT p x1 y1) (hq : RepT q x2 y2)
    (hb : BasicZ1 q) (h1 : 1 + cv.d * x1 * (-x2) * y1 * y2 ≠ 0) (h2 : 1 - cv.d * x1 * (-x2) * y1 * y2 ≠ 0) :
    let s := EdP.ed_sub_extnd fieldOps cv r p q
    RepT s (addX cv.d x1 y1 (-x2) y2) (addY cv.a cv.d x1 y1 (-x2) y2) ∧ s.coord = .extnd :=
  add_extnd_correct cv r p _ x1 y1 (-x2) y2 hp (neg_with_t_prj cv q x2 y2 hq hb) h1 h2

/-- p == q (pointer equality): the neutral element with T = 0, in every build -/
theorem sub_extnd_same (cv : EdC F) (r p : EPt F) :
    RepT (Ed.ed_sub_extnd_a3 fieldOps cv r p) 0 1 ∧ RepT (EdP.ed_sub_extnd_a3 fieldOps cv r p) 0 1 ∧
    RepT (Ed.ed_sub_extnd_a4 fieldOps cv p) 0 1 ∧ RepT (EdP.ed_sub_extnd_a4 fieldOps cv p) 0 1 := by
  simp [Ed.ed_sub_extnd_a3, EdP.ed_sub_extnd_a3, Ed.ed_sub_extnd_a4, EdP.ed_sub_extnd_a4, Ed.ed_set_infty, EdP.ed_set_infty,
    fieldOps, RepT, Rep]

theorem sub_basic_correct (cv : EdC F) (r p q : EPt F) (hc : q.coord = .basic) :
    let s := Ed.ed_sub_basic fieldOps cv r p q
    s.x = addX cv.d p.x p.y (-q.x) q.y ∧ s.y = addY cv.a cv.d p.x p.y (-q.x) q.y ∧ s.z = p.z ∧ s.coord = .basic := by
  obtain ⟨hx, hy, _⟩ := neg_basic_correct cv (EPt.junk fieldOps) q hc
  obtain ⟨ax, ay, az, _, ac⟩ := add_basic_correct cv r p (Ed.ed_neg_basic fieldOps cv (EPt.junk fieldOps) q)
  rw [hx, hy] at ax ay
  exact ⟨ax, ay, az, ac⟩

/-- ed_cmp decides equality of the denoted affine points; in the build with extended coordinates this needs the
    invariant T = xyZ on both sides when both are unnormalised -/
theorem cmp_correct (cv : EdC F) (ext : Bool) (p q : EPt F) (x1 y1 x2 y2 : F) (hp : Rep p x1 y1) (hq : Rep q x2 y2)
    (hbp : BasicZ1 p) (hbq : BasicZ1 q)
    (ht : ext = true → p.coord ≠ .basic → q.coord ≠ .basic → p.t = x1 * y1 * p.z ∧ q.t = x2 * y2 * q.z) :
    edCmp fieldOps ext (fun a => Ed.ed_norm fieldOps cv a a) p q = true ↔ (x1 = x2 ∧ y1 = y2) := by
  have hnp := norm_correct cv p p x1 y1 hp hbp
  have hnq := norm_correct cv q q x2 y2 hq hbq
  obtain ⟨hz1, hx1, hy1⟩ := hp
  obtain ⟨hz2, hx2, hy2⟩ := hq
  simp only [edCmp]
  by_cases hc : (p.coord ≠ .basic ∧ q.coord ≠ .basic)
  · rw [if_pos hc]
    have key : (x1 * p.z * q.z - x2 * q.z * p.z = 0 ∧ y1 * p.z * q.z - y2 * q.z * p.z = 0) ↔ (x1 = x2 ∧ y1 = y2) := by
      constructor
      · rintro ⟨a, b⟩
        refine ⟨?_, ?_⟩
        · have : (x1 - x2) * (p.z * q.z) = 0 := by linear_combination a
          exact sub_eq_zero.1 ((mul_eq_zero.1 this).resolve_right (mul_ne_zero hz1 hz2))
        · have : (y1 - y2) * (p.z * q.z) = 0 := by linear_combination b
          exact sub_eq_zero.1 ((mul_eq_zero.1 this).resolve_right (mul_ne_zero hz1 hz2))
      · rintro ⟨rfl, rfl⟩
        constructor <;> ring
    cases ext with
    | true =>
      obtain ⟨t1, t2⟩ := ht rfl hc.1 hc.2
      simp only [if_true, fieldOps, Bool.and_eq_true, decide_eq_true_eq, hx1, hy1, hx2, hy2, t1, t2]
      rw [← key]
      constructor
      · rintro ⟨_, a, b⟩; exact ⟨a, b⟩
      · rintro ⟨a, b⟩
        refine ⟨?_, a, b⟩
        obtain ⟨rfl, rfl⟩ := key.1 ⟨a, b⟩
        ring
    | false =>
      simp only [Bool.false_eq_true, if_false, fieldOps, Bool.and_eq_true, decide_eq_true_eq, hx1, hy1, hx2, hy2, true_and]
      exact key
  · rw [if_neg hc]
    have hr : ∀ (a : EPt F) (x y : F), a.z ≠ 0 → a.x = x * a.z → a.y = y * a.z → BasicZ1 a →
        (let s := Ed.ed_norm fieldOps cv a a; s.x = x ∧ s.y = y) →
        (if a.coord ≠ .basic then Ed.ed_norm fieldOps cv a a else a).x = x ∧
        (if a.coord ≠ .basic then Ed.ed_norm fieldOps cv a a else a).y = y := by
      intro a x y hz hx hy hb hn
      split_ifs with h
      · exact hn
      · have h' : a.coord = .basic := by simpa using h
        rw [hx, hy, hb h', mul_one, mul_one]; exact ⟨rfl, rfl⟩
    obtain ⟨rx, ry⟩ := hr p x1 y1 hz1 hx1 hy1 hbp ⟨hnp.1, hnp.2.1⟩
    obtain ⟨sx, sy⟩ := hr q x2 y2 hz2 hx2 hy2 hbq ⟨hnq.1, hnq.2.1⟩
    rw [rx, ry, sx, sy]
    simp only [fieldOps, Bool.and_eq_true, decide_eq_true_eq, sub_eq_zero]

/-! ### the builds without the fourth coordinate (PROJC, BASIC): the formula code is the same (`prj_formulas_eq`), negation,
normalisation and subtraction leave T alone -/

theorem norm_correct_prj (cv : EdC F) (r p : EPt F) (x y : F) (hp : Rep p x y) (hb : BasicZ1 p) :
    let s := EdP.ed_norm fieldOps cv r p
    s.x = x ∧ s.y = y ∧ s.z = 1 ∧ (s.coord = .basic ∨ (s.coord = .projc ∧ x = 0 ∧ y = 1)) := by
  rcases p with ⟨X, Y, Z, T, c⟩
  simp only [EdP.ed_norm]
  split_ifs with hi hc
  · obtain ⟨hx0, hy1⟩ := infty_rep _ x y hp hb hi
    subst hx0 hy1
    simp [EdP.ed_set_infty, fieldOps]
  · obtain ⟨hz, hx, hy⟩ := hp
    simp only at hz hx hy hc
    subst hc
    have hz1 : Z = 1 := hb rfl
    subst hz1 hx hy
    simp [EdP.ed_copy]
  · obtain ⟨hz, hx, hy⟩ := hp
    simp only at hz hx hy hc
    subst hx hy
    simp only [EdP.ed_norm_imp, hc, not_false_eq_true, if_true, fieldOps, Nat.cast_one]
    refine ⟨?_, ?_, trivial, ?_⟩
    · field_simp
    · field_simp
    · simp

theorem sub_projc_correct_prj (cv : EdC F) (r p q : EPt F) (x1 y1 x2 y2 : F) (hp : Rep p x1 y1) (hq : Rep q x2 y2)
    (hb : BasicZ1 q) (h1 : 1 + cv.d * x1 * (-x2) * y1 * y2 ≠ 0) (h2 : 1 - cv.d * x1 * (-x2) * y1 * y2 ≠ 0) :
    let s := EdP.ed_sub_projc fieldOps cv r p q
    Rep s (addX cv.d x1 y1 (-x2) y2) (addY cv.a cv.d x1 y1 (-x2) y2) ∧ s.coord = .projc := by
  obtain ⟨hn, _, _⟩ := neg_projc_correct_prj cv (EPt.junk fieldOps) q x2 y2 hq hb
  obtain ⟨ha, _, hc⟩ := add_projc_correct cv r p _ x1 y1 (-x2) y2 hp hn h1 h2
  exact ⟨ha, hc⟩

end Field

end Relic.Lemmas.EdFormulas
