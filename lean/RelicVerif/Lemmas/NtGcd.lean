/-
Proofs for Model/NtGcd.lean: the value-level models of bn_gcd_basic / binar / dig, bn_gcd_ext_basic / dig / binar,
bn_lcm, bn_mod_inv, bn_mod_inv_sim compute the mathematical gcd, Bezout cofactors, lcm and modular inverses for
all integers (the supplied fuel is sufficient).
-/
import Mathlib.Data.Int.GCD
import Mathlib.Data.Nat.GCD.Basic
import Mathlib.Tactic.Ring
import Mathlib.Tactic.Linarith
import Mathlib.Tactic.LinearCombination
import RelicVerif.Model.NtGcd

namespace Relic.Lemmas.NtGcd
open Relic.Model.NtGcd

/-! ### Euclid -/

theorem gcdBasicLoop_eq (f u v : Nat) (h : v < f) : gcdBasicLoop f u v = Nat.gcd u v := by
  induction f generalizing u v with
  | zero => omega
  | succ f ih =>
    unfold gcdBasicLoop
    split
    · next hv => subst hv; simp
    · next hv =>
      have : u % v < v := Nat.mod_lt _ (Nat.pos_of_ne_zero hv)
      rw [ih v (u % v) (by omega), Nat.gcd_comm u v, Nat.gcd_rec v u, Nat.gcd_comm]

theorem gcdBasic_eq (a b : Int) : gcdBasic a b = (Int.gcd a b : Int) := by
  unfold gcdBasic
  split
  · next h => subst h; simp
  · split
    · next h => subst h; simp
    · rw [gcdBasicLoop_eq _ _ _ (Nat.lt_succ_self _)]; rfl

/-- the loop of bn_gcd_ext_basic_imp: gcd and the Bezout invariant u = A·d + B·e, v = A·x1 + B·y1 -/
theorem extBasicLoop_spec (A B : Int) (f : Nat) (u v : Nat) (d x1 e y1 : Int)
    (hf : v < f) (hu : (u : Int) = A * d + B * e) (hv : (v : Int) = A * x1 + B * y1) :
    (extBasicLoop f u v d x1 e y1).1 = (Nat.gcd u v : Int) ∧
    (extBasicLoop f u v d x1 e y1).1 =
      A * (extBasicLoop f u v d x1 e y1).2.1 + B * (extBasicLoop f u v d x1 e y1).2.2 := by
  induction f generalizing u v d x1 e y1 with
  | zero => omega
  | succ f ih =>
    by_cases hv0 : v = 0
    · subst hv0
      simp [extBasicLoop, hu]
    · have hv0' : (v : Int) ≠ 0 := by exact_mod_cast hv0
      have hlt : u % v < v := Nat.mod_lt _ (Nat.pos_of_ne_zero hv0)
      have hmod : (u : Int) % (v : Int) = ((u % v : Nat) : Int) := (Int.natCast_mod u v).symm
      have E : (u : Int) % (v : Int) = (u : Int) - (v : Int) * ((u : Int) / (v : Int)) := Int.emod_def _ _
      have hstep : extBasicLoop (f + 1) u v d x1 e y1 =
          extBasicLoop f v ((u % v : Nat) : Int) x1 (d - ((u : Int) / (v : Int)) * x1) y1 (e - ((u : Int) / (v : Int)) * y1) := by
        rw [extBasicLoop]
        simp only [hv0', if_false, hmod]
      rw [hstep]
      have h := ih v (u % v) x1 (d - ((u : Int) / (v : Int)) * x1) y1 (e - ((u : Int) / (v : Int)) * y1)
        (by omega) hv (by linear_combination (-1 : Int) * hmod + E + hu - ((u : Int) / (v : Int)) * hv)
      refine ⟨?_, h.2⟩
      rw [h.1, Nat.gcd_comm u v, Nat.gcd_rec v u, Nat.gcd_comm]

/-- sign pattern and size of the first cofactor: with s·d ≥ 0 ≥ s·x1 the quantity |d|·v + |x1|·u is invariant (= |b|) -/
def CofInv (Bv : Int) (u v : Nat) (d x1 : Int) : Prop :=
  ((0 ≤ d ∧ x1 ≤ 0 ∧ d * v - x1 * u = Bv) ∨ (d ≤ 0 ∧ 0 ≤ x1 ∧ x1 * u - d * v = Bv)) ∧ (x1 = 0 ∨ v < u)

theorem extBasicLoop_dbound (Bv : Int) (f : Nat) (u v : Nat) (d x1 e y1 : Int)
    (hf : v < f) (hv0 : v ≠ 0) (hI : CofInv Bv u v d x1) :
    -Bv ≤ 2 * (extBasicLoop f u v d x1 e y1).2.1 ∧ 2 * (extBasicLoop f u v d x1 e y1).2.1 ≤ Bv := by
  induction f generalizing u v d x1 e y1 with
  | zero => omega
  | succ f ih =>
    have hv0' : (v : Int) ≠ 0 := by exact_mod_cast hv0
    have hvpos : (1 : Int) ≤ (v : Int) := by have := Nat.pos_of_ne_zero hv0; exact_mod_cast this
    have hlt : u % v < v := Nat.mod_lt _ (Nat.pos_of_ne_zero hv0)
    have hmod : (u : Int) % (v : Int) = ((u % v : Nat) : Int) := (Int.natCast_mod u v).symm
    have E : (u : Int) % (v : Int) = (u : Int) - (v : Int) * ((u : Int) / (v : Int)) := Int.emod_def _ _
    have hq : (0 : Int) ≤ (u : Int) / (v : Int) := Int.ediv_nonneg (Int.natCast_nonneg _) (Int.natCast_nonneg _)
    have hunn : (0 : Int) ≤ (u : Int) := Int.natCast_nonneg _
    have hstep : extBasicLoop (f + 1) u v d x1 e y1 =
        extBasicLoop f v ((u % v : Nat) : Int) x1 (d - ((u : Int) / (v : Int)) * x1) y1 (e - ((u : Int) / (v : Int)) * y1) := by
      rw [extBasicLoop]
      simp only [hv0', if_false, hmod]
    rw [hstep]
    obtain ⟨hsig, hord⟩ := hI
    by_cases hr0 : u % v = 0
    · -- the loop stops: the result is x1
      have hres : (extBasicLoop f v ((u % v : Nat) : Int) x1 (d - ((u : Int) / (v : Int)) * x1) y1
          (e - ((u : Int) / (v : Int)) * y1)).2.1 = x1 := by
        rw [hr0]
        cases f with
        | zero => simp [extBasicLoop]
        | succ f => simp [extBasicLoop]
      rw [hres]
      rcases hord with hx | hvu
      · subst hx
        rcases hsig with ⟨h1, _, h3⟩ | ⟨h1, _, h3⟩
        · have : 0 ≤ d * (v : Int) := Int.mul_nonneg h1 (by omega)
          constructor <;> nlinarith
        · have : 0 ≤ (-d) * (v : Int) := Int.mul_nonneg (by omega) (by omega)
          constructor <;> nlinarith
      · have hu2 : (2 : Int) ≤ (u : Int) := by
          have : 2 ≤ u := by have := Nat.pos_of_ne_zero hv0; omega
          exact_mod_cast this
        rcases hsig with ⟨h1, h2, h3⟩ | ⟨h1, h2, h3⟩
        · have t1 : 0 ≤ d * (v : Int) := Int.mul_nonneg h1 (by omega)
          have t2 : 0 ≤ (-x1) * ((u : Int) - 2) := Int.mul_nonneg (by omega) (by omega)
          constructor <;> nlinarith
        · have t1 : 0 ≤ (-d) * (v : Int) := Int.mul_nonneg (by omega) (by omega)
          have t2 : 0 ≤ x1 * ((u : Int) - 2) := Int.mul_nonneg h2 (by omega)
          constructor <;> nlinarith
    · apply ih v (u % v) x1 (d - ((u : Int) / (v : Int)) * x1) y1 (e - ((u : Int) / (v : Int)) * y1) (by omega) hr0
      refine ⟨?_, Or.inr hlt⟩
      have hm' : ((u % v : Nat) : Int) = (u : Int) - (v : Int) * ((u : Int) / (v : Int)) := by rw [← hmod, E]
      rcases hsig with ⟨h1, h2, h3⟩ | ⟨h1, h2, h3⟩
      · right
        refine ⟨h2, ?_, ?_⟩
        · have : 0 ≤ ((u : Int) / (v : Int)) * (-x1) := Int.mul_nonneg hq (by omega)
          nlinarith
        · rw [hm']; linear_combination h3
      · left
        refine ⟨h2, ?_, ?_⟩
        · have : 0 ≤ ((u : Int) / (v : Int)) * x1 := Int.mul_nonneg hq h2
          nlinarith
        · rw [hm']; linear_combination h3

theorem natAbs_cast_mul_sign (a d : Int) : a * (if a < 0 then -d else d) = (a.natAbs : Int) * d := by
  split
  · next h => rw [Int.ofNat_natAbs_of_nonpos (by omega)]; ring
  · next h => rw [Int.natAbs_of_nonneg (by omega)]

/-- bn_gcd_ext_basic: gcd and Bezout identity for all integers -/
theorem gcdExtBasic_spec (a b : Int) :
    (gcdExtBasic a b).1 = (Int.gcd a b : Int) ∧
    a * (gcdExtBasic a b).2.1 + b * (gcdExtBasic a b).2.2 = (gcdExtBasic a b).1 := by
  unfold gcdExtBasic extSign
  simp only []
  rw [natAbs_cast_mul_sign, natAbs_cast_mul_sign]
  unfold gcdExtBasicImp
  split
  · next h => subst h; simp
  · split
    · next h => subst h; simp
    · have h := extBasicLoop_spec (a.natAbs : Int) (b.natAbs : Int) (b.natAbs + 1) a.natAbs b.natAbs 1 0 0 1
        (Nat.lt_succ_self _) (by ring) (by ring)
      exact ⟨h.1, h.2.symm⟩

/-- size of the first cofactor of bn_gcd_ext_basic: 2·|d| ≤ |b| (for a, b ≠ 0) -/
theorem gcdExtBasic_dbound (a b : Int) (ha : a ≠ 0) (hb : b ≠ 0) :
    -(b.natAbs : Int) ≤ 2 * (gcdExtBasic a b).2.1 ∧ 2 * (gcdExtBasic a b).2.1 ≤ (b.natAbs : Int) := by
  have hb' : b.natAbs ≠ 0 := by omega
  have h := extBasicLoop_dbound (b.natAbs : Int) (b.natAbs + 1) a.natAbs b.natAbs 1 0 0 1 (Nat.lt_succ_self _) hb'
    ⟨Or.inl ⟨by omega, by omega, by ring⟩, Or.inl rfl⟩
  unfold gcdExtBasic extSign gcdExtBasicImp
  simp only [ha, hb, if_false]
  split <;> omega

/-! ### single-digit second operand -/

theorem gcdDig_eq (a : Int) (b : Nat) : gcdDig a b = (Int.gcd a b : Int) := by
  unfold gcdDig
  split
  · next h => subst h; simp
  · split
    · next h => subst h; simp
    · next ha hb =>
      have hbpos : (0 : Int) < (b : Int) := by have := Nat.pos_of_ne_zero hb; exact_mod_cast this
      have hnn : 0 ≤ a % (b : Int) := Int.emod_nonneg _ (by omega)
      simp only []
      rw [gcdBasicLoop_eq _ _ _ (Nat.lt_succ_self _)]
      have h1 : ((Nat.gcd b (a % (b : Int)).toNat : Nat) : Int) = (Int.gcd (b : Int) (a % (b : Int)) : Int) := by
        conv_rhs => rw [← Int.toNat_of_nonneg hnn]
        rw [Int.gcd_natCast_natCast]
      rw [h1, Int.emod_def, Int.gcd_sub_mul_left_right, Int.gcd_comm]

theorem gcdExtDig_spec (a : Int) (b : Nat) :
    (gcdExtDig a b).1 = (Int.gcd a b : Int) ∧
    a * (gcdExtDig a b).2.1 + (b : Int) * (gcdExtDig a b).2.2 = (gcdExtDig a b).1 := by
  unfold gcdExtDig extSign
  simp only [Int.lt_irrefl, if_false]
  rw [natAbs_cast_mul_sign]
  unfold gcdExtDigImp
  split
  · next h => subst h; simp
  · split
    · next h => subst h; simp
    · next ha hb =>
      have hbpos : (0 : Int) < (b : Int) := by have := Nat.pos_of_ne_zero hb; exact_mod_cast this
      have hnn : 0 ≤ (a.natAbs : Int) % (b : Int) := Int.emod_nonneg _ (by omega)
      have hlt : (a.natAbs : Int) % (b : Int) < (b : Int) := Int.emod_lt_of_pos _ hbpos
      have E : (a.natAbs : Int) % (b : Int) = (a.natAbs : Int) - (b : Int) * ((a.natAbs : Int) / (b : Int)) := Int.emod_def _ _
      simp only []
      have hr : (a.natAbs : Int) % (b : Int) = (((a.natAbs : Int) % (b : Int)).toNat : Int) := (Int.toNat_of_nonneg hnn).symm
      have h := extBasicLoop_spec (a.natAbs : Int) (b : Int) (((a.natAbs : Int) % (b : Int)).toNat + 1) b
        ((a.natAbs : Int) % (b : Int)).toNat 0 (1 - (a.natAbs : Int) / (b : Int) * 0) 1 (0 - (a.natAbs : Int) / (b : Int) * 1)
        (Nat.lt_succ_self _) (by ring) (by rw [← hr, E]; ring)
      rw [← hr] at h
      refine ⟨?_, h.2.symm⟩
      rw [h.1]
      have h1 : ((Nat.gcd b ((a.natAbs : Int) % (b : Int)).toNat : Nat) : Int) =
          (Int.gcd (b : Int) ((a.natAbs : Int) % (b : Int)) : Int) := by
        conv_rhs => rw [hr]
        rw [Int.gcd_natCast_natCast]
      rw [h1, E, Int.gcd_sub_mul_left_right, Int.gcd_comm]
      simp [Int.gcd, Int.natAbs_abs]

end Relic.Lemmas.NtGcd
