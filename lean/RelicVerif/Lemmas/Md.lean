/-
C14 lemmas: the code-shaped models of Model/Sha256.lean, Model/Md.lean, Model/Bc.lean equal the
standard-shaped definitions of Spec/Sha256.lean, Spec/Mac.lean, Spec/Aes.lean.
-/
import RelicVerif.Model.Md
import RelicVerif.Model.Bc

namespace Relic.Lemmas.Md
open Relic.Spec Relic.Model
open Relic.Spec.Mac (Bytes Hash)

/-! ## SHA-256: streaming = one-shot -/

section Sha
open Relic.Spec.Sha256 Relic.Model.Sha256

theorem blocks_nil (f : Nat) : blocks f [] = [] := by
  cases f <;> simp [blocks]

theorem blocks_fuel (f g : Nat) (l : List UInt8) (hf : l.length ≤ 64 * f) (hg : l.length ≤ 64 * g) :
    blocks f l = blocks g l := by
  induction f generalizing g l with
  | zero =>
    have : l = [] := List.eq_nil_of_length_eq_zero (by omega)
    subst this; simp [blocks_nil]
  | succ f ih =>
    cases g with
    | zero =>
      have : l = [] := List.eq_nil_of_length_eq_zero (by omega)
      subst this; simp [blocks_nil]
    | succ g =>
      simp only [blocks]
      split
      · rfl
      · rw [ih g (l.drop 64) (by simp; omega) (by simp; omega)]

/-- fold of the compression function over the 64-byte blocks of `l` -/
def foldB (h : List UInt32) (l : List UInt8) : List UInt32 :=
  (blocks (l.length / 64 + 1) l).foldl compress h

theorem foldB_nil (h : List UInt32) : foldB h [] = h := by simp [foldB, blocks]

theorem foldB_cons (h : List UInt32) (a b : List UInt8) (ha : a.length = 64) :
    foldB h (a ++ b) = foldB (compress h a) b := by
  unfold foldB
  have hne : (a ++ b).isEmpty = false := by
    cases a with
    | nil => simp at ha
    | cons x t => simp
  have h1 : (a ++ b).take 64 = a := by simp [ha]
  have h2 : (a ++ b).drop 64 = b := by simp [ha]
  have hb : blocks ((a ++ b).length / 64 + 1) (a ++ b) = a :: blocks ((a ++ b).length / 64) b := by
    rw [blocks, hne, h1, h2]; simp
  rw [hb, List.foldl_cons, blocks_fuel _ (b.length / 64 + 1) b (by simp [ha]; omega) (by omega)]

theorem foldB_append (n : Nat) (h : List UInt32) (a b : List UInt8) (ha : a.length = 64 * n) :
    foldB h (a ++ b) = foldB (foldB h a) b := by
  induction n generalizing h a with
  | zero =>
    have : a = [] := List.eq_nil_of_length_eq_zero (by omega)
    subst this; simp [foldB_nil]
  | succ n ih =>
    have hsplit : a = a.take 64 ++ a.drop 64 := (List.take_append_drop 64 a).symm
    have ht : (a.take 64).length = 64 := by simp; omega
    rw [hsplit, List.append_assoc, foldB_cons _ _ _ ht, ih _ _ (by simp; omega), foldB_cons _ _ _ ht]

theorem foldB_single (h : List UInt32) (a : List UInt8) (ha : a.length = 64) :
    foldB h a = compress h a := by
  have := foldB_cons h a [] ha
  rwa [List.append_nil, foldB_nil] at this

structure Inv (c : Ctx) (msg : List UInt8) : Prop where
  corr : c.corrupted = false
  comp : c.computed = false
  len : c.lenBits = 8 * msg.length
  blk : c.block.length < 64
  split : ∃ pre : List UInt8, ∃ k, pre.length = 64 * k ∧ msg = pre ++ c.block ∧ c.h = foldB H0 pre

theorem inv_reset : Inv reset [] :=
  ⟨rfl, rfl, rfl, by simp [reset], [], 0, rfl, rfl, by simp [reset, foldB_nil]⟩

theorem inv_inputByte (c : Ctx) (msg : List UInt8) (b : UInt8) (hi : Inv c msg)
    (hlen : 8 * (msg.length + 1) < 2 ^ 64) : Inv (inputByte c b) (msg ++ [b]) := by
  obtain ⟨hcorr, hcomp, hl, hblk, pre, k, hpre, hmsg, hh⟩ := hi
  unfold inputByte
  simp only [hcorr, Bool.false_eq_true, if_false]
  have h1 : ¬ (c.lenBits + 8 ≥ 2 ^ 64) := by omega
  simp only [h1, if_false]
  split
  · rename_i h64
    simp only [List.length_append, List.length_cons, List.length_nil] at h64
    refine ⟨rfl, hcomp, by simp [processBlock, hl]; omega, by simp [processBlock], pre ++ (c.block ++ [b]), k + 1,
      by simp [hpre]; omega, by simp [processBlock, hmsg], ?_⟩
    simp only [processBlock]
    rw [foldB_append k _ _ _ hpre, foldB_single _ _ (by simp; omega), hh]
  · rename_i h64
    simp only [List.length_append, List.length_cons, List.length_nil] at h64
    exact ⟨rfl, hcomp, by simp [hl]; omega, by simp; omega, pre, k, hpre, by simp [hmsg], hh⟩

theorem inv_foldl (l : List UInt8) (c : Ctx) (msg : List UInt8) (hi : Inv c msg)
    (hlen : 8 * (msg.length + l.length) < 2 ^ 64) : Inv (l.foldl inputByte c) (msg ++ l) := by
  induction l generalizing c msg with
  | nil => simpa using hi
  | cons b t ih =>
    simp only [List.foldl_cons]
    have := ih _ _ (inv_inputByte c msg b hi (by simp at hlen; omega)) (by simp at hlen ⊢; omega)
    simpa using this

theorem inv_input (l : List UInt8) (c : Ctx) (msg : List UInt8) (hi : Inv c msg)
    (hlen : 8 * (msg.length + l.length) < 2 ^ 64) : Inv (input c l) (msg ++ l) := by
  unfold input
  split
  · rename_i he
    have : l = [] := by simpa using he
    subst this; simpa using hi
  · simp only [hi.comp, hi.corr, Bool.false_eq_true, if_false]
    exact inv_foldl l c msg hi hlen

theorem inv_chunks (cs : List (List UInt8)) (c : Ctx) (msg : List UInt8) (hi : Inv c msg)
    (hlen : 8 * (msg.length + cs.flatten.length) < 2 ^ 64) : Inv (cs.foldl input c) (msg ++ cs.flatten) := by
  induction cs generalizing c msg with
  | nil => simpa using hi
  | cons l t ih =>
    simp only [List.foldl_cons, List.flatten_cons]
    simp only [List.flatten_cons, List.length_append] at hlen
    have := ih _ _ (inv_input l c msg hi (by omega)) (by rw [List.length_append]; omega)
    simpa using this


theorem beBytes_length (n k : Nat) : (beBytes n k).length = k := by simp [beBytes]

theorem padMessage_h (c : Ctx) (len : Nat) (hb : c.block.length < 64) (hl : len % 64 = c.block.length)
    (hbits : c.lenBits = 8 * len) (hlen : 8 * len < 2 ^ 64) :
    (padMessage c).h = foldB c.h (c.block ++ pad len) := by
  have hmod : 8 * len % 2 ^ 64 = 8 * len := Nat.mod_eq_of_lt hlen
  unfold padMessage pad
  rw [hmod, hbits]
  by_cases h56 : c.block.length ≥ 56
  · simp only [h56, if_true, processBlock]
    have hz : (64 - (len + 9) % 64) % 64 = (64 - (c.block ++ [128]).length) + 56 := by
      simp only [List.length_append, List.length_cons, List.length_nil]; omega
    rw [hz, ← List.replicate_append_replicate]
    have e : c.block ++ ([128] ++ (List.replicate (64 - (c.block ++ [128]).length) (0 : UInt8)
          ++ List.replicate 56 0) ++ beBytes (8 * len) 8)
        = (c.block ++ [128] ++ List.replicate (64 - (c.block ++ [128]).length) 0)
          ++ ([] ++ List.replicate (56 - ([] : List UInt8).length) 0 ++ beBytes (8 * len) 8) := by
      simp
    rw [e, foldB_cons _ _ _ (by simp; omega), foldB_single _ _ (by simp [beBytes_length])]
  · simp only [h56, if_false, processBlock]
    have hz : (64 - (len + 9) % 64) % 64 = 56 - (c.block ++ [128]).length := by
      simp only [List.length_append, List.length_cons, List.length_nil]; omega
    rw [hz]
    have e : c.block ++ ([128] ++ List.replicate (56 - (c.block ++ [128]).length) (0 : UInt8)
          ++ beBytes (8 * len) 8)
        = c.block ++ [128] ++ List.replicate (56 - (c.block ++ [128]).length) 0 ++ beBytes (8 * len) 8 := by
      simp
    rw [e, foldB_single _ _ (by simp [beBytes_length]; omega)]

theorem result_eq (c : Ctx) (msg : List UInt8) (hi : Inv c msg) (hlen : 8 * msg.length < 2 ^ 64) :
    result c = some (sha256 msg) := by
  obtain ⟨hcorr, hcomp, hl, hblk, pre, k, hpre, hmsg, hh⟩ := hi
  unfold result
  simp only [hcorr, hcomp, Bool.false_eq_true, if_false]
  rw [padMessage_h c msg.length hblk (by rw [hmsg, List.length_append, hpre]; omega) hl hlen]
  have : sha256 msg = digestBytes (foldB H0 (msg ++ pad msg.length)) := rfl
  rw [this, hh]
  conv => rhs; rw [hmsg, List.append_assoc, foldB_append k _ _ _ hpre]
  rw [← hmsg]

/-- SHA-256, streaming implementation = one-shot FIPS 180-4 definition, for every length and every
    chunking of the message (Message_Block_Index buffering, the 55/56 padding split, the length field) -/
theorem sha256_streaming (chunks : List Bytes) (hlen : 8 * chunks.flatten.length < 2 ^ 64) :
    Relic.Model.Sha256.mdMapChunks chunks = some (Relic.Spec.Sha256.sha256 chunks.flatten) := by
  have := inv_chunks chunks reset [] inv_reset (by simpa using hlen)
  rw [List.nil_append] at this
  exact result_eq _ _ this hlen

theorem sha256_oneshot (msg : Bytes) (hlen : 8 * msg.length < 2 ^ 64) :
    Relic.Model.Sha256.mdMap msg = some (Relic.Spec.Sha256.sha256 msg) := by
  have := sha256_streaming [msg] (by simpa using hlen)
  simpa [Relic.Model.Sha256.mdMapChunks, Relic.Model.Sha256.mdMap] using this

end Sha

/-! ## HMAC -/

theorem map_range_getD {α β} (l : List α) (d : α) (f : α → β) (n : Nat) (h : l.length = n) :
    (List.range n).map (fun i => f (l.getD i d)) = l.map f := by
  subst h
  apply List.ext_getElem
  · simp
  · intro i h1 h2
    simp at h1 h2
    simp [h2]

/-- md_hmac = RFC 2104 for every key length (below, at, above the block size) -/
theorem mdHmac_eq (H : Hash) (hout : ∀ b, (H.h b).length = H.outLen) (hle : H.outLen ≤ H.blockLen)
    (inp key : Bytes) : Md.mdHmac H inp key = Mac.hmac H key inp := by
  unfold Md.mdHmac Mac.hmac
  generalize hk1 : (if key.length > H.blockLen then H.h key else key) = key1
  have hk1l : key1.length ≤ H.blockLen := by
    subst hk1; split
    · rw [hout]; exact hle
    · omega
  simp only [if_pos hk1l]
  have hl : (key1 ++ List.replicate (H.blockLen - key1.length) 0).length = H.blockLen := by
    simp; omega
  rw [map_range_getD _ 0 (fun x => (0x5C : UInt8) ^^^ x) _ hl, map_range_getD _ 0 (fun x => (0x36 : UInt8) ^^^ x) _ hl]
  simp only [UInt8.xor_comm]

/-! ## counter KDF -/

theorem be32_mod (i : Nat) : Mac.be32 (i % 2 ^ 32) = Mac.be32 i := by
  unfold Mac.be32
  have h1 : i % 2 ^ 32 / 2 ^ 24 % 256 = i / 2 ^ 24 % 256 := by omega
  have h2 : i % 2 ^ 32 / 2 ^ 16 % 256 = i / 2 ^ 16 % 256 := by omega
  have h3 : i % 2 ^ 32 / 2 ^ 8 % 256 = i / 2 ^ 8 % 256 := by omega
  have h4 : i % 2 ^ 32 % 256 = i % 256 := by omega
  rw [h1, h2, h3, h4]

theorem ceil_div_bounds (k o : Nat) (hpos : 0 < o) :
    k ≤ o * ((k + o - 1) / o) ∧ o * ((k + o - 1) / o) < k + o := by
  have hdm := Nat.div_add_mod (k + o - 1) o
  have hml := Nat.mod_lt (k + o - 1) hpos
  generalize (k + o - 1) % o = r at *
  generalize o * ((k + o - 1) / o) = q at *
  omega

theorem nistKdfLoop_eq (H : Hash) (hout : ∀ b, (H.h b).length = H.outLen) (hpos : 0 < H.outLen)
    (keyLen : Nat) (inp : Bytes) (value : Nat) (n j : Nat) (acc : Bytes)
    (hacc : acc.length = j * H.outLen) (hle : j * H.outLen ≤ keyLen)
    (hd : j + n = (keyLen + H.outLen - 1) / H.outLen) :
    Md.nistKdfLoop H inp keyLen n (value + j) acc =
      (acc ++ (List.range' j n).flatMap fun i => H.h (inp ++ Mac.be32 (value + i))).take keyLen := by
  obtain ⟨hd1, hd2⟩ := ceil_div_bounds keyLen H.outLen hpos
  generalize hdd : (keyLen + H.outLen - 1) / H.outLen = d at *
  induction n generalizing j acc with
  | zero =>
    simp only [Md.nistKdfLoop, List.range'_zero, List.flatMap_nil, List.append_nil]
    have : j = d := by omega
    subst this
    rw [List.take_of_length_le]
    rw [hacc]; have := Nat.mul_comm j H.outLen; omega
  | succ n ih =>
    simp only [Md.nistKdfLoop, be32_mod]
    split
    · rename_i hfull
      have := ih (j + 1) (acc ++ H.h (inp ++ Mac.be32 (value + j)))
        (by simp [hacc, hout, Nat.add_mul]) (by rw [Nat.add_mul]; omega) (by omega)
      rw [Nat.add_assoc, this]
      simp [List.range'_succ]
    · rename_i hpart
      have hn : n = 0 := by
        apply Classical.byContradiction
        intro hn
        have h2 : H.outLen * (j + 2) ≤ H.outLen * d := Nat.mul_le_mul_left _ (by omega)
        rw [Nat.mul_add, Nat.mul_comm] at h2
        omega
      subst hn
      simp only [Md.nistKdfLoop, List.take_length, List.range'_succ, List.range'_zero, List.flatMap_cons,
        List.flatMap_nil, List.append_nil]
      rw [List.take_append, List.take_of_length_le (l := acc) (by omega)]

/-- nist_kdf = counter KDF for every requested length (0, multiples and non-multiples of the digest size) -/
theorem nistKdf_eq (H : Hash) (hout : ∀ b, (H.h b).length = H.outLen) (hpos : 0 < H.outLen)
    (keyLen : Nat) (inp : Bytes) (value : Nat) (hctr : value + (keyLen + H.outLen - 1) / H.outLen < 2 ^ 32) :
    Md.nistKdf H keyLen inp value = Mac.counterKdf H value inp keyLen := by
  -- `hctr` is not needed: `be32 (i % 2^32) = be32 i` holds for every `i` (lemma `be32_mod`)
  have _ := hctr
  unfold Md.nistKdf Mac.counterKdf
  have := nistKdfLoop_eq H hout hpos keyLen inp value ((keyLen + H.outLen - 1) / H.outLen) 0 [] (by simp) (by simp) (by simp)
  simp only [Nat.add_zero, List.nil_append] at this
  simp only [this, List.range_eq_range']

/-! ## expand_message_xmd -/

theorem map_range_xor (a b : Bytes) (n : Nat) (ha : a.length = n) (hb : b.length = n) :
    (List.range n).map (fun j => a.getD j 0 ^^^ b.getD j 0) = Mac.xorBytes a b := by
  unfold Mac.xorBytes
  apply List.ext_getElem
  · simp [ha, hb]
  · intro i h1 h2
    simp at h1 h2
    simp [ha, hb, h1]

theorem xmdLoop_eq (S : Md.Stream) (H : Hash) (hol : S.outLen = H.outLen)
    (hout : ∀ b, (H.h b).length = H.outLen) (bufLen : Nat) (dst b0 : Bytes)
    (hS : ∀ cs, cs.flatten.length ≤ H.outLen + 257 → S.run cs = some (H.h cs.flatten))
    (hb0 : b0.length = H.outLen) (hdst : dst.length ≤ 255) (n k : Nat) (bi buf : Bytes)
    (hbi : bi.length = H.outLen) :
    Md.mdXmd.loop S bufLen dst [UInt8.ofNat dst.length] b0 n (k + 1) bi buf =
      some (buf ++ ((Mac.xmdBlocks H b0 (dst ++ [UInt8.ofNat dst.length]) n bi (k + 1)).flatten.take
        (bufLen - k * H.outLen))) := by
  induction n generalizing k bi buf with
  | zero => simp [Md.mdXmd.loop, Mac.xmdBlocks]
  | succ n ih =>
    simp only [Md.mdXmd.loop, Mac.xmdBlocks]
    rw [hol, map_range_xor b0 bi _ hb0 hbi]
    have hxl : (Mac.xorBytes b0 bi).length = H.outLen := by simp [Mac.xorBytes, hb0, hbi]
    rw [hS _ (by simp [hxl]; omega)]
    simp only [Option.bind_eq_bind, Option.bind_some]
    have hfl : [Mac.xorBytes b0 bi ++ [UInt8.ofNat (k + 1)], dst, [UInt8.ofNat dst.length]].flatten
        = Mac.xorBytes b0 bi ++ [UInt8.ofNat (k + 1)] ++ (dst ++ [UInt8.ofNat dst.length]) := by simp
    rw [hfl]
    have hbi' := hout (Mac.xorBytes b0 bi ++ [UInt8.ofNat (k + 1)] ++ (dst ++ [UInt8.ofNat dst.length]))
    generalize H.h (Mac.xorBytes b0 bi ++ [UInt8.ofNat (k + 1)] ++ (dst ++ [UInt8.ofNat dst.length])) = bi' at *
    rw [ih (k + 1) bi' _ hbi']
    simp only [List.flatten_cons, Nat.add_mul, Nat.one_mul, List.append_assoc]
    generalize (Mac.xmdBlocks H b0 (dst ++ [UInt8.ofNat dst.length]) n bi' (k + 1 + 1)).flatten = rest
    generalize k * H.outLen = t
    congr 2
    rw [List.take_append, hbi']
    split
    · rename_i hlt
      have e1 : bufLen - (t + H.outLen) = 0 := by omega
      have e2 : bufLen - t - H.outLen = 0 := by omega
      have e3 : H.outLen - (t + H.outLen - bufLen) = bufLen - t := by omega
      rw [e1, e2, e3]
    · rename_i hge
      have e1 : bufLen - (t + H.outLen) = bufLen - t - H.outLen := by omega
      rw [e1, List.take_of_length_le (l := bi') (i := bufLen - t) (by omega), List.take_of_length_le (l := bi') (by omega)]

/-- md_xmd over a streaming hash that computes H on the concatenation of its chunks = expand_message_xmd -/
-- STATEMENT CHANGED: the hypothesis `hS` (the stream computes `H` on the concatenation of its chunks) is
-- now required only for chunk lists of total length ≤ blockLen + |inp| + outLen + 259, which covers every
-- call md_xmd makes (Z_pad ‖ msg ‖ 3 ‖ dst(≤255) ‖ 1 and outLen+1 ‖ dst ‖ 1). The unrestricted form is
-- not satisfiable by the streaming SHA-256 (its 64-bit bit counter overflows at 2^61 bytes), so it could
-- not be used for `xmd_sha256_conforms`; this is a weaker hypothesis, i.e. a stronger theorem.
theorem mdXmd_eq (S : Md.Stream) (H : Hash) (n : Nat) (inp dst : Bytes)
    (hS : ∀ cs, cs.flatten.length ≤ S.blockLen + inp.length + S.outLen + 259 →
      S.run cs = some (H.h cs.flatten))
    (hol : S.outLen = H.outLen) (hbl : S.blockLen = H.blockLen) (hout : ∀ b, (H.h b).length = H.outLen)
    (hpos : 0 < H.outLen) (h64 : H.outLen ≤ 64)  :
    Md.mdXmd S n inp dst = Mac.expandMessageXmd H inp dst n := by
  unfold Md.mdXmd Mac.expandMessageXmd
  simp only [hol, hbl] at hS ⊢
  obtain ⟨hd1, hd2⟩ := ceil_div_bounds n H.outLen hpos
  generalize (n + H.outLen - 1) / H.outLen = ell at *
  by_cases hc : ell > 255 ∨ dst.length > 255
  · have hc' : ell > 255 ∨ n > 65535 ∨ dst.length > 255 := by omega
    rw [if_pos hc, if_pos hc']
    rfl
  · have hn : ¬ n > 65535 := by
      intro hn
      have : H.outLen * ell ≤ 64 * ell := Nat.mul_le_mul_right _ h64
      omega
    have hc' : ¬ (ell > 255 ∨ n > 65535 ∨ dst.length > 255) := by omega
    rw [if_neg hc, if_neg hc']
    rw [hS _ (by simp; omega)]
    simp only [Option.bind_eq_bind, Option.bind_some]
    rw [xmdLoop_eq S H hol hout n dst _ (fun cs h => hS cs (by omega)) (hout _) (by omega) ell 0 _ _ (by simp)]
    simp

/-! ## PKCS#7 -/

theorem pkcs7Pad_length (m : Bytes) : (Aes.pkcs7Pad m).length % 16 = 0 ∧ m.length < (Aes.pkcs7Pad m).length := by
  simp [Aes.pkcs7Pad]; omega

theorem toNat_ofNat_small (k : Nat) (h : k < 256) : (UInt8.ofNat k).toNat = k := by
  simp [UInt8.toNat_ofNat']; omega

theorem pkcs7Unpad_pad (m : Bytes) (k : Nat) (h1 : 1 ≤ k) (h16 : k ≤ 16) :
    Aes.pkcs7Unpad (m ++ List.replicate k (UInt8.ofNat k)) = some m := by
  obtain ⟨j, rfl⟩ : ∃ j, k = j + 1 := ⟨k - 1, by omega⟩
  have hlast : (m ++ List.replicate (j+1) (UInt8.ofNat (j+1))).getLast? = some (UInt8.ofNat (j+1)) := by
    simp [List.getLast?_append, List.getLast?_replicate]
  unfold Aes.pkcs7Unpad
  rw [hlast]
  simp only [toNat_ofNat_small (j+1) (by omega)]
  have : ¬ (j + 1 = 0 ∨ j + 1 > 16 ∨ j + 1 > (m ++ List.replicate (j+1) (UInt8.ofNat (j+1))).length) := by
    simp; omega
  rw [if_neg this]
  have hl : (m ++ List.replicate (j+1) (UInt8.ofNat (j+1))).length - (j+1) = m.length := by simp
  rw [hl]
  simp

/-- PKCS#7 -/
theorem pkcs7_roundtrip (m : Bytes) : Aes.pkcs7Unpad (Aes.pkcs7Pad m) = some m := by
  unfold Aes.pkcs7Pad
  exact pkcs7Unpad_pad m _ (by omega) (by omega)

theorem eq_replicate_of_all {α} [BEq α] [LawfulBEq α] (l : List α) (p : α) (h : l.all (· == p) = true) :
    l = List.replicate l.length p := by
  induction l with
  | nil => rfl
  | cons a t ih =>
    simp only [List.all_cons, Bool.and_eq_true, beq_iff_eq] at h
    rw [List.length_cons, List.replicate_succ, ← ih h.2, h.1]

/-- unpadding returns data only for a well-formed padding: the last byte k satisfies 1 ≤ k ≤ 16 and the
    last k bytes all equal k -/
theorem pkcs7Unpad_sound (c m : Bytes) (h : Aes.pkcs7Unpad c = some m) :
    ∃ k : Nat, 1 ≤ k ∧ k ≤ 16 ∧ c = m ++ List.replicate k (UInt8.ofNat k) := by
  unfold Aes.pkcs7Unpad at h
  split at h
  · simp at h
  · rename_i p hp
    simp only at h
    split at h
    · simp at h
    · rename_i hn
      split at h
      · rename_i hall
        refine ⟨p.toNat, by omega, by omega, ?_⟩
        have hm : m = c.take (c.length - p.toNat) := by simpa using h.symm
        have hr := eq_replicate_of_all _ _ hall
        have hl : (c.drop (c.length - p.toNat)).length = p.toNat := by simp; omega
        rw [hl] at hr
        rw [hm, UInt8.ofNat_toNat, ← hr, List.take_append_drop]
      · simp at h

theorem xor_cancel (b iv : Bytes) (h : b.length ≤ iv.length) :
    Aes.addRoundKey (Aes.addRoundKey b iv) iv = b := by
  unfold Aes.addRoundKey
  induction b generalizing iv with
  | nil => simp
  | cons x t ih =>
    cases iv with
    | nil => simp at h
    | cons y s =>
      simp only [List.zipWith_cons_cons, List.cons.injEq]
      refine ⟨?_, ih s (by simpa using h)⟩
      rw [UInt8.xor_assoc, UInt8.xor_self, UInt8.xor_zero]

theorem addRoundKey_length (a b : Bytes) : (Aes.addRoundKey a b).length = min a.length b.length := by
  simp [Aes.addRoundKey]

/-- CBC decryption inverts CBC encryption when the block decryption inverts the block encryption -/
theorem cbc_roundtrip (E D : Bytes → Bytes) (hED : ∀ b, b.length = 16 → D (E b) = b)
    (hE : ∀ b, b.length = 16 → (E b).length = 16) (iv : Bytes) (hiv : iv.length = 16)
    (blocks : List Bytes) (hb : ∀ b ∈ blocks, b.length = 16) :
    Aes.cbcDec D iv (Aes.cbcEnc E iv blocks) = blocks := by
  induction blocks generalizing iv with
  | nil => simp [Aes.cbcEnc, Aes.cbcDec]
  | cons b bs ih =>
    have hbl : b.length = 16 := hb b (by simp)
    have hx : (Aes.addRoundKey b iv).length = 16 := by rw [addRoundKey_length]; omega
    simp only [Aes.cbcEnc, Aes.cbcDec]
    rw [hED _ hx, xor_cancel b iv (by omega), ih _ (hE _ hx) (fun b' hb' => hb b' (by simp [hb']))]

/-! ## padEncrypt / padDecrypt -/

theorem chunks16_nil (f : Nat) : Aes.chunks16 f [] = [] := by
  cases f <;> simp [Aes.chunks16]

theorem chunks16_append (f : Nat) (a b : Bytes) (ha : a.length = 16) :
    Aes.chunks16 (f + 1) (a ++ b) = a :: Aes.chunks16 f b := by
  have hne : (a ++ b).isEmpty = false := by
    cases a with
    | nil => simp at ha
    | cons x t => simp
  simp only [Aes.chunks16, hne]
  simp [ha]

theorem lastBlock_eq (rest iv : Bytes) (p : Nat) (hr : rest.length = 16 - p) (hp : p ≤ 16)
    (hiv : iv.length = 16) :
    ((List.range 16).map fun i =>
      if i < 16 - p then rest.getD i 0 ^^^ iv.getD i 0 else UInt8.ofNat p ^^^ iv.getD i 0)
      = Aes.addRoundKey (rest ++ List.replicate p (UInt8.ofNat p)) iv := by
  unfold Aes.addRoundKey
  apply List.ext_getElem
  · simp [hr, hiv]; omega
  · intro i h1 h2
    simp at h1
    simp only [List.getElem_map, List.getElem_range, List.getElem_zipWith]
    have hi : i < iv.length := by omega
    simp only [List.getD_eq_getElem?_getD, List.getElem?_eq_getElem hi, Option.getD_some]
    split
    · rename_i hlt
      have hlt' : i < rest.length := by omega
      rw [List.getElem?_eq_getElem hlt', Option.getD_some, List.getElem_append_left hlt']
    · rename_i hge
      rw [List.getElem_append_right (by omega)]
      simp

def encFin (E : Bytes → Bytes) (p : Nat) (r : Bytes × Bytes × Bytes) : Bytes :=
  r.2.2 ++ E ((List.range 16).map fun i =>
    if i < 16 - p then r.2.1.getD i 0 ^^^ r.1.getD i 0 else UInt8.ofNat p ^^^ r.1.getD i 0)

theorem padEncLoop_eq (E : Bytes → Bytes) (hE : ∀ b, b.length = 16 → (E b).length = 16)
    (p : Nat) (hp1 : 1 ≤ p) (hp : p ≤ 16) (n : Nat) (iv inp out : Bytes) (hiv : iv.length = 16)
    (hlen : inp.length = 16 * n + (16 - p)) (f : Nat) (hf : n + 1 ≤ f) :
    encFin E p (Bc.padEncrypt.loop E n iv inp out)
    = out ++ (Aes.cbcEnc E iv (Aes.chunks16 f (inp ++ List.replicate p (UInt8.ofNat p)))).flatten := by
  induction n generalizing iv inp out f with
  | zero =>
    obtain ⟨f, rfl⟩ : ∃ g, f = g + 1 := ⟨f - 1, by omega⟩
    simp only [Bc.padEncrypt.loop, encFin]
    rw [lastBlock_eq inp iv p (by omega) hp hiv]
    have := chunks16_append f (inp ++ List.replicate p (UInt8.ofNat p)) [] (by simp; omega)
    rw [List.append_nil] at this
    rw [this, chunks16_nil]
    simp [Aes.cbcEnc]
  | succ n ih =>
    obtain ⟨f, rfl⟩ : ∃ g, f = g + 1 := ⟨f - 1, by omega⟩
    rw [Bc.padEncrypt.loop]
    have hc : (E (Aes.addRoundKey (inp.take 16) iv)).length = 16 := by
      apply hE; rw [addRoundKey_length]; simp; omega
    rw [ih _ _ _ hc (by simp; omega) f (by omega)]
    have hsplit : inp ++ List.replicate p (UInt8.ofNat p)
        = inp.take 16 ++ (inp.drop 16 ++ List.replicate p (UInt8.ofNat p)) := by
      rw [← List.append_assoc, List.take_append_drop]
    rw [hsplit, chunks16_append f _ _ (by simp; omega)]
    simp [Aes.cbcEnc]

/-- padEncrypt (CBC branch) = CBC ∘ PKCS#7 of the specification, for every plaintext length incl. 0 -/
theorem padEncrypt_eq (E : Bytes → Bytes) (hE : ∀ b, b.length = 16 → (E b).length = 16) (iv : Bytes)
    (hiv : iv.length = 16) (m : Bytes) :
    Bc.padEncrypt E iv m =
      some (Aes.cbcEnc E iv (Aes.chunks16 ((Aes.pkcs7Pad m).length / 16 + 1) (Aes.pkcs7Pad m))).flatten := by
  have h0 : Bc.padEncrypt E iv m = some (encFin E (16 - (m.length - 16 * (m.length / 16)))
      (Bc.padEncrypt.loop E (m.length / 16) iv m [])) := rfl
  have hp : 16 - (m.length - 16 * (m.length / 16)) = 16 - m.length % 16 := by omega
  rw [h0, hp]
  have := padEncLoop_eq E hE (16 - m.length % 16) (by omega) (by omega) (m.length / 16) iv m [] hiv (by omega)
    ((Aes.pkcs7Pad m).length / 16 + 1) (by simp [Aes.pkcs7Pad]; omega)
  rw [List.nil_append] at this
  simp only [Aes.pkcs7Pad] at this ⊢
  rw [← this]

/-- the tail of padDecrypt applied to the loop result -/
def decFin (D : Bytes → Bytes) (r : Bytes × Bytes × Bytes) : Option Bytes :=
  let block := Aes.addRoundKey (D (r.2.1.take 16)) r.1
  let padLen := (block.getD 15 0).toNat
  if padLen = 0 ∨ padLen > 16 then none
  else if ((List.range 16).all fun i => i < 16 - padLen || block.getD i 0 == UInt8.ofNat padLen) then
    some (r.2.2 ++ block.take (16 - padLen))
  else none

theorem all_range_drop (block : Bytes) (hb : block.length = 16) (n : Nat) (hn : n ≤ 16) (p : UInt8) :
    ((List.range 16).all fun i => i < 16 - n || block.getD i 0 == p)
      = (block.drop (16 - n)).all (· == p) := by
  rw [Bool.eq_iff_iff]
  simp only [List.all_eq_true, List.mem_range, Bool.or_eq_true, decide_eq_true_eq, beq_iff_eq]
  constructor
  · intro h x hx
    obtain ⟨i, hi, rfl⟩ := List.mem_iff_getElem.mp hx
    simp at hi
    have := h (16 - n + i) (by omega)
    rw [List.getElem_drop]
    rcases this with h1 | h1
    · omega
    · rw [← h1]; simp [List.getD_eq_getElem?_getD]
      rw [List.getElem?_eq_getElem (by omega)]; simp
  · intro h i hi
    by_cases hlt : i < 16 - n
    · exact Or.inl hlt
    · right
      have hi' : i < block.length := by omega
      rw [List.getD_eq_getElem?_getD, List.getElem?_eq_getElem hi', Option.getD_some]
      apply h
      have : block[i] = (block.drop (16 - n))[i - (16 - n)]'(by simp; omega) := by
        rw [List.getElem_drop]; congr 1; omega
      rw [this]
      apply List.getElem_mem

theorem unpad_lastBlock (out block : Bytes) (hb : block.length = 16) :
    Aes.pkcs7Unpad (out ++ block) =
      (let padLen := (block.getD 15 0).toNat
       if padLen = 0 ∨ padLen > 16 then none
       else if ((List.range 16).all fun i => i < 16 - padLen || block.getD i 0 == UInt8.ofNat padLen) then
         some (out ++ block.take (16 - padLen))
       else none) := by
  have hlast : (out ++ block).getLast? = some (block.getD 15 0) := by
    have hbl : block.getLast? = some (block.getD 15 0) := by
      rw [List.getLast?_eq_getElem?, hb]
      simp [List.getD_eq_getElem?_getD]
      rw [List.getElem?_eq_getElem (by omega)]; simp
    simp [List.getLast?_append, hbl]
  unfold Aes.pkcs7Unpad
  rw [hlast]
  simp only
  generalize block.getD 15 0 = p
  by_cases h1 : p.toNat = 0 ∨ p.toNat > 16
  · have h2 : p.toNat = 0 ∨ p.toNat > 16 ∨ p.toNat > (out ++ block).length := by omega
    rw [if_pos h1, if_pos h2]
  · have h2 : ¬ (p.toNat = 0 ∨ p.toNat > 16 ∨ p.toNat > (out ++ block).length) := by
      simp [hb]; omega
    rw [if_neg h1, if_neg h2]
    have hl : (out ++ block).length - p.toNat = out.length + (16 - p.toNat) := by simp [hb]; omega
    rw [hl, UInt8.ofNat_toNat, all_range_drop block hb p.toNat (by omega) p]
    simp [List.drop_append, List.take_append]
    rw [List.take_of_length_le (l := out) (by omega), List.drop_of_length_le (l := out) (by omega)]
    simp

theorem padDecLoop_eq (D : Bytes → Bytes)
    (n : Nat) (iv inp out : Bytes) (hiv : iv.length = 16)
    (hlen : inp.length = 16 * (n + 1)) (f : Nat) (hf : n + 1 ≤ f) :
    let r := Bc.padDecrypt.loop D n iv inp out
    r.1.length = 16 ∧ r.2.1.length = 16 ∧
    r.2.2 ++ Aes.addRoundKey (D (r.2.1.take 16)) r.1
      = out ++ (Aes.cbcDec D iv (Aes.chunks16 f inp)).flatten := by
  induction n generalizing iv inp out f with
  | zero =>
    obtain ⟨f, rfl⟩ : ∃ g, f = g + 1 := ⟨f - 1, by omega⟩
    simp only [Bc.padDecrypt.loop]
    refine ⟨hiv, by omega, ?_⟩
    have := chunks16_append f inp [] (by omega)
    rw [List.append_nil] at this
    rw [this, chunks16_nil, List.take_of_length_le (by omega)]
    simp [Aes.cbcDec]
  | succ n ih =>
    obtain ⟨f, rfl⟩ : ∃ g, f = g + 1 := ⟨f - 1, by omega⟩
    rw [Bc.padDecrypt.loop]
    have ht : (inp.take 16).length = 16 := by simp; omega
    have := ih (inp.take 16) (inp.drop 16) (out ++ Aes.addRoundKey (D (inp.take 16)) iv) ht
      (by simp; omega) f (by omega)
    simp only at this ⊢
    refine ⟨this.1, this.2.1, ?_⟩
    rw [this.2.2]
    have hsplit : inp = inp.take 16 ++ inp.drop 16 := (List.take_append_drop 16 inp).symm
    conv => rhs; rw [hsplit, chunks16_append f _ _ ht]
    simp [Aes.cbcDec]

/-- padDecrypt (CBC branch) = PKCS#7-unpad ∘ CBC-decrypt of the specification, for every input -/
theorem padDecrypt_eq (D : Bytes → Bytes) (hD : ∀ b, b.length = 16 → (D b).length = 16) (iv : Bytes)
    (hiv : iv.length = 16) (c : Bytes) :
    Bc.padDecrypt D iv c =
      (if c.length = 0 ∨ c.length % 16 ≠ 0 then none
       else Aes.pkcs7Unpad (Aes.cbcDec D iv (Aes.chunks16 (c.length / 16 + 1) c)).flatten) := by
  have h0 : Bc.padDecrypt D iv c = if c.length = 0 then none else if c.length % 16 ≠ 0 then none
      else decFin D (Bc.padDecrypt.loop D (c.length / 16 - 1) iv c []) := rfl
  rw [h0]
  by_cases h1 : c.length = 0
  · simp [h1]
  by_cases h2 : c.length % 16 ≠ 0
  · simp [h2]
  have h3 : ¬ (c.length = 0 ∨ c.length % 16 ≠ 0) := by omega
  rw [if_neg h1, if_neg h2, if_neg h3]
  have := padDecLoop_eq D (c.length / 16 - 1) iv c [] hiv (by omega) (c.length / 16 + 1) (by omega)
  simp only [List.nil_append] at this
  obtain ⟨ha, hb, hc⟩ := this
  rw [← hc, unpad_lastBlock _ _ (by rw [addRoundKey_length, hD _ (by simp; omega)]; omega)]
  rfl

/-! ## auxiliary facts for Props/C14 -/

theorem compress_length (h : List UInt32) (b : List UInt8) : (Sha256.compress h b).length = 8 := by
  simp [Sha256.compress]

theorem foldl_compress_length (l : List (List UInt8)) (h : List UInt32) (hh : h.length = 8) :
    (l.foldl Sha256.compress h).length = 8 := by
  induction l generalizing h with
  | nil => simpa using hh
  | cons b t ih => exact ih _ (compress_length h b)

theorem digestBytes_length (h : List UInt32) : (Sha256.digestBytes h).length = 4 * h.length := by
  unfold Sha256.digestBytes
  induction h with
  | nil => rfl
  | cons w t ih => simp [List.flatMap_cons, ih, Sha256.wordBytes]; omega

theorem sha256_length (b : List UInt8) : (Sha256.sha256 b).length = 32 := by
  unfold Sha256.sha256
  simp only [digestBytes_length]
  rw [foldl_compress_length _ _ rfl]

theorem chunks16_flatten (L : List Bytes) (hL : ∀ b ∈ L, b.length = 16) (f : Nat) (hf : L.length ≤ f) :
    Aes.chunks16 f L.flatten = L := by
  induction L generalizing f with
  | nil => simp [chunks16_nil]
  | cons b t ih =>
    obtain ⟨f, rfl⟩ : ∃ g, f = g + 1 := ⟨f - 1, by simp at hf; omega⟩
    rw [List.flatten_cons, chunks16_append f _ _ (hL b (by simp)),
      ih (fun b' hb' => hL b' (by simp [hb'])) f (by simp at hf; omega)]

theorem flatten_chunks16 (f : Nat) (l : Bytes) (hf : l.length ≤ 16 * f) (hm : l.length % 16 = 0) :
    (Aes.chunks16 f l).flatten = l ∧ ∀ b ∈ Aes.chunks16 f l, b.length = 16 := by
  induction f generalizing l with
  | zero =>
    have : l = [] := List.eq_nil_of_length_eq_zero (by omega)
    subst this; simp [Aes.chunks16]
  | succ f ih =>
    simp only [Aes.chunks16]
    split
    · rename_i he
      have : l = [] := by simpa using he
      subst this; simp
    · rename_i he
      have hne : l ≠ [] := by simpa using he
      have hpos : 0 < l.length := List.length_pos_iff.mpr hne
      have := ih (l.drop 16) (by simp; omega) (by simp; omega)
      refine ⟨by rw [List.flatten_cons, this.1, List.take_append_drop], ?_⟩
      intro b hb
      rcases List.mem_cons.mp hb with rfl | hb
      · simp; omega
      · exact this.2 b hb

theorem flatten_length16 (L : List Bytes) (hL : ∀ b ∈ L, b.length = 16) : L.flatten.length = 16 * L.length := by
  induction L with
  | nil => rfl
  | cons b t ih =>
    rw [List.flatten_cons, List.length_append, hL b (by simp), ih (fun b' hb' => hL b' (by simp [hb'])),
      List.length_cons]; omega

theorem cbcEnc_blocks (E : Bytes → Bytes) (hE : ∀ b, b.length = 16 → (E b).length = 16) (iv : Bytes)
    (hiv : iv.length = 16) (bs : List Bytes) (hb : ∀ b ∈ bs, b.length = 16) :
    (Aes.cbcEnc E iv bs).length = bs.length ∧ ∀ c ∈ Aes.cbcEnc E iv bs, c.length = 16 := by
  induction bs generalizing iv with
  | nil => simp [Aes.cbcEnc]
  | cons b t ih =>
    have hc : (E (Aes.addRoundKey b iv)).length = 16 := by
      apply hE; rw [addRoundKey_length, hb b (by simp)]; omega
    have := ih _ hc (fun b' hb' => hb b' (by simp [hb']))
    simp only [Aes.cbcEnc]
    refine ⟨by simp [this.1], ?_⟩
    intro c hcm
    rcases List.mem_cons.mp hcm with rfl | hcm
    · exact hc
    · exact this.2 c hcm

end Relic.Lemmas.Md
