/-
C14 lemmas: the code-shaped models of Model/Sha256.lean, Model/Md.lean, Model/Bc.lean equal the
standard-shaped definitions of Spec/Sha256.lean, Spec/Mac.lean, Spec/Aes.lean.
-/
import RelicVerif.Model.Md
import RelicVerif.Model.Bc

namespace Relic.Lemmas.Md
open Relic.Spec Relic.Model
open Relic.Spec.Mac (Bytes Hash)

/-- SHA-256, streaming implementation = one-shot FIPS 180-4 definition, for every length and every
    chunking of the message (Message_Block_Index buffering, the 55/56 padding split, the length field) -/
theorem sha256_streaming (chunks : List Bytes) (hlen : 8 * chunks.flatten.length < 2 ^ 64) :
    Sha256.mdMapChunks chunks = some (Spec.Sha256.sha256 chunks.flatten) := by
  sorry

theorem sha256_oneshot (msg : Bytes) (hlen : 8 * msg.length < 2 ^ 64) :
    Sha256.mdMap msg = some (Spec.Sha256.sha256 msg) := by
  sorry

/-- md_hmac = RFC 2104 for every key length (below, at, above the block size) -/
theorem mdHmac_eq (H : Hash) (hout : ∀ b, (H.h b).length = H.outLen) (hle : H.outLen ≤ H.blockLen)
    (inp key : Bytes) : Md.mdHmac H inp key = Mac.hmac H key inp := by
  sorry

/-- nist_kdf = counter KDF for every requested length (0, multiples and non-multiples of the digest size) -/
theorem nistKdf_eq (H : Hash) (hout : ∀ b, (H.h b).length = H.outLen) (hpos : 0 < H.outLen)
    (keyLen : Nat) (inp : Bytes) (value : Nat) (hctr : value + (keyLen + H.outLen - 1) / H.outLen < 2 ^ 32) :
    Md.nistKdf H keyLen inp value = Mac.counterKdf H value inp keyLen := by
  sorry

/-- md_xmd over a streaming hash that computes H on the concatenation of its chunks = expand_message_xmd -/
theorem mdXmd_eq (S : Md.Stream) (H : Hash) (hS : ∀ cs, S.run cs = some (H.h cs.flatten))
    (hol : S.outLen = H.outLen) (hbl : S.blockLen = H.blockLen) (hout : ∀ b, (H.h b).length = H.outLen)
    (hpos : 0 < H.outLen) (h64 : H.outLen ≤ 64) (n : Nat) (inp dst : Bytes) :
    Md.mdXmd S n inp dst = Mac.expandMessageXmd H inp dst n := by
  sorry

/-- PKCS#7 -/
theorem pkcs7_roundtrip (m : Bytes) : Aes.pkcs7Unpad (Aes.pkcs7Pad m) = some m := by
  sorry

theorem pkcs7Pad_length (m : Bytes) : (Aes.pkcs7Pad m).length % 16 = 0 ∧ m.length < (Aes.pkcs7Pad m).length := by
  sorry

/-- unpadding returns data only for a well-formed padding: the last byte k satisfies 1 ≤ k ≤ 16 and the
    last k bytes all equal k -/
theorem pkcs7Unpad_sound (c m : Bytes) (h : Aes.pkcs7Unpad c = some m) :
    ∃ k : Nat, 1 ≤ k ∧ k ≤ 16 ∧ c = m ++ List.replicate k (UInt8.ofNat k) := by
  sorry

/-- CBC decryption inverts CBC encryption when the block decryption inverts the block encryption -/
theorem cbc_roundtrip (E D : Bytes → Bytes) (hED : ∀ b, b.length = 16 → D (E b) = b)
    (hE : ∀ b, b.length = 16 → (E b).length = 16) (iv : Bytes) (hiv : iv.length = 16)
    (blocks : List Bytes) (hb : ∀ b ∈ blocks, b.length = 16) :
    Aes.cbcDec D iv (Aes.cbcEnc E iv blocks) = blocks := by
  sorry

/-- padEncrypt (CBC branch) = CBC ∘ PKCS#7 of the specification, for every plaintext length incl. 0 -/
theorem padEncrypt_eq (E : Bytes → Bytes) (hE : ∀ b, b.length = 16 → (E b).length = 16) (iv : Bytes)
    (hiv : iv.length = 16) (m : Bytes) :
    Bc.padEncrypt E iv m =
      some (Aes.cbcEnc E iv (Aes.chunks16 ((Aes.pkcs7Pad m).length / 16 + 1) (Aes.pkcs7Pad m))).flatten := by
  sorry

/-- padDecrypt (CBC branch) = PKCS#7-unpad ∘ CBC-decrypt of the specification, for every input -/
theorem padDecrypt_eq (D : Bytes → Bytes) (hD : ∀ b, b.length = 16 → (D b).length = 16) (iv : Bytes)
    (hiv : iv.length = 16) (c : Bytes) :
    Bc.padDecrypt D iv c =
      (if c.length = 0 ∨ c.length % 16 ≠ 0 then none
       else Aes.pkcs7Unpad (Aes.cbcDec D iv (Aes.chunks16 (c.length / 16 + 1) c)).flatten) := by
  sorry

end Relic.Lemmas.Md
