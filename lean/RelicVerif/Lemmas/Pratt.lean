/-
Soundness of the Pratt-certificate checker of Model/Pratt.lean (Lucas primality test, Mathlib's
`lucas_primality`).
-/
import Mathlib.NumberTheory.LucasPrimality
import Mathlib.Data.Nat.Prime.Basic
import Mathlib.Data.ZMod.Basic
import Mathlib.Tactic.NormNum.Prime
import RelicVerif.Model.Pratt

namespace Relic.Model.Pratt
open Relic.Spec.Curve (powMod)

/-- the square-and-multiply loop computes `acc * a ^ e % m` when the fuel covers the bits of `e` -/
theorem powMod_go_eq (m : Nat) (hm : 0 < m) :
    ∀ (fuel a e acc : Nat), e < 2 ^ fuel → acc < m →
      powMod.go m fuel a e acc = acc * a ^ e % m := by
  intro fuel
  induction fuel with
  | zero =>
    intro a e acc he hacc
    have he0 : e = 0 := by simpa using he
    subst he0
    simp [powMod.go, Nat.mod_eq_of_lt hacc]
  | succ f ih =>
    intro a e acc he hacc
    unfold powMod.go
    by_cases he0 : e = 0
    · subst he0
      simp [Nat.mod_eq_of_lt hacc]
    · rw [if_neg he0]
      have he2 : e / 2 < 2 ^ f := by
        rw [Nat.div_lt_iff_lt_mul (by norm_num)]
        rw [pow_succ] at he
        exact he
      have hacc' : (if e % 2 = 1 then acc * a % m else acc) < m := by
        split
        · exact Nat.mod_lt _ hm
        · exact hacc
      rw [ih _ _ _ he2 hacc']
      have hsplit : e = 2 * (e / 2) + e % 2 := (Nat.div_add_mod e 2).symm
      have hsq : (a * a % m) ^ (e / 2) ≡ a ^ (2 * (e / 2)) [MOD m] := by
        have h1 : a * a % m ≡ a ^ 2 [MOD m] := by
          rw [pow_two]; exact Nat.mod_modEq _ _
        have h2 := h1.pow (e / 2)
        rwa [← pow_mul] at h2
      change _ ≡ _ [MOD m]
      by_cases hodd : e % 2 = 1
      · rw [if_pos hodd]
        have h3 : acc * a % m ≡ acc * a [MOD m] := Nat.mod_modEq _ _
        have h4 := h3.mul hsq
        have h5 : acc * a * a ^ (2 * (e / 2)) = acc * a ^ e := by
          conv_rhs => rw [hsplit, hodd, pow_succ]
          ring
        rwa [h5] at h4
      · rw [if_neg hodd]
        have hev : e % 2 = 0 := by omega
        have h4 := (Nat.ModEq.refl acc).mul hsq
        have h5 : acc * a ^ (2 * (e / 2)) = acc * a ^ e := by
          conv_rhs => rw [hsplit, hev, Nat.add_zero]
        rwa [h5] at h4

theorem powMod_eq (a e m : Nat) (hm : 1 < m) : powMod a e m = a ^ e % m := by
  unfold powMod
  have hfuel : e < 2 ^ (Nat.log2 e + 2) :=
    lt_trans Nat.lt_log2_self (Nat.pow_lt_pow_right (by norm_num) (by omega))
  rw [powMod_go_eq m (by omega) _ _ _ _ hfuel (Nat.mod_lt _ (by omega))]
  rw [Nat.mod_eq_of_lt hm, Nat.one_mul]
  exact (Nat.pow_mod a e m).symm

theorem zmod_pow_eq_one_iff (n a k : Nat) (hn : 1 < n) :
    ((a : ZMod n) ^ k = 1) ↔ a ^ k % n = 1 := by
  have h1 : ((a : ZMod n) ^ k = 1) ↔ (((a ^ k : ℕ) : ZMod n) = ((1 : ℕ) : ZMod n)) := by
    rw [Nat.cast_pow, Nat.cast_one]
  rw [h1, ZMod.natCast_eq_natCast_iff', Nat.mod_eq_of_lt hn]

/-- a prime dividing a product of powers of primes (times an accumulator) divides the accumulator or
is one of the primes -/
theorem prime_dvd_foldl (p : Nat) (hp : p.Prime) :
    ∀ (fs : List (Nat × Nat)) (acc : Nat), (∀ qe ∈ fs, Nat.Prime qe.1) →
      p ∣ fs.foldl (fun acc qe => acc * qe.1 ^ qe.2) acc → p ∣ acc ∨ ∃ qe ∈ fs, p = qe.1 := by
  intro fs
  induction fs with
  | nil => intro acc _ h; exact Or.inl (by simpa using h)
  | cons x xs ih =>
    intro acc hall h
    rw [List.foldl_cons] at h
    rcases ih (acc * x.1 ^ x.2) (fun qe hqe => hall qe (List.mem_cons_of_mem _ hqe)) h with h1 | h1
    · rcases (Nat.Prime.dvd_mul hp).1 h1 with h2 | h2
      · exact Or.inl h2
      · have h3 := hp.dvd_of_dvd_pow h2
        have h4 := (Nat.prime_dvd_prime_iff_eq hp (hall x List.mem_cons_self)).1 h3
        exact Or.inr ⟨x, List.mem_cons_self, h4⟩
    · obtain ⟨qe, hqe, hq⟩ := h1
      exact Or.inr ⟨qe, List.mem_cons_of_mem _ hqe, hq⟩

theorem lineOk_prime (known : List Nat) (hk : ∀ q ∈ known, Nat.Prime q) (l : Line)
    (h : lineOk known l = true) : Nat.Prime l.n := by
  unfold lineOk at h
  simp only [Bool.and_eq_true, decide_eq_true_eq, List.all_eq_true, beq_iff_eq, bne_iff_ne,
    List.contains_iff_mem] at h
  obtain ⟨⟨⟨⟨hn, hfs⟩, hprod⟩, hone⟩, hne⟩ := h
  have hn1 : 1 < l.n := by omega
  rw [powMod_eq _ _ _ hn1] at hone
  apply lucas_primality l.n (l.a : ZMod l.n)
  · exact (zmod_pow_eq_one_iff _ _ _ hn1).2 hone
  · intro q hq hdvd
    rw [← hprod] at hdvd
    have hall : ∀ qe ∈ l.fs, Nat.Prime qe.1 := fun qe hqe => hk _ (hfs qe hqe).1
    rcases prime_dvd_foldl q hq l.fs 1 hall hdvd with h1 | ⟨qe, hqe, rfl⟩
    · exact absurd (Nat.dvd_one.1 h1) hq.one_lt.ne'
    · have h2 := hne qe hqe
      rw [powMod_eq _ _ _ hn1] at h2
      intro h3
      exact h2 ((zmod_pow_eq_one_iff _ _ _ hn1).1 h3)

theorem checkLines_prime (ls : List Line) :
    ∀ (known : List Nat), (∀ q ∈ known, Nat.Prime q) →
      ∀ r, checkLines known ls = some r → ∀ q ∈ r, Nat.Prime q := by
  induction ls with
  | nil =>
    intro known hk r hr
    simp only [checkLines, Option.some.injEq] at hr
    subst hr
    exact hk
  | cons l ls ih =>
    intro known hk r hr
    unfold checkLines at hr
    by_cases hl : lineOk known l = true
    · rw [if_pos hl] at hr
      refine ih (l.n :: known) ?_ r hr
      intro q hq
      rcases List.mem_cons.1 hq with rfl | hq
      · exact lineOk_prime known hk l hl
      · exact hk q hq
    · rw [if_neg hl] at hr
      exact absurd hr (by simp)

theorem smallPrimes_prime : ∀ q ∈ smallPrimes, Nat.Prime q := by
  intro q hq
  simp only [smallPrimes, List.mem_cons, List.not_mem_nil, or_false] at hq
  rcases hq with rfl | rfl | rfl | rfl | rfl | rfl | rfl | rfl | rfl | rfl | rfl | rfl | rfl | rfl |
    rfl | rfl | rfl | rfl | rfl | rfl | rfl | rfl | rfl | rfl | rfl <;> norm_num

/-- every number a certificate certifies is prime -/
theorem certified_prime (ls : List Line) : ∀ q ∈ certified ls, Nat.Prime q := by
  intro q hq
  unfold certified at hq
  cases hc : checkLines smallPrimes ls with
  | none => rw [hc] at hq; simp at hq
  | some r =>
    rw [hc] at hq
    exact checkLines_prime ls smallPrimes smallPrimes_prime r hc q (by simpa using hq)

end Relic.Model.Pratt
