/-
Inversion algorithms of Model/FpAlg.lean, second part: binary extended Euclid, Euclid with quotients, Fermat through fp_exp,
simultaneous inversion, and the signed-exponent wrappers of the exponentiations (which invert through fp_inv = fp_inv_monty).
-/
import Mathlib.Data.Nat.ModEq
import Mathlib.Data.Nat.GCD.Basic
import Mathlib.Data.ZMod.Basic
import Mathlib.FieldTheory.Finite.Basic
import Mathlib.Algebra.Field.ZMod
import Mathlib.Tactic.Ring
import Mathlib.Tactic.Linarith
import RelicVerif.Model.FpAlg
import RelicVerif.Lemmas.FpAlgExp
import RelicVerif.Lemmas.FpAlgInv

namespace Relic.Model.FpAlg
open Relic.Model.Rec

/-- fp_inv_binar -/
theorem invBinar_spec (c : Ctx) (h : c.WF) : InvContract c (invBinar c) := by
  sorry

/-- fp_inv_exgcd -/
theorem invExgcd_spec (c : Ctx) (h : c.WF) : InvContract c (invExgcd c) := by
  sorry

/-- fp_inv_basic (Fermat through fp_exp = sliding window) -/
theorem invBasic_spec (c : Ctx) (h : c.WF) : InvContract c (invBasic c) := by
  sorry

/-- fp_inv_lower / fp_invm_low -/
theorem invLower_spec (c : Ctx) (h : c.WF) : InvContract c (invLower c) := by
  sorry

/-- fp_inv_sim for every list length ≥ 1: all inverses when no element is zero, the error of fp_inv otherwise -/
theorem invSim_spec (c : Ctx) (h : c.WF) (as : List Nat) (hne : as ≠ []) (hlt : ∀ a ∈ as, a < c.p) :
    ((∃ a ∈ as, a = 0) → invSim c as = none) ∧
    ((∀ a ∈ as, a ≠ 0) → ∃ out, invSim c as = some out ∧
      List.Forall₂ (fun a x => x < c.p ∧ a * x % c.p = 1) as out) := by
  sorry

/-- the contract of an exponentiation with a signed exponent: a^e for e ≥ 0, the inverse of a^|e| for e < 0 and a ≠ 0,
    an error for e < 0 and a = 0 -/
def ExpContract (c : Ctx) (a : Nat) (e : Int) (r : Option Nat) : Prop :=
  (0 ≤ e → r = some (a ^ e.toNat % c.p)) ∧
  (e < 0 → a ≠ 0 → ∃ x, r = some x ∧ x < c.p ∧ x * a ^ e.natAbs % c.p = 1) ∧
  (e < 0 → a = 0 → r = none)

theorem fpExpBasic_spec (c : Ctx) (h : c.WF) (a : Nat) (ha : a < c.p) (e : Int) :
    ExpContract c a e (fpExpBasic c a e) := by
  sorry

theorem fpExpMonty_spec (c : Ctx) (h : c.WF) (a : Nat) (ha : a < c.p) (e : Int) :
    ExpContract c a e (fpExpMonty c a e) := by
  sorry

/-- fp_exp_slide: the contract for exponents of at most RLC_FP_BITS + 1 bits; longer exponents are refused (as coded) -/
theorem fpExpSlide_spec (c : Ctx) (h : c.WF) (a : Nat) (ha : a < c.p) (e : Int) :
    (bitLen e.natAbs ≤ c.fb + 1 → ExpContract c a e (fpExpSlide c a e)) ∧
    (c.fb + 1 < bitLen e.natAbs → fpExpSlide c a e = none) := by
  sorry

end Relic.Model.FpAlg
