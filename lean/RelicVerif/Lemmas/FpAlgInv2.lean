/-
Inversion algorithms of Model/FpAlg.lean, second part: binary extended Euclid, Euclid with quotients, Fermat through fp_exp,
simultaneous inversion, and the signed-exponent wrappers of the exponentiations (which invert through fp_inv = fp_inv_monty).
-/
import Mathlib.Data.Nat.ModEq
import Mathlib.Data.Nat.GCD.Basic
import Mathlib.Data.ZMod.Basic
import Mathlib.FieldTheory.Finite.Basic
import Mathlib.Algebra.Field.ZMod
import Mathlib.Tactic.Ring
import Mathlib.Tactic.Linarith
import Mathlib.Tactic.LinearCombination
import Mathlib.Data.List.Forall2
import RelicVerif.Model.FpAlg
import RelicVerif.Lemmas.FpAlgExp
import RelicVerif.Lemmas.FpAlgInv

namespace Relic.Model.FpAlg
open Relic.Model.Rec


/-! ### helpers -/

theorem bitLen_le_of_lt {n k : Nat} (h : n < 2 ^ k) : bitLen n ≤ k := by
  by_cases hn : n = 0
  · subst hn; simp [bitLen]
  · have hpos := Nat.pos_of_ne_zero hn
    have h1 := (bitLen_spec n hpos).1
    have h2 : 2 ^ (bitLen n - 1) < 2 ^ k := lt_of_le_of_lt h1 h
    have h3 := (Nat.pow_lt_pow_iff_right (by decide : 1 < 2)).1 h2
    have h4 := bitLen_pos hpos
    omega

theorem inv_pow_aux (c : Ctx) (h : c.WF) (a n : Nat) (ha : a < c.p) (hn : 0 < n) :
    (a ≠ 0 → ∃ x, fpInv c (a ^ n % c.p) = some x ∧ x < c.p ∧ x * a ^ n % c.p = 1) ∧
    (a = 0 → fpInv c (a ^ n % c.p) = none) := by
  have hp := h.prime.pos
  have hr : a ^ n % c.p < c.p := Nat.mod_lt _ hp
  constructor
  · intro ha0
    have hr0 : a ^ n % c.p ≠ 0 := by
      intro h0
      have := h.prime.dvd_of_dvd_pow (Nat.dvd_of_mod_eq_zero h0)
      have := Nat.le_of_dvd (Nat.pos_of_ne_zero ha0) this
      omega
    obtain ⟨x, hx, hxlt, hx1⟩ := (fpInv_spec c h _ hr).2 hr0
    refine ⟨x, hx, hxlt, ?_⟩
    rw [Nat.mul_mod, Nat.mod_mod, ← Nat.mul_mod] at hx1
    rw [Nat.mul_comm]; exact hx1
  · intro ha0
    subst ha0
    rw [Nat.zero_pow hn, Nat.zero_mod]
    exact (fpInv_spec c h 0 hp).1 rfl

/-- integer cofactor to canonical inverse -/
theorem toNat_emod_spec (p a : Nat) (hp : 1 < p) (g : Int) (hd : (p : Int) ∣ g * a - 1) :
    (g % (p : Int)).toNat < p ∧ a * (g % (p : Int)).toNat % p = 1 := by
  have hp0 : (0 : Int) < p := by exact_mod_cast (by omega : 0 < p)
  have hx : ((g % (p : Int)).toNat : Int) = g % p := Int.toNat_of_nonneg (Int.emod_nonneg _ (ne_of_gt hp0))
  have hlt := Int.emod_lt_of_pos g hp0
  constructor
  · have : ((g % (p : Int)).toNat : Int) < p := by rw [hx]; exact hlt
    exact_mod_cast this
  · have : ((a * (g % (p : Int)).toNat % p : Nat) : Int) = 1 := by
      push_cast
      rw [hx]
      obtain ⟨k, hk⟩ := hd
      have e : (a : Int) * g = 1 + p * k := by linarith
      calc ((a : Int) * (g % p)) % p = (a * g) % p := by
            rw [Int.mul_emod, Int.emod_emod_of_dvd _ (dvd_refl _), ← Int.mul_emod]
        _ = 1 := by
            rw [e, Int.add_mul_emod_self_left]
            exact Int.emod_eq_of_lt (by norm_num) (by exact_mod_cast hp)
    exact_mod_cast this

theorem exgcdLoop_spec (p a : Nat) : ∀ (fuel u v : Nat) (g1 g2 : Int),
    0 < u → u < fuel → Nat.Coprime u v → (p : Int) ∣ g1 * a - u → (p : Int) ∣ g2 * a - v →
    ∃ g, exgcdLoop fuel u v g1 g2 = some g ∧ (p : Int) ∣ g * a - 1 := by
  intro fuel
  induction fuel with
  | zero => intro u v g1 g2 _ h; omega
  | succ f ih =>
    intro u v g1 g2 hu hf hc h1 h2
    unfold exgcdLoop
    by_cases hu1 : u = 1
    · subst hu1; rw [if_pos rfl]; exact ⟨g1, rfl, by simpa using h1⟩
    · have hu0 : u ≠ 0 := by omega
      rw [if_neg hu1, if_neg hu0]
      have hmod : 0 < v % u := by
        rcases Nat.eq_zero_or_pos (v % u) with h0 | h0
        · exact absurd (Nat.Coprime.eq_one_of_dvd hc (Nat.dvd_of_mod_eq_zero h0)) hu1
        · exact h0
      have hlt : v % u < u := Nat.mod_lt _ hu
      have hc' : Nat.Coprime (v % u) u := by
        show Nat.gcd (v % u) u = 1
        rw [← Nat.gcd_rec]; exact hc
      have key : ((v % u : Nat) : Int) = (v : Int) - u * ((v / u : Nat) : Int) := by
        have h3 := Nat.div_add_mod v u
        have h4 : ((u * (v / u) + v % u : Nat) : Int) = v := by exact_mod_cast h3
        push_cast at h4 ⊢; linarith
      apply ih (v % u) u _ g1 hmod (by omega) hc' _ h1
      have e : (g2 - ((v / u : Nat) : Int) * g1) * a - ((v % u : Nat) : Int)
          = (g2 * a - v) - ((v / u : Nat) : Int) * (g1 * a - u) := by rw [key]; ring
      rw [e]; exact dvd_sub h2 (Dvd.dvd.mul_left h1 _)

theorem fermat_aux (c : Ctx) (h : c.WF) :
    InvContract c (fun a => if a = 0 then none else fpExpNat c a (c.p - 2)) := by
  intro a ha
  have hp := h.prime
  have hp2 := hp.two_le
  have hodd := h.odd
  have hp3 : 3 ≤ c.p := by omega
  refine ⟨fun h0 => by simp [h0], fun h0 => ?_⟩
  have hb : bitLen (c.p - 2) ≤ c.fb + 1 := by
    have h1 : c.p - 2 < 2 ^ c.fb := lt_of_le_of_lt (Nat.sub_le _ _) h.fbits
    have := bitLen_le_of_lt h1; omega
  refine ⟨a ^ (c.p - 2) % c.p, ?_, Nat.mod_lt _ hp.pos, ?_⟩
  · simp only [if_neg h0]; exact fpExpNat_spec c a _ ha h.width hb
  · rw [Nat.mul_mod_mod]
    have hnd : ¬ c.p ∣ a := fun hd => by
      have := Nat.le_of_dvd (Nat.pos_of_ne_zero h0) hd; omega
    have hcop : Nat.Coprime a c.p := ((Nat.Prime.coprime_iff_not_dvd hp).2 hnd).symm
    have h1 := Nat.ModEq.pow_card_sub_one_eq_one hp hcop
    unfold Nat.ModEq at h1
    rw [Nat.mod_eq_of_lt (by omega : 1 < c.p)] at h1
    have e : a * a ^ (c.p - 2) = a ^ (c.p - 1) := by
      rw [← pow_succ']; congr 1; omega
    rw [e]; exact h1


/-! ### fp_inv_binar -/

theorem dvd_of_dvd_two_mul (p : Nat) (hodd : p % 2 = 1) (X : Int) (h : (p : Int) ∣ 2 * X) : (p : Int) ∣ X := by
  obtain ⟨k, hk⟩ : ∃ k : Int, (p : Int) = 2 * k + 1 := ⟨((p / 2 : Nat) : Int), by omega⟩
  have e : X = p * X - k * (2 * X) := by rw [hk]; ring
  rw [e]; exact dvd_sub (dvd_mul_right _ _) (Dvd.dvd.mul_left h _)

theorem halve_step (p a u : Nat) (hodd : p % 2 = 1) (g : Int) (hu : u % 2 = 0) (h : (p : Int) ∣ g * a - u) :
    (p : Int) ∣ (if g % 2 ≠ 0 then (g + p) / 2 else g / 2) * a - ((u / 2 : Nat) : Int) := by
  apply dvd_of_dvd_two_mul p hodd
  have hu2 : (u : Int) = 2 * ((u / 2 : Nat) : Int) := by omega
  split
  · rename_i hg
    have hG : g + (p : Int) = 2 * ((g + p) / 2) := by omega
    have e : 2 * ((g + (p : Int)) / 2 * a - ((u / 2 : Nat) : Int)) = (g * a - u) + p * a := by
      linear_combination (-(a : Int)) * hG + hu2
    rw [e]; exact dvd_add h (dvd_mul_right _ _)
  · rename_i hg
    have hG : g = 2 * (g / 2) := by omega
    have e : 2 * (g / 2 * a - ((u / 2 : Nat) : Int)) = g * a - u := by
      linear_combination (-(a : Int)) * hG + hu2
    rw [e]; exact h

theorem halve_spec (p a : Nat) (hodd : p % 2 = 1) : ∀ (fuel u : Nat) (g : Int),
    0 < u → u < fuel → (p : Int) ∣ g * a - u →
    ∃ u' g', halve p fuel u g = some (u', g') ∧ u' % 2 = 1 ∧ u' ∣ u ∧ (p : Int) ∣ g' * a - u' := by
  intro fuel
  induction fuel with
  | zero => intro u g _ h; omega
  | succ f ih =>
    intro u g hu hf hd
    rw [halve, if_neg (by omega)]
    by_cases hev : u % 2 = 0
    · rw [if_pos hev]
      obtain ⟨u', g', h1, h2, h3, h4⟩ := ih (u / 2) _ (by omega) (by omega) (halve_step p a u hodd g hev hd)
      exact ⟨u', g', h1, h2, Dvd.dvd.trans h3 (Nat.div_dvd_of_dvd (Nat.dvd_of_mod_eq_zero hev)), h4⟩
    · rw [if_neg hev]
      exact ⟨u, g, rfl, by omega, dvd_refl _, hd⟩

theorem binLoop_spec (p a : Nat) (hodd : p % 2 = 1) : ∀ (fuel u v : Nat) (g1 g2 : Int),
    0 < u → 0 < v → u + v < fuel → Nat.Coprime u v → (p : Int) ∣ g1 * a - u → (p : Int) ∣ g2 * a - v →
    ∃ b g, binLoop p fuel u v g1 g2 = some (b, g) ∧ (p : Int) ∣ g * a - 1 := by
  intro fuel
  induction fuel with
  | zero => intro u v g1 g2 _ _ h; omega
  | succ f ih =>
    intro u v g1 g2 hu hv hf hc h1 h2
    obtain ⟨u', g1', hh1, hu'odd, hu'dvd, hu'c⟩ := halve_spec p a hodd (u + 1) u g1 hu (by omega) h1
    have hu'le := Nat.le_of_dvd hu hu'dvd
    rw [binLoop]
    simp only [hh1]
    by_cases hu1 : u' = 1
    · rw [if_pos hu1]; subst hu1
      exact ⟨true, g1', rfl, by simpa using hu'c⟩
    · rw [if_neg hu1]
      obtain ⟨v', g2', hh2, hv'odd, hv'dvd, hv'c⟩ := halve_spec p a hodd (v + 1) v g2 hv (by omega) h2
      have hv'le := Nat.le_of_dvd hv hv'dvd
      simp only [hh2]
      by_cases hv1 : v' = 1
      · rw [if_pos hv1]; subst hv1
        exact ⟨false, g2', rfl, by simpa using hv'c⟩
      · rw [if_neg hv1]
        have hc' : Nat.Coprime u' v' := (hc.coprime_dvd_left hu'dvd).coprime_dvd_right hv'dvd
        have hne : u' ≠ v' := by
          intro he; rw [he] at hc'; exact hv1 ((Nat.coprime_self v').1 hc')
        by_cases hgt : u' > v'
        · rw [if_pos hgt]
          apply ih (u' - v') v' _ _ (by omega) (by omega) (by omega)
            ((Nat.coprime_sub_self_left (le_of_lt hgt)).2 hc') _ hv'c
          have e : (g1' - g2') * a - ((u' - v' : Nat) : Int) = (g1' * a - u') - (g2' * a - v') := by
            rw [Nat.cast_sub (le_of_lt hgt)]; ring
          rw [e]; exact dvd_sub hu'c hv'c
        · rw [if_neg hgt]
          have hle : u' ≤ v' := by omega
          apply ih u' (v' - u') _ _ (by omega) (by omega) (by omega)
            ((Nat.coprime_sub_self_right hle).2 hc') hu'c
          have e : (g2' - g1') * a - ((v' - u' : Nat) : Int) = (g2' * a - v') - (g1' * a - u') := by
            rw [Nat.cast_sub hle]; ring
          rw [e]; exact dvd_sub hv'c hu'c

/-! ### fp_inv_sim -/

theorem mm1 (x y p : Nat) : (x % p) * y % p = x * y % p := Nat.mod_mul_mod x y p
theorem mm2 (x y p : Nat) : x * (y % p) % p = x * y % p := Nat.mul_mod_mod x y p

/-- reversed products against reversed operands: [P_i, …, P_0] and [a_i, …, a_0] with P_0 = a_0, P_j = P_{j−1}·a_j -/
inductive SimRel (p : Nat) : List Nat → List Nat → Prop
  | base (a0 : Nat) : SimRel p [a0] [a0]
  | step (Pprev ai : Nat) (rc ra : List Nat) : SimRel p (Pprev :: rc) ra →
      SimRel p (fmul p Pprev ai :: Pprev :: rc) (ai :: ra)

theorem simBack_spec (p : Nat) (hp : 0 < p) {rcs ra : List Nat} (hr : SimRel p rcs ra) :
    ∀ (u : Nat) (acc : List Nat), u < p → rcs.headD 0 * u % p = 1 →
    ∃ out, simBack p rcs.tail ra u acc = out.reverse ++ acc ∧
      List.Forall₂ (fun a x => x < p ∧ a * x % p = 1) ra out := by
  induction hr with
  | base a0 =>
    intro u acc hu h1
    refine ⟨[u], by simp [simBack], ?_⟩
    exact List.Forall₂.cons ⟨hu, by simpa using h1⟩ List.Forall₂.nil
  | step Pprev ai rc ra hrel ih =>
    intro u acc hu h1
    have hX : Pprev * ai * u % p = 1 := by
      simp only [List.headD_cons, fmul] at h1; rwa [mm1] at h1
    obtain ⟨out', ho, hf⟩ := ih (fmul p u ai) (fmul p u Pprev :: acc) (Nat.mod_lt _ hp) (by
      simp only [List.headD_cons, fmul]
      rw [mm2, show Pprev * (u * ai) = Pprev * ai * u by ring]; exact hX)
    refine ⟨fmul p u Pprev :: out', ?_, List.Forall₂.cons ⟨Nat.mod_lt _ hp, ?_⟩ hf⟩
    · simp only [List.tail_cons] at ho ⊢
      rw [simBack, ho]; simp
    · simp only [fmul]
      rw [mm2, show ai * (u * Pprev) = Pprev * ai * u by ring]; exact hX

theorem simRel_build (p : Nat) : ∀ (rest : List Nat) (P : Nat) (rc ra : List Nat), SimRel p (P :: rc) ra →
    SimRel p ((P :: simProds p P rest).reverse ++ rc) (rest.reverse ++ ra) := by
  intro rest
  induction rest with
  | nil => intro P rc ra h; simpa [simProds] using h
  | cons a rest ih =>
    intro P rc ra h
    have := ih (fmul p P a) (P :: rc) (a :: ra) (SimRel.step P a rc ra h)
    simpa [simProds, List.reverse_cons, List.append_assoc] using this

theorem simProds_last (p : Nat) (hp : 0 < p) : ∀ (rest : List Nat) (P : Nat), P < p →
    (simProds p P rest).getLastD P = P * rest.prod % p := by
  intro rest
  induction rest with
  | nil => intro P hP; simp [simProds, Nat.mod_eq_of_lt hP]
  | cons a rest ih =>
    intro P hP
    simp only [simProds, List.getLastD_cons, List.prod_cons]
    rw [ih (fmul p P a) (show fmul p P a < p from Nat.mod_lt _ hp), fmul, mm1, Nat.mul_assoc]

theorem prod_mod_ne_zero (p : Nat) (hp : p.Prime) : ∀ l : List Nat, (∀ a ∈ l, a ≠ 0 ∧ a < p) → l.prod % p ≠ 0 := by
  intro l
  induction l with
  | nil => intro _; simp [Nat.mod_eq_of_lt hp.one_lt]
  | cons a l ih =>
    intro h h0
    rw [List.prod_cons] at h0
    rcases (Nat.Prime.dvd_mul hp).1 (Nat.dvd_of_mod_eq_zero h0) with hd | hd
    · obtain ⟨ha0, halt⟩ := h a (by simp)
      have := Nat.le_of_dvd (Nat.pos_of_ne_zero ha0) hd; omega
    · exact ih (fun b hb => h b (List.mem_cons_of_mem _ hb)) (Nat.mod_eq_zero_of_dvd hd)

theorem prod_eq_zero_of_mem (l : List Nat) (h : 0 ∈ l) : l.prod = 0 := by
  induction l with
  | nil => simp at h
  | cons a l ih =>
    rw [List.prod_cons]
    rcases List.mem_cons.1 h with h | h
    · rw [← h]; simp
    · rw [ih h]; simp

/-- fp_inv_binar -/
theorem invBinar_spec (c : Ctx) (h : c.WF) : InvContract c (invBinar c) := by
  intro a ha
  have hp := h.prime
  have hp1 : 1 < c.p := hp.one_lt
  refine ⟨fun h0 => by simp [invBinar, h0], fun h0 => ?_⟩
  have hnd : ¬ c.p ∣ a := fun hd => by
    have := Nat.le_of_dvd (Nat.pos_of_ne_zero h0) hd; omega
  have hcop : Nat.Coprime a c.p := ((Nat.Prime.coprime_iff_not_dvd hp).2 hnd).symm
  obtain ⟨b, g, hg, hd⟩ := binLoop_spec c.p a h.odd (a + c.p + 1) a c.p 1 0 (Nat.pos_of_ne_zero h0) hp.pos
    (by omega) hcop (by simp) (by simp)
  simp only [invBinar, if_neg h0, hg]
  obtain ⟨h1, h2⟩ := toNat_emod_spec c.p a hp1 _ hd
  exact ⟨_, rfl, h1, h2⟩

/-- fp_inv_exgcd -/
theorem invExgcd_spec (c : Ctx) (h : c.WF) : InvContract c (invExgcd c) := by
  intro a ha
  have hp := h.prime
  have hp1 : 1 < c.p := hp.one_lt
  refine ⟨fun h0 => by simp [invExgcd, h0], fun h0 => ?_⟩
  have hnd : ¬ c.p ∣ a := fun hd => by
    have := Nat.le_of_dvd (Nat.pos_of_ne_zero h0) hd; omega
  have hcop : Nat.Coprime a c.p := ((Nat.Prime.coprime_iff_not_dvd hp).2 hnd).symm
  obtain ⟨g, hg, hd⟩ := exgcdLoop_spec c.p a (a + 1) a c.p 1 0 (Nat.pos_of_ne_zero h0) (by omega) hcop
    (by simp) (by simp)
  simp only [invExgcd, if_neg h0, hg]
  have hd' : (c.p : Int) ∣ (if g < 0 then g + c.p else g) * a - 1 := by
    split
    · have e : (g + (c.p : Int)) * a - 1 = (g * a - 1) + c.p * a := by ring
      rw [e]; exact dvd_add hd (dvd_mul_right _ _)
    · exact hd
  obtain ⟨h1, h2⟩ := toNat_emod_spec c.p a hp1 _ hd'
  exact ⟨_, rfl, h1, h2⟩

/-- fp_inv_basic (Fermat through fp_exp = sliding window) -/
theorem invBasic_spec (c : Ctx) (h : c.WF) : InvContract c (invBasic c) := by
  exact fermat_aux c h

/-- fp_inv_lower / fp_invm_low -/
theorem invLower_spec (c : Ctx) (h : c.WF) : InvContract c (invLower c) := by
  exact fermat_aux c h

/-- fp_inv_sim for every list length ≥ 1: all inverses when no element is zero, the error of fp_inv otherwise -/
theorem invSim_spec (c : Ctx) (h : c.WF) (as : List Nat) (hne : as ≠ []) (hlt : ∀ a ∈ as, a < c.p) :
    ((∃ a ∈ as, a = 0) → invSim c as = none) ∧
    ((∀ a ∈ as, a ≠ 0) → ∃ out, invSim c as = some out ∧
      List.Forall₂ (fun a x => x < c.p ∧ a * x % c.p = 1) as out) := by
  cases as with
  | nil => exact absurd rfl hne
  | cons a0 rest =>
    have hp := h.prime
    have ha0 : a0 < c.p := hlt a0 (by simp)
    have hlast : (a0 :: simProds c.p a0 rest).getLastD 0 = (a0 :: rest).prod % c.p := by
      rw [List.getLastD_cons, simProds_last c.p hp.pos rest a0 ha0, List.prod_cons]
    constructor
    · rintro ⟨a, hmem, rfl⟩
      have hz : (a0 :: rest).prod = 0 := prod_eq_zero_of_mem _ hmem
      simp only [invSim, hlast, hz, Nat.zero_mod, (fpInv_spec c h 0 hp.pos).1 rfl]
    · intro hnz
      have hne0 := prod_mod_ne_zero c.p hp (a0 :: rest) (fun a ha => ⟨hnz a ha, hlt a ha⟩)
      obtain ⟨u, hu, hult, hu1⟩ := (fpInv_spec c h _ (Nat.mod_lt _ hp.pos)).2 hne0
      have hrel := simRel_build c.p rest a0 [] [a0] (SimRel.base a0)
      have hrel' : SimRel c.p (a0 :: simProds c.p a0 rest).reverse (a0 :: rest).reverse := by
        simpa using hrel
      have hhead : (a0 :: simProds c.p a0 rest).reverse.headD 0 = (a0 :: rest).prod % c.p := by
        rw [← hlast, List.headD_eq_head?_getD, List.head?_reverse, List.getLastD_eq_getLast?]
      obtain ⟨out, ho, hf⟩ := simBack_spec c.p hp.pos hrel' u [] hult (by rw [hhead]; exact hu1)
      refine ⟨out.reverse, ?_, ?_⟩
      · simp only [invSim, hlast, hu, ho, List.append_nil]
      · have := List.rel_reverse hf
        simpa using this

/-- the contract of an exponentiation with a signed exponent: a^e for e ≥ 0, the inverse of a^|e| for e < 0 and a ≠ 0,
    an error for e < 0 and a = 0 -/
def ExpContract (c : Ctx) (a : Nat) (e : Int) (r : Option Nat) : Prop :=
  (0 ≤ e → r = some (a ^ e.toNat % c.p)) ∧
  (e < 0 → a ≠ 0 → ∃ x, r = some x ∧ x < c.p ∧ x * a ^ e.natAbs % c.p = 1) ∧
  (e < 0 → a = 0 → r = none)

theorem expContract_aux (c : Ctx) (h : c.WF) (a : Nat) (ha : a < c.p) (e : Int) (he : e ≠ 0) :
    ExpContract c a e (withSign c (decide (e < 0)) (some (a ^ e.natAbs % c.p))) := by
  rcases lt_or_gt_of_ne he with hneg | hpos
  · have hn : 0 < e.natAbs := Int.natAbs_pos.2 he
    obtain ⟨h1, h2⟩ := inv_pow_aux c h a e.natAbs ha hn
    simp only [withSign, hneg, decide_true, if_true]
    exact ⟨fun h0 => absurd h0 (by omega), fun _ ha0 => h1 ha0, fun _ ha0 => h2 ha0⟩
  · have hn : ¬ e < 0 := by omega
    have ht : e.toNat = e.natAbs := by omega
    simp only [withSign, hn, decide_false]
    refine ⟨fun _ => by simp [ht], fun h0 => absurd h0 hn, fun h0 => absurd h0 hn⟩

theorem fpExpBasic_spec (c : Ctx) (h : c.WF) (a : Nat) (ha : a < c.p) (e : Int) :
    ExpContract c a e (fpExpBasic c a e) := by
  by_cases he : e = 0
  · subst he; simp [fpExpBasic, ExpContract]
  · rw [fpExpBasic, if_neg he, expBasicAbs_spec _ _ _ ha (Int.natAbs_pos.2 he)]
    exact expContract_aux c h a ha e he

theorem fpExpMonty_spec (c : Ctx) (h : c.WF) (a : Nat) (ha : a < c.p) (e : Int) :
    ExpContract c a e (fpExpMonty c a e) := by
  by_cases he : e = 0
  · subst he; simp [fpExpMonty, ExpContract]
  · rw [fpExpMonty, if_neg he, expMontyAbs_spec _ _ _ ha]
    exact expContract_aux c h a ha e he

/-- fp_exp_slide: the contract for exponents of at most RLC_FP_BITS + 1 bits; longer exponents are refused (as coded) -/
theorem fpExpSlide_spec (c : Ctx) (h : c.WF) (a : Nat) (ha : a < c.p) (e : Int) :
    (bitLen e.natAbs ≤ c.fb + 1 → ExpContract c a e (fpExpSlide c a e)) ∧
    (c.fb + 1 < bitLen e.natAbs → fpExpSlide c a e = none) := by
  constructor
  · intro hb
    by_cases he : e = 0
    · subst he; simp [fpExpSlide, ExpContract]
    · rw [fpExpSlide, if_neg he, expSlideAbs_spec c a _ ha h.width, if_pos hb]
      exact expContract_aux c h a ha e he
  · intro hb
    have he : e ≠ 0 := by
      rintro rfl; simp [bitLen] at hb
    rw [fpExpSlide, if_neg he, expSlideAbs_spec c a _ ha h.width, if_neg (by omega)]
    rfl

end Relic.Model.FpAlg
