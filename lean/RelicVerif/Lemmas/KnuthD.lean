/-
bn_divn_low (Knuth algorithm D as written in relic_bn_div_low.c, with its normalisation to a top digit
of w-1 bits, the 3-by-2 quotient-estimate loop, multiply-subtract and add-back) computes the Euclidean
quotient and remainder, for every digit width w ≥ 2.
-/
import RelicVerif.Lemmas.BnLowAdd
import RelicVerif.Lemmas.BnLowMul
import RelicVerif.Lemmas.BnLowShift
import RelicVerif.Lemmas.KnuthDCore

namespace Relic.Model

-- STATEMENT CHANGED: added the hypothesis `hge : val (2 ^ w) b ≤ val (2 ^ w) a` (|a| ≥ |b|), which the only
-- caller bn_div_imp guarantees through its bn_cmp_abs guard. Without it the statement is false:
-- `divnLow 8 [1] [255] = ([1, 0, 0], [0], _)`, i.e. 1 / 255 = 1 rem 0. When the top digit of `b` has all
-- `w` bits the normalising shift is `w - 1` and `b` grows by a digit; if `a` (same length, top digit ≤ 1)
-- does not grow, then `sa < sb`, `n - t` underflows and the initial compare/subtract loop misfires.
theorem divnLow_spec (w : Nat) (hw : 2 ≤ w) (a b : List Nat)
    (hab : b.length ≤ a.length) (hb0 : b ≠ []) (hbt : b.getLast? ≠ some 0)
    (hda : ∀ d ∈ a, d < 2 ^ w) (hdb : ∀ d ∈ b, d < 2 ^ w)
    (hge : val (2 ^ w) b ≤ val (2 ^ w) a) :
    let q := (divnLow w a b).1.take (a.length - b.length + 1)
    let r := (divnLow w a b).2.1.take b.length
    val (2 ^ w) q * val (2 ^ w) b + val (2 ^ w) r = val (2 ^ w) a
    ∧ val (2 ^ w) r < val (2 ^ w) b
    ∧ (∀ d ∈ q, d < 2 ^ w) ∧ (∀ d ∈ r, d < 2 ^ w)
    ∧ q.length = a.length - b.length + 1 ∧ r.length = b.length := by
  obtain ⟨c1, c2, c3, c4, c5, c6⟩ := divnLow_core w hw a b hab hb0 hbt hda hdb hge
  have hB0 : 0 < 2 ^ w := Nat.pow_pos (by omega)
  have hbl : 0 < b.length := List.length_pos_iff.mpr hb0
  have hVlt := val_lt (2 ^ w) b hdb
  have hAlt := val_lt (2 ^ w) a hda
  have hVge : (2 ^ w) ^ (b.length - 1) ≤ val (2 ^ w) b := by
    have h1 := val_ge_top (2 ^ w) b hbl
    have h2 := top_pos b hb0 hbt
    have : (2 ^ w) ^ (b.length - 1) * 1 ≤ (2 ^ w) ^ (b.length - 1) * b.getD (b.length - 1) 0 :=
      Nat.mul_le_mul_left _ h2
    omega
  -- the quotient fits in a.length - b.length + 1 digits
  have hQlt : val (2 ^ w) (divnLow w a b).1 < (2 ^ w) ^ (a.length - b.length + 1) := by
    have e : (2 ^ w) ^ a.length = (2 ^ w) ^ (a.length - b.length + 1) * (2 ^ w) ^ (b.length - 1) := by
      rw [← Nat.pow_add]; congr 1; omega
    have h1 : val (2 ^ w) (divnLow w a b).1 * (2 ^ w) ^ (b.length - 1)
        ≤ val (2 ^ w) (divnLow w a b).1 * val (2 ^ w) b := Nat.mul_le_mul_left _ hVge
    have h2 : val (2 ^ w) (divnLow w a b).1 * (2 ^ w) ^ (b.length - 1)
        < (2 ^ w) ^ (a.length - b.length + 1) * (2 ^ w) ^ (b.length - 1) := by
      rw [← e]; omega
    exact Nat.lt_of_mul_lt_mul_right h2
  have hq := val_take_of_lt (2 ^ w) (divnLow w a b).1 (a.length - b.length + 1) hQlt
  have hr := val_take_of_lt (2 ^ w) (divnLow w a b).2.1 b.length (by omega)
  intro q r
  refine ⟨?_, ?_, digs_take c3 _, digs_take c4 _, ?_, ?_⟩
  · show val (2 ^ w) ((divnLow w a b).1.take _) * _ + val (2 ^ w) ((divnLow w a b).2.1.take _) = _
    rw [hq, hr]; exact c1
  · show val (2 ^ w) ((divnLow w a b).2.1.take _) < _
    rw [hr]; exact c2
  · show ((divnLow w a b).1.take _).length = _
    rw [List.length_take, c5]; omega
  · show ((divnLow w a b).2.1.take _).length = _
    rw [List.length_take]; omega

end Relic.Model
