/-
bn_divn_low (Knuth algorithm D as written in relic_bn_div_low.c, with its normalisation to a top digit
of w-1 bits, the 3-by-2 quotient-estimate loop, multiply-subtract and add-back) computes the Euclidean
quotient and remainder, for every digit width w ≥ 2.
-/
import RelicVerif.Lemmas.BnLowAdd
import RelicVerif.Lemmas.BnLowMul
import RelicVerif.Lemmas.BnLowShift

namespace Relic.Model

theorem divnLow_spec (w : Nat) (hw : 2 ≤ w) (a b : List Nat)
    (hab : b.length ≤ a.length) (hb0 : b ≠ []) (hbt : b.getLast? ≠ some 0)
    (hda : ∀ d ∈ a, d < 2 ^ w) (hdb : ∀ d ∈ b, d < 2 ^ w) :
    let q := (divnLow w a b).1.take (a.length - b.length + 1)
    let r := (divnLow w a b).2.1.take b.length
    val (2 ^ w) q * val (2 ^ w) b + val (2 ^ w) r = val (2 ^ w) a
    ∧ val (2 ^ w) r < val (2 ^ w) b
    ∧ (∀ d ∈ q, d < 2 ^ w) ∧ (∀ d ∈ r, d < 2 ^ w)
    ∧ q.length = a.length - b.length + 1 ∧ r.length = b.length := by
  sorry

end Relic.Model
