/-
The Jacobian-coordinate evaluator of Spec/CurveFast.lean computes the affine chord-and-tangent arithmetic of
Spec/Curve.lean (both on Nat residues modulo a prime `c.p > 2`).

Method: every `… % c.p` expression is cast to the field `ZMod c.p`; a finite affine point with canonical coordinates is
determined by the casts of its coordinates (`Rep`, `Rep.unique`); `invEuclid` casts to the field inverse
(`invGo_spec`: the fuel `2·log2 m + 4` suffices because the product of the two remainders halves at each step); the
Jacobian formulas are then identities of rational functions (`dbl_identity`, `add_identity`: `field_simp; ring`).

Statements (section "Statements" at the end): `invEuclid_mul`, `invEuclid_lt`, `WF_inf`, `WF_jdbl`, `WF_jadd`,
`toAffine_jdbl`, `toAffine_jadd`, `mulNat_eq`, `mulAdd_eq`.

* `toAffine_jdbl` needs no hypothesis on the point (not even canonical coordinates; `toAffine_jdbl'`).
* `toAffine_jadd` needs `Compat`: when the two affine points have the same abscissa they are equal or opposite.
  `Curve.add` takes the tangent at the first point whenever `x₁ = x₂` and `y₁ + y₂ ≠ 0`, `jadd` returns infinity
  whenever `x₁ = x₂` and `y₁ ≠ y₂`; they differ for `p = 7`, `(1,1)` and `(1,2)` (`example` at the end of the file).
  Two points of one curve `y² = x³ + a x + b'` are compatible (`OnF.compat`, `Compat_of_onCurve`).
* `mulNat_eq` needs only canonical input coordinates: the formulas never use the coefficient `b`, so the input lies on
  the curve with `b' = y² − x³ − a x`, and the affine law is closed on that curve (`OnF.add`).
-/
import Mathlib.Data.ZMod.Basic
import Mathlib.Algebra.Field.ZMod
import Mathlib.Tactic.Ring
import Mathlib.Tactic.FieldSimp
import Mathlib.Tactic.LinearCombination
import RelicVerif.Spec.CurveFast

namespace Relic.Lemmas.CurveFast
open Relic.Spec.Curve Relic.Spec.CurveFast

set_option linter.unusedSimpArgs false
set_option linter.unusedSectionVars false


theorem invGo_spec (m x : Nat) : ∀ (k r0 r1 : Nat) (s0 s1 : Int),
    r1 ≤ r0 → r0 * r1 < 2 ^ k →
    ((s0 : ZMod m) * x = r0) → ((s1 : ZMod m) * x = r1) →
    ((invEuclid.go (k+1) r0 r1 s0 s1 : Int) : ZMod m) * x = (Nat.gcd r0 r1 : Nat) := by
  intro k
  induction k with
  | zero =>
    intro r0 r1 s0 s1 hle hlt h0 h1
    have hr1 : r1 = 0 := by
      rcases Nat.eq_zero_or_pos r1 with h | h
      · exact h
      · have : 0 < r0 := lt_of_lt_of_le h hle
        have := Nat.mul_pos this h
        omega
    subst hr1
    simp [invEuclid.go, h0]
  | succ k ih =>
    intro r0 r1 s0 s1 hle hlt h0 h1
    unfold invEuclid.go
    by_cases hr1 : r1 = 0
    · subst hr1
      simp [h0]
    · rw [if_neg hr1]
      have hpos : 0 < r1 := Nat.pos_of_ne_zero hr1
      have hmod : r0 % r1 < r1 := Nat.mod_lt _ hpos
      have hdiv : r0 % r1 + r1 * (r0 / r1) = r0 := Nat.mod_add_div r0 r1
      have hq : 1 ≤ r0 / r1 := Nat.div_pos hle hpos
      have hgcd : Nat.gcd r1 (r0 % r1) = Nat.gcd r0 r1 := by
        rw [Nat.gcd_comm r1, ← Nat.gcd_rec, Nat.gcd_comm]
      rw [← hgcd]
      apply ih
      · exact le_of_lt hmod
      · have h3 : r1 * 1 ≤ r1 * (r0 / r1) := Nat.mul_le_mul_left _ hq
        have h2 : 2 * (r0 % r1) ≤ r0 := by omega
        have : 2 * (r1 * (r0 % r1)) ≤ r0 * r1 := by
          calc 2 * (r1 * (r0 % r1)) = (2 * (r0 % r1)) * r1 := by ring
            _ ≤ r0 * r1 := Nat.mul_le_mul_right _ h2
        rw [pow_succ] at hlt
        omega
      · exact h1
      · have hc : (r0 : ZMod m) = ((r0 % r1 : Nat) : ZMod m) + (r1 : ZMod m) * ((r0 / r1 : Nat) : ZMod m) := by
          exact_mod_cast congrArg (Nat.cast : Nat → ZMod m) hdiv.symm
        rw [Int.cast_sub, Int.cast_mul, Int.cast_natCast]
        linear_combination h0 - ((r0 / r1 : Nat) : ZMod m) * h1 + hc


/-- the cast of `invEuclid m x` to `ZMod m` is a left inverse of `x`, for any modulus `m > 1` and `x` coprime to `m` -/
theorem invEuclid_cast_mul (m x : Nat) (hm : 1 < m) (hx : Nat.Coprime x m) :
    ((invEuclid m x : Nat) : ZMod m) * (x : ZMod m) = 1 := by
  have hfuel : 2 * Nat.log2 m + 4 = (2 * Nat.log2 m + 2) + 1 + 1 := by omega
  have hm0 : m ≠ 0 := by omega
  have hlog : m < 2 ^ (Nat.log2 m + 1) := Nat.lt_log2_self
  have hgo : ((invEuclid.go (2 * Nat.log2 m + 4) (x % m) m 1 0 : Int) : ZMod m) * (x : ZMod m) = 1 := by
    rw [hfuel]
    rw [invEuclid.go, if_neg hm0]
    have hg : Nat.gcd m (x % m % m) = 1 := by
      rw [Nat.mod_mod, Nat.gcd_comm, ← Nat.gcd_rec, Nat.gcd_comm]
      exact hx
    have := invGo_spec m x (2 * Nat.log2 m + 2) m (x % m % m) 0 (1 - ((x % m / m : Nat) : Int) * 0)
      (le_of_lt (Nat.mod_lt _ (by omega)))
      (by
        have h1 : x % m % m < m := Nat.mod_lt _ (by omega)
        have h2 : m * (x % m % m) < m * m := Nat.mul_lt_mul_of_pos_left h1 (by omega)
        have h3 : m * m < 2 ^ (Nat.log2 m + 1) * 2 ^ (Nat.log2 m + 1) := Nat.mul_lt_mul'' hlog hlog
        have h4 : 2 ^ (Nat.log2 m + 1) * 2 ^ (Nat.log2 m + 1) = 2 ^ (2 * Nat.log2 m + 2) := by
          rw [← pow_add]; congr 1; omega
        omega)
      (by simp)
      (by simp [ZMod.natCast_mod])
    rw [this, hg]
    simp
  unfold invEuclid
  have hnn : 0 ≤ (invEuclid.go (2 * Nat.log2 m + 4) (x % m) m 1 0) % (m : Int) :=
    Int.emod_nonneg _ (by omega)
  have hc : (((invEuclid.go (2 * Nat.log2 m + 4) (x % m) m 1 0 % (m : Int)).toNat : Nat) : ZMod m)
      = ((invEuclid.go (2 * Nat.log2 m + 4) (x % m) m 1 0 : Int) : ZMod m) := by
    rw [← ZMod.intCast_mod _ m]
    rw [← Int.cast_natCast, Int.toNat_of_nonneg hnn]
  rw [hc]
  exact hgo

theorem invEuclid_lt' (m x : Nat) (hm : 0 < m) : invEuclid m x < m := by
  unfold invEuclid
  have h1 : (invEuclid.go (2 * Nat.log2 m + 4) (x % m) m 1 0) % (m : Int) < m :=
    Int.emod_lt_of_pos _ (by omega)
  have hnn : 0 ≤ (invEuclid.go (2 * Nat.log2 m + 4) (x % m) m 1 0) % (m : Int) :=
    Int.emod_nonneg _ (by omega)
  omega

/-- extended Euclid with fuel is a modular inverse, any modulus `m > 1`, `x` coprime to `m` -/
theorem invEuclid_mul' (m x : Nat) (hm : 1 < m) (hx : Nat.Coprime x m) :
    x * invEuclid m x % m = 1 := by
  have h := invEuclid_cast_mul m x hm hx
  have h' : ((x * invEuclid m x : Nat) : ZMod m) = ((1 : Nat) : ZMod m) := by
    push_cast
    rw [mul_comm]; exact h
  rw [ZMod.natCast_eq_natCast_iff'] at h'
  rw [h', Nat.mod_eq_of_lt hm]


/-! ## Field identities -/

section
variable {K : Type} [Field K]

theorem dbl_identity (X Y Z a : K) (hZ : Z ≠ 0) (hY : Y ≠ 0) (h2 : (2 : K) ≠ 0) :
    let x1 := X / Z ^ 2
    let y1 := Y / Z ^ 3
    let l := (3 * x1 ^ 2 + a) / (2 * y1)
    let S := 4 * (X * Y ^ 2)
    let M := 3 * X ^ 2 + a * Z ^ 4
    let X' := M ^ 2 - 2 * S
    let Y' := M * (S - X') - 8 * Y ^ 4
    let Z' := 2 * (Y * Z)
    X' / Z' ^ 2 = l ^ 2 - x1 - x1 ∧ Y' / Z' ^ 3 = l * (x1 - (l ^ 2 - x1 - x1)) - y1 := by
  intro x1 y1 l S M X' Y' Z'
  simp only [x1, y1, l, S, M, X', Y', Z']
  constructor
  · field_simp
    ring
  · field_simp
    ring

theorem add_identity (X1 Y1 Z1 X2 Y2 Z2 : K) (hZ1 : Z1 ≠ 0) (hZ2 : Z2 ≠ 0)
    (hH : X2 * Z1 ^ 2 - X1 * Z2 ^ 2 ≠ 0) :
    let x1 := X1 / Z1 ^ 2
    let y1 := Y1 / Z1 ^ 3
    let x2 := X2 / Z2 ^ 2
    let y2 := Y2 / Z2 ^ 3
    let l := (y2 - y1) / (x2 - x1)
    let U1 := X1 * Z2 ^ 2
    let U2 := X2 * Z1 ^ 2
    let S1 := Y1 * Z2 ^ 3
    let S2 := Y2 * Z1 ^ 3
    let H := U2 - U1
    let R := S2 - S1
    let X3 := R ^ 2 - H ^ 3 - 2 * (U1 * H ^ 2)
    let Y3 := R * (U1 * H ^ 2 - X3) - S1 * H ^ 3
    let Z3 := H * (Z1 * Z2)
    X3 / Z3 ^ 2 = l ^ 2 - x1 - x2 ∧ Y3 / Z3 ^ 3 = l * (x1 - (l ^ 2 - x1 - x2)) - y1 := by
  intro x1 y1 x2 y2 l U1 U2 S1 S2 H R X3 Y3 Z3
  have hd : x2 - x1 ≠ 0 := by
    simp only [x1, x2]
    intro h
    apply hH
    field_simp at h
    linear_combination h
  have hH' : H ≠ 0 := hH
  have hl : l = R / Z3 := by
    simp only [l, R, Z3, S1, S2, H, U1, U2, x1, x2, y1, y2] at hd ⊢
    field_simp
  have hx1 : x1 = U1 * H ^ 2 / Z3 ^ 2 := by
    simp only [Z3, U1, x1]
    field_simp
  have hx2 : x2 = U2 * H ^ 2 / Z3 ^ 2 := by
    simp only [Z3, U2, x2]
    field_simp
  have hy1 : y1 = S1 * H ^ 3 / Z3 ^ 3 := by
    simp only [Z3, S1, y1]
    field_simp
  have hZ3 : Z3 ≠ 0 := mul_ne_zero hH (mul_ne_zero hZ1 hZ2)
  rw [hl, hx1, hx2, hy1]
  constructor
  · field_simp
    simp only [X3, H]
    ring
  · field_simp
    simp only [Y3, X3, H]
    ring

theorem chord_on_curve (x1 y1 x2 y2 a b : K) (hd : x2 - x1 ≠ 0)
    (h1 : y1 ^ 2 = x1 ^ 3 + a * x1 + b) (h2 : y2 ^ 2 = x2 ^ 3 + a * x2 + b) :
    let l := (y2 - y1) / (x2 - x1)
    let x3 := l ^ 2 - x1 - x2
    let y3 := l * (x1 - x3) - y1
    y3 ^ 2 = x3 ^ 3 + a * x3 + b := by
  intro l x3 y3
  have hl : y2 = y1 + l * (x2 - x1) := by
    simp only [l]; field_simp; ring
  have ha : a = 2 * y1 * l + l ^ 2 * (x2 - x1) - (x2 ^ 2 + x1 * x2 + x1 ^ 2) := by
    apply mul_left_cancel₀ hd
    rw [hl] at h2
    linear_combination h1 - h2
  have hb : b = y1 ^ 2 - x1 ^ 3 - a * x1 := by linear_combination (-1 : K) * h1
  simp only [y3, x3]
  rw [hb, ha]
  ring

theorem tangent_on_curve (x1 y1 a b : K) (hy : y1 ≠ 0) (h2 : (2 : K) ≠ 0)
    (h1 : y1 ^ 2 = x1 ^ 3 + a * x1 + b) :
    let l := (3 * x1 ^ 2 + a) / (2 * y1)
    let x3 := l ^ 2 - x1 - x1
    let y3 := l * (x1 - x3) - y1
    y3 ^ 2 = x3 ^ 3 + a * x3 + b := by
  intro l x3 y3
  have ha : a = 2 * y1 * l - 3 * x1 ^ 2 := by
    simp only [l]; field_simp; ring
  have hb : b = y1 ^ 2 - x1 ^ 3 - a * x1 := by linear_combination (-1 : K) * h1
  simp only [y3, x3]
  rw [hb, ha]
  ring
end

/-! ## Nat residues and `ZMod c.p` -/

/-- coordinates are canonical residues -/
def WF (c : Curve) (j : Jac) : Prop := j.x < c.p ∧ j.y < c.p ∧ j.z < c.p

/-- two affine points with the same abscissa are equal or opposite (true for two points of one curve) -/
def Compat (c : Curve) (P Q : Point) : Prop :=
  ∀ x1 y1 x2 y2, P = some (x1, y1) → Q = some (x2, y2) → x1 = x2 → y1 = y2 ∨ (y1 + y2) % c.p = 0

section Bridge
variable (c : Curve) [Fact c.p.Prime]

theorem p_pos : 0 < c.p := (Fact.out : c.p.Prime).pos

theorem cast_eq_zero_iff (x : Nat) : ((x : ZMod c.p) = 0) ↔ x % c.p = 0 := by
  rw [ZMod.natCast_eq_zero_iff, Nat.dvd_iff_mod_eq_zero]

theorem eq_of_cast_eq {a b : Nat} (ha : a < c.p) (hb : b < c.p) (h : (a : ZMod c.p) = b) : a = b := by
  rw [ZMod.natCast_eq_natCast_iff'] at h
  rwa [Nat.mod_eq_of_lt ha, Nat.mod_eq_of_lt hb] at h

theorem cast_fsub (x y : Nat) : ((fsub c.p x y : Nat) : ZMod c.p) = x - y := by
  unfold fsub
  rw [ZMod.natCast_mod, Nat.cast_add, Nat.cast_sub (le_of_lt (Nat.mod_lt y (p_pos c))),
    ZMod.natCast_self, ZMod.natCast_mod]
  ring

theorem cast_sub (x y : Nat) : ((Spec.Curve.sub c x y : Nat) : ZMod c.p) = x - y := by
  unfold Spec.Curve.sub
  rw [ZMod.natCast_mod, Nat.cast_sub (by have := Nat.mod_lt y (p_pos c); omega), Nat.cast_add,
    ZMod.natCast_self, ZMod.natCast_mod]
  ring

theorem fsub_lt (x y : Nat) : fsub c.p x y < c.p := by
  unfold fsub; exact Nat.mod_lt _ (p_pos c)

theorem sub_lt (x y : Nat) : Spec.Curve.sub c x y < c.p := by
  unfold Spec.Curve.sub; exact Nat.mod_lt _ (p_pos c)

theorem cast_inv (x : Nat) (hx : (x : ZMod c.p) ≠ 0) :
    ((invEuclid c.p x : Nat) : ZMod c.p) = (x : ZMod c.p)⁻¹ := by
  have hp : c.p.Prime := Fact.out
  have hcop : Nat.Coprime x c.p := by
    rw [Nat.coprime_comm, Nat.Prime.coprime_iff_not_dvd hp]
    rwa [Ne, ZMod.natCast_eq_zero_iff] at hx
  exact eq_inv_of_mul_eq_one_left (invEuclid_cast_mul c.p x hp.one_lt hcop)

theorem two_ne_zero' (h2 : 2 < c.p) : (2 : ZMod c.p) ≠ 0 := by
  have : ((2 : Nat) : ZMod c.p) ≠ 0 := by
    rw [Ne, cast_eq_zero_iff, Nat.mod_eq_of_lt h2]; omega
  exact_mod_cast this

/-- `P` is the finite point with canonical coordinates whose residues are `x`, `y` -/
def Rep (P : Point) (x y : ZMod c.p) : Prop :=
  ∃ n1 n2 : Nat, P = some (n1, n2) ∧ n1 < c.p ∧ n2 < c.p ∧ (n1 : ZMod c.p) = x ∧ (n2 : ZMod c.p) = y

theorem Rep.unique {P Q : Point} {x y : ZMod c.p} (h1 : Rep c P x y) (h2 : Rep c Q x y) : P = Q := by
  obtain ⟨a1, a2, rfl, ha1, ha2, hx1, hy1⟩ := h1
  obtain ⟨b1, b2, rfl, hb1, hb2, hx2, hy2⟩ := h2
  have e1 := eq_of_cast_eq c ha1 hb1 (hx1.trans hx2.symm)
  have e2 := eq_of_cast_eq c ha2 hb2 (hy1.trans hy2.symm)
  rw [e1, e2]

theorem Rep.inj {P : Point} {x y x' y' : ZMod c.p} (h1 : Rep c P x y) (h2 : Rep c P x' y') :
    x = x' ∧ y = y' := by
  obtain ⟨a1, a2, rfl, ha1, ha2, rfl, rfl⟩ := h1
  obtain ⟨b1, b2, h, hb1, hb2, rfl, rfl⟩ := h2
  simp only [Option.some.injEq, Prod.mk.injEq] at h
  rw [h.1, h.2]; exact ⟨rfl, rfl⟩

theorem Rep.congr {P : Point} {x y x' y' : ZMod c.p} (h : Rep c P x y) (hx : x = x') (hy : y = y') :
    Rep c P x' y' := by
  subst hx; subst hy; exact h

theorem toAffine_none (j : Jac) (hz : (j.z : ZMod c.p) = 0) : toAffine c j = none := by
  unfold toAffine; rw [if_pos ((cast_eq_zero_iff c _).1 hz)]

theorem toAffine_inf : toAffine c Jac.inf = none := by
  apply toAffine_none; simp [Jac.inf]

theorem toAffine_rep (j : Jac) (hz : (j.z : ZMod c.p) ≠ 0) :
    Rep c (toAffine c j) ((j.x : ZMod c.p) / (j.z : ZMod c.p) ^ 2)
      ((j.y : ZMod c.p) / (j.z : ZMod c.p) ^ 3) := by
  have hz' : ¬ j.z % c.p = 0 := fun h => hz ((cast_eq_zero_iff c _).2 h)
  simp only [toAffine, if_neg hz']
  refine ⟨_, _, rfl, Nat.mod_lt _ (p_pos c), Nat.mod_lt _ (p_pos c), ?_, ?_⟩
  · simp only [ZMod.natCast_mod, Nat.cast_mul, cast_inv c _ hz]
    field_simp
  · simp only [ZMod.natCast_mod, Nat.cast_mul, cast_inv c _ hz]
    field_simp

/-! ### the affine law on representatives -/

theorem add_chord {P Q : Point} {x1 y1 x2 y2 : ZMod c.p} (hP : Rep c P x1 y1) (hQ : Rep c Q x2 y2)
    (hne : x1 ≠ x2) :
    Rep c (Spec.Curve.add c P Q) (((y2 - y1) / (x2 - x1)) ^ 2 - x1 - x2)
      (((y2 - y1) / (x2 - x1)) * (x1 - (((y2 - y1) / (x2 - x1)) ^ 2 - x1 - x2)) - y1) := by
  obtain ⟨a1, a2, rfl, ha1, ha2, rfl, rfl⟩ := hP
  obtain ⟨b1, b2, rfl, hb1, hb2, rfl, rfl⟩ := hQ
  have hn : a1 ≠ b1 := fun h => hne (by rw [h])
  have hd : ((Spec.Curve.sub c b1 a1 : Nat) : ZMod c.p) ≠ 0 := by
    rw [cast_sub]; exact sub_ne_zero.2 (Ne.symm hne)
  simp only [Spec.Curve.add, if_neg hn]
  refine ⟨_, _, rfl, sub_lt c _ _, sub_lt c _ _, ?_, ?_⟩
  · simp only [cast_sub, Nat.cast_mul, ZMod.natCast_mod, Spec.Curve.inv, cast_inv c _ hd]
    rw [div_eq_mul_inv]; ring
  · simp only [cast_sub, Nat.cast_mul, ZMod.natCast_mod, Spec.Curve.inv, cast_inv c _ hd]
    rw [div_eq_mul_inv]; ring

theorem add_tangent (h2 : (2 : ZMod c.p) ≠ 0) {P Q : Point} {x1 y1 y2 : ZMod c.p}
    (hP : Rep c P x1 y1) (hQ : Rep c Q x1 y2) (hy : y1 ≠ 0) (hs : y1 + y2 ≠ 0) :
    Rep c (Spec.Curve.add c P Q) (((3 * x1 ^ 2 + (c.a : ZMod c.p)) / (2 * y1)) ^ 2 - x1 - x1)
      (((3 * x1 ^ 2 + (c.a : ZMod c.p)) / (2 * y1)) *
        (x1 - (((3 * x1 ^ 2 + (c.a : ZMod c.p)) / (2 * y1)) ^ 2 - x1 - x1)) - y1) := by
  obtain ⟨a1, a2, rfl, ha1, ha2, rfl, rfl⟩ := hP
  obtain ⟨b1, b2, rfl, hb1, hb2, hx, rfl⟩ := hQ
  have e : b1 = a1 := eq_of_cast_eq c hb1 ha1 hx
  subst e
  have hs' : ¬ (a2 + b2) % c.p = 0 := by
    intro h; apply hs
    have := (cast_eq_zero_iff c (a2 + b2)).2 h
    rwa [Nat.cast_add] at this
  have hd : ((2 * a2 % c.p : Nat) : ZMod c.p) ≠ 0 := by
    rw [ZMod.natCast_mod, Nat.cast_mul, Nat.cast_ofNat]
    exact mul_ne_zero h2 hy
  simp only [Spec.Curve.add, if_true, if_neg hs']
  refine ⟨_, _, rfl, sub_lt c _ _, sub_lt c _ _, ?_, ?_⟩
  · simp only [cast_sub, Nat.cast_mul, Nat.cast_add, Nat.cast_ofNat, ZMod.natCast_mod, Spec.Curve.inv,
      cast_inv c _ hd]
    rw [div_eq_mul_inv]; ring
  · simp only [cast_sub, Nat.cast_mul, Nat.cast_add, Nat.cast_ofNat, ZMod.natCast_mod, Spec.Curve.inv,
      cast_inv c _ hd]
    rw [div_eq_mul_inv]; ring

theorem add_opp {P Q : Point} {x1 y1 y2 : ZMod c.p}
    (hP : Rep c P x1 y1) (hQ : Rep c Q x1 y2) (hs : y1 + y2 = 0) : Spec.Curve.add c P Q = none := by
  obtain ⟨a1, a2, rfl, ha1, ha2, rfl, rfl⟩ := hP
  obtain ⟨b1, b2, rfl, hb1, hb2, hx, rfl⟩ := hQ
  have e : b1 = a1 := eq_of_cast_eq c hb1 ha1 hx
  subst e
  have hs' : (a2 + b2) % c.p = 0 := by
    rw [← cast_eq_zero_iff, Nat.cast_add]; exact hs
  simp only [Spec.Curve.add, if_true, if_pos hs']


/-! ### Jacobian doubling -/

theorem jdbl_inf (j : Jac) (h : (j.z : ZMod c.p) = 0 ∨ (j.y : ZMod c.p) = 0) : jdbl c j = Jac.inf := by
  have h' : j.z % c.p = 0 ∨ j.y % c.p = 0 := by
    rcases h with h | h
    · exact Or.inl ((cast_eq_zero_iff c _).1 h)
    · exact Or.inr ((cast_eq_zero_iff c _).1 h)
  simp only [jdbl, if_pos h']

theorem jdbl_cast (j : Jac) (hz : (j.z : ZMod c.p) ≠ 0) (hy : (j.y : ZMod c.p) ≠ 0) :
    (((jdbl c j).x : Nat) : ZMod c.p) =
        (3 * (j.x : ZMod c.p) ^ 2 + (c.a : ZMod c.p) * (j.z : ZMod c.p) ^ 4) ^ 2
          - 2 * (4 * ((j.x : ZMod c.p) * (j.y : ZMod c.p) ^ 2)) ∧
    (((jdbl c j).y : Nat) : ZMod c.p) =
        (3 * (j.x : ZMod c.p) ^ 2 + (c.a : ZMod c.p) * (j.z : ZMod c.p) ^ 4) *
          (4 * ((j.x : ZMod c.p) * (j.y : ZMod c.p) ^ 2) -
            ((3 * (j.x : ZMod c.p) ^ 2 + (c.a : ZMod c.p) * (j.z : ZMod c.p) ^ 4) ^ 2
              - 2 * (4 * ((j.x : ZMod c.p) * (j.y : ZMod c.p) ^ 2))))
          - 8 * (j.y : ZMod c.p) ^ 4 ∧
    (((jdbl c j).z : Nat) : ZMod c.p) = 2 * ((j.y : ZMod c.p) * (j.z : ZMod c.p)) := by
  have h' : ¬ (j.z % c.p = 0 ∨ j.y % c.p = 0) := by
    rintro (h | h)
    · exact hz ((cast_eq_zero_iff c _).2 h)
    · exact hy ((cast_eq_zero_iff c _).2 h)
  simp only [jdbl, if_neg h']
  refine ⟨?_, ?_, ?_⟩
  · simp only [cast_fsub, Nat.cast_mul, Nat.cast_add, Nat.cast_ofNat, ZMod.natCast_mod]
    ring
  · simp only [cast_fsub, Nat.cast_mul, Nat.cast_add, Nat.cast_ofNat, ZMod.natCast_mod]
    ring
  · simp only [Nat.cast_mul, Nat.cast_ofNat, ZMod.natCast_mod]

theorem toAffine_jdbl_aux (h2 : 2 < c.p) (j : Jac) :
    toAffine c (jdbl c j) = Spec.Curve.dbl c (toAffine c j) := by
  have h2' := two_ne_zero' c h2
  by_cases hz : (j.z : ZMod c.p) = 0
  · rw [jdbl_inf c j (Or.inl hz), toAffine_inf, toAffine_none c j hz]
    rfl
  by_cases hy : (j.y : ZMod c.p) = 0
  · rw [jdbl_inf c j (Or.inr hy), toAffine_inf]
    have hr := toAffine_rep c j hz
    unfold Spec.Curve.dbl
    rw [add_opp c hr hr]
    rw [hy]; simp
  have hr := toAffine_rep c j hz
  obtain ⟨hx', hy', hz'⟩ := jdbl_cast c j hz hy
  have hzn : (((jdbl c j).z : Nat) : ZMod c.p) ≠ 0 := by
    rw [hz']; exact mul_ne_zero h2' (mul_ne_zero hy hz)
  have hr' := toAffine_rep c (jdbl c j) hzn
  have hy1 : (j.y : ZMod c.p) / (j.z : ZMod c.p) ^ 3 ≠ 0 := div_ne_zero hy (pow_ne_zero _ hz)
  have hs : (j.y : ZMod c.p) / (j.z : ZMod c.p) ^ 3 + (j.y : ZMod c.p) / (j.z : ZMod c.p) ^ 3 ≠ 0 := by
    rw [← two_mul]; exact mul_ne_zero h2' hy1
  have ht := add_tangent c h2' hr hr hy1 hs
  have hid := dbl_identity (j.x : ZMod c.p) (j.y : ZMod c.p) (j.z : ZMod c.p) (c.a : ZMod c.p) hz hy h2'
  simp only at hid
  unfold Spec.Curve.dbl
  rw [hx', hy', hz'] at hr'
  exact Rep.unique c (hr'.congr c hid.1 hid.2) ht


/-! ### Jacobian addition -/

theorem add_none_left (Q : Point) : Spec.Curve.add c none Q = Q := by
  cases Q <;> rfl

theorem add_none_right (P : Point) : Spec.Curve.add c P none = P := by
  cases P <;> rfl

theorem jadd_left_inf (a b : Jac) (hz : (a.z : ZMod c.p) = 0) : jadd c a b = b := by
  simp only [jadd, if_pos ((cast_eq_zero_iff c _).1 hz)]

theorem jadd_right_inf (a b : Jac) (hz1 : (a.z : ZMod c.p) ≠ 0) (hz2 : (b.z : ZMod c.p) = 0) :
    jadd c a b = a := by
  have h1 : ¬ a.z % c.p = 0 := fun h => hz1 ((cast_eq_zero_iff c _).2 h)
  simp only [jadd, if_neg h1, if_pos ((cast_eq_zero_iff c _).1 hz2)]

theorem u_iff (a b : Jac) :
    (a.x * (b.z * b.z % c.p) % c.p = b.x * (a.z * a.z % c.p) % c.p) ↔
      (a.x : ZMod c.p) * (b.z : ZMod c.p) ^ 2 = (b.x : ZMod c.p) * (a.z : ZMod c.p) ^ 2 := by
  rw [← ZMod.natCast_eq_natCast_iff']
  simp only [Nat.cast_mul, ZMod.natCast_mod]
  constructor <;> intro h <;> linear_combination h

theorem s_iff (a b : Jac) :
    (a.y * (b.z * b.z % c.p * b.z % c.p) % c.p = b.y * (a.z * a.z % c.p * a.z % c.p) % c.p) ↔
      (a.y : ZMod c.p) * (b.z : ZMod c.p) ^ 3 = (b.y : ZMod c.p) * (a.z : ZMod c.p) ^ 3 := by
  rw [← ZMod.natCast_eq_natCast_iff']
  simp only [Nat.cast_mul, ZMod.natCast_mod]
  constructor <;> intro h <;> linear_combination h

theorem jadd_eq_dbl (a b : Jac) (hz1 : (a.z : ZMod c.p) ≠ 0) (hz2 : (b.z : ZMod c.p) ≠ 0)
    (hU : (a.x : ZMod c.p) * (b.z : ZMod c.p) ^ 2 = (b.x : ZMod c.p) * (a.z : ZMod c.p) ^ 2)
    (hS : (a.y : ZMod c.p) * (b.z : ZMod c.p) ^ 3 = (b.y : ZMod c.p) * (a.z : ZMod c.p) ^ 3) :
    jadd c a b = jdbl c a := by
  have h1 : ¬ a.z % c.p = 0 := fun h => hz1 ((cast_eq_zero_iff c _).2 h)
  have h2 : ¬ b.z % c.p = 0 := fun h => hz2 ((cast_eq_zero_iff c _).2 h)
  simp only [jadd, if_neg h1, if_neg h2, if_pos ((u_iff c a b).2 hU), if_pos ((s_iff c a b).2 hS)]

theorem jadd_eq_inf (a b : Jac) (hz1 : (a.z : ZMod c.p) ≠ 0) (hz2 : (b.z : ZMod c.p) ≠ 0)
    (hU : (a.x : ZMod c.p) * (b.z : ZMod c.p) ^ 2 = (b.x : ZMod c.p) * (a.z : ZMod c.p) ^ 2)
    (hS : (a.y : ZMod c.p) * (b.z : ZMod c.p) ^ 3 ≠ (b.y : ZMod c.p) * (a.z : ZMod c.p) ^ 3) :
    jadd c a b = Jac.inf := by
  have h1 : ¬ a.z % c.p = 0 := fun h => hz1 ((cast_eq_zero_iff c _).2 h)
  have h2 : ¬ b.z % c.p = 0 := fun h => hz2 ((cast_eq_zero_iff c _).2 h)
  have h3 := fun h => hS ((s_iff c a b).1 h)
  simp only [jadd, if_neg h1, if_neg h2, if_pos ((u_iff c a b).2 hU), if_neg h3]

theorem jadd_cast (a b : Jac) (hz1 : (a.z : ZMod c.p) ≠ 0) (hz2 : (b.z : ZMod c.p) ≠ 0)
    (hU : (a.x : ZMod c.p) * (b.z : ZMod c.p) ^ 2 ≠ (b.x : ZMod c.p) * (a.z : ZMod c.p) ^ 2) :
    let X1 : ZMod c.p := a.x
    let Y1 : ZMod c.p := a.y
    let Z1 : ZMod c.p := a.z
    let X2 : ZMod c.p := b.x
    let Y2 : ZMod c.p := b.y
    let Z2 : ZMod c.p := b.z
    let U1 := X1 * Z2 ^ 2
    let U2 := X2 * Z1 ^ 2
    let S1 := Y1 * Z2 ^ 3
    let S2 := Y2 * Z1 ^ 3
    let H := U2 - U1
    let R := S2 - S1
    let X3 := R ^ 2 - H ^ 3 - 2 * (U1 * H ^ 2)
    let Y3 := R * (U1 * H ^ 2 - X3) - S1 * H ^ 3
    let Z3 := H * (Z1 * Z2)
    (((jadd c a b).x : Nat) : ZMod c.p) = X3 ∧ (((jadd c a b).y : Nat) : ZMod c.p) = Y3 ∧
      (((jadd c a b).z : Nat) : ZMod c.p) = Z3 := by
  intro X1 Y1 Z1 X2 Y2 Z2 U1 U2 S1 S2 H R X3 Y3 Z3
  have h1 : ¬ a.z % c.p = 0 := fun h => hz1 ((cast_eq_zero_iff c _).2 h)
  have h2 : ¬ b.z % c.p = 0 := fun h => hz2 ((cast_eq_zero_iff c _).2 h)
  have h3 := fun h => hU ((u_iff c a b).1 h)
  simp only [jadd, if_neg h1, if_neg h2, if_neg h3]
  simp only [X3, Y3, Z3, R, H, S1, S2, U1, U2, X1, Y1, Z1, X2, Y2, Z2]
  refine ⟨?_, ?_, ?_⟩
  · simp only [cast_fsub, Nat.cast_mul, Nat.cast_add, Nat.cast_ofNat, ZMod.natCast_mod]
    ring
  · simp only [cast_fsub, Nat.cast_mul, Nat.cast_add, Nat.cast_ofNat, ZMod.natCast_mod]
    ring
  · simp only [cast_fsub, Nat.cast_mul, Nat.cast_add, Nat.cast_ofNat, ZMod.natCast_mod]
    ring

theorem toAffine_jadd_aux (h2 : 2 < c.p) (a b : Jac)
    (hc : Compat c (toAffine c a) (toAffine c b)) :
    toAffine c (jadd c a b) = Spec.Curve.add c (toAffine c a) (toAffine c b) := by
  by_cases hz1 : (a.z : ZMod c.p) = 0
  · rw [jadd_left_inf c a b hz1, toAffine_none c a hz1, add_none_left]
  by_cases hz2 : (b.z : ZMod c.p) = 0
  · rw [jadd_right_inf c a b hz1 hz2, toAffine_none c b hz2, add_none_right]
  have hra := toAffine_rep c a hz1
  have hrb := toAffine_rep c b hz2
  have hz1' : (a.z : ZMod c.p) ^ 2 ≠ 0 := pow_ne_zero _ hz1
  have hz2' : (b.z : ZMod c.p) ^ 2 ≠ 0 := pow_ne_zero _ hz2
  have hz1'' : (a.z : ZMod c.p) ^ 3 ≠ 0 := pow_ne_zero _ hz1
  have hz2'' : (b.z : ZMod c.p) ^ 3 ≠ 0 := pow_ne_zero _ hz2
  by_cases hU : (a.x : ZMod c.p) * (b.z : ZMod c.p) ^ 2 = (b.x : ZMod c.p) * (a.z : ZMod c.p) ^ 2
  · have hxe : (b.x : ZMod c.p) / (b.z : ZMod c.p) ^ 2 = (a.x : ZMod c.p) / (a.z : ZMod c.p) ^ 2 := by
      rw [div_eq_div_iff hz2' hz1']; exact hU.symm
    by_cases hS : (a.y : ZMod c.p) * (b.z : ZMod c.p) ^ 3 = (b.y : ZMod c.p) * (a.z : ZMod c.p) ^ 3
    · have hye : (b.y : ZMod c.p) / (b.z : ZMod c.p) ^ 3 = (a.y : ZMod c.p) / (a.z : ZMod c.p) ^ 3 := by
        rw [div_eq_div_iff hz2'' hz1'']; exact hS.symm
      rw [jadd_eq_dbl c a b hz1 hz2 hU hS, toAffine_jdbl_aux c h2 a]
      have : toAffine c b = toAffine c a := Rep.unique c (hrb.congr c hxe hye) hra
      rw [this]; rfl
    · rw [jadd_eq_inf c a b hz1 hz2 hU hS, toAffine_inf]
      have hyne : (a.y : ZMod c.p) / (a.z : ZMod c.p) ^ 3 ≠ (b.y : ZMod c.p) / (b.z : ZMod c.p) ^ 3 := by
        rw [Ne, div_eq_div_iff hz1'' hz2'']; exact hS
      have hrb' := hrb.congr c hxe rfl
      obtain ⟨n1, n2, e1, hn1, hn2, hx1, hy1⟩ := hra
      obtain ⟨m1, m2, e2, hm1, hm2, hx2, hy2⟩ := hrb'
      have hnm : n1 = m1 := eq_of_cast_eq c hn1 hm1 (hx1.trans hx2.symm)
      rcases hc n1 n2 m1 m2 e1 e2 hnm with h | h
      · exfalso; apply hyne; rw [← hy1, ← hy2, h]
      · rw [e1, e2]
        symm
        apply add_opp c (x1 := (n1 : ZMod c.p)) (y1 := (n2 : ZMod c.p)) (y2 := (m2 : ZMod c.p))
        · exact ⟨n1, n2, rfl, hn1, hn2, rfl, rfl⟩
        · exact ⟨m1, m2, rfl, hm1, hm2, by rw [hnm], rfl⟩
        · rw [← Nat.cast_add, cast_eq_zero_iff]; exact h
  · obtain ⟨hx', hy', hz'⟩ := jadd_cast c a b hz1 hz2 hU
    have hH : (b.x : ZMod c.p) * (a.z : ZMod c.p) ^ 2 - (a.x : ZMod c.p) * (b.z : ZMod c.p) ^ 2 ≠ 0 :=
      sub_ne_zero.2 (Ne.symm hU)
    have hzn : (((jadd c a b).z : Nat) : ZMod c.p) ≠ 0 := by
      rw [hz']; exact mul_ne_zero hH (mul_ne_zero hz1 hz2)
    have hr' := toAffine_rep c (jadd c a b) hzn
    have hxne : (a.x : ZMod c.p) / (a.z : ZMod c.p) ^ 2 ≠ (b.x : ZMod c.p) / (b.z : ZMod c.p) ^ 2 := by
      rw [Ne, div_eq_div_iff hz1' hz2']; exact hU
    have ht := add_chord c hra hrb hxne
    have hid := add_identity (a.x : ZMod c.p) (a.y : ZMod c.p) (a.z : ZMod c.p)
      (b.x : ZMod c.p) (b.y : ZMod c.p) (b.z : ZMod c.p) hz1 hz2 hH
    simp only at hid
    rw [hx', hy', hz'] at hr'
    exact Rep.unique c (hr'.congr c hid.1 hid.2) ht


/-! ### points of one curve `y² = x³ + a x + b'` (any `b'`; the formulas never use the coefficient `b`) -/

/-- `P` is the point at infinity or a canonical finite point satisfying `y² = x³ + a x + b'` in `ZMod c.p` -/
def OnF (b' : ZMod c.p) (P : Point) : Prop :=
  P = none ∨ ∃ x y : ZMod c.p, Rep c P x y ∧ y ^ 2 = x ^ 3 + (c.a : ZMod c.p) * x + b'

theorem OnF.compat {b' : ZMod c.p} {P Q : Point} (hP : OnF c b' P) (hQ : OnF c b' Q) : Compat c P Q := by
  intro n1 n2 m1 m2 e1 e2 hnm
  rcases hP with hP | ⟨x1, y1, hr1, he1⟩
  · rw [hP] at e1; cases e1
  rcases hQ with hQ | ⟨x2, y2, hr2, he2⟩
  · rw [hQ] at e2; cases e2
  obtain ⟨a1, a2, e1', ha1, ha2, rfl, rfl⟩ := hr1
  obtain ⟨b1, b2, e2', hb1, hb2, rfl, rfl⟩ := hr2
  rw [e1] at e1'; rw [e2] at e2'
  simp only [Option.some.injEq, Prod.mk.injEq] at e1' e2'
  obtain ⟨rfl, rfl⟩ := e1'
  obtain ⟨rfl, rfl⟩ := e2'
  subst hnm
  have hmul : ((n2 : ZMod c.p) - (m2 : ZMod c.p)) * ((n2 : ZMod c.p) + (m2 : ZMod c.p)) = 0 := by
    linear_combination he1 - he2
  rcases mul_eq_zero.1 hmul with h | h
  · left; exact eq_of_cast_eq c ha2 hb2 (sub_eq_zero.1 h)
  · right; rw [← cast_eq_zero_iff, Nat.cast_add]; exact h

theorem OnF.add (h2 : 2 < c.p) {b' : ZMod c.p} {P Q : Point} (hP : OnF c b' P) (hQ : OnF c b' Q) :
    OnF c b' (Spec.Curve.add c P Q) := by
  have h2' := two_ne_zero' c h2
  rcases hP with hP | ⟨x1, y1, hr1, he1⟩
  · rw [hP, add_none_left]; exact hQ
  rcases hQ with hQ | ⟨x2, y2, hr2, he2⟩
  · rw [hQ, add_none_right]; exact Or.inr ⟨x1, y1, hr1, he1⟩
  by_cases hx : x1 = x2
  · subst hx
    have hmul : (y1 - y2) * (y1 + y2) = 0 := by linear_combination he1 - he2
    by_cases hs : y1 + y2 = 0
    · left; exact add_opp c hr1 hr2 hs
    · have hy : y1 = y2 := by
        rcases mul_eq_zero.1 hmul with h | h
        · exact sub_eq_zero.1 h
        · exact absurd h hs
      subst hy
      have hy1 : y1 ≠ 0 := by
        intro h; apply hs; rw [h]; simp
      right
      exact ⟨_, _, add_tangent c h2' hr1 hr2 hy1 hs, tangent_on_curve x1 y1 _ _ hy1 h2' he1⟩
  · right
    exact ⟨_, _, add_chord c hr1 hr2 hx,
      chord_on_curve x1 y1 x2 y2 _ _ (sub_ne_zero.2 (Ne.symm hx)) he1 he2⟩

theorem OnF.dbl (h2 : 2 < c.p) {b' : ZMod c.p} {P : Point} (hP : OnF c b' P) :
    OnF c b' (Spec.Curve.dbl c P) := OnF.add c h2 hP hP

theorem OnF.of_onCurve {P : Point} (h : Spec.Curve.onCurve c P = true) : OnF c (c.b : ZMod c.p) P := by
  rcases P with _ | ⟨x, y⟩
  · exact Or.inl rfl
  · right
    simp only [Spec.Curve.onCurve, Bool.and_eq_true, decide_eq_true_eq, beq_iff_eq] at h
    obtain ⟨⟨hx, hy⟩, he⟩ := h
    refine ⟨x, y, ⟨x, y, rfl, hx, hy, rfl, rfl⟩, ?_⟩
    rw [← ZMod.natCast_eq_natCast_iff'] at he
    simp only [Nat.cast_mul, Nat.cast_add, ZMod.natCast_mod] at he
    linear_combination he

/-- every canonical finite point lies on the curve with its own `b'` -/
theorem OnF.self {x y : Nat} (hx : x < c.p) (hy : y < c.p) :
    OnF c ((y : ZMod c.p) ^ 2 - (x : ZMod c.p) ^ 3 - (c.a : ZMod c.p) * x) (some (x, y)) := by
  right
  exact ⟨x, y, ⟨x, y, rfl, hx, hy, rfl, rfl⟩, by ring⟩

theorem toAffine_ofAffine_some {x y : Nat} (hx : x < c.p) (hy : y < c.p) :
    toAffine c (ofAffine (some (x, y))) = some (x, y) := by
  have h1 : (((ofAffine (some (x, y))).z : Nat) : ZMod c.p) ≠ 0 := by
    simp [ofAffine]
  have hr := toAffine_rep c (ofAffine (some (x, y))) h1
  apply Rep.unique c hr
  refine ⟨x, y, rfl, hx, hy, ?_, ?_⟩ <;> simp [ofAffine]

/-! ### the scalar multiplication -/

theorem go_eq (h2 : 2 < c.p) (b' : ZMod c.p) : ∀ (fuel k : Nat) (bJ aJ : Jac),
    OnF c b' (toAffine c bJ) → OnF c b' (toAffine c aJ) →
    toAffine c (jmulNat.go c fuel k bJ aJ)
        = Spec.Curve.mulNat.go c fuel k (toAffine c bJ) (toAffine c aJ) ∧
      OnF c b' (toAffine c (jmulNat.go c fuel k bJ aJ)) := by
  intro fuel
  induction fuel with
  | zero =>
    intro k bJ aJ hb ha
    unfold jmulNat.go Spec.Curve.mulNat.go
    exact ⟨rfl, ha⟩
  | succ f ih =>
    intro k bJ aJ hb ha
    unfold jmulNat.go Spec.Curve.mulNat.go
    by_cases hk : k = 0
    · rw [if_pos hk, if_pos hk]; exact ⟨rfl, ha⟩
    · rw [if_neg hk, if_neg hk]
      have hd : toAffine c (jdbl c bJ) = Spec.Curve.dbl c (toAffine c bJ) := toAffine_jdbl_aux c h2 bJ
      have hacc : toAffine c (if k % 2 = 1 then jadd c aJ bJ else aJ)
          = (if k % 2 = 1 then Spec.Curve.add c (toAffine c aJ) (toAffine c bJ) else toAffine c aJ) := by
        split
        · exact toAffine_jadd_aux c h2 aJ bJ (OnF.compat c ha hb)
        · rfl
      have hb' : OnF c b' (toAffine c (jdbl c bJ)) := by rw [hd]; exact OnF.dbl c h2 hb
      have ha' : OnF c b' (toAffine c (if k % 2 = 1 then jadd c aJ bJ else aJ)) := by
        rw [hacc]; split
        · exact OnF.add c h2 ha hb
        · exact ha
      have := ih (k / 2) (jdbl c bJ) (if k % 2 = 1 then jadd c aJ bJ else aJ) hb' ha'
      rw [hd, hacc] at this
      exact ⟨this.1, this.2⟩

theorem toAffine_ofAffine {b' : ZMod c.p} {pt : Point} (h : OnF c b' pt) :
    toAffine c (ofAffine pt) = pt := by
  rcases h with rfl | ⟨x, y, ⟨n1, n2, rfl, h1, h2, -, -⟩, -⟩
  · exact toAffine_inf c
  · exact toAffine_ofAffine_some c h1 h2

theorem jmulNat_spec (h2 : 2 < c.p) (b' : ZMod c.p) (pt : Point) (hpt : OnF c b' pt) (k : Nat) :
    toAffine c (jmulNat c (ofAffine pt) k) = Spec.Curve.mulNat c pt k ∧
      OnF c b' (Spec.Curve.mulNat c pt k) := by
  have hpt' := toAffine_ofAffine c hpt
  have hb : OnF c b' (toAffine c (ofAffine pt)) := by rw [hpt']; exact hpt
  have ha : OnF c b' (toAffine c Jac.inf) := Or.inl (toAffine_inf c)
  have := go_eq c h2 b' (Nat.log2 k + 2) k (ofAffine pt) Jac.inf hb ha
  rw [toAffine_inf, hpt'] at this
  unfold jmulNat Spec.Curve.mulNat
  exact ⟨this.1, this.1 ▸ this.2⟩

end Bridge

/-! ## Statements -/

/-- extended Euclid with fuel is a modular inverse modulo a prime -/
theorem invEuclid_mul (c : Curve) (hp : c.p.Prime) (x : Nat) (hx : x % c.p ≠ 0) :
    x * invEuclid c.p x % c.p = 1 := by
  apply invEuclid_mul' c.p x hp.one_lt
  rw [Nat.coprime_comm, Nat.Prime.coprime_iff_not_dvd hp, Nat.dvd_iff_mod_eq_zero]
  exact hx

theorem invEuclid_lt (c : Curve) (hp : c.p.Prime) (x : Nat) : invEuclid c.p x < c.p :=
  invEuclid_lt' c.p x hp.pos

theorem WF_inf (c : Curve) (h1 : 1 < c.p) : WF c Jac.inf := by
  simp only [WF, Jac.inf]; omega

theorem WF_ofAffine (c : Curve) (h1 : 1 < c.p) (pt : Point)
    (hpt : ∀ x y, pt = some (x, y) → x < c.p ∧ y < c.p) : WF c (ofAffine pt) := by
  rcases pt with _ | ⟨x, y⟩
  · exact WF_inf c h1
  · obtain ⟨hx, hy⟩ := hpt x y rfl
    exact ⟨hx, hy, h1⟩

/-- the result of `jdbl` is canonical (whatever the input) -/
theorem WF_jdbl (c : Curve) (h1 : 1 < c.p) (j : Jac) : WF c (jdbl c j) := by
  have hp0 : 0 < c.p := by omega
  unfold jdbl
  simp only
  split
  · exact WF_inf c h1
  · refine ⟨?_, ?_, ?_⟩
    · exact Nat.mod_lt _ hp0
    · exact Nat.mod_lt _ hp0
    · exact Nat.mod_lt _ hp0

theorem WF_jadd (c : Curve) (h1 : 1 < c.p) (a b : Jac) (ha : WF c a) (hb : WF c b) :
    WF c (jadd c a b) := by
  have hp0 : 0 < c.p := by omega
  unfold jadd
  simp only
  split
  · exact hb
  split
  · exact ha
  split
  · split
    · exact WF_jdbl c h1 a
    · exact WF_inf c h1
  · refine ⟨?_, ?_, ?_⟩
    · exact Nat.mod_lt _ hp0
    · exact Nat.mod_lt _ hp0
    · exact Nat.mod_lt _ hp0

/-- Jacobian doubling represents affine doubling; no hypothesis on `j` is needed. -/
theorem toAffine_jdbl' (c : Curve) (hp : c.p.Prime) (h2 : 2 < c.p) (j : Jac) :
    toAffine c (jdbl c j) = Spec.Curve.dbl c (toAffine c j) := by
  have : Fact c.p.Prime := ⟨hp⟩
  exact toAffine_jdbl_aux c h2 j

theorem toAffine_jdbl (c : Curve) (hp : c.p.Prime) (h2 : 2 < c.p) (j : Jac) (_hj : WF c j) :
    toAffine c (jdbl c j) = Spec.Curve.dbl c (toAffine c j) :=
  toAffine_jdbl' c hp h2 j

/-- Jacobian addition represents affine addition, under `Compat`: the two affine points, when they have the same
abscissa, are equal or opposite.  The hypothesis is necessary (see the counterexample in the header) and holds for two
points of one curve (`Compat_of_onCurve`). -/
theorem toAffine_jadd' (c : Curve) (hp : c.p.Prime) (h2 : 2 < c.p) (a b : Jac)
    (hc : Compat c (toAffine c a) (toAffine c b)) :
    toAffine c (jadd c a b) = Spec.Curve.add c (toAffine c a) (toAffine c b) := by
  have : Fact c.p.Prime := ⟨hp⟩
  exact toAffine_jadd_aux c h2 a b hc

theorem toAffine_jadd (c : Curve) (hp : c.p.Prime) (h2 : 2 < c.p) (a b : Jac) (_ha : WF c a) (_hb : WF c b)
    (hc : Compat c (toAffine c a) (toAffine c b)) :
    toAffine c (jadd c a b) = Spec.Curve.add c (toAffine c a) (toAffine c b) :=
  toAffine_jadd' c hp h2 a b hc

theorem Compat_of_onCurve (c : Curve) (hp : c.p.Prime) (P Q : Point)
    (hP : Spec.Curve.onCurve c P = true) (hQ : Spec.Curve.onCurve c Q = true) : Compat c P Q := by
  have : Fact c.p.Prime := ⟨hp⟩
  exact OnF.compat c (OnF.of_onCurve c hP) (OnF.of_onCurve c hQ)

theorem toAffine_jadd_onCurve (c : Curve) (hp : c.p.Prime) (h2 : 2 < c.p) (a b : Jac)
    (ha : Spec.Curve.onCurve c (toAffine c a) = true) (hb : Spec.Curve.onCurve c (toAffine c b) = true) :
    toAffine c (jadd c a b) = Spec.Curve.add c (toAffine c a) (toAffine c b) :=
  toAffine_jadd' c hp h2 a b (Compat_of_onCurve c hp _ _ ha hb)

/-- the Jacobian evaluator computes the specification's scalar multiplication -/
theorem mulNat_eq (c : Curve) (hp : c.p.Prime) (h2 : 2 < c.p) (pt : Point)
    (hpt : ∀ x y, pt = some (x, y) → x < c.p ∧ y < c.p) (k : Nat) :
    Spec.CurveFast.mulNat c pt k = Spec.Curve.mulNat c pt k := by
  have : Fact c.p.Prime := ⟨hp⟩
  unfold Spec.CurveFast.mulNat
  rcases pt with _ | ⟨x, y⟩
  · exact (jmulNat_spec c h2 0 none (Or.inl rfl) k).1
  · obtain ⟨hx, hy⟩ := hpt x y rfl
    exact (jmulNat_spec c h2 _ (some (x, y)) (OnF.self c hx hy) k).1

/-- `[k]P + [m]Q` with one final inversion, for two points of the curve `c` -/
theorem mulAdd_eq (c : Curve) (hp : c.p.Prime) (h2 : 2 < c.p) (pt q : Point)
    (hpt : Spec.Curve.onCurve c pt = true) (hq : Spec.Curve.onCurve c q = true) (k m : Nat) :
    Spec.CurveFast.mulAdd c pt k q m
      = Spec.Curve.add c (Spec.Curve.mulNat c pt k) (Spec.Curve.mulNat c q m) := by
  have : Fact c.p.Prime := ⟨hp⟩
  unfold Spec.CurveFast.mulAdd
  have h1 := jmulNat_spec c h2 _ pt (OnF.of_onCurve c hpt) k
  have h2' := jmulNat_spec c h2 _ q (OnF.of_onCurve c hq) m
  rw [toAffine_jadd_aux c h2 _ _ (by rw [h1.1, h2'.1]; exact OnF.compat c h1.2 h2'.2), h1.1, h2'.1]

/-- the hypothesis `Compat` of `toAffine_jadd` cannot be dropped: two points with the same abscissa that are neither
equal nor opposite (so not both on the curve) are sent to infinity by `jadd`, to a tangent result by `Curve.add` -/
example : toAffine ⟨7, 0, 3⟩ (jadd ⟨7, 0, 3⟩ ⟨1, 1, 1⟩ ⟨1, 2, 1⟩)
    ≠ Spec.Curve.add ⟨7, 0, 3⟩ (toAffine ⟨7, 0, 3⟩ ⟨1, 1, 1⟩) (toAffine ⟨7, 0, 3⟩ ⟨1, 2, 1⟩) := by
  decide

end Relic.Lemmas.CurveFast
