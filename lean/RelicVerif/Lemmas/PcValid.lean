/-
The coded subgroup tests of Model/PcValid.lean, instantiated with an abstract commutative group `A` ("the curve": every element
is on the curve) carrying an endomorphism ψ, accept exactly the non-zero elements killed by r — under explicit hypotheses on ψ
(characteristic equation on the whole group, eigenvalue on the r-torsion) and on the family parameter.
-/
import Mathlib.GroupTheory.OrderOfElement
import Mathlib.Algebra.Module.Basic
import Mathlib.Tactic.Module
import Mathlib.Tactic.Ring
import Mathlib.Tactic.Abel
import Mathlib.Tactic.Group
import Mathlib.Tactic.Linarith
import Mathlib.Tactic.LinearCombination
import Mathlib.Data.ZMod.Basic
import RelicVerif.Model.PcValid

namespace Relic.Lemmas.PcValid
open Relic.Model.PcValid

variable {A : Type} [AddCommGroup A] [DecidableEq A]

/-- the abstract instance: the whole group is "the curve" -/
def absOps (ψ : A →+ A) : GOps A where
  isInf := fun a => decide (a = 0)
  onCurve := fun _ => true
  add := fun a b => a + b
  dbl := fun a => a + a
  neg := fun a => -a
  mul := fun a k => k • a
  psi := fun a => ψ a
  eq := fun a b => decide (a = b)

theorem zsmul_of_dvd {r : ℕ} {a : A} (h : r • a = 0) {m : ℤ} (hm : (r : ℤ) ∣ m) : m • a = 0 := by
  obtain ⟨c, rfl⟩ := hm
  rw [mul_comm, mul_smul, natCast_zsmul, h, smul_zero]

/-- cofactor 1: the test is "not the identity and on the curve", and in a group of order r that is "killed by r" -/
theorem g1_cofOne [Fintype A] (ψ : A →+ A) (endom : Bool) (fam : Fam) (z : ℤ) (n : ℕ) (hn : Fintype.card A = n) (a : A) :
    g1IsValid (absOps ψ) true endom fam z n a = true ↔ a ≠ 0 ∧ n • a = 0 := by
  have h : n • a = 0 := by rw [← hn]; exact card_nsmul_eq_zero
  simp [g1IsValid, absOps, h]

/-- the reduction of the B12 branch of g1_is_valid to its relation -/
theorem g1_b12_rel (ψ : A →+ A) (z : ℤ) (r : ℕ) (a : A) :
    g1IsValid (absOps ψ) false true .b12 z r a = true ↔ a ≠ 0 ∧ ψ (ψ a) = -(z • z • a) := by
  simp [g1IsValid, absOps]

theorem g1_b12 (ψ : A →+ A) (z : ℤ) (r : ℕ) (lam : ℤ)
    (hχ : ∀ P, ψ (ψ P) + ψ P + P = 0) (hr : (r : ℤ) = z ^ 4 - z ^ 2 + 1)
    (hlam : ∀ P : A, r • P = 0 → ψ P = lam • P) (hlr : (r : ℤ) ∣ lam ^ 2 + z ^ 2) (a : A) :
    g1IsValid (absOps ψ) false true .b12 z r a = true ↔ a ≠ 0 ∧ r • a = 0 := by
  rw [g1_b12_rel]
  constructor
  · rintro ⟨h0, h⟩
    refine ⟨h0, ?_⟩
    have h1 : ψ a = (z ^ 2 - 1) • a := by
      have := hχ a
      rw [h] at this
      have e : ψ a = z • z • a - a := by
        rw [← sub_eq_zero, ← this]; abel
      rw [e]; module
    have h2 : ψ (ψ a) = (z ^ 2 - 1) • (z ^ 2 - 1) • a := by
      rw [h1, map_zsmul, h1]
    rw [h2] at h
    have h3 : (z ^ 4 - z ^ 2 + 1) • a = 0 := by
      have : (z ^ 4 - z ^ 2 + 1) • a = (z ^ 2 - 1) • (z ^ 2 - 1) • a + z • z • a := by module
      rw [this, h]; abel
    rw [← hr, natCast_zsmul] at h3
    exact h3
  · rintro ⟨h0, h⟩
    refine ⟨h0, ?_⟩
    have hr' : r • (lam • a) = 0 := by rw [smul_comm, h, smul_zero]
    have e1 : ψ (ψ a) = lam • lam • a := by
      rw [hlam a h, hlam _ hr']
    have e2 : (lam ^ 2 + z ^ 2) • a = 0 := zsmul_of_dvd h hlr
    rw [e1, eq_neg_iff_add_eq_zero]
    rw [← e2]; module

/-- the reduction of the B12 branch (not B12_383) of g2_is_valid to its relation -/
theorem g2_b12_rel (ψ : A →+ A) (z : ℤ) (r : ℕ) (a : A) :
    g2IsValid (absOps ψ) true false .b12 z r a = true ↔ a ≠ 0 ∧ z • a = ψ a := by
  simp [g2IsValid, absOps, psiN]

theorem g2_b12 [Fintype A] (ψ : A →+ A) (z t p : ℤ) (r : ℕ) (lam : ℤ)
    (hχ : ∀ P, ψ (ψ P) - t • ψ P + p • P = 0)
    (hgcd : (Int.gcd (z ^ 2 - t * z + p) (Fintype.card A) : ℤ) ∣ r)
    (hlam : ∀ P : A, r • P = 0 → ψ P = lam • P) (hlz : (r : ℤ) ∣ lam - z) (a : A) :
    g2IsValid (absOps ψ) true false .b12 z r a = true ↔ a ≠ 0 ∧ r • a = 0 := by
  rw [g2_b12_rel]
  constructor
  · rintro ⟨h0, h⟩
    refine ⟨h0, ?_⟩
    have h2 : ψ (ψ a) = z • z • a := by rw [← h, map_zsmul, ← h]
    have hm : (z ^ 2 - t * z + p) • a = 0 := by
      have := hχ a
      rw [h2, ← h] at this
      rw [← this]; module
    have hc : ((Fintype.card A : ℕ) : ℤ) • a = 0 := by rw [natCast_zsmul]; exact card_nsmul_eq_zero
    have hg : (Int.gcd (z ^ 2 - t * z + p) (Fintype.card A) : ℤ) • a = 0 := by
      rw [Int.gcd_eq_gcd_ab, add_smul, mul_comm, mul_smul, hm, smul_zero, mul_comm, mul_smul, hc, smul_zero, add_zero]
    obtain ⟨c, hc'⟩ := hgcd
    have : (r : ℤ) • a = 0 := by rw [hc', mul_comm, mul_smul, hg, smul_zero]
    rwa [natCast_zsmul] at this
  · rintro ⟨h0, h⟩
    refine ⟨h0, ?_⟩
    have e : (lam - z) • a = 0 := zsmul_of_dvd h hlz
    rw [hlam a h]
    have : lam • a = (lam - z) • a + z • a := by module
    rw [this, e, zero_add]

/-- the reduction of the BN branch of g2_is_valid to its relation -/
theorem g2_bn_rel (ψ : A →+ A) (z : ℤ) (r : ℕ) (a : A) :
    g2IsValid (absOps ψ) true false .bn z r a = true ↔
      a ≠ 0 ∧ z • a + a + ψ (z • a) + ψ (ψ (z • a)) = ψ (ψ (ψ (z • a))) + ψ (ψ (ψ (z • a))) := by
  simp [g2IsValid, absOps, psiN]

/-- BN, completeness: every non-zero element killed by r is accepted, when ψ acts on the r-torsion as lam with
    z + 1 + z·lam + z·lam² ≡ 2z·lam³ (mod r) -/
theorem g2_bn_complete (ψ : A →+ A) (z : ℤ) (r : ℕ) (lam : ℤ)
    (hlam : ∀ P : A, r • P = 0 → ψ P = lam • P)
    (hl : (r : ℤ) ∣ z + 1 + z * lam + z * lam ^ 2 - 2 * z * lam ^ 3) (a : A) (h0 : a ≠ 0) (h : r • a = 0) :
    g2IsValid (absOps ψ) true false .bn z r a = true := by
  rw [g2_bn_rel]
  refine ⟨h0, ?_⟩
  have hk : ∀ (m : ℤ) (P : A), r • P = 0 → r • (m • P) = 0 := fun m P hP => by rw [smul_comm, hP, smul_zero]
  have e1 : ψ (z • a) = lam • z • a := hlam _ (hk _ _ h)
  have e2 : ψ (ψ (z • a)) = lam • lam • z • a := by
    rw [e1]; exact hlam _ (hk _ _ (hk _ _ h))
  have e3 : ψ (ψ (ψ (z • a))) = lam • lam • lam • z • a := by
    rw [e2]; exact hlam _ (hk _ _ (hk _ _ (hk _ _ h)))
  have e : (z + 1 + z * lam + z * lam ^ 2 - 2 * z * lam ^ 3) • a = 0 := zsmul_of_dvd h hl
  rw [e3, e2, e1, ← sub_eq_zero, ← e]
  module

/-- g1_mul / g2_mul hand on a scalar that acts like k on every element killed by n (whichever path is taken) -/
theorem mulRoute_smul (w n : ℕ) (k : ℤ) (P : A) (hP : n • P = 0) : (mulRoute w n k).2 • P = k • P := by
  unfold mulRoute
  split
  · rfl
  · have h : (n : ℤ) • P = 0 := by rw [natCast_zsmul]; exact hP
    conv_rhs => rw [← Int.emod_add_mul_ediv k n]
    rw [add_smul, mul_smul, smul_comm, h, smul_zero, add_zero]

/-- … and so do g1_mul_gen / g2_mul_gen; the scalar handed on is the canonical residue -/
theorem genRoute_smul (n : ℕ) (k : ℤ) (P : A) (hP : n • P = 0) : (genRoute n k) • P = k • P := by
  have h : (n : ℤ) • P = 0 := by rw [natCast_zsmul]; exact hP
  unfold genRoute
  conv_rhs => rw [← Int.emod_add_mul_ediv k n]
  rw [add_smul, mul_smul, smul_comm, h, smul_zero, add_zero]

theorem genRoute_range (n : ℕ) (hn : 0 < n) (k : ℤ) : 0 ≤ genRoute n k ∧ genRoute n k < n :=
  ⟨Int.emod_nonneg _ (by omega), Int.emod_lt_of_pos _ (by omega)⟩

/-- the one-digit path is taken exactly when |k| fits one digit -/
theorem mulRoute_dig (w n : ℕ) (k : ℤ) : (mulRoute w n k).1 = true ↔ k.natAbs < 2 ^ w := by
  unfold mulRoute; split <;> simp [*]

section GT
variable {T : Type} [CommGroup T] [DecidableEq T]

def iter (φ : T →* T) : ℕ → T → T
  | 0, a => a
  | i + 1, a => φ (iter φ i a)

/-- the abstract target group: no zero element, Frobenius φ, fp12_exp_cyc_sps = exponentiation by the parameter z -/
def absT (φ : T →* T) (z : ℤ) : TOps T where
  isOne := fun a => decide (a = 1)
  isZero := fun _ => false
  mul := fun a b => a * b
  sqr := fun a => a * a
  inv := fun a => a⁻¹
  frb := fun a i => iter φ i a
  expSps := fun a => a ^ z
  exp := fun a k => a ^ k
  eq := fun a b => decide (a = b)

/-- the reduction of the B12 branch (not B12_383) of gt_is_valid to its relations -/
theorem gt_b12_rel (φ : T →* T) (z : ℤ) (r : ℕ) (a : T) :
    gtIsValid (absT φ z) false .b12 r a = true ↔ a ≠ 1 ∧ φ (φ (φ (φ a))) * a = φ (φ a) ∧ φ a = a ^ z := by
  simp only [gtIsValid, testCyc, absT, iter]
  by_cases h1 : a = 1 <;> by_cases h2 : φ (φ (φ (φ a))) * a = φ (φ a) <;> simp [h1, h2]

/-- B12, GT: the coded test (cyclotomic test and a^p = a^z) accepts exactly the non-unit elements killed by r -/
theorem gt_b12 (φ : T →* T) (z : ℤ) (r : ℕ) (lam : ℤ) (hr : (r : ℤ) = z ^ 4 - z ^ 2 + 1)
    (hlam : ∀ a : T, a ^ r = 1 → φ a = a ^ lam) (hlz : (r : ℤ) ∣ lam - z) (a : T) :
    gtIsValid (absT φ z) false .b12 r a = true ↔ a ≠ 1 ∧ a ^ r = 1 := by
  rw [gt_b12_rel]
  have key : φ a = a ^ z → φ (φ a) = a ^ (z ^ 2) ∧ φ (φ (φ (φ a))) = a ^ (z ^ 4) := by
    intro h
    have e2 : φ (φ a) = a ^ (z ^ 2) := by rw [h, map_zpow, h, ← zpow_mul]; congr 1; ring
    refine ⟨e2, ?_⟩
    rw [e2, map_zpow, map_zpow, e2, ← zpow_mul]; congr 1; ring
  constructor
  · rintro ⟨h0, hc, hz⟩
    refine ⟨h0, ?_⟩
    obtain ⟨e2, e4⟩ := key hz
    rw [e4, e2] at hc
    have : a ^ (z ^ 4 - z ^ 2 + 1) = 1 := by
      rw [zpow_add, zpow_sub, zpow_one, mul_right_comm, hc, mul_inv_cancel]
    rw [← hr, zpow_natCast] at this
    exact this
  · rintro ⟨h0, h⟩
    have hrz : a ^ (r : ℤ) = 1 := by rw [zpow_natCast]; exact h
    have hz : φ a = a ^ z := by
      rw [hlam a h]
      obtain ⟨c, hc⟩ := hlz
      have : lam = z + r * c := by linarith
      rw [this, zpow_add, zpow_mul, hrz, one_zpow, mul_one]
    obtain ⟨e2, e4⟩ := key hz
    refine ⟨h0, ?_, hz⟩
    rw [e4, e2]
    have : a ^ (z ^ 4 - z ^ 2 + 1) = 1 := by rw [← hr]; exact hrz
    rw [zpow_add, zpow_sub, zpow_one] at this
    rw [← mul_inv_eq_one]
    rw [← this]; group

end GT

/-- the hypotheses of `g1_b12` are satisfiable: Z/13 with z = 2 (r = z⁴ − z² + 1 = 13), ψ = multiplication by 3
    (3² + 3 + 1 = 13, 3² + 2² = 13) -/
example : ∃ (ψ : ZMod 13 →+ ZMod 13) (z lam : ℤ) (r : ℕ), (∀ P, ψ (ψ P) + ψ P + P = 0) ∧ (r : ℤ) = z ^ 4 - z ^ 2 + 1 ∧
    (∀ P : ZMod 13, r • P = 0 → ψ P = lam • P) ∧ (r : ℤ) ∣ lam ^ 2 + z ^ 2 :=
  ⟨AddMonoidHom.mulLeft 3, 2, 3, 13, by decide, by norm_num, by decide, by norm_num⟩

end Relic.Lemmas.PcValid
