/-
C14 (extension): CBC over two block functions that agree on 16-byte blocks; used to replace the FIPS 197 cipher by the
table-driven code of rijndael-alg-fst.c inside the CBC / PKCS#7 theorems.
-/
import RelicVerif.Lemmas.Md

namespace Relic.Lemmas.AesCbc
open Relic.Spec Relic.Model Relic.Lemmas.Md
open Relic.Spec.Mac (Bytes)

theorem cbcEnc_congr (E E' : Bytes → Bytes) (h : ∀ b, b.length = 16 → E b = E' b)
    (hE : ∀ b, b.length = 16 → (E b).length = 16) (iv : Bytes) (hiv : iv.length = 16) (bs : List Bytes)
    (hb : ∀ b ∈ bs, b.length = 16) : Aes.cbcEnc E iv bs = Aes.cbcEnc E' iv bs := by
  induction bs generalizing iv with
  | nil => simp [Aes.cbcEnc]
  | cons b t ih =>
    have hx : (Aes.addRoundKey b iv).length = 16 := by
      rw [addRoundKey_length, hb b (by simp), hiv]; rfl
    simp only [Aes.cbcEnc]
    rw [← h _ hx, ih _ (hE _ hx) (fun b' hb' => hb b' (by simp [hb']))]

theorem cbcDec_congr (D D' : Bytes → Bytes) (h : ∀ b, b.length = 16 → D b = D' b) (iv : Bytes) (bs : List Bytes)
    (hb : ∀ b ∈ bs, b.length = 16) : Aes.cbcDec D iv bs = Aes.cbcDec D' iv bs := by
  induction bs generalizing iv with
  | nil => simp [Aes.cbcDec]
  | cons b t ih =>
    simp only [Aes.cbcDec]
    rw [← h _ (hb b (by simp)), ih _ (fun b' hb' => hb b' (by simp [hb']))]

end Relic.Lemmas.AesCbc
