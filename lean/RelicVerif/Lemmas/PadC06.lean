/-
Byte-level encodings of property C06 (definitions of Spec/Cp.lean): I2OSP/OS2IP are mutually inverse; for each RSA padding
(EME-PKCS1-v1_5, EME-OAEP, the library's basic layout) and the Rabin redundancy block:
  * unpad (pad m) = m for every admissible message (round trip), and
  * unpad accepts ONLY strings of the documented layout (soundness): whatever is accepted is the padding of the result.
-/
import RelicVerif.Spec.Cp
import RelicVerif.Lemmas.Md
import Mathlib.Tactic.Ring

namespace Relic.Lemmas.PadC06
open Relic.Spec.Cp
open Relic.Spec.Mac (Hash mgf1 xorBytes)

theorem os2ip_foldl (b : Bytes) (a : Nat) :
    b.foldl (fun acc x => acc * 256 + x.toNat) a = a * 256 ^ b.length + os2ip b := by
  induction b generalizing a with
  | nil => simp [os2ip]
  | cons x t ih =>
    simp only [os2ip, List.foldl_cons, List.length_cons]
    rw [ih, ih (0 * 256 + x.toNat)]
    ring

theorem os2ip_nil : os2ip [] = 0 := rfl

theorem os2ip_cons (x : UInt8) (b : Bytes) : os2ip (x :: b) = x.toNat * 256 ^ b.length + os2ip b := by
  have := os2ip_foldl b (0 * 256 + x.toNat)
  simp only [os2ip, List.foldl_cons] at this ⊢
  rw [this]; ring

theorem i2osp_length (n len : Nat) : (i2osp n len).length = len := by
  induction len with
  | zero => rfl
  | succ len ih => simp [i2osp, ih]

theorem os2ip_lt (b : Bytes) : os2ip b < 256 ^ b.length := by
  induction b with
  | nil => simp [os2ip]
  | cons x t ih =>
    rw [os2ip_cons, List.length_cons, pow_succ]
    have hx : x.toNat ≤ 255 := by have := x.toNat_lt; omega
    have := Nat.mul_le_mul_right (256 ^ t.length) hx
    omega

theorem i2osp_mod (n len : Nat) : i2osp n len = i2osp (n % 256 ^ len) len := by
  induction len generalizing n with
  | zero => rfl
  | succ len ih =>
    simp only [i2osp]
    rw [ih n, ih (n % 256 ^ (len + 1)), pow_succ, Nat.mod_mul_right_div_self, Nat.mod_mod,
      Nat.mod_mod_of_dvd _ (Dvd.intro _ rfl)]

/-- OS2IP ∘ I2OSP = id below 256^len -/
theorem os2ip_i2osp (n len : Nat) (h : n < 256 ^ len) : os2ip (i2osp n len) = n := by
  induction len generalizing n with
  | zero => simp at h; subst h; rfl
  | succ len ih =>
    simp only [i2osp]
    rw [os2ip_cons, i2osp_length, i2osp_mod, ih _ (Nat.mod_lt _ (Nat.pow_pos (by norm_num))), UInt8.toNat_ofNat']
    have : n / 256 ^ len < 256 := by
      rw [Nat.div_lt_iff_lt_mul (Nat.pow_pos (by norm_num))]; rw [pow_succ] at h; omega
    rw [Nat.mod_mod_of_dvd _ (by norm_num), Nat.mod_eq_of_lt this]
    exact Nat.div_add_mod' n _

/-- I2OSP ∘ OS2IP = id at the string's own length (leading zero octets are preserved) -/
theorem i2osp_os2ip (b : Bytes) : i2osp (os2ip b) b.length = b := by
  induction b with
  | nil => rfl
  | cons x t ih =>
    simp only [List.length_cons, i2osp]
    have hlt := os2ip_lt t
    have hpos : 0 < 256 ^ t.length := Nat.pow_pos (by norm_num)
    rw [i2osp_mod, os2ip_cons]
    have h1 : (x.toNat * 256 ^ t.length + os2ip t) / 256 ^ t.length = x.toNat := by
      rw [Nat.add_comm, Nat.add_mul_div_right _ _ hpos, Nat.div_eq_of_lt hlt, Nat.zero_add]
    have h2 : (x.toNat * 256 ^ t.length + os2ip t) % 256 ^ t.length = os2ip t := by
      rw [Nat.add_comm, Nat.add_mul_mod_self_right, Nat.mod_eq_of_lt hlt]
    rw [h1, h2, ih, Nat.mod_eq_of_lt x.toNat_lt, UInt8.ofNat_toNat]

/-! ### list helpers -/

theorem dropWhile_append_stop {α} (p : α → Bool) (ps : List α) (x : α) (t : List α)
    (hps : ∀ b ∈ ps, p b = true) (hx : p x = false) : (ps ++ x :: t).dropWhile p = x :: t := by
  induction ps with
  | nil => simp [hx]
  | cons y s ih =>
    have hy : p y = true := hps y (by simp)
    simp only [List.cons_append, List.dropWhile_cons, hy, if_true]
    exact ih (fun b hb => hps b (by simp [hb]))

theorem takeWhile_append_stop {α} (p : α → Bool) (ps : List α) (x : α) (t : List α)
    (hps : ∀ b ∈ ps, p b = true) (hx : p x = false) : (ps ++ x :: t).takeWhile p = ps := by
  induction ps with
  | nil => simp [hx]
  | cons y s ih =>
    have hy : p y = true := hps y (by simp)
    simp only [List.cons_append, List.takeWhile_cons, hy, if_true]
    rw [ih (fun b hb => hps b (by simp [hb]))]

theorem eq_replicate_zero (l : Bytes) (h : ∀ b ∈ l, b = 0) : l = List.replicate l.length 0 := by
  induction l with
  | nil => rfl
  | cons y s ih =>
    rw [List.length_cons, List.replicate_succ, h y (by simp), ← ih (fun b hb => h b (by simp [hb]))]

theorem mem_takeWhile_pos {α} (p : α → Bool) (l : List α) (x : α) (hx : x ∈ l.takeWhile p) : p x = true := by
  induction l with
  | nil => simp at hx
  | cons y s ih =>
    rw [List.takeWhile_cons] at hx
    split at hx
    · rcases List.mem_cons.mp hx with rfl | h
      · assumption
      · exact ih h
    · simp at hx

theorem dropWhile_eq_cons_neg {α} (p : α → Bool) (l : List α) (x : α) (t : List α)
    (h : l.dropWhile p = x :: t) : p x = false := by
  have := List.head_dropWhile_not p (l := l) (by rw [h]; simp)
  simpa [h] using this

/-! ### EME-PKCS1-v1_5 -/

theorem pkcs1_roundtrip (ps m : Bytes) (hps : ∀ b ∈ ps, b ≠ 0) (hlen : 8 ≤ ps.length) :
    pkcs1Unpad (pkcs1Pad ps m) = some m := by
  have hd : (ps ++ 0 :: m).dropWhile (fun b => decide (b ≠ 0)) = 0 :: m :=
    dropWhile_append_stop _ ps 0 m (fun b hb => by simpa using hps b hb) (by simp)
  have ht : (ps ++ 0 :: m).takeWhile (fun b => decide (b ≠ 0)) = ps :=
    takeWhile_append_stop _ ps 0 m (fun b hb => by simpa using hps b hb) (by simp)
  simp only [pkcs1Pad, pkcs1Unpad, List.cons_append, List.nil_append, List.append_assoc]
  rw [hd, ht]
  simp; omega

/-- accepted ⇒ EM = 00 ‖ 02 ‖ PS ‖ 00 ‖ M with PS non-zero and at least 8 octets -/
theorem pkcs1_sound (em m : Bytes) (h : pkcs1Unpad em = some m) :
    ∃ ps, em = pkcs1Pad ps m ∧ (∀ b ∈ ps, b ≠ 0) ∧ 8 ≤ ps.length := by
  unfold pkcs1Unpad at h
  split at h
  · rename_i y t rest
    split at h
    · simp at h
    · rename_i hyt
      have hyt' : y = 0 ∧ t = 2 := by
        constructor
        · by_contra hc; exact hyt (Or.inl hc)
        · by_contra hc; exact hyt (Or.inr hc)
      obtain ⟨rfl, rfl⟩ := hyt'
      split at h
      · simp at h
      · rename_i z m' hdw
        split at h
        · simp at h
        · rename_i hl
          have hm : m' = m := by simpa using h
          subst hm
          refine ⟨rest.takeWhile (fun b => decide (b ≠ 0)), ?_, ?_, by omega⟩
          · have hz : z = 0 := by
              simpa using dropWhile_eq_cons_neg _ _ _ _ hdw
            subst hz
            have := List.takeWhile_append_dropWhile (p := fun b => decide (b ≠ 0)) (l := rest)
            rw [hdw] at this
            simp only [pkcs1Pad, List.cons_append, List.nil_append, List.append_assoc]
            rw [this]
          · intro b hb
            simpa using mem_takeWhile_pos _ _ _ hb
  · simp at h

/-! ### the library's basic layout -/

theorem dropWhile_zero_replicate (z : Nat) (x : UInt8) (t : Bytes) (hx : x ≠ 0) :
    (List.replicate z 0 ++ x :: t).dropWhile (fun b => decide (b = 0)) = x :: t :=
  dropWhile_append_stop _ _ x t (fun b hb => by simp [(List.mem_replicate.mp hb).2]) (by simpa using hx)

theorem takeWhile_zero_eq_replicate (l : Bytes) :
    l.takeWhile (fun b => decide (b = 0)) = List.replicate (l.takeWhile (fun b => decide (b = 0))).length 0 :=
  eq_replicate_zero _ (fun b hb => by simpa using mem_takeWhile_pos _ _ _ hb)

theorem basic_roundtrip (k : Nat) (m : Bytes) (h : m.length + 2 ≤ k) : basicUnpad (basicPad k m) = some m := by
  obtain ⟨z, hz⟩ : ∃ z, k - 1 - m.length = z + 1 := ⟨k - 2 - m.length, by omega⟩
  simp only [basicPad, hz, List.replicate_succ, List.cons_append, List.append_assoc, List.nil_append, basicUnpad]
  rw [dropWhile_zero_replicate z 0xFF m (by decide)]
  simp

/-- accepted ⇒ EM = 00 … 00 ‖ FF ‖ M with at least one zero octet -/
theorem basic_sound (em m : Bytes) (h : basicUnpad em = some m) :
    ∃ z, 1 ≤ z ∧ em = List.replicate z 0 ++ [0xFF] ++ m := by
  unfold basicUnpad at h
  split at h
  · rename_i y rest
    split at h
    · simp at h
    · rename_i hy
      have hy' : y = 0 := by by_contra hc; exact hy hc
      subst hy'
      split at h
      · rename_i f m' hdw
        split at h
        · rename_i hf
          have hm : m' = m := by simpa using h
          subst hm; subst hf
          refine ⟨(rest.takeWhile (fun b => decide (b = 0))).length + 1, by omega, ?_⟩
          have := List.takeWhile_append_dropWhile (p := fun b => decide (b = 0)) (l := rest)
          rw [hdw] at this
          rw [List.replicate_succ, ← takeWhile_zero_eq_replicate]
          simp only [List.cons_append, List.append_assoc, List.nil_append]
          rw [this]
        · simp at h
      · simp at h
  · simp at h

/-! ### EME-OAEP -/

theorem flatMap_const_length {α β} (l : List α) (f : α → List β) (c : Nat) (h : ∀ a, (f a).length = c) :
    (l.flatMap f).length = l.length * c := by
  induction l with
  | nil => simp
  | cons a t ih => rw [List.flatMap_cons, List.length_append, ih, h, List.length_cons, Nat.succ_mul, Nat.add_comm]

theorem mgf1_length (H : Hash) (hout : ∀ b, (H.h b).length = H.outLen) (hpos : 0 < H.outLen) (seed : Bytes) (n : Nat) :
    (mgf1 H seed n).length = n := by
  unfold mgf1 Relic.Spec.Mac.counterKdf
  simp only [List.length_take]
  rw [flatMap_const_length _ _ H.outLen (fun a => hout _), List.length_range]
  have h1 := Nat.div_add_mod (n + H.outLen - 1) H.outLen
  have h2 := Nat.mod_lt (n + H.outLen - 1) hpos
  rw [Nat.mul_comm] at h1
  generalize (n + H.outLen - 1) / H.outLen * H.outLen = q at h1 ⊢
  omega

theorem xorBytes_length (a b : Bytes) : (xorBytes a b).length = min a.length b.length := by
  simp [xorBytes]

theorem xorBytes_cancel (a b : Bytes) (h : a.length ≤ b.length) : xorBytes (xorBytes a b) b = a := by
  unfold xorBytes
  induction a generalizing b with
  | nil => simp
  | cons x t ih =>
    cases b with
    | nil => simp at h
    | cons y s =>
      simp only [List.zipWith_cons_cons, List.cons.injEq]
      refine ⟨?_, ih s (by simpa using h)⟩
      rw [UInt8.xor_assoc, UInt8.xor_self, UInt8.xor_zero]

theorem oaepEncode_of_parts (H : Hash) (k : Nat) (seed m db maskedDB maskedSeed : Bytes)
    (hdb : db = H.h [] ++ List.replicate (k - m.length - 2 * H.outLen - 2) 0 ++ [1] ++ m)
    (h1 : xorBytes db (mgf1 H seed (k - H.outLen - 1)) = maskedDB)
    (h2 : xorBytes seed (mgf1 H maskedDB H.outLen) = maskedSeed) :
    oaepEncode H k seed m = 0 :: (maskedSeed ++ maskedDB) := by
  subst hdb; subst h1; subst h2
  simp [oaepEncode]

theorem oaepDecode_of_parts (H : Hash) (k z : Nat) (seed m db maskedDB maskedSeed : Bytes)
    (hh : (H.h []).length = H.outLen)
    (hk : 2 * H.outLen + 2 ≤ k)
    (hls : maskedSeed.length = H.outLen) (hld : maskedDB.length = k - H.outLen - 1)
    (hdb : db = H.h [] ++ List.replicate z 0 ++ [1] ++ m)
    (h2 : xorBytes maskedSeed (mgf1 H maskedDB H.outLen) = seed)
    (h1 : xorBytes maskedDB (mgf1 H seed (k - H.outLen - 1)) = db) :
    oaepDecode H k (0 :: (maskedSeed ++ maskedDB)) = some m := by
  have hlen : (0 :: (maskedSeed ++ maskedDB)).length = k := by
    simp only [List.length_cons, List.length_append, hls, hld]; omega
  have hc : ¬ ((0 :: (maskedSeed ++ maskedDB)).length ≠ k ∨ k < 2 * H.outLen + 2) := by
    rw [hlen]; omega
  simp only [oaepDecode, if_neg hc]
  rw [List.take_left' hls, List.drop_left' hls, h2, h1, hdb]
  have e1 : (H.h [] ++ List.replicate z 0 ++ [1] ++ m).drop H.outLen = List.replicate z 0 ++ 1 :: m := by
    rw [List.append_assoc, List.append_assoc, List.drop_left' hh]; simp
  have e2 : (H.h [] ++ List.replicate z 0 ++ [1] ++ m).take H.outLen = H.h [] := by
    rw [List.append_assoc, List.append_assoc, List.take_left' hh]
  rw [e1, e2, dropWhile_zero_replicate z 1 m (by decide)]
  simp

/-- decoding inverts encoding for every seed of hash length and every message that fits -/
theorem oaep_roundtrip (H : Hash) (hout : ∀ b, (H.h b).length = H.outLen) (hpos : 0 < H.outLen) (k : Nat) (seed m : Bytes)
    (hs : seed.length = H.outLen) (hm : m.length + 2 * H.outLen + 2 ≤ k) :
    oaepDecode H k (oaepEncode H k seed m) = some m := by
  have hh := hout []
  have hdbl : (H.h [] ++ List.replicate (k - m.length - 2 * H.outLen - 2) 0 ++ [1] ++ m).length = k - H.outLen - 1 := by
    simp only [List.length_append, List.length_replicate, hh, List.length_cons, List.length_nil]; omega
  rw [oaepEncode_of_parts H k seed m _ _ _ rfl rfl rfl]
  refine oaepDecode_of_parts H k (k - m.length - 2 * H.outLen - 2) seed m
    (H.h [] ++ List.replicate (k - m.length - 2 * H.outLen - 2) 0 ++ [1] ++ m) _ _ hh (by omega) ?_ ?_ rfl ?_ ?_
  · simp only [xorBytes_length, mgf1_length H hout hpos, hs, Nat.min_self]
  · simp only [xorBytes_length, mgf1_length H hout hpos, hdbl, Nat.min_self]
  · exact xorBytes_cancel _ _ (by simp only [mgf1_length H hout hpos, hs, Nat.le_refl])
  · exact xorBytes_cancel _ _ (by simp only [mgf1_length H hout hpos, hdbl, Nat.le_refl])

/-- accepted ⇒ EM is the OAEP encoding of the result under some seed (first octet 00, label hash, zero padding, 01) -/
theorem oaep_sound (H : Hash) (hout : ∀ b, (H.h b).length = H.outLen) (hpos : 0 < H.outLen) (k : Nat) (em m : Bytes)
    (h : oaepDecode H k em = some m) :
    ∃ seed, seed.length = H.outLen ∧ m.length + 2 * H.outLen + 2 ≤ k ∧ em = oaepEncode H k seed m := by
  unfold oaepDecode at h
  split at h
  · simp at h
  · rename_i hc
    have hc' : em.length = k ∧ 2 * H.outLen + 2 ≤ k := by omega
    obtain ⟨hlen, hk⟩ := hc'
    split at h
    · simp at h
    · rename_i y rest
      simp only at h
      have hrl : rest.length = k - 1 := by simp only [List.length_cons] at hlen; omega
      have hls : (rest.take H.outLen).length = H.outLen := by rw [List.length_take, hrl]; omega
      have hld : (rest.drop H.outLen).length = k - H.outLen - 1 := by rw [List.length_drop, hrl]; omega
      generalize hms : rest.take H.outLen = maskedSeed at h hls
      generalize hmd : rest.drop H.outLen = maskedDB at h hld
      have hseedl : (xorBytes maskedSeed (mgf1 H maskedDB H.outLen)).length = H.outLen := by
        simp only [xorBytes_length, mgf1_length H hout hpos, hls, Nat.min_self]
      generalize hseed : xorBytes maskedSeed (mgf1 H maskedDB H.outLen) = seed at h hseedl
      have hdbl : (xorBytes maskedDB (mgf1 H seed (k - H.outLen - 1))).length = k - H.outLen - 1 := by
        simp only [xorBytes_length, mgf1_length H hout hpos, hld, Nat.min_self]
      generalize hdb : xorBytes maskedDB (mgf1 H seed (k - H.outLen - 1)) = db at h hdbl
      split at h
      · rename_i o m' hdw
        split at h
        · rename_i hcond
          obtain ⟨rfl, rfl, htake⟩ := hcond
          have hm : m' = m := by simpa using h
          subst hm
          have hsplit := List.takeWhile_append_dropWhile (p := fun b => decide (b = 0)) (l := db.drop H.outLen)
          rw [hdw, takeWhile_zero_eq_replicate] at hsplit
          generalize ((db.drop H.outLen).takeWhile (fun b => decide (b = 0))).length = z at hsplit
          have hdbeq : db = H.h [] ++ List.replicate z 0 ++ [1] ++ m' := by
            rw [← List.take_append_drop H.outLen db, htake, ← hsplit]; simp
          have hz : H.outLen + z + 1 + m'.length = k - H.outLen - 1 := by
            rw [← hdbl, hdbeq]
            simp only [List.length_append, List.length_replicate, hout, List.length_cons, List.length_nil]
          have hz' : z = k - m'.length - 2 * H.outLen - 2 := by omega
          refine ⟨seed, hseedl, by omega, ?_⟩
          rw [oaepEncode_of_parts H k seed m' db maskedDB maskedSeed (by rw [hdbeq, hz']) ?_ ?_]
          · rw [← hms, ← hmd, List.take_append_drop]
          · rw [← hdb]
            exact xorBytes_cancel _ _ (by simp only [mgf1_length H hout hpos, hld, Nat.le_refl])
          · rw [← hseed]
            exact xorBytes_cancel _ _ (by simp only [mgf1_length H hout hpos, hls, Nat.le_refl])
        · simp at h
      · simp at h

/-! ### Rabin redundancy block -/

theorem pow256 (n : Nat) : 256 ^ n = 2 ^ (8 * n) := by
  rw [Nat.pow_mul]

theorem byteLen_eq (x len : Nat) (h1 : 256 ^ len ≤ x) (h2 : x < 256 ^ (len + 1)) : byteLen x = len + 1 := by
  have hx : x ≠ 0 := by
    have : 0 < 256 ^ len := Nat.pow_pos (by norm_num)
    omega
  rw [pow256] at h1 h2
  have a1 : 8 * len ≤ Nat.log2 x := (Nat.le_log2 hx).mpr h1
  have a2 : Nat.log2 x < 8 * (len + 1) := (Nat.log2_lt hx).mpr h2
  simp only [byteLen, if_neg hx]
  omega

theorem lt_pow_byteLen (x : Nat) : x < 256 ^ byteLen x := by
  by_cases hx : x = 0
  · subst hx; simp [byteLen]
  · simp only [byteLen, if_neg hx]
    rw [pow256, ← Nat.log2_lt hx]
    omega

theorem rabinBlock_div (m : Bytes) : rabinBlock m / 2 ^ 64 = os2ip (0xFF :: m) := by
  simp only [rabinBlock]
  rw [Nat.add_comm, Nat.add_mul_div_right _ _ (by norm_num), Nat.div_eq_of_lt (Nat.mod_lt _ (by norm_num)), Nat.zero_add]

theorem rabinBlock_mod (m : Bytes) : rabinBlock m % 2 ^ 64 = os2ip (0xFF :: m) % 2 ^ 64 := by
  simp only [rabinBlock]
  rw [Nat.add_comm, Nat.add_mul_mod_self_right, Nat.mod_mod]

/-- the plaintext is recovered from its own block -/
theorem rabin_block_roundtrip (m : Bytes) : rabinParse (rabinBlock m) = some m := by
  have hbl : byteLen (os2ip (0xFF :: m)) = (0xFF :: m).length := by
    rw [List.length_cons]
    have hlt := os2ip_lt (0xFF :: m)
    rw [List.length_cons] at hlt
    refine byteLen_eq _ _ ?_ hlt
    rw [os2ip_cons]
    have : (0xFF : UInt8).toNat = 255 := rfl
    rw [this]
    have : 0 < 256 ^ m.length := Nat.pow_pos (by norm_num)
    omega
  have hcond : ¬ (rabinBlock m / 2 ^ 64 % 2 ^ 64 ≠ rabinBlock m % 2 ^ 64) := by
    rw [rabinBlock_div, rabinBlock_mod]; exact fun hn => hn rfl
  simp only [rabinParse, if_neg hcond]
  rw [rabinBlock_div, hbl, i2osp_os2ip]
  simp

/-- a parsed root is the block of the returned message -/
theorem rabin_parse_sound (r : Nat) (m : Bytes) (h : rabinParse r = some m) : r = rabinBlock m := by
  unfold rabinParse at h
  split at h
  · simp at h
  · rename_i hc
    have hc' : r / 2 ^ 64 % 2 ^ 64 = r % 2 ^ 64 := by by_contra hn; exact hc hn
    simp only at h
    split at h
    · rename_i f m' hi
      split at h
      · rename_i hf
        have hm : m' = m := by simpa using h
        subst hm; subst hf
        have := os2ip_i2osp (r / 2 ^ 64) _ (lt_pow_byteLen _)
        rw [hi] at this
        simp only [rabinBlock]
        rw [this, hc']
        exact (Nat.div_add_mod' r (2 ^ 64)).symm
      · simp at h
    · simp at h

end Relic.Lemmas.PadC06
