/-
C14 (extension): the streaming model of Model/ShaStream.lean (one model for sha224-256.c and sha384-512.c)
equals the generic Merkle–Damgård definition for every chunking, and Spec/Sha256.lean / Spec/Sha512.lean
(FIPS 180-4 SHA-224/256/384/512) are instances of that definition.
-/
import RelicVerif.Model.ShaStream

namespace Relic.Lemmas.ShaStream
open Relic.Spec Relic.Model Relic.Model.ShaStream
open Relic.Spec.Sha256 (beBytes)

variable {W : Type}

theorem blocks_nil (bs f : Nat) : MD.blocks bs f [] = [] := by
  cases f <;> simp [MD.blocks]

theorem blocks_fuel (bs : Nat) (_hbs : 0 < bs) (f g : Nat) (l : List UInt8) (hf : l.length ≤ bs * f)
    (hg : l.length ≤ bs * g) : MD.blocks bs f l = MD.blocks bs g l := by
  induction f generalizing g l with
  | zero =>
    have : l = [] := List.eq_nil_of_length_eq_zero (by omega)
    subst this; simp [blocks_nil]
  | succ f ih =>
    cases g with
    | zero =>
      have : l = [] := List.eq_nil_of_length_eq_zero (by omega)
      subst this; simp [blocks_nil]
    | succ g =>
      simp only [MD.blocks]
      split
      · rfl
      · rw [Nat.mul_succ] at hf hg
        rw [ih g (l.drop bs) (by simp; omega) (by simp; omega)]

/-- fold of the compression function over the bs-byte blocks of `l` -/
def foldB (bs : Nat) (cf : List W → List UInt8 → List W) (h : List W) (l : List UInt8) : List W :=
  (MD.blocks bs (l.length / bs + 1) l).foldl cf h

theorem foldB_nil (bs : Nat) (cf : List W → List UInt8 → List W) (h : List W) : foldB bs cf h [] = h := by
  simp [foldB, MD.blocks]

theorem le_mul_div_succ (n bs : Nat) (hbs : 0 < bs) : n ≤ bs * (n / bs + 1) := by
  have := Nat.div_add_mod n bs
  have := Nat.mod_lt n hbs
  rw [Nat.mul_succ]; omega

theorem foldB_cons (bs : Nat) (hbs : 0 < bs) (cf : List W → List UInt8 → List W) (h : List W)
    (a b : List UInt8) (ha : a.length = bs) :
    foldB bs cf h (a ++ b) = foldB bs cf (cf h a) b := by
  unfold foldB
  have hne : (a ++ b).isEmpty = false := by
    cases a with
    | nil => simp at ha; omega
    | cons x t => simp
  have h1 : (a ++ b).take bs = a := by simp [← ha]
  have h2 : (a ++ b).drop bs = b := by simp [← ha]
  have hb : MD.blocks bs ((a ++ b).length / bs + 1) (a ++ b)
      = a :: MD.blocks bs ((a ++ b).length / bs) b := by
    rw [MD.blocks, hne, h1, h2]; simp
  have hdiv : (a ++ b).length / bs = b.length / bs + 1 := by
    rw [List.length_append, ha, Nat.add_comm, Nat.add_div_right _ hbs]
  rw [hb, List.foldl_cons, hdiv]

theorem foldB_append (bs : Nat) (hbs : 0 < bs) (cf : List W → List UInt8 → List W) (n : Nat) (h : List W)
    (a b : List UInt8) (ha : a.length = bs * n) :
    foldB bs cf h (a ++ b) = foldB bs cf (foldB bs cf h a) b := by
  induction n generalizing h a with
  | zero =>
    have : a = [] := List.eq_nil_of_length_eq_zero (by simpa using ha)
    subst this; simp [foldB_nil]
  | succ n ih =>
    rw [Nat.mul_succ] at ha
    have hsplit : a = a.take bs ++ a.drop bs := (List.take_append_drop bs a).symm
    have ht : (a.take bs).length = bs := by simp; omega
    rw [hsplit, List.append_assoc, foldB_cons bs hbs _ _ _ _ ht, ih _ _ (by simp; omega),
      foldB_cons bs hbs _ _ _ _ ht]

theorem foldB_single (bs : Nat) (hbs : 0 < bs) (cf : List W → List UInt8 → List W) (h : List W)
    (a : List UInt8) (ha : a.length = bs) : foldB bs cf h a = cf h a := by
  have := foldB_cons bs hbs cf h a [] ha
  rwa [List.append_nil, foldB_nil] at this

/-- feeding `n` bytes never trips the AddLength test and never wraps the counter -/
def Safe (P : Params W) (n : Nat) : Prop :=
  ∀ L, L ≤ 8 * n → L < 2 ^ (8 * P.lenBytes) ∧ (8 ≤ L → P.corruptAfterAdd L = false)

theorem Safe.mono {P : Params W} {n m : Nat} (h : Safe P n) (hm : m ≤ n) : Safe P m :=
  fun L hL => h L (by omega)

/-- invariant of the streaming context after the bytes `msg` have been fed -/
structure Inv (P : Params W) (c : Ctx W) (msg : List UInt8) : Prop where
  corr : c.corrupted = false
  comp : c.computed = false
  len : c.lenBits = 8 * msg.length
  blk : c.block.length < P.blockSize
  split : ∃ pre : List UInt8, ∃ k, pre.length = P.blockSize * k ∧ msg = pre ++ c.block ∧
    c.h = foldB P.blockSize P.compress P.h0 pre

theorem inv_reset (P : Params W) (hbs : 0 < P.blockSize) : Inv P (reset P) [] :=
  ⟨rfl, rfl, rfl, by simpa [reset] using hbs, [], 0, rfl, rfl, by simp [reset, foldB_nil]⟩

theorem inv_inputByte (P : Params W) (hbs : 0 < P.blockSize) (c : Ctx W) (msg : List UInt8) (b : UInt8)
    (hi : Inv P c msg) (hlen : Safe P (msg.length + 1)) :
    Inv P (inputByte P c b) (msg ++ [b]) := by
  obtain ⟨hcorr, hcomp, hl, hblk, pre, k, hpre, hmsg, hh⟩ := hi
  unfold inputByte
  simp only [hcorr, Bool.false_eq_true, if_false]
  obtain ⟨hlt, hnc⟩ := hlen (c.lenBits + 8) (by omega)
  have hmod : (c.lenBits + 8) % 2 ^ (8 * P.lenBytes) = c.lenBits + 8 := Nat.mod_eq_of_lt hlt
  simp only [hmod, hnc (by omega), Bool.false_eq_true, if_false]
  split
  · rename_i hfull
    simp only [List.length_append, List.length_cons, List.length_nil] at hfull
    refine ⟨rfl, hcomp, by simp [processBlock, hl]; omega, by simpa [processBlock] using hbs,
      pre ++ (c.block ++ [b]), k + 1,
      by rw [List.length_append, List.length_append, hpre, Nat.mul_succ]; simp; omega,
      by simp [processBlock, hmsg], ?_⟩
    simp only [processBlock]
    rw [foldB_append _ hbs _ k _ _ _ hpre, foldB_single _ hbs _ _ _ (by simp; omega), hh]
  · rename_i hfull
    simp only [List.length_append, List.length_cons, List.length_nil] at hfull
    exact ⟨rfl, hcomp, by simp [hl]; omega, by simp; omega, pre, k, hpre, by simp [hmsg], hh⟩

theorem inv_foldl (P : Params W) (hbs : 0 < P.blockSize) (l : List UInt8) (c : Ctx W) (msg : List UInt8)
    (hi : Inv P c msg) (hlen : Safe P (msg.length + l.length)) :
    Inv P (l.foldl (inputByte P) c) (msg ++ l) := by
  induction l generalizing c msg with
  | nil => simpa using hi
  | cons b t ih =>
    simp only [List.foldl_cons]
    have := ih _ _ (inv_inputByte P hbs c msg b hi (hlen.mono (by simp)))
      (hlen.mono (by simp; omega))
    simpa using this

theorem inv_input (P : Params W) (hbs : 0 < P.blockSize) (l : List UInt8) (c : Ctx W) (msg : List UInt8)
    (hi : Inv P c msg) (hlen : Safe P (msg.length + l.length)) :
    Inv P (input P c l) (msg ++ l) := by
  unfold input
  split
  · rename_i he
    have : l = [] := by simpa using he
    subst this; simpa using hi
  · simp only [hi.comp, hi.corr, Bool.false_eq_true, if_false]
    exact inv_foldl P hbs l c msg hi hlen

theorem inv_chunks (P : Params W) (hbs : 0 < P.blockSize) (cs : List (List UInt8)) (c : Ctx W)
    (msg : List UInt8) (hi : Inv P c msg)
    (hlen : Safe P (msg.length + cs.flatten.length)) :
    Inv P (cs.foldl (input P) c) (msg ++ cs.flatten) := by
  induction cs generalizing c msg with
  | nil => simpa using hi
  | cons l t ih =>
    simp only [List.foldl_cons, List.flatten_cons]
    simp only [List.flatten_cons, List.length_append] at hlen
    have := ih _ _ (inv_input P hbs l c msg hi (hlen.mono (by omega)))
      (hlen.mono (by rw [List.length_append]; omega))
    simpa using this

theorem beBytes_length (n k : Nat) : (beBytes n k).length = k := by simp [beBytes]

/-- a % bs for a in [bs·k, bs·(k+1)) -/
theorem mod_of_range (a bs k : Nat) (h1 : bs * k ≤ a) (h2 : a < bs * k + bs) : a % bs = a - bs * k := by
  have hbs : 0 < bs := by omega
  have e : a = (a - bs * k) + bs * k := by omega
  conv => lhs; rw [e]
  rw [Nat.add_mul_mod_self_left]
  exact Nat.mod_eq_of_lt (by omega)

/-- the number of zero bytes of the padding, in the two cases of SHA*_PadMessage -/
theorem pad_zeros (bs lb len n : Nat) (hlb : lb + 1 ≤ bs) (hn : len % bs = n) :
    (bs - (len + lb + 1) % bs) % bs =
      if n ≥ bs - lb then (bs - (n + 1)) + (bs - lb) else bs - lb - (n + 1) := by
  have hbs : 0 < bs := by omega
  have hnlt : n < bs := by rw [← hn]; exact Nat.mod_lt _ hbs
  have e : (len + lb + 1) % bs = (n + lb + 1) % bs := by
    rw [Nat.add_assoc len, Nat.add_mod len, hn, Nat.add_assoc n, Nat.add_mod n (lb + 1),
      Nat.mod_eq_of_lt hnlt]
  rw [e]
  split
  · rename_i hge
    rw [mod_of_range (n + lb + 1) bs 1 (by omega) (by omega), Nat.mul_one]
    have hlt : bs - (n + lb + 1 - bs) < bs := by omega
    rw [Nat.mod_eq_of_lt hlt]; omega
  · rename_i hlt
    by_cases heq : n + lb + 1 = bs
    · rw [heq, Nat.mod_self, Nat.sub_zero, Nat.mod_self]; omega
    · rw [Nat.mod_eq_of_lt (by omega : n + lb + 1 < bs)]
      have hlt' : bs - (n + lb + 1) < bs := by omega
      rw [Nat.mod_eq_of_lt hlt']; omega

theorem padMessage_h (P : Params W) (hlb : P.lenBytes + 1 ≤ P.blockSize) (c : Ctx W) (len : Nat)
    (hb : c.block.length < P.blockSize) (hl : len % P.blockSize = c.block.length)
    (hbits : c.lenBits = 8 * len) (hlen : 8 * len < 2 ^ (8 * P.lenBytes)) :
    (padMessage P c).h = foldB P.blockSize P.compress c.h (c.block ++ MD.pad P.blockSize P.lenBytes len) := by
  have hbs : 0 < P.blockSize := by omega
  have hmod : 8 * len % 2 ^ (8 * P.lenBytes) = 8 * len := Nat.mod_eq_of_lt hlen
  unfold padMessage MD.pad
  rw [hmod, hbits, pad_zeros P.blockSize P.lenBytes len _ hlb hl]
  by_cases hcase : c.block.length ≥ P.blockSize - P.lenBytes
  · simp only [hcase, if_true, processBlock]
    rw [← List.replicate_append_replicate]
    have e : c.block ++ ([128] ++ (List.replicate (P.blockSize - (c.block.length + 1)) (0 : UInt8)
          ++ List.replicate (P.blockSize - P.lenBytes) 0) ++ beBytes (8 * len) P.lenBytes)
        = (c.block ++ [128] ++ List.replicate (P.blockSize - (c.block ++ [128]).length) 0)
          ++ ([] ++ List.replicate (P.blockSize - P.lenBytes - ([] : List UInt8).length) 0
            ++ beBytes (8 * len) P.lenBytes) := by
      simp [-List.replicate_append_replicate]
    rw [e, foldB_cons _ hbs _ _ _ _ (by simp; omega),
      foldB_single _ hbs _ _ _ (by simp [beBytes_length]; omega)]
  · simp only [hcase, if_false, processBlock]
    have e : c.block ++ ([128] ++ List.replicate (P.blockSize - P.lenBytes - (c.block.length + 1)) (0 : UInt8)
          ++ beBytes (8 * len) P.lenBytes)
        = c.block ++ [128] ++ List.replicate (P.blockSize - P.lenBytes - (c.block ++ [128]).length) 0
          ++ beBytes (8 * len) P.lenBytes := by
      simp
    rw [e, foldB_single _ hbs _ _ _ (by simp [beBytes_length]; omega)]

theorem result_eq (P : Params W) (hlb : P.lenBytes + 1 ≤ P.blockSize) (c : Ctx W) (msg : List UInt8)
    (hi : Inv P c msg) (hlen : 8 * msg.length < 2 ^ (8 * P.lenBytes)) :
    result P c = some ((P.digest (MD.hash P.blockSize P.lenBytes P.compress P.h0 msg)).take P.hashSize) := by
  have hbs : 0 < P.blockSize := by omega
  obtain ⟨hcorr, hcomp, hl, hblk, pre, k, hpre, hmsg, hh⟩ := hi
  unfold result
  simp only [hcorr, hcomp, Bool.false_eq_true, if_false]
  have hmodlen : msg.length % P.blockSize = c.block.length := by
    rw [hmsg, List.length_append, hpre, Nat.mul_add_mod]
    exact Nat.mod_eq_of_lt hblk
  rw [padMessage_h P hlb c msg.length hblk hmodlen hl hlen]
  have : MD.hash P.blockSize P.lenBytes P.compress P.h0 msg
      = foldB P.blockSize P.compress P.h0 (msg ++ MD.pad P.blockSize P.lenBytes msg.length) := rfl
  rw [this, hh]
  conv => rhs; rw [hmsg, List.append_assoc, foldB_append _ hbs _ k _ _ _ hpre]
  rw [← hmsg]

/-- Reset / Input* / Result of the RFC 6234 code = Merkle–Damgård over the concatenation, for every
    chunking (empty chunks included), every length below the capacity of the length counter -/
theorem run_eq (P : Params W) (hlb : P.lenBytes + 1 ≤ P.blockSize) (chunks : List (List UInt8))
    (hlen : Safe P chunks.flatten.length) :
    run P chunks =
      some ((P.digest (MD.hash P.blockSize P.lenBytes P.compress P.h0 chunks.flatten)).take P.hashSize) := by
  have hbs : 0 < P.blockSize := by omega
  have := inv_chunks P hbs chunks (reset P) [] (inv_reset P hbs) (by simpa using hlen)
  rw [List.nil_append] at this
  exact result_eq P hlb _ _ this (hlen _ (Nat.le_refl _)).1

/-! ## the FIPS 180-4 definitions of Spec/Sha256.lean and Spec/Sha512.lean are instances -/

theorem blocks256 (f : Nat) (l : List UInt8) : Sha256.blocks f l = MD.blocks 64 f l := by
  induction f generalizing l with
  | zero => rfl
  | succ f ih => simp only [Sha256.blocks, MD.blocks, ih]

theorem blocks512 (f : Nat) (l : List UInt8) : Sha512.blocks f l = MD.blocks 128 f l := by
  induction f generalizing l with
  | zero => rfl
  | succ f ih => simp only [Sha512.blocks, MD.blocks, ih]

theorem pad256 (len : Nat) : Sha256.pad len = MD.pad 64 8 len := rfl
theorem pad512 (len : Nat) : Sha512.pad len = MD.pad 128 16 len := rfl

theorem compress256_length (h : List UInt32) (b : List UInt8) : (Sha256.compress h b).length = 8 := by
  simp [Sha256.compress]
theorem compress512_length (h : List UInt64) (b : List UInt8) : (Sha512.compress h b).length = 8 := by
  simp [Sha512.compress]

theorem foldl_length8 {W : Type} (cf : List W → List UInt8 → List W) (hcf : ∀ h b, (cf h b).length = 8)
    (l : List (List UInt8)) (h : List W) (hh : h.length = 8) : (l.foldl cf h).length = 8 := by
  induction l generalizing h with
  | nil => simpa using hh
  | cons b t ih => exact ih _ (hcf h b)

theorem digest256_length (h : List UInt32) : (Sha256.digestBytes h).length = 4 * h.length := by
  unfold Sha256.digestBytes
  induction h with
  | nil => rfl
  | cons w t ih => simp [List.flatMap_cons, ih, Sha256.wordBytes]; omega

theorem digest512_length (h : List UInt64) : (Sha512.digestBytes h).length = 8 * h.length := by
  unfold Sha512.digestBytes
  induction h with
  | nil => rfl
  | cons w t ih => simp [List.flatMap_cons, ih, Sha512.wordBytes]; omega

theorem sha256_eq (msg : List UInt8) :
    Sha256.sha256 msg = (Sha256.digestBytes (MD.hash 64 8 Sha256.compress Sha256.H0 msg)).take 32 := by
  have e : Sha256.sha256 msg = Sha256.digestBytes (MD.hash 64 8 Sha256.compress Sha256.H0 msg) := by
    simp only [Sha256.sha256, MD.hash, blocks256, pad256]
  rw [e, List.take_of_length_le]
  rw [digest256_length, MD.hash, foldl_length8 _ compress256_length _ _ rfl]
  exact Nat.le_refl _

theorem sha224_eq (msg : List UInt8) :
    Sha256.sha224 msg = (Sha256.digestBytes (MD.hash 64 8 Sha256.compress Sha256.H0_224 msg)).take 28 := by
  simp only [Sha256.sha224, MD.hash, blocks256, pad256]

theorem sha384_eq (msg : List UInt8) :
    Sha512.sha384 msg = (Sha512.digestBytes (MD.hash 128 16 Sha512.compress Sha512.H0_384 msg)).take 48 := by
  simp only [Sha512.sha384, Sha512.hashWith, MD.hash, blocks512, pad512]

theorem sha512_eq (msg : List UInt8) :
    Sha512.sha512 msg = (Sha512.digestBytes (MD.hash 128 16 Sha512.compress Sha512.H0_512 msg)).take 64 := by
  have e : Sha512.sha512 msg = Sha512.digestBytes (MD.hash 128 16 Sha512.compress Sha512.H0_512 msg) := by
    simp only [Sha512.sha512, Sha512.hashWith, MD.hash, blocks512, pad512]
  rw [e, List.take_of_length_le]
  rw [digest512_length, MD.hash, foldl_length8 _ compress512_length _ _ rfl]
  exact Nat.le_refl _

theorem sha224_length (b : List UInt8) : (Sha256.sha224 b).length = 28 := by
  rw [sha224_eq, List.length_take, digest256_length, MD.hash, foldl_length8 _ compress256_length _ _ rfl]
  rfl

theorem sha384_length (b : List UInt8) : (Sha512.sha384 b).length = 48 := by
  rw [sha384_eq, List.length_take, digest512_length, MD.hash, foldl_length8 _ compress512_length _ _ rfl]
  rfl

theorem sha512_length (b : List UInt8) : (Sha512.sha512 b).length = 64 := by
  rw [sha512_eq, List.length_take, digest512_length, MD.hash, foldl_length8 _ compress512_length _ _ rfl]
  rfl

/-- the 64-bit counter of sha224-256.c: safe below 2^64 bits -/
theorem safe64 (P : Params UInt32) (hl : P.lenBytes = 8) (hc : P.corruptAfterAdd = corrupt64) (n : Nat)
    (h : 8 * n < 2 ^ 64) : Safe P n := by
  intro L hL
  rw [hl, hc]
  refine ⟨by omega, fun h8 => ?_⟩
  simp [corrupt64]; omega

/-- the counter test of sha384-512.c (four 32-bit words) is true exactly when the 128-bit value is below 8, i.e. exactly after a
    wrap of the counter (it moves in steps of 8 from 0) -/
theorem corrupt128w_iff (l : Nat) (hl : l < 2 ^ 128) : corrupt128w l = true ↔ l < 8 := by
  unfold corrupt128w
  simp only [Bool.and_eq_true, decide_eq_true_eq, beq_iff_eq]
  constructor
  · rintro ⟨⟨⟨h0, h1⟩, h2⟩, h3⟩; omega
  · intro h; refine ⟨⟨⟨?_, ?_⟩, ?_⟩, ?_⟩ <;> omega

/-- the 128-bit counter of sha384-512.c: safe below 2^128 bits -/
theorem safe128w (P : Params UInt64) (hl : P.lenBytes = 16) (hc : P.corruptAfterAdd = corrupt128w) (n : Nat)
    (h : 8 * n < 2 ^ 128) : Safe P n := by
  intro L hL
  rw [hl, hc]
  refine ⟨by omega, fun h8 => ?_⟩
  have hlt : L < 2 ^ 128 := by omega
  cases hcase : corrupt128w L with
  | false => rfl
  | true => exact absurd ((corrupt128w_iff L hlt).mp hcase) (by omega)

/-- SHA-224 streaming (sha224-256.c) = FIPS 180-4 -/
theorem sha224_streaming (chunks : List (List UInt8)) (hlen : 8 * chunks.flatten.length < 2 ^ 64) :
    run sha224P chunks = some (Sha256.sha224 chunks.flatten) := by
  rw [sha224_eq]; exact run_eq sha224P (by decide) chunks (safe64 _ rfl rfl _ hlen)

theorem sha256_streaming' (chunks : List (List UInt8)) (hlen : 8 * chunks.flatten.length < 2 ^ 64) :
    run sha256P chunks = some (Sha256.sha256 chunks.flatten) := by
  rw [sha256_eq]; exact run_eq sha256P (by decide) chunks (safe64 _ rfl rfl _ hlen)

/-- SHA-384 streaming (sha384-512.c) = FIPS 180-4 -/
theorem sha384_streaming (chunks : List (List UInt8)) (hlen : 8 * chunks.flatten.length < 2 ^ 128) :
    run sha384P chunks = some (Sha512.sha384 chunks.flatten) := by
  rw [sha384_eq]; exact run_eq sha384P (by decide) chunks (safe128w _ rfl rfl _ hlen)

/-- SHA-512 streaming (sha384-512.c) = FIPS 180-4 -/
theorem sha512_streaming (chunks : List (List UInt8)) (hlen : 8 * chunks.flatten.length < 2 ^ 128) :
    run sha512P chunks = some (Sha512.sha512 chunks.flatten) := by
  rw [sha512_eq]; exact run_eq sha512P (by decide) chunks (safe128w _ rfl rfl _ hlen)

end Relic.Lemmas.ShaStream
