/-
The digit at position l of the width-w NAF of a number below 2^l is 0 or 1 (the test `naf[bn_bits(n)] == 1` of eb_mul_halve
is exhaustive).
-/
import Mathlib.Tactic.Ring
import Mathlib.Tactic.Linarith
import RelicVerif.Lemmas.Rec

namespace Relic.Lemmas.NafTop
open Relic.Model

/-- a digit string with all digits bounded by B in absolute value is bounded by B * (2^length - 1) -/
theorem eval_bound (B : Int) : ∀ (xs : List Int), (∀ x ∈ xs, -B ≤ x ∧ x ≤ B) →
    -(B * (2 ^ xs.length - 1)) ≤ Rec.eval 1 xs ∧ Rec.eval 1 xs ≤ B * (2 ^ xs.length - 1) := by
  intro xs
  induction xs with
  | nil => intro _; simp
  | cons d xs ih =>
    intro h
    obtain ⟨h1, h2⟩ := ih (fun x hx => h x (List.mem_cons_of_mem _ hx))
    obtain ⟨hd1, hd2⟩ := h d (List.mem_cons_self ..)
    have hp : (2 : Int) ^ (xs.length + 1) = 2 * 2 ^ xs.length := by ring
    simp only [Rec.eval_cons, List.length_cons, hp, pow_one]
    constructor <;> linarith

/-- trailing zero digits do not change the value -/
theorem eval_zeros (s : Nat) : ∀ (zs : List Int), (∀ z ∈ zs, z = 0) → Rec.eval s zs = 0 := by
  intro zs
  induction zs with
  | nil => intro _; simp
  | cons z zs ih =>
    intro h
    have hz : z = 0 := h z (List.mem_cons_self ..)
    have := ih (fun x hx => h x (List.mem_cons_of_mem _ hx))
    simp [Rec.eval_cons, hz, this]

theorem bitLen_le_of_lt {k l : Nat} (h : k < 2 ^ l) : Rec.bitLen k ≤ l := by
  rcases Nat.eq_zero_or_pos k with hk | hk
  · subst hk; simp [Rec.bitLen]
  · have h1 := (Rec.bitLen_spec k hk).1
    have h2 : 2 ^ (Rec.bitLen k - 1) < 2 ^ l := Nat.lt_of_le_of_lt h1 h
    have h3 : Rec.bitLen k - 1 < l := (Nat.pow_lt_pow_iff_right (by decide)).1 h2
    omega

/-- the core: a sparse digit string `lo ++ [d]` whose value is a natural number below 2^(length lo) has top digit 0 or 1 -/
theorem top_aux (w : Nat) (hw : 2 ≤ w) (lo : List Int) (d : Int) (kk : Nat)
    (hv : Rec.eval 1 (lo ++ [d]) = kk)
    (hd : ∀ x ∈ lo, x.natAbs < 2 ^ (w - 1))
    (hs : ∀ i, (((lo ++ [d]).drop i).take w).countP (· ≠ 0) ≤ 1)
    (hlt : kk < 2 ^ lo.length) : d = 0 ∨ d = 1 := by
  by_cases hd0 : d = 0
  · exact Or.inl hd0
  right
  -- the window ending at the top digit
  let i := lo.length + 1 - w
  have hi : i ≤ lo.length := by omega
  have hwin : ((lo ++ [d]).drop i).take w = lo.drop i ++ [d] := by
    rw [List.drop_append_of_le_length hi]
    apply List.take_of_length_le
    simp only [List.length_append, List.length_drop, List.length_cons, List.length_nil]
    omega
  have hc := hs i
  rw [hwin, List.countP_append] at hc
  have hc1 : List.countP (· ≠ 0) [d] = 1 := by simp [hd0]
  have hc0 : List.countP (· ≠ 0) (lo.drop i) = 0 := by omega
  have hz : ∀ z ∈ lo.drop i, z = 0 := by
    intro z hzm
    have := (List.countP_eq_zero.1 hc0) z hzm
    simpa using this
  -- value of lo is the value of its first i digits
  have hlo : Rec.eval 1 lo = Rec.eval 1 (lo.take i) := by
    conv_lhs => rw [← List.take_append_drop i lo]
    rw [Rec.eval_append, eval_zeros 1 _ hz]
    ring
  -- digit bound
  have hB : ∀ x ∈ lo.take i, -((2 : Int) ^ (w - 1) - 1) ≤ x ∧ x ≤ (2 : Int) ^ (w - 1) - 1 := by
    intro x hx
    have h1 := hd x (List.mem_of_mem_take hx)
    have h2 : ((x.natAbs : Nat) : Int) < (2 : Int) ^ (w - 1) := by exact_mod_cast h1
    omega
  obtain ⟨hb1, hb2⟩ := eval_bound ((2 : Int) ^ (w - 1) - 1) (lo.take i) hB
  have hlen : (lo.take i).length = i := by
    rw [List.length_take]; omega
  rw [hlen, ← hlo] at hb1 hb2
  -- B * (2^i - 1) < 2^l
  have hP : (0 : Int) < 2 ^ lo.length := by positivity
  have hbound : ((2 : Int) ^ (w - 1) - 1) * (2 ^ i - 1) < 2 ^ lo.length := by
    by_cases hwl : w ≤ lo.length + 1
    · have hsplit : lo.length = (w - 1) + i := by omega
      have hpw : (2 : Int) ^ lo.length = 2 ^ (w - 1) * 2 ^ i := by
        rw [← pow_add, ← hsplit]
      have hA : (1 : Int) ≤ 2 ^ (w - 1) := one_le_pow₀ (by norm_num)
      have hI : (1 : Int) ≤ 2 ^ i := one_le_pow₀ (by norm_num)
      rw [hpw]
      nlinarith
    · have hi0 : i = 0 := by omega
      rw [hi0]
      simp
  -- assemble
  rw [Rec.eval_append] at hv
  simp only [Rec.eval_cons, Rec.eval_nil, Nat.one_mul, mul_zero, add_zero] at hv
  have hk : ((kk : Nat) : Int) < 2 ^ lo.length := by exact_mod_cast hlt
  have hk0 : (0 : Int) ≤ (kk : Int) := Int.natCast_nonneg kk
  have hdlo : -1 < d := by
    by_contra hcon
    have : d ≤ -1 := by omega
    nlinarith
  have hdhi : d < 2 := by
    by_contra hcon
    have : 2 ≤ d := by omega
    nlinarith
  omega

theorem recNaf_top (cap kk w l : Nat) (hw : 2 ≤ w) (ds : List Int) (h : Rec.recNaf cap kk w = some ds) (hlt : kk < 2 ^ l) :
    ds.getD l 0 = 0 ∨ ds.getD l 0 = 1 := by
  obtain ⟨hv, hdig, hs, hlen, _⟩ := Rec.recNaf_spec cap kk w hw ds h
  by_cases hl : ds.length ≤ l
  · left
    simp [List.getD_eq_getElem?_getD, List.getElem?_eq_none hl]
  have hbl := bitLen_le_of_lt hlt
  have hlen' : ds.length = l + 1 := by omega
  have hl' : l < ds.length := by omega
  have hsplit : ds = ds.take l ++ [ds[l]] := by
    conv_lhs => rw [← List.take_append_drop l ds]
    rw [List.drop_eq_getElem_cons hl', List.drop_of_length_le (by omega)]
  have hget : ds.getD l 0 = ds[l] := by
    simp [List.getD_eq_getElem?_getD, List.getElem?_eq_getElem hl']
  rw [hget]
  have hlol : (ds.take l).length = l := by
    rw [List.length_take]; omega
  apply top_aux w hw (ds.take l) ds[l] kk
  · rw [← hsplit]; exact hv
  · intro x hx
    rcases hdig x (List.mem_of_mem_take hx) with h0 | ⟨_, h1⟩
    · subst h0
      simp
    · exact h1
  · intro i
    rw [← hsplit]; exact hs i
  · rw [hlol]; exact hlt

end Relic.Lemmas.NafTop
