/-
The Edwards scalar multiplications of Model/EdMul.lean over an arbitrary additive commutative group G.
For a base point killed by the group order r (the prime-order subgroup) and r < 2^RLC_FP_BITS, every routine is TOTAL
(the recoding of the reduced scalar always fits the fixed-size array: no ERR_NO_BUFFER) and returns k • P
(resp. k • P + m • Q) for EVERY integer k — the routines reduce the scalar modulo r first, like the ep_* originals.
ed_mul_basic and ed_mul_monty do not reduce and are right for every k on every point.
-/
import Mathlib.Algebra.BigOperators.Ring.Finset
import RelicVerif.Lemmas.MulAlg
import RelicVerif.Model.EdMul

namespace Relic.Model.EdMul
open Relic.Model Relic.Model.MulAlg

variable {G : Type} [AddCommGroup G]

/-- the identity test of the carrier recognises only the identity -/
def IsOSound (isO : G → Bool) : Prop := ∀ x, isO x = true → x = 0

/-- the constants describe a group order that fits the field size -/
structure Par.Ok (par : Par) : Prop where
  ord_pos : 0 < par.ord
  ord_fits : par.ord < 2 ^ par.fpBits

theorem signed_spec (k : ℤ) (x : G) : signed gops k x = (if k < 0 then -x else x) := by
  rfl

/-- sign at the end: ±(|k| • P) = k • P -/
theorem signed_natAbs (k : ℤ) (p : G) : signed gops k ((k.natAbs : ℤ) • p) = k • p := by
  rw [signed_spec]
  split
  · rw [← neg_zsmul]; congr 1; omega
  · congr 1; omega

/-- the reduced scalar as an integer -/
theorem red_cast (par : Par) (h0 : 0 < par.ord) (k : ℤ) : ((par.red k : ℕ) : ℤ) = k % (par.ord : ℤ) :=
  Int.toNat_of_nonneg (Int.emod_nonneg _ (by omega))

/-- (k mod r) • P = k • P on points killed by r -/
theorem red_zsmul (par : Par) (h0 : 0 < par.ord) (p : G) (hp : (par.ord : ℤ) • p = 0) (k : ℤ) :
    ((par.red k : ℕ) : ℤ) • p = k • p := by
  rw [red_cast par h0, zsmul_emod p _ hp]

/-- the reduced scalar is below the order -/
theorem red_lt (par : Par) (h0 : 0 < par.ord) (k : ℤ) : par.red k < par.ord := by
  have h1 : k % (par.ord : ℤ) < par.ord := Int.emod_lt_of_pos _ (by omega)
  have h2 := red_cast par h0 k
  omega

/-- a number below 2^b has at most b bits -/
theorem bitLen_le_of_lt (n b : Nat) (h : n < 2 ^ b) : Rec.bitLen n ≤ b := by
  rcases Nat.eq_zero_or_pos n with h0 | h0
  · rw [h0]; simp [Rec.bitLen]
  · obtain ⟨h1, _⟩ := Rec.bitLen_spec n h0
    have h2 : 2 ^ (Rec.bitLen n - 1) < 2 ^ b := by omega
    have := (Nat.pow_lt_pow_iff_right (by decide : 1 < 2)).1 h2
    omega

/-- the reduced scalar fits RLC_FP_BITS bits -/
theorem red_bitLen (par : Par) (hok : par.Ok) (k : ℤ) : Rec.bitLen (par.red k) ≤ par.fpBits := by
  apply bitLen_le_of_lt
  have := red_lt par hok.ord_pos k
  have := hok.ord_fits
  omega

theorem bitsVal_cons (b : Bool) (bs : List Bool) :
    bitsVal (b :: bs) = 2 ^ bs.length * (if b then 1 else 0) + bitsVal bs := by
  rw [show bitsVal (b :: bs) = bs.foldl (fun acc b => 2 * acc + (if b then 1 else 0)) (2 * 0 + (if b then 1 else 0))
    from rfl, bitsVal_foldl]
  simp

theorem bitsVal_msb_aux (n L : Nat) :
    bitsVal ((List.range L).reverse.map fun i => decide ((n >>> i) % 2 = 1)) = ((n % 2 ^ L : ℕ) : ℤ) := by
  induction L with
  | zero => simp [bitsVal, Nat.mod_one]
  | succ L ih =>
    rw [List.range_succ, List.reverse_append, List.reverse_singleton, List.singleton_append, List.map_cons,
      bitsVal_cons, ih, Nat.mod_pow_succ, Nat.shiftRight_eq_div_pow]
    simp only [List.length_map, List.length_reverse, List.length_range]
    rcases Nat.mod_two_eq_zero_or_one (n / 2 ^ L) with h | h
    · simp [h]
    · simp [h]; ring

/-- value of the bits of n, most significant first -/
theorem bitsVal_bitsMsb (n : Nat) : bitsVal (bitsMsb n) = n := by
  unfold bitsMsb
  rw [bitsVal_msb_aux, Nat.mod_eq_of_lt (Rec.lt_two_pow_bitLen n)]

/-- the ladder from (O, P) over all bits -/
theorem ladder_spec (p : G) (bits : List Bool) : ladder gops p bits = (bitsVal bits) • p := by
  unfold ladder
  suffices h : ∀ (v : ℤ) (t : G × G), t = (v • p, (v + 1) • p) →
      (bits.foldl (fun (t : G × G) b =>
        if b then (gops.add t.1 t.2, gops.dbl t.2) else (gops.dbl t.1, gops.add t.1 t.2)) t).1
      = (2 ^ bits.length * v + bitsVal bits) • p by
    have := h 0 (gops.zero, p) (by simp)
    simpa using this
  induction bits with
  | nil => intro v t h; simp [h, bitsVal]
  | cons b bs ih =>
    intro v t h
    simp only [List.foldl_cons, List.length_cons]
    rw [ih (2 * v + (if b then 1 else 0))]
    · congr 1
      rw [bitsVal_cons]
      ring
    · subst h
      cases b
      · simp only [gops_add, gops_dbl, Bool.false_eq_true, if_false, ← mul_zsmul, ← add_zsmul]
        congr 2 <;> ring
      · simp only [gops_add, gops_dbl, if_true, ← mul_zsmul, ← add_zsmul]
        congr 2 <;> ring

/-! ### variable base -/

/-- the early exits return the right value -/
theorem exit_zero (isO : G → Bool) (hO : IsOSound isO) (p : G) (k : ℤ) (h : k = 0 ∨ isO p = true) :
    k • p = 0 := by
  rcases h with rfl | h
  · simp
  · rw [hO p h, zsmul_zero]

theorem two_pow_pred (w : Nat) (hw : 2 ≤ w) : 2 ^ (w - 1) = 2 * 2 ^ (w - 2) := by
  rw [show w - 1 = (w - 2) + 1 by omega, Nat.pow_succ, Nat.mul_comm]

/-- width-w NAF of |k| with the table of odd multiples, sign at the end -/
theorem signedNaf_correct (p : G) (k : ℤ) (w cap : Nat) (hw : 2 ≤ w) (ds : List Int)
    (h : Rec.recNaf cap k.natAbs w = some ds) :
    signed gops k (mulSigned gops (tabOdd gops p (2 ^ (w - 2))) gops.zero ds) = k • p := by
  obtain ⟨hv, hd, _⟩ := Rec.recNaf_spec cap _ w hw ds h
  obtain ⟨hlen, htab⟩ := tabOdd_spec p (2 ^ (w - 2))
  rw [gops_zero, mulSigned_spec p _ (by rw [hlen]; exact htab) ds, hv, signed_natAbs]
  intro d hdm
  rw [hlen, ← two_pow_pred w hw]
  exact hd d hdm

/-- ed_mul_basic: every k, every point, never rejects -/
theorem mulBasic_correct (isO : G → Bool) (hO : IsOSound isO) (p : G) (k : ℤ) :
    mulBasic gops isO p k = some (k • p) := by
  unfold mulBasic
  split
  · rename_i hex
    rw [exit_zero isO hO p k hex]; rfl
  · obtain ⟨ds, hds⟩ : ∃ ds, Rec.recNaf (Rec.bitLen k.natAbs + 1) k.natAbs 2 = some ds := by
      simp [Rec.recNaf]
    rw [hds, Option.map_some]
    congr 1
    have := signedNaf_correct p k 2 _ (le_refl _) ds hds
    simpa [tabOdd] using this

/-- ed_mul_monty: every k, every point -/
theorem mulMonty_correct (isO : G → Bool) (hO : IsOSound isO) (p : G) (k : ℤ) :
    mulMonty gops isO p k = some (k • p) := by
  unfold mulMonty
  split
  · rename_i hex
    rw [exit_zero isO hO p k hex]; rfl
  · rw [ladder_spec, bitsVal_bitsMsb, signed_natAbs]

/-- the width-w NAF of the reduced scalar fits naf[RLC_FP_BITS + 1] -/
theorem recNaf_red_some (par : Par) (hok : par.Ok) (k : ℤ) (w : Nat) :
    ∃ ds, Rec.recNaf (par.fpBits + 1) (par.red k) w = some ds := by
  unfold Rec.recNaf
  rw [if_neg (by have := red_bitLen par hok k; omega)]
  exact ⟨_, rfl⟩

/-- width-w NAF of k mod r with the table of odd multiples -/
theorem redNaf_correct (par : Par) (h0 : 0 < par.ord) (p : G) (hp : (par.ord : ℤ) • p = 0) (k : ℤ) (w cap : Nat)
    (hw : 2 ≤ w) (ds : List Int) (h : Rec.recNaf cap (par.red k) w = some ds) :
    mulSigned gops (tabOdd gops p (2 ^ (w - 2))) gops.zero ds = k • p := by
  obtain ⟨hv, hd, _⟩ := Rec.recNaf_spec cap _ w hw ds h
  obtain ⟨hlen, htab⟩ := tabOdd_spec p (2 ^ (w - 2))
  rw [gops_zero, mulSigned_spec p _ (by rw [hlen]; exact htab) ds, hv, red_zsmul par h0 p hp]
  intro d hdm
  rw [hlen, ← two_pow_pred w hw]
  exact hd d hdm

theorem mulLwnaf_correct (isO : G → Bool) (hO : IsOSound isO) (par : Par) (hok : par.Ok) (hw : 2 ≤ par.width)
    (p : G) (hp : (par.ord : ℤ) • p = 0) (k : ℤ) : mulLwnaf gops isO par p k = some (k • p) := by
  unfold mulLwnaf
  split
  · rename_i hex
    rw [exit_zero isO hO p k hex]; rfl
  · obtain ⟨ds, hds⟩ := recNaf_red_some par hok k par.width
    rw [hds, Option.map_some]
    congr 1
    exact redNaf_correct par hok.ord_pos p hp k par.width _ hw ds hds

theorem mulSlide_correct (isO : G → Bool) (hO : IsOSound isO) (par : Par) (hok : par.Ok) (hw : 1 ≤ par.width)
    (p : G) (hp : (par.ord : ℤ) • p = 0) (k : ℤ) : mulSlide gops isO par p k = some (k • p) := by
  unfold mulSlide
  split
  · rename_i hex
    rw [exit_zero isO hO p k hex]; rfl
  · obtain ⟨win, hwin⟩ : ∃ win, Rec.recSlw (par.fpBits + 1) (par.red k) par.width = some win := by
      unfold Rec.recSlw
      simp only
      rw [if_neg (by have := red_bitLen par hok k; omega)]
      exact ⟨_, rfl⟩
    rw [hwin, Option.map_some]
    congr 1
    obtain ⟨hv, hd, _⟩ := Rec.recSlw_spec _ _ par.width hw win hwin
    obtain ⟨hlen, htab⟩ := tabOdd_spec p (2 ^ (par.width - 1))
    rw [gops_zero, mulSlide_spec p _ (by rw [hlen]; exact htab) win, hv, red_zsmul par hok.ord_pos p hp]
    intro d hdm
    rcases hd d hdm with h0 | ⟨h1, h2, h3⟩
    · exact Or.inl h0
    · refine Or.inr ⟨h1, h2, ?_⟩
      rw [hlen, ← Nat.pow_succ', show (par.width - 1).succ = par.width by omega]
      zify
      rw [Int.toNat_of_nonneg (by omega)]
      exact_mod_cast h3

theorem mulLwreg_correct (isO : G → Bool) (hO : IsOSound isO) (par : Par) (hok : par.Ok) (hw : 3 ≤ par.width)
    (p : G) (hp : (par.ord : ℤ) • p = 0) (k : ℤ) : mulLwreg gops isO par p k = some (k • p) := by
  unfold mulLwreg
  split
  · rename_i hex
    rw [exit_zero isO hO p k hex]; rfl
  · simp only
    have hlt : k.natAbs % par.ord < par.ord := Nat.mod_lt _ hok.ord_pos
    have hfits := hok.ord_fits
    generalize hkk : k.natAbs % par.ord = kk at hlt
    have hor : kk ||| 1 = kk + (if kk % 2 = 0 then 1 else 0) := by
      have e1 : (kk ||| 1) / 2 = kk / 2 := by rw [Nat.or_div_two]; simp
      have e2 : (kk ||| 1) % 2 = 1 := by rw [Nat.or_mod_two_eq_one]; simp
      split <;> omega
    have hodd : (kk ||| 1) % 2 = 1 := by rw [hor]; split <;> omega
    have hfit : kk ||| 1 < 2 ^ par.fpBits := by rw [hor]; split <;> omega
    obtain ⟨reg, hreg⟩ : ∃ reg, Rec.recReg ((par.fpBits + 1 + (par.width - 1) - 1) / (par.width - 1) + 1)
        (kk ||| 1) par.fpBits par.width = some reg := by
      unfold Rec.recReg
      simp only
      rw [if_neg (by
        have := Nat.div_le_div_right (c := par.width - 1)
          (show par.fpBits + (par.width - 1) - 1 ≤ par.fpBits + 1 + (par.width - 1) - 1 by omega)
        omega)]
      rcases Rec.recRegLoop par.width ((par.fpBits + (par.width - 1) - 1) / (par.width - 1)) (kk ||| 1) []
        with ⟨ds, t⟩
      exact ⟨_, rfl⟩
    rw [hreg, Option.map_some]
    congr 1
    obtain ⟨hv, hd⟩ := recReg_digits _ _ par.fpBits par.width (by omega) hodd hfit reg hreg
    obtain ⟨hlen, htab⟩ := tabOdd_spec p (2 ^ (par.width - 2))
    rw [gops_zero, mulReg_spec p _ (by rw [hlen]; exact htab) par.width reg
      (by intro d hdm; rw [hlen, ← two_pow_pred par.width (by omega)]; exact hd d hdm), hv, hor]
    have hmod : ((kk : ℕ) : ℤ) • p = (k.natAbs : ℤ) • p := by
      rw [← hkk, Int.natCast_mod, zsmul_emod p _ hp]
    rw [← signed_natAbs k p, ← hmod]
    congr 2
    by_cases h2 : kk % 2 = 0 <;> simp [h2]

/-! ### fixed base -/

theorem mulFixBasic_correct (par : Par) (hok : par.Ok) (p : G) (hp : (par.ord : ℤ) • p = 0) (k : ℤ) :
    mulFixBasic gops par p k = some (k • p) := by
  unfold mulFixBasic
  split
  · rename_i hk
    rw [hk, zero_zsmul]; rfl
  · congr 1
    rw [gops_zero, mulFixBasic_spec p _ _ ?_, red_zsmul par hok.ord_pos p hp]
    have := red_lt par hok.ord_pos k
    have := Rec.lt_two_pow_bitLen par.ord
    unfold Par.ordBits
    omega

theorem mulFixLwnaf_correct (par : Par) (hok : par.Ok) (hw : 2 ≤ par.depth) (p : G) (hp : (par.ord : ℤ) • p = 0) (k : ℤ) :
    mulFixLwnaf gops par p k = some (k • p) := by
  unfold mulFixLwnaf
  obtain ⟨ds, hds⟩ := recNaf_red_some par hok k par.depth
  rw [hds, Option.map_some]
  congr 1
  exact redNaf_correct par hok.ord_pos p hp k par.depth _ hw ds hds

/-! ### comb method -/

open Finset in
/-- a left fold of additions over `range d` is the finite sum -/
theorem foldl_range_add {α : Type} [AddCommMonoid α] (f : ℕ → α) (d : ℕ) (a : α) :
    (List.range d).foldl (fun acc j => acc + f j) a = a + ∑ j ∈ range d, f j := by
  induction d with
  | zero => simp
  | succ d ih =>
    rw [List.range_succ, List.foldl_append, ih, sum_range_succ]
    simp only [List.foldl_cons, List.foldl_nil, add_assoc]

/-- adding a multiple of 2^d does not change the bits below d -/
theorem bit_add_mul_pow (x c d j : Nat) (hj : j < d) : ((x + c * 2 ^ d) >>> j) % 2 = (x >>> j) % 2 := by
  rw [Nat.shiftRight_eq_div_pow, Nat.shiftRight_eq_div_pow,
    show c * 2 ^ d = 2 ^ j * (2 * (2 ^ (d - j - 1) * c)) by
      rw [show d = j + ((d - j - 1) + 1) by omega, Nat.pow_add, Nat.pow_succ]
      simp only [Nat.add_sub_cancel_left, Nat.add_sub_cancel]
      ring,
    Nat.add_mul_div_left _ _ (Nat.two_pow_pos j), Nat.add_mul_mod_self_left]

/-- … and puts c at bit d when x < 2^d -/
theorem bit_add_mul_pow_top (x c d : Nat) (hx : x < 2 ^ d) : ((x + c * 2 ^ d) >>> d) = c := by
  rw [Nat.shiftRight_eq_div_pow, Nat.add_mul_div_right _ _ (Nat.two_pow_pos d), Nat.div_eq_of_lt hx, Nat.zero_add]

theorem combCol_succ (k l d i : Nat) :
    combCol k l (d + 1) i = combCol k l d i + ((k >>> (i + d * l)) % 2) * 2 ^ d := by
  unfold combCol
  rw [List.range_succ, List.foldl_append]
  rfl

/-- the comb column is below 2^depth and its bit j is bit i + j·l of k -/
theorem combCol_spec (k l i : Nat) : ∀ d, combCol k l d i < 2 ^ d ∧
    ∀ j, j < d → (combCol k l d i >>> j) % 2 = (k >>> (i + j * l)) % 2 := by
  intro d
  induction d with
  | zero => exact ⟨by simp [combCol], fun j hj => by omega⟩
  | succ d ih =>
    obtain ⟨h1, h2⟩ := ih
    rw [combCol_succ]
    have hb : (k >>> (i + d * l)) % 2 < 2 := Nat.mod_lt _ (by decide)
    refine ⟨?_, ?_⟩
    · rw [Nat.pow_succ]
      have : (k >>> (i + d * l)) % 2 * 2 ^ d ≤ 1 * 2 ^ d := Nat.mul_le_mul_right _ (by omega)
      omega
    · intro j hj
      by_cases hjd : j < d
      · rw [bit_add_mul_pow _ _ _ _ hjd, h2 j hjd]
      · obtain rfl : j = d := by omega
        rw [bit_add_mul_pow_top _ _ _ h1, Nat.mod_mod]

open Finset in
/-- the comb table, entries as finite sums -/
theorem tabCombs_getElem? (p : G) (l : Nat) : ∀ depth,
    (tabCombs gops p l depth).length = 2 ^ depth ∧
    ∀ w, w < 2 ^ depth → (tabCombs gops p l depth)[w]? =
      some ((∑ j ∈ range depth, (((w >>> j) % 2 : ℕ) : ℤ) * 2 ^ (j * l)) • p) := by
  intro depth
  induction depth with
  | zero =>
    refine ⟨by simp [tabCombs], ?_⟩
    intro w hw
    obtain rfl : w = 0 := by simpa using hw
    simp [tabCombs]
  | succ d ih =>
    obtain ⟨hlen, hget⟩ := ih
    refine ⟨by simp [tabCombs, hlen, Nat.pow_succ, Nat.mul_two], ?_⟩
    intro w hw
    simp only [tabCombs]
    rw [sum_range_succ]
    by_cases hwd : w < 2 ^ d
    · rw [List.getElem?_append_left (by omega), hget w hwd, Nat.shiftRight_eq_div_pow, Nat.div_eq_of_lt hwd]
      simp
    · obtain ⟨v, rfl⟩ : ∃ v, w = v + 1 * 2 ^ d := ⟨w - 2 ^ d, by omega⟩
      have hv : v < 2 ^ d := by rw [Nat.pow_succ] at hw; omega
      rw [List.getElem?_append_right (by omega), hlen, List.getElem?_map,
        show v + 1 * 2 ^ d - 2 ^ d = v by omega, hget v hv, Option.map_some, gops_add, dblN_spec, ← add_zsmul,
        bit_add_mul_pow_top _ _ _ hv]
      congr 2
      rw [Nat.mul_comm l d]
      congr 1
      · apply sum_congr rfl
        intro j hj
        rw [bit_add_mul_pow _ _ _ _ (mem_range.1 hj)]
      · simp

/-- the comb table: entry w is Σ_{j : bit j of w} 2^(j·l) • P -/
theorem tabCombs_spec (p : G) (l depth : Nat) :
    (tabCombs gops p l depth).length = 2 ^ depth ∧
    ∀ w, w < 2 ^ depth → (tabCombs gops p l depth).getD w 0 =
      ((List.range depth).foldl (fun (acc : ℤ) j => acc + ((w >>> j) % 2 : ℕ) * 2 ^ (j * l)) 0) • p := by
  obtain ⟨hlen, hget⟩ := tabCombs_getElem? p l depth
  refine ⟨hlen, fun w hw => ?_⟩
  rw [List.getD_eq_getElem?_getD, hget w hw,
    foldl_range_add (fun j => (((w >>> j) % 2 : ℕ) : ℤ) * 2 ^ (j * l)), zero_add]
  rfl

open Finset in
/-- Σ_{i<L} 2^i·bit(M, i) = M mod 2^L -/
theorem sum_bits (M L : Nat) : ∑ i ∈ range L, (2 : ℤ) ^ i * (((M >>> i) % 2 : ℕ) : ℤ) = ((M % 2 ^ L : ℕ) : ℤ) := by
  induction L with
  | zero => simp [Nat.mod_one]
  | succ L ih =>
    rw [sum_range_succ, ih, Nat.mod_pow_succ, Nat.shiftRight_eq_div_pow]
    push_cast
    ring

open Finset in
/-- the comb identity: Σ_{i<l} 2^i · Σ_{j<d} bit(k, i + j·l)·2^(j·l) = k mod 2^(d·l) -/
theorem comb_sum (k l : Nat) : ∀ d,
    ∑ i ∈ range l, (2 : ℤ) ^ i * ∑ j ∈ range d, (((k >>> (i + j * l)) % 2 : ℕ) : ℤ) * 2 ^ (j * l)
      = ((k % 2 ^ (d * l) : ℕ) : ℤ) := by
  intro d
  induction d with
  | zero => simp [Nat.mod_one]
  | succ d ih =>
    simp only [sum_range_succ, mul_add, sum_add_distrib]
    rw [ih, Nat.succ_mul, Nat.pow_add, Nat.mod_mul]
    have : ∀ i ∈ range l, (2 : ℤ) ^ i * ((((k >>> (i + d * l)) % 2 : ℕ) : ℤ) * 2 ^ (d * l))
        = 2 ^ (d * l) * (2 ^ i * ((((k >>> (d * l)) >>> i) % 2 : ℕ) : ℤ)) := by
      intro i _
      rw [Nat.add_comm i, Nat.shiftRight_add]
      ring
    rw [sum_congr rfl this, ← mul_sum, sum_bits, Nat.shiftRight_eq_div_pow]
    push_cast
    ring

open Finset in
/-- the double-and-add loop over the columns, from the top -/
theorem horner_spec (p : G) (T : ℕ → G) (c : ℕ → ℤ) : ∀ (l : Nat) (r0 : G), (∀ i, i < l → T i = c i • p) →
    (List.range l).reverse.foldl (fun r i => gops.add (gops.dbl r) (T i)) r0
      = (2 ^ l : ℤ) • r0 + (∑ i ∈ range l, 2 ^ i * c i) • p := by
  intro l
  induction l with
  | zero => intro r0 _; simp
  | succ l ih =>
    intro r0 hT
    rw [List.range_succ, List.reverse_append, List.reverse_singleton, List.singleton_append, List.foldl_cons,
      ih _ (fun i hi => hT i (by omega)), hT l (by omega), sum_range_succ, gops_add, gops_dbl]
    simp only [zsmul_add, add_zsmul, ← mul_zsmul, pow_succ]
    abel

/-- depth·⌈b/depth⌉ ≥ b -/
theorem le_mul_ceil (b d : Nat) (hd : 0 < d) : b ≤ d * ((b + d - 1) / d) := by
  have h1 := Nat.div_add_mod (b + d - 1) d
  have h2 := Nat.mod_lt (b + d - 1) hd
  omega

theorem mulFixCombs_correct (par : Par) (hok : par.Ok) (hd : 0 < par.depth) (p : G) (hp : (par.ord : ℤ) • p = 0) (k : ℤ) :
    mulFixCombs gops par p k = some (k • p) := by
  have hk : par.red k < 2 ^ (par.depth * ((par.ordBits + par.depth - 1) / par.depth)) := by
    have h1 := red_lt par hok.ord_pos k
    have h2 : par.ord < 2 ^ par.ordBits := Rec.lt_two_pow_bitLen par.ord
    have h3 : 2 ^ par.ordBits ≤ 2 ^ (par.depth * ((par.ordBits + par.depth - 1) / par.depth)) :=
      Nat.pow_le_pow_right (by decide) (le_mul_ceil _ _ hd)
    omega
  unfold mulFixCombs
  simp only
  congr 1
  generalize (par.ordBits + par.depth - 1) / par.depth = l at hk
  obtain ⟨_, hget⟩ := tabCombs_getElem? p l par.depth
  rw [horner_spec p _
    (fun i => ∑ j ∈ Finset.range par.depth, (((par.red k >>> (i + j * l)) % 2 : ℕ) : ℤ) * 2 ^ (j * l)) l _
    (fun i _ => ?_), comb_sum, Nat.mod_eq_of_lt hk, gops_zero, zsmul_zero, zero_add,
    red_zsmul par hok.ord_pos p hp]
  obtain ⟨h1, h2⟩ := combCol_spec (par.red k) l i par.depth
  rw [gops_zero, List.getD_eq_getElem?_getD, hget _ h1, Option.getD_some]
  congr 1
  apply Finset.sum_congr rfl
  intro j hj
  rw [h2 j (Finset.mem_range.1 hj)]

/-! ### simultaneous -/

theorem simBasic_correct (mul : G → ℤ → Option G) (p : G) (k : ℤ) (q : G) (m : ℤ)
    (hp : mul p k = some (k • p)) (hq : mul q m = some (m • q)) :
    simBasic gops mul p k q m = some (k • p + m • q) := by
  unfold simBasic
  rw [hp, hq]
  simp only [gops_add]
  rw [add_comm]

/-- the early exits of the simultaneous multiplications -/
theorem simExits_correct (isO : G → Bool) (hO : IsOSound isO) (mul : G → ℤ → Option G)
    (p : G) (k : ℤ) (q : G) (m : ℤ) (body : Option G)
    (hmp : mul p k = some (k • p)) (hmq : mul q m = some (m • q))
    (hbody : body = some (k • p + m • q)) :
    simExits gops isO mul p k q m body = some (k • p + m • q) := by
  unfold simExits
  split
  · rename_i hex
    rw [hmq, exit_zero isO hO p k hex, zero_add]
  · split
    · rename_i hex
      rw [hmp, exit_zero isO hO q m hex, add_zero]
    · exact hbody

/-- fixed windows of any scalar, zero included (the single window 0) -/
theorem recWin_spec_zero_ok (cap k w : Nat) (hw : 0 < w) (ds : List Int) (h : Rec.recWin cap k w = some ds) :
    Rec.eval w ds = k ∧ ∀ d ∈ ds, 0 ≤ d ∧ d < 2 ^ w := by
  rcases Nat.eq_zero_or_pos k with h0 | h0
  · subst h0
    unfold Rec.recWin at h
    simp only [Rec.bitLen, if_true] at h
    split at h
    · exact absurd h (by simp)
    · simp only [Nat.zero_le, if_true, List.range_zero, List.map_nil, List.nil_append, Option.some.injEq] at h
      subst h
      have hpw : (0 : ℤ) < 2 ^ w := by positivity
      simp [Rec.getBits, hpw]
  · obtain ⟨hv, hd, _⟩ := Rec.recWin_spec cap k w hw h0 ds h
    exact ⟨hv, hd⟩

/-- the windows of the reduced scalar fit ⌈RLC_FP_BITS/w⌉ entries -/
theorem recWin_red_some (par : Par) (hok : par.Ok) (k : ℤ) (w : Nat) (hw : 0 < w) :
    ∃ ds, Rec.recWin ((par.fpBits + w - 1) / w) (par.red k) w = some ds := by
  unfold Rec.recWin
  simp only
  rw [if_neg ?_]
  · exact ⟨_, rfl⟩
  · have h1 := red_bitLen par hok k
    have h2 : 1 ≤ par.fpBits := by
      have := hok.ord_pos
      have := hok.ord_fits
      rcases Nat.eq_zero_or_pos par.fpBits with h | h
      · rw [h] at this; omega
      · exact h
    have h3 := Nat.div_le_div_right (c := w) (show Rec.bitLen (par.red k) + w - 1 ≤ par.fpBits + w - 1 by omega)
    have h4 : 1 ≤ (par.fpBits + w - 1) / w := by
      rw [Nat.le_div_iff_mul_le hw]; omega
    omega

theorem simTrick_correct (isO : G → Bool) (hO : IsOSound isO) (par : Par) (hok : par.Ok) (hw : 2 ≤ par.width)
    (mul : G → ℤ → Option G) (p : G) (k : ℤ) (q : G) (m : ℤ)
    (hp : (par.ord : ℤ) • p = 0) (hq : (par.ord : ℤ) • q = 0)
    (hmp : mul p k = some (k • p)) (hmq : mul q m = some (m • q)) :
    simTrick gops isO par mul p k q m = some (k • p + m • q) := by
  unfold simTrick
  refine simExits_correct isO hO mul p k q m _ hmp hmq ?_
  have hw' : 0 < par.width / 2 := by omega
  obtain ⟨w0, h0⟩ := recWin_red_some par hok k _ hw'
  obtain ⟨w1, h1⟩ := recWin_red_some par hok m _ hw'
  simp only [h0, h1]
  congr 1
  obtain ⟨hv0, hd0⟩ := recWin_spec_zero_ok _ _ _ hw' w0 h0
  obtain ⟨hv1, hd1⟩ := recWin_spec_zero_ok _ _ _ hw' w1 h1
  rw [gops_zero, simTrick_spec _ _ _ w0 w1 hd0 hd1, hv0, hv1, red_zsmul par hok.ord_pos p hp,
    red_zsmul par hok.ord_pos q hq]

/-- two interleaved NAFs (widths w0, w1) of the reduced scalars -/
theorem redInter_correct (par : Par) (h0 : 0 < par.ord) (p q : G) (hp : (par.ord : ℤ) • p = 0)
    (hq : (par.ord : ℤ) • q = 0) (k m : ℤ) (wp wq : Nat) (hwp : 2 ≤ wp) (hwq : 2 ≤ wq) (cap : Nat) (n0 n1 : List Int)
    (hn0 : Rec.recNaf cap (par.red k) wp = some n0) (hn1 : Rec.recNaf cap (par.red m) wq = some n1) :
    MulAlg.simInter gops (tabOdd gops p (2 ^ (wp - 2))) (tabOdd gops q (2 ^ (wq - 2))) gops.zero n0 n1
      = k • p + m • q := by
  obtain ⟨hv0, hd0, _⟩ := Rec.recNaf_spec cap _ wp hwp n0 hn0
  obtain ⟨hv1, hd1, _⟩ := Rec.recNaf_spec cap _ wq hwq n1 hn1
  obtain ⟨hlen0, htab0⟩ := tabOdd_spec p (2 ^ (wp - 2))
  obtain ⟨hlen1, htab1⟩ := tabOdd_spec q (2 ^ (wq - 2))
  rw [gops_zero, simInter_spec p q _ _ (by rw [hlen0]; exact htab0) (by rw [hlen1]; exact htab1) n0 n1, hv0, hv1,
    red_zsmul par h0 p hp, red_zsmul par h0 q hq]
  · intro d hdm
    rw [hlen0, ← two_pow_pred wp hwp]
    exact hd0 d hdm
  · intro d hdm
    rw [hlen1, ← two_pow_pred wq hwq]
    exact hd1 d hdm

theorem simInter_correct (isO : G → Bool) (hO : IsOSound isO) (par : Par) (hok : par.Ok) (hw : 2 ≤ par.width)
    (mul : G → ℤ → Option G) (p : G) (k : ℤ) (q : G) (m : ℤ)
    (hp : (par.ord : ℤ) • p = 0) (hq : (par.ord : ℤ) • q = 0)
    (hmp : mul p k = some (k • p)) (hmq : mul q m = some (m • q)) :
    simInter gops isO par mul p k q m = some (k • p + m • q) := by
  unfold simInter
  refine simExits_correct isO hO mul p k q m _ hmp hmq ?_
  obtain ⟨n0, h0⟩ := recNaf_red_some par hok k par.width
  obtain ⟨n1, h1⟩ := recNaf_red_some par hok m par.width
  simp only [h0, h1]
  congr 1
  exact redInter_correct par hok.ord_pos p q hp hq k m _ _ hw hw _ n0 n1 h0 h1

theorem simJoint_correct (isO : G → Bool) (hO : IsOSound isO) (par : Par) (hok : par.Ok)
    (mul : G → ℤ → Option G) (p : G) (k : ℤ) (q : G) (m : ℤ)
    (hp : (par.ord : ℤ) • p = 0) (hq : (par.ord : ℤ) • q = 0)
    (hmp : mul p k = some (k • p)) (hmq : mul q m = some (m • q)) :
    simJoint gops isO par mul p k q m = some (k • p + m • q) := by
  unfold simJoint
  refine simExits_correct isO hO mul p k q m _ hmp hmq ?_
  obtain ⟨⟨j0, j1⟩, hj⟩ : ∃ js, Rec.recJsf (2 * (par.fpBits + 1)) (par.red k) (par.red m) = some js := by
    unfold Rec.recJsf
    rw [if_neg (by have := red_bitLen par hok k; have := red_bitLen par hok m; omega)]
    exact ⟨_, rfl⟩
  rw [hj, Option.map_some]
  congr 1
  obtain ⟨hv0, hv1, hd0, hd1, _⟩ := Rec.recJsf_spec _ _ _ j0 j1 hj
  have hsign : ∀ (l : List ℤ), (∀ d ∈ l, d.natAbs ≤ 1) → l.map Int.sign = l := by
    intro l hl
    conv_rhs => rw [← List.map_id l]
    apply List.map_congr_left
    intro d hdm
    have := hl d hdm
    have : d = -1 ∨ d = 0 ∨ d = 1 := by omega
    rcases this with rfl | rfl | rfl <;> rfl
  simp only
  rw [simJoint_spec, hsign j0 hd0, hsign j1 hd1, hv0, hv1, red_zsmul par hok.ord_pos p hp,
    red_zsmul par hok.ord_pos q hq]

/-- ed_mul_sim_gen's generator-table branch -/
theorem simPlainGen_correct (par : Par) (hok : par.Ok) (hw : 2 ≤ par.width) (hd : 2 ≤ par.depth)
    (g : G) (k : ℤ) (q : G) (m : ℤ) (hg : (par.ord : ℤ) • g = 0) (hq : (par.ord : ℤ) • q = 0) :
    simPlainGen gops par g k q m = some (k • g + m • q) := by
  unfold simPlainGen
  obtain ⟨n0, h0⟩ := recNaf_red_some par hok k par.depth
  obtain ⟨n1, h1⟩ := recNaf_red_some par hok m par.width
  simp only [h0, h1]
  congr 1
  exact redInter_correct par hok.ord_pos g q hg hq k m _ _ hd hw _ n0 n1 h0 h1

/-- non-vacuity: the routines run on the integers (a computation, not an instance of the theorems: no r > 0 kills 1 ∈ ℤ) —
    the constants of the 255-bit build with a toy order 7 and a scalar longer than the order: −153 mod 7 = 1 -/
example : mulLwnaf (gops : Ops ℤ) (fun x => x == 0) ⟨255, 4, 5, 7⟩ 1 (-153) = some 1 := by decide

end Relic.Model.EdMul
