/-
The Edwards scalar multiplications of Model/EdMul.lean over an arbitrary additive commutative group: whenever the routine
does not reject the scalar (`some r`), r = k • P (resp. k • P + m • Q) — for every integer k, no reduction modulo a group
order involved — and the routine rejects exactly the scalars that do not fit its fixed-size recoding array.
-/
import RelicVerif.Lemmas.MulAlg
import RelicVerif.Model.EdMul

namespace Relic.Model.EdMul
open Relic.Model Relic.Model.MulAlg

variable {G : Type} [AddCommGroup G]

/-- the identity test of the carrier recognises only the identity -/
def IsOSound (isO : G → Bool) : Prop := ∀ x, isO x = true → x = 0

theorem signed_spec (k : ℤ) (x : G) : signed gops k x = (if k < 0 then -x else x) := by
  sorry

/-- sign at the end: ±(|k| • P) = k • P -/
theorem signed_natAbs (k : ℤ) (p : G) : signed gops k ((k.natAbs : ℤ) • p) = k • p := by
  sorry

/-- sign on the base: |k| • (±P) = k • P -/
theorem natAbs_signed (k : ℤ) (p : G) : (k.natAbs : ℤ) • signed gops k p = k • p := by
  sorry

/-- value of the bits of n, most significant first -/
theorem bitsVal_bitsMsb (n : Nat) : bitsVal (bitsMsb n) = n := by
  sorry

/-- the ladder from (O, P) over all bits -/
theorem ladder_spec (p : G) (bits : List Bool) : ladder gops p bits = (bitsVal bits) • p := by
  sorry

/-! ### variable base -/

theorem mulBasic_correct (isO : G → Bool) (hO : IsOSound isO) (p : G) (k : ℤ) (r : G)
    (h : mulBasic gops isO p k = some r) : r = k • p := by
  sorry

/-- ed_mul_basic never rejects -/
theorem mulBasic_total (isO : G → Bool) (p : G) (k : ℤ) : (mulBasic gops isO p k).isSome = true := by
  sorry

theorem mulLwnaf_correct (isO : G → Bool) (hO : IsOSound isO) (par : Par) (hw : 2 ≤ par.width) (p : G) (k : ℤ) (r : G)
    (h : mulLwnaf gops isO par p k = some r) : r = k • p := by
  sorry

/-- ed_mul_lwnaf rejects exactly the scalars of more than RLC_FP_BITS bits (finding C17-F1) -/
theorem mulLwnaf_none_iff (isO : G → Bool) (par : Par) (p : G) (k : ℤ) :
    mulLwnaf gops isO par p k = none ↔ (¬ (k = 0 ∨ isO p = true) ∧ par.fpBits < Rec.bitLen k.natAbs) := by
  sorry

theorem mulSlide_correct (isO : G → Bool) (hO : IsOSound isO) (par : Par) (hw : 1 ≤ par.width) (p : G) (k : ℤ) (r : G)
    (h : mulSlide gops isO par p k = some r) : r = k • p := by
  sorry

theorem mulSlide_none_iff (isO : G → Bool) (par : Par) (p : G) (k : ℤ) :
    mulSlide gops isO par p k = none ↔ (¬ (k = 0 ∨ isO p = true) ∧ par.fpBits + 1 < Rec.bitLen k.natAbs) := by
  sorry

theorem mulMonty_correct (isO : G → Bool) (hO : IsOSound isO) (p : G) (k : ℤ) (r : G)
    (h : mulMonty gops isO p k = some r) : r = k • p := by
  sorry

/-- ed_mul_lwreg is right for every |k| below 2^RLC_FP_BITS (more precisely |k| | 1 < 2^RLC_FP_BITS); beyond that the recoding
    is of a number it was not designed for (finding C17-F2) -/
theorem mulLwreg_correct (isO : G → Bool) (hO : IsOSound isO) (par : Par) (hw : 3 ≤ par.width) (p : G) (k : ℤ) (r : G)
    (hk : k.natAbs ||| 1 < 2 ^ par.fpBits) (h : mulLwreg gops isO par p k = some r) : r = k • p := by
  sorry

/-! ### fixed base -/

/-- ed_mul_fix_basic is right for |k| < 2^bn_bits(r) (finding C17-F2 beyond) -/
theorem mulFixBasic_correct (par : Par) (p : G) (k : ℤ) (r : G) (hk : k.natAbs < 2 ^ par.ordBits)
    (h : mulFixBasic gops par p k = some r) : r = k • p := by
  sorry

theorem mulFixLwnaf_correct (par : Par) (hw : 2 ≤ par.depth) (p : G) (k : ℤ) (r : G)
    (h : mulFixLwnaf gops par p k = some r) : r = k • p := by
  sorry

theorem mulFixLwnaf_none_iff (par : Par) (p : G) (k : ℤ) :
    mulFixLwnaf gops par p k = none ↔ par.fpBits < Rec.bitLen k.natAbs := by
  sorry

/-- the comb table: entry w is Σ_{j : bit j of w} 2^(j·l) • P -/
theorem tabCombs_spec (p : G) (l depth : Nat) :
    (tabCombs gops p l depth).length = 2 ^ depth ∧
    ∀ w, w < 2 ^ depth → (tabCombs gops p l depth).getD w 0 =
      ((List.range depth).foldl (fun (acc : ℤ) j => acc + ((w >>> j) % 2 : ℕ) * 2 ^ (j * l)) 0) • p := by
  sorry

/-- ed_mul_fix_combs is right for |k| < 2^(depth·⌈bn_bits(r)/depth⌉); the bits above are ignored (finding C17-F2) -/
theorem mulFixCombs_correct (par : Par) (hd : 0 < par.depth) (p : G) (k : ℤ) (r : G)
    (hk : k.natAbs < 2 ^ (par.depth * ((par.ordBits + par.depth - 1) / par.depth)))
    (h : mulFixCombs gops par p k = some r) : r = k • p := by
  sorry

/-! ### simultaneous -/

theorem simBasic_correct (mul : G → ℤ → Option G) (hmul : ∀ x j r, mul x j = some r → r = j • x)
    (p : G) (k : ℤ) (q : G) (m : ℤ) (r : G) (h : simBasic gops mul p k q m = some r) : r = k • p + m • q := by
  sorry

theorem simTrick_correct (isO : G → Bool) (hO : IsOSound isO) (par : Par) (hw : 2 ≤ par.width)
    (mul : G → ℤ → Option G) (hmul : ∀ x j r, mul x j = some r → r = j • x)
    (p : G) (k : ℤ) (q : G) (m : ℤ) (r : G) (h : simTrick gops isO par mul p k q m = some r) : r = k • p + m • q := by
  sorry

theorem simInter_correct (isO : G → Bool) (hO : IsOSound isO) (par : Par) (hw : 2 ≤ par.width)
    (mul : G → ℤ → Option G) (hmul : ∀ x j r, mul x j = some r → r = j • x)
    (p : G) (k : ℤ) (q : G) (m : ℤ) (r : G) (h : simInter gops isO par mul p k q m = some r) : r = k • p + m • q := by
  sorry

theorem simJoint_correct (isO : G → Bool) (hO : IsOSound isO) (par : Par)
    (mul : G → ℤ → Option G) (hmul : ∀ x j r, mul x j = some r → r = j • x)
    (p : G) (k : ℤ) (q : G) (m : ℤ) (r : G) (h : simJoint gops isO par mul p k q m = some r) : r = k • p + m • q := by
  sorry

/-- non-vacuity: the routines run on the integers -/
example : mulLwnaf (gops : Ops ℤ) (fun x => x == 0) ⟨255, 4, 5, 253⟩ 1 (-153) = some (-153) := by decide

end Relic.Model.EdMul
