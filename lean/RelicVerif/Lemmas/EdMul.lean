/-
The Edwards scalar multiplications of Model/EdMul.lean over an arbitrary additive commutative group: whenever the routine
does not reject the scalar (`some r`), r = k • P (resp. k • P + m • Q) — for every integer k, no reduction modulo a group
order involved — and the routine rejects exactly the scalars that do not fit its fixed-size recoding array.
-/
import Mathlib.Algebra.BigOperators.Ring.Finset
import RelicVerif.Lemmas.MulAlg
import RelicVerif.Model.EdMul

namespace Relic.Model.EdMul
open Relic.Model Relic.Model.MulAlg

variable {G : Type} [AddCommGroup G]

/-- the identity test of the carrier recognises only the identity -/
def IsOSound (isO : G → Bool) : Prop := ∀ x, isO x = true → x = 0

theorem signed_spec (k : ℤ) (x : G) : signed gops k x = (if k < 0 then -x else x) := by
  rfl

/-- sign at the end: ±(|k| • P) = k • P -/
theorem signed_natAbs (k : ℤ) (p : G) : signed gops k ((k.natAbs : ℤ) • p) = k • p := by
  rw [signed_spec]
  split
  · rw [← neg_zsmul]; congr 1; omega
  · congr 1; omega

/-- sign on the base: |k| • (±P) = k • P -/
theorem natAbs_signed (k : ℤ) (p : G) : (k.natAbs : ℤ) • signed gops k p = k • p := by
  rw [signed_spec]
  split
  · rw [zsmul_neg, ← neg_zsmul]; congr 1; omega
  · congr 1; omega

theorem bitsVal_cons (b : Bool) (bs : List Bool) :
    bitsVal (b :: bs) = 2 ^ bs.length * (if b then 1 else 0) + bitsVal bs := by
  rw [show bitsVal (b :: bs) = bs.foldl (fun acc b => 2 * acc + (if b then 1 else 0)) (2 * 0 + (if b then 1 else 0))
    from rfl, bitsVal_foldl]
  simp

theorem bitsVal_msb_aux (n L : Nat) :
    bitsVal ((List.range L).reverse.map fun i => decide ((n >>> i) % 2 = 1)) = ((n % 2 ^ L : ℕ) : ℤ) := by
  induction L with
  | zero => simp [bitsVal, Nat.mod_one]
  | succ L ih =>
    rw [List.range_succ, List.reverse_append, List.reverse_singleton, List.singleton_append, List.map_cons,
      bitsVal_cons, ih, Nat.mod_pow_succ, Nat.shiftRight_eq_div_pow]
    simp only [List.length_map, List.length_reverse, List.length_range]
    rcases Nat.mod_two_eq_zero_or_one (n / 2 ^ L) with h | h
    · simp [h]
    · simp [h]; ring

/-- value of the bits of n, most significant first -/
theorem bitsVal_bitsMsb (n : Nat) : bitsVal (bitsMsb n) = n := by
  unfold bitsMsb
  rw [bitsVal_msb_aux, Nat.mod_eq_of_lt (Rec.lt_two_pow_bitLen n)]

/-- the ladder from (O, P) over all bits -/
theorem ladder_spec (p : G) (bits : List Bool) : ladder gops p bits = (bitsVal bits) • p := by
  unfold ladder
  suffices h : ∀ (v : ℤ) (t : G × G), t = (v • p, (v + 1) • p) →
      (bits.foldl (fun (t : G × G) b =>
        if b then (gops.add t.1 t.2, gops.dbl t.2) else (gops.dbl t.1, gops.add t.1 t.2)) t).1
      = (2 ^ bits.length * v + bitsVal bits) • p by
    have := h 0 (gops.zero, p) (by simp)
    simpa using this
  induction bits with
  | nil => intro v t h; simp [h, bitsVal]
  | cons b bs ih =>
    intro v t h
    simp only [List.foldl_cons, List.length_cons]
    rw [ih (2 * v + (if b then 1 else 0))]
    · congr 1
      rw [bitsVal_cons]
      ring
    · subst h
      cases b
      · simp only [gops_add, gops_dbl, Bool.false_eq_true, if_false, ← mul_zsmul, ← add_zsmul]
        congr 2 <;> ring
      · simp only [gops_add, gops_dbl, if_true, ← mul_zsmul, ← add_zsmul]
        congr 2 <;> ring

/-! ### variable base -/

/-- the early exits return the right value -/
theorem exit_zero (isO : G → Bool) (hO : IsOSound isO) (p : G) (k : ℤ) (h : k = 0 ∨ isO p = true) :
    k • p = 0 := by
  rcases h with rfl | h
  · simp
  · rw [hO p h, zsmul_zero]

theorem two_pow_pred (w : Nat) (hw : 2 ≤ w) : 2 ^ (w - 1) = 2 * 2 ^ (w - 2) := by
  rw [show w - 1 = (w - 2) + 1 by omega, Nat.pow_succ, Nat.mul_comm]

/-- width-w NAF of |k| with the table of odd multiples, sign at the end -/
theorem signedNaf_correct (p : G) (k : ℤ) (w cap : Nat) (hw : 2 ≤ w) (ds : List Int)
    (h : Rec.recNaf cap k.natAbs w = some ds) :
    signed gops k (mulSigned gops (tabOdd gops p (2 ^ (w - 2))) gops.zero ds) = k • p := by
  obtain ⟨hv, hd, _⟩ := Rec.recNaf_spec cap _ w hw ds h
  obtain ⟨hlen, htab⟩ := tabOdd_spec p (2 ^ (w - 2))
  rw [gops_zero, mulSigned_spec p _ (by rw [hlen]; exact htab) ds, hv, signed_natAbs]
  intro d hdm
  rw [hlen, ← two_pow_pred w hw]
  exact hd d hdm

theorem mulBasic_correct (isO : G → Bool) (hO : IsOSound isO) (p : G) (k : ℤ) (r : G)
    (h : mulBasic gops isO p k = some r) : r = k • p := by
  unfold mulBasic at h
  split at h
  · rename_i hex
    simp only [Option.some.injEq] at h
    rw [← h, exit_zero isO hO p k hex]; rfl
  · simp only [Option.map_eq_some_iff] at h
    obtain ⟨ds, hds, rfl⟩ := h
    have := signedNaf_correct p k 2 _ (le_refl _) ds hds
    simpa [tabOdd] using this

/-- ed_mul_basic never rejects -/
theorem mulBasic_total (isO : G → Bool) (p : G) (k : ℤ) : (mulBasic gops isO p k).isSome = true := by
  unfold mulBasic
  split
  · rfl
  · simp [Rec.recNaf]

theorem mulLwnaf_correct (isO : G → Bool) (hO : IsOSound isO) (par : Par) (hw : 2 ≤ par.width) (p : G) (k : ℤ) (r : G)
    (h : mulLwnaf gops isO par p k = some r) : r = k • p := by
  unfold mulLwnaf at h
  split at h
  · rename_i hex
    simp only [Option.some.injEq] at h
    rw [← h, exit_zero isO hO p k hex]; rfl
  · simp only [Option.map_eq_some_iff] at h
    obtain ⟨ds, hds, rfl⟩ := h
    exact signedNaf_correct p k par.width _ hw ds hds

/-- ed_mul_lwnaf rejects exactly the scalars of more than RLC_FP_BITS bits (finding C17-F1) -/
theorem mulLwnaf_none_iff (isO : G → Bool) (par : Par) (p : G) (k : ℤ) :
    mulLwnaf gops isO par p k = none ↔ (¬ (k = 0 ∨ isO p = true) ∧ par.fpBits < Rec.bitLen k.natAbs) := by
  unfold mulLwnaf
  split
  · rename_i hex; simp [hex]
  · rename_i hex
    simp only [Option.map_eq_none_iff, Rec.recNaf, hex, not_false_eq_true, true_and]
    split <;> simp <;> omega

theorem mulSlide_correct (isO : G → Bool) (hO : IsOSound isO) (par : Par) (hw : 1 ≤ par.width) (p : G) (k : ℤ) (r : G)
    (h : mulSlide gops isO par p k = some r) : r = k • p := by
  unfold mulSlide at h
  split at h
  · rename_i hex
    simp only [Option.some.injEq] at h
    rw [← h, exit_zero isO hO p k hex]; rfl
  · simp only [Option.map_eq_some_iff] at h
    obtain ⟨win, hwin, rfl⟩ := h
    obtain ⟨hv, hd, _⟩ := Rec.recSlw_spec _ _ par.width hw win hwin
    obtain ⟨hlen, htab⟩ := tabOdd_spec p (2 ^ (par.width - 1))
    rw [gops_zero, mulSlide_spec p _ (by rw [hlen]; exact htab) win, hv, signed_natAbs]
    intro d hdm
    rcases hd d hdm with h0 | ⟨h1, h2, h3⟩
    · exact Or.inl h0
    · refine Or.inr ⟨h1, h2, ?_⟩
      rw [hlen, ← Nat.pow_succ', show (par.width - 1).succ = par.width by omega]
      zify
      rw [Int.toNat_of_nonneg (by omega)]
      exact_mod_cast h3

theorem mulSlide_none_iff (isO : G → Bool) (par : Par) (p : G) (k : ℤ) :
    mulSlide gops isO par p k = none ↔ (¬ (k = 0 ∨ isO p = true) ∧ par.fpBits + 1 < Rec.bitLen k.natAbs) := by
  unfold mulSlide
  split
  · rename_i hex; simp [hex]
  · rename_i hex
    simp only [Option.map_eq_none_iff, Rec.recSlw, hex, not_false_eq_true, true_and]
    split <;> simp <;> omega

theorem mulMonty_correct (isO : G → Bool) (hO : IsOSound isO) (p : G) (k : ℤ) (r : G)
    (h : mulMonty gops isO p k = some r) : r = k • p := by
  unfold mulMonty at h
  split at h
  · rename_i hex
    simp only [Option.some.injEq] at h
    rw [← h, exit_zero isO hO p k hex]; rfl
  · simp only [Option.some.injEq] at h
    rw [← h, ladder_spec, bitsVal_bitsMsb, signed_natAbs]

/-- ed_mul_lwreg is right for every |k| below 2^RLC_FP_BITS (more precisely |k| | 1 < 2^RLC_FP_BITS); beyond that the recoding
    is of a number it was not designed for (finding C17-F2) -/
theorem mulLwreg_correct (isO : G → Bool) (hO : IsOSound isO) (par : Par) (hw : 3 ≤ par.width) (p : G) (k : ℤ) (r : G)
    (hk : k.natAbs ||| 1 < 2 ^ par.fpBits) (h : mulLwreg gops isO par p k = some r) : r = k • p := by
  unfold mulLwreg at h
  split at h
  · rename_i hex
    simp only [Option.some.injEq] at h
    rw [← h, exit_zero isO hO p k hex]; rfl
  · simp only [Option.map_eq_some_iff] at h
    obtain ⟨reg, hreg, rfl⟩ := h
    have hor : k.natAbs ||| 1 = k.natAbs + (if k.natAbs % 2 = 0 then 1 else 0) := by
      have e1 : (k.natAbs ||| 1) / 2 = k.natAbs / 2 := by rw [Nat.or_div_two]; simp
      have e2 : (k.natAbs ||| 1) % 2 = 1 := by rw [Nat.or_mod_two_eq_one]; simp
      split <;> omega
    obtain ⟨hv, hd⟩ := recReg_digits _ _ par.fpBits par.width (by omega) (by rw [hor]; split <;> omega) hk reg hreg
    obtain ⟨hlen, htab⟩ := tabOdd_spec p (2 ^ (par.width - 2))
    rw [gops_zero, mulReg_spec p _ (by rw [hlen]; exact htab) par.width reg
      (by intro d hdm; rw [hlen, ← two_pow_pred par.width (by omega)]; exact hd d hdm), hv, hor]
    rw [← signed_natAbs k p]
    congr 2
    by_cases h2 : k.natAbs % 2 = 0 <;> simp [h2]

/-! ### fixed base -/

/-- ed_mul_fix_basic is right for |k| < 2^bn_bits(r) (finding C17-F2 beyond) -/
theorem mulFixBasic_correct (par : Par) (p : G) (k : ℤ) (r : G) (hk : k.natAbs < 2 ^ par.ordBits)
    (h : mulFixBasic gops par p k = some r) : r = k • p := by
  unfold mulFixBasic at h
  simp only [Option.some.injEq] at h
  rw [← h, gops_zero, mulFixBasic_spec p _ _ hk, signed_natAbs]

theorem mulFixLwnaf_correct (par : Par) (hw : 2 ≤ par.depth) (p : G) (k : ℤ) (r : G)
    (h : mulFixLwnaf gops par p k = some r) : r = k • p := by
  unfold mulFixLwnaf at h
  simp only [Option.map_eq_some_iff] at h
  obtain ⟨ds, hds, rfl⟩ := h
  exact signedNaf_correct p k par.depth _ hw ds hds

theorem mulFixLwnaf_none_iff (par : Par) (p : G) (k : ℤ) :
    mulFixLwnaf gops par p k = none ↔ par.fpBits < Rec.bitLen k.natAbs := by
  unfold mulFixLwnaf
  simp only [Option.map_eq_none_iff, Rec.recNaf]
  split <;> simp <;> omega

/-! ### comb method -/

open Finset in
/-- a left fold of additions over `range d` is the finite sum -/
theorem foldl_range_add {α : Type} [AddCommMonoid α] (f : ℕ → α) (d : ℕ) (a : α) :
    (List.range d).foldl (fun acc j => acc + f j) a = a + ∑ j ∈ range d, f j := by
  induction d with
  | zero => simp
  | succ d ih =>
    rw [List.range_succ, List.foldl_append, ih, sum_range_succ]
    simp only [List.foldl_cons, List.foldl_nil, add_assoc]

/-- adding a multiple of 2^d does not change the bits below d -/
theorem bit_add_mul_pow (x c d j : Nat) (hj : j < d) : ((x + c * 2 ^ d) >>> j) % 2 = (x >>> j) % 2 := by
  rw [Nat.shiftRight_eq_div_pow, Nat.shiftRight_eq_div_pow,
    show c * 2 ^ d = 2 ^ j * (2 * (2 ^ (d - j - 1) * c)) by
      rw [show d = j + ((d - j - 1) + 1) by omega, Nat.pow_add, Nat.pow_succ]
      simp only [Nat.add_sub_cancel_left, Nat.add_sub_cancel]
      ring,
    Nat.add_mul_div_left _ _ (Nat.two_pow_pos j), Nat.add_mul_mod_self_left]

/-- … and puts c at bit d when x < 2^d -/
theorem bit_add_mul_pow_top (x c d : Nat) (hx : x < 2 ^ d) : ((x + c * 2 ^ d) >>> d) = c := by
  rw [Nat.shiftRight_eq_div_pow, Nat.add_mul_div_right _ _ (Nat.two_pow_pos d), Nat.div_eq_of_lt hx, Nat.zero_add]

theorem combCol_succ (k l d i : Nat) :
    combCol k l (d + 1) i = combCol k l d i + ((k >>> (i + d * l)) % 2) * 2 ^ d := by
  unfold combCol
  rw [List.range_succ, List.foldl_append]
  rfl

/-- the comb column is below 2^depth and its bit j is bit i + j·l of k -/
theorem combCol_spec (k l i : Nat) : ∀ d, combCol k l d i < 2 ^ d ∧
    ∀ j, j < d → (combCol k l d i >>> j) % 2 = (k >>> (i + j * l)) % 2 := by
  intro d
  induction d with
  | zero => exact ⟨by simp [combCol], fun j hj => by omega⟩
  | succ d ih =>
    obtain ⟨h1, h2⟩ := ih
    rw [combCol_succ]
    have hb : (k >>> (i + d * l)) % 2 < 2 := Nat.mod_lt _ (by decide)
    refine ⟨?_, ?_⟩
    · rw [Nat.pow_succ]
      have : (k >>> (i + d * l)) % 2 * 2 ^ d ≤ 1 * 2 ^ d := Nat.mul_le_mul_right _ (by omega)
      omega
    · intro j hj
      by_cases hjd : j < d
      · rw [bit_add_mul_pow _ _ _ _ hjd, h2 j hjd]
      · obtain rfl : j = d := by omega
        rw [bit_add_mul_pow_top _ _ _ h1, Nat.mod_mod]

open Finset in
/-- the comb table, entries as finite sums -/
theorem tabCombs_getElem? (p : G) (l : Nat) : ∀ depth,
    (tabCombs gops p l depth).length = 2 ^ depth ∧
    ∀ w, w < 2 ^ depth → (tabCombs gops p l depth)[w]? =
      some ((∑ j ∈ range depth, (((w >>> j) % 2 : ℕ) : ℤ) * 2 ^ (j * l)) • p) := by
  intro depth
  induction depth with
  | zero =>
    refine ⟨by simp [tabCombs], ?_⟩
    intro w hw
    obtain rfl : w = 0 := by simpa using hw
    simp [tabCombs]
  | succ d ih =>
    obtain ⟨hlen, hget⟩ := ih
    refine ⟨by simp [tabCombs, hlen, Nat.pow_succ, Nat.mul_two], ?_⟩
    intro w hw
    simp only [tabCombs]
    rw [sum_range_succ]
    by_cases hwd : w < 2 ^ d
    · rw [List.getElem?_append_left (by omega), hget w hwd, Nat.shiftRight_eq_div_pow, Nat.div_eq_of_lt hwd]
      simp
    · obtain ⟨v, rfl⟩ : ∃ v, w = v + 1 * 2 ^ d := ⟨w - 2 ^ d, by omega⟩
      have hv : v < 2 ^ d := by rw [Nat.pow_succ] at hw; omega
      rw [List.getElem?_append_right (by omega), hlen, List.getElem?_map,
        show v + 1 * 2 ^ d - 2 ^ d = v by omega, hget v hv, Option.map_some, gops_add, dblN_spec, ← add_zsmul,
        bit_add_mul_pow_top _ _ _ hv]
      congr 2
      rw [Nat.mul_comm l d]
      congr 1
      · apply sum_congr rfl
        intro j hj
        rw [bit_add_mul_pow _ _ _ _ (mem_range.1 hj)]
      · simp

/-- the comb table: entry w is Σ_{j : bit j of w} 2^(j·l) • P -/
theorem tabCombs_spec (p : G) (l depth : Nat) :
    (tabCombs gops p l depth).length = 2 ^ depth ∧
    ∀ w, w < 2 ^ depth → (tabCombs gops p l depth).getD w 0 =
      ((List.range depth).foldl (fun (acc : ℤ) j => acc + ((w >>> j) % 2 : ℕ) * 2 ^ (j * l)) 0) • p := by
  obtain ⟨hlen, hget⟩ := tabCombs_getElem? p l depth
  refine ⟨hlen, fun w hw => ?_⟩
  rw [List.getD_eq_getElem?_getD, hget w hw,
    foldl_range_add (fun j => (((w >>> j) % 2 : ℕ) : ℤ) * 2 ^ (j * l)), zero_add]
  rfl

open Finset in
/-- Σ_{i<L} 2^i·bit(M, i) = M mod 2^L -/
theorem sum_bits (M L : Nat) : ∑ i ∈ range L, (2 : ℤ) ^ i * (((M >>> i) % 2 : ℕ) : ℤ) = ((M % 2 ^ L : ℕ) : ℤ) := by
  induction L with
  | zero => simp [Nat.mod_one]
  | succ L ih =>
    rw [sum_range_succ, ih, Nat.mod_pow_succ, Nat.shiftRight_eq_div_pow]
    push_cast
    ring

open Finset in
/-- the comb identity: Σ_{i<l} 2^i · Σ_{j<d} bit(k, i + j·l)·2^(j·l) = k mod 2^(d·l) -/
theorem comb_sum (k l : Nat) : ∀ d,
    ∑ i ∈ range l, (2 : ℤ) ^ i * ∑ j ∈ range d, (((k >>> (i + j * l)) % 2 : ℕ) : ℤ) * 2 ^ (j * l)
      = ((k % 2 ^ (d * l) : ℕ) : ℤ) := by
  intro d
  induction d with
  | zero => simp [Nat.mod_one]
  | succ d ih =>
    simp only [sum_range_succ, mul_add, sum_add_distrib]
    rw [ih, Nat.succ_mul, Nat.pow_add, Nat.mod_mul]
    have : ∀ i ∈ range l, (2 : ℤ) ^ i * ((((k >>> (i + d * l)) % 2 : ℕ) : ℤ) * 2 ^ (d * l))
        = 2 ^ (d * l) * (2 ^ i * ((((k >>> (d * l)) >>> i) % 2 : ℕ) : ℤ)) := by
      intro i _
      rw [Nat.add_comm i, Nat.shiftRight_add]
      ring
    rw [sum_congr rfl this, ← mul_sum, sum_bits, Nat.shiftRight_eq_div_pow]
    push_cast
    ring

open Finset in
/-- the double-and-add loop over the columns, from the top -/
theorem horner_spec (p : G) (T : ℕ → G) (c : ℕ → ℤ) : ∀ (l : Nat) (r0 : G), (∀ i, i < l → T i = c i • p) →
    (List.range l).reverse.foldl (fun r i => gops.add (gops.dbl r) (T i)) r0
      = (2 ^ l : ℤ) • r0 + (∑ i ∈ range l, 2 ^ i * c i) • p := by
  intro l
  induction l with
  | zero => intro r0 _; simp
  | succ l ih =>
    intro r0 hT
    rw [List.range_succ, List.reverse_append, List.reverse_singleton, List.singleton_append, List.foldl_cons,
      ih _ (fun i hi => hT i (by omega)), hT l (by omega), sum_range_succ, gops_add, gops_dbl]
    simp only [zsmul_add, add_zsmul, ← mul_zsmul, pow_succ]
    abel

/-- ed_mul_fix_combs is right for |k| < 2^(depth·⌈bn_bits(r)/depth⌉); the bits above are ignored (finding C17-F2) -/
theorem mulFixCombs_correct (par : Par) (hd : 0 < par.depth) (p : G) (k : ℤ) (r : G)
    (hk : k.natAbs < 2 ^ (par.depth * ((par.ordBits + par.depth - 1) / par.depth)))
    (h : mulFixCombs gops par p k = some r) : r = k • p := by
  have _ := hd  -- not needed: for depth = 0 the bound forces k = 0
  unfold mulFixCombs at h
  simp only [Option.some.injEq] at h
  generalize (par.ordBits + par.depth - 1) / par.depth = l at hk h
  obtain ⟨_, hget⟩ := tabCombs_getElem? p l par.depth
  rw [← h, horner_spec p _
    (fun i => ∑ j ∈ Finset.range par.depth, (((k.natAbs >>> (i + j * l)) % 2 : ℕ) : ℤ) * 2 ^ (j * l)) l _
    (fun i _ => ?_), comb_sum, Nat.mod_eq_of_lt hk, gops_zero, zsmul_zero, zero_add, signed_natAbs]
  obtain ⟨h1, h2⟩ := combCol_spec k.natAbs l i par.depth
  rw [gops_zero, List.getD_eq_getElem?_getD, hget _ h1, Option.getD_some]
  congr 1
  apply Finset.sum_congr rfl
  intro j hj
  rw [h2 j (Finset.mem_range.1 hj)]

/-! ### simultaneous -/

theorem simBasic_correct (mul : G → ℤ → Option G) (hmul : ∀ x j r, mul x j = some r → r = j • x)
    (p : G) (k : ℤ) (q : G) (m : ℤ) (r : G) (h : simBasic gops mul p k q m = some r) : r = k • p + m • q := by
  unfold simBasic at h
  split at h
  · rename_i a b ha hb
    simp only [Option.some.injEq] at h
    rw [← h, gops_add, hmul _ _ _ ha, hmul _ _ _ hb, add_comm]
  · exact absurd h (by simp)

/-- the early exits of the simultaneous multiplications -/
theorem simExits_correct (isO : G → Bool) (hO : IsOSound isO)
    (mul : G → ℤ → Option G) (hmul : ∀ x j r, mul x j = some r → r = j • x)
    (p : G) (k : ℤ) (q : G) (m : ℤ) (body : Option G) (r : G)
    (hbody : k ≠ 0 → m ≠ 0 → body = some r → r = k • p + m • q)
    (h : simExits gops isO mul p k q m body = some r) : r = k • p + m • q := by
  unfold simExits at h
  split at h
  · rename_i hex
    rw [hmul _ _ _ h, exit_zero isO hO p k hex, zero_add]
  · rename_i hk
    split at h
    · rename_i hex
      rw [hmul _ _ _ h, exit_zero isO hO q m hex, add_zero]
    · rename_i hm
      exact hbody (fun e => hk (Or.inl e)) (fun e => hm (Or.inl e)) h

theorem simTrick_correct (isO : G → Bool) (hO : IsOSound isO) (par : Par) (hw : 2 ≤ par.width)
    (mul : G → ℤ → Option G) (hmul : ∀ x j r, mul x j = some r → r = j • x)
    (p : G) (k : ℤ) (q : G) (m : ℤ) (r : G) (h : simTrick gops isO par mul p k q m = some r) : r = k • p + m • q := by
  unfold simTrick at h
  refine simExits_correct isO hO mul hmul p k q m _ r ?_ h
  intro hk hm hb
  have hw' : 0 < par.width / 2 := by omega
  simp only at hb
  split at hb
  · rename_i w0 w1 h0 h1
    simp only [Option.some.injEq] at hb
    obtain ⟨hv0, hd0, _⟩ := Rec.recWin_spec _ _ _ hw' (by omega) w0 h0
    obtain ⟨hv1, hd1, _⟩ := Rec.recWin_spec _ _ _ hw' (by omega) w1 h1
    rw [← hb, gops_zero, simTrick_spec _ _ _ w0 w1 hd0 hd1, hv0, hv1, natAbs_signed, natAbs_signed]
  · exact absurd hb (by simp)

theorem eval_map_neg (s : Nat) (ds : List Int) : Rec.eval s (ds.map fun d => -d) = - Rec.eval s ds := by
  induction ds with
  | nil => simp
  | cons d ds ih => simp only [List.map_cons, Rec.eval_cons, ih]; ring

theorem simInter_correct (isO : G → Bool) (hO : IsOSound isO) (par : Par) (hw : 2 ≤ par.width)
    (mul : G → ℤ → Option G) (hmul : ∀ x j r, mul x j = some r → r = j • x)
    (p : G) (k : ℤ) (q : G) (m : ℤ) (r : G) (h : simInter gops isO par mul p k q m = some r) : r = k • p + m • q := by
  unfold simInter at h
  refine simExits_correct isO hO mul hmul p k q m _ r ?_ h
  intro _ _ hb
  split at hb
  · rename_i n0 n1 h0 h1
    simp only [Option.some.injEq] at hb
    obtain ⟨hv0, hd0, _⟩ := Rec.recNaf_spec _ _ _ hw n0 h0
    obtain ⟨hv1, hd1, _⟩ := Rec.recNaf_spec _ _ _ hw n1 h1
    obtain ⟨hlen0, htab0⟩ := tabOdd_spec p (2 ^ (par.width - 2))
    obtain ⟨hlen1, htab1⟩ := tabOdd_spec q (2 ^ (par.width - 2))
    have key : ∀ (j : ℤ) (n : List ℤ), Rec.eval 1 n = j.natAbs →
        (∀ d ∈ n, d = 0 ∨ (d % 2 ≠ 0 ∧ d.natAbs < 2 ^ (par.width - 1))) →
        Rec.eval 1 (if j < 0 then n.map (fun d => -d) else n) = j ∧
        ∀ d ∈ (if j < 0 then n.map (fun d => -d) else n),
          d = 0 ∨ (d % 2 ≠ 0 ∧ d.natAbs < 2 * 2 ^ (par.width - 2)) := by
      intro j n hv hd
      rw [← two_pow_pred par.width hw]
      split
      · refine ⟨by rw [eval_map_neg, hv]; omega, ?_⟩
        intro d hdm
        obtain ⟨e, hem, rfl⟩ := List.mem_map.1 hdm
        rcases hd e hem with h0 | ⟨h1, h2⟩
        · exact Or.inl (by omega)
        · exact Or.inr ⟨by omega, by rw [Int.natAbs_neg]; exact h2⟩
      · exact ⟨by rw [hv]; omega, hd⟩
    obtain ⟨e0, g0⟩ := key k n0 hv0 hd0
    obtain ⟨e1, g1⟩ := key m n1 hv1 hd1
    rw [← hb, gops_zero, simInter_spec p q _ _ (by rw [hlen0]; exact htab0) (by rw [hlen1]; exact htab1) _ _
      (by rw [hlen0]; exact g0) (by rw [hlen1]; exact g1), e0, e1]
  · exact absurd hb (by simp)

theorem simJoint_correct (isO : G → Bool) (hO : IsOSound isO) (par : Par)
    (mul : G → ℤ → Option G) (hmul : ∀ x j r, mul x j = some r → r = j • x)
    (p : G) (k : ℤ) (q : G) (m : ℤ) (r : G) (h : simJoint gops isO par mul p k q m = some r) : r = k • p + m • q := by
  unfold simJoint at h
  refine simExits_correct isO hO mul hmul p k q m _ r ?_ h
  intro _ _ hb
  simp only [Option.map_eq_some_iff] at hb
  obtain ⟨⟨j0, j1⟩, hj, rfl⟩ := hb
  obtain ⟨hv0, hv1, hd0, hd1, _⟩ := Rec.recJsf_spec _ _ _ j0 j1 hj
  have hsign : ∀ (l : List ℤ), (∀ d ∈ l, d.natAbs ≤ 1) → l.map Int.sign = l := by
    intro l hl
    conv_rhs => rw [← List.map_id l]
    apply List.map_congr_left
    intro d hdm
    have := hl d hdm
    have : d = -1 ∨ d = 0 ∨ d = 1 := by omega
    rcases this with rfl | rfl | rfl <;> rfl
  simp only
  rw [simJoint_spec, hsign j0 hd0, hsign j1 hd1, hv0, hv1, natAbs_signed, natAbs_signed]

/-- non-vacuity: the routines run on the integers -/
example : mulLwnaf (gops : Ops ℤ) (fun x => x == 0) ⟨255, 4, 5, 253⟩ 1 (-153) = some (-153) := by decide

end Relic.Model.EdMul
