/-
Completeness of the Miller-Rabin decision logic of bn_is_prime_rabin: every prime is accepted.
In the field ZMod n: t^(n-1) = 1 for t ≠ 0 (Fermat) and the only square roots of 1 are ±1.
-/
import Mathlib.FieldTheory.Finite.Basic
import RelicVerif.Model.NtSmbPrime

namespace Relic.Lemmas.NtSmbPrime
open Relic.Model.NtSmbPrime

theorem powMod_eq (b e n : ℕ) : powMod b e n = b ^ e % n := by
  induction e using Nat.strong_induction_on with
  | _ e ih =>
    unfold powMod
    split
    · next h => subst h; simp
    · next h =>
      have hx := ih (e / 2) (by omega)
      simp only [hx]
      split
      · next h1 =>
        have : b ^ e = b ^ (e / 2) * b ^ (e / 2) * b := by
          rw [← pow_add, ← pow_succ]; congr 1; omega
        rw [this]
        simp [Nat.mul_mod, Nat.mod_mod]
      · next h1 =>
        have : b ^ e = b ^ (e / 2) * b ^ (e / 2) := by
          rw [← pow_add]; congr 1; omega
        rw [this]
        simp [Nat.mul_mod, Nat.mod_mod]

theorem split_spec : ∀ (f s0 r0 : ℕ), s0 ≤ (split f s0 r0).1 ∧ 2 ^ s0 * r0 = 2 ^ (split f s0 r0).1 * (split f s0 r0).2
  | 0, s0, r0 => by simp [split]
  | f + 1, s0, r0 => by
    unfold split
    split
    · next h =>
      have := split_spec f (s0 + 1) (r0 / 2)
      refine ⟨by omega, ?_⟩
      rw [← this.2, pow_succ, mul_assoc]
      congr 1
      omega
    · simp

variable {n : ℕ}

theorem cast_ne_one (hn : 2 < n) {y : ℕ} (hy : y < n) (h1 : y ≠ 1) : (y : ZMod n) ≠ 1 := by
  intro h
  have : (y : ZMod n) = ((1 : ℕ) : ZMod n) := by simpa using h
  rw [ZMod.natCast_eq_natCast_iff'] at this
  rw [Nat.mod_eq_of_lt hy, Nat.mod_eq_of_lt (by omega)] at this
  exact h1 this

theorem eq_pred_of_cast_neg_one (hn : 2 < n) {y : ℕ} (hy : y < n) (h : (y : ZMod n) = -1) : y = n - 1 := by
  have h' : (y : ZMod n) = ((n - 1 : ℕ) : ZMod n) := by
    rw [h, Nat.cast_sub (by omega)]
    simp
  rw [ZMod.natCast_eq_natCast_iff'] at h'
  rwa [Nat.mod_eq_of_lt hy, Nat.mod_eq_of_lt (by omega)] at h'

theorem sqLoop_prime [Fact n.Prime] (hn : 2 < n) :
    ∀ (k y : ℕ), y < n → (y : ZMod n) ≠ 1 → (y : ZMod n) ^ (2 ^ (k + 1)) = 1 → sqLoop n (n - 1) k y = n - 1
  | 0, y, hy, h1, hp => by
    unfold sqLoop
    have : (y : ZMod n) * y = 1 := by simpa [pow_succ] using hp
    rcases mul_self_eq_one_iff.mp this with h | h
    · exact absurd h h1
    · exact eq_pred_of_cast_neg_one hn hy h
  | k + 1, y, hy, h1, hp => by
    unfold sqLoop
    split
    · next h => exact h
    · next hne =>
      have hpos : 0 < n := by omega
      have hy' : y * y % n < n := Nat.mod_lt _ hpos
      have hc : ((y * y % n : ℕ) : ZMod n) = (y : ZMod n) * y := by
        rw [ZMod.natCast_mod]; push_cast; rfl
      simp only []
      split
      · next h1' =>
        exfalso
        have : (y : ZMod n) * y = 1 := by rw [← hc, h1']; simp
        rcases mul_self_eq_one_iff.mp this with h | h
        · exact h1 h
        · exact hne (eq_pred_of_cast_neg_one hn hy h)
      · next h1' =>
        apply sqLoop_prime hn k _ hy' (cast_ne_one hn hy' h1')
        rw [hc, ← pow_two, ← pow_mul, ← pow_succ']
        exact hp

theorem basePasses_prime [Fact n.Prime] (hn : 2 < n) {r s t : ℕ} (hs : 1 ≤ s) (hsr : n - 1 = 2 ^ s * r)
    (ht0 : 0 < t) (htn : t < n) : basePasses n (n - 1) r s t = true := by
  unfold basePasses
  simp only []
  split
  · next h =>
    rw [decide_eq_true_eq]
    have hpos : 0 < n := by omega
    have hy : powMod t r n < n := by rw [powMod_eq]; exact Nat.mod_lt _ hpos
    have ht : (t : ZMod n) ≠ 0 := by
      intro h0
      rw [ZMod.natCast_eq_zero_iff] at h0
      exact absurd (Nat.le_of_dvd ht0 h0) (by omega)
    have hc : ((powMod t r n : ℕ) : ZMod n) = (t : ZMod n) ^ r := by
      rw [powMod_eq, ZMod.natCast_mod]; push_cast; rfl
    obtain ⟨k, rfl⟩ : ∃ k, s = k + 1 := ⟨s - 1, by omega⟩
    rw [Nat.add_sub_cancel]
    apply sqLoop_prime hn k _ hy (cast_ne_one hn hy h.1)
    rw [hc, ← pow_mul, mul_comm, ← hsr]
    exact ZMod.pow_card_sub_one_eq_one ht
  · rfl

theorem basesLoop_prime [Fact n.Prime] (hn : 2 < n) {r s : ℕ} (hs : 1 ≤ s) (hsr : n - 1 = 2 ^ s * r) :
    ∀ (l : List ℕ), (∀ t ∈ l, 0 < t) → basesLoop n (n - 1) r s l = true
  | [], _ => rfl
  | t :: ts, h => by
    unfold basesLoop
    split
    · rfl
    · next hlt =>
      rw [basePasses_prime hn hs hsr (h t (by simp)) (by omega)]
      simp only [if_true]
      exact basesLoop_prime hn hs hsr ts (fun x hx => h x (by simp [hx]))

theorem primesTab_pos : ∀ t ∈ primesTab, 0 < t := by decide

/-- bn_is_prime_rabin accepts every prime -/
theorem rabin_prime (n : ℕ) (hp : n.Prime) : rabin (n : ℤ) = true := by
  have h2 := hp.two_le
  unfold rabin
  rw [if_neg (by omega)]
  split
  · rfl
  · next hne =>
    have hn2 : n ≠ 2 := by intro h; apply hne; rw [h]; rfl
    have hodd : n % 2 = 1 := by
      rcases hp.eq_two_or_odd with h | h
      · exact absurd h hn2
      · exact h
    rw [if_neg (by omega)]
    have hn : 2 < n := by omega
    haveI : Fact n.Prime := ⟨hp⟩
    simp only [Int.toNat_natCast]
    -- the fuel is bitLen (n-1) + 1 = f + 1 and n - 1 is even and non-zero: at least one halving
    have hsp := split_spec (bitLen (n - 1)) 1 ((n - 1) / 2)
    have hstep : split (bitLen (n - 1) + 1) 0 (n - 1) = split (bitLen (n - 1)) 1 ((n - 1) / 2) := by
      rw [split]
      rw [if_pos ⟨by omega, by omega⟩]
    rw [hstep]
    generalize split (bitLen (n - 1)) 1 ((n - 1) / 2) = sr at hsp
    obtain ⟨s, r⟩ := sr
    simp only at hsp ⊢
    apply basesLoop_prime hn hsp.1 (by rw [← hsp.2]; omega)
    intro t ht
    exact primesTab_pos t (List.mem_of_mem_take ht)

end Relic.Lemmas.NtSmbPrime
