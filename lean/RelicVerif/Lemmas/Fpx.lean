/-
The formulas of Model/Fpx.lean compute in the quotient rings (property C10).

Part A — every multiplication / squaring / inversion formula, instantiated with the operations of an arbitrary
commutative ring R and the multiplication by a constant ν as `nor`, returns the coefficients of the product in
R[X]/(X² − ν) resp. R[X]/(X³ − ν): closed forms (`quadProd`, `cubProd`) and the generic `Poly.mulMod` of the
specification (`quadProd_eq_mulMod`, `cubProd_eq_mulMod`), which Lemmas/Tower.lean identifies with the product of the
quotient ring.
Part B — the specialised forms equal the generic operation under their precondition: sparse operands
(fp6/fp9_mul_dxs, fp12_mul_dxs for both twist types), elements of the cyclotomic subgroup (Granger–Scott squaring,
Karabina compressed squaring and decompression, conjugation as inverse).
Part C — the stacked model: if the operations of a level are carried to ring operations by a map into a commutative
ring S, so are the operations of the quadratic / cubic level built on it (`quadHom`, `cubHom`); with the base
`natOps p → ZMod p` this covers the model exactly as the driver executes it.
Part D — loops: square-and-multiply, Montgomery's simultaneous inversion.
-/
import Mathlib.Algebra.Field.Basic
import Mathlib.Algebra.CharP.Invertible
import Mathlib.Data.ZMod.Basic
import Mathlib.Tactic.Ring
import Mathlib.Tactic.LinearCombination
import Mathlib.Tactic.FieldSimp
import Mathlib.Tactic.Push
import RelicVerif.Model.Fpx
import RelicVerif.Lemmas.Tower
import RelicVerif.Lemmas.MulAlg
import Mathlib.Algebra.Group.TypeTags.Basic

namespace Relic.Lemmas.Fpx
open Relic.Model.Fpx Relic.Model.Formula
open Relic.Spec.Tower
open Relic.Lemmas.Tower (ringOps)

set_option linter.unusedSimpArgs false
set_option linter.unusedVariables false
set_option linter.unusedSectionVars false

variable {R : Type} [CommRing R]

/-- the operations of a commutative ring as the record the model is written over; inversion, halving and the zero
    test are parameters (a commutative ring has none in general) -/
def rOps (inv hlv : R → R) (isZero : R → Bool) : FOps R where
  zero := 0
  one := 1
  add := (· + ·)
  sub := (· - ·)
  mul := (· * ·)
  neg := Neg.neg
  sqr := fun a => a * a
  dbl := fun a => a + a
  hlv := hlv
  inv := inv
  ofNat := fun n => (n : R)
  isZero := isZero

section projections
variable (inv hlv : R → R) (isZero : R → Bool)
@[simp] theorem rOps_zero : (rOps inv hlv isZero).zero = 0 := rfl
@[simp] theorem rOps_one : (rOps inv hlv isZero).one = 1 := rfl
@[simp] theorem rOps_add (a b : R) : (rOps inv hlv isZero).add a b = a + b := rfl
@[simp] theorem rOps_sub (a b : R) : (rOps inv hlv isZero).sub a b = a - b := rfl
@[simp] theorem rOps_mul (a b : R) : (rOps inv hlv isZero).mul a b = a * b := rfl
@[simp] theorem rOps_neg (a : R) : (rOps inv hlv isZero).neg a = -a := rfl
@[simp] theorem rOps_sqr (a : R) : (rOps inv hlv isZero).sqr a = a * a := rfl
@[simp] theorem rOps_dbl (a : R) : (rOps inv hlv isZero).dbl a = a + a := rfl
@[simp] theorem rOps_hlv (a : R) : (rOps inv hlv isZero).hlv a = hlv a := rfl
@[simp] theorem rOps_inv (a : R) : (rOps inv hlv isZero).inv a = inv a := rfl
@[simp] theorem rOps_ofNat (n : Nat) : (rOps inv hlv isZero).ofNat n = (n : R) := rfl
@[simp] theorem rOps_isZero (a : R) : (rOps inv hlv isZero).isZero a = isZero a := rfl
end projections

theorem V2.ext' {E : Type} {a b : V2 E} (h0 : a.c0 = b.c0) (h1 : a.c1 = b.c1) : a = b := by
  cases a; cases b; simp_all

theorem V3.ext' {E : Type} {a b : V3 E} (h0 : a.c0 = b.c0) (h1 : a.c1 = b.c1) (h2 : a.c2 = b.c2) : a = b := by
  cases a; cases b; simp_all

/-! ### the repeated addition / subtraction loops -/

theorem iter_sub (t : R) : ∀ (n : Nat) (x : R), iter (fun y => y - t) n x = x - n * t
  | 0, x => by simp [iter]
  | n + 1, x => by rw [iter, iter_sub t n]; push_cast; ring

theorem iter_add (t : R) : ∀ (n : Nat) (x : R), iter (fun y => y + t) n x = x + n * t
  | 0, x => by simp [iter]
  | n + 1, x => by rw [iter, iter_add t n]; push_cast; ring

theorem toNat_cast {z : Int} (hz : 0 ≤ z) : ((z.toNat : Nat) : R) = (z : R) := by
  rw [← Int.cast_natCast, Int.toNat_of_nonneg hz]

theorem negLoop_cast {q : Int} (hq : q ≤ -1) : ((negLoop q : Nat) : R) = -1 - (q : R) := by
  have h : ((negLoop q : Nat) : Int) = -1 - q := by
    unfold negLoop; rw [Int.toNat_of_nonneg (by omega)]
  have := congrArg (fun z : Int => (z : R)) h
  simpa using this

theorem posLoop_zero {q : Int} (hq : q ≤ -1) : posLoop q = 0 := by
  unfold posLoop; omega

theorem posLoop0_zero {q : Int} (hq : q ≤ -1) : posLoop0 q = 0 := by
  unfold posLoop0; omega

theorem negLoop0_cast {c : Int} (hc : c ≤ 0) : ((negLoop0 c : Nat) : R) = 1 - (c : R) := by
  have h : ((negLoop0 c : Nat) : Int) = 1 - c := by
    unfold negLoop0; rw [Int.toNat_of_nonneg (by omega)]
  have := congrArg (fun z : Int => (z : R)) h
  simpa using this

theorem negLoop0_zero {c : Int} (hc : 1 ≤ c) : negLoop0 c = 0 := by
  unfold negLoop0; omega

theorem posLoop_cast {c : Int} (hc : 1 ≤ c) : ((posLoop c : Nat) : R) = (c : R) - 1 := by
  have h : ((posLoop c : Nat) : Int) = c - 1 := by
    unfold posLoop; rw [Int.toNat_of_nonneg (by omega)]
  have := congrArg (fun z : Int => (z : R)) h
  simpa using this

theorem posLoop_zero' {c : Int} (hc : c ≤ 1) : posLoop c = 0 := by
  unfold posLoop; omega

/-- the loops of fp3 compute c·x from one copy of x, for every integer c -/
theorem mulCnr_eq (inv hlv : R → R) (isZero : R → Bool) (c : Int) (x acc : R) :
    mulCnr (rOps inv hlv isZero) c x acc = acc + ((c : R) - 1) * x := by
  unfold mulCnr
  simp only [rOps_add, rOps_sub, iter_sub, iter_add]
  rcases le_or_gt c 0 with hc | hc
  · rw [negLoop0_cast hc, posLoop_zero' (by omega)]; push_cast; ring
  · rw [negLoop0_zero (by omega), posLoop_cast (by omega)]; push_cast; ring

/-! ## Part A: products, squares, inverses -/

/-- product in R[X]/(X² − ν) on coefficient pairs -/
def quadProd (ν : R) (a b : V2 R) : V2 R := ⟨a.c0 * b.c0 + ν * (a.c1 * b.c1), a.c0 * b.c1 + a.c1 * b.c0⟩
/-- product in R[X]/(X³ − ν) on coefficient triples -/
def cubProd (ν : R) (a b : V3 R) : V3 R :=
  ⟨a.c0 * b.c0 + ν * (a.c1 * b.c2 + a.c2 * b.c1), a.c0 * b.c1 + a.c1 * b.c0 + ν * (a.c2 * b.c2),
   a.c0 * b.c2 + a.c1 * b.c1 + a.c2 * b.c0⟩

def toList2 {E : Type} (a : V2 E) : List E := [a.c0, a.c1]
def toList3 {E : Type} (a : V3 E) : List E := [a.c0, a.c1, a.c2]

/-- the closed forms are the generic specification (schoolbook product, then folding modulo X^k − ν) -/
theorem quadProd_eq_mulMod (ν : R) (a b : V2 R) :
    toList2 (quadProd ν a b) = Poly.mulMod ringOps 2 ν (toList2 a) (toList2 b) := by
  simp [quadProd, toList2, Poly.mulMod, Poly.mul, Poly.add, Poly.scale, Poly.reduce, Poly.pad]
  all_goals (try (repeat' constructor) <;> ring)

theorem cubProd_eq_mulMod (ν : R) (a b : V3 R) :
    toList3 (cubProd ν a b) = Poly.mulMod ringOps 3 ν (toList3 a) (toList3 b) := by
  simp [cubProd, toList3, Poly.mulMod, Poly.mul, Poly.add, Poly.scale, Poly.reduce, Poly.pad]
  all_goals (try (repeat' constructor) <;> ring)

section partA
variable (inv : R → R) (hf : R) (isZero : R → Bool)
/- halving is multiplication by a constant hf with 2·hf = 1 (fp_hlv: (p+1)/2) -/
local notation "o" => rOps inv (fun x : R => hf * x) isZero

/-! #### fp2 over the prime field (q = fp_prime_get_qnr() ≤ −1, as fp_prime_set always chooses it) -/

theorem fp2Mul_eq (q : Int) (hq : q ≤ -1) (a b : V2 R) : fp2Mul o q a b = quadProd (q : R) a b := by
  apply V2.ext' <;>
  simp only [fp2Mul, quadProd, rOps_add, rOps_sub, rOps_mul, iter_sub, iter_add, negLoop_cast hq, posLoop_zero hq] <;>
  push_cast <;> ring

theorem fp2MulInteg_eq (q : Int) (hq : q ≤ -1) (a b : V2 R) : fp2MulInteg o q a b = quadProd (q : R) a b := by
  apply V2.ext' <;>
  simp only [fp2MulInteg, quadProd, rOps_add, rOps_sub, rOps_mul, iter_sub, iter_add, negLoop_cast hq] <;>
  push_cast <;> ring

theorem fp2Sqr_eq (q : Int) (hq : q ≤ -1) (a : V2 R) : fp2Sqr o q a = quadProd (q : R) a a := by
  unfold fp2Sqr
  by_cases h1 : q = -1
  · apply V2.ext' <;>
    simp only [quadProd, rOps_add, rOps_sub, rOps_mul, rOps_dbl, iter_sub, iter_add, negLoop_cast hq, posLoop_zero hq, if_pos h1] <;>
    subst h1 <;> push_cast <;> ring
  · apply V2.ext' <;>
    simp only [quadProd, rOps_add, rOps_sub, rOps_mul, rOps_dbl, iter_sub, iter_add, negLoop_cast hq, posLoop_zero hq, if_neg h1] <;>
    push_cast <;> ring

theorem fp2SqrInteg_eq (q : Int) (hq : q ≤ -1) (a : V2 R) : fp2SqrInteg o q a = quadProd (q : R) a a := by
  unfold fp2SqrInteg
  by_cases h1 : q = -1
  · apply V2.ext' <;>
    simp only [quadProd, rOps_add, rOps_sub, rOps_mul, rOps_dbl, iter_sub, iter_add, negLoop_cast hq, posLoop_zero hq, if_pos h1] <;>
    subst h1 <;> push_cast <;> ring
  · apply V2.ext' <;>
    simp only [quadProd, rOps_add, rOps_sub, rOps_mul, rOps_dbl, iter_sub, iter_add, negLoop_cast hq, posLoop_zero hq, if_neg h1] <;>
    push_cast <;> ring

theorem fp2MulArt_eq (q : Int) (hq : q ≤ -1) (a : V2 R) : fp2MulArt o q a = quadProd (q : R) a ⟨0, 1⟩ := by
  apply V2.ext' <;>
  simp only [fp2MulArt, quadProd, rOps_add, rOps_sub, rOps_neg, iter_sub, iter_add, negLoop_cast hq, posLoop0_zero hq] <;>
  push_cast <;> ring

/-- the norm a0² − q·a1² as fp2_inv accumulates it -/
def fp2Norm (q : Int) (a : V2 R) : R := a.c0 * a.c0 - (q : R) * (a.c1 * a.c1)

/-- fp2_inv returns the inverse whenever the base-field inversion inverts the norm -/
theorem fp2Inv_mul (q : Int) (a : V2 R) (hinv : inv (fp2Norm q a) * fp2Norm q a = 1) :
    quadProd (q : R) a (fp2Inv o q a) = ⟨1, 0⟩ := by
  have hn : ∀ t0 : R, t0 = fp2Norm q a → quadProd (q : R) a ⟨a.c0 * inv t0, -(a.c1 * inv t0)⟩ = ⟨1, 0⟩ := by
    intro t0 ht
    subst ht
    generalize inv (fp2Norm q a) = n at hinv ⊢
    unfold fp2Norm at hinv
    apply V2.ext' <;> simp only [quadProd]
    · linear_combination hinv
    · ring
  unfold fp2Inv
  simp only [rOps_add, rOps_sub, rOps_mul, rOps_neg, rOps_sqr, rOps_dbl, rOps_inv, mulSmall, rOps_ofNat]
  apply hn
  unfold fp2Norm
  by_cases h1 : q = -1
  · subst h1; simp
  · simp only [ne_eq, h1, not_false_eq_true, if_true]
    by_cases h2 : q = -2
    · subst h2; simp; ring
    · simp only [h2, if_false]
      by_cases h3 : q < 0
      · simp only [h3, if_true]
        rw [toNat_cast (by omega)]; push_cast; ring
      · simp only [h3, if_false]
        rw [toNat_cast (by omega)]; ring

theorem iter_v2Dbl (a : V2 R) : ∀ n : Nat, iter (v2Dbl o) n a = ⟨2 ^ n * a.c0, 2 ^ n * a.c1⟩
  | 0 => by simp [iter]
  | n + 1 => by
    rw [iter, iter_v2Dbl _ n]
    apply V2.ext' <;> simp only [v2Dbl, rOps_dbl] <;> ring

/-- fp2_mul_nor: every branch of the switch multiplies by the constant it is documented to multiply by:
    i for p ≡ 1, 5 (mod 8);  1 + i for p ≡ 3 (mod 8) with qnr2 = 1;  2^⌊log₂ qnr2⌋ + i otherwise -/
def fp2NorConst (mod8 qnr2 : Nat) : V2 R :=
  if mod8 = 1 ∨ mod8 = 5 then ⟨0, 1⟩
  else if mod8 = 3 ∧ qnr2 = 1 then ⟨1, 1⟩
  else ⟨2 ^ Nat.log2 qnr2, 1⟩

theorem fp2MulNor_eq (q : Int) (hq : q ≤ -1) (mod8 qnr2 : Nat) (a r : V2 R)
    (h : fp2MulNor o q mod8 qnr2 a = some r) (h3 : mod8 = 3 → qnr2 = 1 → q = -1) :
    r = quadProd (q : R) a (fp2NorConst mod8 qnr2) := by
  have gen : v2Add o (iter (v2Dbl o) (Nat.log2 qnr2) a) (fp2MulArt o q a) = quadProd (q : R) a ⟨2 ^ Nat.log2 qnr2, 1⟩ := by
    rw [iter_v2Dbl, fp2MulArt_eq inv hf isZero q hq]
    apply V2.ext' <;> simp only [v2Add, quadProd, rOps_add] <;> ring
  unfold fp2MulNor at h
  unfold fp2NorConst
  split at h
  · -- mod8 = 1
    simp only [Option.some.injEq] at h; subst h
    simp [fp2MulArt_eq inv hf isZero q hq]
  · simp only [Option.some.injEq] at h; subst h
    simp [fp2MulArt_eq inv hf isZero q hq]
  · -- mod8 = 3
    by_cases hq2 : qnr2 = 1
    · simp only [hq2, if_true, Option.some.injEq] at h; subst h
      have hq1 := h3 rfl hq2
      subst hq1
      simp only [hq2]
      apply V2.ext' <;> simp [quadProd] <;> ring
    · simp only [hq2, if_false, Option.some.injEq] at h; subst h
      simp only [hq2]
      simpa using gen
  · -- mod8 = 7
    simp only [Option.some.injEq] at h; subst h
    simpa using gen
  · exact absurd h (by simp)

/-! #### fp3 over the prime field (c = fp_prime_get_cnr(), any sign) -/

theorem fp3Mul_eq (c : Int) (a b : V3 R) : fp3Mul o c a b = cubProd (c : R) a b := by
  apply V3.ext' <;>
  simp only [fp3Mul, cubProd, mulCnr_eq, rOps_add, rOps_sub, rOps_mul] <;> ring

theorem fp3Sqr_eq (c : Int) (hh : 2 * hf = 1) (a : V3 R) : fp3Sqr o c a = cubProd (c : R) a a := by
  apply V3.ext' <;>
  simp only [fp3Sqr, cubProd, mulCnr_eq, rOps_add, rOps_sub, rOps_mul, rOps_sqr, rOps_dbl, rOps_hlv]
  · ring
  · linear_combination (-((a.c0 + a.c2) ^ 2 + a.c1 ^ 2)) * hh
  · linear_combination ((a.c0 + a.c2) ^ 2 + a.c1 ^ 2) * hh

/-- the norm form of a cubic element: a·(v0 + v1 X + v2 X²) = N with v0 = a0² − ν a1a2, v1 = ν a2² − a0a1, v2 = a1² − a0a2 -/
def cubNorm (ν : R) (a : V3 R) : R :=
  a.c0 * (a.c0 * a.c0 - ν * (a.c1 * a.c2)) + ν * (a.c1 * (a.c1 * a.c1 - a.c0 * a.c2)) + ν * (a.c2 * (ν * (a.c2 * a.c2) - a.c0 * a.c1))

theorem fp3MulArt_eq (c : Int) (a : V3 R) : fp3MulArt o c a = cubProd (c : R) a ⟨0, 1, 0⟩ := by
  apply V3.ext' <;> simp only [fp3MulArt, cubProd, mulCnr_eq] <;> ring

theorem fp3Inv_mul (c : Int) (a : V3 R) (hinv : inv (cubNorm (c : R) a) * cubNorm (c : R) a = 1) :
    cubProd (c : R) a (fp3Inv o c a) = ⟨1, 0, 0⟩ := by
  have key : ∀ n : R, n * cubNorm (c : R) a = 1 →
      cubProd (c : R) a ⟨(a.c0 * a.c0 - (c : R) * (a.c1 * a.c2)) * n, ((c : R) * (a.c2 * a.c2) - a.c0 * a.c1) * n,
        (a.c1 * a.c1 - a.c0 * a.c2) * n⟩ = ⟨1, 0, 0⟩ := by
    intro n hn
    unfold cubNorm at hn
    apply V3.ext' <;> simp only [cubProd]
    · linear_combination hn
    · ring
    · ring
  have hN : a.c0 * (a.c0 * a.c0 - (a.c1 * a.c2 + ((c : R) - 1) * (a.c1 * a.c2))) +
      (a.c1 * (a.c1 * a.c1 - a.c0 * a.c2) + ((c : R) - 1) * (a.c1 * (a.c1 * a.c1 - a.c0 * a.c2))) +
      (a.c2 * (a.c2 * a.c2 + ((c : R) - 1) * (a.c2 * a.c2) - a.c0 * a.c1) +
        ((c : R) - 1) * (a.c2 * (a.c2 * a.c2 + ((c : R) - 1) * (a.c2 * a.c2) - a.c0 * a.c1))) = cubNorm (c : R) a := by
    unfold cubNorm; ring
  unfold fp3Inv
  simp only [mulCnr_eq, rOps_add, rOps_sub, rOps_mul, rOps_sqr, rOps_inv]
  rw [hN]
  have := key (inv (cubNorm (c : R) a)) hinv
  rw [← this]
  apply V3.ext' <;> simp only [cubProd] <;> ring

/-! #### a quadratic level over an arbitrary commutative ring; `nor` = multiplication by ν -/

variable (ν : R)
local notation "nor" => (fun t : R => ν * t)

theorem quadMul_eq (a b : V2 R) : quadMul o nor a b = quadProd ν a b := by
  apply V2.ext' <;> simp only [quadMul, quadProd, rOps_add, rOps_sub, rOps_mul] <;> ring

theorem quadSqr_eq (a : V2 R) : quadSqr o nor a = quadProd ν a a := by
  apply V2.ext' <;> simp only [quadSqr, quadProd, rOps_add, rOps_sub, rOps_mul, rOps_dbl] <;> ring

theorem quadSqrUnr_eq (a : V2 R) : quadSqrUnr o nor a = quadProd ν a a := by
  apply V2.ext' <;> simp only [quadSqrUnr, quadProd, rOps_add, rOps_sub, rOps_mul, rOps_sqr] <;> ring

theorem quadArt_eq (a : V2 R) : quadArt nor a = quadProd ν a ⟨0, 1⟩ := by
  apply V2.ext' <;> simp only [quadArt, quadProd] <;> ring

/-- the norm a0² − ν·a1² -/
def quadNorm (a : V2 R) : R := a.c0 * a.c0 - ν * (a.c1 * a.c1)

theorem quadInv_mul (a : V2 R) (hinv : inv (quadNorm ν a) * quadNorm ν a = 1) :
    quadProd ν a (quadInv o nor a) = ⟨1, 0⟩ := by
  have hn : quadNorm ν a = a.c0 * a.c0 - ν * (a.c1 * a.c1) := rfl
  unfold quadInv
  simp only [rOps_sub, rOps_mul, rOps_neg, rOps_sqr, rOps_inv, ← hn]
  generalize inv (quadNorm ν a) = n at hinv ⊢
  rw [hn] at hinv
  apply V2.ext' <;> simp only [quadProd]
  · linear_combination hinv
  · ring

/-- the conjugate is the inverse of a unitary element (fpN_inv_cyc; a^(p^{n/2}) = conjugate in the field case) -/
theorem quadConj_mul (a : V2 R) (hu : quadNorm ν a = 1) : quadProd ν a (quadConj o a) = ⟨1, 0⟩ := by
  unfold quadNorm at hu
  apply V2.ext' <;> simp only [quadProd, quadConj, rOps_neg]
  · linear_combination hu
  · ring

/-- fp8_sqr_cyc / fp16_sqr_cyc: the squaring of a unitary element -/
theorem quadSqrCyc_eq (a : V2 R) (hu : quadNorm ν a = 1) : quadSqrCyc o nor a = quadProd ν a a := by
  unfold quadNorm at hu
  apply V2.ext' <;> simp only [quadSqrCyc, quadProd, rOps_add, rOps_sub, rOps_mul, rOps_sqr, rOps_dbl, rOps_one]
  · linear_combination (-1 : R) * hu
  · linear_combination hu

/-! #### a cubic level -/

theorem cubMul_eq (a b : V3 R) : cubMul o nor a b = cubProd ν a b := by
  apply V3.ext' <;> simp only [cubMul, cubProd, rOps_add, rOps_sub, rOps_mul] <;> ring

theorem cubSqr_eq (hh : 2 * hf = 1) (a : V3 R) : cubSqr o nor a = cubProd ν a a := by
  apply V3.ext' <;> simp only [cubSqr, cubProd, rOps_add, rOps_sub, rOps_mul, rOps_sqr, rOps_dbl, rOps_hlv]
  · ring
  · linear_combination (-((a.c0 + a.c2) ^ 2 + a.c1 ^ 2)) * hh
  · linear_combination ((a.c0 + a.c2) ^ 2 + a.c1 ^ 2) * hh

theorem cubArt_eq (a : V3 R) : cubArt nor a = cubProd ν a ⟨0, 1, 0⟩ := by
  apply V3.ext' <;> simp only [cubArt, cubProd] <;> ring

theorem cubInv_mul (a : V3 R) (hinv : inv (cubNorm ν a) * cubNorm ν a = 1) :
    cubProd ν a (cubInv o nor a) = ⟨1, 0, 0⟩ := by
  have hN : a.c0 * (a.c0 * a.c0 - ν * (a.c1 * a.c2)) + ν * (a.c1 * (a.c1 * a.c1 - a.c0 * a.c2)) +
      ν * (a.c2 * (ν * (a.c2 * a.c2) - a.c0 * a.c1)) = cubNorm ν a := rfl
  unfold cubInv
  simp only [rOps_add, rOps_sub, rOps_mul, rOps_sqr, rOps_inv, hN]
  generalize inv (cubNorm ν a) = n at hinv ⊢
  unfold cubNorm at hinv
  apply V3.ext' <;> simp only [cubProd]
  · linear_combination hinv
  · ring
  · ring

/-- fp6_mul_dxs / fp9_mul_dxs: equal to the full product when the third coefficient of b is zero -/
theorem cubMulDxs_eq (a b : V3 R) (hb : b.c2 = 0) : cubMulDxs o nor a b = cubProd ν a b := by
  apply V3.ext' <;> simp only [cubMulDxs, cubProd, rOps_add, rOps_sub, rOps_mul, hb] <;> ring

end partA

/-! ## Part B: the specialised forms of fp12 = fp6[w]/(w² − v), fp6 = K[v]/(v³ − ξ), K an arbitrary commutative ring
(K = fp2 in the library) -/

section partB
variable (inv : R → R) (hf : R) (isZero : R → Bool) (ξ : R)
local notation "o" => rOps inv (fun x : R => hf * x) isZero
local notation "nor" => (fun t : R => ξ * t)

def v3add (a b : V3 R) : V3 R := ⟨a.c0 + b.c0, a.c1 + b.c1, a.c2 + b.c2⟩

/-- product in (K[v]/(v³ − ξ))[w]/(w² − v) on coefficient vectors: quadProd over the cubic ring with ν = v -/
def fp12Prod (a b : Fp12 R) : Fp12 R :=
  ⟨v3add (cubProd ξ a.c0 b.c0) (cubProd ξ (cubProd ξ a.c1 b.c1) ⟨0, 1, 0⟩),
   v3add (cubProd ξ a.c0 b.c1) (cubProd ξ a.c1 b.c0)⟩

theorem Fp12.ext' {a b : Fp12 R} (h00 : a.c0.c0 = b.c0.c0) (h01 : a.c0.c1 = b.c0.c1) (h02 : a.c0.c2 = b.c0.c2)
    (h10 : a.c1.c0 = b.c1.c0) (h11 : a.c1.c1 = b.c1.c1) (h12 : a.c1.c2 = b.c1.c2) : a = b :=
  V2.ext' (V3.ext' h00 h01 h02) (V3.ext' h10 h11 h12)

@[simp] theorem cubOps_add (a b : V3 R) : (cubOps o nor).add a b = v3Add o a b := rfl
@[simp] theorem cubOps_sub (a b : V3 R) : (cubOps o nor).sub a b = v3Sub o a b := rfl

/-- the generic fp12 multiplication of the model (Karatsuba over Karatsuba) is this product -/
theorem fp12Mul_eq (a b : Fp12 R) : quadMul (cubOps o nor) (cubArt nor) a b = fp12Prod ξ a b := by
  apply Fp12.ext' <;>
  simp only [quadMul, cubOps, cubMul, cubArt, fp12Prod, v3add, cubProd, v3Add, v3Sub, rOps_add, rOps_sub, rOps_mul] <;> ring

/-- sparse operand of a D-type twist line function: b = (b00, 0, 0) + (b10, b11, 0)·w -/
def SparseD (b : Fp12 R) : Prop := b.c0.c1 = 0 ∧ b.c0.c2 = 0 ∧ b.c1.c2 = 0
/-- sparse operand of an M-type twist line function: b = (b00, b01, 0) + (0, b11, 0)·w -/
def SparseM (b : Fp12 R) : Prop := b.c0.c2 = 0 ∧ b.c1.c0 = 0 ∧ b.c1.c2 = 0

theorem fp12MulDxs_dtype (a b : Fp12 R) (hb : SparseD b) : fp12MulDxs o nor .dtype a b = fp12Prod ξ a b := by
  obtain ⟨h1, h2, h3⟩ := hb
  apply Fp12.ext' <;>
  simp only [fp12MulDxs, cubOps_add, cubOps_sub, cubMulDxs, cubArt, fp12Prod, v3add, cubProd, v3Add, v3Sub, rOps_add, rOps_sub,
    rOps_mul, rOps_zero, h1, h2, h3] <;> ring

theorem fp12MulDxs_mtype (a b : Fp12 R) (hb : SparseM b) : fp12MulDxs o nor .mtype a b = fp12Prod ξ a b := by
  obtain ⟨h1, h2, h3⟩ := hb
  apply Fp12.ext' <;>
  simp only [fp12MulDxs, cubOps_add, cubOps_sub, cubMulDxs, cubArt, fp12Prod, v3add, cubProd, v3Add, v3Sub, rOps_add, rOps_sub,
    rOps_mul, rOps_zero, h1, h2, h3] <;> ring

example : SparseD (⟨⟨(5 : ℤ), 0, 0⟩, ⟨7, 11, 0⟩⟩ : Fp12 ℤ) := ⟨rfl, rfl, rfl⟩
example : SparseM (⟨⟨(5 : ℤ), 7, 0⟩, ⟨0, 11, 0⟩⟩ : Fp12 ℤ) := ⟨rfl, rfl, rfl⟩

/-! ### the cyclotomic subgroup, algebraically

Write fp12 as a cubic extension of K4 = K[s]/(s² − ξ), s = w³:  α = A + C·w + B·w² with
A = a00 + a11·s, C = a10 + a02·s, B = a01 + a12·s. The p²-power map acts on K4 as the conjugation s ↦ −s and sends w to
γ·w with γ = ξ^((p²−1)/6) a primitive sixth root of unity (γ² − γ + 1 = 0). α^(p⁴ − p² + 1) = 1 (with α invertible) reads
α · α^(p⁴) = α^(p²); comparing the coefficients of 1, w, w² gives (`cyc_relations_of_frobenius`, over an abstract K4)

  C·B·s = A² − conj A,    A·C = B²·s + conj C,    A·B = C² − conj B,

the relations Granger and Scott derive. In coordinates over K these are the six equations of `IsCyc12`
(g0 = a00, g1 = a11, g2 = a10, g3 = a02, g4 = a01, g5 = a12 in the notation of the C comments). An element of order
dividing p⁶ + 1 … satisfies them too, since p⁴ − p² + 1 divides p⁶ + 1. -/

structure IsCyc12 (a : Fp12 R) : Prop where
  r1a : ξ * (a.c1.c0 * a.c1.c2 + a.c0.c2 * a.c0.c1) = a.c0.c0 ^ 2 + ξ * a.c1.c1 ^ 2 - a.c0.c0
  r1b : a.c1.c0 * a.c0.c1 + ξ * (a.c0.c2 * a.c1.c2) = 2 * a.c0.c0 * a.c1.c1 + a.c1.c1
  r2a : a.c0.c0 * a.c1.c0 + ξ * (a.c1.c1 * a.c0.c2) = 2 * ξ * (a.c0.c1 * a.c1.c2) + a.c1.c0
  r2b : a.c0.c0 * a.c0.c2 + a.c1.c1 * a.c1.c0 = a.c0.c1 ^ 2 + ξ * a.c1.c2 ^ 2 - a.c0.c2
  r3a : a.c0.c0 * a.c0.c1 + ξ * (a.c1.c1 * a.c1.c2) = a.c1.c0 ^ 2 + ξ * a.c0.c2 ^ 2 - a.c0.c1
  r3b : a.c0.c0 * a.c1.c2 + a.c1.c1 * a.c0.c1 = 2 * a.c1.c0 * a.c0.c2 + a.c1.c2

/-- the identity is cyclotomic: the hypotheses are satisfiable -/
example : IsCyc12 (7 : ℤ) ⟨⟨1, 0, 0⟩, ⟨0, 0, 0⟩⟩ := by constructor <;> norm_num

/-- Granger–Scott: on the cyclotomic subgroup fp12_sqr_cyc is the squaring -/
theorem fp12SqrCyc_eq (a : Fp12 R) (h : IsCyc12 ξ a) : fp12SqrCyc o nor a = fp12Prod ξ a a := by
  apply Fp12.ext' <;>
  simp only [fp12SqrCyc, fp12Prod, v3add, cubProd, rOps_add, rOps_sub, rOps_mul, rOps_sqr, rOps_dbl]
  · linear_combination (-2 : R) * h.r1a
  · linear_combination (-2 : R) * h.r3a
  · linear_combination (-2 : R) * h.r2b
  · linear_combination (-2 : R) * h.r2a
  · linear_combination (-2 : R) * h.r1b
  · linear_combination (-2 : R) * h.r3b

/-- Karabina: the compressed squaring writes the four retained coefficients of the square and leaves the other two -/
theorem fp12SqrPck_eq (c a : Fp12 R) (h : IsCyc12 ξ a) :
    (fp12SqrPck o nor c a).c0.c1 = (fp12Prod ξ a a).c0.c1 ∧ (fp12SqrPck o nor c a).c0.c2 = (fp12Prod ξ a a).c0.c2 ∧
    (fp12SqrPck o nor c a).c1.c0 = (fp12Prod ξ a a).c1.c0 ∧ (fp12SqrPck o nor c a).c1.c2 = (fp12Prod ξ a a).c1.c2 ∧
    (fp12SqrPck o nor c a).c0.c0 = c.c0.c0 ∧ (fp12SqrPck o nor c a).c1.c1 = c.c1.c1 := by
  refine ⟨?_, ?_, ?_, ?_, rfl, rfl⟩ <;>
  simp only [fp12SqrPck, fp12Prod, v3add, cubProd, rOps_add, rOps_sub, rOps_mul, rOps_sqr, rOps_dbl]
  · linear_combination (-2 : R) * h.r3a
  · linear_combination (-2 : R) * h.r2b
  · linear_combination (-2 : R) * h.r2a
  · linear_combination (-2 : R) * h.r3b

/-- the compressed squaring reads only the four retained coefficients of its operand -/
theorem fp12SqrPck_congr (c a a' : Fp12 R) (h01 : a.c0.c1 = a'.c0.c1) (h02 : a.c0.c2 = a'.c0.c2) (h10 : a.c1.c0 = a'.c1.c0)
    (h12 : a.c1.c2 = a'.c1.c2) : fp12SqrPck o nor c a = fp12SqrPck o nor c a' := by
  simp only [fp12SqrPck, h01, h02, h10, h12]

/-! #### decompression -/

/-- Karabina's first relation: 4·g2·g1 = ξ·g5² + 3·g4² − 2·g3 -/
theorem cyc_g1 (a : Fp12 R) (h : IsCyc12 ξ a) :
    4 * a.c1.c0 * a.c1.c1 = ξ * a.c1.c2 ^ 2 + 3 * a.c0.c1 ^ 2 - 2 * a.c0.c2 := by
  linear_combination (-a.c0.c2) * h.r1a + (-a.c1.c0) * h.r1b + (-a.c1.c1) * h.r2a + (2 - a.c0.c0) * h.r2b +
    (-a.c0.c1) * h.r3a + (-(a.c1.c2 * ξ)) * h.r3b

/-- the exceptional case g2 = 0: g3·g1 = 2·g4·g5 -/
theorem cyc_g1_exc (a : Fp12 R) (h : IsCyc12 ξ a) (h2 : a.c1.c0 = 0) :
    a.c0.c2 * a.c1.c1 = 2 * a.c0.c1 * a.c1.c2 := by
  have e1 := h.r1a; have e2 := h.r1b; have e3 := h.r2a; have e4 := h.r2b; have e5 := h.r3a; have e6 := h.r3b
  rw [h2] at e1 e2 e3 e4 e5 e6
  linear_combination (-2 * a.c1.c1 * a.c0.c2 + a.c0.c1 * a.c1.c2) * e1 +
    (a.c0.c0 * a.c0.c2 - 2 * a.c0.c2 - a.c0.c1 ^ 2) * e2 + (-2 * a.c1.c1 ^ 2) * e3 + (-a.c1.c1) * e4 +
    (a.c0.c0 * a.c1.c2 - 2 * a.c1.c1 * a.c0.c1 - 2 * a.c1.c2) * e5 + (-(a.c1.c1 * a.c1.c2 * ξ)) * e6

/-- the defect of Karabina's second relation g0 = ξ·(2·g1² + g2·g5 − 3·g3·g4) + 1 -/
def g0Defect (a : Fp12 R) : R :=
  a.c0.c0 - (ξ * (2 * a.c1.c1 ^ 2 + a.c1.c0 * a.c1.c2 - 3 * a.c0.c2 * a.c0.c1) + 1)

theorem cyc_g0_mul_g3 (a : Fp12 R) (h : IsCyc12 ξ a) : a.c0.c2 * g0Defect ξ a = 0 := by
  unfold g0Defect
  linear_combination (a.c0.c0 * a.c0.c2 + 2 * a.c0.c2 - a.c1.c2 ^ 2 * ξ) * h.r1a +
    (-ξ * (a.c1.c1 * a.c0.c2 - a.c0.c1 * a.c1.c2)) * h.r1b + (-a.c0.c0 * a.c1.c1 - a.c1.c1 + a.c1.c0 * a.c0.c1) * h.r2a +
    (a.c0.c0 ^ 2 - a.c1.c0 * a.c1.c2 * ξ - 1) * h.r2b + (a.c0.c0 * a.c0.c1 - a.c1.c1 * a.c1.c2 * ξ - a.c0.c1) * h.r3a +
    (a.c1.c2 * ξ) * h.r3b

theorem cyc_g0_mul_g1 (a : Fp12 R) (h : IsCyc12 ξ a) : a.c1.c1 * g0Defect ξ a = 0 := by
  unfold g0Defect
  linear_combination (2 * a.c1.c1 + a.c1.c0 * a.c0.c1) * h.r1a + (-a.c0.c0 + a.c1.c0 * a.c1.c2 * ξ + 1) * h.r1b +
    (a.c1.c0 ^ 2) * h.r2a + (a.c1.c0 * a.c0.c2 * ξ) * h.r2b + (a.c1.c0 * (a.c0.c0 - 1)) * h.r3a +
    (ξ * (a.c1.c1 * a.c1.c0 + a.c0.c2)) * h.r3b

theorem cyc_g0_mul_g4 (a : Fp12 R) (h : IsCyc12 ξ a) : a.c0.c1 * g0Defect ξ a = 0 := by
  unfold g0Defect
  linear_combination (a.c0.c0 * a.c0.c1 - a.c1.c1 * a.c1.c2 * ξ + 2 * a.c0.c1) * h.r1a +
    (ξ * (a.c0.c0 * a.c1.c2 - a.c1.c1 * a.c0.c1 - a.c1.c2)) * h.r1b + (a.c0.c0 * a.c1.c0 - a.c1.c1 * a.c0.c2 * ξ + a.c1.c0) * h.r2a +
    (ξ * (a.c0.c0 * a.c0.c2 - a.c1.c1 * a.c1.c0 - a.c0.c2)) * h.r2b + (a.c0.c0 ^ 2 - a.c1.c1 ^ 2 * ξ - 1) * h.r3a

theorem cyc_g0_mul_g5 (a : Fp12 R) (h : IsCyc12 ξ a) : a.c1.c2 * g0Defect ξ a = 0 := by
  unfold g0Defect
  linear_combination (a.c1.c1 * a.c0.c1) * h.r1a + (a.c1.c1 * a.c1.c2 * ξ + a.c0.c1) * h.r1b + (a.c1.c1 * a.c1.c0 - a.c0.c2) * h.r2a +
    (a.c1.c1 * a.c0.c2 * ξ + a.c1.c0) * h.r2b + (a.c0.c0 * a.c1.c1) * h.r3a + (a.c1.c1 ^ 2 * ξ + 1) * h.r3b

end partB

/-! ### decompression over a field (fp2 is one) -/

section backcyc
variable {F : Type} [Field F] [DecidableEq F] (hf ξ : F)

/-- the operations of a field -/
def fieldOps : FOps F := rOps (fun x => x⁻¹) (fun x => hf * x) (fun x => decide (x = 0))

local notation "fo" => fieldOps (F := F) hf
local notation "nor" => (fun t : F => ξ * t)

/-- the element is not the zero of fp12 -/
def NonZero12 (a : Fp12 F) : Prop :=
  ¬ (a.c0.c0 = 0 ∧ a.c0.c1 = 0 ∧ a.c0.c2 = 0 ∧ a.c1.c0 = 0 ∧ a.c1.c1 = 0 ∧ a.c1.c2 = 0)

/-- Karabina's second relation holds for every non-zero solution of the cyclotomic relations (the zero vector satisfies
    the six relations but not this one: it is not in the group) -/
theorem cyc_g0 (a : Fp12 F) (h : IsCyc12 ξ a) (hne : NonZero12 a) :
    a.c0.c0 = ξ * (2 * a.c1.c1 ^ 2 + a.c1.c0 * a.c1.c2 - 3 * a.c0.c2 * a.c0.c1) + 1 := by
  have key : g0Defect ξ a = 0 := by
    by_contra hd
    have z3 : a.c0.c2 = 0 := (mul_eq_zero.mp (cyc_g0_mul_g3 ξ a h)).resolve_right hd
    have z1 : a.c1.c1 = 0 := (mul_eq_zero.mp (cyc_g0_mul_g1 ξ a h)).resolve_right hd
    have z4 : a.c0.c1 = 0 := (mul_eq_zero.mp (cyc_g0_mul_g4 ξ a h)).resolve_right hd
    have z5 : a.c1.c2 = 0 := (mul_eq_zero.mp (cyc_g0_mul_g5 ξ a h)).resolve_right hd
    have e3 := h.r3a
    rw [z3, z1, z4, z5] at e3
    have z2 : a.c1.c0 = 0 := by
      have : a.c1.c0 ^ 2 = 0 := by linear_combination -e3
      exact pow_eq_zero_iff (two_ne_zero) |>.mp this
    have e1 := h.r1a
    rw [z3, z1, z4, z5, z2] at e1
    have : a.c0.c0 * (a.c0.c0 - 1) = 0 := by linear_combination -e1
    rcases mul_eq_zero.mp this with z0 | z0
    · exact hne ⟨z0, z4, z3, z2, z1, z5⟩
    · apply hd
      unfold g0Defect
      rw [z3, z1, z4, z5, z2]
      linear_combination z0
  unfold g0Defect at key
  linear_combination key

/-- the formula before the repair, regular case (g2 ≠ 0): it did return a -/
theorem fp12BackCycOld_regular (h2 : (2 : F) ≠ 0) (a x : Fp12 F) (h : IsCyc12 ξ a)
    (h01 : x.c0.c1 = a.c0.c1) (h02 : x.c0.c2 = a.c0.c2) (h10 : x.c1.c0 = a.c1.c0) (h12 : x.c1.c2 = a.c1.c2)
    (hg2 : a.c1.c0 ≠ 0) : fp12BackCycOld fo nor false x = a := by
  have hne : NonZero12 a := fun hz => hg2 hz.2.2.2.1
  have hg0 := cyc_g0 ξ a h hne
  have hg1 := cyc_g1 ξ a h
  have h4 : a.c1.c0 + a.c1.c0 + (a.c1.c0 + a.c1.c0) ≠ 0 := by
    have : a.c1.c0 + a.c1.c0 + (a.c1.c0 + a.c1.c0) = 2 * 2 * a.c1.c0 := by ring
    rw [this]; exact mul_ne_zero (mul_ne_zero h2 h2) hg2
  have e11 : (ξ * (a.c1.c2 * a.c1.c2) + (a.c0.c1 * a.c0.c1 - a.c0.c2 + (a.c0.c1 * a.c0.c1 - a.c0.c2) + a.c0.c1 * a.c0.c1)) *
      (a.c1.c0 + a.c1.c0 + (a.c1.c0 + a.c1.c0))⁻¹ = a.c1.c1 := by
    rw [mul_inv_eq_iff_eq_mul₀ h4]
    linear_combination -hg1
  apply Fp12.ext' <;>
  simp only [fp12BackCycOld, fieldOps, rOps_isZero, rOps_add, rOps_sub, rOps_mul, rOps_sqr, rOps_dbl, rOps_inv, rOps_one, h01, h02, h10, h12,
    decide_eq_true_eq, hg2, if_false, Bool.false_eq_true, e11]
  linear_combination -hg0

/-- the formula before the repair: the identity presented as the element 1 -/
theorem fp12BackCycOld_one : fp12BackCycOld fo nor true ⟨⟨1, 0, 0⟩, ⟨0, 0, 0⟩⟩ = ⟨⟨1, 0, 0⟩, ⟨0, 0, 0⟩⟩ := by
  apply Fp12.ext' <;>
  simp [fp12BackCycOld, fieldOps]

/-- the formula BEFORE the repair, exceptional case (g2 = 0, g3 ≠ 0): what it computed for g1 is
    (ξ·g5² + 3·(2·g4·g5) − 2·g3)/g3, and it is the coefficient of a only if g4·(4·g5 − 3·g4) = 0; the correct value is
    2·g4·g5/g3 (`cyc_g1_exc`). This was finding C10-F8, repaired in /repo; the current formula is `fp12BackCyc_eq`. -/
theorem fp12BackCycOld_exc_iff (a x : Fp12 F) (h : IsCyc12 ξ a)
    (h01 : x.c0.c1 = a.c0.c1) (h02 : x.c0.c2 = a.c0.c2) (h10 : x.c1.c0 = a.c1.c0) (h12 : x.c1.c2 = a.c1.c2)
    (hg2 : a.c1.c0 = 0) (hg3 : a.c0.c2 ≠ 0) :
    (fp12BackCycOld fo nor false x).c1.c1 = a.c1.c1 ↔ a.c0.c1 * (4 * a.c1.c2 - 3 * a.c0.c1) = 0 := by
  have hg1 := cyc_g1 ξ a h
  have hex := cyc_g1_exc ξ a h hg2
  rw [hg2] at hg1
  simp only [fp12BackCycOld, fieldOps, rOps_isZero, rOps_add, rOps_sub, rOps_mul, rOps_sqr, rOps_dbl, rOps_inv, rOps_one, h01, h02, h10, h12,
    decide_eq_true_eq, hg2, if_true, if_false, Bool.false_eq_true]
  rw [mul_inv_eq_iff_eq_mul₀ hg3]
  constructor
  · intro e; linear_combination e + hg1 + hex
  · intro e; linear_combination e - hg1 - hex

/-- the correct exceptional formula: g1 = 2·g4·g5/g3 -/
theorem cyc_g1_exc_div (a : Fp12 F) (h : IsCyc12 ξ a) (hg2 : a.c1.c0 = 0) (hg3 : a.c0.c2 ≠ 0) :
    a.c1.c1 = 2 * a.c0.c1 * a.c1.c2 * (a.c0.c2)⁻¹ := by
  rw [eq_mul_inv_iff_mul_eq₀ hg3]
  linear_combination cyc_g1_exc ξ a h hg2

/-! #### the decompression is total on the cyclotomic subgroup

Hypotheses on the field: 2 ≠ 0, ξ is not a square, −3 is a square (in fp2 every element of the prime field is one). -/

/-- with a non-square ξ, a cyclotomic element with g2 = g3 = 0 has g4 = g5 = 0 -/
theorem cyc_g2g3_zero (h2 : (2 : F) ≠ 0) (h3 : (3 : F) ≠ 0) (hns : ∀ y : F, y ^ 2 ≠ ξ) (ω : F) (hω : ω ^ 2 = -3)
    (a : Fp12 F) (h : IsCyc12 ξ a) (hg2 : a.c1.c0 = 0) (hg3 : a.c0.c2 = 0) : a.c0.c1 = 0 ∧ a.c1.c2 = 0 := by
  have hg1 := cyc_g1 ξ a h
  rw [hg2, hg3] at hg1
  have e : ξ * a.c1.c2 ^ 2 + 3 * a.c0.c1 ^ 2 = 0 := by linear_combination -hg1
  by_cases h5 : a.c1.c2 = 0
  · rw [h5] at e
    have : a.c0.c1 ^ 2 = 0 := by
      have : 3 * a.c0.c1 ^ 2 = 0 := by linear_combination e
      exact (mul_eq_zero.mp this).resolve_left h3
    exact ⟨pow_eq_zero_iff (two_ne_zero) |>.mp this, h5⟩
  · exfalso
    apply hns (ω * a.c0.c1 * (a.c1.c2)⁻¹)
    have : ξ * a.c1.c2 ^ 2 = (ω * a.c0.c1) ^ 2 := by
      rw [mul_pow, hω]; linear_combination e
    field_simp
    linear_combination -this

/-- the only non-zero cyclotomic element whose four retained coefficients vanish is the identity -/
theorem cyc_compressed_zero (h2 : (2 : F) ≠ 0) (hns : ∀ y : F, y ^ 2 ≠ ξ) (ω : F) (hω : ω ^ 2 = -3)
    (a : Fp12 F) (h : IsCyc12 ξ a) (hne : NonZero12 a)
    (z2 : a.c1.c0 = 0) (z3 : a.c0.c2 = 0) (z4 : a.c0.c1 = 0) (z5 : a.c1.c2 = 0) : a.c0.c0 = 1 ∧ a.c1.c1 = 0 := by
  have e1 := h.r1a; have e2 := h.r1b
  rw [z2, z3, z4, z5] at e1 e2
  have hg1 : a.c1.c1 = 0 := by
    by_contra hn
    have hg0 : 2 * a.c0.c0 + 1 = 0 := by
      have : a.c1.c1 * (2 * a.c0.c0 + 1) = 0 := by linear_combination -e2
      exact (mul_eq_zero.mp this).resolve_left hn
    -- then 4·ξ·g1² = −3, so ξ = (ω/(2·g1))²
    have e : 4 * ξ * a.c1.c1 ^ 2 = ω ^ 2 := by
      rw [hω]; linear_combination (-4 : F) * e1 + (3 - 2 * a.c0.c0) * hg0
    apply hns (ω * (2 * a.c1.c1)⁻¹)
    have h2g : (2 * a.c1.c1) ≠ 0 := mul_ne_zero h2 hn
    field_simp
    linear_combination -e
  refine ⟨?_, hg1⟩
  rw [hg1] at e1
  have : a.c0.c0 * (a.c0.c0 - 1) = 0 := by linear_combination -e1
  rcases mul_eq_zero.mp this with z0 | z0
  · exact absurd ⟨z0, z4, z3, z2, hg1, z5⟩ hne
  · linear_combination z0

/-- **fp12_back_cyc decompresses every element of the cyclotomic subgroup** from any operand that carries its four
    retained coefficients -/
theorem fp12BackCyc_eq (h2 : (2 : F) ≠ 0) (h3 : (3 : F) ≠ 0) (hns : ∀ y : F, y ^ 2 ≠ ξ) (ω : F) (hω : ω ^ 2 = -3)
    (a x : Fp12 F) (h : IsCyc12 ξ a) (hne : NonZero12 a)
    (h01 : x.c0.c1 = a.c0.c1) (h02 : x.c0.c2 = a.c0.c2) (h10 : x.c1.c0 = a.c1.c0) (h12 : x.c1.c2 = a.c1.c2) :
    fp12BackCyc fo nor x = a := by
  have hg0 := cyc_g0 ξ a h hne
  by_cases hg2 : a.c1.c0 = 0
  · by_cases hg3 : a.c0.c2 = 0
    · -- the identity
      obtain ⟨z4, z5⟩ := cyc_g2g3_zero ξ h2 h3 hns ω hω a h hg2 hg3
      obtain ⟨z0, z1⟩ := cyc_compressed_zero ξ h2 hns ω hω a h hne hg2 hg3 z4 z5
      apply Fp12.ext' <;>
      simp [fp12BackCyc, fieldOps, h01, h02, h10, h12, hg2, hg3, z4, z5, z0, z1]
    · -- exceptional branch: g1 = 2·g4·g5/g3
      have hg1 := cyc_g1_exc_div ξ a h hg2 hg3
      have e11 : (a.c0.c1 * a.c1.c2 + a.c0.c1 * a.c1.c2) * (a.c0.c2)⁻¹ = a.c1.c1 := by
        rw [hg1]; ring
      apply Fp12.ext' <;>
      simp only [fp12BackCyc, fieldOps, rOps_isZero, rOps_add, rOps_sub, rOps_mul, rOps_sqr, rOps_dbl, rOps_inv, rOps_one, h01, h02,
        h10, h12, decide_eq_true_eq, hg2, hg3, if_true, if_false, Bool.false_eq_true, Bool.and_false, Bool.false_and, Bool.true_and,
        decide_true, decide_false, e11]
      rw [hg2] at hg0
      linear_combination -hg0 + (0 : F) * hg2
  · -- regular branch
    have hg1 := cyc_g1 ξ a h
    have h4 : a.c1.c0 + a.c1.c0 + (a.c1.c0 + a.c1.c0) ≠ 0 := by
      have : a.c1.c0 + a.c1.c0 + (a.c1.c0 + a.c1.c0) = 2 * 2 * a.c1.c0 := by ring
      rw [this]; exact mul_ne_zero (mul_ne_zero h2 h2) hg2
    have e11 : (ξ * (a.c1.c2 * a.c1.c2) + (a.c0.c1 * a.c0.c1 - a.c0.c2 + (a.c0.c1 * a.c0.c1 - a.c0.c2) + a.c0.c1 * a.c0.c1)) *
        (a.c1.c0 + a.c1.c0 + (a.c1.c0 + a.c1.c0))⁻¹ = a.c1.c1 := by
      rw [mul_inv_eq_iff_eq_mul₀ h4]
      linear_combination -hg1
    apply Fp12.ext' <;>
    simp only [fp12BackCyc, fieldOps, rOps_isZero, rOps_add, rOps_sub, rOps_mul, rOps_sqr, rOps_dbl, rOps_inv, rOps_one, h01, h02,
      h10, h12, decide_eq_true_eq, hg2, if_false, Bool.false_eq_true, Bool.false_and, decide_false, e11]
    linear_combination -hg0

end backcyc

/-! ### the relations from the p²-power map (abstractly)

K4 any commutative ring with an involutive ring endomorphism `conj` (the p²-power map on fp4), s ∈ K4 with
conj s = −s, γ ∈ K4 fixed by conj with γ² − γ + 1 = 0. For α = a + b·w + c·w² (w³ = s) put
φ(α) = conj a + γ·conj b·w + γ²·conj c·w² — the p²-power map when γ = ξ^((p²−1)/6). Then α·φ(φ(α)) = φ(α), i.e.
α^(p⁴+1) = α^(p²), is equivalent to the three Granger–Scott relations. -/

section frobenius
variable {K : Type} [CommRing K] (conj : K →+* K) (s γ : K)

def frobQ (x : V3 K) : V3 K := ⟨conj x.c0, γ * conj x.c1, γ ^ 2 * conj x.c2⟩

theorem cyc_relations_iff (hinv : ∀ z, conj (conj z) = z) (hγ : γ ^ 2 - γ + 1 = 0) (hcγ : conj γ = γ) (x : V3 K) :
    cubProd s x (frobQ conj γ (frobQ conj γ x)) = frobQ conj γ x ↔
      (x.c1 * x.c2 * s = x.c0 ^ 2 - conj x.c0 ∧ x.c0 * x.c1 = x.c2 ^ 2 * s + conj x.c1 ∧ x.c0 * x.c2 = x.c1 ^ 2 - conj x.c2) := by
  have hu : γ * (1 - γ) = 1 := by linear_combination -hγ
  have h3 : γ ^ 3 = -1 := by linear_combination (γ + 1) * hγ
  constructor
  · intro hx
    have e0 := congrArg V3.c0 hx
    have e1 := congrArg V3.c1 hx
    have e2 := congrArg V3.c2 hx
    simp only [cubProd, frobQ, map_mul, map_pow, hinv, hcγ] at e0 e1 e2
    refine ⟨?_, ?_, ?_⟩
    · linear_combination (-1 : K) * e0 + (x.c1 * x.c2 * s * (γ ^ 2 + γ + 1)) * hγ
    · have : γ * (x.c0 * x.c1 - x.c2 ^ 2 * s - conj x.c1) = 0 := by
        linear_combination e1 - (x.c0 * x.c1 + s * x.c2 ^ 2 * γ * (γ + 1)) * hγ
      linear_combination (1 - γ) * this + (x.c0 * x.c1 - x.c2 ^ 2 * s - conj x.c1) * hγ
    · have : γ ^ 2 * (x.c1 ^ 2 - x.c0 * x.c2 - conj x.c2) = 0 := by
        linear_combination e2 - (x.c0 * x.c2 * (γ ^ 2 + γ + 1)) * hγ
      linear_combination (-(1 - γ) ^ 2) * this +
        (-(x.c1 ^ 2 - x.c0 * x.c2 - conj x.c2) * (2 - (γ ^ 2 - γ + 1))) * hγ
  · rintro ⟨r1, r2, r3⟩
    apply V3.ext' <;> simp only [cubProd, frobQ, map_mul, map_pow, hinv, hcγ]
    · linear_combination (γ ^ 4 + γ - 1) * r1 +
        (x.c0 ^ 2 * γ ^ 2 + x.c0 ^ 2 * γ + x.c1 * x.c2 * s - conj x.c0 * γ ^ 2 - conj x.c0 * γ) * hγ
    · linear_combination (-γ ^ 4) * r2 +
        (x.c0 * x.c1 * γ ^ 2 + x.c0 * x.c1 * γ + x.c0 * x.c1 - conj x.c1 * γ ^ 2 - conj x.c1 * γ) * hγ
    · linear_combination (1 - γ) * r3 + (x.c0 * x.c2 * γ ^ 2 + x.c0 * x.c2 * γ + x.c1 ^ 2 - conj x.c2) * hγ

end frobenius

/-! ## Part C: the stacked model

`OpsHom o ev half`: the map `ev : E → S` into a commutative ring carries the operations of the record `o` to the ring
operations (halving to multiplication by `half`). If the operations of a level have this property, so have the
operations of the quadratic / cubic level the model builds on it, for the evaluation  a ↦ ev a₀ + ev a₁·x (+ ev a₂·x²)
at any root x of X² − ν (X³ − ν) in S. Starting from `natOps p → ZMod p` this covers the model exactly as the driver
runs it: whatever ring S contains the roots (e.g. the iterated quotient ring itself), evaluation of the model's results
is the ring operation on the evaluations of the operands. -/

section partC
variable {E S : Type} [CommRing S]

structure OpsHom (o : FOps E) (ev : E → S) (half : S) : Prop where
  zero : ev o.zero = 0
  one : ev o.one = 1
  add : ∀ a b, ev (o.add a b) = ev a + ev b
  sub : ∀ a b, ev (o.sub a b) = ev a - ev b
  mul : ∀ a b, ev (o.mul a b) = ev a * ev b
  neg : ∀ a, ev (o.neg a) = - ev a
  sqr : ∀ a, ev (o.sqr a) = ev a * ev a
  dbl : ∀ a, ev (o.dbl a) = ev a + ev a
  hlv : ∀ a, ev (o.hlv a) = half * ev a

variable {o : FOps E} {ev : E → S} {half : S}

theorem OpsHom.iter_sub (h : OpsHom o ev half) (t : E) : ∀ (n : Nat) (x : E),
    ev (iter (fun y => o.sub y t) n x) = ev x - n * ev t
  | 0, x => by simp [iter]
  | n + 1, x => by rw [iter, OpsHom.iter_sub h t n, h.sub]; push_cast; ring

theorem OpsHom.iter_add (h : OpsHom o ev half) (t : E) : ∀ (n : Nat) (x : E),
    ev (iter (fun y => o.add y t) n x) = ev x + n * ev t
  | 0, x => by simp [iter]
  | n + 1, x => by rw [iter, OpsHom.iter_add h t n, h.add]; push_cast; ring

/-- evaluation of a pair / triple at x -/
def ev2 (ev : E → S) (x : S) (a : V2 E) : S := ev a.c0 + ev a.c1 * x
def ev3 (ev : E → S) (x : S) (a : V3 E) : S := ev a.c0 + ev a.c1 * x + ev a.c2 * (x * x)

/-- a quadratic level -/
theorem quadHom (h : OpsHom o ev half) (nor : E → E) (ν x : S) (hn : ∀ a, ev (nor a) = ν * ev a) (hx : x * x = ν) :
    OpsHom (quadOps o nor) (ev2 ev x) half where
  zero := by simp [quadOps, ev2, h.zero]
  one := by simp [quadOps, ev2, h.zero, h.one]
  add a b := by simp only [quadOps, ev2, v2Add, h.add]; ring
  sub a b := by simp only [quadOps, ev2, v2Sub, h.sub]; ring
  neg a := by simp only [quadOps, ev2, v2Neg, h.neg]; ring
  dbl a := by simp only [quadOps, ev2, v2Dbl, h.dbl]; ring
  hlv a := by simp only [quadOps, ev2, v2Hlv, h.hlv]; ring
  mul a b := by
    simp only [quadOps, ev2, quadMul, h.add, h.sub, h.mul, hn]
    linear_combination (-(ev a.c1 * ev b.c1)) * hx
  sqr a := by
    simp only [quadOps, ev2, quadSqr, h.add, h.sub, h.mul, h.dbl, hn]
    linear_combination (-(ev a.c1 * ev a.c1)) * hx

theorem quadArt_ev (nor : E → E) (ν x : S) (hn : ∀ a, ev (nor a) = ν * ev a) (hx : x * x = ν) (a : V2 E) :
    ev2 ev x (quadArt nor a) = x * ev2 ev x a := by
  simp only [ev2, quadArt, hn]
  linear_combination (-(ev a.c1)) * hx

/-- a cubic level -/
theorem cubHom (h : OpsHom o ev half) (hh : 2 * half = 1) (nor : E → E) (ν x : S) (hn : ∀ a, ev (nor a) = ν * ev a)
    (hx : x * x * x = ν) : OpsHom (cubOps o nor) (ev3 ev x) half where
  zero := by simp [cubOps, ev3, h.zero]
  one := by simp [cubOps, ev3, h.zero, h.one]
  add a b := by simp only [cubOps, ev3, v3Add, h.add]; ring
  sub a b := by simp only [cubOps, ev3, v3Sub, h.sub]; ring
  neg a := by simp only [cubOps, ev3, v3Neg, h.neg]; ring
  dbl a := by simp only [cubOps, ev3, v3Dbl, h.dbl]; ring
  hlv a := by simp only [cubOps, ev3, v3Hlv, h.hlv]; ring
  mul a b := by
    simp only [cubOps, ev3, cubMul, h.add, h.sub, h.mul, hn]
    linear_combination (-(ev a.c1 * ev b.c2 + ev a.c2 * ev b.c1) - ev a.c2 * ev b.c2 * x) * hx
  sqr a := by
    simp only [cubOps, ev3, cubSqr, h.add, h.sub, h.mul, h.sqr, h.dbl, h.hlv, hn]
    linear_combination (-(2 * ev a.c1 * ev a.c2) - ev a.c2 * ev a.c2 * x) * hx +
      (((ev a.c0 + ev a.c2) ^ 2 + ev a.c1 ^ 2) * (x * x - x)) * hh

theorem cubArt_ev (nor : E → E) (ν x : S) (hn : ∀ a, ev (nor a) = ν * ev a) (hx : x * x * x = ν) (a : V3 E) :
    ev3 ev x (cubArt nor a) = x * ev3 ev x a := by
  simp only [ev3, cubArt, hn]
  linear_combination (-(ev a.c2)) * hx

/-- fp2 over a base whose operations are carried to a ring (the qnr loops) -/
theorem fp2Hom (h : OpsHom o ev half) (q : Int) (hq : q ≤ -1) (x : S) (hx : x * x = (q : S)) :
    OpsHom (fp2Ops o q) (ev2 ev x) half where
  zero := by simp [fp2Ops, ev2, h.zero]
  one := by simp [fp2Ops, ev2, h.zero, h.one]
  add a b := by simp only [fp2Ops, ev2, v2Add, h.add]; ring
  sub a b := by simp only [fp2Ops, ev2, v2Sub, h.sub]; ring
  neg a := by simp only [fp2Ops, ev2, v2Neg, h.neg]; ring
  dbl a := by simp only [fp2Ops, ev2, v2Dbl, h.dbl]; ring
  hlv a := by simp only [fp2Ops, ev2, v2Hlv, h.hlv]; ring
  mul a b := by
    simp only [fp2Ops, ev2, fp2Mul, h.add, h.sub, h.mul, h.iter_sub, h.iter_add, negLoop_cast hq, posLoop_zero hq]
    push_cast
    linear_combination (-(ev a.c1 * ev b.c1)) * hx
  sqr a := by
    simp only [fp2Ops, ev2, fp2Sqr]
    by_cases h1 : q = -1
    · simp only [if_pos h1, h.add, h.sub, h.mul, h.dbl, h.iter_sub, h.iter_add, negLoop_cast hq, posLoop_zero hq]
      subst h1; push_cast at hx ⊢
      linear_combination (-(ev a.c1 * ev a.c1)) * hx
    · simp only [if_neg h1, h.add, h.sub, h.mul, h.dbl, h.iter_sub, h.iter_add, negLoop_cast hq, posLoop_zero hq]
      push_cast
      linear_combination (-(ev a.c1 * ev a.c1)) * hx

theorem fp2MulArt_ev (h : OpsHom o ev half) (q : Int) (hq : q ≤ -1) (x : S) (hx : x * x = (q : S)) (a : V2 E) :
    ev2 ev x (fp2MulArt o q a) = x * ev2 ev x a := by
  simp only [ev2, fp2MulArt, h.neg, h.iter_sub, h.iter_add, negLoop_cast hq, posLoop0_zero hq]
  push_cast
  linear_combination (-(ev a.c1)) * hx

/-- fp3 over such a base (the cnr loops; Chung–Hasan squaring needs 2·half = 1) -/
theorem OpsHom.mulCnr (h : OpsHom o ev half) (c : Int) (t acc : E) :
    ev (mulCnr o c t acc) = ev acc + ((c : S) - 1) * ev t := by
  unfold Relic.Model.Fpx.mulCnr
  rw [h.iter_sub, h.iter_add]
  rcases le_or_gt c 0 with hc | hc
  · rw [negLoop0_cast hc, posLoop_zero' (by omega)]; push_cast; ring
  · rw [negLoop0_zero (by omega), posLoop_cast (by omega)]; push_cast; ring

theorem fp3Hom (h : OpsHom o ev half) (hh : 2 * half = 1) (c : Int) (x : S) (hx : x * x * x = (c : S)) :
    OpsHom (fp3Ops o c) (ev3 ev x) half where
  zero := by simp [fp3Ops, ev3, h.zero]
  one := by simp [fp3Ops, ev3, h.zero, h.one]
  add a b := by simp only [fp3Ops, ev3, v3Add, h.add]; ring
  sub a b := by simp only [fp3Ops, ev3, v3Sub, h.sub]; ring
  neg a := by simp only [fp3Ops, ev3, v3Neg, h.neg]; ring
  dbl a := by simp only [fp3Ops, ev3, v3Dbl, h.dbl]; ring
  hlv a := by simp only [fp3Ops, ev3, v3Hlv, h.hlv]; ring
  mul a b := by
    simp only [fp3Ops, ev3, fp3Mul, h.mulCnr, h.add, h.sub, h.mul]
    linear_combination (-(ev a.c1 * ev b.c2 + ev a.c2 * ev b.c1) - ev a.c2 * ev b.c2 * x) * hx
  sqr a := by
    simp only [fp3Ops, ev3, fp3Sqr, h.mulCnr, h.add, h.sub, h.mul, h.sqr, h.dbl, h.hlv]
    linear_combination (-(2 * ev a.c1 * ev a.c2) - ev a.c2 * ev a.c2 * x) * hx +
      (((ev a.c0 + ev a.c2) ^ 2 + ev a.c1 ^ 2) * (x * x - x)) * hh

/-- the base of the stack: arithmetic modulo an odd prime on Nat, evaluated in ZMod p -/
theorem natHom (p : Nat) (hodd : p % 2 = 1) :
    OpsHom (natOps p) (fun n : Nat => (n : ZMod p)) (((p + 1) / 2 : Nat) : ZMod p) where
  zero := by simp [natOps]
  one := by simp [natOps]
  add a b := by simp [natOps]
  sub a b := by
    simp only [natOps]
    have hb : b % p ≤ p := Nat.le_of_lt (Nat.mod_lt _ (by omega))
    rw [ZMod.natCast_mod, Nat.add_sub_assoc hb, Nat.cast_add, Nat.cast_sub hb]
    simp [sub_eq_add_neg]
  mul a b := by simp [natOps]
  neg a := by
    simp only [natOps]
    have ha : a % p ≤ p := Nat.le_of_lt (Nat.mod_lt _ (by omega))
    rw [ZMod.natCast_mod, Nat.cast_sub ha]
    simp
  sqr a := by simp [natOps]
  dbl a := by simp [natOps]
  hlv a := by simp [natOps, mul_comm]

/-- (p+1)/2 is the inverse of 2 modulo an odd p -/
theorem half_spec (p : Nat) (hodd : p % 2 = 1) : 2 * (((p + 1) / 2 : Nat) : ZMod p) = 1 := by
  have : 2 * ((p + 1) / 2) = p + 1 := by omega
  have h := congrArg (fun n : Nat => (n : ZMod p)) this
  simpa using h

/-- composition with a ring homomorphism -/
theorem OpsHom.comp {S' : Type} [CommRing S'] (h : OpsHom o ev half) (φ : S →+* S') :
    OpsHom o (fun a => φ (ev a)) (φ half) where
  zero := by simp [h.zero]
  one := by simp [h.one]
  add a b := by simp [h.add]
  sub a b := by simp [h.sub]
  mul a b := by simp [h.mul]
  neg a := by simp [h.neg]
  sqr a := by simp [h.sqr]
  dbl a := by simp [h.dbl]
  hlv a := by simp [h.hlv]

theorem iter_v2Dbl_ev (h : OpsHom o ev half) (x : S) (a : V2 E) : ∀ n : Nat,
    ev2 ev x (iter (v2Dbl o) n a) = 2 ^ n * ev2 ev x a
  | 0 => by simp [iter]
  | n + 1 => by
    rw [iter, iter_v2Dbl_ev h x _ n]
    simp only [ev2, v2Dbl, h.dbl]; ring

/-- the constant fp2_mul_nor multiplies by, as an element of S (x = the image of the adjoined root i) -/
def norConstS (x : S) (mod8 qnr2 : Nat) : S :=
  if mod8 = 1 ∨ mod8 = 5 then x
  else if mod8 = 3 ∧ qnr2 = 1 then 1 + x
  else 2 ^ Nat.log2 qnr2 + x

theorem fp2MulNor_ev (h : OpsHom o ev half) (q : Int) (hq : q ≤ -1) (x : S) (hx : x * x = (q : S)) (mod8 qnr2 : Nat)
    (a r : V2 E) (hr : fp2MulNor o q mod8 qnr2 a = some r) (h3 : mod8 = 3 → qnr2 = 1 → q = -1) :
    ev2 ev x r = norConstS x mod8 qnr2 * ev2 ev x a := by
  have gen : ev2 ev x (v2Add o (iter (v2Dbl o) (Nat.log2 qnr2) a) (fp2MulArt o q a)) = (2 ^ Nat.log2 qnr2 + x) * ev2 ev x a := by
    have e1 := iter_v2Dbl_ev h x a (Nat.log2 qnr2)
    have e2 := fp2MulArt_ev h q hq x hx a
    simp only [ev2, v2Add, h.add] at e1 e2 ⊢
    linear_combination e1 + e2
  unfold fp2MulNor at hr
  unfold norConstS
  split at hr
  · simp only [Option.some.injEq] at hr; subst hr
    simp [fp2MulArt_ev h q hq x hx]
  · simp only [Option.some.injEq] at hr; subst hr
    simp [fp2MulArt_ev h q hq x hx]
  · by_cases hq2 : qnr2 = 1
    · simp only [hq2, if_true, Option.some.injEq] at hr; subst hr
      have hq1 := h3 rfl hq2
      subst hq1
      simp only [hq2, ev2, h.add, h.neg]
      push_cast at hx
      simp
      linear_combination (-(ev a.c1)) * hx
    · simp only [hq2, if_false, Option.some.injEq] at hr; subst hr
      simpa [hq2] using gen
  · simp only [Option.some.injEq] at hr; subst hr
    simpa using gen
  · exact absurd hr (by simp)

/-- **the fp12 model as the driver stacks it** (`Driver.C10.Env.l12`): over Z/pZ on Nat, fp2 with the qnr loops, fp6
    with fp2_mul_nor, fp12 with fp6_mul_art. For every commutative ring S with a homomorphism from Z/pZ and elements
    i, v, w with i² = qnr, v³ = ξ (the constant of fp2_mul_nor), w² = v, the evaluation
    a ↦ Σ a_{jkl} · i^l · v^k · w^j carries all operations of the stack to the ring operations of S. -/
theorem fp12_stack_hom (p : Nat) (hodd : p % 2 = 1) (q : Int) (hq : q ≤ -1) (mod8 qnr2 : Nat)
    (hm : mod8 = 1 ∨ mod8 = 3 ∨ mod8 = 5 ∨ mod8 = 7) (h3 : mod8 = 3 → qnr2 = 1 → q = -1)
    {S : Type} [CommRing S] (φ : ZMod p →+* S) (i v w : S) (hi : i * i = (q : S))
    (hv : v * v * v = norConstS i mod8 qnr2) (hw : w * w = v) :
    let nor2 : V2 Nat → V2 Nat := fun a => (fp2MulNor (natOps p) q mod8 qnr2 a).getD a
    OpsHom (quadOps (cubOps (fp2Ops (natOps p) q) nor2) (cubArt nor2))
      (ev2 (ev3 (ev2 (fun n : Nat => φ (n : ZMod p)) i) v) w) (φ (((p + 1) / 2 : Nat) : ZMod p)) := by
  intro nor2
  have hb := (natHom p hodd).comp φ
  have hh : 2 * φ (((p + 1) / 2 : Nat) : ZMod p) = 1 := by
    have := congrArg φ (half_spec p hodd)
    rw [map_mul, map_one, map_ofNat] at this
    exact this
  have h2 := fp2Hom hb q hq i hi
  have hn2 : ∀ a, ev2 (fun n : Nat => φ (n : ZMod p)) i (nor2 a) = norConstS i mod8 qnr2 * ev2 (fun n : Nat => φ (n : ZMod p)) i a := by
    intro a
    have hsome : ∃ r, fp2MulNor (natOps p) q mod8 qnr2 a = some r := by
      unfold fp2MulNor
      rcases hm with rfl | rfl | rfl | rfl
      · exact ⟨_, rfl⟩
      · by_cases hq2 : qnr2 = 1
        · simp [hq2]
        · simp [hq2]
      · exact ⟨_, rfl⟩
      · exact ⟨_, rfl⟩
    obtain ⟨r, hr⟩ := hsome
    have : nor2 a = r := by simp [nor2, hr]
    rw [this]
    exact fp2MulNor_ev hb q hq i hi mod8 qnr2 a r hr h3
  have h6 := cubHom h2 hh nor2 _ v hn2 hv
  exact quadHom h6 (cubArt nor2) v w (cubArt_ev nor2 _ v hn2 hv) hw

end partC

/-! ## Part D: loops -/

section partD
variable {E S : Type} [CommRing S] {o : FOps E} {ev : E → S} {half : S}

/-- value of a bit string with an implicit leading 1 -/
def bitsVal (bits : List Bool) : Nat := bits.foldl (fun acc b => 2 * acc + (if b then 1 else 0)) 1

theorem expBin_aux (h : OpsHom o ev half) (a : E) : ∀ (bits : List Bool) (t : E) (n : Nat), ev t = ev a ^ n →
    ev (bits.foldl (fun t b => let t := o.sqr t; if b then o.mul t a else t) t) =
      ev a ^ (bits.foldl (fun acc b => 2 * acc + (if b then 1 else 0)) n)
  | [], t, n, ht => by simpa using ht
  | b :: bs, t, n, ht => by
    simp only [List.foldl_cons]
    apply expBin_aux h a bs
    cases b
    · simp only [h.sqr, ht, Bool.false_eq_true, if_false, add_zero]; ring
    · simp only [h.sqr, h.mul, ht, if_true]; ring

/-- fpN_exp (plain branch): left-to-right square-and-multiply computes the power -/
theorem expBin_eq (h : OpsHom o ev half) (a : E) (bits : List Bool) :
    ev (expBin o a bits) = ev a ^ bitsVal bits := by
  unfold expBin bitsVal
  exact expBin_aux h a bits a 1 (by simp)

end partD

/-! ### simultaneous inversion (Montgomery's trick, fpN_inv_sim) over a field -/

section invsim
variable {F : Type} [Field F] [DecidableEq F] (hf : F)

@[simp] theorem fieldOps_mul (a b : F) : (fieldOps hf).mul a b = a * b := rfl
@[simp] theorem fieldOps_inv (a : F) : (fieldOps hf).inv a = a⁻¹ := rfl

/-- reversed list of the running products of a reversed operand list: for rs = [a_k, …, a_0] the list
    [a_0⋯a_k, a_0⋯a_{k-1}, …, a_0] -/
def revProds : List F → List F
  | [] => []
  | a :: rest => (a * rest.prod) :: revProds rest

theorem invSimPrefix_append : ∀ (xs : List F) (acc z : F),
    invSimPrefix (fieldOps hf) acc (xs ++ [z]) = invSimPrefix (fieldOps hf) acc xs ++ [acc * xs.prod * z]
  | [], acc, z => by simp [invSimPrefix]
  | x :: xs, acc, z => by
    simp only [List.cons_append, invSimPrefix, fieldOps_mul, invSimPrefix_append xs (acc * x) z, List.prod_cons, mul_assoc]

theorem invSimPrefix_reverse (x : F) (xs : List F) :
    (x :: invSimPrefix (fieldOps hf) x xs).reverse = revProds (x :: xs).reverse := by
  induction xs using List.reverseRecOn with
  | nil => simp [invSimPrefix, revProds]
  | append_singleton xs z ih =>
    have e1 : (x :: invSimPrefix (fieldOps hf) x (xs ++ [z])).reverse =
        (x * xs.prod * z) :: (x :: invSimPrefix (fieldOps hf) x xs).reverse := by
      rw [invSimPrefix_append]
      simp
    have e2 : (x :: (xs ++ [z])).reverse = z :: (x :: xs).reverse := by simp
    rw [e1, e2, ih]
    simp only [revProds, List.prod_reverse, List.prod_cons]
    congr 1
    ring

theorem invSimBack_spec : ∀ (rs : List F), rs ≠ [] → (∀ a ∈ rs, a ≠ 0) →
    invSimBack (fieldOps hf) (revProds rs) rs (rs.prod)⁻¹ = (rs.map (·⁻¹)).reverse
  | [], h, _ => absurd rfl h
  | [a], _, _ => by simp [revProds, invSimBack]
  | a :: b :: rest, _, hnz => by
    have ha : a ≠ 0 := hnz a (by simp)
    have hq : (b :: rest).prod ≠ 0 := by
      apply List.prod_ne_zero
      intro h0
      exact hnz 0 (List.mem_cons_of_mem _ h0) rfl
    have ih := invSimBack_spec (b :: rest) (by simp) (fun x hx => hnz x (List.mem_cons_of_mem _ hx))
    have e1 : ((a :: b :: rest).prod)⁻¹ * a = ((b :: rest).prod)⁻¹ := by
      rw [List.prod_cons, mul_inv, mul_comm a⁻¹, mul_assoc, inv_mul_cancel₀ ha, mul_one]
    have e2 : (b :: rest).prod * ((a :: b :: rest).prod)⁻¹ = a⁻¹ := by
      rw [List.prod_cons (a := a), mul_inv, mul_comm a⁻¹, ← mul_assoc, mul_inv_cancel₀ hq, one_mul]
    have hr : revProds (a :: b :: rest) = (a * (b :: rest).prod) :: (b :: rest).prod :: revProds rest := by
      simp [revProds]
    have hr' : revProds (b :: rest) = (b :: rest).prod :: revProds rest := by simp [revProds]
    rw [hr, invSimBack, fieldOps_mul, fieldOps_mul, e1, e2, ← hr', ih]
    simp

/-- **fpN_inv_sim returns the list of inverses** whenever no operand is zero -/
theorem invSim_spec (as : List F) (hnz : ∀ a ∈ as, a ≠ 0) : invSim (fieldOps hf) as = as.map (·⁻¹) := by
  cases as with
  | nil => rfl
  | cons x xs =>
    have hrev := invSimPrefix_reverse hf x xs
    have hlast : (x :: invSimPrefix (fieldOps hf) x xs).getLastD x = (x :: xs).prod := by
      have h1 : (x :: invSimPrefix (fieldOps hf) x xs).getLastD x = ((x :: invSimPrefix (fieldOps hf) x xs).reverse).headD x := by
        rw [List.getLastD_eq_getLast?, List.headD_eq_head?_getD, List.head?_reverse]
      rw [h1, hrev]
      cases hr : (x :: xs).reverse with
      | nil => simp at hr
      | cons a rest =>
        have : (x :: xs).prod = ((x :: xs).reverse).prod := by rw [List.prod_reverse]
        rw [this, hr]
        simp [revProds]
    have hgoal : invSim (fieldOps hf) (x :: xs) =
        invSimBack (fieldOps hf) (x :: invSimPrefix (fieldOps hf) x xs).reverse (x :: xs).reverse
          ((fieldOps hf).inv ((x :: invSimPrefix (fieldOps hf) x xs).getLastD x)) := rfl
    rw [hgoal, hlast, hrev, fieldOps_inv]
    have hp : (x :: xs).prod = ((x :: xs).reverse).prod := by rw [List.prod_reverse]
    rw [hp, invSimBack_spec hf (x :: xs).reverse (by simp) (fun a ha => hnz a (List.mem_reverse.mp ha))]
    simp

end invsim

/-! ### the signed-digit loop of the cyclotomic exponentiations (fpN_exp_cyc, NAF branch)

The loop of fp12_exp_cyc (and fp2/fp8/fp16/fp18/fp24/fp48) — r ← r² (cyclotomic squaring), then r ← r·t[d/2] or
r ← r·conj(t[−d/2]) for the w-NAF digit d, from the top digit down, with t[i] = a^(2i+1) — is the loop `mulSigned` of
Model/MulAlg.lean (already proved for the curve multiplications) read multiplicatively: in any commutative group (the
cyclotomic subgroup, where conjugation is inversion and the special squaring is the squaring) it returns a^k,
k = Σ d_i 2^i the integer the recoding denotes (= the exponent, by the recoding theorem recNaf_spec of C09). -/

section expcyc
open Relic.Model.MulAlg Relic.Model

variable {H : Type} [CommGroup H]

theorem expCycNaf_spec (a : H) (tab : List H) (htab : ∀ i, i < tab.length → tab.getD i 1 = a ^ (2 * (i : ℤ) + 1))
    (ds : List Int) (hd : ∀ d ∈ ds, d = 0 ∨ (d % 2 ≠ 0 ∧ d.natAbs < 2 * tab.length)) :
    mulSigned (⟨1, (· * ·), (·⁻¹)⟩ : MulAlg.Ops H) tab 1 ds = a ^ (Rec.eval 1 ds) := by
  have h := mulSigned_spec (G := Additive H) (Additive.ofMul a) tab
    (by intro i hi; exact htab i hi) ds hd
  exact h

end expcyc

end Relic.Lemmas.Fpx
