/-
The public bn_* layer of the model (RelicVerif/Model/Bn.lean) computes exact integer arithmetic in
normal form. Proofs rest on the digit-level lemmas (BnLowAdd, BnLowMul, BnLowShift, KnuthD).
-/
import RelicVerif.Lemmas.BnLowAdd
import RelicVerif.Lemmas.BnLowMul
import RelicVerif.Lemmas.BnLowShift
import RelicVerif.Lemmas.KnuthD
import RelicVerif.Model.Bn
import RelicVerif.Lemmas.BnTrim

namespace Relic.Model

/-- if the modelled function returns, the result is in normal form and denotes v -/
def ExactR (B : Nat) (r : Option Bn) (v : Int) : Prop := ∀ c, r = some c → c.WF B ∧ c.toInt B = v

variable (cfg : Cfg)

set_option linter.unnecessarySeqFocus false

/-! ### helper lemmas -/

theorem bnAddImp_exact (hB : 1 < cfg.B) (neg : Bool) (a b : Bn)
    (hda : ∀ d ∈ a.dp, d < cfg.B) (hdb : ∀ d ∈ b.dp, d < cfg.B) (hle : b.used ≤ a.used)
    (hb0 : b.used ≠ 0) :
    ExactR cfg.B (bnAddImp cfg neg a b)
      (if neg then -((val cfg.B a.dp + val cfg.B b.dp : Nat) : Int)
       else ((val cfg.B a.dp + val cfg.B b.dp : Nat) : Int)) := by
  intro c hc
  rw [bnAddImp_eq, if_neg hb0] at hc
  obtain ⟨e, c1, d1, l1⟩ := addCore_spec cfg.B hB a.dp b.dp hle hda hdb
  generalize addCore cfg.B a.dp b.dp = p at *
  obtain ⟨r, cy⟩ := p
  simp only at e c1 d1 l1 hc
  split at hc
  · exact absurd hc (by simp)
  · split at hc
    · split at hc
      · exact absurd hc (by simp)
      · simp only [Option.some.injEq] at hc
        subst hc
        have hd : ∀ d ∈ r ++ [cy], d < cfg.B := by
          intro d hd
          rcases List.mem_append.1 hd with hd | hd
          · exact d1 d hd
          · simp at hd; omega
        have := bnTrim_exact (B := cfg.B) (by omega) neg (r ++ [cy]) hd
        rw [High.val_snoc, l1, Nat.mul_comm, e] at this
        exact this
    · simp only [Option.some.injEq] at hc
      subst hc
      have h0 : cy = 0 := by simpa using ‹¬ cy ≠ 0›
      subst h0
      have := bnTrim_exact (B := cfg.B) (by omega) neg r d1
      simp only [Nat.zero_mul, Nat.add_zero] at e
      rw [e] at this
      exact this

theorem bnSubImp_exact (hB : 1 < cfg.B) (neg : Bool) (a b : Bn)
    (hda : ∀ d ∈ a.dp, d < cfg.B) (hdb : ∀ d ∈ b.dp, d < cfg.B) (hle : b.used ≤ a.used)
    (hv : val cfg.B b.dp ≤ val cfg.B a.dp) (hb0 : b.used ≠ 0) :
    ExactR cfg.B (bnSubImp cfg neg a b)
      (if neg then -((val cfg.B a.dp : Int) - (val cfg.B b.dp : Int))
       else ((val cfg.B a.dp : Int) - (val cfg.B b.dp : Int))) := by
  intro c hc
  rw [bnSubImp_eq, if_neg hb0] at hc
  obtain ⟨e, d1, l1⟩ := subCore_spec cfg.B hB a.dp b.dp hle hv hda hdb
  split at hc
  · exact absurd hc (by simp)
  · simp only [Option.some.injEq] at hc
    subst hc
    have := bnTrim_exact (B := cfg.B) (by omega) neg _ d1
    refine ⟨this.1, ?_⟩
    rw [this.2]
    split <;> omega

theorem bnAddSubDig_exact (hB : 1 < cfg.B) (a : Bn) (d : Nat) (s r : Bool) (ha : a.WF cfg.B) (hd : d < cfg.B) :
    ExactR cfg.B (bnAddSubDig cfg a d s r)
      (if s then (if r then -((val cfg.B a.dp : Int) + d) else ((val cfg.B a.dp : Int) + d))
       else (if r then -((d : Int) - (val cfg.B a.dp : Int)) else ((d : Int) - (val cfg.B a.dp : Int)))) := by
  intro c hc
  rw [bnAddSubDig_eq] at hc
  split at hc
  · exact absurd hc (by simp)
  cases s
  · simp only [Bool.false_eq_true, if_false] at hc ⊢
    split at hc
    · rename_i hcond
      obtain ⟨e, c2, d2, l2⟩ := sub1Low_spec cfg.B hB a.dp d hd ha.dig
      have hle : d ≤ val cfg.B a.dp := by
        rcases hcond with h | h
        · have := ha.val_ge (by omega)
          have : cfg.B ^ 1 ≤ cfg.B ^ (a.used - 1) := Nat.pow_le_pow_right (by omega) (by omega)
          rw [Nat.pow_one] at this
          omega
        · match hdp : a.dp with
          | [] => exact absurd hdp ha.1
          | x :: xs => rw [hdp] at h; simp [val] at h ⊢; omega
      have e' := High.borrow_zero cfg.B _ _ _ _ _ d2 l2 (c2 ha.1) e hle
      simp only [Option.some.injEq] at hc
      subst hc
      have := bnTrim_exact (B := cfg.B) (by omega) (!r) _ d2
      refine ⟨this.1, ?_⟩
      rw [this.2]
      cases r <;> simp <;> omega
    · rename_i hcond
      have h1 : a.used = 1 := by have := ha.used_pos; omega
      simp only [Option.some.injEq] at hc
      subst hc
      unfold Bn.used at h1
      match hdp : a.dp with
      | [] => exact absurd hdp ha.1
      | [x] =>
        rw [hdp] at hcond
        simp only [List.getD_cons_zero, not_or] at hcond
        have hx : x < cfg.B := ha.dig x (by simp [hdp])
        have hm : (d + cfg.B - x) % cfg.B = d - x := by
          have : d + cfg.B - x = (d - x) + cfg.B := by omega
          rw [this, Nat.add_mod_right, Nat.mod_eq_of_lt (by omega)]
        simp only [Bn.used, hdp, List.length_singleton, if_true, List.getD_cons_zero, hm]
        have := bnTrim_exact (B := cfg.B) (by omega) r [d - x] (by simp; omega)
        refine ⟨this.1, ?_⟩
        rw [this.2]
        simp only [val, Nat.mul_zero, Nat.add_zero]
        cases r <;> simp <;> omega
      | _ :: _ :: _ => rw [hdp] at h1; simp at h1
  · simp only [if_true] at hc ⊢
    obtain ⟨e, c1, d1, l1⟩ := add1Low_spec cfg.B hB a.dp d hd ha.dig
    have c1 := c1 ha.1
    generalize add1Low cfg.B a.dp d = p at *
    obtain ⟨q, cy⟩ := p
    simp only at e c1 d1 l1 hc
    split at hc
    · split at hc
      · exact absurd hc (by simp)
      · simp only [Option.some.injEq] at hc
        subst hc
        have hd : ∀ d ∈ q ++ [cy], d < cfg.B := by
          intro d hd
          rcases List.mem_append.1 hd with hd | hd
          · exact d1 d hd
          · simp at hd; omega
        have := bnTrim_exact (B := cfg.B) (by omega) r (q ++ [cy]) hd
        rw [High.val_snoc, l1, Nat.mul_comm, e] at this
        refine ⟨this.1, ?_⟩
        rw [this.2]
        cases r <;> simp
    · simp only [Option.some.injEq] at hc
      subst hc
      have h0 : cy = 0 := by simpa using ‹¬ cy ≠ 0›
      subst h0
      have := bnTrim_exact (B := cfg.B) (by omega) r q d1
      simp only [Nat.zero_mul, Nat.add_zero] at e
      rw [e] at this
      refine ⟨this.1, ?_⟩
      rw [this.2]
      cases r <;> simp

/-! ### main theorems -/

theorem bnAdd_exact (hw : 0 < cfg.w) (a b : Bn) (ha : a.WF cfg.B) (hb : b.WF cfg.B) :
    ExactR cfg.B (bnAdd cfg a b) (a.toInt cfg.B + b.toInt cfg.B) := by
  have hB := cfg.one_lt_B hw
  have hlt := bnCmpAbs_lt_iff hB a b ha hb
  unfold bnAdd
  by_cases hs : a.neg = b.neg
  · rw [if_pos hs]
    by_cases hc : bnCmpAbs a b = -1
    · rw [if_pos hc]
      have hv := hlt.1 hc
      have := bnAddImp_exact cfg hB a.neg b a hb.dig ha.dig
        (Bn.WF.used_le_of_val_le hB ha hb (by omega)) ha.used_ne_zero
      convert this using 1
      unfold Bn.toInt; rw [← hs]; split <;> omega
    · rw [if_neg hc]
      have hv : ¬ _ := fun h => hc (hlt.2 h)
      have := bnAddImp_exact cfg hB a.neg a b ha.dig hb.dig
        (Bn.WF.used_le_of_val_le hB hb ha (by omega)) hb.used_ne_zero
      convert this using 1
      unfold Bn.toInt; rw [← hs]; split <;> omega
  · rw [if_neg hs]
    by_cases hc : bnCmpAbs a b = -1
    · rw [if_pos hc]
      have hv := hlt.1 hc
      have := bnSubImp_exact cfg hB b.neg b a hb.dig ha.dig
        (Bn.WF.used_le_of_val_le hB ha hb (by omega)) (by omega) ha.used_ne_zero
      convert this using 1
      unfold Bn.toInt
      cases han : a.neg <;> cases hbn : b.neg <;> simp_all <;> omega
    · rw [if_neg hc]
      have hv : ¬ _ := fun h => hc (hlt.2 h)
      have := bnSubImp_exact cfg hB a.neg a b ha.dig hb.dig
        (Bn.WF.used_le_of_val_le hB hb ha (by omega)) (by omega) hb.used_ne_zero
      convert this using 1
      unfold Bn.toInt
      cases han : a.neg <;> cases hbn : b.neg <;> simp_all <;> omega

theorem bnSub_exact (hw : 0 < cfg.w) (a b : Bn) (ha : a.WF cfg.B) (hb : b.WF cfg.B) :
    ExactR cfg.B (bnSub cfg a b) (a.toInt cfg.B - b.toInt cfg.B) := by
  have hB := cfg.one_lt_B hw
  have hlt := bnCmpAbs_lt_iff hB a b ha hb
  unfold bnSub
  by_cases hs : a.neg ≠ b.neg
  · rw [if_pos hs]
    by_cases hc : bnCmpAbs a b = -1
    · rw [if_pos hc]
      have hv := hlt.1 hc
      have := bnAddImp_exact cfg hB a.neg b a hb.dig ha.dig
        (Bn.WF.used_le_of_val_le hB ha hb (by omega)) ha.used_ne_zero
      convert this using 1
      unfold Bn.toInt
      cases han : a.neg <;> cases hbn : b.neg <;> simp_all <;> omega
    · rw [if_neg hc]
      have hv : ¬ _ := fun h => hc (hlt.2 h)
      have := bnAddImp_exact cfg hB a.neg a b ha.dig hb.dig
        (Bn.WF.used_le_of_val_le hB hb ha (by omega)) hb.used_ne_zero
      convert this using 1
      unfold Bn.toInt
      cases han : a.neg <;> cases hbn : b.neg <;> simp_all <;> omega
  · rw [if_neg hs]
    have hs' : a.neg = b.neg := by simpa using hs
    by_cases hc : bnCmpAbs a b = -1
    · rw [if_neg (by simpa using hc)]
      have hv := hlt.1 hc
      have := bnSubImp_exact cfg hB (!a.neg) b a hb.dig ha.dig
        (Bn.WF.used_le_of_val_le hB ha hb (by omega)) (by omega) ha.used_ne_zero
      convert this using 1
      unfold Bn.toInt
      cases han : a.neg <;> cases hbn : b.neg <;> simp_all <;> omega
    · rw [if_pos hc]
      have hv : ¬ _ := fun h => hc (hlt.2 h)
      have := bnSubImp_exact cfg hB a.neg a b ha.dig hb.dig
        (Bn.WF.used_le_of_val_le hB hb ha (by omega)) (by omega) hb.used_ne_zero
      convert this using 1
      unfold Bn.toInt
      cases han : a.neg <;> cases hbn : b.neg <;> simp_all <;> omega

theorem bnAdd_total (a b : Bn) (h : max a.used b.used < cfg.cap) : (bnAdd cfg a b).isSome := by
  have h1 : a.used < cfg.cap := by omega
  have h2 : b.used < cfg.cap := by omega
  unfold bnAdd
  split <;> split <;> first | exact bnAddImp_total cfg _ _ _ ‹_› | exact bnSubImp_total cfg _ _ _ ‹_›

theorem bnSub_total (a b : Bn) (h : max a.used b.used < cfg.cap) : (bnSub cfg a b).isSome := by
  have h1 : a.used < cfg.cap := by omega
  have h2 : b.used < cfg.cap := by omega
  unfold bnSub
  split <;> split <;> first | exact bnAddImp_total cfg _ _ _ ‹_› | exact bnSubImp_total cfg _ _ _ ‹_›

theorem bnAddDig_exact (hw : 0 < cfg.w) (a : Bn) (d : Nat) (ha : a.WF cfg.B) (hd : d < cfg.B) :
    ExactR cfg.B (bnAddDig cfg a d) (a.toInt cfg.B + d) := by
  have := bnAddSubDig_exact cfg (cfg.one_lt_B hw) a d (!a.neg) false ha hd
  unfold bnAddDig
  convert this using 1
  unfold Bn.toInt
  cases a.neg <;> simp <;> omega

theorem bnSubDig_exact (hw : 0 < cfg.w) (a : Bn) (d : Nat) (ha : a.WF cfg.B) (hd : d < cfg.B) :
    ExactR cfg.B (bnSubDig cfg a d) (a.toInt cfg.B - d) := by
  have := bnAddSubDig_exact cfg (cfg.one_lt_B hw) a d a.neg true ha hd
  unfold bnSubDig
  convert this using 1
  unfold Bn.toInt
  cases a.neg <;> simp <;> omega

theorem bnDbl_exact (hw : 0 < cfg.w) (a : Bn) (ha : a.WF cfg.B) :
    ExactR cfg.B (bnDbl cfg a) (2 * a.toInt cfg.B) := by
  have hB := cfg.one_lt_B hw
  intro c hc
  rw [bnDbl_eq] at hc
  split at hc
  · exact absurd hc (by simp)
  obtain ⟨e, c1, d1, l1⟩ := lsh1Low_spec cfg.w hw a.dp 0 (by omega) ha.dig
  rw [← cfg.B_eq] at e d1
  generalize lsh1Low cfg.w a.dp 0 = p at *
  obtain ⟨q, cy⟩ := p
  simp only at e c1 d1 l1 hc
  split at hc
  · rename_i hcy
    simp only [Option.some.injEq] at hc
    subst hc
    refine ⟨⟨by simp, ?_, Or.inr (by simpa using hcy), ?_⟩, ?_⟩
    · intro d hd
      rcases List.mem_append.1 hd with hd | hd
      · exact d1 d hd
      · simp at hd; omega
    · intro h0
      have : (q ++ [cy]).getLast? = some 0 := by simp only at h0; rw [h0]; rfl
      simp at this; omega
    · unfold Bn.toInt
      simp only [High.val_snoc, l1]
      rw [Nat.mul_comm, e]
      split <;> omega
  · rename_i hcy
    have h0 : cy = 0 := by simpa using hcy
    subst h0
    simp only [Nat.zero_mul, Nat.add_zero] at e
    simp only [Option.some.injEq] at hc
    subst hc
    have hu := ha.used_pos
    unfold Bn.used at hu
    refine ⟨WF_of_val a.neg q ?_ d1 ?_ ?_, ?_⟩
    · intro hq; rw [hq] at l1; simp at l1; omega
    · by_cases h2 : 2 ≤ a.used
      · right
        have := ha.val_ge h2
        unfold Bn.used at this
        rw [l1, e]; omega
      · left; unfold Bn.used at h2; omega
    · intro hv
      have : val cfg.B a.dp = 0 := by omega
      exact ha.2.2.2 ((ha.val_eq_zero_iff hB).1 this)
    · unfold Bn.toInt
      simp only [e]
      split <;> omega

theorem bnLsh_exact (hw : 0 < cfg.w) (a : Bn) (k : Nat) (ha : a.WF cfg.B) :
    ExactR cfg.B (bnLsh cfg a k) (a.toInt cfg.B * 2 ^ k) := by
  have hB := cfg.one_lt_B hw
  intro c hc
  rw [bnLsh_eq] at hc
  by_cases hcap : a.used + k / cfg.w + (if k % cfg.w > 0 then 1 else 0) > cfg.cap
  · rw [if_pos hcap] at hc; exact absurd hc (by simp)
  rw [if_neg hcap] at hc
  have hk : cfg.B ^ (k / cfg.w) * 2 ^ (k % cfg.w) = 2 ^ k := by
    rw [cfg.B_eq, ← Nat.pow_mul, ← Nat.pow_add, Nat.div_add_mod]
  have fin : ∀ (l : List Nat), (∀ d ∈ l, d < cfg.B) → val cfg.B l = 2 ^ k * val cfg.B a.dp →
      (bnTrim { neg := a.neg, dp := l }).WF cfg.B ∧
      (bnTrim { neg := a.neg, dp := l }).toInt cfg.B = a.toInt cfg.B * 2 ^ k := by
    intro l hl hv
    have := bnTrim_exact (B := cfg.B) (by omega) a.neg l hl
    refine ⟨this.1, ?_⟩
    rw [this.2, hv]
    unfold Bn.toInt
    split <;> (push_cast; ring)
  by_cases hbits : k % cfg.w > 0
  · rw [if_pos hbits] at hc
    have hbw : k % cfg.w < cfg.w := Nat.mod_lt _ hw
    obtain ⟨e, c1, d1, l1⟩ := lshbLow_spec cfg.w (k % cfg.w) hbits hbw a.dp 0 (Nat.pow_pos (by omega)) ha.dig
    rw [← cfg.B_eq] at e d1
    generalize lshbLow cfg.w (k % cfg.w) a.dp 0 = p at *
    obtain ⟨q, cy⟩ := p
    simp only at e c1 d1 l1 hc
    have hcy : cy < cfg.B := by
      rw [cfg.B_eq]
      exact Nat.lt_trans c1 (Nat.pow_lt_pow_right (by omega) hbw)
    have hrq : ∀ d ∈ List.replicate (k / cfg.w) 0 ++ q, d < cfg.B := by
      intro d hd
      rcases List.mem_append.1 hd with hd | hd
      · rw [List.mem_replicate] at hd; omega
      · exact d1 d hd
    split at hc
    · simp only [Option.some.injEq] at hc
      subst hc
      apply fin
      · intro d hd
        rcases List.mem_append.1 hd with hd | hd
        · exact hrq d hd
        · simp at hd; omega
      · rw [High.val_snoc, High.val_replicate_zero, List.length_append, List.length_replicate, l1, Nat.pow_add,
          ← hk, Nat.mul_assoc, Nat.mul_assoc, ← Nat.mul_add]
        congr 1
        rw [Nat.mul_comm _ cy]; omega
    · rename_i hcy0
      have h0 : cy = 0 := by simpa using hcy0
      subst h0
      simp only [Option.some.injEq] at hc
      subst hc
      apply fin _ hrq
      rw [High.val_replicate_zero, ← hk, Nat.mul_assoc]
      congr 1
      omega
  · rw [if_neg hbits] at hc
    have hb0 : k % cfg.w = 0 := by omega
    simp only [Option.some.injEq] at hc
    subst hc
    apply fin
    · intro d hd
      rcases List.mem_append.1 hd with hd | hd
      · rw [List.mem_replicate] at hd; omega
      · exact ha.dig d hd
    · rw [High.val_replicate_zero, ← hk, hb0]; simp

theorem bnRsh_exact (hw : 0 < cfg.w) (a : Bn) (k : Nat) (ha : a.WF cfg.B)
    (hg : 0 ≤ a.toInt cfg.B ∨ (2 : Int) ^ k ∣ a.toInt cfg.B) :
    ExactR cfg.B (bnRsh cfg a k) (Int.fdiv (a.toInt cfg.B) (2 ^ k)) := by
  have hB := cfg.one_lt_B hw
  intro c hc
  rw [bnRsh_eq] at hc
  split at hc
  · exact absurd hc (by simp)
  simp only [Option.some.injEq] at hc
  subst hc
  obtain ⟨hv, hd⟩ := rshCore_spec cfg.w hw a.dp k ha.dig
  have hcast : ((2 ^ k : Nat) : Int) = (2 : Int) ^ k := by push_cast; rfl
  rw [← hcast] at hg ⊢
  exact fdiv_fin hB a (2 ^ k) (Nat.pow_pos (by omega)) ha hg _ hd hv

theorem bnHlv_exact (hw : 0 < cfg.w) (a : Bn) (ha : a.WF cfg.B)
    (hg : 0 ≤ a.toInt cfg.B ∨ (2 : Int) ∣ a.toInt cfg.B) :
    ExactR cfg.B (bnHlv cfg a) (Int.fdiv (a.toInt cfg.B) 2) := by
  have hB := cfg.one_lt_B hw
  intro c hc
  unfold bnHlv at hc
  simp only [bnTrim_of_WF ha, Option.some.injEq] at hc
  subst hc
  obtain ⟨hv, _, hd, _⟩ := rsh1Low_spec cfg.w hw a.dp ha.dig
  exact fdiv_fin hB a 2 (by omega) ha hg _ hd hv

theorem bnCmpAbs_exact (hw : 0 < cfg.w) (a b : Bn) (ha : a.WF cfg.B) (hb : b.WF cfg.B) :
    bnCmpAbs a b = (if (a.toInt cfg.B).natAbs < (b.toInt cfg.B).natAbs then -1
                    else if (a.toInt cfg.B).natAbs > (b.toInt cfg.B).natAbs then 1 else 0) := by
  rw [toInt_natAbs, toInt_natAbs]
  exact bnCmpAbs_val (cfg.one_lt_B hw) a b ha hb

theorem bnCmp_exact (hw : 0 < cfg.w) (a b : Bn) (ha : a.WF cfg.B) (hb : b.WF cfg.B) :
    bnCmp a b = (if a.toInt cfg.B < b.toInt cfg.B then -1
                 else if a.toInt cfg.B > b.toInt cfg.B then 1 else 0) := by
  have hB := cfg.one_lt_B hw
  unfold bnCmp
  by_cases hz : (bnIsZero a && bnIsZero b) = true
  · rw [if_pos hz]
    simp only [Bool.and_eq_true] at hz
    have h1 := (ha.isZero_iff hB).1 hz.1
    have h2 := (hb.isZero_iff hB).1 hz.2
    unfold Bn.toInt
    simp [h1, h2]
  · rw [if_neg hz]
    cases han : a.neg <;> cases hbn : b.neg
    · simp only [Bool.not_false, Bool.and_false, Bool.false_and, Bool.false_eq_true, if_false]
      rw [bnCmpAbs_val hB a b ha hb, toInt_of_pos han, toInt_of_pos hbn]
      simp only [Int.ofNat_lt, gt_iff_lt]
    · simp only [Bool.not_false, Bool.and_true, if_true]
      rw [toInt_of_pos han, toInt_of_neg hbn]
      have := hb.neg_pos hB hbn
      rw [if_neg (by omega), if_pos (by omega)]
    · simp only [Bool.not_true, Bool.not_false, Bool.and_false, Bool.false_eq_true, if_false, Bool.and_true, if_true]
      rw [toInt_of_neg han, toInt_of_pos hbn]
      have := ha.neg_pos hB han
      have h : -(val cfg.B a.dp : Int) < (val cfg.B b.dp : Int) := by omega
      rw [if_pos h]
    · simp only [Bool.not_true, Bool.and_false, Bool.and_true, Bool.false_eq_true, if_false, if_true]
      rw [bnCmpAbs_val hB b a hb ha, toInt_of_neg han, toInt_of_neg hbn]
      simp only [Int.neg_lt_neg_iff, Int.ofNat_lt, gt_iff_lt]

theorem bnCmpDig_exact (hw : 0 < cfg.w) (a : Bn) (d : Nat) (ha : a.WF cfg.B) (hd : d < cfg.B) :
    bnCmpDig a d = (if a.toInt cfg.B < d then -1 else if a.toInt cfg.B > d then 1 else 0) := by
  have hB := cfg.one_lt_B hw
  unfold bnCmpDig
  cases han : a.neg
  · simp only [Bool.false_eq_true, if_false]
    rw [toInt_of_pos han]
    by_cases hu : a.used > 1
    · rw [if_pos hu]
      have := ha.val_ge (by omega)
      have : cfg.B ^ 1 ≤ cfg.B ^ (a.used - 1) := Nat.pow_le_pow_right (by omega) (by omega)
      rw [Nat.pow_one] at this
      rw [if_neg (by omega), if_pos (by omega)]
    · rw [if_neg hu]
      have h1 := ha.used_pos
      unfold Bn.used at *
      match hdp : a.dp with
      | [] => exact absurd hdp ha.1
      | [x] =>
        simp only [List.getD_cons_zero, val, Nat.mul_zero, Nat.add_zero, gt_iff_lt, Int.ofNat_lt]
        rcases Nat.lt_trichotomy x d with h | h | h
        · simp [h, Nat.lt_asymm h]
        · simp [h]
        · simp [h, Nat.lt_asymm h]
      | _ :: _ :: _ => rw [hdp] at hu; simp at hu
  · simp only [if_true]
    rw [toInt_of_neg han]
    have := ha.neg_pos hB han
    have h : -(val cfg.B a.dp : Int) < (d : Int) := by omega
    rw [if_pos h]

theorem bnBits_exact (hw : 0 < cfg.w) (a : Bn) (ha : a.WF cfg.B) :
    bnBitsW cfg.w a = (if a.toInt cfg.B = 0 then 0 else Nat.log2 (a.toInt cfg.B).natAbs + 1) := by
  rw [bnBitsW_val cfg hw a ha, toInt_natAbs]
  simp only [toInt_eq_zero_iff]

theorem bnGetBit_exact (hw : 0 < cfg.w) (a : Bn) (k : Nat) (ha : a.WF cfg.B) :
    bnGetBit cfg.w a k = ((a.toInt cfg.B).natAbs >>> k) % 2 := by
  have hB := cfg.one_lt_B hw
  rw [toInt_natAbs, Nat.shiftRight_eq_div_pow]
  unfold bnGetBit
  have hk : cfg.B ^ (k / cfg.w) * 2 ^ (k % cfg.w) = 2 ^ k := by
    rw [cfg.B_eq, ← Nat.pow_mul, ← Nat.pow_add, Nat.div_add_mod]
  split
  · rename_i hgt
    rw [bnBitsW_val cfg hw a ha] at hgt
    have hlt : val cfg.B a.dp < 2 ^ k := by
      split at hgt
      · rename_i h0; rw [h0]; exact Nat.pow_pos (by omega)
      · exact Nat.lt_of_lt_of_le Nat.lt_log2_self (Nat.pow_le_pow_right (by omega) (by omega))
    rw [Nat.div_eq_of_lt hlt]
  · simp only
    split
    · rename_i hge
      have h1 := ha.val_lt
      have h2 : cfg.B ^ a.used ≤ cfg.B ^ (k / cfg.w) := Nat.pow_le_pow_right (by omega) hge
      have h3 : cfg.B ^ (k / cfg.w) * 1 ≤ cfg.B ^ (k / cfg.w) * 2 ^ (k % cfg.w) :=
        Nat.mul_le_mul_left _ (Nat.pow_pos (by omega))
      rw [Nat.div_eq_of_lt (by omega)]
    · rename_i hlt
      have hlt' : k / cfg.w < a.dp.length := by unfold Bn.used at hlt; omega
      rw [Nat.shiftRight_eq_div_pow, Nat.and_one_is_mod, ← hk, ← Nat.div_div_eq_div_mul,
        ← High.val_drop cfg.B a.dp _ ha.dig, List.drop_eq_getElem_cons hlt', val, cfg.B_eq,
        High.digit_bit _ _ _ _ (Nat.mod_lt _ hw)]
      simp [List.getD_eq_getElem?_getD, hlt']

theorem bnSet2b_exact (hw : 0 < cfg.w) (k : Nat) :
    ExactR cfg.B (bnSet2b cfg k) (2 ^ k) ∧ (k < cfg.cap * cfg.w → (bnSet2b cfg k).isSome) := by
  have hB := cfg.one_lt_B hw
  have hd : k / cfg.w < cfg.cap ↔ k < cfg.cap * cfg.w := Nat.div_lt_iff_lt_mul hw
  have heq : bnSet2b cfg k = if k ≥ cfg.cap * cfg.w then none
      else some { neg := false, dp := List.replicate (k / cfg.w) 0 ++ [2 ^ (k % cfg.w)] } := by
    unfold bnSet2b grow
    split
    · rfl
    · rename_i h
      have : ¬ (k / cfg.w + 1 > cfg.cap) := by have := hd.2 (by omega); omega
      simp [this]
  constructor
  · intro c hc
    rw [heq] at hc
    split at hc
    · exact absurd hc (by simp)
    · simp only [Option.some.injEq] at hc
      subst hc
      have hm : 2 ^ (k % cfg.w) < cfg.B := by
        rw [cfg.B_eq]; exact Nat.pow_lt_pow_right (by omega) (Nat.mod_lt _ hw)
      have hp : 0 < 2 ^ (k % cfg.w) := Nat.pow_pos (by omega)
      refine ⟨⟨by simp, ?_, Or.inr ?_, fun _ => rfl⟩, ?_⟩
      · intro d hd
        rcases List.mem_append.1 hd with hd | hd
        · rw [List.mem_replicate] at hd; omega
        · simp at hd; omega
      · simp
      · unfold Bn.toInt
        simp only [Bool.false_eq_true, if_false]
        rw [High.val_replicate_zero, cfg.B_eq]
        simp only [val, Nat.mul_zero, Nat.add_zero]
        rw [← Nat.pow_mul, ← Nat.pow_add, Nat.div_add_mod]
        push_cast; rfl
  · intro h
    rw [heq, if_neg (by omega)]
    rfl


end Relic.Model
