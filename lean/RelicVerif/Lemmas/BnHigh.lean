/-
The public bn_* layer of the model (RelicVerif/Model/Bn.lean) computes exact integer arithmetic in
normal form. Proofs rest on the digit-level lemmas (BnLowAdd, BnLowMul, BnLowShift, KnuthD).
-/
import RelicVerif.Lemmas.BnLowAdd
import RelicVerif.Lemmas.BnLowMul
import RelicVerif.Lemmas.BnLowShift
import RelicVerif.Lemmas.KnuthD
import RelicVerif.Model.Bn

namespace Relic.Model

/-- if the modelled function returns, the result is in normal form and denotes v -/
def ExactR (B : Nat) (r : Option Bn) (v : Int) : Prop := ∀ c, r = some c → c.WF B ∧ c.toInt B = v

variable (cfg : Cfg)

theorem bnAdd_exact (hw : 0 < cfg.w) (a b : Bn) (ha : a.WF cfg.B) (hb : b.WF cfg.B) :
    ExactR cfg.B (bnAdd cfg a b) (a.toInt cfg.B + b.toInt cfg.B) := by sorry

theorem bnSub_exact (hw : 0 < cfg.w) (a b : Bn) (ha : a.WF cfg.B) (hb : b.WF cfg.B) :
    ExactR cfg.B (bnSub cfg a b) (a.toInt cfg.B - b.toInt cfg.B) := by sorry

theorem bnAdd_total (a b : Bn) (h : max a.used b.used < cfg.cap) : (bnAdd cfg a b).isSome := by sorry

theorem bnSub_total (a b : Bn) (h : max a.used b.used < cfg.cap) : (bnSub cfg a b).isSome := by sorry

theorem bnAddDig_exact (hw : 0 < cfg.w) (a : Bn) (d : Nat) (ha : a.WF cfg.B) (hd : d < cfg.B) :
    ExactR cfg.B (bnAddDig cfg a d) (a.toInt cfg.B + d) := by sorry

theorem bnSubDig_exact (hw : 0 < cfg.w) (a : Bn) (d : Nat) (ha : a.WF cfg.B) (hd : d < cfg.B) :
    ExactR cfg.B (bnSubDig cfg a d) (a.toInt cfg.B - d) := by sorry

theorem bnDbl_exact (hw : 0 < cfg.w) (a : Bn) (ha : a.WF cfg.B) :
    ExactR cfg.B (bnDbl cfg a) (2 * a.toInt cfg.B) := by sorry

theorem bnLsh_exact (hw : 0 < cfg.w) (a : Bn) (k : Nat) (ha : a.WF cfg.B) :
    ExactR cfg.B (bnLsh cfg a k) (a.toInt cfg.B * 2 ^ k) := by sorry

theorem bnRsh_exact (hw : 0 < cfg.w) (a : Bn) (k : Nat) (ha : a.WF cfg.B)
    (hg : 0 ≤ a.toInt cfg.B ∨ (2 : Int) ^ k ∣ a.toInt cfg.B) :
    ExactR cfg.B (bnRsh cfg a k) (Int.fdiv (a.toInt cfg.B) (2 ^ k)) := by sorry

theorem bnHlv_exact (hw : 0 < cfg.w) (a : Bn) (ha : a.WF cfg.B)
    (hg : 0 ≤ a.toInt cfg.B ∨ (2 : Int) ∣ a.toInt cfg.B) :
    ExactR cfg.B (bnHlv cfg a) (Int.fdiv (a.toInt cfg.B) 2) := by sorry

theorem bnCmpAbs_exact (hw : 0 < cfg.w) (a b : Bn) (ha : a.WF cfg.B) (hb : b.WF cfg.B) :
    bnCmpAbs a b = (if (a.toInt cfg.B).natAbs < (b.toInt cfg.B).natAbs then -1
                    else if (a.toInt cfg.B).natAbs > (b.toInt cfg.B).natAbs then 1 else 0) := by sorry

theorem bnCmp_exact (hw : 0 < cfg.w) (a b : Bn) (ha : a.WF cfg.B) (hb : b.WF cfg.B) :
    bnCmp a b = (if a.toInt cfg.B < b.toInt cfg.B then -1
                 else if a.toInt cfg.B > b.toInt cfg.B then 1 else 0) := by sorry

theorem bnCmpDig_exact (hw : 0 < cfg.w) (a : Bn) (d : Nat) (ha : a.WF cfg.B) (hd : d < cfg.B) :
    bnCmpDig a d = (if a.toInt cfg.B < d then -1 else if a.toInt cfg.B > d then 1 else 0) := by sorry

theorem bnBits_exact (hw : 0 < cfg.w) (a : Bn) (ha : a.WF cfg.B) :
    bnBitsW cfg.w a = (if a.toInt cfg.B = 0 then 0 else Nat.log2 (a.toInt cfg.B).natAbs + 1) := by sorry

theorem bnGetBit_exact (hw : 0 < cfg.w) (a : Bn) (k : Nat) (ha : a.WF cfg.B) :
    bnGetBit cfg.w a k = ((a.toInt cfg.B).natAbs >>> k) % 2 := by sorry

theorem bnSet2b_exact (hw : 0 < cfg.w) (k : Nat) :
    ExactR cfg.B (bnSet2b cfg k) (2 ^ k) ∧ (k < cfg.cap * cfg.w → (bnSet2b cfg k).isSome) := by sorry


end Relic.Model
