/-
The two fuelled loops of `divnLow`: the quotient-estimate correction loop and the initial
subtract-while-not-less loop. Neither exhausts its fuel.
-/
import RelicVerif.Lemmas.KnuthDList
namespace Relic.Model

theorem qhatLoop_spec (B : Nat) (hB : 1 < B) (bt1 bt a2 a1 a0 : Nat) (hbt1 : bt1 < B) (hbt : bt < B)
    (ha2 : a2 < B) (ha1 : a1 < B) (ha0 : a0 < B) :
    ∀ fuel x, x < B → x < fuel →
      qhatLoop B bt1 bt a2 a1 a0 fuel ((x + 1) % B) ≤ x
      ∧ qhatLoop B bt1 bt a2 a1 a0 fuel ((x + 1) % B) * (bt1 + B * bt) ≤ a2 + B * (a1 + B * a0)
      ∧ ∀ y, y ≤ x → y * (bt1 + B * bt) ≤ a2 + B * (a1 + B * a0) →
          y ≤ qhatLoop B bt1 bt a2 a1 a0 fuel ((x + 1) % B) := by
  intro fuel
  induction fuel with
  | zero => intro x _ h; omega
  | succ fuel ih =>
    intro x hx hf
    have hq' : ((x + 1) % B + B - 1) % B = x := by
      by_cases h : x + 1 < B
      · rw [Nat.mod_eq_of_lt h]
        have : x + 1 + B - 1 = x + B := by omega
        rw [this, Nat.add_mod_right, Nat.mod_eq_of_lt hx]
      · have : x + 1 = B := by omega
        rw [this, Nat.mod_self]
        simp only [Nat.zero_add]
        rw [Nat.mod_eq_of_lt (by omega)]; omega
    have hd2 : ∀ d ∈ [bt1, bt], d < B := by
      intro d hd; simp at hd; rcases hd with rfl | rfl <;> assumption
    obtain ⟨m1, m2, m3, m4⟩ := mul1Low_spec B hB [bt1, bt] x 0 hx (by omega) hd2
    have hd3 : ∀ d ∈ [a2, a1, a0], d < B := by
      intro d hd; simp at hd; rcases hd with rfl | rfl | rfl <;> assumption
    unfold qhatLoop
    simp only [hq']
    generalize mul1Low B [bt1, bt] x 0 = s at m1 m2 m3 m4 ⊢
    obtain ⟨t1, c⟩ := s
    simp only at m1 m2 m3 m4 ⊢
    have hlen : (t1 ++ [c]).length = [a2, a1, a0].length := by simp [m4]
    have hdt : ∀ d ∈ t1 ++ [c], d < B := digs_append m3 (by simpa using m2)
    obtain ⟨c1, _, _⟩ := dvCmp_spec B hB (t1 ++ [c]) [a2, a1, a0] hlen hdt hd3
    have hv1 : val B (t1 ++ [c]) = x * (bt1 + B * bt) := by
      rw [val_append, m4]
      simp only [val, List.length_cons, List.length_nil] at m1 ⊢
      linarith [m1]
    have hv2 : val B [a2, a1, a0] = a2 + B * (a1 + B * a0) := by simp [val]
    rw [hv1, hv2] at c1
    by_cases hgt : x * (bt1 + B * bt) > a2 + B * (a1 + B * a0)
    · rw [if_pos (c1.mpr hgt)]
      have hx1 : 1 ≤ x := by
        rcases Nat.eq_zero_or_pos x with h | h
        · subst h; simp at hgt
        · exact h
      have hxe : x = (x - 1 + 1) % B := by
        rw [Nat.sub_add_cancel hx1, Nat.mod_eq_of_lt hx]
      obtain ⟨i1, i2, i3⟩ := ih (x - 1) (by omega) (by omega)
      rw [← hxe] at i1 i2 i3
      refine ⟨by omega, i2, ?_⟩
      intro y hy hyt
      by_cases hyx : y = x
      · subst hyx; omega
      · exact i3 y (by omega) hyt
    · rw [if_neg (fun h => hgt (c1.mp h))]
      refine ⟨Nat.le_refl _, by omega, fun y hy _ => hy⟩

theorem divTopLoop_spec (B : Nat) (hB : 1 < B) (bs : List Nat) (hbs : ∀ d ∈ bs, d < B) :
    ∀ fuel (a : List Nat) (cnt : Nat), a.length = bs.length → (∀ d ∈ a, d < B) →
      val B a < fuel * val B bs → cnt + fuel ≤ B →
      ∃ m, (divTopLoop B bs fuel a cnt).2 = cnt + m ∧ cnt + m < B
        ∧ val B (divTopLoop B bs fuel a cnt).1 + m * val B bs = val B a
        ∧ val B (divTopLoop B bs fuel a cnt).1 < val B bs
        ∧ (∀ d ∈ (divTopLoop B bs fuel a cnt).1, d < B)
        ∧ (divTopLoop B bs fuel a cnt).1.length = a.length := by
  intro fuel
  induction fuel with
  | zero => intro a cnt _ _ h; omega
  | succ fuel ih =>
    intro a cnt hl ha hv hc
    obtain ⟨_, c2, _⟩ := dvCmp_spec B hB a bs hl ha hbs
    unfold divTopLoop
    by_cases hlt : val B a < val B bs
    · rw [if_neg (by rw [not_not]; exact c2.mpr hlt)]
      exact ⟨0, rfl, by omega, by simp, hlt, ha, rfl⟩
    · rw [if_pos (fun h => hlt (c2.mp h))]
      obtain ⟨s1, s2, s3, s4⟩ := subnLow_spec B hB a bs 0 hl (by omega) ha hbs
      have hlt' := val_lt B _ s3
      rw [s4] at hlt'
      have hc0 : (subnLow B a bs 0).2 = 0 := by
        by_contra hne
        have : (subnLow B a bs 0).2 = 1 := by omega
        rw [this] at s1
        omega
      rw [hc0] at s1
      have hv' : val B (subnLow B a bs 0).1 < fuel * val B bs := by
        have : (fuel + 1) * val B bs = fuel * val B bs + val B bs := by ring
        omega
      have hf : 0 < fuel := by
        rcases Nat.eq_zero_or_pos fuel with h | h
        · subst h; omega
        · exact h
      have hcm : (cnt + 1) % B = cnt + 1 := Nat.mod_eq_of_lt (by omega)
      rw [hcm]
      obtain ⟨m, e1, e2, e3, e4, e5, e6⟩ :=
        ih (subnLow B a bs 0).1 (cnt + 1) (by rw [s4, hl]) s3 hv' (by omega)
      refine ⟨m + 1, by rw [e1]; omega, by omega, ?_, e4, e5, by rw [e6, s4]⟩
      have : (m + 1) * val B bs = m * val B bs + val B bs := by ring
      omega

end Relic.Model
