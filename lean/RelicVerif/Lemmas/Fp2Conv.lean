/-
Lemmas about the fp2 element-encoding model (Model/Fp2Conv.lean): an accepted packed string denotes a unitary element with the stated
parity, parity bytes above 1 are rejected, decode(encode(a)) = a in the plain and in the packed format (the latter for a prime modulus,
under the contracts of the field square root and of the parity of the stored form).
-/
import Mathlib.Data.ZMod.Basic
import Mathlib.Data.Nat.Prime.Basic
import Mathlib.Algebra.Field.ZMod
import Mathlib.Tactic.Ring
import Mathlib.Tactic.LinearCombination
import RelicVerif.Lemmas.Ep2Conv
import RelicVerif.Model.Fp2Conv

namespace Relic.Lemmas.Fp2Conv
open Relic.Model.Fp2Conv
open Relic.Model.Ep2Conv (Bytes beBytes beVal)
open Relic.Lemmas.Ep2Conv (beBytes_length beVal_beBytes)

/-- fp_srt returns only reduced square roots -/
def SrtSound (x : Ctx) : Prop := ∀ t r, x.srt t = some r → r < x.p ∧ r * r % x.p = t % x.p

/-- β⁻¹ is the inverse of β -/
def QinvOk (x : Ctx) : Prop := x.qinv * x.qnr % x.p = 1 % x.p ∧ x.qnr ≤ x.p

/-- a parity byte above 1 is never accepted -/
theorem readBin_parity_rejected (x : Ctx) (bin : Bytes) (hl : bin.length = x.nb + 1) (hpar : bin.getD x.nb 0 > 1) :
    readBin x bin = none := by
  unfold readBin
  rw [if_pos hl]
  simp only
  rw [if_pos hpar]

theorem upk_some (x : Ctx) (a0 par a1 : Nat) (h : upk x a0 par = some a1) :
    ∃ r, x.srt ((a0 * a0 + x.p - 1) % x.p * x.qinv % x.p) = some r ∧ (a1 = r ∨ a1 = (x.p - r) % x.p) ∧ x.bit a1 = par := by
  unfold upk at h
  split at h
  · simp at h
  · next r hr =>
    refine ⟨r, hr, ?_⟩
    simp only at h
    by_cases hb : x.bit r ≠ par
    · rw [if_pos hb] at h
      by_cases hb2 : x.bit ((x.p - r) % x.p) = par
      · rw [if_pos hb2] at h
        simp only [Option.some.injEq] at h
        subst h
        exact ⟨Or.inr rfl, hb2⟩
      · rw [if_neg hb2] at h; simp at h
    · rw [if_neg hb] at h
      have hb' : x.bit r = par := by simpa using hb
      rw [if_pos hb'] at h
      simp only [Option.some.injEq] at h
      subst h
      exact ⟨Or.inl rfl, hb'⟩

/-- every accepted packed string denotes a unitary element with a reduced first coefficient and a second coefficient of the stated parity -/
theorem readBin_packed_valid (x : Ctx) (hp : 1 < x.p) (hs : SrtSound x) (hq : QinvOk x) (bin : Bytes) (a0 a1 : Nat)
    (hl : bin.length = x.nb + 1) (h : readBin x bin = some (a0, a1)) :
    unitary x a0 a1 = true ∧ a0 < x.p ∧ a0 = beVal (bin.take x.nb) ∧ x.bit a1 = bin.getD x.nb 0 := by
  unfold readBin at h
  rw [if_pos hl] at h
  simp only at h
  by_cases hpar : bin.getD x.nb 0 > 1
  · rw [if_pos hpar] at h; simp at h
  · rw [if_neg hpar] at h
    by_cases hlt : beVal (bin.take x.nb) < x.p
    · rw [if_pos hlt] at h
      cases hu : upk x (beVal (bin.take x.nb)) (bin.getD x.nb 0) with
      | none => rw [hu] at h; simp at h
      | some a =>
        rw [hu] at h
        simp only [Option.map_some, Option.some.injEq, Prod.mk.injEq] at h
        obtain ⟨h0, h1⟩ := h
        subst h0
        subst h1
        obtain ⟨r, hr, hor, hbit⟩ := upk_some x _ _ _ hu
        refine ⟨?_, hlt, rfl, hbit⟩
        obtain ⟨hrlt, hrr⟩ := hs _ _ hr
        haveI : NeZero x.p := ⟨by omega⟩
        have e1 := (ZMod.natCast_eq_natCast_iff' _ _ _).mpr hrr
        have e2 := (ZMod.natCast_eq_natCast_iff' _ _ _).mpr hq.1
        have hsub : 1 ≤ beVal (List.take x.nb bin) * beVal (List.take x.nb bin) + x.p := by omega
        have hsq : ((a : ZMod x.p)) * a = (r : ZMod x.p) * r := by
          rcases hor with h | h
          · rw [h]
          · rw [h, ZMod.natCast_mod, Nat.cast_sub (Nat.le_of_lt hrlt), ZMod.natCast_self]; ring
        unfold unitary
        rw [beq_iff_eq]
        apply (ZMod.natCast_eq_natCast_iff' _ _ _).mp
        push_cast [ZMod.natCast_mod, Nat.cast_sub hq.2, Nat.cast_sub hsub, ZMod.natCast_self] at e1 e2 ⊢
        rw [hsq]
        linear_combination (-(x.qnr : ZMod x.p)) * e1 +
          (-((beVal (List.take x.nb bin) : ZMod x.p) * (beVal (List.take x.nb bin) : ZMod x.p) - 1)) * e2
    · rw [if_neg hlt] at h; simp at h

/-- decode(encode(a)) = a in the plain format -/
theorem readBin_writeBin_plain (x : Ctx) (a0 a1 : Nat) (hnb : 1 < x.nb) (hp : x.p ≤ 256 ^ x.nb) (h0 : a0 < x.p) (h1 : a1 < x.p) :
    readBin x (beBytes a0 x.nb ++ beBytes a1 x.nb) = some (a0, a1) := by
  unfold readBin
  have hl : (beBytes a0 x.nb ++ beBytes a1 x.nb).length = 2 * x.nb := by simp [beBytes_length]; omega
  have hne : ¬ (2 * x.nb = x.nb + 1) := by omega
  have ht : (beBytes a0 x.nb ++ beBytes a1 x.nb).take x.nb = beBytes a0 x.nb := by
    rw [List.take_append_of_le_length (by simp [beBytes_length])]
    exact List.take_of_length_le (by simp [beBytes_length])
  have hd : (beBytes a0 x.nb ++ beBytes a1 x.nb).drop x.nb = beBytes a1 x.nb := by
    rw [List.drop_append_of_le_length (by simp [beBytes_length]), List.drop_of_length_le (by simp [beBytes_length])]
    simp
  rw [hl]
  simp only [hne, if_false, if_true, ht, hd]
  rw [beVal_beBytes _ _ (by omega), beVal_beBytes _ _ (by omega)]
  simp [h0, h1]

/-- fp_srt finds a root whenever one exists -/
def SrtComplete (x : Ctx) : Prop := ∀ t y, y < x.p → y * y % x.p = t % x.p → ∃ r, x.srt t = some r

/-- the parity of the stored form separates a non-zero residue from its negative (p odd: a·R mod p and p − a·R mod p differ in parity) -/
def BitSep (x : Ctx) : Prop := ∀ a, 0 < a → a < x.p → x.bit (x.p - a) ≠ x.bit a

theorem upk_unitary (x : Ctx) (hprime : Nat.Prime x.p) (hs : SrtSound x) (hc : SrtComplete x) (hq : QinvOk x) (hsep : BitSep x)
    (a0 a1 : Nat) (h1 : a1 < x.p) (hu : unitary x a0 a1 = true) : upk x a0 (x.bit a1) = some a1 := by
  have hp1 : 1 < x.p := hprime.one_lt
  haveI : Fact x.p.Prime := ⟨hprime⟩
  have hsub : 1 ≤ a0 * a0 + x.p := by omega
  -- a1² = (a0² − 1)/β
  have e2 := (ZMod.natCast_eq_natCast_iff' _ _ _).mpr hq.1
  unfold unitary at hu
  rw [beq_iff_eq] at hu
  have e3 := (ZMod.natCast_eq_natCast_iff' _ _ _).mpr hu
  have hsq : a1 * a1 % x.p = ((a0 * a0 + x.p - 1) % x.p * x.qinv % x.p) % x.p := by
    apply (ZMod.natCast_eq_natCast_iff' _ _ _).mp
    push_cast [ZMod.natCast_mod, Nat.cast_sub hq.2, Nat.cast_sub hsub, ZMod.natCast_self] at e2 e3 ⊢
    linear_combination (-(x.qinv : ZMod x.p)) * e3 + (-((a1 : ZMod x.p) * a1)) * e2
  obtain ⟨r, hr⟩ := hc _ a1 h1 hsq
  obtain ⟨hrlt, hrr⟩ := hs _ _ hr
  -- r = ±a1
  have hrr' : r * r % x.p = a1 * a1 % x.p := by rw [hrr, hsq]
  have e4 := (ZMod.natCast_eq_natCast_iff' _ _ _).mpr hrr'
  push_cast at e4
  have hfac : ((r : ZMod x.p) - a1) * ((r : ZMod x.p) + a1) = 0 := by linear_combination e4
  unfold upk
  rw [hr]
  simp only
  rcases mul_eq_zero.mp hfac with h | h
  · -- r = a1
    have : (r : ZMod x.p) = a1 := by linear_combination h
    have hra : r = a1 := by
      have := (ZMod.natCast_eq_natCast_iff' _ _ _).mp this
      rwa [Nat.mod_eq_of_lt hrlt, Nat.mod_eq_of_lt h1] at this
    subst hra
    simp
  · -- r = p − a1
    by_cases ha : a1 = 0
    · subst ha
      have : (r : ZMod x.p) = 0 := by simpa using h
      have hr0 : r = 0 := by
        have := (ZMod.natCast_eq_zero_iff _ _).mp this
        exact Nat.eq_zero_of_dvd_of_lt this hrlt
      subst hr0
      simp
    · have hra : r = x.p - a1 := by
        have : (r : ZMod x.p) = ((x.p - a1 : Nat) : ZMod x.p) := by
          rw [Nat.cast_sub (Nat.le_of_lt h1), ZMod.natCast_self]; linear_combination h
        have := (ZMod.natCast_eq_natCast_iff' _ _ _).mp this
        rwa [Nat.mod_eq_of_lt hrlt, Nat.mod_eq_of_lt (by omega)] at this
      have hne : x.bit r ≠ x.bit a1 := by rw [hra]; exact hsep a1 (by omega) h1
      have hback : (x.p - r) % x.p = a1 := by rw [hra, Nat.sub_sub_self (Nat.le_of_lt h1), Nat.mod_eq_of_lt h1]
      rw [if_pos hne, hback]
      simp

/-- decode(encode(a)) = a in the packed format, for every unitary element with reduced coefficients -/
theorem readBin_writeBin_packed (x : Ctx) (hprime : Nat.Prime x.p) (hs : SrtSound x) (hc : SrtComplete x) (hq : QinvOk x)
    (hsep : BitSep x) (hbit : ∀ a, x.bit a ≤ 1) (hnb : 0 < x.nb) (hp : x.p ≤ 256 ^ x.nb) (a0 a1 : Nat) (h0 : a0 < x.p) (h1 : a1 < x.p)
    (hu : unitary x a0 a1 = true) :
    (writeBin x (sizeBin x a0 a1 true) a0 a1 true).bind (readBin x) = some (a0, a1) := by
  unfold writeBin sizeBin
  simp only [hu, Bool.and_self, if_true, Nat.lt_irrefl, if_false, Option.bind_some]
  unfold readBin
  have hl : (beBytes a0 x.nb ++ [x.bit a1]).length = x.nb + 1 := by simp [beBytes_length]
  have ht : (beBytes a0 x.nb ++ [x.bit a1]).take x.nb = beBytes a0 x.nb := by
    rw [List.take_append_of_le_length (by simp [beBytes_length])]
    exact List.take_of_length_le (by simp [beBytes_length])
  have hg : (beBytes a0 x.nb ++ [x.bit a1]).getD x.nb 0 = x.bit a1 := by
    rw [List.getD_eq_getElem?_getD, List.getElem?_append_right (by simp [beBytes_length])]
    simp [beBytes_length]
  rw [if_pos hl]
  simp only [ht, hg]
  have hb := hbit a1
  rw [if_neg (by omega), beVal_beBytes _ _ (by omega), if_pos h0, upk_unitary x hprime hs hc hq hsep a0 a1 h1 hu]
  rfl

end Relic.Lemmas.Fp2Conv
