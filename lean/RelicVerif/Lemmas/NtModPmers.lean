/- Proofs about the pseudo-Mersenne reduction model of Model/NtMod.lean: the folding loop terminates within the supplied fuel for every
   modulus (u = 2^bits - m ≤ 2^(bits-1) halves q in every round) and the result is the residue. -/
import RelicVerif.Lemmas.NtMod
import RelicVerif.Lemmas.NtModBarrt

namespace Relic.Lemmas.NtMod
open Relic.Model.NtMod

/-- the folding loop: with 0 ≤ u, 2u ≤ P = 2^bits and q < 2^f the loop ends within f + 1 rounds, keeps c ≥ 0 and preserves
    c + q·P modulo m = P - u -/
theorem pmersFold_spec (bits : Nat) (u : Int) (hu0 : 0 ≤ u) (hu : 2 * u ≤ (2 : Int) ^ bits) :
    ∀ (f : Nat) (c q : Int) (n : Nat), 0 ≤ c → 0 ≤ q → q < (2 : Int) ^ f →
    ∃ c' n', pmersFold bits u (f + 1) c q n = some (c', n') ∧ 0 ≤ c' ∧
      c' % ((2 : Int) ^ bits - u) = (c + q * (2 : Int) ^ bits) % ((2 : Int) ^ bits - u) := by
  have hP : (0 : Int) < (2 : Int) ^ bits := by positivity
  generalize hPd : (2 : Int) ^ bits = P at *
  intro f
  induction f with
  | zero =>
    intro c q n hc hq hq1
    have : q = 0 := by simp at hq1; omega
    subst this
    exact ⟨c, n, by simp [pmersFold], hc, by simp⟩
  | succ f ih =>
    intro c q n hc hq hq1
    by_cases h0 : q = 0
    · subst h0
      exact ⟨c, n, by simp [pmersFold], hc, by simp⟩
    · rw [pmersFold, if_neg h0]
      simp only [hPd]
      have ht0 : 0 ≤ q * u := mul_nonneg hq hu0
      have hq'0 : 0 ≤ q * u / P := Int.ediv_nonneg ht0 hP.le
      have hr0 : 0 ≤ q * u % P := Int.emod_nonneg _ hP.ne'
      have hq'1 : q * u / P < (2 : Int) ^ f := by
        have h1 : q * u / P * P ≤ q * u := Int.ediv_mul_le _ hP.ne'
        have h2 : q * (2 * u) ≤ q * P := mul_le_mul_of_nonneg_left hu hq
        have h3 : (2 * (q * u / P)) * P ≤ q * P := by nlinarith
        have h4 : 2 * (q * u / P) ≤ q := le_of_mul_le_mul_right h3 hP
        have : (2 : Int) ^ (f + 1) = 2 * 2 ^ f := by rw [pow_succ]; ring
        linarith
      obtain ⟨c', n', hv, hc', hmod⟩ := ih (c + q * u % P) (q * u / P) (n + 1) (by linarith) hq'0 hq'1
      refine ⟨c', n', hv, hc', ?_⟩
      rw [hmod]
      have e : q * u % P + q * u / P * P = q * u := Int.emod_add_ediv_mul _ _
      have : c + q * P = (c + q * u % P + q * u / P * P) + q * (P - u) := by linarith [mul_sub q P u]
      rw [this, Int.add_mul_emod_self_right]

/-- bn_mod_pre_pmers then bn_mod_pmers for EVERY integer a and m > 0 (code after fix 060ee71): the folding loop terminates within the
    supplied fuel and the result is a mod m -/
theorem modPmersFull_spec (a m : Int) (hm : 0 < m) :
    ∃ r n, modPmersFull a m = some (a % m, r, n) := by
  have hmn : ¬ m ≤ 0 := not_le.mpr hm
  have hmt : (m.toNat : Int) = m := Int.toNat_of_nonneg hm.le
  have hmne : m.toNat ≠ 0 := by omega
  simp only [modPmersFull, prePmers, modPmers, hmn, if_false]
  -- bounds on u = 2^bits - m
  have hlt : m < (2 : Int) ^ bitLen m.toNat := by
    conv_lhs => rw [← hmt]
    exact_mod_cast bitLen_lt m.toNat
  have hle : (2 : Int) ^ bitLen m.toNat ≤ 2 * m := by
    have h1 := bitLen_le m.toNat hmne
    have h2 : 1 ≤ bitLen m.toNat := by unfold bitLen; simp [hmne]
    have h3 : (2 : Int) ^ (bitLen m.toNat - 1) ≤ m := by
      conv_rhs => rw [← hmt]
      exact_mod_cast h1
    have h4 : (2 : Int) ^ bitLen m.toNat = 2 * 2 ^ (bitLen m.toNat - 1) := by
      conv_lhs => rw [show bitLen m.toNat = (bitLen m.toNat - 1) + 1 by omega]
      rw [pow_succ]; ring
    linarith
  generalize hbits : bitLen m.toNat = bits at *
  have hP : (0 : Int) < (2 : Int) ^ bits := by positivity
  generalize hc : (if a < 0 then m - a else a) = c
  have hc0 : 0 ≤ c := by rw [← hc]; split_ifs <;> omega
  have hq0 : 0 ≤ c / (2 : Int) ^ bits := Int.ediv_nonneg hc0 hP.le
  have hqf : c / (2 : Int) ^ bits < (2 : Int) ^ bitLen (c / (2 : Int) ^ bits).toNat := by
    conv_lhs => rw [← Int.toNat_of_nonneg hq0]
    exact_mod_cast bitLen_lt _
  obtain ⟨c', n', hv, hc', hmod⟩ := pmersFold_spec bits ((2 : Int) ^ bits - m) (by linarith) (by linarith)
    (bitLen (c / (2 : Int) ^ bits).toNat) (c % (2 : Int) ^ bits) (c / (2 : Int) ^ bits) 0
    (Int.emod_nonneg _ hP.ne') hq0 hqf
  have hmm : (2 : Int) ^ bits - ((2 : Int) ^ bits - m) = m := by ring
  rw [hmm, Int.emod_add_ediv_mul] at hmod
  rw [hv]
  simp only [subAll_spec m c' hm hc', hmod]
  refine ⟨n', (c' / m).toNat, ?_⟩
  have : c % m = if a < 0 then (-a) % m else a % m := by
    rw [← hc]
    split_ifs with h
    · have : m - a = -a + 1 * m := by ring
      rw [this, Int.add_mul_emod_self_right]
    · rfl
  rw [this]
  by_cases hneg : a < 0
  · simp only [hneg, if_true, true_and]
    rw [neg_residue a m hm]
    by_cases hz : (-a) % m = 0
    · simp [hz]
    · simp [hz]
  · simp [hneg]

end Relic.Lemmas.NtMod
